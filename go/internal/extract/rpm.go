package extract

import (
	"fmt"
	"go/ast"
	"go/token"
	"sort"
	"strconv"
	"strings"
)

// Rpm: the facts of the rpm header reader that are tables rather than logic:
//   - the numeric values of the Tag and Kind constants (from the stringer file,
//     which the compiler checks against the constants),
//   - tagTable (tag -> declared data type), used by checkTagType,
//   - wantTags of rpm/native_db.go,
//   - for every `case rpm.TagX:` of the switch in Info.Load the Go type the
//     value is asserted to have and whether the assertion is checked
//     (`tagValue[T](e, v)`, whose body must use the comma-ok form) or a bare
//     `v.(T)` that panics on a mismatch.
func init() {
	Register(Gen{Name: "Rpm", Run: func(repo string) (string, error) {
		vals, err := stringerValues(repo, "rpm/internal/rpm/tag_string.go")
		if err != nil {
			return "", err
		}
		out := Header("Rpm", "rpm/internal/rpm/tag_string.go", "rpm/internal/rpm/tag_table.go", "rpm/native_db.go")
		// Kind constants
		kinds := []string{"TypeNull", "TypeChar", "TypeInt8", "TypeInt16", "TypeInt32", "TypeInt64", "TypeString", "TypeBin", "TypeStringArray", "TypeI18nString"}
		for _, k := range kinds {
			v, ok := vals[k]
			if !ok {
				return "", fmt.Errorf("constant %s not in the stringer file", k)
			}
			out += fmt.Sprintf("def %s : Nat := %d\n", lower(k), v)
		}
		for _, k := range []string{"TagHeaderImage", "TagHeaderSignatures", "TagHeaderImmutable", "TagHeaderI18nTable"} {
			v, ok := vals[k]
			if !ok {
				return "", fmt.Errorf("constant %s not in the stringer file", k)
			}
			out += fmt.Sprintf("def %s : Int := %d\n", lower(k), v)
		}
		// tagTable
		_, tf, err := ParseFile(repo, "rpm/internal/rpm/tag_table.go")
		if err != nil {
			return "", err
		}
		var rows []string
		found := false
		ast.Inspect(tf, func(n ast.Node) bool {
			vs, ok := n.(*ast.ValueSpec)
			if !ok || len(vs.Names) != 1 || vs.Names[0].Name != "tagTable" || len(vs.Values) != 1 {
				return true
			}
			cl, ok := vs.Values[0].(*ast.CompositeLit)
			if !ok {
				return true
			}
			found = true
			for _, el := range cl.Elts {
				row, ok := el.(*ast.CompositeLit)
				if !ok || len(row.Elts) < 3 {
					err = fmt.Errorf("tagTable row of unexpected shape")
					return false
				}
				tag, ok1 := row.Elts[1].(*ast.Ident)
				typ, ok2 := row.Elts[2].(*ast.Ident)
				if !ok1 || !ok2 {
					err = fmt.Errorf("tagTable row of unexpected shape")
					return false
				}
				tv, ok1 := vals[tag.Name]
				kv, ok2 := vals[typ.Name]
				if !ok1 || !ok2 {
					err = fmt.Errorf("tagTable mentions unknown constant %s/%s", tag.Name, typ.Name)
					return false
				}
				rows = append(rows, fmt.Sprintf("(%d, %d)", tv, kv))
			}
			return false
		})
		if err != nil {
			return "", err
		}
		if !found || len(rows) == 0 {
			return "", fmt.Errorf("tagTable not found")
		}
		out += "\n/-- (tag, declared type) rows of tagTable, in source order -/\ndef tagTable : List (Int × Nat) := [\n  " + strings.Join(rows, ",\n  ") + "]\n"

		// wantTags and Load
		_, nf, err := ParseFile(repo, "rpm/native_db.go")
		if err != nil {
			return "", err
		}
		var want []int64
		foundWant := false
		ast.Inspect(nf, func(n ast.Node) bool {
			vs, ok := n.(*ast.ValueSpec)
			if !ok || len(vs.Names) != 1 || vs.Names[0].Name != "wantTags" || len(vs.Values) != 1 {
				return true
			}
			cl, ok := vs.Values[0].(*ast.CompositeLit)
			if !ok {
				return true
			}
			foundWant = true
			for _, el := range cl.Elts {
				kv, ok := el.(*ast.KeyValueExpr)
				if !ok {
					err = fmt.Errorf("wantTags element of unexpected shape")
					return false
				}
				name := selName(kv.Key)
				v, ok := vals[name]
				if !ok {
					err = fmt.Errorf("wantTags mentions unknown tag %q", name)
					return false
				}
				want = append(want, v)
			}
			return false
		})
		if err != nil {
			return "", err
		}
		if !foundWant {
			return "", fmt.Errorf("wantTags not found")
		}
		sort.Slice(want, func(i, j int) bool { return want[i] < want[j] })
		out += "\ndef wantTags : List Int := " + LeanNatList(want) + "\n"

		// is tagValue's own assertion checked?
		helperChecked := false
		if fd := FuncDecl(nf, "", "tagValue"); fd != nil {
			ast.Inspect(fd.Body, func(n ast.Node) bool {
				as, ok := n.(*ast.AssignStmt)
				if ok && len(as.Lhs) == 2 && len(as.Rhs) == 1 {
					if _, ok := as.Rhs[0].(*ast.TypeAssertExpr); ok {
						helperChecked = true
					}
				}
				return true
			})
		}
		load := FuncDecl(nf, "Info", "Load")
		if load == nil {
			return "", fmt.Errorf("Info.Load not found")
		}
		type assertRow struct {
			tag     int64
			typ     string
			checked bool
		}
		var asserts []assertRow
		var sw *ast.SwitchStmt
		ast.Inspect(load.Body, func(n ast.Node) bool {
			s, ok := n.(*ast.SwitchStmt)
			if ok && sw == nil {
				if sel, ok := s.Tag.(*ast.SelectorExpr); ok && sel.Sel.Name == "Tag" {
					sw = s
					return false
				}
			}
			return true
		})
		if sw == nil {
			return "", fmt.Errorf("switch e.Tag in Info.Load not found")
		}
		for _, st := range sw.Body.List {
			cc, ok := st.(*ast.CaseClause)
			if !ok {
				continue
			}
			for _, ce := range cc.List {
				name := selName(ce)
				tv, ok := vals[name]
				if !ok {
					return "", fmt.Errorf("Info.Load case mentions unknown tag %q", name)
				}
				n := 0
				// comma-ok assertions written inline count as checked
				okForm := map[*ast.TypeAssertExpr]bool{}
				for _, b := range cc.Body {
					ast.Inspect(b, func(n ast.Node) bool {
						if as, ok := n.(*ast.AssignStmt); ok && len(as.Lhs) == 2 && len(as.Rhs) == 1 {
							if ta, ok := as.Rhs[0].(*ast.TypeAssertExpr); ok {
								okForm[ta] = true
							}
						}
						return true
					})
				}
				for _, b := range cc.Body {
					ast.Inspect(b, func(nd ast.Node) bool {
						switch x := nd.(type) {
						case *ast.TypeAssertExpr:
							if x.Type != nil {
								asserts = append(asserts, assertRow{tv, typeString(x.Type), okForm[x]})
								n++
							}
						case *ast.CallExpr:
							if ix, ok := x.Fun.(*ast.IndexExpr); ok {
								if id, ok := ix.X.(*ast.Ident); ok && id.Name == "tagValue" {
									asserts = append(asserts, assertRow{tv, typeString(ix.Index), helperChecked})
									n++
								}
							}
						}
						return true
					})
				}
				if n == 0 {
					return "", fmt.Errorf("Info.Load case %s: no type assertion recognised", name)
				}
			}
		}
		// does the Filenames case skip empty names before slicing name[1:]?
		guardsEmpty := false
		for _, st := range sw.Body.List {
			cc, ok := st.(*ast.CaseClause)
			if !ok || len(cc.List) != 1 || selName(cc.List[0]) != "TagFilenames" {
				continue
			}
			for _, b := range cc.Body {
				ast.Inspect(b, func(n ast.Node) bool {
					if is, ok := n.(*ast.IfStmt); ok && strings.HasPrefix(exprString(is.Cond), `name != "" &&`) {
						guardsEmpty = true
					}
					return true
				})
			}
		}
		sort.SliceStable(asserts, func(i, j int) bool { return asserts[i].tag < asserts[j].tag })
		out += "\n/-- (tag, asserted Go type, assertion is checked) for every case of the switch in Info.Load -/\ndef loadAsserts : List (Int × String × Bool) := [\n"
		for i, a := range asserts {
			sep := ","
			if i == len(asserts)-1 {
				sep = ""
			}
			out += fmt.Sprintf("  (%d, %s, %v)%s\n", a.tag, LeanString(a.typ), a.checked, sep)
		}
		out += "]\n"
		out += fmt.Sprintf("\n/-- the Filenames case of Info.Load skips empty names before `name[1:]` -/\ndef filenamesGuardsEmpty : Bool := %v\n", guardsEmpty)

		// The file name loop of Info.Load (`for j := range basename`): is a
		// deferred function calling recover() installed before it, and does the
		// Filenames case record the names that do NOT match filePatterns?
		underRecover := false
		seenLoop := false
		for _, st := range load.Body.List {
			switch x := st.(type) {
			case *ast.DeferStmt:
				if seenLoop {
					continue
				}
				ast.Inspect(x, func(n ast.Node) bool {
					if c, ok := n.(*ast.CallExpr); ok {
						if id, ok := c.Fun.(*ast.Ident); ok && id.Name == "recover" {
							underRecover = true
						}
					}
					return true
				})
			case *ast.RangeStmt:
				if exprString(x.X) == "basename" {
					seenLoop = true
				}
			}
		}
		if !seenLoop {
			return "", fmt.Errorf("Info.Load: the loop over basename was not found")
		}
		out += fmt.Sprintf("\n/-- the loop over basename in Info.Load runs after a deferred recover() -/\ndef fileLoopUnderRecover : Bool := %v\n", underRecover)
		// filePatterns: the list of alternatives joined with `|`
		var pats []string
		for _, d := range nf.Decls {
			fd, ok := d.(*ast.FuncDecl)
			if !ok || fd.Name.Name != "init" || fd.Recv != nil {
				continue
			}
			ast.Inspect(fd.Body, func(n ast.Node) bool {
				as, ok := n.(*ast.AssignStmt)
				if !ok || len(as.Lhs) != 1 || len(as.Rhs) != 1 || exprString(as.Lhs[0]) != "pat" {
					return true
				}
				cl, ok := as.Rhs[0].(*ast.CompositeLit)
				if !ok {
					return true
				}
				for _, el := range cl.Elts {
					if bl, ok := el.(*ast.BasicLit); ok && bl.Kind == token.STRING {
						if v, err := strconv.Unquote(bl.Value); err == nil {
							pats = append(pats, v)
						}
					}
				}
				return false
			})
		}
		if len(pats) == 0 {
			return "", fmt.Errorf("filePatterns: the pattern list was not found")
		}
		out += "\n/-- the alternatives of the filePatterns regular expression, in source order -/\ndef filePatterns : List String := [\n"
		for i, p := range pats {
			sep := ","
			if i == len(pats)-1 {
				sep = ""
			}
			out += "  " + LeanString(p) + sep + "\n"
		}
		out += "]\n"
		return out + Footer("Rpm"), nil
	}})
}

func selName(e ast.Expr) string {
	switch x := e.(type) {
	case *ast.SelectorExpr:
		return x.Sel.Name
	case *ast.Ident:
		return x.Name
	}
	return ""
}

func typeString(e ast.Expr) string {
	switch x := e.(type) {
	case *ast.Ident:
		return x.Name
	case *ast.ArrayType:
		if x.Len == nil {
			return "[]" + typeString(x.Elt)
		}
	case *ast.SelectorExpr:
		return selName(x.X) + "." + x.Sel.Name
	case *ast.InterfaceType:
		return "interface{}"
	}
	return "?"
}

// stringerValues reads the `_ = x[Name-VALUE]` lines of a stringer file.
func stringerValues(repo, rel string) (map[string]int64, error) {
	_, f, err := ParseFile(repo, rel)
	if err != nil {
		return nil, err
	}
	vals := map[string]int64{}
	ast.Inspect(f, func(n ast.Node) bool {
		ix, ok := n.(*ast.IndexExpr)
		if !ok {
			return true
		}
		be, ok := ix.Index.(*ast.BinaryExpr)
		if !ok || be.Op != token.SUB {
			return true
		}
		id, ok := be.X.(*ast.Ident)
		if !ok {
			return true
		}
		v, err := IntLit(be.Y)
		if err != nil {
			return true
		}
		vals[id.Name] = v
		return true
	})
	if len(vals) == 0 {
		return nil, fmt.Errorf("%s: no stringer value lines found", rel)
	}
	return vals, nil
}
