package extract

import (
	"fmt"
	"go/ast"
	"go/printer"
	"go/token"
	"regexp"
	"sort"
	"strconv"
	"strings"
)

// Versions: the table-like parts of the version schemes of property C12.
//
//   - java/maven_version.go: the `qualifiers` map and `unknownQualifier`
//     (the Maven model reads them; its theorems do not depend on the values);
//   - pkg/pep440/version.go: the alternatives of the pre/post/dev label groups
//     of the pattern in their written order (leftmost-first alternation), the
//     label normalisation switch of Parse, the label -> slot switch and the
//     slot constants of Version().
func init() {
	Register(Gen{Name: "Versions", Run: genVersions})
}

func leanChars(s string) string {
	if s == "" {
		return "[]"
	}
	q := make([]string, 0, len(s))
	for _, c := range []byte(s) {
		switch {
		case c == '\'' || c == '\\':
			q = append(q, fmt.Sprintf("'\\%c'", c))
		case c < 0x20 || c >= 0x7f:
			q = append(q, fmt.Sprintf("'\\x%02x'", c))
		default:
			q = append(q, fmt.Sprintf("'%c'", c))
		}
	}
	return "[" + strings.Join(q, ", ") + "]"
}

func strLit(e ast.Expr) (string, bool) {
	bl, ok := e.(*ast.BasicLit)
	if !ok || bl.Kind != token.STRING {
		return "", false
	}
	s, err := strconv.Unquote(bl.Value)
	return s, err == nil
}

func genVersions(repo string) (string, error) {
	out := Header("Versions", "java/maven_version.go", "pkg/pep440/version.go", "ruby/version.go")

	// ---- Maven
	_, mf, err := ParseFile(repo, "java/maven_version.go")
	if err != nil {
		return "", err
	}
	quals := map[string]string{}
	unknown := int64(-1)
	for _, d := range mf.Decls {
		gd, ok := d.(*ast.GenDecl)
		if !ok {
			continue
		}
		for _, sp := range gd.Specs {
			vs, ok := sp.(*ast.ValueSpec)
			if !ok {
				continue
			}
			for i, n := range vs.Names {
				if i >= len(vs.Values) {
					continue
				}
				switch n.Name {
				case "qualifiers":
					cl, ok := vs.Values[i].(*ast.CompositeLit)
					if !ok {
						return "", fmt.Errorf("maven qualifiers is not a composite literal")
					}
					for _, e := range cl.Elts {
						kv, ok := e.(*ast.KeyValueExpr)
						if !ok {
							return "", fmt.Errorf("maven qualifiers: element is not key: value")
						}
						k, ok1 := strLit(kv.Key)
						v, ok2 := strLit(kv.Value)
						if !ok1 || !ok2 {
							return "", fmt.Errorf("maven qualifiers: non-literal entry")
						}
						if _, dup := quals[k]; dup {
							return "", fmt.Errorf("maven qualifiers: duplicate key %q", k)
						}
						quals[k] = v
					}
				case "unknownQualifier":
					unknown, err = IntLit(vs.Values[i])
					if err != nil {
						return "", fmt.Errorf("unknownQualifier: %w", err)
					}
				}
			}
		}
	}
	if len(quals) == 0 || unknown < 0 {
		return "", fmt.Errorf("maven qualifiers table or unknownQualifier not found")
	}
	keys := make([]string, 0, len(quals))
	for k := range quals {
		keys = append(keys, k)
	}
	sort.Strings(keys)
	out += "/-- java/maven_version.go `qualifiers` (lower-case name, text it sorts as). -/\n"
	out += "def mavenQualifiers : List (List Char × List Char) := [\n"
	for i, k := range keys {
		sep := ","
		if i == len(keys)-1 {
			sep = ""
		}
		out += fmt.Sprintf("  (%s, %s)%s\n", leanChars(k), leanChars(quals[k]), sep)
	}
	out += "]\n\n"
	out += fmt.Sprintf("def mavenUnknownQualifier : Nat := %d\n\n", unknown)

	// ---- pep440
	_, pf, err := ParseFile(repo, "pkg/pep440/version.go")
	if err != nil {
		return "", err
	}
	// the pattern: concatenated string literals inside init()
	var pattern strings.Builder
	initFn := FuncDecl(pf, "", "init")
	if initFn == nil {
		return "", fmt.Errorf("pep440: init not found")
	}
	ast.Inspect(initFn, func(n ast.Node) bool {
		if s, ok := n.(ast.Expr); ok {
			if v, ok := strLit(s); ok {
				pattern.WriteString(v)
			}
		}
		return true
	})
	pat := pattern.String()
	group := func(re string) ([]string, error) {
		m := regexp.MustCompile(re).FindStringSubmatch(pat)
		if m == nil {
			return nil, fmt.Errorf("pep440 pattern: %s not recognised in %q", re, pat)
		}
		return strings.Split(m[1], "|"), nil
	}
	pre, err := group(`\(\?P<pre_l>\(([a-z|]+)\)\)`)
	if err != nil {
		return "", err
	}
	post, err := group(`\(\?P<post_l>([a-z|]+)\)`)
	if err != nil {
		return "", err
	}
	dev, err := group(`\(\?P<dev_l>([a-z|]+)\)`)
	if err != nil {
		return "", err
	}
	alts := func(name string, xs []string) string {
		q := make([]string, len(xs))
		for i, x := range xs {
			q[i] = leanChars(x)
		}
		return fmt.Sprintf("def %s : List (List Char) := [%s]\n", name, strings.Join(q, ", "))
	}
	out += "/-- pkg/pep440/version.go: alternatives of the label groups of the pattern, in written order. -/\n"
	out += alts("pepPreAlts", pre) + alts("pepPostAlts", post) + alts("pepDevAlts", dev) + "\n"
	// whole pattern, so that any other edit of it is noticed
	out += fmt.Sprintf("def pepPattern : String := %s\n\n", LeanString(pat))

	// label normalisation: case "a", "alpha": v.Pre.Label = "a"
	norm := map[string]string{}
	parseFn := FuncDecl(pf, "", "Parse")
	if parseFn == nil {
		return "", fmt.Errorf("pep440: Parse not found")
	}
	ast.Inspect(parseFn, func(n ast.Node) bool {
		cc, ok := n.(*ast.CaseClause)
		if !ok || len(cc.Body) != 1 {
			return true
		}
		as, ok := cc.Body[0].(*ast.AssignStmt)
		if !ok || len(as.Lhs) != 1 || len(as.Rhs) != 1 {
			return true
		}
		sel, ok := as.Lhs[0].(*ast.SelectorExpr)
		if !ok || sel.Sel.Name != "Label" {
			return true
		}
		val, ok := strLit(as.Rhs[0])
		if !ok {
			return true
		}
		for _, e := range cc.List {
			if k, ok := strLit(e); ok {
				norm[k] = val
			}
		}
		return true
	})
	if len(norm) == 0 {
		return "", fmt.Errorf("pep440: label normalisation switch not recognised")
	}
	nk := make([]string, 0, len(norm))
	for k := range norm {
		nk = append(nk, k)
	}
	sort.Strings(nk)
	out += "/-- Parse: spelled label -> canonical label. -/\n"
	out += "def pepLabelNorm : List (List Char × List Char) := [\n"
	for i, k := range nk {
		sep := ","
		if i == len(nk)-1 {
			sep = ""
		}
		out += fmt.Sprintf("  (%s, %s)%s\n", leanChars(k), leanChars(norm[k]), sep)
	}
	out += "]\n\n"

	// Version(): slot constants and label -> slot value
	verFn := FuncDecl(pf, "Version", "Version")
	if verFn == nil {
		return "", fmt.Errorf("pep440: (*Version).Version not found")
	}
	consts := map[string]int64{}
	slots := map[string]int64{}
	ast.Inspect(verFn, func(n ast.Node) bool {
		switch x := n.(type) {
		case *ast.ValueSpec:
			for i, nm := range x.Names {
				if i < len(x.Values) {
					if v, err := IntLit(x.Values[i]); err == nil {
						consts[nm.Name] = v
					}
				}
			}
		case *ast.CaseClause:
			if len(x.Body) != 1 || len(x.List) != 1 {
				return true
			}
			k, ok := strLit(x.List[0])
			if !ok {
				return true
			}
			as, ok := x.Body[0].(*ast.AssignStmt)
			if !ok || len(as.Rhs) != 1 {
				return true
			}
			if v, err := IntLit(as.Rhs[0]); err == nil {
				slots[k] = v
			}
		}
		return true
	})
	for _, want := range []string{"epoch", "rel", "preL", "preN", "post", "dev"} {
		if _, ok := consts[want]; !ok {
			return "", fmt.Errorf("pep440 Version(): slot constant %s not found", want)
		}
	}
	if len(slots) == 0 {
		return "", fmt.Errorf("pep440 Version(): label switch not recognised")
	}
	out += "/-- Version(): slot indices epoch, rel, preL, preN, post, dev. -/\n"
	out += fmt.Sprintf("def pepSlots : List Nat := [%d, %d, %d, %d, %d, %d]\n\n", consts["epoch"], consts["rel"], consts["preL"], consts["preN"], consts["post"], consts["dev"])
	sk := make([]string, 0, len(slots))
	for k := range slots {
		sk = append(sk, k)
	}
	sort.Strings(sk)
	out += "/-- Version(): canonical label -> value of the label slot. -/\n"
	out += "def pepLabelSlot : List (List Char × Int) := [\n"
	for i, k := range sk {
		sep := ","
		if i == len(sk)-1 {
			sep = ""
		}
		out += fmt.Sprintf("  (%s, %d)%s\n", leanChars(k), slots[k], sep)
	}
	out += "]\n\n"

	// ---- ruby: the anchored pattern the gem recogniser stands for
	_, rf, err := ParseFile(repo, "ruby/version.go")
	if err != nil {
		return "", err
	}
	gemPat := ""
	ast.Inspect(rf, func(n ast.Node) bool {
		vs, ok := n.(*ast.ValueSpec)
		if !ok {
			return true
		}
		for i, nm := range vs.Names {
			if nm.Name != "anchoredVersion" || i >= len(vs.Values) {
				continue
			}
			if call, ok := vs.Values[i].(*ast.CallExpr); ok && len(call.Args) == 1 {
				if v, ok := strLit(call.Args[0]); ok {
					gemPat = v
				}
			}
		}
		return true
	})
	if gemPat == "" {
		return "", fmt.Errorf("ruby: anchoredVersion pattern not found")
	}
	out += fmt.Sprintf("/-- ruby/version.go `anchoredVersion`. -/\ndef gemPattern : String := %s\n\n", LeanString(gemPat))

	// ---- gobin: the pattern of ParseVersion and the digit limit of fitInt32
	_, gf, err := ParseFile(repo, "gobin/exe.go")
	if err != nil {
		return "", err
	}
	gobinPat := ""
	ast.Inspect(gf, func(n ast.Node) bool {
		vs, ok := n.(*ast.ValueSpec)
		if !ok {
			return true
		}
		for i, nm := range vs.Names {
			if nm.Name != "versionRegex" || i >= len(vs.Values) {
				continue
			}
			if call, ok := vs.Values[i].(*ast.CallExpr); ok && len(call.Args) == 1 {
				if v, ok := strLit(call.Args[0]); ok {
					gobinPat = v
				}
			}
		}
		return true
	})
	if gobinPat == "" {
		return "", fmt.Errorf("gobin: versionRegex pattern not found")
	}
	out += fmt.Sprintf("/-- gobin/exe.go `versionRegex`. -/\ndef gobinPattern : String := %s\n\n", LeanString(gobinPat))
	fit := FuncDecl(gf, "", "fitInt32")
	if fit == nil {
		return "", fmt.Errorf("gobin: fitInt32 not found")
	}
	var fitLits []int64
	ast.Inspect(fit, func(n ast.Node) bool {
		if bl, ok := n.(*ast.BasicLit); ok && bl.Kind == token.INT {
			if v, err := IntLit(bl); err == nil {
				fitLits = append(fitLits, v)
			}
		}
		return true
	})
	out += fmt.Sprintf("/-- gobin/exe.go `fitInt32`: its integer literals in order (length limit, slice bound, zero, base, bit size). -/\ndef gobinFitLits : List Nat := %s\n", LeanNatList(fitLits))

	// ---- toolkit/types/version.go is a copy of version.go: the ordering methods have the same text
	rfs, rootF, err := ParseFile(repo, "version.go")
	if err != nil {
		return "", err
	}
	tfs, tkF, err := ParseFile(repo, "toolkit/types/version.go")
	if err != nil {
		return "", err
	}
	body := func(fs *token.FileSet, f *ast.File, recv, name string) (string, error) {
		fd := FuncDecl(f, recv, name)
		if fd == nil || fd.Body == nil {
			return "", fmt.Errorf("version copy: (%s).%s not found", recv, name)
		}
		var b strings.Builder
		if err := printer.Fprint(&b, fs, fd.Body); err != nil {
			return "", err
		}
		return b.String(), nil
	}
	var same []string
	for _, m := range [][2]string{{"Version", "Compare"}, {"Range", "Contains"}, {"Version", "String"}} {
		a, err := body(rfs, rootF, m[0], m[1])
		if err != nil {
			return "", err
		}
		b, err := body(tfs, tkF, m[0], m[1])
		if err != nil {
			return "", err
		}
		same = append(same, fmt.Sprintf("(%s, %v)", LeanString(m[0]+"."+m[1]), a == b))
	}
	out += "\n/-- version.go against toolkit/types/version.go: is the body of the method the same text? -/\n"
	out += "def toolkitCopySame : List (String × Bool) := [" + strings.Join(same, ", ") + "]\n"
	return out + Footer("Versions"), nil
}
