package extract

import (
	"fmt"
	"go/ast"
	"go/constant"
	"go/token"
	"regexp"
	"sort"
	"strconv"
	"strings"
)

// Versions: the table-like parts of the version schemes of property C12.
//
//   - package java: the `qualifiers` map and `unknownQualifier` (the Maven model
//     reads them; its theorems do not depend on the values): looked up in the
//     whole package, entries folded constants, the map may be a literal or be
//     filled by straight-line assignments in init / a builder function;
//   - pkg/pep440: the pattern (the constant expression `pattern` is compiled
//     from, in a var initialiser or in init) and the alternatives of its
//     pre/post/dev label groups in written order (leftmost-first alternation);
//     EVALUATED through the exported API (probe go/cmd/rxprobe/versions): the
//     label normalisation of Parse on every alternative of the pattern, the slot
//     indices of Version() and the label -> slot value table;
//   - ruby `anchoredVersion`, gobin `versionRegex` (regexp sources as above) and
//     the integer literals of gobin's fitInt32 (named constants count at their use);
//   - whether the ordering methods of version.go and toolkit/types/version.go
//     have the same text (methods looked up in the whole package).
//
// See design/EXTRACT.md.
func init() {
	Register(Gen{Name: "Versions", Run: genVersions})
}

func leanChars(s string) string {
	if s == "" {
		return "[]"
	}
	q := make([]string, 0, len(s))
	for _, c := range []byte(s) {
		switch {
		case c == '\'' || c == '\\':
			q = append(q, fmt.Sprintf("'\\%c'", c))
		case c < 0x20 || c >= 0x7f:
			q = append(q, fmt.Sprintf("'\\x%02x'", c))
		default:
			q = append(q, fmt.Sprintf("'%c'", c))
		}
	}
	return "[" + strings.Join(q, ", ") + "]"
}

func strLit(e ast.Expr) (string, bool) {
	bl, ok := e.(*ast.BasicLit)
	if !ok || bl.Kind != token.STRING {
		return "", false
	}
	s, err := strconv.Unquote(bl.Value)
	return s, err == nil
}

func genVersions(repo string) (string, error) {
	out := Header("Versions", "java/maven_version.go", "pkg/pep440/version.go", "ruby/version.go")

	// ---- Maven: the `qualifiers` map and unknownQualifier, anywhere in package java
	jp, err := rxLoadPkg(repo, "java")
	if err != nil {
		return "", err
	}
	quals, err := rxStringMap(jp, "qualifiers")
	if err != nil {
		return "", fmt.Errorf("maven qualifiers: %w", err)
	}
	unknown, err := jp.IntConst("unknownQualifier")
	if err != nil {
		return "", fmt.Errorf("unknownQualifier: %w", err)
	}
	if len(quals) == 0 || unknown < 0 {
		return "", fmt.Errorf("maven qualifiers table or unknownQualifier not found")
	}
	keys := make([]string, 0, len(quals))
	for k := range quals {
		keys = append(keys, k)
	}
	sort.Strings(keys)
	out += "/-- java/maven_version.go `qualifiers` (lower-case name, text it sorts as). -/\n"
	out += "def mavenQualifiers : List (List Char × List Char) := [\n"
	for i, k := range keys {
		sep := ","
		if i == len(keys)-1 {
			sep = ""
		}
		out += fmt.Sprintf("  (%s, %s)%s\n", leanChars(k), leanChars(quals[k]), sep)
	}
	out += "]\n\n"
	out += fmt.Sprintf("def mavenUnknownQualifier : Nat := %d\n\n", unknown)

	// ---- pep440
	pp, err := rxLoadPkg(repo, "pkg/pep440")
	if err != nil {
		return "", err
	}
	// the pattern: the constant expression `pattern` is compiled from (var initialiser or init)
	pat, err := regexpSource(pp, "pattern")
	if err != nil {
		return "", fmt.Errorf("pep440: %w", err)
	}
	group := func(re string) ([]string, error) {
		m := regexp.MustCompile(re).FindStringSubmatch(pat)
		if m == nil {
			return nil, fmt.Errorf("pep440 pattern: %s not recognised in %q", re, pat)
		}
		return strings.Split(m[1], "|"), nil
	}
	pre, err := group(`\(\?P<pre_l>\(([a-z|]+)\)\)`)
	if err != nil {
		return "", err
	}
	post, err := group(`\(\?P<post_l>([a-z|]+)\)`)
	if err != nil {
		return "", err
	}
	dev, err := group(`\(\?P<dev_l>([a-z|]+)\)`)
	if err != nil {
		return "", err
	}
	alts := func(name string, xs []string) string {
		q := make([]string, len(xs))
		for i, x := range xs {
			q[i] = leanChars(x)
		}
		return fmt.Sprintf("def %s : List (List Char) := [%s]\n", name, strings.Join(q, ", "))
	}
	out += "/-- pkg/pep440/version.go: alternatives of the label groups of the pattern, in written order. -/\n"
	out += alts("pepPreAlts", pre) + alts("pepPostAlts", post) + alts("pepDevAlts", dev) + "\n"
	// whole pattern, so that any other edit of it is noticed
	out += fmt.Sprintf("def pepPattern : String := %s\n\n", LeanString(pat))

	// label normalisation, slot layout and label values: evaluated through the
	// exported API (probe "versions"); candidate canonical labels = the pattern's
	// alternatives ∪ the string literals of the package ∪ the snapshot's labels
	labels := rxSet{}
	labels.add(pre...)
	labels.add(rxSnapPepLabels...)
	for _, l := range pp.StringLits() {
		if len(l) <= 16 {
			labels.add(l, rxASCIIUpper(l))
		}
	}
	labels.add("", "x", "rx-probe")
	var ans struct {
		Norm []struct {
			In, Out string
			OK      bool
		}
		Slots     map[string]int
		LabelSlot []struct {
			Label string
			Value int
		}
	}
	if err := rxProbe(repo, "versions", map[string]any{"preAlts": pre, "labels": labels.sorted()}, &ans); err != nil {
		return "", err
	}
	norm := map[string]string{}
	for _, n := range ans.Norm {
		if n.OK {
			norm[n.In] = n.Out
		}
	}
	if len(norm) == 0 {
		return "", fmt.Errorf("pep440: Parse accepts none of the pattern's pre-release labels")
	}
	nk := make([]string, 0, len(norm))
	for k := range norm {
		nk = append(nk, k)
	}
	sort.Strings(nk)
	out += "/-- Parse: spelled label -> canonical label. -/\n"
	out += "def pepLabelNorm : List (List Char × List Char) := [\n"
	for i, k := range nk {
		sep := ","
		if i == len(nk)-1 {
			sep = ""
		}
		out += fmt.Sprintf("  (%s, %s)%s\n", leanChars(k), leanChars(norm[k]), sep)
	}
	out += "]\n\n"

	for _, want := range []string{"epoch", "rel", "preL", "preN", "post", "dev"} {
		if _, ok := ans.Slots[want]; !ok {
			return "", fmt.Errorf("pep440 Version(): slot %s not determined", want)
		}
	}
	out += "/-- Version(): slot indices epoch, rel, preL, preN, post, dev. -/\n"
	out += fmt.Sprintf("def pepSlots : List Nat := [%d, %d, %d, %d, %d, %d]\n\n", ans.Slots["epoch"], ans.Slots["rel"], ans.Slots["preL"], ans.Slots["preN"], ans.Slots["post"], ans.Slots["dev"])
	slots := map[string]int{}
	for _, l := range ans.LabelSlot {
		slots[l.Label] = l.Value
	}
	if len(slots) == 0 {
		return "", fmt.Errorf("pep440 Version(): no label has a slot value")
	}
	sk := make([]string, 0, len(slots))
	for k := range slots {
		sk = append(sk, k)
	}
	sort.Strings(sk)
	out += "/-- Version(): canonical label -> value of the label slot. -/\n"
	out += "def pepLabelSlot : List (List Char × Int) := [\n"
	for i, k := range sk {
		sep := ","
		if i == len(sk)-1 {
			sep = ""
		}
		out += fmt.Sprintf("  (%s, %d)%s\n", leanChars(k), slots[k], sep)
	}
	out += "]\n\n"

	// ---- ruby: the anchored pattern the gem recogniser stands for
	rp, err := rxLoadPkg(repo, "ruby")
	if err != nil {
		return "", err
	}
	gemPat, err := regexpSource(rp, "anchoredVersion")
	if err != nil {
		return "", fmt.Errorf("ruby: %w", err)
	}
	out += fmt.Sprintf("/-- ruby/version.go `anchoredVersion`. -/\ndef gemPattern : String := %s\n\n", LeanString(gemPat))

	// ---- gobin: the pattern of ParseVersion and the digit limit of fitInt32
	gp, err := rxLoadPkg(repo, "gobin")
	if err != nil {
		return "", err
	}
	gobinPat, err := regexpSource(gp, "versionRegex")
	if err != nil {
		return "", fmt.Errorf("gobin: %w", err)
	}
	out += fmt.Sprintf("/-- gobin/exe.go `versionRegex`. -/\ndef gobinPattern : String := %s\n\n", LeanString(gobinPat))
	fit := gp.Func("", "fitInt32")
	if fit == nil {
		return "", fmt.Errorf("gobin: fitInt32 not found")
	}
	out += fmt.Sprintf("/-- gobin/exe.go `fitInt32`: its integer literals in order (length limit, slice bound, zero, base, bit size). -/\ndef gobinFitLits : List Nat := %s\n", LeanNatList(rxIntLitsInOrder(gp, fit)))

	// ---- toolkit/types/version.go is a copy of version.go: EVALUATED (round 2). The probe
	// go/cmd/rxprobe/versioncopy runs the methods of both copies on one table of boundary values
	// (440 versions: every pair for Compare, ranges × versions for Contains, every version for String and
	// MarshalText, ~390 texts into fresh, used and nil receivers for UnmarshalText) and compares the answers:
	// rewriting one copy is quiet while both answer alike, a divergence is printed with its first input.
	var vc struct {
		Same  map[string]bool   `json:"same"`
		First map[string]string `json:"first"`
	}
	if err := rxProbe(repo, "versioncopy", map[string]any{}, &vc); err != nil {
		return "", err
	}
	copyList := func(names ...string) (string, error) {
		var same []string
		for _, n := range names {
			v, ok := vc.Same[n]
			if !ok {
				return "", fmt.Errorf("versioncopy probe: no answer for %s", n)
			}
			same = append(same, fmt.Sprintf("(%s, %v)", LeanString(n), v))
		}
		txt := "[" + strings.Join(same, ", ") + "]\n"
		for _, n := range names {
			if d := vc.First[n]; d != "" {
				d = strings.Join(strings.Fields(d), " ")
				if len(d) > 400 {
					d = d[:400] + " …"
				}
				txt += "-- " + n + " differs: " + strings.ReplaceAll(d, "-/", "- /") + "\n"
			}
		}
		return txt, nil
	}
	l1, err := copyList("Version.Compare", "Range.Contains", "Version.String")
	if err != nil {
		return "", err
	}
	l2, err := copyList("Version.MarshalText", "Version.UnmarshalText")
	if err != nil {
		return "", err
	}
	out += "\n/-- version.go against toolkit/types/version.go: do the two copies of the method answer alike on the table of boundary values? -/\n"
	out += "def toolkitCopySame : List (String × Bool) := " + l1
	out += "\n/-- the same for the text codec of Version -/\n"
	out += "def toolkitCopyCodecSame : List (String × Bool) := " + l2
	return out + Footer("Versions"), nil
}

// rxStringMap reads the package-level `name = map[string]string{...}` (keys and
// values folded constants), or a map filled by straight-line `name[k] = v`
// assignments in one function of the package (init or a builder).
func rxStringMap(p *rxPkg, name string) (map[string]string, error) {
	d := p.Decl(name)
	if d == nil {
		return nil, fmt.Errorf("%s not found in %s", name, p.dir)
	}
	out := map[string]string{}
	sc := p.Scope(d.file)
	add := func(sc *rxScope, k, v ast.Expr) error {
		ks, ok1 := sc.Str(k)
		vs, ok2 := sc.Str(v)
		if !ok1 || !ok2 {
			return fmt.Errorf("%s: entry that is not a pair of string constants", name)
		}
		if _, dup := out[ks]; dup {
			return fmt.Errorf("%s: duplicate key %q", name, ks)
		}
		out[ks] = vs
		return nil
	}
	if cl, ok := d.value.(*ast.CompositeLit); ok {
		for _, e := range cl.Elts {
			kv, ok := e.(*ast.KeyValueExpr)
			if !ok {
				return nil, fmt.Errorf("%s: element is not key: value", name)
			}
			if err := add(sc, kv.Key, kv.Value); err != nil {
				return nil, err
			}
		}
	} else if d.value != nil {
		// make(map[string]string[, n]) or a call of a builder function: entries come from assignments
		if _, ok := d.value.(*ast.CallExpr); !ok {
			return nil, fmt.Errorf("%s is neither a map literal nor built by a call", name)
		}
	}
	// straight-line assignments name[k] = v (or, inside a builder that returns the map, m[k] = v)
	for _, f := range p.files {
		for _, dd := range f.Decls {
			fd, ok := dd.(*ast.FuncDecl)
			if !ok || fd.Body == nil {
				continue
			}
			target := name
			if call, ok := d.value.(*ast.CallExpr); ok {
				if id, ok := call.Fun.(*ast.Ident); ok && id.Name == fd.Name.Name {
					// builder: the returned local
					for _, st := range fd.Body.List {
						if r, ok := st.(*ast.ReturnStmt); ok && len(r.Results) == 1 {
							if rid, ok := r.Results[0].(*ast.Ident); ok {
								target = rid.Name
							}
						}
					}
				}
			}
			fsc := p.ScopeOf(fd)
			var ferr error
			for _, st := range fd.Body.List {
				as, ok := st.(*ast.AssignStmt)
				if !ok || len(as.Lhs) != 1 || len(as.Rhs) != 1 || as.Tok != token.ASSIGN {
					continue
				}
				ix, ok := as.Lhs[0].(*ast.IndexExpr)
				if !ok {
					continue
				}
				if id, ok := ix.X.(*ast.Ident); !ok || id.Name != target {
					continue
				}
				if target == name && fd.Name.Name != "init" {
					return nil, fmt.Errorf("%s is assigned to in %s: not a constant table", name, fd.Name.Name)
				}
				if err := add(fsc, ix.Index, as.Rhs[0]); err != nil {
					ferr = err
				}
			}
			if ferr != nil {
				return nil, ferr
			}
		}
	}
	return out, nil
}

// rxIntLitsInOrder: the integer literals of a function body in source order;
// a use of a named integer constant (local or package-level) counts as its value
// at the place of use, and the literal in the constant's own declaration is skipped.
func rxIntLitsInOrder(p *rxPkg, fd *ast.FuncDecl) []int64 {
	sc := p.ScopeOf(fd)
	var out []int64
	ast.Inspect(fd.Body, func(n ast.Node) bool {
		switch x := n.(type) {
		case *ast.DeclStmt:
			if gd, ok := x.Decl.(*ast.GenDecl); ok && gd.Tok == token.CONST {
				return false
			}
		case *ast.BasicLit:
			if x.Kind == token.INT {
				if v, err := IntLit(x); err == nil {
					out = append(out, v)
				}
			}
		case *ast.Ident:
			if x.Name == "nil" || x.Name == "true" || x.Name == "false" || x.Name == "iota" {
				return true
			}
			_, isLocalConst := sc.local[x.Name]
			isPkgConst := false
			if d := p.Decl(x.Name); d != nil && d.decl.Tok == token.CONST && (x.Obj == nil || x.Obj.Kind == ast.Con) {
				isPkgConst = true
			}
			if (isLocalConst && x.Obj != nil && x.Obj.Kind == ast.Con) || isPkgConst {
				if v, ok := sc.Const(x); ok && v.Kind() == constant.Int {
					if n, exact := constant.Int64Val(v); exact {
						out = append(out, n)
					}
				}
			}
		}
		return true
	})
	return out
}
