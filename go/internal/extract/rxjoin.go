package extract

// rxj*: helpers of the shape-robust C04 (join) extractors (round 2 of
// design/EXTRACT.md).  Gen/JoinMatchers, JoinQuery and JoinOsv are printed from
// the answers of the probes `matchers`, `querybuilder` and `feeds` (the ones
// Gen/Matchers and Gen/Feeds use) and of the probe `joinosv`; Gen/JoinReleases
// and JoinState from the probes `releases` and `joinstate`.

import (
	"encoding/json"
	"fmt"
	"path/filepath"
	"sort"
	"strings"
)

// ---------------------------------------------------------------- matchers

type rxjMatcherEval struct {
	Name            string
	Query           []int
	QueryConfigured []int
	VersionFilter   bool
	Authoritative   bool
	Base            string
	Nil             map[string]string
	Accepted        []struct{ Path, Value string }
}

type rxjRegistered struct {
	Name, Factory string
	Matchers      []string
}

// rxjMatchersEval asks the probe `matchers` about every built-in matcher, with
// the candidate domain Gen/Matchers uses: the string literals of the matcher's
// package ∪ every value the snapshot lists for any matcher ∪ near misses.
func rxjMatchersEval(repo string, dirs map[string]string) (map[string]*rxjMatcherEval, []rxjRegistered, error) {
	allSnap := rxSet{}
	for _, sn := range rxSnapMatchers {
		for _, a := range rxFilterAtoms(sn.filter) {
			allSnap.add(a[1])
		}
	}
	cands := map[string][]string{}
	for id, dir := range dirs {
		p, err := rxLoadPkg(repo, dir)
		if err != nil {
			return nil, nil, err
		}
		set := rxSet{}
		set.add(allSnap.sorted()...)
		for _, l := range p.StringLits() {
			if len(l) <= 80 && !strings.ContainsAny(l, "\n%") {
				set.add(l)
			}
		}
		set.add("", "rx-probe")
		for _, l := range set.sorted() {
			if l == "" {
				continue
			}
			set.add(rxCaseVariants(l)...)
			set.add(l+"x", "x"+l, " "+l, l+" ")
			if len(l) > 1 {
				set.add(l[:len(l)-1], l[1:])
			}
		}
		cands[id] = set.sorted()
	}
	var raw map[string]json.RawMessage
	if err := rxProbe(repo, "matchers", cands, &raw); err != nil {
		return nil, nil, err
	}
	ev := map[string]*rxjMatcherEval{}
	var registered []rxjRegistered
	for k, v := range raw {
		if k == "registered" {
			if err := json.Unmarshal(v, &registered); err != nil {
				return nil, nil, fmt.Errorf("matchers probe: %w", err)
			}
			continue
		}
		e := &rxjMatcherEval{}
		if err := json.Unmarshal(v, e); err != nil {
			return nil, nil, fmt.Errorf("matchers probe: %s: %w", k, err)
		}
		ev[k] = e
	}
	return ev, registered, nil
}

// rxjConstraintNames turns driver.MatchConstraint values into the names of the
// constants of libvuln/driver (its stringer file may be stale).
func rxjConstraintNames(repo string) (func([]int) ([]string, error), []string, error) {
	drv, err := rxLoadPkg(repo, "libvuln/driver")
	if err != nil {
		return nil, nil, err
	}
	names, vals, err := drv.IotaNames("MatchConstraint")
	if err != nil {
		return nil, nil, err
	}
	f := func(vs []int) ([]string, error) {
		out := []string{}
		for _, v := range vs {
			found := false
			for i := range vals {
				if vals[i] == int64(v) {
					out = append(out, names[i])
					found = true
					break
				}
			}
			if !found {
				return nil, fmt.Errorf("Query() returns %d, which is no driver.MatchConstraint constant", v)
			}
		}
		return out, nil
	}
	return f, names, nil
}

// rxjFilterFExpr renders a Filter fact list (rxFilterFacts: the snapshot's list
// when the evaluated guards and atoms are the ones it denotes, the observation
// in canonical order otherwise) as an FExpr of Model/JoinTypes.lean.
//
//	[R==nil, atoms…]   (.and (.not (.not (.nonNil R))) (.or a1 (.or a2 … .ff)))     guard first, then a switch / if chain
//	[R!=nil, atom]     (.and (.nonNil R) atom)                                       one boolean expression
//	[atom]             atom
//
// `path=v` is (.eq path v), `path=v|w` (.mem path [v, w]).  Anything else (several
// parts of the record, a guard that accepts or panics) is rendered part by part.
func rxjFilterFExpr(facts []string) string {
	type guard struct{ root, form, res string }
	var guards []guard
	type atom struct{ path, lean string }
	var atoms []atom
	other := false
	for _, f := range facts {
		switch {
		case strings.HasPrefix(f, "base-record:"):
			if f == "base-record:true" {
				return ".tt"
			}
			return "(.nonNil [])" // evaluates to no value: Filter panics on every record
		case strings.HasSuffix(f, "==nil"), strings.HasSuffix(f, "!=nil"):
			guards = append(guards, guard{f[:len(f)-5], f[len(f)-5:], "false"})
		case strings.Contains(f, "==nil->"):
			r, res, _ := strings.Cut(f, "==nil->")
			guards = append(guards, guard{r, "==nil", res})
			other = true
		case strings.Contains(f, "="):
			path, vals, _ := strings.Cut(f, "=")
			vs := strings.Split(vals, "|")
			if len(vs) == 1 {
				atoms = append(atoms, atom{path, "(.eq " + j_lb(path) + " " + j_lb(vs[0]) + ")"})
			} else {
				atoms = append(atoms, atom{path, "(.mem " + j_lb(path) + " " + j_lbList(vs) + ")"})
			}
		default:
			other = true // an anomaly row (`Distribution.DID=x without Repository->false`)
		}
	}
	chain := func(as []atom, end string) string {
		out := end
		for i := len(as) - 1; i >= 0; i-- {
			if out == "" {
				out = as[i].lean
			} else {
				out = "(.or " + as[i].lean + " " + out + ")"
			}
		}
		if out == "" {
			return ".ff"
		}
		return out
	}
	under := func(root string) (in []atom) {
		for _, a := range atoms {
			if strings.HasPrefix(a.path, root+".") {
				in = append(in, a)
			}
		}
		return in
	}
	if !other && len(guards) == 0 {
		if len(atoms) == 1 {
			return atoms[0].lean
		}
		return chain(atoms, ".ff")
	}
	if !other && len(guards) == 1 && len(under(guards[0].root)) == len(atoms) && len(atoms) > 0 {
		g := guards[0]
		if g.form == "==nil" {
			return "(.and (.not (.not (.nonNil " + j_lb(g.root) + "))) " + chain(atoms, ".ff") + ")"
		}
		return "(.and (.nonNil " + j_lb(g.root) + ") " + chain(atoms, "") + ")"
	}
	// the general case: one disjunct per part of the record, then the atoms outside Distribution / Repository
	var parts []atom
	seen := map[string]bool{}
	for _, g := range guards {
		if seen[g.root] {
			continue
		}
		seen[g.root] = true
		c := chain(under(g.root), ".ff")
		switch g.res {
		case "false":
			parts = append(parts, atom{"", "(.and (.nonNil " + j_lb(g.root) + ") " + c + ")"})
		case "true":
			parts = append(parts, atom{"", "(.or (.not (.nonNil " + j_lb(g.root) + ")) " + c + ")"})
		default: // panic: the field is read without a guard
			parts = append(parts, atom{"", c})
		}
	}
	for _, a := range atoms {
		r, _, _ := strings.Cut(a.path, ".")
		if !seen[r] {
			parts = append(parts, a)
		}
	}
	return chain(parts, ".ff")
}

// rxjDefaultSet: the packages of the matchers matchers/defaults registers
// (evaluated: the probe lists the registry), sorted.
func rxjDefaultSet(registered []rxjRegistered) []string {
	set := rxSet{}
	pkgOf := func(typ string) string {
		typ = strings.TrimLeft(typ, "*")
		if i := strings.LastIndex(typ, "."); i >= 0 {
			typ = typ[:i]
		}
		return filepath.Base(typ)
	}
	for _, r := range registered {
		if r.Factory == "driver.MatcherFactoryFunc" {
			for _, m := range r.Matchers {
				set.add(pkgOf(m))
			}
			if len(r.Matchers) == 0 {
				set.add(r.Name + ":hands out no matcher")
			}
		} else {
			set.add(pkgOf(r.Factory))
		}
	}
	out := set.sorted()
	sort.Strings(out)
	return out
}
