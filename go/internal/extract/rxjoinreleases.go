package extract

// Gen/JoinReleases, shape-robust (design/EXTRACT.md, round 2).
//
// EVALUATED (probe go/cmd/rxprobe/releases: a batch of calls into the real code)
//
//   - the Distribution constructors (alpine stable release, debian / ubuntu mkDist, suse mkELDist / mkLeapDist) as
//     TEMPLATES over their parameters: the constructor is called on marker arguments (distinctive strings and
//     integers), every field of the result is cut at the occurrences of the markers (a string parameter as it is or
//     title-cased, an integer parameter in decimal) — that is the SExpr — and the template is then checked against
//     the constructor on a set of other arguments (0, negative, several digits; empty, upper / mixed case, spaces).
//     However the constructor builds its strings (Sprintf, concatenation, helpers, named constants), the template
//     is the same; a constructor that is no template over its parameters is an error naming the arguments.
//   - the key of the process-wide release table the constructor records into: which parameters make two calls
//     return the same recorded value, and which string literal of the package is trimmed off the end of the key.
//   - whether the distribution scanner of debian / ubuntu records what an image says (`scannerCtor`): the exported
//     scanner runs on a layer naming a fresh release, then the constructor is asked for that release.
//   - aws / oracle / photon: what the updater of a release stamps (NewUpdater(release).Parse on a generated
//     document, every candidate release) and what the scanner reports for an image of the release (the exported
//     scanner on a file holding the sample text of the release's expression): `releaseToDist` and `dists`; which
//     releases UpdaterSet creates updaters for (`releases`); oracle's platform table through Updater.Parse on one
//     definition per candidate platform.  A Distribution has no name at run time: the table is printed with the
//     variable names of the snapshot (labels by release, rxSnapDistLabels: names only), `dist_<release>` for others.
//   - aws.ID, oracle.OSReleaseID / OSReleaseName, rhcc.GoldRepo, the edge release of alpine.
//
// READ (tolerantly, rxPkg): the scanners' regular expressions (translated to Re: the text is the fact) — a table is
// found by its shape (a package-level list whose elements pair a constant with regexp.MustCompile(<constant>), as a
// literal or built by assignments / appends in init), single expressions by name, in a var declaration or an
// assignment; named string constants (any file, folded); skipList; minimumLEAP; the vendor / product values of
// suse's cpeToDist (calls of cpe.NewValue in it or in a helper it calls).

import (
	"fmt"
	"go/ast"
	"go/token"
	"regexp"
	"sort"
	"strconv"
	"strings"
)

// ---- the snapshot: labels and orders (names only, no field values)

// rxSnapDistLabels: release -> the variable name Gen/JoinReleases printed for its Distribution, in the order the
// rows of `releaseToDist` were printed.
var rxSnapDistLabels = map[string][][2]string{
	"aws":    {{"AL1", "AL1Dist"}, {"AL2", "AL2Dist"}, {"AL2023", "AL2023Dist"}},
	"oracle": {{"9", "nineDist"}, {"8", "eightDist"}, {"7", "sevenDist"}, {"6", "sixDist"}, {"5", "fiveDist"}},
	"photon": {{"photon1", "photon1Dist"}, {"photon2", "photon2Dist"}, {"photon3", "photon3Dist"}},
}

// the parameter lists as the doc comments of Gen/JoinReleases spell them
var rxSnapCtorParams = map[string]string{
	"alpine.stable": "r[0]:int, r[1]:int", "debian.mkDist": "name:string, ver:int", "ubuntu.mkDist": "ver:string, name:string",
	"suse.mkELDist": "oURL:string, ver:string", "suse.mkLeapDist": "oURL:string, ver:string",
}

// ---- SExpr templates

type rxjPart struct {
	kind string // lit, param, itoa, title
	i    int
	lit  string
}

func rxjStrMarker(i int) string { return "qzx" + strconv.Itoa(i) + "jv" }
func rxjIntMarker(i int) int    { return 7013 + 1000*i }

// rxjCut cuts an evaluated string at the markers of the parameters (kinds: 's' / 'i'; strMarkers[i] is the marker
// of string parameter i).
func rxjCut(s string, kinds string, strMarkers []string) []rxjPart {
	var parts []rxjPart
	lit := ""
	flush := func() {
		if lit != "" {
			parts = append(parts, rxjPart{kind: "lit", lit: lit})
			lit = ""
		}
	}
	for pos := 0; pos < len(s); {
		matched := false
		for i, k := range kinds {
			var toks []rxjPart
			if k == 's' {
				m := strMarkers[i]
				toks = []rxjPart{{kind: "param", i: i, lit: m}, {kind: "title", i: i, lit: strings.Title(m)}} //nolint:staticcheck
			} else {
				toks = []rxjPart{{kind: "itoa", i: i, lit: strconv.Itoa(rxjIntMarker(i))}}
			}
			for _, t := range toks {
				if strings.HasPrefix(s[pos:], t.lit) {
					flush()
					parts = append(parts, rxjPart{kind: t.kind, i: t.i})
					pos += len(t.lit)
					matched = true
					break
				}
			}
			if matched {
				break
			}
		}
		if !matched {
			lit += s[pos : pos+1]
			pos++
		}
	}
	flush()
	return parts
}

func rxjPartsLean(parts []rxjPart) string {
	one := func(p rxjPart) string {
		switch p.kind {
		case "param":
			return fmt.Sprintf("(.param %d)", p.i)
		case "itoa":
			return fmt.Sprintf("(.itoa %d)", p.i)
		case "title":
			return fmt.Sprintf("(.title (.param %d))", p.i)
		}
		return "(.lit " + j_lb(p.lit) + ")"
	}
	if len(parts) == 0 {
		return "(.lit [])"
	}
	out := one(parts[len(parts)-1])
	for i := len(parts) - 2; i >= 0; i-- {
		out = fmt.Sprintf("(.cat %s %s)", one(parts[i]), out)
	}
	return out
}

func rxjPartsEval(parts []rxjPart, strs []string, ints []int, kinds string) string {
	// parameter i is the n-th string / integer argument
	arg := func(i int) (string, int) {
		ns, ni := 0, 0
		for j, k := range kinds {
			if j == i {
				if k == 's' {
					return strs[ns], 0
				}
				return "", ints[ni]
			}
			if k == 's' {
				ns++
			} else {
				ni++
			}
		}
		return "", 0
	}
	var b strings.Builder
	for _, p := range parts {
		switch p.kind {
		case "lit":
			b.WriteString(p.lit)
		case "param":
			s, _ := arg(p.i)
			b.WriteString(s)
		case "title":
			s, _ := arg(p.i)
			b.WriteString(strings.Title(s)) //nolint:staticcheck // what the code under test calls
		case "itoa":
			_, n := arg(p.i)
			b.WriteString(strconv.Itoa(n))
		}
	}
	return b.String()
}

// ---- the probe protocol

type rxjCall struct {
	ID    string            `json:"id"`
	Fn    string            `json:"fn"`
	Strs  []string          `json:"strs,omitempty"`
	Ints  []int             `json:"ints,omitempty"`
	Files map[string]string `json:"files,omitempty"`
}

type rxjDist struct {
	DID, Name, Version, VersionCodeName, VersionID, Arch, PrettyName, ID, CPE, Ptr string
	CPEFrom                                                                        []string
	Nil                                                                            bool
}

func (d *rxjDist) field(name string) string {
	switch name {
	case "DID":
		return d.DID
	case "Name":
		return d.Name
	case "Version":
		return d.Version
	case "VersionCodeName":
		return d.VersionCodeName
	case "VersionID":
		return d.VersionID
	case "Arch":
		return d.Arch
	case "PrettyName":
		return d.PrettyName
	}
	return ""
}

func (d *rxjDist) empty() bool {
	return d.Nil || (d.DID == "" && d.Name == "" && d.Version == "" && d.VersionCodeName == "" && d.VersionID == "" && d.Arch == "" && d.PrettyName == "" && d.CPE == "" && d.ID == "")
}

// cpeText: the text the CPE is printed as: the candidate text of the sources that unbinds to it (the shortest, then
// the first), else its bound form.
func (d *rxjDist) cpeText() string {
	if len(d.CPEFrom) == 0 {
		return d.CPE
	}
	best := d.CPEFrom[0]
	for _, c := range d.CPEFrom[1:] {
		if len(c) < len(best) || (len(c) == len(best) && c < best) {
			best = c
		}
	}
	return best
}

// leanLit renders an evaluated Distribution as a DistT of literals.
func (d *rxjDist) leanLit() string {
	var parts []string
	for _, f := range j_distFields {
		v := d.field(f.goName)
		if f.goName == "CPE" {
			v = d.cpeText()
		}
		if v == "" {
			continue
		}
		parts = append(parts, f.leanName+" := (.lit "+j_lb(v)+")")
	}
	return "{ " + strings.Join(parts, ", ") + " }"
}

type rxjAnswer struct {
	ID    string
	Dists []rxjDist
	Strs  []string
	Err   string
}

type rxjBatch struct {
	calls []rxjCall
	ans   map[string]*rxjAnswer
	n     int
}

func (b *rxjBatch) add(fn string, strs []string, ints []int, files map[string]string) string {
	b.n++
	id := fmt.Sprintf("c%d", b.n)
	b.calls = append(b.calls, rxjCall{ID: id, Fn: fn, Strs: strs, Ints: ints, Files: files})
	return id
}

func (b *rxjBatch) run(repo string, cpe []string) error {
	var out struct {
		Answers []rxjAnswer `json:"answers"`
	}
	if err := rxProbe(repo, "releases", map[string]any{"calls": b.calls, "cpe": cpe}, &out); err != nil {
		return err
	}
	b.ans = map[string]*rxjAnswer{}
	for i := range out.Answers {
		b.ans[out.Answers[i].ID] = &out.Answers[i]
	}
	if len(b.ans) != len(b.calls) {
		return fmt.Errorf("releases probe: %d answers for %d calls", len(b.ans), len(b.calls))
	}
	return nil
}

// one: the single Distribution a call answered with.
func (b *rxjBatch) one(id, what string) (*rxjDist, error) {
	a := b.ans[id]
	if a == nil {
		return nil, fmt.Errorf("releases probe: no answer for %s", what)
	}
	if a.Err != "" {
		return nil, fmt.Errorf("%s: %s", what, a.Err)
	}
	if len(a.Dists) != 1 || a.Dists[0].Nil {
		return nil, fmt.Errorf("%s: %d Distributions (or nil)", what, len(a.Dists))
	}
	return &a.Dists[0], nil
}

// ---- constructors

type rxjCtor struct {
	fn    string // probe function
	kinds string // parameter kinds: 's' string, 'i' int
	key   bool   // records into a release table keyed by parameter 0 (a string): detect the key
	salt  string // appended to every value of parameter 0 (constructors sharing one table must not meet)
	// planned calls
	marker string
	checks []struct {
		id   string
		strs []string
		ints []int
	}
	keyBase  string
	keyOther string // parameter 0 the same, the others changed
	keyNew   string // parameter 0 changed, the others the same
	suffix   []struct{ s, once, twice, front string }
}

var (
	rxjCheckInts = []int{0, 1, 9, 10, 42, 100, -7, 65535}
	rxjCheckStrs = []string{"a", "Z9", "b c", "x.y-z", "UPPER", "mIxEd", "1", ""}
)

func (c *rxjCtor) args(strVal func(i, n int) string, intVal func(i, n int) int, n int) (strs []string, ints []int) {
	for i, k := range c.kinds {
		if k == 's' {
			strs = append(strs, strVal(i, n))
		} else {
			ints = append(ints, intVal(i, n))
		}
	}
	return
}

// strMarkers: the marker of every parameter position (used for the string ones).
func (c *rxjCtor) strMarkers() []string {
	out := make([]string, len(c.kinds))
	for i := range c.kinds {
		out[i] = rxjStrMarker(i)
		if i == 0 {
			out[i] += c.salt
		}
	}
	return out
}

func (c *rxjCtor) plan(b *rxjBatch, suffixes []string) {
	ms := c.strMarkers()
	strs, ints := c.args(func(i, _ int) string { return ms[i] }, func(i, _ int) int { return rxjIntMarker(i) }, 0)
	c.marker = b.add(c.fn, strs, ints, nil)
	for n := range rxjCheckInts {
		s, in := c.args(func(i, n int) string {
			v := rxjCheckStrs[(n+3*i)%len(rxjCheckStrs)]
			if i == 0 {
				v += c.salt
			}
			return v
		}, func(i, n int) int { return rxjCheckInts[(n+3*i)%len(rxjCheckInts)] }, n)
		id := b.add(c.fn, s, in, nil)
		c.checks = append(c.checks, struct {
			id   string
			strs []string
			ints []int
		}{id, s, in})
	}
	if !c.key {
		return
	}
	tag := strings.ReplaceAll(c.fn, ".", "")
	mk := func(p0 string, n int) string {
		s, in := c.args(func(i, n int) string {
			if i == 0 {
				return p0
			}
			return fmt.Sprintf("rxv%d", n)
		}, func(i, n int) int { return 500 + n }, n)
		return b.add(c.fn, s, in, nil)
	}
	k := "rxkey" + tag
	c.keyBase = mk(k, 0)
	c.keyOther = mk(k, 1)
	c.keyNew = mk(k+"2", 0)
	for j, s := range suffixes {
		c.suffix = append(c.suffix, struct{ s, once, twice, front string }{s, mk(k+s, 10+3*j), mk(k+s+s, 11+3*j), mk(s+k, 12+3*j)})
	}
}

// template derives the DistT over the parameters and checks it.
func (c *rxjCtor) template(b *rxjBatch) (string, error) {
	d, err := b.one(c.marker, c.fn+" on marker arguments")
	if err != nil {
		return "", err
	}
	if d.CPE != "" {
		return "", fmt.Errorf("%s sets a CPE: outside what the template says", c.fn)
	}
	tmpl := map[string][]rxjPart{}
	var parts []string
	for _, f := range j_distFields {
		v := d.field(f.goName)
		if v == "" {
			continue
		}
		tmpl[f.goName] = rxjCut(v, c.kinds, c.strMarkers())
		parts = append(parts, f.leanName+" := "+rxjPartsLean(tmpl[f.goName]))
	}
	for _, ck := range c.checks {
		got, err := b.one(ck.id, fmt.Sprintf("%s%q%v", c.fn, ck.strs, ck.ints))
		if err != nil {
			return "", err
		}
		for _, f := range j_distFields {
			if f.goName == "CPE" {
				continue
			}
			want := rxjPartsEval(tmpl[f.goName], ck.strs, ck.ints, c.kinds)
			if g := got.field(f.goName); g != want {
				return "", fmt.Errorf("%s is not a template over its parameters: on %q %v the field %s is %q, the template %s read off the marker call gives %q",
					c.fn, ck.strs, ck.ints, f.goName, g, rxjPartsLean(tmpl[f.goName]), want)
			}
		}
	}
	return "{ " + strings.Join(parts, ", ") + " }", nil
}

// strTemplate: the same for a string the call answers with (alpine: String()).
func (c *rxjCtor) strTemplate(b *rxjBatch, idx int) (string, error) {
	a := b.ans[c.marker]
	if a == nil || a.Err != "" || len(a.Strs) <= idx {
		return "", fmt.Errorf("%s: no string answer", c.fn)
	}
	parts := rxjCut(a.Strs[idx], c.kinds, c.strMarkers())
	for _, ck := range c.checks {
		g := b.ans[ck.id]
		if g == nil || g.Err != "" || len(g.Strs) <= idx {
			return "", fmt.Errorf("%s%v: no string answer", c.fn, ck.ints)
		}
		if want := rxjPartsEval(parts, ck.strs, ck.ints, c.kinds); g.Strs[idx] != want {
			return "", fmt.Errorf("%s: String() is not a template over the parameters: on %v it is %q, the template gives %q", c.fn, ck.ints, g.Strs[idx], want)
		}
	}
	return rxjPartsLean(parts), nil
}

// keyText describes the key of the release table.
func (c *rxjCtor) keyText(b *rxjBatch) (string, error) {
	get := func(id string) (*rxjDist, error) { return b.one(id, c.fn+" (key detection)") }
	base, err := get(c.keyBase)
	if err != nil {
		return "", err
	}
	other, err := get(c.keyOther)
	if err != nil {
		return "", err
	}
	nw, err := get(c.keyNew)
	if err != nil {
		return "", err
	}
	p0 := nw.Ptr != base.Ptr      // another parameter 0: another value
	rest := other.Ptr != base.Ptr // other parameters changed: another value
	switch {
	case !p0 && !rest:
		return "one value for all arguments", nil
	case p0 && rest:
		// not recorded at all, or keyed by all parameters: a repeated call tells
		return "all parameters (or not recorded)", nil
	case !p0 && rest:
		return "the parameters after param 0", nil
	}
	var trims []string
	for _, s := range c.suffix {
		once, err := get(s.once)
		if err != nil {
			return "", err
		}
		twice, err := get(s.twice)
		if err != nil {
			return "", err
		}
		front, err := get(s.front)
		if err != nil {
			return "", err
		}
		if once.Ptr == base.Ptr {
			t := fmt.Sprintf("trimSuffix(param 0, %q)", s.s)
			if twice.Ptr == base.Ptr {
				t = fmt.Sprintf("trimAllSuffixes(param 0, %q)", s.s)
			}
			if front.Ptr == base.Ptr {
				t = fmt.Sprintf("without(param 0, %q)", s.s)
			}
			trims = append(trims, t)
		}
	}
	if len(trims) == 0 {
		return "param 0", nil
	}
	return strings.Join(trims, " / "), nil
}

// ---- tolerant reading of regular-expression tables and lists

// rxjRegexpArg: e is regexp.MustCompile(<constant>) (any import name of regexp); the pattern.
func rxjRegexpArg(p *rxPkg, sc *rxScope, file *ast.File, e ast.Expr) (string, bool) {
	call, ok := j_unparen(e).(*ast.CallExpr)
	if !ok || len(call.Args) != 1 {
		return "", false
	}
	sel, ok := call.Fun.(*ast.SelectorExpr)
	if !ok || sel.Sel.Name != "MustCompile" {
		return "", false
	}
	if pk, ok := sel.X.(*ast.Ident); !ok || rxImportPath(file, pk.Name) != "regexp" {
		return "", false
	}
	return sc.Str(call.Args[0])
}

// rxjRegexRow: a table element pairing a constant with a compiled expression (keyed or positional literal).
func rxjRegexRow(p *rxPkg, sc *rxScope, file *ast.File, e ast.Expr) (row [2]string, ok bool) {
	if ue, isU := j_unparen(e).(*ast.UnaryExpr); isU && ue.Op == token.AND {
		e = ue.X
	}
	cl, isCl := j_unparen(e).(*ast.CompositeLit)
	if !isCl {
		return row, false
	}
	nre, nrel := 0, 0
	for _, el := range cl.Elts {
		v := el
		if kv, isKV := el.(*ast.KeyValueExpr); isKV {
			v = kv.Value
		}
		if pat, isRe := rxjRegexpArg(p, sc, file, v); isRe {
			row[1] = pat
			nre++
		} else if s, isStr := sc.Str(v); isStr {
			row[0] = s
			nrel++
		}
	}
	return row, nre == 1 && nrel == 1
}

// rxjRegexTable finds the scanner's table: a package-level variable that is a list of such rows, written as a
// literal, or assigned / appended to in a function (init).  prefer: the variable's name when several qualify.
func rxjRegexTable(p *rxPkg, prefer string) ([][2]string, error) {
	tables := map[string][][2]string{}
	bad := map[string]bool{}
	rowsOf := func(sc *rxScope, file *ast.File, e ast.Expr) ([][2]string, bool) {
		cl, ok := j_unparen(e).(*ast.CompositeLit)
		if !ok {
			return nil, false
		}
		if _, isArr := cl.Type.(*ast.ArrayType); !isArr {
			return nil, false
		}
		var rows [][2]string
		for _, el := range cl.Elts {
			if kv, isKV := el.(*ast.KeyValueExpr); isKV {
				el = kv.Value
			}
			r, ok := rxjRegexRow(p, sc, file, el)
			if !ok {
				return nil, false
			}
			rows = append(rows, r)
		}
		return rows, len(rows) > 0
	}
	for _, file := range p.files {
		for _, d := range file.Decls {
			switch x := d.(type) {
			case *ast.GenDecl:
				if x.Tok != token.VAR {
					continue
				}
				for _, sp := range x.Specs {
					vs := sp.(*ast.ValueSpec)
					for i, n := range vs.Names {
						if i < len(vs.Values) {
							if rows, ok := rowsOf(p.Scope(file), file, vs.Values[i]); ok {
								tables[n.Name] = append(tables[n.Name], rows...)
							}
						}
					}
				}
			case *ast.FuncDecl:
				if x.Body == nil {
					continue
				}
				sc := p.ScopeOf(x)
				ast.Inspect(x.Body, func(n ast.Node) bool {
					as, ok := n.(*ast.AssignStmt)
					if !ok || as.Tok != token.ASSIGN || len(as.Lhs) != 1 || len(as.Rhs) != 1 {
						return true
					}
					id, ok := as.Lhs[0].(*ast.Ident)
					if !ok || p.Decl(id.Name) == nil {
						return true
					}
					if rows, ok := rowsOf(sc, file, as.Rhs[0]); ok {
						tables[id.Name] = append(tables[id.Name], rows...)
						return true
					}
					// x = append(x, row, …)
					if ce, ok := as.Rhs[0].(*ast.CallExpr); ok && len(ce.Args) >= 2 {
						if fn, ok := ce.Fun.(*ast.Ident); ok && fn.Name == "append" {
							if a0, ok := ce.Args[0].(*ast.Ident); ok && a0.Name == id.Name {
								for _, a := range ce.Args[1:] {
									r, ok := rxjRegexRow(p, sc, file, a)
									if !ok {
										if _, isTable := tables[id.Name]; isTable {
											bad[id.Name] = true
										}
										return true
									}
									tables[id.Name] = append(tables[id.Name], r)
								}
							}
						}
					}
					return true
				})
			}
		}
	}
	var names []string
	for n := range tables {
		if !bad[n] {
			names = append(names, n)
		}
	}
	sort.Strings(names)
	if len(names) == 1 {
		return tables[names[0]], nil
	}
	for _, n := range names {
		if n == prefer {
			return tables[n], nil
		}
	}
	return nil, fmt.Errorf("%s: expected one package-level table pairing a release constant with regexp.MustCompile(<constant>) (literal, or built in a function by assignment / append), found %v", p.dir, names)
}

// rxjStrList: the package-level list `name` of constant strings: a slice / array literal, or the keys of a map
// literal, or built by assignments / appends of constants in a function.
func rxjStrList(p *rxPkg, name string) ([]string, error) {
	d := p.Decl(name)
	if d == nil {
		return nil, fmt.Errorf("%s: variable %s not found", p.dir, name)
	}
	var out []string
	lit := func(sc *rxScope, e ast.Expr) bool {
		cl, ok := j_unparen(e).(*ast.CompositeLit)
		if !ok {
			return false
		}
		for _, el := range cl.Elts {
			v := el
			if kv, isKV := el.(*ast.KeyValueExpr); isKV {
				if _, isMap := cl.Type.(*ast.MapType); isMap {
					v = kv.Key
				} else {
					v = kv.Value
				}
			}
			s, ok := sc.Str(v)
			if !ok {
				return false
			}
			out = append(out, s)
		}
		return true
	}
	if d.value != nil {
		if lit(p.Scope(d.file), d.value) {
			return out, nil
		}
		return nil, fmt.Errorf("%s: %s is not a list of constant strings", p.dir, name)
	}
	okAll := true
	for _, file := range p.files {
		for _, dd := range file.Decls {
			fd, ok := dd.(*ast.FuncDecl)
			if !ok || fd.Body == nil {
				continue
			}
			sc := p.ScopeOf(fd)
			ast.Inspect(fd.Body, func(n ast.Node) bool {
				as, ok := n.(*ast.AssignStmt)
				if !ok || as.Tok != token.ASSIGN || len(as.Lhs) != 1 || len(as.Rhs) != 1 {
					return true
				}
				if id, ok := as.Lhs[0].(*ast.Ident); !ok || id.Name != name {
					return true
				}
				if lit(sc, as.Rhs[0]) {
					return true
				}
				if ce, ok := as.Rhs[0].(*ast.CallExpr); ok {
					if fn, ok := ce.Fun.(*ast.Ident); ok && fn.Name == "append" && len(ce.Args) >= 1 {
						for _, a := range ce.Args[1:] {
							s, ok := sc.Str(a)
							if !ok {
								okAll = false
								return true
							}
							out = append(out, s)
						}
						return true
					}
				}
				okAll = false
				return true
			})
		}
	}
	if !okAll || len(out) == 0 {
		return nil, fmt.Errorf("%s: %s is not a list of constant strings", p.dir, name)
	}
	return out, nil
}

// rxjCallArg: the constant argument of the one `name = <pkg>.<fn>(<constant>)` of the package (var declaration or
// assignment), e.g. minimumLEAP = semver.MustParse("15.5").
func rxjCallArg(p *rxPkg, name string) (string, error) {
	var vals []string
	grab := func(sc *rxScope, lhs, rhs ast.Expr) {
		id, ok := lhs.(*ast.Ident)
		if !ok || id.Name != name {
			return
		}
		if ce, ok := j_unparen(rhs).(*ast.CallExpr); ok && len(ce.Args) == 1 {
			if s, ok := sc.Str(ce.Args[0]); ok {
				vals = append(vals, s)
				return
			}
		}
		vals = append(vals, "\x00")
	}
	for _, file := range p.files {
		for _, d := range file.Decls {
			switch x := d.(type) {
			case *ast.GenDecl:
				for _, sp := range x.Specs {
					if vs, ok := sp.(*ast.ValueSpec); ok {
						for i := range vs.Names {
							if i < len(vs.Values) {
								grab(p.Scope(file), vs.Names[i], vs.Values[i])
							}
						}
					}
				}
			case *ast.FuncDecl:
				if x.Body == nil {
					continue
				}
				sc := p.ScopeOf(x)
				ast.Inspect(x.Body, func(n ast.Node) bool {
					if as, ok := n.(*ast.AssignStmt); ok && as.Tok == token.ASSIGN {
						for i := range as.Lhs {
							if i < len(as.Rhs) {
								grab(sc, as.Lhs[i], as.Rhs[i])
							}
						}
					}
					return true
				})
			}
		}
	}
	if len(vals) != 1 || vals[0] == "\x00" {
		return "", fmt.Errorf("%s: expected exactly one `%s = f(<constant>)`", p.dir, name)
	}
	return vals[0], nil
}

// rxjNewValueArgs: the constant arguments of the cpe.NewValue calls of function fn, a helper it calls (one level)
// included at the place of the call, in source order.
func rxjNewValueArgs(p *rxPkg, fn string) ([]string, error) {
	fd := p.Func("", fn)
	if fd == nil {
		return nil, fmt.Errorf("%s: function %s not found", p.dir, fn)
	}
	var vals []string
	var walk func(fd *ast.FuncDecl, depth int)
	seen := map[*ast.FuncDecl]bool{fd: true}
	walk = func(fd *ast.FuncDecl, depth int) {
		sc := p.ScopeOf(fd)
		ast.Inspect(fd.Body, func(n ast.Node) bool {
			ce, ok := n.(*ast.CallExpr)
			if !ok {
				return true
			}
			if sel, ok := ce.Fun.(*ast.SelectorExpr); ok && sel.Sel.Name == "NewValue" && len(ce.Args) == 1 {
				if s, ok := sc.Str(ce.Args[0]); ok {
					vals = append(vals, s)
				}
				return true
			}
			if depth == 0 {
				if c := p.rxCallee(ce); c != nil && !seen[c] {
					seen[c] = true
					for _, a := range ce.Args { // constants passed to a helper that makes the Value
						if s, ok := sc.Str(a); ok {
							vals = append(vals, s)
						}
					}
					walk(c, 1)
					return false
				}
			}
			return true
		})
	}
	walk(fd, 0)
	return vals, nil
}

var rxjPlainRelease = regexp.MustCompile(`^[A-Za-z0-9][A-Za-z0-9 ._-]*$`)

// ---- the table distributions: aws, oracle, photon

type rxjTableDistro struct {
	dir, regexVar string
	updater       bool // NewUpdater(release) exists: aws, photon
	regexes       [][2]string
	samples       [][2]string
	cands         []string
	updIDs        map[string]string // candidate release -> call
	scanIDs       []string          // per table row
	setID         string
	platIDs       string
	platCands     []string
}

var rxjScanPaths = []string{"etc/os-release", "usr/lib/os-release", "etc/issue", "etc/lsb-release"}

func (t *rxjTableDistro) plan(p *rxPkg, b *rxjBatch) error {
	var err error
	if t.regexes, err = rxjRegexTable(p, t.regexVar); err != nil {
		return err
	}
	cs := rxSet{}
	for _, r := range rxSnapDistLabels[t.dir] {
		cs.add(r[0])
	}
	for _, r := range t.regexes {
		cs.add(r[0])
	}
	for _, r := range cs.sorted() {
		cs.add(rxCaseVariants(r)...)
		cs.add(r+"x", "x"+r)
		if len(r) > 1 {
			cs.add(r[:len(r)-1], r[1:])
		}
	}
	for _, l := range p.StringLits() {
		if len(l) <= 24 && rxjPlainRelease.MatchString(l) {
			cs.add(l)
		}
	}
	cs.add("rxq", "RXQ-7")
	t.cands = cs.sorted()
	for _, r := range t.regexes {
		smp, ok, err := j_reSampleOf(r[1])
		if err != nil {
			return fmt.Errorf("%s: %w", t.dir, err)
		}
		if ok {
			t.samples = append(t.samples, [2]string{r[0], smp})
		}
		files := map[string]string{}
		for _, path := range rxjScanPaths {
			files[path] = smp + "\n"
		}
		t.scanIDs = append(t.scanIDs, b.add("scan."+t.dir, nil, nil, files))
	}
	if t.updater {
		t.updIDs = map[string]string{}
		for _, c := range t.cands {
			t.updIDs[c] = b.add(t.dir+".updater", []string{c}, nil, nil)
		}
		t.setID = b.add(t.dir+".set", nil, nil, nil)
	}
	if t.dir == "oracle" {
		ps := rxSet{}
		for _, l := range p.StringLits() {
			if len(l) <= 40 && !strings.ContainsAny(l, "\n%") && l != "" {
				ps.add(l)
			}
		}
		for _, l := range ps.sorted() {
			if strings.Contains(l, " ") && len(l) <= 24 {
				ps.add(rxCaseVariants(l)...)
				ps.add(l+"x", " "+l, l+" ", l[:len(l)-1])
			}
		}
		ps.add("rxq", "RXQ-7")
		t.platCands = ps.sorted()
		t.platIDs = b.add("oracle.parse", t.platCands, nil, nil)
	}
	return nil
}

func rxjLabelSafe(s string) string {
	var b strings.Builder
	for _, c := range s {
		if (c >= 'a' && c <= 'z') || (c >= 'A' && c <= 'Z') || (c >= '0' && c <= '9') {
			b.WriteRune(c)
		} else {
			b.WriteByte('_')
		}
	}
	return b.String()
}

func (t *rxjTableDistro) render(b *rxjBatch) (string, error) {
	snapLabel := map[string]string{}
	var snapOrder []string
	for _, r := range rxSnapDistLabels[t.dir] {
		snapLabel[r[0]] = r[1]
		snapOrder = append(snapOrder, r[0])
	}
	// what every release maps to: the updater's Distribution and the scanner's
	type val struct {
		d    *rxjDist
		from string
	}
	byRel := map[string]val{}
	if t.updater {
		for _, c := range t.cands {
			a := b.ans[t.updIDs[c]]
			if a == nil || a.Err != "" || len(a.Dists) != 1 {
				if snapLabel[c] != "" || c == "rxq" {
					msg := "no answer"
					if a != nil {
						msg = a.Err
					}
					return "", fmt.Errorf("%s: the updater of release %q: %s", t.dir, c, msg)
				}
				continue // e.g. a release NewUpdater refuses
			}
			d := &a.Dists[0]
			if d.empty() {
				continue
			}
			if c == "rxq" || c == "RXQ-7" {
				return "", fmt.Errorf("%s: the updater of the unknown release %q stamps a non-empty Distribution: outside what the table can say", t.dir, c)
			}
			byRel[c] = val{d, "updater"}
		}
	}
	for i, r := range t.regexes {
		a := b.ans[t.scanIDs[i]]
		if a == nil || a.Err != "" {
			return "", fmt.Errorf("%s: scanning a file with the sample text of release %q: %v", t.dir, r[0], a)
		}
		if len(a.Dists) != 1 || a.Dists[0].Nil {
			return "", fmt.Errorf("%s: the scanner reports %d distributions for a file holding the sample text of the expression of release %q", t.dir, len(a.Dists), r[0])
		}
		d := &a.Dists[0]
		if u, ok := byRel[r[0]]; ok {
			if u.d.Ptr != d.Ptr {
				return "", fmt.Errorf("%s: for release %q the scanner reports %s but the updater stamps %s (not the same value): outside what one table can say", t.dir, r[0], d.leanLit(), u.d.leanLit())
			}
			continue
		}
		if !d.empty() {
			byRel[r[0]] = val{d, "scanner"}
		}
	}
	var order []string
	seen := map[string]bool{}
	for _, r := range snapOrder {
		if _, ok := byRel[r]; ok {
			order = append(order, r)
			seen[r] = true
		}
	}
	var rest []string
	for r := range byRel {
		if !seen[r] {
			rest = append(rest, r)
		}
	}
	sort.Strings(rest)
	order = append(order, rest...)
	labelOf := map[string]string{} // ptr -> label
	dists := map[string]*rxjDist{}
	var rows [][2]string
	for _, r := range order {
		d := byRel[r].d
		l, ok := labelOf[d.Ptr]
		if !ok {
			l = snapLabel[r]
			if l == "" || dists[l] != nil {
				l = "dist_" + rxjLabelSafe(r)
			}
			labelOf[d.Ptr] = l
			dists[l] = d
		}
		rows = append(rows, [2]string{r, l})
	}
	// oracle: platform -> Distribution
	var platRows [][2]string
	if t.dir == "oracle" {
		a := b.ans[t.platIDs]
		if a == nil || a.Err != "" || len(a.Dists) != len(t.platCands) {
			return "", fmt.Errorf("oracle: Updater.Parse on one definition per candidate platform: %v", a)
		}
		for i, pl := range t.platCands {
			d := &a.Dists[i]
			if d.Nil {
				continue
			}
			if pl == "rxq" || pl == "RXQ-7" {
				return "", fmt.Errorf("oracle: a definition for the unknown platform %q yields a vulnerability: outside what the table can say", pl)
			}
			l, ok := labelOf[d.Ptr]
			if !ok {
				for l2, d2 := range dists { // an equal value built elsewhere
					if d2.leanLit() == d.leanLit() {
						l, ok = l2, true
					}
				}
				if !ok {
					l = "dist_" + rxjLabelSafe(pl)
					dists[l] = d
				}
				labelOf[d.Ptr] = l
			}
			platRows = append(platRows, [2]string{pl, l})
		}
	}
	var labels []string
	for l := range dists {
		labels = append(labels, l)
	}
	sort.Strings(labels)
	ns := lower(strings.ReplaceAll(t.dir, "/", ""))
	out := "namespace " + ns + "\n"
	var pairs []string
	for _, l := range labels {
		pairs = append(pairs, "  ("+j_lb(l)+", "+dists[l].leanLit()+")")
	}
	out += "/-- package-level Distribution literals: variable name, fields -/\n"
	out += "def dists : List (Bytes × DistT) := [\n" + strings.Join(pairs, ",\n") + "]\n"
	out += "/-- `releaseToDist`: release value, variable returned (anything else: empty Distribution) -/\n"
	out += "def releaseToDist : List (Bytes × Bytes) := " + j_leanPairs(rows) + "\n"
	rts, err := j_leanRegexTable(t.regexes)
	if err != nil {
		return "", fmt.Errorf("%s: %w", t.dir, err)
	}
	out += "/-- the distribution scanner's table, tried in order: release, regexp -/\n"
	out += "def regexes : List (Bytes × Re) := " + rts + "\n"
	out += "/-- a text each regexp of the table matches, as the extractor derives it from the parsed expression (release, text) -/\n"
	out += "def regexSamples : List (Bytes × Bytes) := " + j_leanPairs(t.samples) + "\n"
	if t.updater {
		// the releases UpdaterSet creates updaters for
		a := b.ans[t.setID]
		if a == nil || a.Err != "" {
			return "", fmt.Errorf("%s: UpdaterSet: %v", t.dir, a)
		}
		nameOf := map[string]string{}
		for _, c := range t.cands {
			if u := b.ans[t.updIDs[c]]; u != nil && len(u.Strs) == 1 {
				if _, dup := nameOf[u.Strs[0]]; !dup {
					nameOf[u.Strs[0]] = c
				}
			}
		}
		got := map[string]bool{}
		for _, n := range a.Strs {
			r, ok := nameOf[n]
			if !ok {
				return "", fmt.Errorf("%s: UpdaterSet creates the updater %q, which is the updater of no candidate release (the string literals of the package)", t.dir, n)
			}
			got[r] = true
		}
		var rl, more []string
		for _, r := range snapOrder {
			if got[r] {
				rl = append(rl, r)
				delete(got, r)
			}
		}
		for r := range got {
			more = append(more, r)
		}
		sort.Strings(more)
		out += "/-- releases the updater set creates updaters for -/\n"
		out += "def releases : List Bytes := " + j_lbList(append(rl, more...)) + "\n"
	}
	if t.dir == "oracle" {
		out += "/-- OVAL platform string -> distribution variable stamped by the parser -/\n"
		out += "def platformToDist : List (Bytes × Bytes) := " + j_leanPairs(platRows) + "\n"
	}
	return out, nil
}

// ---- the generator

func genJoinReleases(repo string) (string, error) {
	out := j_joinHeader("JoinReleases", "alpine/release.go", "alpine/distributionscanner.go", "debian/releases.go", "ubuntu/updaterset.go",
		"aws/releases.go", "aws/distributionscanner.go", "aws/updaterset.go", "oracle/releases.go", "oracle/distributionscanner.go", "oracle/parser.go",
		"photon/releases.go", "photon/distributionscanner.go", "photon/updaterset.go", "suse/factory.go", "suse/distributionscanner.go", "rhel/repositoryscanner.go", "rhel/vex/updater.go", "rhel/rhcc/rhcc.go")
	pkgs := map[string]*rxPkg{}
	for _, d := range []string{"alpine", "debian", "ubuntu", "aws", "oracle", "photon", "suse", "rhel", "rhel/vex"} {
		p, err := rxLoadPkg(repo, d)
		if err != nil {
			return "", err
		}
		pkgs[d] = p
	}
	shortLits := func(p *rxPkg, max int) []string {
		var out []string
		for _, l := range p.StringLits() {
			if l != "" && len(l) <= max && !strings.ContainsAny(l, "\n\x00") {
				out = append(out, l)
			}
		}
		return out
	}
	// ---- plan every call, run the probe once
	b := &rxjBatch{}
	alpStable := &rxjCtor{fn: "alpine.stable", kinds: "ii"}
	alpStable.plan(b, nil)
	alpEdge := b.add("alpine.edge", nil, nil, nil)
	debMk := &rxjCtor{fn: "debian.mkDist", kinds: "si", key: true}
	debMk.plan(b, shortLits(pkgs["debian"], 16))
	ubuMk := &rxjCtor{fn: "ubuntu.mkDist", kinds: "ss", key: true}
	ubuMk.plan(b, shortLits(pkgs["ubuntu"], 16))
	suseEL := &rxjCtor{fn: "suse.mkELDist", kinds: "ss", key: true, salt: "-el"}
	suseEL.plan(b, shortLits(pkgs["suse"], 16))
	suseLeap := &rxjCtor{fn: "suse.mkLeapDist", kinds: "ss", key: true, salt: "-leap"}
	suseLeap.plan(b, shortLits(pkgs["suse"], 16))
	// does the scanner record what an image says?  scan an image of a fresh release, then ask the constructor
	debScan := b.add("scan.debian", nil, nil, map[string]string{"etc/os-release": "PRETTY_NAME=\"Debian GNU/Linux 91 (rxscanname)\"\nNAME=\"Debian GNU/Linux\"\nVERSION_ID=\"91\"\nVERSION=\"91 (rxscanname)\"\nVERSION_CODENAME=rxscanname\nID=debian\n"})
	debAfter := b.add("debian.mkDist", []string{"rxscanname"}, []int{92}, nil)
	ubuScan := b.add("scan.ubuntu", nil, nil, map[string]string{
		"etc/os-release":  "NAME=\"Ubuntu\"\nVERSION=\"91.04 (Rx Scanname)\"\nID=ubuntu\nVERSION_ID=\"91.04\"\nVERSION_CODENAME=rxscanname\n",
		"etc/lsb-release": "DISTRIB_ID=Ubuntu\nDISTRIB_RELEASE=91.04\nDISTRIB_CODENAME=rxscanname\nDISTRIB_DESCRIPTION=\"Ubuntu 91.04\"\n"})
	ubuAfter := b.add("ubuntu.mkDist", []string{"91.04", "rxothername"}, nil, nil)
	tables := []*rxjTableDistro{{dir: "aws", regexVar: "awsRegexes", updater: true}, {dir: "oracle", regexVar: "oracleRegexes"}, {dir: "photon", regexVar: "photonRegexes", updater: true}}
	var cpeCands []string
	for _, t := range tables {
		if err := t.plan(pkgs[t.dir], b); err != nil {
			return "", err
		}
		cpeCands = append(cpeCands, shortLits(pkgs[t.dir], 100)...)
	}
	constsID := b.add("consts", nil, nil, nil)
	if err := b.run(repo, cpeCands); err != nil {
		return "", err
	}
	strConsts := func(p *rxPkg, names ...string) (string, error) {
		s := ""
		for _, k := range names {
			v, err := p.StrConst(k)
			if err != nil {
				return "", err
			}
			s += "def " + k + " : Bytes := " + j_lb(v) + "\n"
		}
		return s, nil
	}
	regexDef := func(p *rxPkg, name string, withPattern bool) (string, error) {
		pat, err := regexpSource(p, name)
		if err != nil {
			return "", err
		}
		re, err := j_leanRe(pat)
		if err != nil {
			return "", fmt.Errorf("%s: %s: %w", p.dir, name, err)
		}
		if withPattern {
			return "-- " + pat + "\ndef " + name + "Pattern : Bytes := " + j_lb(pat) + "\ndef " + name + " : Re := " + re + "\n", nil
		}
		return "-- " + pat + "\ndef " + name + " : Re := " + re + "\n", nil
	}
	recorded := func(scanID, afterID, what string) (string, error) {
		sd, err := b.one(scanID, "the "+what+" scanner on an image of a fresh release")
		if err != nil {
			return "", err
		}
		ad, err := b.one(afterID, what+" mkDist after the scan")
		if err != nil {
			return "", err
		}
		if sd.Ptr == ad.Ptr {
			return "mkDist", nil // the scan recorded the release: the constructor hands the scanned value out
		}
		return "newDist", nil
	}
	// ---- alpine
	{
		p := pkgs["alpine"]
		out += "namespace alpine\n"
		s, err := strConsts(p, "distName", "distID", "edgeVersion", "edgePrettyName", "issuePath")
		if err != nil {
			return "", err
		}
		out += s
		ed, err := b.one(alpEdge, "alpine edge release")
		if err != nil {
			return "", err
		}
		out += "/-- `edgeRelease.Distribution()` -/\ndef edgeDist : DistT := " + ed.leanLit() + "\n"
		t, err := alpStable.template(b)
		if err != nil {
			return "", err
		}
		out += "/-- `stableRelease.Distribution()`; parameters " + rxSnapCtorParams["alpine.stable"] + " -/\ndef stableDist : DistT := " + t + "\n"
		ss, err := alpStable.strTemplate(b, 0)
		if err != nil {
			return "", err
		}
		out += "def stableString : SExpr := " + ss + "\n"
		for _, k := range []string{"issueRegexp", "edgeIssueRegexp"} {
			s, err := regexDef(p, k, false)
			if err != nil {
				return "", err
			}
			out += s
		}
		out += "end alpine\n\n"
	}
	// ---- debian, ubuntu
	for _, d := range []struct {
		dir           string
		c             *rxjCtor
		scanID, after string
	}{{"debian", debMk, debScan, debAfter}, {"ubuntu", ubuMk, ubuScan, ubuAfter}} {
		t, err := d.c.template(b)
		if err != nil {
			return "", err
		}
		key, err := d.c.keyText(b)
		if err != nil {
			return "", err
		}
		ctor, err := recorded(d.scanID, d.after, d.dir)
		if err != nil {
			return "", err
		}
		out += "namespace " + d.dir + "\n/-- `newDist` (and `mkDist`, which records `newDist` of the same arguments); parameters " + rxSnapCtorParams[d.c.fn] + "; release map keyed by " + key + " -/\ndef mkDist : DistT := " + t + "\n"
		out += "def mkDistKey : Bytes := " + j_lb(key) + "\n"
		out += "/-- the constructor `findDist` (the scanner) returns the result of -/\ndef scannerCtor : Bytes := " + j_lb(ctor) + "\n"
		if d.dir == "debian" {
			sl, err := rxjStrList(pkgs["debian"], "skipList")
			if err != nil {
				return "", err
			}
			out += "def skipList : List Bytes := " + j_lbList(sl) + "\n"
		} else {
			s, err := strConsts(pkgs["ubuntu"], "osReleasePath", "lsbReleasePath")
			if err != nil {
				return "", err
			}
			out += s
		}
		out += "end " + d.dir + "\n\n"
	}
	// ---- aws, oracle, photon
	ca := b.ans[constsID]
	if ca == nil || ca.Err != "" || len(ca.Strs) != 6 {
		return "", fmt.Errorf("releases probe: constants: %v", ca)
	}
	for _, t := range tables {
		s, err := t.render(b)
		if err != nil {
			return "", err
		}
		out += s
		switch t.dir {
		case "aws":
			out += "def ID : Bytes := " + j_lb(ca.Strs[0]) + "\n"
		case "oracle":
			out += "def OSReleaseID : Bytes := " + j_lb(ca.Strs[1]) + "\ndef OSReleaseName : Bytes := " + j_lb(ca.Strs[2]) + "\n"
		}
		out += "end " + t.dir + "\n\n"
	}
	// ---- suse
	{
		p := pkgs["suse"]
		out += "namespace suse\n"
		for _, c := range []*rxjCtor{suseEL, suseLeap} {
			t, err := c.template(b)
			if err != nil {
				return "", err
			}
			key, err := c.keyText(b)
			if err != nil {
				return "", err
			}
			fn := strings.TrimPrefix(c.fn, "suse.")
			out += "/-- `" + fn + "`; parameters " + rxSnapCtorParams[c.fn] + "; release map keyed by " + key + " -/\ndef " + fn + " : DistT := " + t + "\n"
		}
		for _, k := range []string{"reELFile", "reLeapFile"} {
			s, err := regexDef(p, k, true)
			if err != nil {
				return "", err
			}
			out += s
		}
		ml, err := rxjCallArg(p, "minimumLEAP")
		if err != nil {
			return "", err
		}
		out += "def minimumLEAP : Bytes := " + j_lb(ml) + "\n"
		vals, err := rxjNewValueArgs(p, "cpeToDist")
		if err != nil {
			return "", err
		}
		if len(vals) != 4 {
			return "", fmt.Errorf("suse: cpeToDist shape (found %d constant cpe.NewValue arguments)", len(vals))
		}
		out += "/-- `cpeToDist`: (vendor, product) of the Leap branch, then of the SLES branch -/\n"
		out += "def cpeBranches : List Bytes := " + j_lbList(vals) + "\n"
		out += "end suse\n\n"
	}
	// ---- rhel
	{
		k1, err := pkgs["rhel"].StrConst("repositoryKey")
		if err != nil {
			return "", err
		}
		k2, err := pkgs["rhel/vex"].StrConst("repoKey")
		if err != nil {
			return "", err
		}
		if ca.Strs[5] != "false" {
			return "", fmt.Errorf("rhel/rhcc: GoldRepo sets a field besides Name and URI, which Repo does not render")
		}
		out += "namespace rhel\n"
		out += "/-- rhel/repositoryscanner.go `repositoryKey` (stamped on scanned repositories, used by the matcher) -/\ndef repositoryKey : Bytes := " + j_lb(k1) + "\n"
		out += "/-- rhel/vex/updater.go `repoKey` (stamped on advisories) -/\ndef vexRepoKey : Bytes := " + j_lb(k2) + "\n"
		out += "/-- rhel/rhcc `GoldRepo` (used by the scanner and, by reference, by the VEX parser) -/\ndef goldRepo : Repo := { name := " + j_lb(ca.Strs[3]) + ", uri := " + j_lb(ca.Strs[4]) + " }\n"
		out += "end rhel\n"
	}
	return out + Footer("JoinReleases"), nil
}
