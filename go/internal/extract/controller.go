package extract

import (
	"fmt"
	"go/ast"
	"sort"
)

// Controller: the FSM table of indexer/controller — the names of the states,
// the stateToStateFunc map, and for every state function the set of states it
// returns together with a nil error and the set it returns together with a
// non-nil error.
//
// design/EXTRACT.md (round 2):
//
//	stateConsts        read tolerantly: the constants of type State, wherever the block is, folded (rxPkg.IotaSeq)
//	stateNames         EVALUATED: State(i).String() for i = 0, 1, … (probe rxprobe/controller)
//	stateToStateFunc   EVALUATED: the map the run loop dispatches on (hook StateFuncsForVerif), functions by
//	                   their runtime name; rows in State order
//	returns            read tolerantly: the return statements of each state function, found anywhere in the
//	                   package; the returned state may be a State constant, a folded constant expression or
//	                   single-assignment local, or the whole return may be delegated to a helper
//	                   `return helper(…)` of the package whose own returns are then taken (three levels)
func init() {
	Register(Gen{Name: "Controller", Run: func(repo string) (string, error) {
		dir := "indexer/controller"
		p, err := rxLoadPkg(repo, dir)
		if err != nil {
			return "", err
		}
		consts, err := p.IotaSeq("State")
		if err != nil {
			return "", err
		}
		var ans struct {
			Names []string `json:"names"`
			Table []struct {
				State int    `json:"state"`
				Fn    string `json:"fn"`
			} `json:"table"`
		}
		if err := rxProbe(repo, "controller", map[string]any{}, &ans); err != nil {
			return "", err
		}
		names := ans.Names
		if len(ans.Table) == 0 {
			return "", fmt.Errorf("controller probe: stateToStateFunc is empty")
		}
		var table [][2]string
		for _, r := range ans.Table {
			if r.State < 0 || r.State >= len(consts) {
				return "", fmt.Errorf("stateToStateFunc has key %d, which is no State constant", r.State)
			}
			table = append(table, [2]string{consts[r.State], r.Fn})
		}

		isState := map[string]bool{}
		for _, c := range consts {
			isState[c] = true
		}
		type rets struct{ ok, err []string }
		returns := map[string]*rets{}
		var collect func(fd *ast.FuncDecl, r *rets, depth int) error
		collect = func(fd *ast.FuncDecl, r *rets, depth int) error {
			sc := p.ScopeOf(fd)
			stateOf := func(e ast.Expr) (string, bool) {
				if id, ok := e.(*ast.Ident); ok && isState[id.Name] {
					if _, shadowed := sc.local[id.Name]; !shadowed {
						return id.Name, true
					}
				}
				if n, ok := sc.Int(e); ok && n >= 0 && int(n) < len(consts) {
					return consts[n], true
				}
				return "", false
			}
			var bad error
			ast.Inspect(fd.Body, func(n ast.Node) bool {
				if bad != nil {
					return false
				}
				switch x := n.(type) {
				case *ast.FuncLit:
					return false // closures return to their own caller
				case *ast.ReturnStmt:
					if len(x.Results) == 1 {
						// the whole answer delegated to a helper of the package
						if call, ok := x.Results[0].(*ast.CallExpr); ok && depth < 3 {
							if callee := p.rxCallee(call); callee != nil && callee != fd && rxReturnsStateErr(callee) {
								if err := collect(callee, r, depth+1); err != nil {
									bad = err
								}
								return false
							}
						}
					}
					if len(x.Results) != 2 {
						bad = fmt.Errorf("%s: return with %d results", fd.Name.Name, len(x.Results))
						return false
					}
					st, ok := stateOf(x.Results[0])
					if !ok {
						bad = fmt.Errorf("%s: returned state is not a State constant", fd.Name.Name)
						return false
					}
					if id, ok := x.Results[1].(*ast.Ident); ok && id.Name == "nil" {
						r.ok = appendUnique(r.ok, st)
					} else {
						r.err = appendUnique(r.err, st)
					}
				}
				return true
			})
			return bad
		}
		for _, kv := range table {
			fd := p.Func("", kv[1])
			if fd == nil {
				return "", fmt.Errorf("state function %s not found", kv[1])
			}
			r := &rets{}
			if err := collect(fd, r, 0); err != nil {
				return "", err
			}
			sort.Strings(r.ok)
			sort.Strings(r.err)
			returns[kv[1]] = r
		}

		out := Header("Controller", dir+"/state.go", dir+"/*.go")
		out += "/-- State constants in iota order. -/\n"
		out += "def stateConsts : List String := " + LeanStrList(consts) + "\n\n"
		out += "/-- The names array of State.String(). -/\n"
		out += "def stateNames : List String := " + LeanStrList(names) + "\n\n"
		out += "/-- stateToStateFunc: state -> state function. -/\n"
		out += "def stateToStateFunc : List (String × String) :=\n  ["
		for i, kv := range table {
			if i > 0 {
				out += ",\n   "
			}
			out += "(" + LeanString(kv[0]) + ", " + LeanString(kv[1]) + ")"
		}
		out += "]\n\n"
		out += "/-- state function -> (states returned with a nil error, states returned with an error), each sorted. -/\n"
		out += "def returns : List (String × List String × List String) :=\n  ["
		for i, kv := range table {
			if i > 0 {
				out += ",\n   "
			}
			r := returns[kv[1]]
			out += "(" + LeanString(kv[1]) + ", " + LeanStrList(r.ok) + ", " + LeanStrList(r.err) + ")"
		}
		out += "]\n"
		return out + Footer("Controller"), nil
	}})
}

// rxReturnsStateErr: does fd declare the results (State, error)?
func rxReturnsStateErr(fd *ast.FuncDecl) bool {
	if fd.Type.Results == nil {
		return false
	}
	var ts []ast.Expr
	for _, f := range fd.Type.Results.List {
		n := len(f.Names)
		if n == 0 {
			n = 1
		}
		for i := 0; i < n; i++ {
			ts = append(ts, f.Type)
		}
	}
	if len(ts) != 2 {
		return false
	}
	a, ok1 := ts[0].(*ast.Ident)
	b, ok2 := ts[1].(*ast.Ident)
	return ok1 && ok2 && a.Name == "State" && b.Name == "error"
}

func appendUnique(xs []string, x string) []string {
	for _, y := range xs {
		if y == x {
			return xs
		}
	}
	return append(xs, x)
}
