package extract

import (
	"fmt"
	"go/ast"
	"go/token"
	"os"
	"path/filepath"
	"sort"
	"strconv"
	"strings"
)

// Controller: the FSM table of indexer/controller — the names of the states
// (state.go String()), the stateToStateFunc map, and for every state function
// the set of states it returns together with a nil error and the set it
// returns together with a non-nil error.
func init() {
	Register(Gen{Name: "Controller", Run: func(repo string) (string, error) {
		dir := "indexer/controller"
		_, sf, err := ParseFile(repo, dir+"/state.go")
		if err != nil {
			return "", err
		}
		// const block: State = iota ...
		var consts []string
		for _, d := range sf.Decls {
			gd, ok := d.(*ast.GenDecl)
			if !ok || gd.Tok != token.CONST {
				continue
			}
			isState := false
			for i, sp := range gd.Specs {
				vs := sp.(*ast.ValueSpec)
				if i == 0 {
					if id, ok := vs.Type.(*ast.Ident); ok && id.Name == "State" && len(vs.Values) == 1 {
						if v, ok := vs.Values[0].(*ast.Ident); ok && v.Name == "iota" {
							isState = true
						}
					}
				}
				if isState {
					for _, n := range vs.Names {
						consts = append(consts, n.Name)
					}
				}
			}
		}
		if len(consts) == 0 {
			return "", fmt.Errorf("state.go: const block `X State = iota` not found")
		}
		// names array in String()
		var names []string
		fd := FuncDecl(sf, "State", "String")
		if fd == nil {
			return "", fmt.Errorf("state.go: func (State) String not found")
		}
		ast.Inspect(fd.Body, func(n ast.Node) bool {
			cl, ok := n.(*ast.CompositeLit)
			if !ok || names != nil {
				return true
			}
			for _, e := range cl.Elts {
				bl, ok := e.(*ast.BasicLit)
				if !ok || bl.Kind != token.STRING {
					names = nil
					return true
				}
				s, _ := strconv.Unquote(bl.Value)
				names = append(names, s)
			}
			return true
		})
		if len(names) != len(consts) {
			return "", fmt.Errorf("state.go: %d state constants but %d names in String()", len(consts), len(names))
		}
		// stateToStateFunc
		var table [][2]string
		for _, d := range sf.Decls {
			gd, ok := d.(*ast.GenDecl)
			if !ok || gd.Tok != token.VAR {
				continue
			}
			for _, sp := range gd.Specs {
				vs := sp.(*ast.ValueSpec)
				for i, n := range vs.Names {
					if n.Name != "stateToStateFunc" || i >= len(vs.Values) {
						continue
					}
					cl, ok := vs.Values[i].(*ast.CompositeLit)
					if !ok {
						return "", fmt.Errorf("stateToStateFunc is not a composite literal")
					}
					for _, e := range cl.Elts {
						kv, ok := e.(*ast.KeyValueExpr)
						if !ok {
							return "", fmt.Errorf("stateToStateFunc: element is not key: value")
						}
						k, ok1 := kv.Key.(*ast.Ident)
						v, ok2 := kv.Value.(*ast.Ident)
						if !ok1 || !ok2 {
							return "", fmt.Errorf("stateToStateFunc: key or value is not an identifier")
						}
						table = append(table, [2]string{k.Name, v.Name})
					}
				}
			}
		}
		if len(table) == 0 {
			return "", fmt.Errorf("state.go: stateToStateFunc not found")
		}
		// state functions: (state, error == nil?) pairs of their return statements
		files, _ := filepath.Glob(filepath.Join(repo, dir, "*.go"))
		decls := map[string]*ast.FuncDecl{}
		for _, f := range files {
			if strings.HasSuffix(f, "_test.go") {
				continue
			}
			rel, _ := filepath.Rel(repo, f)
			if _, err := os.Stat(f); err != nil {
				continue
			}
			_, af, err := ParseFile(repo, rel)
			if err != nil {
				return "", err
			}
			for _, d := range af.Decls {
				if fd, ok := d.(*ast.FuncDecl); ok && fd.Recv == nil {
					decls[fd.Name.Name] = fd
				}
			}
		}
		isState := map[string]bool{}
		for _, c := range consts {
			isState[c] = true
		}
		type rets struct{ ok, err []string }
		returns := map[string]*rets{}
		for _, kv := range table {
			fd := decls[kv[1]]
			if fd == nil || fd.Body == nil {
				return "", fmt.Errorf("state function %s not found", kv[1])
			}
			r := &rets{}
			var bad error
			var walk func(n ast.Node) bool
			walk = func(n ast.Node) bool {
				switch x := n.(type) {
				case *ast.FuncLit:
					return false // closures return to their own caller
				case *ast.ReturnStmt:
					if len(x.Results) != 2 {
						bad = fmt.Errorf("%s: return with %d results", kv[1], len(x.Results))
						return false
					}
					st, ok := x.Results[0].(*ast.Ident)
					if !ok || !isState[st.Name] {
						bad = fmt.Errorf("%s: returned state is not a State constant", kv[1])
						return false
					}
					if id, ok := x.Results[1].(*ast.Ident); ok && id.Name == "nil" {
						r.ok = appendUnique(r.ok, st.Name)
					} else {
						r.err = appendUnique(r.err, st.Name)
					}
				}
				return true
			}
			ast.Inspect(fd.Body, walk)
			if bad != nil {
				return "", bad
			}
			sort.Strings(r.ok)
			sort.Strings(r.err)
			returns[kv[1]] = r
		}

		out := Header("Controller", dir+"/state.go", dir+"/*.go")
		out += "/-- State constants in iota order. -/\n"
		out += "def stateConsts : List String := " + LeanStrList(consts) + "\n\n"
		out += "/-- The names array of State.String(). -/\n"
		out += "def stateNames : List String := " + LeanStrList(names) + "\n\n"
		out += "/-- stateToStateFunc: state -> state function. -/\n"
		out += "def stateToStateFunc : List (String × String) :=\n  ["
		for i, kv := range table {
			if i > 0 {
				out += ",\n   "
			}
			out += "(" + LeanString(kv[0]) + ", " + LeanString(kv[1]) + ")"
		}
		out += "]\n\n"
		out += "/-- state function -> (states returned with a nil error, states returned with an error), each sorted. -/\n"
		out += "def returns : List (String × List String × List String) :=\n  ["
		for i, kv := range table {
			if i > 0 {
				out += ",\n   "
			}
			r := returns[kv[1]]
			out += "(" + LeanString(kv[1]) + ", " + LeanStrList(r.ok) + ", " + LeanStrList(r.err) + ")"
		}
		out += "]\n"
		return out + Footer("Controller"), nil
	}})
}

func appendUnique(xs []string, x string) []string {
	for _, y := range xs {
		if y == x {
			return xs
		}
	}
	return append(xs, x)
}
