package extract

import (
	"fmt"
	"go/ast"
	"go/token"
	"strconv"
	"strings"
)

// Tar: the constants findSegments works with: block size and field offsets
// (the const block inside the function), the magic strings, the version
// literal and the typeflag lists of its final switch.
func init() {
	Register(Gen{Name: "Tar", Run: func(repo string) (string, error) {
		_, f, err := ParseFile(repo, "pkg/tarfs/parse.go")
		if err != nil {
			return "", err
		}
		out := Header("Tar", "pkg/tarfs/parse.go")
		fd := FuncDecl(f, "", "findSegments")
		if fd == nil {
			return "", fmt.Errorf("findSegments not found")
		}
		consts := map[string]int64{}
		ast.Inspect(fd.Body, func(n ast.Node) bool {
			gd, ok := n.(*ast.GenDecl)
			if !ok || gd.Tok != token.CONST {
				return true
			}
			for _, s := range gd.Specs {
				vs := s.(*ast.ValueSpec)
				for i, nm := range vs.Names {
					if i < len(vs.Values) {
						if v, err := IntLit(vs.Values[i]); err == nil {
							consts[nm.Name] = v
						}
					}
				}
			}
			return true
		})
		for _, k := range []string{"blockSz", "magicOff", "versionOff", "typeflag", "sizeOff"} {
			v, ok := consts[k]
			if !ok {
				return "", fmt.Errorf("constant %s of findSegments not found", k)
			}
			out += fmt.Sprintf("def %s : Nat := %d\n", k, v)
		}
		// magic strings: var magicX = []byte("...")
		for _, k := range []string{"magicPAX", "magicGNU", "magicOldGNU"} {
			s, err := byteSliceVar(f, k)
			if err != nil {
				return "", err
			}
			out += fmt.Sprintf("def %s : List UInt8 := %s\n", k, leanByteList(s))
		}
		// the literals of the loop: []byte("00") for the version, the length of the size field,
		// and the typeflag case lists
		var version string
		sizeLen := int64(-1)
		var lists [][]string
		ast.Inspect(fd.Body, func(n ast.Node) bool {
			switch x := n.(type) {
			case *ast.CallExpr:
				// bytes.Equal(b[versionOff:][:2], []byte("00"))
				if sel, ok := x.Fun.(*ast.SelectorExpr); ok && sel.Sel.Name == "Equal" && len(x.Args) == 2 {
					if strings.Contains(exprString(x.Args[0]), "versionOff") {
						if s, ok := byteSliceLit(x.Args[1]); ok {
							version = s
						}
					}
				}
			case *ast.AssignStmt:
				// encSz := b[sizeOff:][:12]
				if len(x.Lhs) == 1 && len(x.Rhs) == 1 && exprString(x.Lhs[0]) == "encSz" {
					if sl, ok := x.Rhs[0].(*ast.SliceExpr); ok && sl.High != nil {
						if v, err := IntLit(sl.High); err == nil {
							sizeLen = v
						}
					}
				}
			case *ast.SwitchStmt:
				if strings.Contains(exprString(x.Tag), "typeflag") {
					for _, st := range x.Body.List {
						cc := st.(*ast.CaseClause)
						if cc.List == nil {
							continue
						}
						var names []string
						for _, e := range cc.List {
							names = append(names, selName(e))
						}
						lists = append(lists, names)
					}
				}
			}
			return true
		})
		if version == "" || sizeLen < 0 || len(lists) != 2 {
			return "", fmt.Errorf("findSegments: version literal / size field length / typeflag switch not recognised (%q, %d, %d case lists)", version, sizeLen, len(lists))
		}
		out += fmt.Sprintf("def version : List UInt8 := %s\n", leanByteList(version))
		out += fmt.Sprintf("def sizeLen : Nat := %d\n", sizeLen)
		for i, nm := range []string{"prependFlags", "dataFlags"} {
			var bs []string
			for _, n := range lists[i] {
				v, ok := tarTypeflags[n]
				if !ok {
					return "", fmt.Errorf("unknown archive/tar typeflag constant %s", n)
				}
				bs = append(bs, strconv.Itoa(int(v)))
			}
			out += fmt.Sprintf("def %s : List UInt8 := [%s]\n", nm, strings.Join(bs, ", "))
		}
		// is there a check that rejects a negative size, and one that probes the last content byte?
		neg, probe := false, false
		ast.Inspect(fd.Body, func(n ast.Node) bool {
			is, ok := n.(*ast.IfStmt)
			if !ok {
				return true
			}
			c := exprString(is.Cond)
			if c == "sz < 0" && returnsErr(is.Body) {
				neg = true
			}
			if c == "sz > 0" {
				ast.Inspect(is.Body, func(m ast.Node) bool {
					if ce, ok := m.(*ast.CallExpr); ok && strings.HasSuffix(exprString(ce.Fun), ".ReadAt") && len(ce.Args) == 2 &&
						exprString(ce.Args[1]) == "off + blockSz + sz - 1" {
						probe = true
					}
					return true
				})
			}
			return true
		})
		out += fmt.Sprintf("def rejectsNegativeSize : Bool := %v\ndef probesLastContentByte : Bool := %v\n", neg, probe)
		return out + Footer("Tar"), nil
	}})
}

var tarTypeflags = map[string]byte{
	"TypeReg": '0', "TypeRegA": 0, "TypeLink": '1', "TypeSymlink": '2', "TypeChar": '3', "TypeBlock": '4', "TypeDir": '5',
	"TypeFifo": '6', "TypeCont": '7', "TypeXHeader": 'x', "TypeXGlobalHeader": 'g', "TypeGNUSparse": 'S',
	"TypeGNULongName": 'L', "TypeGNULongLink": 'K',
}

func returnsErr(b *ast.BlockStmt) bool {
	for _, s := range b.List {
		if r, ok := s.(*ast.ReturnStmt); ok && len(r.Results) == 2 && exprString(r.Results[0]) == "nil" && exprString(r.Results[1]) != "nil" {
			return true
		}
	}
	return false
}

func leanByteList(s string) string {
	var bs []string
	for _, c := range []byte(s) {
		bs = append(bs, strconv.Itoa(int(c)))
	}
	return "[" + strings.Join(bs, ", ") + "]"
}

func byteSliceLit(e ast.Expr) (string, bool) {
	ce, ok := e.(*ast.CallExpr)
	if !ok || len(ce.Args) != 1 {
		return "", false
	}
	if at, ok := ce.Fun.(*ast.ArrayType); !ok || at.Len != nil || typeString(at.Elt) != "byte" {
		return "", false
	}
	bl, ok := ce.Args[0].(*ast.BasicLit)
	if !ok || bl.Kind != token.STRING {
		return "", false
	}
	s, err := strconv.Unquote(bl.Value)
	return s, err == nil
}

func byteSliceVar(f *ast.File, name string) (string, error) {
	for _, d := range f.Decls {
		gd, ok := d.(*ast.GenDecl)
		if !ok {
			continue
		}
		for _, s := range gd.Specs {
			vs, ok := s.(*ast.ValueSpec)
			if !ok {
				continue
			}
			for i, n := range vs.Names {
				if n.Name == name && i < len(vs.Values) {
					if s, ok := byteSliceLit(vs.Values[i]); ok {
						return s, nil
					}
				}
			}
		}
	}
	return "", fmt.Errorf("byte slice variable %s not found", name)
}

// exprString renders simple expressions (identifiers, selectors, binary
// expressions, index/slice/call) for shape comparisons.
func exprString(e ast.Expr) string {
	switch x := e.(type) {
	case nil:
		return ""
	case *ast.Ident:
		return x.Name
	case *ast.BasicLit:
		return x.Value
	case *ast.SelectorExpr:
		return exprString(x.X) + "." + x.Sel.Name
	case *ast.BinaryExpr:
		return exprString(x.X) + " " + x.Op.String() + " " + exprString(x.Y)
	case *ast.ParenExpr:
		return "(" + exprString(x.X) + ")"
	case *ast.IndexExpr:
		return exprString(x.X) + "[" + exprString(x.Index) + "]"
	case *ast.SliceExpr:
		return exprString(x.X) + "[" + exprString(x.Low) + ":" + exprString(x.High) + "]"
	case *ast.CallExpr:
		var as []string
		for _, a := range x.Args {
			as = append(as, exprString(a))
		}
		return exprString(x.Fun) + "(" + strings.Join(as, ", ") + ")"
	case *ast.UnaryExpr:
		return x.Op.String() + exprString(x.X)
	case *ast.StarExpr:
		return "*" + exprString(x.X)
	}
	return "?"
}
