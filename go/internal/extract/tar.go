package extract

import (
	"encoding/hex"
	"fmt"
	"go/ast"
	"strconv"
	"strings"
)

// Tar: the constants findSegments (pkg/tarfs/parse.go) works with — block size,
// field offsets, the magic strings, the version, the typeflag classes — and the
// two checks the termination / bounds theorems of C06 rest on.
//
// EVALUATED (design/EXTRACT.md, round 2): the probe go/cmd/rxprobe/tar hands the
// real findSegments (hook FindSegmentsForVerif) crafted header blocks through a
// ReaderAt that logs every read, and derives
//
//	blockSz                     the length of the first read
//	magicOff, versionOff        the only pair of positions at which a magic and a version make an otherwise
//	                            empty header acceptable (all position pairs are tried)
//	magicPAX, magicGNU          the accepted 6-byte magics that need the version (candidates: the snapshot's, the
//	                            package's string literals, one-byte near misses of all of them), in byte order
//	magicOldGNU                 the accepted 8-byte magic that covers the version field
//	version                     the accepted content of the version field
//	typeflag                    the only position where a "prepended" flag glues a block to the next segment
//	sizeOff, sizeLen            the run of positions where a digit changes the segment's size
//	prependFlags, dataFlags     the class of each of the 256 typeflag values (prepend: joins the next segment;
//	                            data: a segment of its own; anything else: ignored), printed in the snapshot's
//	                            order when the sets are the snapshot's
//	rejectsNegativeSize         base-256 negative sizes are refused (and the scan ends)
//	probesLastContentByte       a size that runs past the end of the archive is refused
//
// so the constants may be renamed, moved to package level, turned into a
// lookup table, the checks moved into helpers: the text only depends on what
// the function accepts.
func init() {
	Register(Gen{Name: "Tar", Run: func(repo string) (string, error) {
		p, err := rxLoadPkg(repo, "pkg/tarfs")
		if err != nil {
			return "", err
		}
		var lits []string
		for _, l := range p.StringLits() {
			if len(l) > 0 && len(l) <= 8 {
				lits = append(lits, hex.EncodeToString([]byte(l)))
			}
		}
		var ans struct {
			BlockSz     int      `json:"blockSz"`
			Pairs       [][2]int `json:"pairs"`
			Magics6     []string `json:"magics6"`
			Magics6Any  []string `json:"magics6any"`
			Magics8     []string `json:"magics8"`
			Versions    []string `json:"versions"`
			TypeflagOff []int    `json:"typeflagOff"`
			SizePos     []int    `json:"sizePos"`
			Flags       []string `json:"flags"`
			Negative    bool     `json:"negative"`
			NegDetail   string   `json:"negDetail"`
			Probe       bool     `json:"probe"`
		}
		if err := rxProbe(repo, "tar", map[string]any{"lits": lits}, &ans); err != nil {
			return "", err
		}
		if len(ans.Pairs) != 1 || len(ans.TypeflagOff) != 1 || len(ans.SizePos) == 0 || len(ans.Flags) != 256 {
			return "", fmt.Errorf("findSegments: no unique magic/version position (%v), typeflag position (%v) or size field (%v)", ans.Pairs, ans.TypeflagOff, ans.SizePos)
		}
		for i, k := range ans.SizePos {
			if k != ans.SizePos[0]+i {
				return "", fmt.Errorf("findSegments: the positions that change the size are not one run: %v", ans.SizePos)
			}
		}
		unhex := func(h string) string {
			b, _ := hex.DecodeString(h)
			return string(b)
		}
		out := Header("Tar", "pkg/tarfs/parse.go")
		out += fmt.Sprintf("def blockSz : Nat := %d\n", ans.BlockSz)
		out += fmt.Sprintf("def magicOff : Nat := %d\n", ans.Pairs[0][0])
		out += fmt.Sprintf("def versionOff : Nat := %d\n", ans.Pairs[0][1])
		out += fmt.Sprintf("def typeflag : Nat := %d\n", ans.TypeflagOff[0])
		out += fmt.Sprintf("def sizeOff : Nat := %d\n", ans.SizePos[0])
		// names in the snapshot's order — only when there are exactly as many accepted magics of each kind as the
		// snapshot names; otherwise none gets a name a theorem knows (an extra accepted magic must not go unnoticed)
		asSnap := len(ans.Magics6) == len(rxSnapTarMagic6) && len(ans.Magics8) == len(rxSnapTarMagic8) && len(ans.Magics6Any) == 0
		for i, m := range ans.Magics6 {
			name := fmt.Sprintf("magicWithVersion_%d", i)
			if asSnap {
				name = rxSnapTarMagic6[i]
			}
			out += fmt.Sprintf("def %s : List UInt8 := %s\n", name, leanByteList(unhex(m)))
		}
		for i, m := range ans.Magics8 {
			name := fmt.Sprintf("magicOverVersion_%d", i)
			if asSnap {
				name = rxSnapTarMagic8[i]
			}
			out += fmt.Sprintf("def %s : List UInt8 := %s\n", name, leanByteList(unhex(m)))
		}
		for i, m := range ans.Magics6Any {
			out += fmt.Sprintf("def magicWithoutVersion_%d : List UInt8 := %s\n", i, leanByteList(unhex(m)))
		}
		if len(ans.Versions) == 1 {
			out += fmt.Sprintf("def version : List UInt8 := %s\n", leanByteList(unhex(ans.Versions[0])))
		} else {
			var vs []string
			for _, v := range ans.Versions {
				vs = append(vs, leanByteList(unhex(v)))
			}
			out += "def versions : List (List UInt8) := [" + strings.Join(vs, ", ") + "]\n"
		}
		out += fmt.Sprintf("def sizeLen : Nat := %d\n", len(ans.SizePos))
		classes := map[string][]int{}
		for v, c := range ans.Flags {
			classes[c] = append(classes[c], v)
		}
		for _, c := range []string{"error", "other"} {
			if len(classes[c]) > 0 {
				return "", fmt.Errorf("findSegments: typeflag values %v are neither data, prepended nor ignored (%s)", classes[c], c)
			}
		}
		for _, l := range []struct {
			name, class string
			snap        []int
		}{{"prependFlags", "prepend", rxSnapTarPrepend}, {"dataFlags", "data", rxSnapTarData}} {
			got := classes[l.class]
			order := got // canonical: ascending
			if rxSameIntSet(got, l.snap) {
				order = l.snap
			}
			var bs []string
			for _, v := range order {
				bs = append(bs, strconv.Itoa(v))
			}
			out += fmt.Sprintf("def %s : List UInt8 := [%s]\n", l.name, strings.Join(bs, ", "))
		}
		out += fmt.Sprintf("def rejectsNegativeSize : Bool := %v\ndef probesLastContentByte : Bool := %v\n", ans.Negative, ans.Probe)
		return out + Footer("Tar"), nil
	}})
}

func rxSameIntSet(a, b []int) bool {
	if len(a) != len(b) {
		return false
	}
	m := map[int]int{}
	for _, x := range a {
		m[x]++
	}
	for _, x := range b {
		m[x]--
	}
	for _, n := range m {
		if n != 0 {
			return false
		}
	}
	return true
}

func leanByteList(s string) string {
	var bs []string
	for _, c := range []byte(s) {
		bs = append(bs, strconv.Itoa(int(c)))
	}
	return "[" + strings.Join(bs, ", ") + "]"
}

// exprString renders simple expressions (identifiers, selectors, binary
// expressions, index/slice/call) for shape comparisons.
func exprString(e ast.Expr) string {
	switch x := e.(type) {
	case nil:
		return ""
	case *ast.Ident:
		return x.Name
	case *ast.BasicLit:
		return x.Value
	case *ast.SelectorExpr:
		return exprString(x.X) + "." + x.Sel.Name
	case *ast.BinaryExpr:
		return exprString(x.X) + " " + x.Op.String() + " " + exprString(x.Y)
	case *ast.ParenExpr:
		return "(" + exprString(x.X) + ")"
	case *ast.IndexExpr:
		return exprString(x.X) + "[" + exprString(x.Index) + "]"
	case *ast.SliceExpr:
		return exprString(x.X) + "[" + exprString(x.Low) + ":" + exprString(x.High) + "]"
	case *ast.CallExpr:
		var as []string
		for _, a := range x.Args {
			as = append(as, exprString(a))
		}
		return exprString(x.Fun) + "(" + strings.Join(as, ", ") + ")"
	case *ast.UnaryExpr:
		return x.Op.String() + exprString(x.X)
	case *ast.StarExpr:
		return "*" + exprString(x.X)
	}
	return "?"
}
