package extract

import (
	"fmt"
	"go/ast"
	"strings"
)

// ReportTags: the fields of the report structs (C17) — Go name, JSON key,
// omitempty, `json:"-"`, and the field's type as written inside package
// claircore — so that the JSON model of Model/ReportJson.lean is compared with
// the code on every run.
//
// Evaluated (design/EXTRACT.md): the probe go/cmd/rxprobe/enums describes the
// real types by reflection (field order, json tags, types, and whether the
// struct or its pointer has a (Un)MarshalJSON / (Un)MarshalText method), so the
// facts do not depend on the file a struct is declared in, on how fields are
// grouped in the declaration, on other keys of the tag or on type aliases.
func init() {
	Register(Gen{Name: "ReportTags", Run: func(repo string) (string, error) {
		want := []string{"IndexReport", "VulnerabilityReport", "Package", "Vulnerability", "Distribution", "Repository", "Environment", "Range"}
		files := []string{"indexreport.go", "vulnerabilityreport.go", "package.go", "vulnerability.go", "distribution.go", "repository.go", "environment.go", "version.go"}
		out := Header("ReportTags", files...)
		var ans struct {
			Structs []struct {
				Name   string
				Fields []struct {
					Name, Tag, Type            string
					HasTag, Embedded, Exported bool
				}
				Methods []string
			} `json:"structs"`
		}
		if err := rxProbe(repo, "enums", map[string]any{}, &ans); err != nil {
			return "", err
		}
		if len(ans.Structs) != len(want) {
			return "", fmt.Errorf("reporttags probe: %d structs described, expected %d", len(ans.Structs), len(want))
		}
		out += "/-- struct ↦ fields in order: (Go name, JSON key bytes, omitempty, json:\"-\", type as written) -/\n"
		out += "def tags : List (String × List (String × List Nat × Bool × Bool × String)) := [\n"
		var custom []string
		for si, st := range ans.Structs {
			if st.Name != want[si] {
				return "", fmt.Errorf("reporttags probe: struct %d is %s, expected %s", si, st.Name, want[si])
			}
			var rows []string
			for _, fld := range st.Fields {
				if fld.Embedded {
					return "", fmt.Errorf("embedded field in %s: the JSON model does not cover embedding", st.Name)
				}
				if !fld.Exported {
					continue
				}
				key, omit, skip := fld.Name, false, false
				tag := fld.Tag
				if tag == "-" {
					skip = true
					key = ""
				} else if tag != "" {
					parts := strings.Split(tag, ",")
					if parts[0] != "" {
						key = parts[0]
					}
					for _, o := range parts[1:] {
						switch o {
						case "omitempty":
							omit = true
						default:
							return "", fmt.Errorf("%s.%s: json option %q is not modelled", st.Name, fld.Name, o)
						}
					}
				}
				kb := make([]int64, len(key))
				for i := 0; i < len(key); i++ {
					kb[i] = int64(key[i])
				}
				rows = append(rows, fmt.Sprintf("    (%s, %s, %v, %v, %s)", LeanString(fld.Name), LeanNatList(kb), omit, skip, LeanString(fld.Type)))
			}
			if si > 0 {
				out += ",\n"
			}
			out += fmt.Sprintf("  (%s, [\n%s])", LeanString(st.Name), strings.Join(rows, ",\n"))
			// a MarshalJSON / UnmarshalJSON on a report struct would bypass the field-wise model
			for _, m := range st.Methods {
				custom = append(custom, st.Name+"."+m)
			}
		}
		out += "]\n"
		out += "\n/-- custom (un)marshalers declared on the report structs themselves (the model assumes none) -/\n"
		out += "def customMarshalers : List String := " + LeanStrList(custom) + "\n"
		return out + Footer("ReportTags"), nil
	}})
}

func c17FindStruct(f *ast.File, name string) *ast.StructType {
	for _, d := range f.Decls {
		gd, ok := d.(*ast.GenDecl)
		if !ok {
			continue
		}
		for _, s := range gd.Specs {
			ts, ok := s.(*ast.TypeSpec)
			if !ok || ts.Name.Name != name {
				continue
			}
			if st, ok := ts.Type.(*ast.StructType); ok {
				return st
			}
		}
	}
	return nil
}
