package extract

import (
	"fmt"
	"go/ast"
	"go/types"
	"path/filepath"
	"reflect"
	"sort"
	"strconv"
	"strings"
)

// ReportTags: the fields of the report structs (C17) — Go name, JSON key,
// omitempty, `json:"-"`, and the field's type as written — so that the JSON
// model of Model/ReportJson.lean is compared with the sources on every run.
func init() {
	Register(Gen{Name: "ReportTags", Run: func(repo string) (string, error) {
		srcs := []struct {
			file    string
			structs []string
		}{
			{"indexreport.go", []string{"IndexReport"}},
			{"vulnerabilityreport.go", []string{"VulnerabilityReport"}},
			{"package.go", []string{"Package"}},
			{"vulnerability.go", []string{"Vulnerability"}},
			{"distribution.go", []string{"Distribution"}},
			{"repository.go", []string{"Repository"}},
			{"environment.go", []string{"Environment"}},
			{"version.go", []string{"Range"}},
		}
		var files []string
		for _, s := range srcs {
			files = append(files, s.file)
		}
		out := Header("ReportTags", files...)
		out += "/-- struct ↦ fields in order: (Go name, JSON key bytes, omitempty, json:\"-\", type as written) -/\n"
		out += "def tags : List (String × List (String × List Nat × Bool × Bool × String)) := [\n"
		first := true
		for _, s := range srcs {
			_, f, err := ParseFile(repo, s.file)
			if err != nil {
				return "", err
			}
			for _, name := range s.structs {
				st := c17FindStruct(f, name)
				if st == nil {
					return "", fmt.Errorf("struct %s not found in %s", name, s.file)
				}
				var rows []string
				for _, fld := range st.Fields.List {
					typ := types.ExprString(fld.Type)
					tag := ""
					if fld.Tag != nil {
						t, err := strconv.Unquote(fld.Tag.Value)
						if err != nil {
							return "", err
						}
						tag = reflect.StructTag(t).Get("json")
					}
					names := fld.Names
					if len(names) == 0 {
						return "", fmt.Errorf("embedded field in %s: the JSON model does not cover embedding", name)
					}
					for _, n := range names {
						if !n.IsExported() {
							continue
						}
						key, omit, skip := n.Name, false, false
						if tag == "-" {
							skip = true
							key = ""
						} else if tag != "" {
							parts := strings.Split(tag, ",")
							if parts[0] != "" {
								key = parts[0]
							}
							for _, o := range parts[1:] {
								switch o {
								case "omitempty":
									omit = true
								default:
									return "", fmt.Errorf("%s.%s: json option %q is not modelled", name, n.Name, o)
								}
							}
						}
						kb := make([]int64, len(key))
						for i := 0; i < len(key); i++ {
							kb[i] = int64(key[i])
						}
						rows = append(rows, fmt.Sprintf("    (%s, %s, %v, %v, %s)", LeanString(n.Name), LeanNatList(kb), omit, skip, LeanString(typ)))
					}
				}
				if !first {
					out += ",\n"
				}
				first = false
				out += fmt.Sprintf("  (%s, [\n%s])", LeanString(name), strings.Join(rows, ",\n"))
			}
		}
		out += "]\n"
		// which methods marshal: a MarshalJSON / UnmarshalJSON on a report struct would bypass the field-wise model
		var custom []string
		all, err := filepath.Glob(filepath.Join(repo, "*.go"))
		if err != nil {
			return "", err
		}
		sort.Strings(all)
		for _, path := range all {
			if strings.HasSuffix(path, "_test.go") {
				continue
			}
			_, f, err := ParseFile(repo, filepath.Base(path))
			if err != nil {
				return "", err
			}
			for _, s := range srcs {
				for _, name := range s.structs {
					for _, m := range []string{"MarshalJSON", "UnmarshalJSON", "MarshalText", "UnmarshalText"} {
						if FuncDecl(f, name, m) != nil {
							custom = append(custom, name+"."+m)
						}
					}
				}
			}
		}
		out += "\n/-- custom (un)marshalers declared on the report structs themselves (the model assumes none) -/\n"
		out += "def customMarshalers : List String := " + LeanStrList(custom) + "\n"
		return out + Footer("ReportTags"), nil
	}})
}

func c17FindStruct(f *ast.File, name string) *ast.StructType {
	for _, d := range f.Decls {
		gd, ok := d.(*ast.GenDecl)
		if !ok {
			continue
		}
		for _, s := range gd.Specs {
			ts, ok := s.(*ast.TypeSpec)
			if !ok || ts.Name.Name != name {
				continue
			}
			if st, ok := ts.Type.(*ast.StructType); ok {
				return st
			}
		}
	}
	return nil
}
