package extract

import (
	"fmt"
	"strings"
	"unicode"

	"github.com/Masterminds/semver"
)

// Unicode (property C12): the parts of Go's `unicode` tables the version
// parsers consult on non-ASCII runes — `unicode.IsDigit` (java/maven_version.go),
// `unicode.IsSpace` (pkg/pep440/range.go, go-rpm-version), `unicode.ToLower`
// via `strings.ToLower` (java/maven_version.go ordString) — computed from the
// standard library this harness is linked with (GOTOOLCHAIN=local), for every
// rune from U+0080 up.  Also the text of the Masterminds/semver expression
// (the linked version, pinned by /repo's go.mod).
func init() {
	Register(Gen{Name: "Unicode", Run: c12GenUnicode})
}

func c12Ranges(pred func(rune) bool) string {
	var parts []string
	start := rune(-1)
	flush := func(end rune) {
		if start >= 0 {
			parts = append(parts, fmt.Sprintf("(%d, %d)", start, end))
			start = -1
		}
	}
	for r := rune(0x80); r <= unicode.MaxRune; r++ {
		if pred(r) {
			if start < 0 {
				start = r
			}
		} else {
			flush(r - 1)
		}
	}
	flush(unicode.MaxRune)
	return "[" + strings.Join(parts, ", ") + "]"
}

func c12GenUnicode(repo string) (string, error) {
	out := Header("Unicode", "(Go standard library `unicode`; github.com/Masterminds/semver as linked)")
	out += "/-- Runes ≥ U+0080 for which `unicode.IsDigit` holds (closed ranges). -/\n"
	out += "def digitRanges : List (Nat × Nat) := " + c12Ranges(unicode.IsDigit) + "\n\n"
	out += "/-- Runes ≥ U+0080 for which `unicode.IsSpace` holds. -/\n"
	out += "def spaceRanges : List (Nat × Nat) := " + c12Ranges(unicode.IsSpace) + "\n\n"
	var pairs []string
	for r := rune(0x80); r <= unicode.MaxRune; r++ {
		if l := unicode.ToLower(r); l != r {
			pairs = append(pairs, fmt.Sprintf("(%d, %d)", r, l))
		}
	}
	// in chunks: one long list literal exceeds the elaborator's recursion depth
	var names []string
	for i := 0; i < len(pairs); i += 96 {
		j := min(i+96, len(pairs))
		name := fmt.Sprintf("lowerPairs%d", i/96)
		names = append(names, name)
		out += "def " + name + " : List (Nat × Nat) := [\n  " + c12Wrap(pairs[i:j], 8) + "]\n\n"
	}
	out += "/-- Runes ≥ U+0080 that `unicode.ToLower` changes, with their images. -/\n"
	out += "def lowerPairs : List (Nat × Nat) := " + strings.Join(names, " ++ ") + "\n\n"
	out += "/-- `semver.SemVerRegex` of the linked Masterminds/semver. -/\n"
	out += fmt.Sprintf("def semverRegex : String := %s\n", LeanString(semver.SemVerRegex))
	return out + Footer("Unicode"), nil
}

func c12Wrap(xs []string, per int) string {
	var b strings.Builder
	for i, x := range xs {
		b.WriteString(x)
		if i != len(xs)-1 {
			b.WriteString(",")
			if (i+1)%per == 0 {
				b.WriteString("\n  ")
			} else {
				b.WriteString(" ")
			}
		}
	}
	return b.String()
}
