package extract

// rx*: shared helpers of the shape-robust extractors (design/EXTRACT.md).
//
// rxPkg is a whole package directory parsed once: functions, constants and
// variables are looked up by name in every non-test file, so a declaration may
// move between files of its package; constant expressions (literals,
// concatenations, iota blocks, references to other package-level constants or
// simple variables, constants of other claircore packages and a few of the
// standard library) are folded with go/constant, so a literal may be hoisted
// into a named constant or spelled as a concatenation.

import (
	"fmt"
	"go/ast"
	"go/constant"
	"go/parser"
	"go/token"
	"os"
	"path/filepath"
	"sort"
	"strconv"
	"strings"
)

type rxPkg struct {
	repo, dir string
	fset      *token.FileSet
	names     []string
	files     []*ast.File
	cache     map[string]constant.Value
	busy      map[string]bool
}

var rxPkgCache = map[string]*rxPkg{}

// rxLoadPkg parses the non-test, non-hook Go files of repo/dir.
func rxLoadPkg(repo, dir string) (*rxPkg, error) {
	key := repo + "\x00" + dir
	if p, ok := rxPkgCache[key]; ok {
		return p, nil
	}
	ents, err := os.ReadDir(filepath.Join(repo, dir))
	if err != nil {
		return nil, err
	}
	p := &rxPkg{repo: repo, dir: dir, fset: token.NewFileSet(), cache: map[string]constant.Value{}, busy: map[string]bool{}}
	for _, e := range ents {
		n := e.Name()
		if e.IsDir() || !strings.HasSuffix(n, ".go") || strings.HasSuffix(n, "_test.go") || strings.HasSuffix(n, "_verif.go") {
			continue
		}
		p.names = append(p.names, n)
	}
	sort.Strings(p.names)
	for _, n := range p.names {
		f, err := parser.ParseFile(p.fset, filepath.Join(repo, dir, n), nil, parser.ParseComments)
		if err != nil {
			return nil, err
		}
		if rxIgnoredFile(f) {
			continue
		}
		p.files = append(p.files, f)
	}
	// keep the majority package only
	cnt := map[string]int{}
	for _, f := range p.files {
		cnt[f.Name.Name]++
	}
	best := ""
	for n, c := range cnt {
		if best == "" || c > cnt[best] || (c == cnt[best] && n < best) {
			best = n
		}
	}
	var keep []*ast.File
	for _, f := range p.files {
		if f.Name.Name == best {
			keep = append(keep, f)
		}
	}
	p.files = keep
	if len(p.files) == 0 {
		return nil, fmt.Errorf("%s: no Go files", dir)
	}
	rxPkgCache[key] = p
	return p, nil
}

// rxIgnoredFile: files excluded from every build (`//go:build ignore`).
func rxIgnoredFile(f *ast.File) bool {
	for _, cg := range f.Comments {
		if cg.Pos() > f.Package {
			break
		}
		for _, c := range cg.List {
			t := strings.TrimSpace(c.Text)
			if strings.HasPrefix(t, "//go:build ") && strings.Contains(t, "ignore") {
				return true
			}
			if strings.HasPrefix(t, "// +build ") && strings.Contains(t, "ignore") {
				return true
			}
		}
	}
	return false
}

// Func finds a function or method anywhere in the package.
func (p *rxPkg) Func(recv, name string) *ast.FuncDecl {
	for _, f := range p.files {
		if fd := FuncDecl(f, recv, name); fd != nil && fd.Body != nil {
			return fd
		}
	}
	return nil
}

// FileOf returns the file that declares the node (for import resolution).
func (p *rxPkg) FileOf(n ast.Node) *ast.File {
	for _, f := range p.files {
		if f.Pos() <= n.Pos() && n.Pos() < f.End() {
			return f
		}
	}
	return nil
}

type rxDecl struct {
	file  *ast.File
	decl  *ast.GenDecl
	spec  *ast.ValueSpec
	index int      // index of the name within the spec
	iota  int      // index of the spec within a const declaration
	value ast.Expr // the initialiser (for constants: with implicit repetition resolved), nil if none
	typ   ast.Expr
}

// Decl finds the package-level constant or variable `name`.
func (p *rxPkg) Decl(name string) *rxDecl {
	for _, f := range p.files {
		for _, d := range f.Decls {
			gd, ok := d.(*ast.GenDecl)
			if !ok || (gd.Tok != token.CONST && gd.Tok != token.VAR) {
				continue
			}
			if r := rxDeclIn(gd, name); r != nil {
				r.file = f
				return r
			}
		}
	}
	return nil
}

func rxDeclIn(gd *ast.GenDecl, name string) *rxDecl {
	var lastVals []ast.Expr
	var lastTyp ast.Expr
	for si, s := range gd.Specs {
		vs, ok := s.(*ast.ValueSpec)
		if !ok {
			continue
		}
		vals, typ := vs.Values, vs.Type
		if gd.Tok == token.CONST {
			if len(vals) == 0 {
				vals, typ = lastVals, lastTyp
			} else {
				lastVals, lastTyp = vals, typ
			}
		}
		for i, n := range vs.Names {
			if n.Name != name {
				continue
			}
			r := &rxDecl{decl: gd, spec: vs, index: i, iota: si, typ: typ}
			if i < len(vals) {
				r.value = vals[i]
			}
			return r
		}
	}
	return nil
}

// rxScope: names visible in addition to the package level (function-local
// constants and single-assignment variables), already evaluated or as expressions.
type rxScope struct {
	pkg    *rxPkg
	file   *ast.File
	local  map[string]ast.Expr
	locali map[string]int // iota of a local constant
	vals   map[string]constant.Value
	iota   int
	hasI   bool
	depth  int
}

func (p *rxPkg) Scope(file *ast.File) *rxScope {
	return &rxScope{pkg: p, file: file, local: map[string]ast.Expr{}, locali: map[string]int{}, vals: map[string]constant.Value{}}
}

// ScopeOf returns a scope for code inside fd: the function's local constant
// declarations and `x := <expr>` definitions that are never reassigned.
func (p *rxPkg) ScopeOf(fd *ast.FuncDecl) *rxScope {
	s := p.Scope(p.FileOf(fd))
	if fd == nil || fd.Body == nil {
		return s
	}
	s.AddLocals(fd.Body)
	return s
}

func (s *rxScope) AddLocals(body ast.Node) {
	assigned := map[string]int{}
	ast.Inspect(body, func(n ast.Node) bool {
		switch x := n.(type) {
		case *ast.AssignStmt:
			for _, l := range x.Lhs {
				if id, ok := l.(*ast.Ident); ok {
					assigned[id.Name]++
				}
			}
		case *ast.IncDecStmt:
			if id, ok := x.X.(*ast.Ident); ok {
				assigned[id.Name] += 2
			}
		case *ast.RangeStmt:
			for _, l := range []ast.Expr{x.Key, x.Value} {
				if id, ok := l.(*ast.Ident); ok {
					assigned[id.Name] += 2
				}
			}
		}
		return true
	})
	ast.Inspect(body, func(n ast.Node) bool {
		switch x := n.(type) {
		case *ast.DeclStmt:
			gd, ok := x.Decl.(*ast.GenDecl)
			if !ok || (gd.Tok != token.CONST && gd.Tok != token.VAR) {
				return true
			}
			for _, sp := range gd.Specs {
				vs, ok := sp.(*ast.ValueSpec)
				if !ok {
					continue
				}
				for _, nm := range vs.Names {
					if gd.Tok == token.VAR && assigned[nm.Name] > 0 {
						continue
					}
					if r := rxDeclIn(gd, nm.Name); r != nil && r.value != nil {
						s.local[nm.Name] = r.value
						s.locali[nm.Name] = r.iota
					}
				}
			}
		case *ast.AssignStmt:
			if x.Tok == token.DEFINE && len(x.Lhs) == len(x.Rhs) {
				for i, l := range x.Lhs {
					if id, ok := l.(*ast.Ident); ok && assigned[id.Name] == 1 {
						s.local[id.Name] = x.Rhs[i]
					}
				}
			}
		}
		return true
	})
}

var rxStdConsts = map[string]int64{
	"http.StatusOK": 200, "http.StatusCreated": 201, "http.StatusAccepted": 202, "http.StatusNoContent": 204,
	"http.StatusPartialContent": 206, "http.StatusNotModified": 304,
	"sha256.Size": 32, "sha512.Size": 64, "sha1.Size": 20, "md5.Size": 16, "sha512.Size384": 48, "sha256.Size224": 28,
	"math.MaxInt32": 1<<31 - 1, "math.MinInt32": -(1 << 31), "math.MaxInt64": 1<<63 - 1, "math.MaxUint8": 255,
	"math.MaxInt16": 1<<15 - 1, "math.MaxUint16": 1<<16 - 1, "math.MaxInt8": 127,
}

// rxImportDir maps an import path to a directory of the repository ("" if outside).
func rxImportDir(path string) (string, bool) {
	const root = "github.com/quay/claircore"
	switch {
	case path == root:
		return ".", true
	case strings.HasPrefix(path, root+"/"):
		return strings.TrimPrefix(path, root+"/"), true
	}
	return "", false
}

func rxImportPath(f *ast.File, name string) string {
	if f == nil {
		return ""
	}
	for _, im := range f.Imports {
		path, err := strconv.Unquote(im.Path.Value)
		if err != nil {
			continue
		}
		local := filepath.Base(path)
		if im.Name != nil {
			local = im.Name.Name
		} else if strings.HasPrefix(local, "v") && len(local) > 1 && local[1] >= '0' && local[1] <= '9' {
			local = filepath.Base(filepath.Dir(path))
		}
		if local == name {
			return path
		}
	}
	return ""
}

// Const folds a constant expression; ok is false if it is not one the folder understands.
func (s *rxScope) Const(e ast.Expr) (constant.Value, bool) {
	if s.depth > 40 {
		return nil, false
	}
	s.depth++
	defer func() { s.depth-- }()
	switch x := e.(type) {
	case *ast.BasicLit:
		v := constant.MakeFromLiteral(x.Value, x.Kind, 0)
		return v, v.Kind() != constant.Unknown
	case *ast.ParenExpr:
		return s.Const(x.X)
	case *ast.Ident:
		switch x.Name {
		case "true":
			return constant.MakeBool(true), true
		case "false":
			return constant.MakeBool(false), true
		case "iota":
			if s.hasI {
				return constant.MakeInt64(int64(s.iota)), true
			}
			return nil, false
		}
		if v, ok := s.vals[x.Name]; ok {
			return v, true
		}
		if le, ok := s.local[x.Name]; ok {
			sub := *s
			sub.local = map[string]ast.Expr{}
			for k, v := range s.local {
				if k != x.Name {
					sub.local[k] = v
				}
			}
			sub.iota, sub.hasI = s.locali[x.Name], true
			return sub.Const(le)
		}
		return s.pkg.constOf(x.Name)
	case *ast.SelectorExpr:
		id, ok := x.X.(*ast.Ident)
		if !ok {
			return nil, false
		}
		if v, ok := rxStdConsts[id.Name+"."+x.Sel.Name]; ok {
			return constant.MakeInt64(v), true
		}
		path := rxImportPath(s.file, id.Name)
		dir, ok := rxImportDir(path)
		if !ok {
			return nil, false
		}
		q, err := rxLoadPkg(s.pkg.repo, dir)
		if err != nil {
			return nil, false
		}
		return q.constOf(x.Sel.Name)
	case *ast.UnaryExpr:
		v, ok := s.Const(x.X)
		if !ok {
			return nil, false
		}
		switch x.Op {
		case token.SUB, token.ADD, token.NOT, token.XOR:
			defer func() { recover() }()
			return constant.UnaryOp(x.Op, v, 0), true
		}
		return nil, false
	case *ast.BinaryExpr:
		a, ok := s.Const(x.X)
		if !ok {
			return nil, false
		}
		b, ok := s.Const(x.Y)
		if !ok {
			return nil, false
		}
		return rxBinary(a, x.Op, b)
	case *ast.CallExpr:
		// conversions T(x) of a constant, len("const")
		if len(x.Args) != 1 {
			return nil, false
		}
		if id, ok := x.Fun.(*ast.Ident); ok && id.Name == "len" {
			v, ok := s.Const(x.Args[0])
			if ok && v.Kind() == constant.String {
				return constant.MakeInt64(int64(len(constant.StringVal(v)))), true
			}
			return nil, false
		}
		switch f := x.Fun.(type) {
		case *ast.Ident:
			switch f.Name {
			case "string":
				v, ok := s.Const(x.Args[0])
				if !ok {
					return nil, false
				}
				if v.Kind() == constant.Int {
					n, _ := constant.Int64Val(v)
					return constant.MakeString(string(rune(n))), true
				}
				return v, v.Kind() == constant.String
			case "int", "int8", "int16", "int32", "int64", "uint", "uint8", "uint16", "uint32", "uint64", "byte", "rune", "uintptr":
				v, ok := s.Const(x.Args[0])
				if !ok {
					return nil, false
				}
				v = constant.ToInt(v)
				return v, v.Kind() == constant.Int
			case "float64", "float32":
				v, ok := s.Const(x.Args[0])
				if !ok {
					return nil, false
				}
				v = constant.ToFloat(v)
				return v, v.Kind() == constant.Float
			}
			// a named type of the package: T(x)
			if s.pkg.isTypeName(f.Name) {
				return s.Const(x.Args[0])
			}
		case *ast.SelectorExpr:
			// pkg.T(x) for a claircore package type
			if id, ok := f.X.(*ast.Ident); ok {
				if dir, ok := rxImportDir(rxImportPath(s.file, id.Name)); ok {
					if q, err := rxLoadPkg(s.pkg.repo, dir); err == nil && q.isTypeName(f.Sel.Name) {
						return s.Const(x.Args[0])
					}
				}
			}
		}
	}
	return nil, false
}

func rxBinary(a constant.Value, op token.Token, b constant.Value) (v constant.Value, ok bool) {
	defer func() {
		if recover() != nil {
			v, ok = nil, false
		}
	}()
	switch op {
	case token.ADD, token.SUB, token.MUL, token.REM, token.AND, token.OR, token.XOR, token.AND_NOT, token.LAND, token.LOR:
		return constant.BinaryOp(a, op, b), true
	case token.QUO:
		if a.Kind() == constant.Int && b.Kind() == constant.Int {
			return constant.BinaryOp(a, token.QUO_ASSIGN, b), true
		}
		return constant.BinaryOp(a, op, b), true
	case token.SHL, token.SHR:
		n, exact := constant.Uint64Val(constant.ToInt(b))
		if !exact || n > 512 {
			return nil, false
		}
		return constant.Shift(constant.ToInt(a), op, uint(n)), true
	case token.EQL, token.NEQ, token.LSS, token.LEQ, token.GTR, token.GEQ:
		return constant.MakeBool(constant.Compare(a, op, b)), true
	}
	return nil, false
}

func (p *rxPkg) isTypeName(name string) bool {
	for _, f := range p.files {
		for _, d := range f.Decls {
			gd, ok := d.(*ast.GenDecl)
			if !ok || gd.Tok != token.TYPE {
				continue
			}
			for _, s := range gd.Specs {
				if ts, ok := s.(*ast.TypeSpec); ok && ts.Name.Name == name {
					return true
				}
			}
		}
	}
	return false
}

// constOf evaluates the package-level constant (or variable with a constant
// initialiser that no function of the package assigns to) `name`.
func (p *rxPkg) constOf(name string) (constant.Value, bool) {
	if v, ok := p.cache[name]; ok {
		return v, v != nil
	}
	if p.busy[name] {
		return nil, false
	}
	p.busy[name] = true
	defer delete(p.busy, name)
	d := p.Decl(name)
	if d == nil || d.value == nil {
		p.cache[name] = nil
		return nil, false
	}
	if d.decl.Tok == token.VAR && p.assignedAnywhere(name) {
		p.cache[name] = nil
		return nil, false
	}
	s := p.Scope(d.file)
	if d.decl.Tok == token.CONST {
		s.iota, s.hasI = d.iota, true
	}
	v, ok := s.Const(d.value)
	if !ok {
		p.cache[name] = nil
		return nil, false
	}
	p.cache[name] = v
	return v, true
}

// assignedAnywhere: is the package-level variable the target of an assignment
// (or has its address taken) in some function of the package?
func (p *rxPkg) assignedAnywhere(name string) bool {
	found := false
	for _, f := range p.files {
		ast.Inspect(f, func(n ast.Node) bool {
			switch x := n.(type) {
			case *ast.AssignStmt:
				if x.Tok == token.DEFINE {
					return true
				}
				for _, l := range x.Lhs {
					if id, ok := l.(*ast.Ident); ok && id.Name == name {
						found = true
					}
				}
			case *ast.UnaryExpr:
				if x.Op == token.AND {
					if id, ok := x.X.(*ast.Ident); ok && id.Name == name {
						found = true
					}
				}
			}
			return !found
		})
	}
	return found
}

// Str folds a string-valued constant expression.
func (s *rxScope) Str(e ast.Expr) (string, bool) {
	v, ok := s.Const(e)
	if !ok || v.Kind() != constant.String {
		return "", false
	}
	return constant.StringVal(v), true
}

// Int folds an integer-valued constant expression.
func (s *rxScope) Int(e ast.Expr) (int64, bool) {
	v, ok := s.Const(e)
	if !ok {
		return 0, false
	}
	v = constant.ToInt(v)
	if v.Kind() != constant.Int {
		return 0, false
	}
	n, exact := constant.Int64Val(v)
	return n, exact
}

// StrConst evaluates the package-level string constant / variable `name`.
func (p *rxPkg) StrConst(name string) (string, error) {
	v, ok := p.constOf(name)
	if !ok || v.Kind() != constant.String {
		return "", fmt.Errorf("%s: string constant %s not found (or not a constant expression)", p.dir, name)
	}
	return constant.StringVal(v), nil
}

// IntConst evaluates the package-level integer constant `name`.
func (p *rxPkg) IntConst(name string) (int64, error) {
	v, ok := p.constOf(name)
	if ok {
		v = constant.ToInt(v)
	}
	if !ok || v.Kind() != constant.Int {
		return 0, fmt.Errorf("%s: integer constant %s not found (or not a constant expression)", p.dir, name)
	}
	n, _ := constant.Int64Val(v)
	return n, nil
}

// StringLits returns every distinct string literal of the package's non-test
// files and the value of every string constant expression at package level.
func (p *rxPkg) StringLits() []string {
	seen := map[string]bool{}
	tags := map[*ast.BasicLit]bool{}
	for _, f := range p.files {
		ast.Inspect(f, func(n ast.Node) bool {
			switch x := n.(type) {
			case *ast.ImportSpec:
				return false
			case *ast.Field:
				// struct tags are not values
				if x.Tag != nil {
					tags[x.Tag] = true
				}
			case *ast.BasicLit:
				if x.Kind == token.STRING && !tags[x] {
					if s, err := strconv.Unquote(x.Value); err == nil {
						seen[s] = true
					}
				}
			case *ast.GenDecl:
				if x.Tok == token.CONST || x.Tok == token.VAR {
					for _, sp := range x.Specs {
						if vs, ok := sp.(*ast.ValueSpec); ok {
							for _, nm := range vs.Names {
								if v, ok := p.constOf(nm.Name); ok && v.Kind() == constant.String {
									seen[constant.StringVal(v)] = true
								}
							}
						}
					}
				}
			}
			return true
		})
	}
	out := make([]string, 0, len(seen))
	for s := range seen {
		out = append(out, s)
	}
	sort.Strings(out)
	return out
}

// IotaNames returns the names of the constants of type typ declared in an
// iota-style block, in value order (blank names skipped); values must be 0..n-1
// (or start..) in declaration order.
func (p *rxPkg) IotaNames(typ string) ([]string, []int64, error) {
	for _, f := range p.files {
		for _, d := range f.Decls {
			gd, ok := d.(*ast.GenDecl)
			if !ok || gd.Tok != token.CONST || len(gd.Specs) == 0 {
				continue
			}
			first, ok := gd.Specs[0].(*ast.ValueSpec)
			if !ok {
				continue
			}
			id, ok := first.Type.(*ast.Ident)
			if !ok || id.Name != typ {
				continue
			}
			var names []string
			var vals []int64
			for _, s := range gd.Specs {
				vs := s.(*ast.ValueSpec)
				for _, nm := range vs.Names {
					if nm.Name == "_" {
						continue
					}
					r := rxDeclIn(gd, nm.Name)
					if r == nil || r.value == nil {
						return nil, nil, fmt.Errorf("%s: constant %s of type %s has no value", p.dir, nm.Name, typ)
					}
					if r.typ != nil {
						if tid, ok := r.typ.(*ast.Ident); !ok || tid.Name != typ {
							return nil, nil, fmt.Errorf("%s: const block of %s holds a constant of another type", p.dir, typ)
						}
					}
					sc := p.Scope(f)
					sc.iota, sc.hasI = r.iota, true
					v, ok := sc.Int(r.value)
					if !ok {
						return nil, nil, fmt.Errorf("%s: constant %s of type %s is not an integer constant expression", p.dir, nm.Name, typ)
					}
					names = append(names, nm.Name)
					vals = append(vals, v)
				}
			}
			return names, vals, nil
		}
	}
	return nil, nil, fmt.Errorf("%s: const block of type %s not found", p.dir, typ)
}

// IotaSeq is IotaNames restricted to the plain sequence 0, 1, 2, ...
func (p *rxPkg) IotaSeq(typ string) ([]string, error) {
	names, vals, err := p.IotaNames(typ)
	if err != nil {
		return nil, err
	}
	for i, v := range vals {
		if v != int64(i) {
			return nil, fmt.Errorf("%s: constants of type %s are not the sequence 0,1,2,… (%s = %d)", p.dir, typ, names[i], v)
		}
	}
	return names, nil
}

// Struct finds the struct type `name` in the package.
func (p *rxPkg) Struct(name string) *ast.StructType {
	for _, f := range p.files {
		if st := c17FindStruct(f, name); st != nil {
			return st
		}
	}
	return nil
}

// rxCalleesInPkg lists, in call order, the package-level functions / methods of
// the package that body calls directly (by identifier or by method name on any
// receiver, when the package declares exactly one method of that name).
func (p *rxPkg) rxCallee(call *ast.CallExpr) *ast.FuncDecl {
	switch f := call.Fun.(type) {
	case *ast.Ident:
		return p.Func("", f.Name)
	case *ast.SelectorExpr:
		// method of a package type: unique by name, or by name and number of parameters
		var cands []*ast.FuncDecl
		for _, file := range p.files {
			for _, d := range file.Decls {
				if fd, ok := d.(*ast.FuncDecl); ok && fd.Recv != nil && fd.Body != nil && fd.Name.Name == f.Sel.Name {
					cands = append(cands, fd)
				}
			}
		}
		if len(cands) > 1 {
			var byArity []*ast.FuncDecl
			for _, fd := range cands {
				n := 0
				variadic := false
				if fd.Type.Params != nil {
					for _, fl := range fd.Type.Params.List {
						if _, ok := fl.Type.(*ast.Ellipsis); ok {
							variadic = true
						}
						if len(fl.Names) == 0 {
							n++
						}
						n += len(fl.Names)
					}
				}
				if !variadic && n == len(call.Args) {
					byArity = append(byArity, fd)
				}
			}
			cands = byArity
		}
		if len(cands) == 1 {
			// not a call through an imported package name
			if id, ok := f.X.(*ast.Ident); ok {
				if rxImportPath(p.FileOf(call), id.Name) != "" {
					return nil
				}
			}
			return cands[0]
		}
	}
	return nil
}
