package extract

import (
	"bytes"
	"crypto/sha256"
	"encoding/hex"
	"go/ast"
	"go/parser"
	"go/printer"
	"go/token"
	"io/fs"
	"path/filepath"
	"strings"
)

// Shape returns, for every non-test .go file of the repository, a digest of
// its comment-free, position-free printed AST. A changed digest is never a
// verdict; ./check only uses it to widen the exploration of the properties
// anchored in that file.
func Shape(repo string) (map[string]string, error) {
	out := map[string]string{}
	err := filepath.WalkDir(repo, func(p string, d fs.DirEntry, err error) error {
		if err != nil {
			return nil
		}
		if d.IsDir() {
			n := d.Name()
			if n == ".git" || n == "testdata" || n == "node_modules" {
				return filepath.SkipDir
			}
			return nil
		}
		if !strings.HasSuffix(p, ".go") || strings.HasSuffix(p, "_test.go") {
			return nil
		}
		fset := token.NewFileSet()
		f, err := parser.ParseFile(fset, p, nil, 0) // comments dropped
		rel, _ := filepath.Rel(repo, p)
		if err != nil {
			out[rel] = "unparsable"
			return nil
		}
		f.Doc = nil
		ast.Inspect(f, func(n ast.Node) bool {
			switch x := n.(type) {
			case *ast.FuncDecl:
				x.Doc = nil
			case *ast.GenDecl:
				x.Doc = nil
			case *ast.Field:
				x.Doc, x.Comment = nil, nil
			case *ast.ValueSpec:
				x.Doc, x.Comment = nil, nil
			case *ast.TypeSpec:
				x.Doc, x.Comment = nil, nil
			}
			return true
		})
		var buf bytes.Buffer
		if err := (&printer.Config{Mode: printer.RawFormat}).Fprint(&buf, token.NewFileSet(), f); err != nil {
			out[rel] = "unprintable"
			return nil
		}
		h := sha256.Sum256(buf.Bytes())
		out[rel] = hex.EncodeToString(h[:8])
		return nil
	})
	return out, err
}
