package extract

import "fmt"

// Enums: the stringer name/index tables of Severity and ArchOp.
func init() {
	Register(Gen{Name: "Enums", Run: func(repo string) (string, error) {
		out := Header("Enums", "severity_string.go", "archop_string.go", "toolkit/types/generate_string.go")
		for _, e := range []struct{ file, typ, as string }{
			{"severity_string.go", "Severity", "Severity"}, {"archop_string.go", "ArchOp", "ArchOp"},
			// the copies of the same types (and PackageKind) in toolkit/types share one generated file
			{"toolkit/types/generate_string.go", "Severity", "TkSeverity"}, {"toolkit/types/generate_string.go", "ArchOp", "TkArchOp"},
			{"toolkit/types/generate_string.go", "PackageKind", "PackageKind"},
		} {
			_, f, err := ParseFile(repo, e.file)
			if err != nil {
				return "", err
			}
			name, err := StringConst(f, "_"+e.typ+"_name")
			if err != nil {
				return "", err
			}
			idx, err := IntArray(f, "_"+e.typ+"_index")
			if err != nil {
				return "", err
			}
			out += fmt.Sprintf("def %sName : String := %s\n", lower(e.as), LeanString(name))
			out += fmt.Sprintf("def %sIndex : List Nat := %s\n", lower(e.as), LeanNatList(idx))
			bs := make([]int64, len(name))
			for i := 0; i < len(name); i++ {
				bs[i] = int64(name[i])
			}
			out += fmt.Sprintf("def %sNameBytes : List Nat := %s\n\n", lower(e.as), LeanNatList(bs))
		}
		return out + Footer("Enums"), nil
	}})
}

func lower(s string) string {
	if s == "" {
		return s
	}
	b := []byte(s)
	if b[0] >= 'A' && b[0] <= 'Z' {
		b[0] += 'a' - 'A'
	}
	return string(b)
}
