package extract

import "fmt"

// Enums: the name/index tables of the stringer-backed enumerations Severity and
// ArchOp (and their copies, and PackageKind, in toolkit/types).
//
// Evaluated (design/EXTRACT.md): the probe go/cmd/rxprobe/enums calls the real
// String method on 0, 1, 2, … until it answers with the fallback "<Type>(n)";
// the concatenation of the names and their offsets is what stringer writes as
// `_<Type>_name` / `_<Type>_index`, however the method is implemented today.
func init() {
	Register(Gen{Name: "Enums", Run: func(repo string) (string, error) {
		out := Header("Enums", "severity_string.go", "archop_string.go", "toolkit/types/generate_string.go")
		var ans struct {
			Enums map[string][]string `json:"enums"`
		}
		if err := rxProbe(repo, "enums", map[string]any{}, &ans); err != nil {
			return "", err
		}
		names := ans.Enums
		for _, as := range []string{"Severity", "ArchOp", "TkSeverity", "TkArchOp", "PackageKind"} {
			ns, ok := names[as]
			if !ok || len(ns) == 0 {
				return "", fmt.Errorf("enums probe: no names for %s", as)
			}
			name := ""
			idx := []int64{0}
			for _, n := range ns {
				name += n
				idx = append(idx, int64(len(name)))
			}
			out += fmt.Sprintf("def %sName : String := %s\n", lower(as), LeanString(name))
			out += fmt.Sprintf("def %sIndex : List Nat := %s\n", lower(as), LeanNatList(idx))
			bs := make([]int64, len(name))
			for i := 0; i < len(name); i++ {
				bs[i] = int64(name[i])
			}
			out += fmt.Sprintf("def %sNameBytes : List Nat := %s\n\n", lower(as), LeanNatList(bs))
		}
		return out + Footer("Enums"), nil
	}})
}

func lower(s string) string {
	if s == "" {
		return s
	}
	b := []byte(s)
	if b[0] >= 'A' && b[0] <= 'Z' {
		b[0] += 'a' - 'A'
	}
	return string(b)
}
