package extract

// Gen.Cvss: the table-like parts of the CVSS code that properties C18 and C14
// depend on, regenerated from the current sources on every run:
//
//   - toolkit/types/cvss: metric names and valid-value strings (v2/v3/v4),
//     v2Weights, v3Weights, the v4 macrovector score table, eqDepth and maxFrag,
//     the bands of QualitativeScore;
//   - updater/osv: the metric/value/weight tables of fromCVSS3 and fromCVSS2,
//     their ignored-metric lists and their severity bands.
//
// All of it is EVALUATED (rxcvss.go, probe go/cmd/rxprobe/cvss) except the
// severity bands of the two osv functions, which are read with the tolerant
// reader of Gen/Severity (the functions return only a severity, and their score
// is not on tenths, so the comparison operators cannot be observed).  Key order
// of the osv tables: rxcvsssnap.go.
//
// Strings are emitted as lists of byte values (kernel-friendly), weights as
// integers scaled by 1000 (`none` for math.NaN()), scores scaled by 10.

import (
	"fmt"
	"go/ast"
	"go/token"
	"math/big"
	"strconv"
	"strings"
)

func init() {
	Register(Gen{Name: "Cvss", Run: genCvss})
}

func cvLeanBytes(s string) string {
	q := make([]string, len(s))
	for i := 0; i < len(s); i++ {
		q[i] = strconv.Itoa(int(s[i]))
	}
	return "[" + strings.Join(q, ", ") + "]"
}

func cvLeanBytesList(xs []string) string {
	q := make([]string, len(xs))
	for i, x := range xs {
		q[i] = cvLeanBytes(x)
	}
	return "[" + strings.Join(q, ", ") + "]"
}

func cvLeanInt(n int64) string {
	if n < 0 {
		return "(" + strconv.FormatInt(n, 10) + ")"
	}
	return strconv.FormatInt(n, 10)
}

// cvScaledLit evaluates a numeric literal exactly and scales it; the result
// must be an integer.
func cvScaledLit(e ast.Expr, scale int64) (int64, bool, error) {
	switch x := e.(type) {
	case *ast.BasicLit:
		if x.Kind != token.FLOAT && x.Kind != token.INT {
			return 0, false, fmt.Errorf("not a number: %s", x.Value)
		}
		r, ok := new(big.Rat).SetString(strings.ReplaceAll(x.Value, "_", ""))
		if !ok {
			return 0, false, fmt.Errorf("cannot read number %s", x.Value)
		}
		r.Mul(r, big.NewRat(scale, 1))
		if !r.IsInt() {
			return 0, false, fmt.Errorf("%s * %d is not an integer", x.Value, scale)
		}
		return r.Num().Int64(), false, nil
	case *ast.CallExpr:
		if se, ok := x.Fun.(*ast.SelectorExpr); ok && se.Sel.Name == "NaN" {
			return 0, true, nil
		}
	case *ast.ParenExpr:
		return cvScaledLit(x.X, scale)
	case *ast.UnaryExpr:
		n, nan, err := cvScaledLit(x.X, scale)
		if x.Op == token.SUB {
			n = -n
		}
		return n, nan, err
	}
	return 0, false, fmt.Errorf("unsupported numeric expression")
}

// cvCaseCond reads `s == 0`, `s < 4`, `score <= 10` -> (op, bound*10).
func cvCaseCond(e ast.Expr, v string) (string, error) {
	be, ok := e.(*ast.BinaryExpr)
	if !ok {
		return "", fmt.Errorf("case is not a comparison")
	}
	id, ok := be.X.(*ast.Ident)
	if !ok || id.Name != v {
		return "", fmt.Errorf("case does not compare %s", v)
	}
	n, _, err := cvScaledLit(be.Y, 10)
	if err != nil {
		return "", err
	}
	var op int
	switch be.Op {
	case token.EQL:
		op = 0
	case token.LSS:
		op = 1
	case token.LEQ:
		op = 2
	default:
		return "", fmt.Errorf("unsupported comparison %s", be.Op)
	}
	return fmt.Sprintf("(%d, %s", op, cvLeanInt(n)), nil
}

// cvAssignedName finds the identifier assigned in `x = Name` or `x = pkg.Name`.
func cvAssignedName(stmts []ast.Stmt) (string, bool) {
	for _, st := range stmts {
		as, ok := st.(*ast.AssignStmt)
		if !ok || len(as.Rhs) != 1 {
			continue
		}
		switch r := as.Rhs[0].(type) {
		case *ast.Ident:
			return r.Name, true
		case *ast.SelectorExpr:
			return r.Sel.Name, true
		}
	}
	return "", false
}

// cvBandSwitch renders a tagless switch over `v` whose cases assign a named
// constant: [(op, bound*10, value)], plus the default's value (or none when
// the default does not assign, e.g. returns an error).
func cvBandSwitch(sw *ast.SwitchStmt, v string, value func(string) (int, error)) (string, string, error) {
	var cases []string
	def := "none"
	for _, st := range sw.Body.List {
		cc := st.(*ast.CaseClause)
		name, ok := cvAssignedName(cc.Body)
		if cc.List == nil {
			if ok {
				n, err := value(name)
				if err != nil {
					return "", "", err
				}
				def = fmt.Sprintf("some %d", n)
			}
			continue
		}
		if len(cc.List) != 1 || !ok {
			return "", "", fmt.Errorf("band switch: unexpected case shape")
		}
		c, err := cvCaseCond(cc.List[0], v)
		if err != nil {
			return "", "", err
		}
		n, err := value(name)
		if err != nil {
			return "", "", err
		}
		cases = append(cases, fmt.Sprintf("%s, %d)", c, n))
	}
	return "[" + strings.Join(cases, ", ") + "]", def, nil
}

func cvFindTaglessSwitchOver(body *ast.BlockStmt, v string) *ast.SwitchStmt {
	var found *ast.SwitchStmt
	ast.Inspect(body, func(n ast.Node) bool {
		sw, ok := n.(*ast.SwitchStmt)
		if !ok || sw.Tag != nil || len(sw.Body.List) == 0 {
			return true
		}
		cc := sw.Body.List[0].(*ast.CaseClause)
		if len(cc.List) == 1 {
			if be, ok := cc.List[0].(*ast.BinaryExpr); ok {
				if id, ok := be.X.(*ast.Ident); ok && id.Name == v {
					found = sw
				}
			}
		}
		return true
	})
	return found
}

var cvSeverityValue = map[string]int{"Unknown": 0, "Negligible": 1, "Low": 2, "Medium": 3, "High": 4, "Critical": 5}
var cvQualitativeValue = map[string]int{"None": 1, "Low": 2, "Medium": 3, "High": 4, "Critical": 5}

func genCvss(repo string) (string, error) {
	const dir = "toolkit/types/cvss/"
	out := Header("Cvss", dir+"*.go", "updater/osv/cvss.go")
	ev, pts, err := rxCvssEval(repo)
	if err != nil {
		return "", err
	}
	// metric names and valid-value strings: String() / validValues() of every metric
	for _, v := range []struct {
		ver string
		t   rxCvssVersion
	}{{"2", ev.V2}, {"3", ev.V3}, {"4", ev.V4}} {
		if len(v.t.Names) != len(v.t.Valid) {
			return "", fmt.Errorf("v%s: %d metric names but %d valid-value strings", v.ver, len(v.t.Names), len(v.t.Valid))
		}
		out += fmt.Sprintf("/-- V%sMetric.String(): %s -/\ndef v%sNames : List (List Nat) := %s\n\n", v.ver, strings.Join(v.t.Names, " "), v.ver, cvLeanBytesList(v.t.Names))
		out += fmt.Sprintf("/-- v%sValid.String(): %s -/\ndef v%sValid : List (List Nat) := %s\n\n", v.ver, strings.Join(v.t.Valid, " "), v.ver, cvLeanBytesList(v.t.Valid))
	}
	// weight tables as the package holds them
	for _, v := range []struct {
		ver string
		t   rxCvssVersion
	}{{"2", ev.V2}, {"3", ev.V3}} {
		rows, err := rxCvssOptRows("v"+v.ver+"Weights", v.t.Weights, 1000)
		if err != nil {
			return "", err
		}
		out += fmt.Sprintf("/-- v%sWeights, scaled by 1000; `none` is math.NaN(). -/\ndef v%sWeights : List (List (Option Int)) := %s\n\n", v.ver, v.ver, "[\n  "+strings.Join(rows, ",\n  ")+"]")
	}
	// QualitativeScore: bands of the evaluated step function
	{
		cases, def, notes, err := rxCvssBands(pts, ev.Qual, func(n string) (int, error) {
			v, ok := cvQualitativeValue[n]
			if !ok {
				return 0, fmt.Errorf("unknown Qualitative %s", n)
			}
			return v, nil
		})
		if err != nil {
			return "", err
		}
		out += "/-- QualitativeScore: (op, bound*10, Qualitative) in order, op 0 `==`, 1 `<`, 2 `<=`;\n    Qualitative: 1 None, 2 Low, 3 Medium, 4 High, 5 Critical. -/\n"
		out += "def qualCases : List (Nat × Int × Nat) := [" + strings.Join(cases, ", ") + "]\n"
		out += "def qualDefault : Option Nat := " + def + "\n" + rxCvssNotes(notes) + "\n"
	}
	// v4 score data
	{
		var rows []string
		for _, r := range ev.Mv {
			v, nan, err := rxCvssScaled(r.S, 10)
			if err != nil || nan {
				return "", fmt.Errorf("macrovectorScore: value %s: %v", r.S, err)
			}
			rows = append(rows, fmt.Sprintf("(%s, %s)", LeanNatList(r.K[:]), cvLeanInt(v)))
		}
		out += "/-- scoreData.macrovectorScore: macrovector -> score*10. -/\ndef v4MacrovectorScore : List (List Nat × Int) := [\n  "
		for i, r := range rows {
			if i > 0 {
				out += ","
				if i%4 == 0 {
					out += "\n  "
				} else {
					out += " "
				}
			}
			out += r
		}
		out += "]\n\n"
		drows, err := rxCvssOptRows("eqDepth", ev.EqDepth, 1)
		if err != nil {
			return "", err
		}
		out += "/-- scoreData.eqDepth (EQ -> level -> depth); `none` is math.NaN(). -/\ndef v4EqDepth : List (List (Option Int)) := [" + strings.Join(drows, ", ") + "]\n\n"
		var eqs []string
		for _, eq := range ev.MaxFrag {
			var lvls []string
			for _, lv := range eq {
				var frags []string
				for _, fr := range lv {
					frags = append(frags, LeanNatList(fr))
				}
				lvls = append(lvls, "["+strings.Join(frags, ",\n    ")+"]")
			}
			eqs = append(eqs, "["+strings.Join(lvls, ",\n   ")+"]")
		}
		out += "/-- scoreData.maxFrag (EQ -> level -> fragments, each a byte per V4Metric, 0 = unset). -/\ndef v4MaxFrag : List (List (List (List Nat))) := [\n  " + strings.Join(eqs, ",\n  ") + "]\n\n"
	}
	// OSV
	{
		p, err := rxLoadPkg(repo, "updater/osv")
		if err != nil {
			return "", err
		}
		for _, fn := range []struct{ name, lean, ver string }{{"fromCVSS3", "osv3", "3"}, {"fromCVSS2", "osv2", "2"}} {
			w, ign, notes, err := rxCvssOsvTables(fn.name, fn.ver, ev.Osv[fn.ver])
			if err != nil {
				return "", err
			}
			out += fmt.Sprintf("/-- %s: (metric name, slot in ns, [(value, weight*1000)]) of the metric switch. -/\ndef %sWeights : List (List Nat × Nat × List (List Nat × Int)) := %s\n", fn.name, fn.lean, w)
			out += fmt.Sprintf("/-- %s: metric names accepted and ignored. -/\ndef %sIgnored : List (List Nat) := %s\n", fn.name, fn.lean, ign)
			out += rxCvssNotes(notes)
			cases, def, err := cvOsvBands(p, fn.name)
			if err != nil {
				return "", err
			}
			out += fmt.Sprintf("/-- %s: severity switch, (op, bound*10, claircore.Severity); Severity: 0 Unknown, 1 Negligible, 2 Low, 3 Medium, 4 High, 5 Critical;\n    default `none` = returns an error. -/\n", fn.name)
			out += fmt.Sprintf("def %sCases : List (Nat × Int × Nat) := %s\ndef %sDefault : Option Nat := %s\n\n", fn.lean, cases, fn.lean, def)
		}
	}
	return out + Footer("Cvss"), nil
}

// cvOsvBands reads the rating construct of fromCVSSn: the tolerant reader of
// Gen/Severity (severity.go bandSwitch: tagless switch / if chain / run of early
// returns over one score variable with an error default, bounds as literals or
// constants, in the function or in the one helper it hands the score to); a
// default that yields a severity instead of an error is only read in the plain
// switch form.
func cvOsvBands(p *rxPkg, fn string) (string, string, error) {
	bs, err := bandSwitch(p, fn)
	if err == nil {
		var cases []string
		for _, b := range bs {
			op, ok := map[string]int{"==": 0, "<": 1, "<=": 2}[b.op]
			if !ok {
				return "", "", fmt.Errorf("%s: unsupported comparison %s", fn, b.op)
			}
			cases = append(cases, fmt.Sprintf("(%d, %s, %d)", op, cvLeanInt(b.bound), b.sev))
		}
		return "[" + strings.Join(cases, ", ") + "]", "none", nil
	}
	fd := p.Func("", fn)
	if fd == nil {
		return "", "", fmt.Errorf("%s not found", fn)
	}
	sw := cvFindTaglessSwitchOver(fd.Body, "score")
	if sw == nil {
		return "", "", fmt.Errorf("%s: %v", fn, err)
	}
	return cvBandSwitch(sw, "score", func(n string) (int, error) {
		v, ok := cvSeverityValue[n]
		if !ok {
			return 0, fmt.Errorf("unknown Severity %s", n)
		}
		return v, nil
	})
}
