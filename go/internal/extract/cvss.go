package extract

// Gen.Cvss: the table-like parts of the CVSS code that property C18 depends
// on, regenerated from the current sources:
//
//   - toolkit/types/cvss: stringer tables of metric names and valid-value
//     strings (v2/v3/v4), v2Weights, v3Weights, the v4 macrovector score
//     table, eqDepth and maxFrag, the case list of QualitativeScore;
//   - updater/osv/cvss.go: the metric/value/weight switch tables of
//     fromCVSS3 and fromCVSS2, their ignored-metric lists and their severity
//     band switches.
//
// Strings are emitted as lists of byte values (kernel-friendly), weights as
// integers scaled by 1000 (`none` for math.NaN()), scores scaled by 10.

import (
	"fmt"
	"go/ast"
	"go/token"
	"math/big"
	"strconv"
	"strings"
)

func init() {
	Register(Gen{Name: "Cvss", Run: genCvss})
}

func cvLeanBytes(s string) string {
	q := make([]string, len(s))
	for i := 0; i < len(s); i++ {
		q[i] = strconv.Itoa(int(s[i]))
	}
	return "[" + strings.Join(q, ", ") + "]"
}

func cvLeanBytesList(xs []string) string {
	q := make([]string, len(xs))
	for i, x := range xs {
		q[i] = cvLeanBytes(x)
	}
	return "[" + strings.Join(q, ", ") + "]"
}

func cvLeanInt(n int64) string {
	if n < 0 {
		return "(" + strconv.FormatInt(n, 10) + ")"
	}
	return strconv.FormatInt(n, 10)
}

// cvStringerTable slices the name constant by the index array.
func cvStringerTable(f *ast.File, typ string) ([]string, error) {
	name, err := StringConst(f, "_"+typ+"_name")
	if err != nil {
		return nil, err
	}
	idx, err := IntArray(f, "_"+typ+"_index")
	if err != nil {
		return nil, err
	}
	var out []string
	for i := 0; i+1 < len(idx); i++ {
		if idx[i] > idx[i+1] || int(idx[i+1]) > len(name) {
			return nil, fmt.Errorf("%s: index table out of range", typ)
		}
		out = append(out, name[idx[i]:idx[i+1]])
	}
	return out, nil
}

// cvScaledLit evaluates a numeric literal exactly and scales it; the result
// must be an integer.
func cvScaledLit(e ast.Expr, scale int64) (int64, bool, error) {
	switch x := e.(type) {
	case *ast.BasicLit:
		if x.Kind != token.FLOAT && x.Kind != token.INT {
			return 0, false, fmt.Errorf("not a number: %s", x.Value)
		}
		r, ok := new(big.Rat).SetString(strings.ReplaceAll(x.Value, "_", ""))
		if !ok {
			return 0, false, fmt.Errorf("cannot read number %s", x.Value)
		}
		r.Mul(r, big.NewRat(scale, 1))
		if !r.IsInt() {
			return 0, false, fmt.Errorf("%s * %d is not an integer", x.Value, scale)
		}
		return r.Num().Int64(), false, nil
	case *ast.CallExpr:
		if se, ok := x.Fun.(*ast.SelectorExpr); ok && se.Sel.Name == "NaN" {
			return 0, true, nil
		}
	case *ast.ParenExpr:
		return cvScaledLit(x.X, scale)
	case *ast.UnaryExpr:
		n, nan, err := cvScaledLit(x.X, scale)
		if x.Op == token.SUB {
			n = -n
		}
		return n, nan, err
	}
	return 0, false, fmt.Errorf("unsupported numeric expression")
}

func cvFindVar(f *ast.File, name string) ast.Expr {
	for _, d := range f.Decls {
		gd, ok := d.(*ast.GenDecl)
		if !ok {
			continue
		}
		for _, s := range gd.Specs {
			vs, ok := s.(*ast.ValueSpec)
			if !ok {
				continue
			}
			for i, n := range vs.Names {
				if n.Name == name && i < len(vs.Values) {
					return vs.Values[i]
				}
			}
		}
	}
	return nil
}

// cvWeightTable reads `var name = [...][]float64{{..}, ..}`.
func cvWeightTable(f *ast.File, name string) (string, int, error) {
	e := cvFindVar(f, name)
	cl, ok := e.(*ast.CompositeLit)
	if !ok {
		return "", 0, fmt.Errorf("%s: composite literal not found", name)
	}
	var rows []string
	for _, r := range cl.Elts {
		rl, ok := r.(*ast.CompositeLit)
		if !ok {
			return "", 0, fmt.Errorf("%s: row is not a composite literal", name)
		}
		var cells []string
		for _, c := range rl.Elts {
			n, nan, err := cvScaledLit(c, 1000)
			if err != nil {
				return "", 0, fmt.Errorf("%s: %w", name, err)
			}
			if nan {
				cells = append(cells, "none")
			} else {
				cells = append(cells, "some "+cvLeanInt(n))
			}
		}
		rows = append(rows, "["+strings.Join(cells, ", ")+"]")
	}
	return "[\n  " + strings.Join(rows, ",\n  ") + "]", len(rows), nil
}

func cvKvField(cl *ast.CompositeLit, key string) ast.Expr {
	for _, e := range cl.Elts {
		if kv, ok := e.(*ast.KeyValueExpr); ok {
			if id, ok := kv.Key.(*ast.Ident); ok && id.Name == key {
				return kv.Value
			}
		}
	}
	return nil
}

func cvNatList(cl *ast.CompositeLit) ([]int64, error) {
	var out []int64
	for _, e := range cl.Elts {
		n, err := IntLit(e)
		if err != nil {
			return nil, err
		}
		out = append(out, n)
	}
	return out, nil
}

// cvCaseCond reads `s == 0`, `s < 4`, `score <= 10` -> (op, bound*10).
func cvCaseCond(e ast.Expr, v string) (string, error) {
	be, ok := e.(*ast.BinaryExpr)
	if !ok {
		return "", fmt.Errorf("case is not a comparison")
	}
	id, ok := be.X.(*ast.Ident)
	if !ok || id.Name != v {
		return "", fmt.Errorf("case does not compare %s", v)
	}
	n, _, err := cvScaledLit(be.Y, 10)
	if err != nil {
		return "", err
	}
	var op int
	switch be.Op {
	case token.EQL:
		op = 0
	case token.LSS:
		op = 1
	case token.LEQ:
		op = 2
	default:
		return "", fmt.Errorf("unsupported comparison %s", be.Op)
	}
	return fmt.Sprintf("(%d, %s", op, cvLeanInt(n)), nil
}

// cvAssignedName finds the identifier assigned in `x = Name` or `x = pkg.Name`.
func cvAssignedName(stmts []ast.Stmt) (string, bool) {
	for _, st := range stmts {
		as, ok := st.(*ast.AssignStmt)
		if !ok || len(as.Rhs) != 1 {
			continue
		}
		switch r := as.Rhs[0].(type) {
		case *ast.Ident:
			return r.Name, true
		case *ast.SelectorExpr:
			return r.Sel.Name, true
		}
	}
	return "", false
}

// cvBandSwitch renders a tagless switch over `v` whose cases assign a named
// constant: [(op, bound*10, value)], plus the default's value (or none when
// the default does not assign, e.g. returns an error).
func cvBandSwitch(sw *ast.SwitchStmt, v string, value func(string) (int, error)) (string, string, error) {
	var cases []string
	def := "none"
	for _, st := range sw.Body.List {
		cc := st.(*ast.CaseClause)
		name, ok := cvAssignedName(cc.Body)
		if cc.List == nil {
			if ok {
				n, err := value(name)
				if err != nil {
					return "", "", err
				}
				def = fmt.Sprintf("some %d", n)
			}
			continue
		}
		if len(cc.List) != 1 || !ok {
			return "", "", fmt.Errorf("band switch: unexpected case shape")
		}
		c, err := cvCaseCond(cc.List[0], v)
		if err != nil {
			return "", "", err
		}
		n, err := value(name)
		if err != nil {
			return "", "", err
		}
		cases = append(cases, fmt.Sprintf("%s, %d)", c, n))
	}
	return "[" + strings.Join(cases, ", ") + "]", def, nil
}

func cvFindTaglessSwitchOver(body *ast.BlockStmt, v string) *ast.SwitchStmt {
	var found *ast.SwitchStmt
	ast.Inspect(body, func(n ast.Node) bool {
		sw, ok := n.(*ast.SwitchStmt)
		if !ok || sw.Tag != nil || len(sw.Body.List) == 0 {
			return true
		}
		cc := sw.Body.List[0].(*ast.CaseClause)
		if len(cc.List) == 1 {
			if be, ok := cc.List[0].(*ast.BinaryExpr); ok {
				if id, ok := be.X.(*ast.Ident); ok && id.Name == v {
					found = sw
				}
			}
		}
		return true
	})
	return found
}

func cvStrLit(e ast.Expr) (string, bool) {
	bl, ok := e.(*ast.BasicLit)
	if !ok || bl.Kind != token.STRING {
		return "", false
	}
	s, err := strconv.Unquote(bl.Value)
	return s, err == nil
}

// cvOsvTables reads the `switch n { case `AV`: switch v { case `N`: ns[i] = 0.85 ..` table.
func cvOsvTables(fd *ast.FuncDecl) (weights string, ignored string, err error) {
	var sw *ast.SwitchStmt
	ast.Inspect(fd.Body, func(n ast.Node) bool {
		s, ok := n.(*ast.SwitchStmt)
		if ok && s.Tag != nil {
			if id, ok := s.Tag.(*ast.Ident); ok && id.Name == "n" {
				sw = s
				return false
			}
		}
		return true
	})
	if sw == nil {
		return "", "", fmt.Errorf("%s: switch over metric name not found", fd.Name.Name)
	}
	var rows []string
	var ign []string
	for _, st := range sw.Body.List {
		cc := st.(*ast.CaseClause)
		if cc.List == nil {
			continue // default: error
		}
		var inner *ast.SwitchStmt
		idx := int64(-1)
		for _, b := range cc.Body {
			switch x := b.(type) {
			case *ast.SwitchStmt:
				inner = x
			case *ast.DeclStmt:
				if gd, ok := x.Decl.(*ast.GenDecl); ok {
					for _, sp := range gd.Specs {
						if vs, ok := sp.(*ast.ValueSpec); ok && len(vs.Names) == 1 && vs.Names[0].Name == "i" && len(vs.Values) == 1 {
							idx, _ = IntLit(vs.Values[0])
						}
					}
				}
			}
		}
		if inner == nil {
			for _, e := range cc.List {
				s, ok := cvStrLit(e)
				if !ok {
					return "", "", fmt.Errorf("%s: non-literal metric case", fd.Name.Name)
				}
				ign = append(ign, s)
			}
			continue
		}
		if len(cc.List) != 1 || idx < 0 {
			return "", "", fmt.Errorf("%s: unexpected metric case shape", fd.Name.Name)
		}
		mname, ok := cvStrLit(cc.List[0])
		if !ok {
			return "", "", fmt.Errorf("%s: non-literal metric case", fd.Name.Name)
		}
		var vals []string
		for _, ist := range inner.Body.List {
			icc := ist.(*ast.CaseClause)
			if icc.List == nil {
				continue
			}
			if len(icc.List) != 1 || len(icc.Body) != 1 {
				return "", "", fmt.Errorf("%s: unexpected value case shape", fd.Name.Name)
			}
			vname, ok := cvStrLit(icc.List[0])
			as, ok2 := icc.Body[0].(*ast.AssignStmt)
			if !ok || !ok2 || len(as.Rhs) != 1 {
				return "", "", fmt.Errorf("%s: unexpected value case body", fd.Name.Name)
			}
			w, nan, err := cvScaledLit(as.Rhs[0], 1000)
			if err != nil || nan {
				return "", "", fmt.Errorf("%s: weight of %s:%s: %v", fd.Name.Name, mname, vname, err)
			}
			vals = append(vals, fmt.Sprintf("(%s, %s)", cvLeanBytes(vname), cvLeanInt(w)))
		}
		rows = append(rows, fmt.Sprintf("(%s, %d, [%s])", cvLeanBytes(mname), idx, strings.Join(vals, ", ")))
	}
	return "[\n  " + strings.Join(rows, ",\n  ") + "]", cvLeanBytesList(ign), nil
}

var cvSeverityValue = map[string]int{"Unknown": 0, "Negligible": 1, "Low": 2, "Medium": 3, "High": 4, "Critical": 5}
var cvQualitativeValue = map[string]int{"None": 1, "Low": 2, "Medium": 3, "High": 4, "Critical": 5}

func genCvss(repo string) (string, error) {
	const dir = "toolkit/types/cvss/"
	out := Header("Cvss", dir+"*.go", "updater/osv/cvss.go")
	for _, ver := range []string{"2", "3", "4"} {
		_, f, err := ParseFile(repo, dir+"v"+ver+"metric_string.go")
		if err != nil {
			return "", err
		}
		names, err := cvStringerTable(f, "V"+ver+"Metric")
		if err != nil {
			return "", err
		}
		valid, err := cvStringerTable(f, "v"+ver+"Valid")
		if err != nil {
			return "", err
		}
		if len(names) != len(valid) {
			return "", fmt.Errorf("v%s: %d metric names but %d valid-value strings", ver, len(names), len(valid))
		}
		out += fmt.Sprintf("/-- V%sMetric.String(): %s -/\ndef v%sNames : List (List Nat) := %s\n\n", ver, strings.Join(names, " "), ver, cvLeanBytesList(names))
		out += fmt.Sprintf("/-- v%sValid.String(): %s -/\ndef v%sValid : List (List Nat) := %s\n\n", ver, strings.Join(valid, " "), ver, cvLeanBytesList(valid))
	}
	for _, ver := range []string{"2", "3"} {
		_, f, err := ParseFile(repo, dir+"cvss_v"+ver+"_score.go")
		if err != nil {
			return "", err
		}
		tbl, _, err := cvWeightTable(f, "v"+ver+"Weights")
		if err != nil {
			return "", err
		}
		out += fmt.Sprintf("/-- v%sWeights, scaled by 1000; `none` is math.NaN(). -/\ndef v%sWeights : List (List (Option Int)) := %s\n\n", ver, ver, tbl)
	}
	// QualitativeScore
	{
		_, f, err := ParseFile(repo, dir+"cvss.go")
		if err != nil {
			return "", err
		}
		fd := FuncDecl(f, "", "QualitativeScore")
		if fd == nil {
			return "", fmt.Errorf("QualitativeScore not found")
		}
		sw := cvFindTaglessSwitchOver(fd.Body, "s")
		if sw == nil {
			return "", fmt.Errorf("QualitativeScore: switch over s not found")
		}
		cases, def, err := cvBandSwitch(sw, "s", func(n string) (int, error) {
			v, ok := cvQualitativeValue[n]
			if !ok {
				return 0, fmt.Errorf("unknown Qualitative %s", n)
			}
			return v, nil
		})
		if err != nil {
			return "", err
		}
		out += "/-- QualitativeScore: (op, bound*10, Qualitative) in order, op 0 `==`, 1 `<`, 2 `<=`;\n    Qualitative: 1 None, 2 Low, 3 Medium, 4 High, 5 Critical. -/\n"
		out += "def qualCases : List (Nat × Int × Nat) := " + cases + "\n"
		out += "def qualDefault : Option Nat := " + def + "\n\n"
	}
	// v4 score data
	{
		_, f, err := ParseFile(repo, dir+"cvss_v4_score_data.go")
		if err != nil {
			return "", err
		}
		sd, ok := cvFindVar(f, "scoreData").(*ast.CompositeLit)
		if !ok {
			return "", fmt.Errorf("scoreData not found")
		}
		ms, ok := cvKvField(sd, "macrovectorScore").(*ast.CompositeLit)
		if !ok {
			return "", fmt.Errorf("scoreData.macrovectorScore not found")
		}
		var rows []string
		for _, e := range ms.Elts {
			kv, ok := e.(*ast.KeyValueExpr)
			if !ok {
				return "", fmt.Errorf("macrovectorScore: unexpected element")
			}
			kcl, ok := kv.Key.(*ast.CompositeLit)
			if !ok {
				return "", fmt.Errorf("macrovectorScore: unexpected key")
			}
			k, err := cvNatList(kcl)
			if err != nil || len(k) != 6 {
				return "", fmt.Errorf("macrovectorScore: key is not six integers")
			}
			v, nan, err := cvScaledLit(kv.Value, 10)
			if err != nil || nan {
				return "", fmt.Errorf("macrovectorScore: value: %v", err)
			}
			rows = append(rows, fmt.Sprintf("(%s, %s)", LeanNatList(k), cvLeanInt(v)))
		}
		out += "/-- scoreData.macrovectorScore: macrovector -> score*10. -/\ndef v4MacrovectorScore : List (List Nat × Int) := [\n  "
		for i, r := range rows {
			if i > 0 {
				out += ","
				if i%4 == 0 {
					out += "\n  "
				} else {
					out += " "
				}
			}
			out += r
		}
		out += "]\n\n"
		ed, ok := cvKvField(sd, "eqDepth").(*ast.CompositeLit)
		if !ok {
			return "", fmt.Errorf("scoreData.eqDepth not found")
		}
		var drows []string
		for _, r := range ed.Elts {
			rl, ok := r.(*ast.CompositeLit)
			if !ok {
				return "", fmt.Errorf("eqDepth: unexpected row")
			}
			var cells []string
			for _, c := range rl.Elts {
				n, nan, err := cvScaledLit(c, 1)
				if err != nil {
					return "", fmt.Errorf("eqDepth: %w", err)
				}
				if nan {
					cells = append(cells, "none")
				} else {
					cells = append(cells, "some "+cvLeanInt(n))
				}
			}
			drows = append(drows, "["+strings.Join(cells, ", ")+"]")
		}
		out += "/-- scoreData.eqDepth (EQ -> level -> depth); `none` is math.NaN(). -/\ndef v4EqDepth : List (List (Option Int)) := [" + strings.Join(drows, ", ") + "]\n\n"
		mf, ok := cvKvField(sd, "maxFrag").(*ast.CompositeLit)
		if !ok {
			return "", fmt.Errorf("scoreData.maxFrag not found")
		}
		var eqs []string
		for _, eq := range mf.Elts {
			eql, ok := eq.(*ast.CompositeLit)
			if !ok {
				return "", fmt.Errorf("maxFrag: unexpected EQ")
			}
			var lvls []string
			for _, lv := range eql.Elts {
				lvl, ok := lv.(*ast.CompositeLit)
				if !ok {
					return "", fmt.Errorf("maxFrag: unexpected level")
				}
				var frags []string
				for _, fr := range lvl.Elts {
					frl, ok := fr.(*ast.CompositeLit)
					if !ok {
						return "", fmt.Errorf("maxFrag: unexpected fragment")
					}
					mv, ok := cvKvField(frl, "mv").(*ast.CompositeLit)
					if !ok {
						return "", fmt.Errorf("maxFrag: fragment without mv")
					}
					bs, err := cvNatList(mv)
					if err != nil {
						return "", fmt.Errorf("maxFrag: %w", err)
					}
					frags = append(frags, LeanNatList(bs))
				}
				lvls = append(lvls, "["+strings.Join(frags, ",\n    ")+"]")
			}
			eqs = append(eqs, "["+strings.Join(lvls, ",\n   ")+"]")
		}
		out += "/-- scoreData.maxFrag (EQ -> level -> fragments, each a byte per V4Metric, 0 = unset). -/\ndef v4MaxFrag : List (List (List (List Nat))) := [\n  " + strings.Join(eqs, ",\n  ") + "]\n\n"
	}
	// OSV
	{
		_, f, err := ParseFile(repo, "updater/osv/cvss.go")
		if err != nil {
			return "", err
		}
		for _, fn := range []struct{ name, lean string }{{"fromCVSS3", "osv3"}, {"fromCVSS2", "osv2"}} {
			fd := FuncDecl(f, "", fn.name)
			if fd == nil {
				return "", fmt.Errorf("%s not found", fn.name)
			}
			w, ign, err := cvOsvTables(fd)
			if err != nil {
				return "", err
			}
			out += fmt.Sprintf("/-- %s: (metric name, slot in ns, [(value, weight*1000)]) of the metric switch. -/\ndef %sWeights : List (List Nat × Nat × List (List Nat × Int)) := %s\n", fn.name, fn.lean, w)
			out += fmt.Sprintf("/-- %s: metric names accepted and ignored. -/\ndef %sIgnored : List (List Nat) := %s\n", fn.name, fn.lean, ign)
			sw := cvFindTaglessSwitchOver(fd.Body, "score")
			if sw == nil {
				return "", fmt.Errorf("%s: severity switch over score not found", fn.name)
			}
			cases, def, err := cvBandSwitch(sw, "score", func(n string) (int, error) {
				v, ok := cvSeverityValue[n]
				if !ok {
					return 0, fmt.Errorf("unknown Severity %s", n)
				}
				return v, nil
			})
			if err != nil {
				return "", err
			}
			out += fmt.Sprintf("/-- %s: severity switch, (op, bound*10, claircore.Severity); Severity: 0 Unknown, 1 Negligible, 2 Low, 3 Medium, 4 High, 5 Critical;\n    default `none` = returns an error. -/\n", fn.name)
			out += fmt.Sprintf("def %sCases : List (Nat × Int × Nat) := %s\ndef %sDefault : Option Nat := %s\n\n", fn.lean, cases, fn.lean, def)
		}
	}
	return out + Footer("Cvss"), nil
}
