package extract

// C04: for the regexp tables of the distribution scanners (aws, oracle,
// photon), a text every expression matches, derived from the parsed
// expression the same way Model/JoinRe.lean `Re.sample` derives it from the
// translated one (Props/C04.lean proves the two agree on the generated
// tables).  The harness feeds these texts, as os-release / issue files of
// generated images, to the real scanners.

import (
	"regexp/syntax"
	"unicode"
)

// j_reSample: literal → itself (lower-cased when case-folded, as the
// translation does), class → low end of its first ASCII range, any char →
// 'x', anchors and stars → nothing, alternation → the first alternative that
// has a sample, a+ → sample of a, a? → sample of a (else nothing).
func j_reSample(re *syntax.Regexp) (string, bool) {
	switch re.Op {
	case syntax.OpNoMatch:
		return "", false
	case syntax.OpEmptyMatch, syntax.OpBeginText, syntax.OpEndText, syntax.OpStar:
		return "", true
	case syntax.OpLiteral:
		fold := re.Flags&syntax.FoldCase != 0
		out := ""
		for _, r := range re.Rune {
			if fold && unicode.IsLetter(r) {
				r = unicode.ToLower(r)
			}
			out += string(rune(r))
		}
		return out, true
	case syntax.OpCharClass:
		for i := 0; i+1 < len(re.Rune); i += 2 {
			if re.Rune[i] < 0x80 {
				return string(rune(re.Rune[i])), true
			}
		}
		return "", false
	case syntax.OpAnyCharNotNL, syntax.OpAnyChar:
		return "x", true
	case syntax.OpCapture, syntax.OpPlus:
		return j_reSample(re.Sub[0])
	case syntax.OpQuest:
		if s, ok := j_reSample(re.Sub[0]); ok {
			return s, true
		}
		return "", true
	case syntax.OpConcat:
		out := ""
		for _, s := range re.Sub {
			x, ok := j_reSample(s)
			if !ok {
				return "", false
			}
			out += x
		}
		return out, true
	case syntax.OpAlternate:
		for _, s := range re.Sub {
			if x, ok := j_reSample(s); ok {
				return x, true
			}
		}
		return "", false
	}
	return "", false
}

func j_reSampleOf(expr string) (string, bool, error) {
	re, err := syntax.Parse(expr, syntax.Perl)
	if err != nil {
		return "", false, err
	}
	s, ok := j_reSample(re.Simplify())
	return s, ok, nil
}

// LoadJoinRegexSamples: distro (aws, oracle, photon) -> (release, sample text)
// in table order, from the sources of repo.
func LoadJoinRegexSamples(repo string) (map[string][][2]string, error) {
	out := map[string][][2]string{}
	for dir, name := range map[string]string{"aws": "awsRegexes", "oracle": "oracleRegexes", "photon": "photonRegexes"} {
		p, err := rxLoadPkg(repo, dir)
		if err != nil {
			return nil, err
		}
		rt, err := rxjRegexTable(p, name)
		if err != nil {
			return nil, err
		}
		for _, p := range rt {
			s, ok, err := j_reSampleOf(p[1])
			if err != nil {
				return nil, err
			}
			if ok {
				out[dir] = append(out[dir], [2]string{p[0], s})
			}
		}
	}
	return out, nil
}
