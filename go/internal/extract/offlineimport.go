package extract

import (
	"fmt"
	"go/ast"
	"go/token"
	"strings"
)

// OfflineImport: the shape of the `Update:` loop of libvuln.OfflineImport
// (libvuln/updates.go), by role and not by variable name:
//
//	for L.Next() {                      loop over the jsonblob loader
//	    e := L.Entry()
//	    for _, op := range OPS[e.<rangeKey>] {
//	        if op.<skipLeft> == e.<skipRight> { continue <loop label> }
//	    }
//	    if e.<guard> != nil { S.<method>(ctx, e.<arg>...) }   (in order)
//	}
//	L.Err() checked after the loop
//
// The Lean model of the loop (Model/JsonBlob.lean, importEntry) is stated
// against these facts in Props/C16.lean; the function needs Postgres, so it
// cannot be driven by the correspondence harness.
func init() {
	Register(Gen{Name: "OfflineImport", Run: func(repo string) (string, error) {
		const src = "libvuln/updates.go"
		_, f, err := ParseFile(repo, src)
		if err != nil {
			return "", err
		}
		fd := FuncDecl(f, "", "OfflineImport")
		if fd == nil || fd.Body == nil {
			return "", fmt.Errorf("%s: func OfflineImport not found", src)
		}
		// ops, err := s.GetUpdateOperations(ctx, driver.<Kind>)
		opsKind := ""
		// in: the io.Reader parameter; l: the variable jsonblob.Load's result is assigned to
		inParam := ""
		if ps := fd.Type.Params; ps != nil && len(ps.List) > 0 {
			last := ps.List[len(ps.List)-1]
			if len(last.Names) > 0 {
				inParam = last.Names[len(last.Names)-1].Name
			}
		}
		loaderVar, loadArg := "", ""
		errReturned := false
		var loop *ast.ForStmt
		label := ""
		errChecked := false
		for _, st := range fd.Body.List {
			if as, ok := st.(*ast.AssignStmt); ok && len(as.Rhs) == 1 {
				if call, ok := as.Rhs[0].(*ast.CallExpr); ok && oiSelName(call.Fun) == "GetUpdateOperations" && len(call.Args) == 2 && loop == nil {
					opsKind = oiSelName(call.Args[1])
				}
				if call, ok := as.Rhs[0].(*ast.CallExpr); ok && oiSelName(call.Fun) == "Load" && len(call.Args) == 2 && loop == nil {
					if id, ok := as.Lhs[0].(*ast.Ident); ok {
						loaderVar = id.Name
					}
					if id, ok := call.Args[1].(*ast.Ident); ok {
						loadArg = id.Name
					}
				}
			}
			if ls, ok := st.(*ast.LabeledStmt); ok {
				if fs, ok := ls.Stmt.(*ast.ForStmt); ok {
					loop, label = fs, ls.Label.Name
					continue
				}
			}
			if fs, ok := st.(*ast.ForStmt); ok && loop == nil {
				loop = fs
				continue
			}
			if loop != nil {
				ast.Inspect(st, func(n ast.Node) bool {
					if c, ok := n.(*ast.CallExpr); ok && oiSelName(c.Fun) == "Err" {
						errChecked = true
					}
					return true
				})
				// if err := l.Err(); err != nil { return err }
				if is, ok := st.(*ast.IfStmt); ok && is.Init != nil && is.Else == nil {
					if as, ok := is.Init.(*ast.AssignStmt); ok && len(as.Rhs) == 1 && len(as.Lhs) == 1 {
						c, ok1 := as.Rhs[0].(*ast.CallExpr)
						ev, ok2 := as.Lhs[0].(*ast.Ident)
						if ok1 && ok2 && oiSelName(c.Fun) == "Err" && oiRecv(c.Fun) == loaderVar && oiNotNil(is.Cond, ev.Name) && oiReturnsNonNil(is.Body) {
							errReturned = true
						}
					}
				}
			}
		}
		if loop == nil {
			return "", fmt.Errorf("%s: OfflineImport has no loop", src)
		}
		cond, ok := loop.Cond.(*ast.CallExpr)
		if !ok || oiSelName(cond.Fun) != "Next" || loop.Init != nil || loop.Post != nil {
			return "", fmt.Errorf("%s: the loop is not `for l.Next()`", src)
		}
		if len(loop.Body.List) == 0 {
			return "", fmt.Errorf("%s: empty loop body", src)
		}
		loaderConsistent := loaderVar != "" && oiRecv(cond.Fun) == loaderVar
		// e := l.Entry()
		ev := ""
		if as, ok := loop.Body.List[0].(*ast.AssignStmt); ok && len(as.Lhs) == 1 && len(as.Rhs) == 1 {
			if c, ok := as.Rhs[0].(*ast.CallExpr); ok && oiSelName(c.Fun) == "Entry" {
				if oiRecv(c.Fun) != loaderVar {
					loaderConsistent = false
				}
				if id, ok := as.Lhs[0].(*ast.Ident); ok {
					ev = id.Name
				}
			}
		}
		if ev == "" {
			return "", fmt.Errorf("%s: the loop body does not start with `e := l.Entry()`", src)
		}
		field := func(e ast.Expr, recv string) string {
			if se, ok := e.(*ast.SelectorExpr); ok {
				if id, ok := se.X.(*ast.Ident); ok && id.Name == recv {
					return se.Sel.Name
				}
			}
			return ""
		}
		var rangeKey, skipLeft, skipRight, skipLabel string
		type guarded struct {
			guard  string
			method string
			args   []string
		}
		var calls []guarded
		unknown := 0
		guardedNoReturn := 0
		for _, st := range loop.Body.List[1:] {
			switch s := st.(type) {
			case *ast.RangeStmt:
				ix, ok := s.X.(*ast.IndexExpr)
				if !ok {
					unknown++
					continue
				}
				rangeKey = field(ix.Index, ev)
				opv := ""
				if id, ok := s.Value.(*ast.Ident); ok {
					opv = id.Name
				}
				for _, bs := range s.Body.List {
					is, ok := bs.(*ast.IfStmt)
					if !ok {
						unknown++
						continue
					}
					be, ok := is.Cond.(*ast.BinaryExpr)
					if !ok || be.Op != token.EQL {
						unknown++
						continue
					}
					skipLeft, skipRight = field(be.X, opv), field(be.Y, ev)
					if skipLeft == "" && skipRight == "" {
						skipLeft, skipRight = field(be.Y, opv), field(be.X, ev)
					}
					for _, x := range is.Body.List {
						if br, ok := x.(*ast.BranchStmt); ok && br.Tok == token.CONTINUE && br.Label != nil {
							skipLabel = br.Label.Name
							continue
						}
						if !oiIsLogging(x) {
							unknown++
						}
					}
					if is.Else != nil || is.Init != nil {
						unknown++
					}
				}
			case *ast.IfStmt:
				be, ok := s.Cond.(*ast.BinaryExpr)
				if !ok || be.Op != token.NEQ || s.Else != nil {
					unknown++
					continue
				}
				if id, ok := be.Y.(*ast.Ident); !ok || id.Name != "nil" {
					unknown++
					continue
				}
				g := guarded{guard: field(be.X, ev)}
				ast.Inspect(s.Body, func(n ast.Node) bool {
					c, ok := n.(*ast.CallExpr)
					if !ok || !strings.HasPrefix(oiSelName(c.Fun), "Update") || g.method != "" {
						return true
					}
					g.method = oiSelName(c.Fun)
					for _, a := range c.Args[1:] {
						g.args = append(g.args, field(a, ev))
					}
					return true
				})
				if g.guard == "" || g.method == "" {
					unknown++
					continue
				}
				// the body is `if ref, err = s.Update…(…); err != nil { return <error> }` and nothing else
				propagates := false
				if len(s.Body.List) == 1 && s.Init == nil {
					if inner, ok := s.Body.List[0].(*ast.IfStmt); ok && inner.Init != nil && inner.Else == nil {
						if as, ok := inner.Init.(*ast.AssignStmt); ok && len(as.Lhs) == 2 && len(as.Rhs) == 1 {
							if errv, ok := as.Lhs[1].(*ast.Ident); ok && oiNotNil(inner.Cond, errv.Name) && oiReturnsNonNil(inner.Body) {
								propagates = true
							}
						}
					}
				}
				if !propagates {
					guardedNoReturn++
				}
				calls = append(calls, g)
			case *ast.DeclStmt:
				// `var ref uuid.UUID`
				if gd, ok := s.Decl.(*ast.GenDecl); !ok || gd.Tok != token.VAR {
					unknown++
				}
			case *ast.ExprStmt:
				if !oiIsLogging(s) {
					unknown++
				}
			default:
				unknown++
			}
		}
		out := Header("OfflineImport", src)
		out += fmt.Sprintf("def opsKind : String := %s\n", LeanString(opsKind))
		out += fmt.Sprintf("def rangeKey : String := %s\n", LeanString(rangeKey))
		out += fmt.Sprintf("def skipCompare : String × String := (%s, %s)\n", LeanString(skipLeft), LeanString(skipRight))
		out += fmt.Sprintf("def skipContinuesLoop : Bool := %v\n", skipLabel != "" && skipLabel == label)
		var cs []string
		for _, c := range calls {
			cs = append(cs, fmt.Sprintf("(%s, %s, %s)", LeanString(c.guard), LeanString(c.method), LeanStrList(c.args)))
		}
		out += "def guardedCalls : List (String × String × List String) := [" + strings.Join(cs, ", ") + "]\n"
		out += fmt.Sprintf("def errCheckedAfterLoop : Bool := %v\n", errChecked)
		out += fmt.Sprintf("def unrecognisedStatements : Nat := %d\n", unknown)
		out += fmt.Sprintf("def loaderReadsTheInput : Bool := %v\n", inParam != "" && loadArg == inParam)
		out += fmt.Sprintf("def oneLoaderThroughout : Bool := %v\n", loaderConsistent)
		out += fmt.Sprintf("def storeErrorsNotReturned : Nat := %d\n", guardedNoReturn)
		out += fmt.Sprintf("def loaderErrorReturned : Bool := %v\n", errReturned)
		return out + Footer("OfflineImport"), nil
	}})
}

// oiRecv is x of a selector expression x.Sel when x is an identifier.
func oiRecv(e ast.Expr) string {
	if se, ok := e.(*ast.SelectorExpr); ok {
		if id, ok := se.X.(*ast.Ident); ok {
			return id.Name
		}
	}
	return ""
}

// oiNotNil: the expression is `<name> != nil`.
func oiNotNil(e ast.Expr, name string) bool {
	be, ok := e.(*ast.BinaryExpr)
	if !ok || be.Op != token.NEQ {
		return false
	}
	x, ok1 := be.X.(*ast.Ident)
	y, ok2 := be.Y.(*ast.Ident)
	return ok1 && ok2 && x.Name == name && y.Name == "nil"
}

// oiReturnsNonNil: the block is a single `return <expr>` whose value is not the literal nil.
func oiReturnsNonNil(b *ast.BlockStmt) bool {
	if b == nil || len(b.List) != 1 {
		return false
	}
	rs, ok := b.List[0].(*ast.ReturnStmt)
	if !ok || len(rs.Results) != 1 {
		return false
	}
	if id, ok := rs.Results[0].(*ast.Ident); ok && id.Name == "nil" {
		return false
	}
	return true
}

// oiIsLogging: an expression statement that is a method chain rooted at the package zlog.
func oiIsLogging(st ast.Stmt) bool {
	es, ok := st.(*ast.ExprStmt)
	if !ok {
		return false
	}
	var e ast.Expr = es.X
	for {
		switch x := e.(type) {
		case *ast.CallExpr:
			e = x.Fun
		case *ast.SelectorExpr:
			e = x.X
		case *ast.Ident:
			return x.Name == "zlog"
		default:
			return false
		}
	}
}

func oiSelName(e ast.Expr) string {
	switch x := e.(type) {
	case *ast.SelectorExpr:
		return x.Sel.Name
	case *ast.Ident:
		return x.Name
	}
	return ""
}
