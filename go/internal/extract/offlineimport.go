package extract

import (
	"fmt"
	"strings"
)

// OfflineImport: what libvuln.OfflineImport (libvuln/updates.go) does with the
// entries of its input, stated as the facts Props/C16.lean ties the Lean model
// of the loop (Model/JsonBlob.lean, importEntry / importAll) to:
//
//	for L.Next() {                      loop over the jsonblob loader
//	    e := L.Entry()
//	    for _, op := range OPS[e.<rangeKey>] {
//	        if op.<skipLeft> == e.<skipRight> { continue <loop label> }
//	    }
//	    if e.<guard> != nil { S.<method>(ctx, e.<arg>...) }   (in order)
//	}
//	L.Err() checked after the loop
//
// EVALUATED (design/EXTRACT.md, round 2).  The function builds its own
// postgres.MatcherStore from a *pgxpool.Pool, so the probe
// go/cmd/rxprobe/offlineimport connects the pool to the scripted in-process
// backend go/internal/rxpg and runs the REAL function on sixteen scenarios
// (inputs written by the real jsonblob.Store; update operations the database
// already knows; the store call that fails; an input that stops decoding).  The
// facts below are read off what the store asked of the database and whether an
// error came back, so they do not depend on how the loop is written (label and
// `continue`, helper functions, inverted branches, `return l.Err()` …):
//
//	opsKind                 the kind the query for the known operations filters on
//	rangeKey, skipCompare   an entry is skipped exactly when an operation of ITS updater has ITS fingerprint
//	                        (scenarios known-same / -other-updater / -other-fingerprint / -swapped)
//	skipContinuesLoop       the entries after a skipped one are still imported
//	guardedCalls            which store method runs for which non-empty record list, with which arguments, in which order
//	errCheckedAfterLoop,
//	loaderErrorReturned     an input that stops decoding makes the function return an error
//	storeErrorsNotReturned  scripted failures of a store call that did not end the import with an error
//	loaderReadsTheInput,
//	oneLoaderThroughout     every store call carries the updater / fingerprint of an input entry; every entry that
//	                        is not skipped is imported once, in input order
//	unrecognisedStatements  scenarios whose observed calls differ from what the facts above predict, plus
//	                        statements the scripted backend does not know
type oiOp struct {
	Updater     string `json:"updater"`
	Fingerprint string `json:"fingerprint"`
	Kind        string `json:"kind"`
}

type oiEntry struct {
	Updater     string `json:"updater"`
	Fingerprint string `json:"fingerprint"`
	Vulns       int    `json:"vulns"`
	Enrichments int    `json:"enrichments"`
}

type oiEvent struct {
	What   string `json:"what"`
	Kind   string `json:"kind"`
	Arg1   string `json:"arg1"`
	Arg2   string `json:"arg2"`
	SQL    string `json:"sql"`
	Failed bool   `json:"failed"`
}

type oiScenario struct {
	Name       string    `json:"name"`
	Known      []oiOp    `json:"known"`
	Entries    []oiEntry `json:"entries"`
	FailCreate int       `json:"fail_create"`
	Garbage    bool      `json:"garbage"`
	Events     []oiEvent `json:"events"`
	Err        bool      `json:"err"`
	Panic      string    `json:"panic"`
	Timeout    bool      `json:"timeout"`
}

// oiCall is one store call as the scripted backend saw it.
type oiCall struct {
	kind       string // "vulnerability" | "enrichment" (the literal of the INSERT INTO update_operation)
	arg1, arg2 string
	inserts    int    // records written under it
	insertKind string // "vuln" | "enrichment" | "" | "mixed"
	delta      bool
	failed     bool
}

func (c oiCall) String() string {
	return fmt.Sprintf("%s(%s,%s,%d %s records%s)", c.kind, c.arg1, c.arg2, c.inserts, c.insertKind, map[bool]string{true: ",failed", false: ""}[c.failed])
}

func oiCalls(sc *oiScenario) (calls []oiCall, opsKinds []string, other int) {
	for _, ev := range sc.Events {
		switch ev.What {
		case "ops-query":
			opsKinds = append(opsKinds, ev.Kind)
		case "create":
			calls = append(calls, oiCall{kind: ev.Kind, arg1: ev.Arg1, arg2: ev.Arg2, failed: ev.Failed})
		case "insert-vuln", "insert-enrichment":
			if len(calls) == 0 {
				other++
				continue
			}
			c := &calls[len(calls)-1]
			k := strings.TrimPrefix(ev.What, "insert-")
			if c.insertKind != "" && c.insertKind != k {
				k = "mixed"
			}
			c.insertKind = k
			c.inserts++
		case "select-existing":
			if len(calls) > 0 {
				calls[len(calls)-1].delta = true
			} else {
				other++
			}
		case "assoc-vuln", "assoc-enrichment", "refresh":
		default:
			other++
		}
	}
	return
}

func init() {
	Register(Gen{Name: "OfflineImport", Run: func(repo string) (string, error) {
		const src = "libvuln/updates.go"
		var ans struct {
			Scenarios []*oiScenario `json:"scenarios"`
		}
		if err := rxProbe(repo, "offlineimport", map[string]any{}, &ans); err != nil {
			return "", err
		}
		by := map[string]*oiScenario{}
		for _, sc := range ans.Scenarios {
			if sc.Panic != "" || sc.Timeout {
				return "", fmt.Errorf("OfflineImport, scenario %s: panic %q timeout %v", sc.Name, sc.Panic, sc.Timeout)
			}
			by[sc.Name] = sc
		}
		need := func(n string) (*oiScenario, error) {
			if sc := by[n]; sc != nil {
				return sc, nil
			}
			return nil, fmt.Errorf("offlineimport probe: scenario %s missing", n)
		}
		// was entry i of the scenario handed to the store at all?
		imported := func(sc *oiScenario, i int) bool {
			e := sc.Entries[i]
			calls, _, _ := oiCalls(sc)
			for _, c := range calls {
				if (c.arg1 == e.Updater && c.arg2 == e.Fingerprint) || (c.arg1 == e.Fingerprint && c.arg2 == e.Updater) {
					return true
				}
			}
			return false
		}

		// opsKind
		opsKind, unknown := "", 0
		first := true
		for _, sc := range ans.Scenarios {
			_, ks, other := oiCalls(sc)
			unknown += other
			if len(ks) != 1 {
				unknown++
			}
			for _, k := range ks {
				name := map[string]string{"vulnerability": "VulnerabilityKind", "enrichment": "EnrichmentKind", "": ""}[k]
				if first {
					opsKind, first = name, false
				} else if name != opsKind {
					opsKind = "<varies>"
				}
			}
		}

		// the skip rule
		var scs [6]*oiScenario
		for i, n := range []string{"known-same", "known-other-updater", "known-other-fingerprint", "known-swapped", "known-same-among-others", "known-same-enrichment-entry"} {
			sc, err := need(n)
			if err != nil {
				return "", err
			}
			scs[i] = sc
		}
		same, otherUpd, otherFp, swapped := !imported(scs[0], 0), !imported(scs[1], 0), !imported(scs[2], 0), !imported(scs[3], 0)
		rangeKey := "<no entry is skipped>"
		skipL, skipR := "<no entry is skipped>", "<no entry is skipped>"
		if same {
			rangeKey = "Updater"
			if otherUpd {
				rangeKey = "<operations of every updater>"
			}
			skipL, skipR = "Fingerprint", "Fingerprint"
			if otherFp {
				skipL, skipR = "<any>", "<any>"
			} else if swapped {
				skipL, skipR = "<Fingerprint or Updater>", "<Fingerprint or Updater>"
			}
		}
		skipContinues := same && imported(scs[0], 1) && !imported(scs[4], 0) && imported(scs[4], 1) && (imported(scs[5], 0) || imported(scs[5], 1))

		// the guarded calls
		vo, err := need("vulns-only")
		if err != nil {
			return "", err
		}
		eo, err := need("enrichments-only")
		if err != nil {
			return "", err
		}
		both, err := need("both")
		if err != nil {
			return "", err
		}
		type guarded struct {
			kind, guard, method string
			args                []string
		}
		var calls []guarded
		hasKind := func(sc *oiScenario, k string) bool {
			cs, _, _ := oiCalls(sc)
			for _, c := range cs {
				if c.kind == k {
					return true
				}
			}
			return false
		}
		bc, _, _ := oiCalls(both)
		be := both.Entries[0]
		seenKind := map[string]bool{}
		for _, c := range bc {
			if seenKind[c.kind] {
				unknown++ // the same store method twice for one entry
				continue
			}
			seenKind[c.kind] = true
			g := guarded{kind: c.kind}
			inV, inE := hasKind(vo, c.kind), hasKind(eo, c.kind)
			switch {
			case inV && inE:
				g.guard = "<always>"
			case inE:
				g.guard = "Enrichment"
			case inV:
				g.guard = "Vuln"
			default:
				g.guard = "<only when both lists are there>"
			}
			switch {
			case c.kind == "enrichment":
				g.method = "UpdateEnrichments"
			case c.kind == "vulnerability" && c.delta:
				g.method = "DeltaUpdateVulnerabilities"
			case c.kind == "vulnerability":
				g.method = "UpdateVulnerabilities"
			default:
				g.method = "<update of kind " + c.kind + ">"
			}
			role := func(v string) string {
				switch v {
				case be.Updater:
					return "Updater"
				case be.Fingerprint:
					return "Fingerprint"
				}
				return "<" + v + ">"
			}
			third := fmt.Sprintf("<%d %s records>", c.inserts, c.insertKind)
			switch {
			case c.insertKind == "enrichment" && c.inserts == be.Enrichments:
				third = "Enrichment"
			case c.insertKind == "vuln" && c.inserts == be.Vulns:
				third = "Vuln"
			}
			g.args = []string{role(c.arg1), role(c.arg2), third}
			calls = append(calls, g)
		}
		for _, k := range []string{"vulnerability", "enrichment"} {
			if !seenKind[k] && (hasKind(vo, k) || hasKind(eo, k)) {
				unknown++ // a call that appears for a one-list entry but not for the entry with both lists
			}
		}

		// prediction: what the facts above say each scenario must show
		predict := func(sc *oiScenario) (want []string, wantErr bool) {
			creates := 0
			for _, e := range sc.Entries {
				skip := false
				for _, op := range sc.Known {
					if opsKind != "" && opsKind != "<varies>" && map[string]string{"vulnerability": "VulnerabilityKind", "enrichment": "EnrichmentKind"}[op.Kind] != opsKind {
						continue
					}
					if same && (otherUpd || op.Updater == e.Updater) && (otherFp || op.Fingerprint == e.Fingerprint) {
						skip = true
					}
				}
				if skip {
					continue
				}
				for _, g := range calls {
					n := 0
					switch g.guard {
					case "Enrichment":
						n = e.Enrichments
					case "Vuln":
						n = e.Vulns
					default:
						n = 1
					}
					if n == 0 {
						continue
					}
					creates++
					c := oiCall{kind: g.kind, arg1: e.Updater, arg2: e.Fingerprint}
					if creates == sc.FailCreate {
						c.failed = true
						want = append(want, c.String())
						return want, true
					}
					if g.kind == "enrichment" {
						c.inserts, c.insertKind = e.Enrichments, "enrichment"
					} else {
						c.inserts, c.insertKind = e.Vulns, "vuln"
					}
					want = append(want, c.String())
				}
			}
			return want, sc.Garbage
		}
		inputOnly, inOrder := true, true
		notReturned := 0
		for _, sc := range ans.Scenarios {
			cs, _, _ := oiCalls(sc)
			var got []string
			for _, c := range cs {
				got = append(got, c.String())
				ok := false
				for _, e := range sc.Entries {
					if (c.arg1 == e.Updater && c.arg2 == e.Fingerprint) || (c.arg1 == e.Fingerprint && c.arg2 == e.Updater) {
						ok = true
					}
				}
				if !ok {
					inputOnly = false
				}
			}
			want, wantErr := predict(sc)
			if strings.Join(got, ";") != strings.Join(want, ";") {
				unknown++
				if sc.FailCreate == 0 {
					inOrder = false
				}
			}
			if sc.FailCreate > 0 {
				failedSeen, after := false, false
				for _, c := range cs {
					if failedSeen {
						after = true
					}
					if c.failed {
						failedSeen = true
					}
				}
				if failedSeen && (!sc.Err || after) {
					notReturned++
				}
			} else if sc.Err != wantErr && !sc.Garbage {
				unknown++ // an error (or none) nothing explains
			}
		}
		gt, err := need("garbage-tail")
		if err != nil {
			return "", err
		}
		gonly, err := need("garbage-only")
		if err != nil {
			return "", err
		}
		loaderErr := gt.Err && gonly.Err

		out := Header("OfflineImport", src)
		out += fmt.Sprintf("def opsKind : String := %s\n", LeanString(opsKind))
		out += fmt.Sprintf("def rangeKey : String := %s\n", LeanString(rangeKey))
		out += fmt.Sprintf("def skipCompare : String × String := (%s, %s)\n", LeanString(skipL), LeanString(skipR))
		out += fmt.Sprintf("def skipContinuesLoop : Bool := %v\n", skipContinues)
		var cs []string
		for _, c := range calls {
			cs = append(cs, fmt.Sprintf("(%s, %s, %s)", LeanString(c.guard), LeanString(c.method), LeanStrList(c.args)))
		}
		out += "def guardedCalls : List (String × String × List String) := [" + strings.Join(cs, ", ") + "]\n"
		out += fmt.Sprintf("def errCheckedAfterLoop : Bool := %v\n", loaderErr)
		out += fmt.Sprintf("def unrecognisedStatements : Nat := %d\n", unknown)
		out += fmt.Sprintf("def loaderReadsTheInput : Bool := %v\n", inputOnly)
		out += fmt.Sprintf("def oneLoaderThroughout : Bool := %v\n", inOrder)
		out += fmt.Sprintf("def storeErrorsNotReturned : Nat := %d\n", notReturned)
		out += fmt.Sprintf("def loaderErrorReturned : Bool := %v\n", loaderErr)
		return out + Footer("OfflineImport"), nil
	}})
}
