package extract

import (
	"fmt"
	"go/ast"
	"go/token"
	"regexp"
	"strings"
)

// C02Tables: the literal tables and expressions the package-discovery models of
// property C02 are written against.
//
//   - java/jar/jar.go: the three priority lists of parseManifest (group,
//     artifact, version attributes, in their written order), nameRegexp,
//     manifestVer, maxNesting, MinSize, nameHeader; java/jar/ext.go: the
//     extensions ValidExt accepts;
//   - rpm/native_db.go: the file patterns of init();
//   - ruby/packagescanner.go: gemspecPath, nameLine, versionLine;
//   - rhel/distributionscanner.go releaseRegexp; alpine/distributionscanner.go
//     issueRegexp, edgeIssueRegexp; debian/distributionscanner.go the local
//     expression `ver`.
func init() {
	Register(Gen{Name: "C02Tables", Run: genC02Tables})
}

func c02LeanList(name, doc string, l []string) string {
	q := make([]string, len(l))
	for i, s := range l {
		q[i] = LeanString(s)
	}
	return "/-- " + doc + " -/\ndef " + name + " : List String := [" + strings.Join(q, ", ") + "]\n\n"
}

func c02LeanStr(name, doc, s string) string {
	return "/-- " + doc + " -/\ndef " + name + " : String := " + LeanString(s) + "\n\n"
}

// rxRegexpsUsedBy lists the distinct patterns of the regular expressions the
// function works with: regexp.MustCompile(<constant expression>) calls in its
// body, package-level variables it names that are compiled from a constant
// expression, and the same for the package functions it calls (one level).
func rxRegexpsUsedBy(p *rxPkg, fd *ast.FuncDecl) []string {
	seen := map[string]bool{}
	var out []string
	add := func(s string) {
		if !seen[s] {
			seen[s] = true
			out = append(out, s)
		}
	}
	var visit func(fd *ast.FuncDecl, depth int)
	visit = func(fd *ast.FuncDecl, depth int) {
		if fd == nil || fd.Body == nil {
			return
		}
		sc := p.ScopeOf(fd)
		file := p.FileOf(fd)
		ast.Inspect(fd.Body, func(n ast.Node) bool {
			switch x := n.(type) {
			case *ast.CallExpr:
				if sel, ok := x.Fun.(*ast.SelectorExpr); ok && (sel.Sel.Name == "MustCompile" || sel.Sel.Name == "MustCompilePOSIX") && len(x.Args) == 1 {
					if pk, ok := sel.X.(*ast.Ident); ok && rxImportPath(file, pk.Name) == "regexp" {
						if s, ok := sc.Str(x.Args[0]); ok {
							add(s)
						}
					}
					return true
				}
				if depth < 1 {
					if callee := p.rxCallee(x); callee != nil && callee != fd {
						visit(callee, depth+1)
					}
				}
			case *ast.Ident:
				if _, local := sc.local[x.Name]; local {
					return true
				}
				if d := p.Decl(x.Name); d != nil && d.decl.Tok == token.VAR {
					if s, err := regexpSource(p, x.Name); err == nil {
						add(s)
					}
				}
			}
			return true
		})
	}
	visit(fd, 0)
	return out
}

// rxSnapJar*: the order in which Gen/C02Tables listed the extensions ValidExt accepts
// (candidate inputs; every one is evaluated).
var rxSnapJarExts = []string{".jar", ".war", ".ear", ".jpi", ".hpi"}

// rxSnapJarKeys: candidate manifest attributes besides the string literals of java/jar.
var rxSnapJarKeys = []string{"Group-Id", "Bundle-SymbolicName", "Implementation-Vendor-Id", "Implementation-Vendor", "Specification-Vendor",
	"Implementation-Title", "Specification-Title", "Bundle-Name", "Extension-Name", "Short-Name",
	"Bundle-Version", "Implementation-Version", "Plugin-Version", "Specification-Version"}

var rxAttrName = regexp.MustCompile(`^[A-Za-z][A-Za-z0-9_-]{1,60}$`)

// genC02Tables — EVALUATED (design/EXTRACT.md, round 2) by the probe go/cmd/rxprobe/c02tables:
//
//	jarGroupKeys, jarArtifactKeys, jarVersionKeys
//	    the manifest attributes jar.Parse takes group, artifact and version from, in priority order: the probe
//	    parses a jar whose manifest holds every candidate attribute (the string literals of java/jar that can be
//	    attribute names, the snapshot's) with a value naming the attribute, removes the attribute that won the
//	    role, and repeats until the role stays empty
//	jarMaxNesting      how many jars along a chain of nested jars jar.Parse looks into
//	jarMinSize         the exported constant, as compiled
//	jarValidExt        ValidExt on every candidate extension (snapshot, literals, case variants and neighbours)
//	jarNameRegexp, jarManifestVer, ruby*, rhelRelease, alpine*, rpmFilePatterns, jarNameHeader
//	    the sources of the COMPILED expressions / the byte string, through hooks (RegexpSourcesForVerif, …)
//	debianCodename     read tolerantly: the one regular expression debian's findDist works with (a local
//	                   MustCompile, a package-level variable it names, or one in a helper it calls)
func genC02Tables(repo string) (string, error) {
	out := Header("C02Tables", "java/jar/jar.go", "java/jar/ext.go", "rpm/native_db.go", "ruby/packagescanner.go", "rhel/distributionscanner.go", "alpine/distributionscanner.go", "debian/distributionscanner.go")

	jp, err := rxLoadPkg(repo, "java/jar")
	if err != nil {
		return "", err
	}
	keys, exts := rxSet{}, rxSet{}
	keys.add(rxSnapJarKeys...)
	exts.add(rxSnapJarExts...)
	for _, l := range jp.StringLits() {
		if rxAttrName.MatchString(l) && !strings.EqualFold(l, "Name") && !strings.EqualFold(l, "Manifest-Version") {
			keys.add(l)
		}
		if strings.HasPrefix(l, ".") && len(l) <= 8 && !strings.ContainsAny(l, "/ \t\n") {
			exts.add(l)
		}
	}
	for _, e := range exts.sorted() {
		exts.add(strings.ToUpper(e), e+"s", e[:len(e)-1], e+" ")
	}
	exts.add(".zip", ".sar", ".rar", ".par", ".kar", ".aar", ".apk", ".class", "")
	var ans struct {
		Regexps      map[string]map[string]string `json:"regexps"`
		FilePatterns string                       `json:"filePatterns"`
		NameHeader   string                       `json:"nameHeader"`
		MinSize      int                          `json:"minSize"`
		Group        []string                     `json:"group"`
		Artifact     []string                     `json:"artifact"`
		Version      []string                     `json:"version"`
		OrderMatters bool                         `json:"orderMatters"`
		MaxNesting   int                          `json:"maxNesting"`
		ValidExt     []string                     `json:"validExt"`
	}
	if err := rxProbe(repo, "c02tables", map[string]any{"keys": keys.sorted(), "exts": exts.sorted()}, &ans); err != nil {
		return "", err
	}
	if ans.OrderMatters {
		return "", fmt.Errorf("java/jar: which manifest attribute wins depends on the order of the manifest's lines")
	}
	out += c02LeanList("jarGroupKeys", "parseManifest: attributes that may state the group, in priority order", ans.Group)
	out += c02LeanList("jarArtifactKeys", "parseManifest: attributes that may state the artifact", ans.Artifact)
	out += c02LeanList("jarVersionKeys", "parseManifest: attributes that may state the version", ans.Version)
	rx := func(pkg, name string) (string, error) {
		s, ok := ans.Regexps[pkg][name]
		if !ok {
			return "", fmt.Errorf("c02tables probe: expression %s of %s not reported", name, pkg)
		}
		return s, nil
	}
	for _, n := range [][2]string{{"nameRegexp", "jarNameRegexp"}, {"manifestVer", "jarManifestVer"}} {
		s, err := rx("jar", n[0])
		if err != nil {
			return "", err
		}
		out += c02LeanStr(n[1], "java/jar "+n[0], s)
	}
	out += fmt.Sprintf("def jarMaxNesting : Nat := %d\n\n", ans.MaxNesting)
	out += fmt.Sprintf("def jarMinSize : Nat := %d\n\n", ans.MinSize)
	out += c02LeanStr("jarNameHeader", "java/jar nameHeader", ans.NameHeader)

	// accepted extensions: the snapshot's order first, anything else after it
	accepted := rxSet{}
	accepted.add(ans.ValidExt...)
	var extList []string
	for _, e := range rxSnapJarExts {
		if accepted[e] {
			extList = append(extList, e)
			delete(accepted, e)
		}
	}
	extList = append(extList, accepted.sorted()...)
	if len(extList) == 0 {
		return "", fmt.Errorf("java/jar ValidExt accepts no candidate extension")
	}
	out += c02LeanList("jarValidExt", "java/jar ValidExt: accepted extensions", extList)

	pats := rxSplitAlternatives(ans.FilePatterns)
	if len(pats) == 0 {
		return "", fmt.Errorf("rpm filePatterns: empty expression")
	}
	out += c02LeanList("rpmFilePatterns", "rpm/native_db.go: which rpm-owned files are remembered for the language scanners", pats)

	for _, src := range []struct {
		file, pkg string
		names     [][2]string
	}{
		{"ruby/packagescanner.go", "ruby", [][2]string{{"gemspecPath", "rubyGemspecPath"}, {"nameLine", "rubyNameLine"}, {"versionLine", "rubyVersionLine"}}},
		{"rhel/distributionscanner.go", "rhel", [][2]string{{"releaseRegexp", "rhelRelease"}}},
		{"alpine/distributionscanner.go", "alpine", [][2]string{{"issueRegexp", "alpineIssue"}, {"edgeIssueRegexp", "alpineEdgeIssue"}}},
	} {
		for _, n := range src.names {
			s, err := rx(src.pkg, n[0])
			if err != nil {
				return "", err
			}
			out += c02LeanStr(n[1], src.file+" "+n[0], s)
		}
	}
	dp, err := rxLoadPkg(repo, "debian")
	if err != nil {
		return "", err
	}
	fd := dp.Func("", "findDist")
	if fd == nil {
		return "", fmt.Errorf("debian: func findDist not found")
	}
	res := rxRegexpsUsedBy(dp, fd)
	if len(res) != 1 {
		return "", fmt.Errorf("debian findDist: expected one regular expression compiled from a constant, found %d %q", len(res), res)
	}
	out += c02LeanStr("debianCodename", "debian/distributionscanner.go ver", res[0])
	return out + "end ClairModel.Gen.C02Tables\n", nil
}
