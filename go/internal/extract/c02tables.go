package extract

import (
	"fmt"
	"go/ast"
	"go/token"
	"strings"
)

// C02Tables: the literal tables and expressions the package-discovery models of
// property C02 are written against.
//
//   - java/jar/jar.go: the three priority lists of parseManifest (group,
//     artifact, version attributes, in their written order), nameRegexp,
//     manifestVer, maxNesting, MinSize, nameHeader; java/jar/ext.go: the
//     extensions ValidExt accepts;
//   - rpm/native_db.go: the file patterns of init();
//   - ruby/packagescanner.go: gemspecPath, nameLine, versionLine;
//   - rhel/distributionscanner.go releaseRegexp; alpine/distributionscanner.go
//     issueRegexp, edgeIssueRegexp; debian/distributionscanner.go the local
//     expression `ver`.
func init() {
	Register(Gen{Name: "C02Tables", Run: genC02Tables})
}

// c02Regexps collects every `name = regexp.MustCompile(<string literal>)`, at file level or
// inside a function.
func c02Regexps(f *ast.File) map[string]string {
	out := map[string]string{}
	lit := func(e ast.Expr) (string, bool) {
		ce, ok := e.(*ast.CallExpr)
		if !ok || len(ce.Args) != 1 {
			return "", false
		}
		se, ok := ce.Fun.(*ast.SelectorExpr)
		if !ok || se.Sel.Name != "MustCompile" {
			return "", false
		}
		return strLit(ce.Args[0])
	}
	ast.Inspect(f, func(n ast.Node) bool {
		switch x := n.(type) {
		case *ast.ValueSpec:
			for i, nm := range x.Names {
				if i < len(x.Values) {
					if s, ok := lit(x.Values[i]); ok {
						out[nm.Name] = s
					}
				}
			}
		case *ast.AssignStmt:
			for i, l := range x.Lhs {
				if id, ok := l.(*ast.Ident); ok && i < len(x.Rhs) {
					if s, ok := lit(x.Rhs[i]); ok {
						out[id.Name] = s
					}
				}
			}
		}
		return true
	})
	return out
}

func c02StringList(cl *ast.CompositeLit) ([]string, bool) {
	at, ok := cl.Type.(*ast.ArrayType)
	if !ok {
		return nil, false
	}
	if id, ok := at.Elt.(*ast.Ident); !ok || id.Name != "string" {
		return nil, false
	}
	var out []string
	for _, e := range cl.Elts {
		s, ok := strLit(e)
		if !ok {
			return nil, false
		}
		out = append(out, s)
	}
	return out, true
}

// c02ListsIn lists the []string literals inside the named function, in source order.
func c02ListsIn(f *ast.File, fn string) [][]string {
	var out [][]string
	for _, d := range f.Decls {
		fd, ok := d.(*ast.FuncDecl)
		if !ok || fd.Name.Name != fn || fd.Body == nil {
			continue
		}
		ast.Inspect(fd.Body, func(n ast.Node) bool {
			if cl, ok := n.(*ast.CompositeLit); ok {
				if l, ok := c02StringList(cl); ok {
					out = append(out, l)
					return false
				}
			}
			return true
		})
	}
	return out
}

func c02LeanList(name, doc string, l []string) string {
	q := make([]string, len(l))
	for i, s := range l {
		q[i] = LeanString(s)
	}
	return "/-- " + doc + " -/\ndef " + name + " : List String := [" + strings.Join(q, ", ") + "]\n\n"
}

func c02LeanStr(name, doc, s string) string {
	return "/-- " + doc + " -/\ndef " + name + " : String := " + LeanString(s) + "\n\n"
}

func c02IntConst(f *ast.File, name string) (int64, error) {
	var v int64
	found := false
	var err error
	ast.Inspect(f, func(n ast.Node) bool {
		vs, ok := n.(*ast.ValueSpec)
		if !ok {
			return true
		}
		for i, nm := range vs.Names {
			if nm.Name == name && i < len(vs.Values) {
				v, err = IntLit(vs.Values[i])
				found = err == nil
			}
		}
		return true
	})
	if !found {
		return 0, fmt.Errorf("integer constant %s not found", name)
	}
	return v, nil
}

func genC02Tables(repo string) (string, error) {
	out := Header("C02Tables", "java/jar/jar.go", "java/jar/ext.go", "rpm/native_db.go", "ruby/packagescanner.go", "rhel/distributionscanner.go", "alpine/distributionscanner.go", "debian/distributionscanner.go")

	_, jf, err := ParseFile(repo, "java/jar/jar.go")
	if err != nil {
		return "", err
	}
	lists := c02ListsIn(jf, "parseManifest")
	if len(lists) != 3 {
		return "", fmt.Errorf("java/jar parseManifest: %d []string literals, want the 3 priority lists", len(lists))
	}
	out += c02LeanList("jarGroupKeys", "parseManifest: attributes that may state the group, in priority order", lists[0])
	out += c02LeanList("jarArtifactKeys", "parseManifest: attributes that may state the artifact", lists[1])
	out += c02LeanList("jarVersionKeys", "parseManifest: attributes that may state the version", lists[2])
	rx := c02Regexps(jf)
	for _, n := range []string{"nameRegexp", "manifestVer"} {
		if _, ok := rx[n]; !ok {
			return "", fmt.Errorf("java/jar: expression %s not found", n)
		}
	}
	out += c02LeanStr("jarNameRegexp", "java/jar nameRegexp", rx["nameRegexp"])
	out += c02LeanStr("jarManifestVer", "java/jar manifestVer", rx["manifestVer"])
	for _, c := range []struct{ goName, leanName string }{{"maxNesting", "jarMaxNesting"}, {"MinSize", "jarMinSize"}} {
		v, err := c02IntConst(jf, c.goName)
		if err != nil {
			return "", fmt.Errorf("java/jar: %w", err)
		}
		out += fmt.Sprintf("def %s : Nat := %d\n\n", c.leanName, v)
	}
	// nameHeader = []byte("\nName:")
	nameHeader := ""
	ast.Inspect(jf, func(n ast.Node) bool {
		vs, ok := n.(*ast.ValueSpec)
		if !ok {
			return true
		}
		for i, nm := range vs.Names {
			if nm.Name == "nameHeader" && i < len(vs.Values) {
				if ce, ok := vs.Values[i].(*ast.CallExpr); ok && len(ce.Args) == 1 {
					if s, ok := strLit(ce.Args[0]); ok {
						nameHeader = s
					}
				}
			}
		}
		return true
	})
	if nameHeader == "" {
		return "", fmt.Errorf("java/jar: nameHeader not found")
	}
	out += c02LeanStr("jarNameHeader", "java/jar nameHeader", nameHeader)

	_, ef, err := ParseFile(repo, "java/jar/ext.go")
	if err != nil {
		return "", err
	}
	var exts []string
	ast.Inspect(ef, func(n ast.Node) bool {
		cc, ok := n.(*ast.CaseClause)
		if !ok {
			return true
		}
		for _, e := range cc.List {
			if s, ok := strLit(e); ok {
				exts = append(exts, s)
			}
		}
		return true
	})
	if len(exts) == 0 {
		return "", fmt.Errorf("java/jar ValidExt: no extension literals found")
	}
	out += c02LeanList("jarValidExt", "java/jar ValidExt: accepted extensions", exts)

	_, rf, err := ParseFile(repo, "rpm/native_db.go")
	if err != nil {
		return "", err
	}
	pats := c02ListsIn(rf, "init")
	if len(pats) != 1 {
		return "", fmt.Errorf("rpm/native_db.go init: %d []string literals, want the pattern list", len(pats))
	}
	out += c02LeanList("rpmFilePatterns", "rpm/native_db.go: which rpm-owned files are remembered for the language scanners", pats[0])

	for _, src := range []struct {
		file  string
		names [][2]string
	}{
		{"ruby/packagescanner.go", [][2]string{{"gemspecPath", "rubyGemspecPath"}, {"nameLine", "rubyNameLine"}, {"versionLine", "rubyVersionLine"}}},
		{"rhel/distributionscanner.go", [][2]string{{"releaseRegexp", "rhelRelease"}}},
		{"alpine/distributionscanner.go", [][2]string{{"issueRegexp", "alpineIssue"}, {"edgeIssueRegexp", "alpineEdgeIssue"}}},
		{"debian/distributionscanner.go", [][2]string{{"ver", "debianCodename"}}},
	} {
		_, f, err := ParseFile(repo, src.file)
		if err != nil {
			return "", err
		}
		rx := c02Regexps(f)
		for _, n := range src.names {
			s, ok := rx[n[0]]
			if !ok {
				return "", fmt.Errorf("%s: expression %s not found", src.file, n[0])
			}
			out += c02LeanStr(n[1], src.file+" "+n[0], s)
		}
	}
	_ = token.NoPos
	return out + "end ClairModel.Gen.C02Tables\n", nil
}
