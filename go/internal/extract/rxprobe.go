package extract

// rxProbe: "evaluate instead of parse".  A probe is a small checked-in Go
// program of the harness module (go/cmd/rxprobe/<name>) that calls the REAL
// functions of the repository on every element of a finite domain and prints
// the resulting table as JSON.  It is compiled from the repository's current
// sources (-tags verif, module replaced to the repository under test) on every
// extractor run, so it is a translation of what the code says now, and it does
// not depend on how the code is written.

import (
	"bytes"
	"context"
	"encoding/json"
	"fmt"
	"os"
	"os/exec"
	"path/filepath"
	"runtime"
	"sort"
	"strings"
	"sync"
	"time"
)

// rxGoDir is the harness module directory (…/verif/go).
func rxGoDir() (string, error) {
	if d := os.Getenv("VERIF_GO"); d != "" {
		return d, nil
	}
	_, file, _, ok := runtime.Caller(0)
	if ok {
		d := filepath.Dir(filepath.Dir(filepath.Dir(file))) // go/internal/extract/rxprobe.go -> go
		if _, err := os.Stat(filepath.Join(d, "go.mod")); err == nil {
			return d, nil
		}
	}
	if exe, err := os.Executable(); err == nil {
		// <verif>/.build[/alt-x]/extract
		for d := filepath.Dir(exe); d != "/" && d != "."; d = filepath.Dir(d) {
			if _, err := os.Stat(filepath.Join(d, "go", "cmd", "rxprobe")); err == nil {
				return filepath.Join(d, "go"), nil
			}
		}
	}
	return "", fmt.Errorf("rxprobe: harness module directory not found (set VERIF_GO)")
}

type rxProbeBuild struct {
	once sync.Once
	bin  string
	dir  string
	err  error
}

var (
	rxProbeMu     sync.Mutex
	rxProbeBuilds = map[string]*rxProbeBuild{}
)

func rxEnv() []string {
	env := os.Environ()
	set := func(k, v string) {
		for i, e := range env {
			if strings.HasPrefix(e, k+"=") {
				if k == "CGO_ENABLED" {
					return
				}
				env[i] = k + "=" + v
				return
			}
		}
		env = append(env, k+"="+v)
	}
	set("GOFLAGS", "-mod=mod")
	set("GOPROXY", "off")
	set("GOSUMDB", "off")
	set("GOTOOLCHAIN", "local")
	set("CGO_ENABLED", "0")
	return env
}

// rxBuildProbe builds go/cmd/rxprobe/<name> against repo (once per process).
func rxBuildProbe(repo, name string) (string, error) {
	real, err := filepath.EvalSymlinks(repo)
	if err != nil {
		return "", err
	}
	if real, err = filepath.Abs(real); err != nil {
		return "", err
	}
	key := real + "\x00" + name
	rxProbeMu.Lock()
	b := rxProbeBuilds[key]
	if b == nil {
		b = &rxProbeBuild{}
		rxProbeBuilds[key] = b
	}
	rxProbeMu.Unlock()
	b.once.Do(func() {
		goDir, err := rxGoDir()
		if err != nil {
			b.err = err
			return
		}
		tmp, err := os.MkdirTemp("", "rxprobe-")
		if err != nil {
			b.err = err
			return
		}
		b.dir = tmp
		mod, err := os.ReadFile(filepath.Join(goDir, "go.mod"))
		if err != nil {
			b.err = err
			return
		}
		// same rewriting as ./check does for scratch repositories
		txt := strings.ReplaceAll(string(mod), "=> /repo", "=> "+real)
		if err := os.WriteFile(filepath.Join(tmp, "go.mod"), []byte(txt), 0o644); err != nil {
			b.err = err
			return
		}
		sums := map[string]bool{}
		for _, p := range []string{filepath.Join(goDir, "go.sum"), filepath.Join(real, "go.sum"), filepath.Join(real, "toolkit", "go.sum"), filepath.Join(real, "updater", "driver", "go.sum")} {
			if bs, err := os.ReadFile(p); err == nil {
				for _, l := range strings.Split(string(bs), "\n") {
					if strings.TrimSpace(l) != "" {
						sums[l] = true
					}
				}
			}
		}
		var sl []string
		for l := range sums {
			sl = append(sl, l)
		}
		sort.Strings(sl)
		if err := os.WriteFile(filepath.Join(tmp, "go.sum"), []byte(strings.Join(sl, "\n")+"\n"), 0o644); err != nil {
			b.err = err
			return
		}
		bin := filepath.Join(tmp, "probe_"+name)
		ctx, cancel := context.WithTimeout(context.Background(), 240*time.Second)
		defer cancel()
		cmd := exec.CommandContext(ctx, "go", "build", "-tags", "verif", "-modfile="+filepath.Join(tmp, "go.mod"), "-o", bin, "./cmd/rxprobe/"+name)
		cmd.Dir = goDir
		cmd.Env = rxEnv()
		out, err := cmd.CombinedOutput()
		if err != nil {
			msg := strings.TrimSpace(string(out))
			if len(msg) > 1500 {
				msg = msg[:1500] + " …"
			}
			b.err = fmt.Errorf("probe %s does not build against the repository (a function it calls was removed, renamed or changed its signature?): %v: %s", name, err, msg)
			return
		}
		b.bin = bin
	})
	return b.bin, b.err
}

// rxProbe runs probe `name` with `in` as JSON on stdin and decodes its JSON answer into out.
func rxProbe(repo, name string, in, out any) error {
	bin, err := rxBuildProbe(repo, name)
	if err != nil {
		return err
	}
	inb, err := json.Marshal(in)
	if err != nil {
		return err
	}
	ctx, cancel := context.WithTimeout(context.Background(), 120*time.Second)
	defer cancel()
	cmd := exec.CommandContext(ctx, bin)
	cmd.Stdin = bytes.NewReader(inb)
	var so, se bytes.Buffer
	cmd.Stdout, cmd.Stderr = &so, &se
	cmd.Env = rxEnv()
	wd, err := os.MkdirTemp("", "rxprobe-wd-")
	if err != nil {
		return err
	}
	defer os.RemoveAll(wd)
	cmd.Dir = wd
	if err := cmd.Run(); err != nil {
		msg := strings.TrimSpace(se.String())
		if len(msg) > 1500 {
			msg = msg[len(msg)-1500:]
		}
		return fmt.Errorf("probe %s failed: %v: %s", name, err, msg)
	}
	if err := json.Unmarshal(so.Bytes(), out); err != nil {
		return fmt.Errorf("probe %s: undecodable answer: %v", name, err)
	}
	return nil
}

// RxCleanup removes the probe binaries built by this process.
func RxCleanup() {
	rxProbeMu.Lock()
	defer rxProbeMu.Unlock()
	for k, b := range rxProbeBuilds {
		if b.dir != "" {
			os.RemoveAll(b.dir)
		}
		delete(rxProbeBuilds, k)
	}
}

// RxPrebuild starts building the named probes in the background, so that the
// generators (which run one after the other) find them ready.
func RxPrebuild(repo string, names ...string) {
	for _, n := range names {
		go rxBuildProbe(repo, n)
	}
}

// rxSet is a small string-set helper.
type rxSet map[string]bool

func (s rxSet) add(xs ...string) {
	for _, x := range xs {
		s[x] = true
	}
}

func (s rxSet) sorted() []string {
	out := make([]string, 0, len(s))
	for x := range s {
		out = append(out, x)
	}
	sort.Strings(out)
	return out
}
