package extract

// Gen/JoinFixtures (and the C04 harness, through LoadJoinFixtures): the
// repository's own distribution-scanner fixtures.  These are test data, not
// behaviour of the code, so they are READ — tolerantly (design/EXTRACT.md, round 2):
//
//   - testdata directories: the files as they are;
//   - the os-release texts of the scanner tests of aws, oracle, photon, suse: every package-level variable of a
//     test file whose value is []byte(<constant string expression>) (literal, concatenation, named constant);
//   - the scanner test's table (release the test expects, fixture): every composite literal of the test function
//     — keyed or positional, whatever its fields are called — holding exactly one fixture variable and exactly one
//     named constant that folds to a string (the release; constants of the package under test are folded too);
//   - ubuntu: (VersionID, VersionCodeName) of every claircore.Distribution literal of the scanner test (folded).
//
// The test function is TestDistributionScanner; if there is none, every Test function of the files named
// *distributionscanner*_test.go.

import (
	"fmt"
	"go/ast"
	"go/constant"
	"go/parser"
	"go/token"
	"os"
	"path/filepath"
	"sort"
	"strings"
)

// rxjLoadWithTests parses the package directory with its test files (not cached in rxPkgCache).
func rxjLoadWithTests(repo, dir string) (*rxPkg, map[*ast.File]bool, error) {
	ents, err := os.ReadDir(filepath.Join(repo, dir))
	if err != nil {
		return nil, nil, err
	}
	p := &rxPkg{repo: repo, dir: dir, fset: token.NewFileSet(), cache: map[string]constant.Value{}, busy: map[string]bool{}}
	isTest := map[*ast.File]bool{}
	var names []string
	for _, e := range ents {
		n := e.Name()
		if e.IsDir() || !strings.HasSuffix(n, ".go") || strings.HasSuffix(n, "_verif.go") {
			continue
		}
		names = append(names, n)
	}
	sort.Strings(names)
	for _, n := range names {
		f, err := parser.ParseFile(p.fset, filepath.Join(repo, dir, n), nil, parser.ParseComments)
		if err != nil {
			return nil, nil, err
		}
		if rxIgnoredFile(f) {
			continue
		}
		p.names = append(p.names, n)
		p.files = append(p.files, f)
		isTest[f] = strings.HasSuffix(n, "_test.go")
	}
	if len(p.files) == 0 {
		return nil, nil, fmt.Errorf("%s: no Go files", dir)
	}
	return p, isTest, nil
}

// rxjByteFixtures: package-level `x = []byte(<constant string>)` of the test files.
func rxjByteFixtures(p *rxPkg, isTest map[*ast.File]bool) ([]string, map[string]string) {
	res := map[string]string{}
	for _, f := range p.files {
		if !isTest[f] {
			continue
		}
		for _, d := range f.Decls {
			gd, ok := d.(*ast.GenDecl)
			if !ok || gd.Tok != token.VAR {
				continue
			}
			for _, sp := range gd.Specs {
				vs := sp.(*ast.ValueSpec)
				for i, n := range vs.Names {
					if i >= len(vs.Values) {
						continue
					}
					ce, ok := j_unparen(vs.Values[i]).(*ast.CallExpr)
					if !ok || len(ce.Args) != 1 {
						continue
					}
					at, ok := ce.Fun.(*ast.ArrayType)
					if !ok || at.Len != nil {
						continue
					}
					if id, ok := at.Elt.(*ast.Ident); !ok || id.Name != "byte" {
						continue
					}
					if s, ok := p.Scope(f).Str(ce.Args[0]); ok {
						res[n.Name] = s
					}
				}
			}
		}
	}
	var names []string
	for n := range res {
		names = append(names, n)
	}
	sort.Strings(names)
	return names, res
}

// rxjScannerTests: the test functions whose tables are read.
func rxjScannerTests(p *rxPkg, isTest map[*ast.File]bool) []*ast.FuncDecl {
	var named, others []*ast.FuncDecl
	for i, f := range p.files {
		if !isTest[f] {
			continue
		}
		for _, d := range f.Decls {
			fd, ok := d.(*ast.FuncDecl)
			if !ok || fd.Body == nil || fd.Recv != nil || !strings.HasPrefix(fd.Name.Name, "Test") {
				continue
			}
			if fd.Name.Name == "TestDistributionScanner" {
				named = append(named, fd)
			} else if strings.Contains(p.names[i], "distributionscanner") {
				others = append(others, fd)
			}
		}
	}
	if len(named) > 0 {
		return named
	}
	return others
}

// LoadJoinFixtures reads the fixtures from the repository.
func LoadJoinFixtures(repo string) (*JoinFixtureSet, error) {
	fx := &JoinFixtureSet{Dirs: map[string][]JoinFixtureDir{}, Vars: map[string][]JoinFixtureVar{}, Expected: map[string][][2]string{}}
	for _, d := range j_fixtureDirs {
		names, res, err := j_dirFixtures(repo, d.root, d.files)
		if err != nil {
			return nil, err
		}
		if len(names) == 0 {
			return nil, fmt.Errorf("%s: no fixtures", d.root)
		}
		for _, n := range names {
			fx.Dirs[d.ns] = append(fx.Dirs[d.ns], JoinFixtureDir{Release: n, Files: res[n]})
		}
	}
	for _, d := range []string{"aws", "oracle", "photon", "suse"} {
		p, isTest, err := rxjLoadWithTests(repo, d)
		if err != nil {
			return nil, err
		}
		names, res := rxjByteFixtures(p, isTest)
		if len(names) == 0 {
			return nil, fmt.Errorf("%s: no os-release byte fixtures in the tests", d)
		}
		for _, n := range names {
			fx.Vars[d] = append(fx.Vars[d], JoinFixtureVar{Name: n, Content: res[n]})
		}
		if d == "suse" {
			continue
		}
		// the test's own table: which release each fixture is (release constant value, fixture variable)
		var pairs [][2]string
		for _, tf := range rxjScannerTests(p, isTest) {
			sc := p.ScopeOf(tf)
			ast.Inspect(tf.Body, func(n ast.Node) bool {
				cl, ok := n.(*ast.CompositeLit)
				if !ok {
					return true
				}
				var files, rels []string
				for _, el := range cl.Elts {
					v := el
					if kv, ok := el.(*ast.KeyValueExpr); ok {
						v = kv.Value
					}
					switch x := j_unparen(v).(type) {
					case *ast.Ident:
						if _, ok := res[x.Name]; ok {
							files = append(files, x.Name)
						} else if s, ok := sc.Str(x); ok && x.Name != "true" && x.Name != "false" {
							rels = append(rels, s)
						}
					case *ast.SelectorExpr:
						if s, ok := sc.Str(x); ok {
							rels = append(rels, s)
						}
					}
				}
				if len(files) == 1 && len(rels) == 1 {
					pairs = append(pairs, [2]string{rels[0], files[0]})
					return false
				}
				return true
			})
		}
		if len(pairs) == 0 {
			return nil, fmt.Errorf("%s: scanner test table not recognised (no literal pairing a named release constant with a []byte fixture variable)", d)
		}
		fx.Expected[d] = pairs
	}
	// ubuntu series known to the scanner test: (version, codename)
	p, isTest, err := rxjLoadWithTests(repo, "ubuntu")
	if err != nil {
		return nil, err
	}
	for _, tf := range rxjScannerTests(p, isTest) {
		sc := p.ScopeOf(tf)
		file := p.FileOf(tf)
		ast.Inspect(tf.Body, func(n ast.Node) bool {
			cl, ok := n.(*ast.CompositeLit)
			if !ok {
				return true
			}
			sel, ok := cl.Type.(*ast.SelectorExpr)
			if !ok || sel.Sel.Name != "Distribution" {
				return true
			}
			if id, ok := sel.X.(*ast.Ident); !ok || rxImportPath(file, id.Name) != "github.com/quay/claircore" {
				return true
			}
			v, c := j_fieldOf(cl, "VersionID"), j_fieldOf(cl, "VersionCodeName")
			if v == nil || c == nil {
				return true
			}
			vs, ok1 := sc.Str(v)
			cs, ok2 := sc.Str(c)
			if ok1 && ok2 {
				fx.UbuntuSeries = append(fx.UbuntuSeries, [2]string{vs, cs})
			}
			return true
		})
	}
	if len(fx.UbuntuSeries) == 0 {
		return nil, fmt.Errorf("ubuntu: no series in the scanner test table")
	}
	return fx, nil
}
