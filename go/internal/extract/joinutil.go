package extract

// Helpers of the C04 (join) extractors: rendering of byte strings and of
// regular expressions (Re) as the Lean types of lean/ClairModel/Model/JoinTypes.lean.
// (Reading of the sources goes through rxPkg: rxpkg.go, rxjoin*.go.)

import (
	"fmt"
	"go/ast"
	"regexp/syntax"
	"strconv"
	"strings"
	"unicode"
)

func j_unparen(e ast.Expr) ast.Expr {
	for {
		p, ok := e.(*ast.ParenExpr)
		if !ok {
			return e
		}
		e = p.X
	}
}

func j_fieldOf(cl *ast.CompositeLit, name string) ast.Expr {
	for _, el := range cl.Elts {
		kv, ok := el.(*ast.KeyValueExpr)
		if !ok {
			continue
		}
		if id, ok := kv.Key.(*ast.Ident); ok && id.Name == name {
			return kv.Value
		}
	}
	return nil
}

// ---- Lean rendering ----

// j_lb renders a byte string as a Lean `List Nat` with the text as a comment.
func j_lb(s string) string {
	if s == "" {
		return "[]"
	}
	var b strings.Builder
	b.WriteByte('[')
	for i := 0; i < len(s); i++ {
		if i > 0 {
			b.WriteString(", ")
		}
		b.WriteString(strconv.Itoa(int(s[i])))
	}
	b.WriteByte(']')
	if len(s) <= 80 {
		ok := true
		for i := 0; i < len(s); i++ {
			if s[i] < 0x20 || s[i] >= 0x7f || (s[i] == '-' && i+1 < len(s) && s[i+1] == '/') || (s[i] == '/' && i+1 < len(s) && s[i+1] == '-') {
				ok = false
			}
		}
		if ok {
			b.WriteString(" /- " + s + " -/")
		}
	}
	return b.String()
}

func j_lbList(xs []string) string {
	q := make([]string, len(xs))
	for i, x := range xs {
		q[i] = j_lb(x)
	}
	return "[" + strings.Join(q, ", ") + "]"
}

func j_leanBool(b bool) string {
	if b {
		return "true"
	}
	return "false"
}

var j_distFields = []struct{ goName, leanName string }{
	{"DID", "did"}, {"Name", "name"}, {"Version", "version"}, {"VersionCodeName", "versionCodeName"},
	{"VersionID", "versionID"}, {"Arch", "arch"}, {"CPE", "cpe"}, {"PrettyName", "prettyName"},
}

// ---- regular expressions ----

// j_leanRe translates a Go regular expression (as regexp.MustCompile parses it)
// to the Lean Re type.  Unsupported operators are an error.
func j_leanRe(expr string) (string, error) {
	re, err := syntax.Parse(expr, syntax.Perl)
	if err != nil {
		return "", err
	}
	re = re.Simplify()
	return j_reToLean(re)
}

func j_reCat(parts []string) string {
	if len(parts) == 0 {
		return ".eps"
	}
	out := parts[len(parts)-1]
	for i := len(parts) - 2; i >= 0; i-- {
		out = fmt.Sprintf("(.cat %s %s)", parts[i], out)
	}
	return out
}

func j_reToLean(re *syntax.Regexp) (string, error) {
	switch re.Op {
	case syntax.OpNoMatch:
		return ".fail", nil
	case syntax.OpEmptyMatch:
		return ".eps", nil
	case syntax.OpLiteral:
		fold := re.Flags&syntax.FoldCase != 0
		var parts []string
		for _, r := range re.Rune {
			if r >= 0x80 {
				return "", fmt.Errorf("non-ASCII literal in regexp")
			}
			f := fold && unicode.IsLetter(r)
			c := r
			if f {
				c = unicode.ToLower(r)
			}
			parts = append(parts, fmt.Sprintf("(.lit %d %s)", c, j_leanBool(f)))
		}
		return j_reCat(parts), nil
	case syntax.OpCharClass:
		var rs []string
		for i := 0; i+1 < len(re.Rune); i += 2 {
			lo, hi := re.Rune[i], re.Rune[i+1]
			if lo >= 0x80 {
				continue // input is ASCII
			}
			if hi >= 0x80 {
				hi = 0xff
			}
			rs = append(rs, fmt.Sprintf("(%d, %d)", lo, hi))
		}
		return "(.cls [" + strings.Join(rs, ", ") + "])", nil
	case syntax.OpAnyCharNotNL:
		return ".anyNotNL", nil
	case syntax.OpAnyChar:
		return ".any", nil
	case syntax.OpBeginText:
		return ".beginText", nil
	case syntax.OpEndText:
		return ".endText", nil
	case syntax.OpCapture:
		return j_reToLean(re.Sub[0])
	case syntax.OpStar:
		a, err := j_reToLean(re.Sub[0])
		if err != nil {
			return "", err
		}
		return "(.star " + a + ")", nil
	case syntax.OpPlus:
		a, err := j_reToLean(re.Sub[0])
		if err != nil {
			return "", err
		}
		return fmt.Sprintf("(.cat %s (.star %s))", a, a), nil
	case syntax.OpQuest:
		a, err := j_reToLean(re.Sub[0])
		if err != nil {
			return "", err
		}
		return "(.alt " + a + " .eps)", nil
	case syntax.OpConcat:
		var parts []string
		for _, s := range re.Sub {
			a, err := j_reToLean(s)
			if err != nil {
				return "", err
			}
			parts = append(parts, a)
		}
		return j_reCat(parts), nil
	case syntax.OpAlternate:
		var parts []string
		for _, s := range re.Sub {
			a, err := j_reToLean(s)
			if err != nil {
				return "", err
			}
			parts = append(parts, a)
		}
		out := parts[len(parts)-1]
		for i := len(parts) - 2; i >= 0; i-- {
			out = fmt.Sprintf("(.alt %s %s)", parts[i], out)
		}
		return out, nil
	}
	return "", fmt.Errorf("unsupported regexp operator %v in %q", re.Op, re.String())
}
