package extract

// Helpers of the C04 (join) extractors: a package-level j_scope built from the
// non-test files of one Go package directory, evaluation of constant string
// expressions, translation of string-building expressions (SExpr), of Filter
// bodies (FExpr) and of regular expressions (Re) to the Lean types of
// lean/ClairModel/Model/JoinTypes.lean.

import (
	"fmt"
	"go/ast"
	"go/parser"
	"go/token"
	"os"
	"path/filepath"
	"regexp/syntax"
	"sort"
	"strconv"
	"strings"
	"unicode"
)

// j_scope is the set of package-level const/var initialisers and functions of
// one package directory (non-test files, or test files only).
type j_scope struct {
	dir   string
	fset  *token.FileSet
	files []*ast.File
	vals  map[string]ast.Expr
	funcs map[string]*ast.FuncDecl // "Recv.Name" or "Name"
}

func j_loadScope(repo, rel string, tests bool) (*j_scope, error) {
	dir := filepath.Join(repo, rel)
	ents, err := os.ReadDir(dir)
	if err != nil {
		return nil, err
	}
	sc := &j_scope{dir: rel, fset: token.NewFileSet(), vals: map[string]ast.Expr{}, funcs: map[string]*ast.FuncDecl{}}
	var names []string
	for _, e := range ents {
		n := e.Name()
		if e.IsDir() || !strings.HasSuffix(n, ".go") || strings.HasSuffix(n, "_verif.go") {
			continue
		}
		if strings.HasSuffix(n, "_test.go") != tests {
			continue
		}
		names = append(names, n)
	}
	sort.Strings(names)
	for _, n := range names {
		f, err := parser.ParseFile(sc.fset, filepath.Join(dir, n), nil, parser.ParseComments)
		if err != nil {
			return nil, err
		}
		sc.files = append(sc.files, f)
		for _, d := range f.Decls {
			switch d := d.(type) {
			case *ast.GenDecl:
				if d.Tok != token.CONST && d.Tok != token.VAR {
					continue
				}
				for _, s := range d.Specs {
					vs := s.(*ast.ValueSpec)
					for i, id := range vs.Names {
						if i < len(vs.Values) {
							sc.vals[id.Name] = vs.Values[i]
						}
					}
				}
			case *ast.FuncDecl:
				key := d.Name.Name
				if d.Recv != nil && len(d.Recv.List) == 1 {
					t := d.Recv.List[0].Type
					if st, ok := t.(*ast.StarExpr); ok {
						t = st.X
					}
					if id, ok := t.(*ast.Ident); ok {
						key = id.Name + "." + key
					}
				}
				sc.funcs[key] = d
			}
		}
	}
	return sc, nil
}

func (sc *j_scope) fn(name string) (*ast.FuncDecl, error) {
	if f, ok := sc.funcs[name]; ok {
		return f, nil
	}
	return nil, fmt.Errorf("%s: function %s not found", sc.dir, name)
}

func j_unparen(e ast.Expr) ast.Expr {
	for {
		p, ok := e.(*ast.ParenExpr)
		if !ok {
			return e
		}
		e = p.X
	}
}

// composite returns the composite literal an expression denotes (through & and
// package-level identifiers).
func (sc *j_scope) composite(e ast.Expr, depth int) (*ast.CompositeLit, error) {
	if depth > 8 {
		return nil, fmt.Errorf("%s: reference chain too deep", sc.dir)
	}
	switch x := j_unparen(e).(type) {
	case *ast.CompositeLit:
		return x, nil
	case *ast.UnaryExpr:
		if x.Op == token.AND {
			return sc.composite(x.X, depth+1)
		}
	case *ast.Ident:
		if v, ok := sc.vals[x.Name]; ok {
			return sc.composite(v, depth+1)
		}
	}
	return nil, fmt.Errorf("%s: not a composite literal", sc.dir)
}

func j_fieldOf(cl *ast.CompositeLit, name string) ast.Expr {
	for _, el := range cl.Elts {
		kv, ok := el.(*ast.KeyValueExpr)
		if !ok {
			continue
		}
		if id, ok := kv.Key.(*ast.Ident); ok && id.Name == name {
			return kv.Value
		}
	}
	return nil
}

// str evaluates a constant string expression: literals, package-level
// constants, concatenation, conversions T("…"), fields of package-level
// composite literals (AL1Dist.Name), and claircore.BINARY/SOURCE.
func (sc *j_scope) str(e ast.Expr) (string, error) { return sc.strDepth(e, 0) }

func (sc *j_scope) strDepth(e ast.Expr, depth int) (string, error) {
	if depth > 8 {
		return "", fmt.Errorf("%s: reference chain too deep", sc.dir)
	}
	switch x := j_unparen(e).(type) {
	case *ast.BasicLit:
		if x.Kind == token.STRING {
			return strconv.Unquote(x.Value)
		}
	case *ast.Ident:
		if v, ok := sc.vals[x.Name]; ok {
			return sc.strDepth(v, depth+1)
		}
		return "", fmt.Errorf("%s: identifier %s is not a package-level constant", sc.dir, x.Name)
	case *ast.BinaryExpr:
		if x.Op == token.ADD {
			a, err := sc.strDepth(x.X, depth+1)
			if err != nil {
				return "", err
			}
			b, err := sc.strDepth(x.Y, depth+1)
			if err != nil {
				return "", err
			}
			return a + b, nil
		}
	case *ast.CallExpr:
		// conversion T("…") or string(x)
		if len(x.Args) == 1 {
			if _, ok := x.Fun.(*ast.Ident); ok {
				return sc.strDepth(x.Args[0], depth+1)
			}
		}
	case *ast.SelectorExpr:
		if id, ok := x.X.(*ast.Ident); ok {
			if id.Name == "claircore" {
				switch x.Sel.Name {
				case "BINARY":
					return "binary", nil
				case "SOURCE":
					return "source", nil
				}
			}
			if cl, err := sc.composite(id, 0); err == nil {
				if fv := j_fieldOf(cl, x.Sel.Name); fv != nil {
					return sc.strDepth(fv, depth+1)
				}
				return "", nil // field absent in the literal: zero value
			}
		}
	}
	return "", fmt.Errorf("%s: cannot evaluate string expression at %s", sc.dir, sc.fset.Position(e.Pos()))
}

// strList evaluates a []string{…} literal (through an identifier).
func (sc *j_scope) strList(e ast.Expr) ([]string, error) {
	cl, err := sc.composite(e, 0)
	if err != nil {
		return nil, err
	}
	var out []string
	for _, el := range cl.Elts {
		s, err := sc.str(el)
		if err != nil {
			return nil, err
		}
		out = append(out, s)
	}
	return out, nil
}

// ---- Lean rendering ----

// j_lb renders a byte string as a Lean `List Nat` with the text as a comment.
func j_lb(s string) string {
	if s == "" {
		return "[]"
	}
	var b strings.Builder
	b.WriteByte('[')
	for i := 0; i < len(s); i++ {
		if i > 0 {
			b.WriteString(", ")
		}
		b.WriteString(strconv.Itoa(int(s[i])))
	}
	b.WriteByte(']')
	if len(s) <= 80 {
		ok := true
		for i := 0; i < len(s); i++ {
			if s[i] < 0x20 || s[i] >= 0x7f || (s[i] == '-' && i+1 < len(s) && s[i+1] == '/') || (s[i] == '/' && i+1 < len(s) && s[i+1] == '-') {
				ok = false
			}
		}
		if ok {
			b.WriteString(" /- " + s + " -/")
		}
	}
	return b.String()
}

func j_lbList(xs []string) string {
	q := make([]string, len(xs))
	for i, x := range xs {
		q[i] = j_lb(x)
	}
	return "[" + strings.Join(q, ", ") + "]"
}

func j_leanBool(b bool) string {
	if b {
		return "true"
	}
	return "false"
}

// ---- SExpr ----

// j_sexprCtx maps the Go names of a constructor's parameters to their index and
// says which of them are integers.
type j_sexprCtx struct {
	sc     *j_scope
	params map[string]int // name or "recv[0]" -> index
	isInt  map[int]bool
}

func (c *j_sexprCtx) paramIndex(e ast.Expr) (int, bool) {
	switch x := j_unparen(e).(type) {
	case *ast.Ident:
		i, ok := c.params[x.Name]
		return i, ok
	case *ast.IndexExpr:
		if id, ok := x.X.(*ast.Ident); ok {
			if bl, ok := x.Index.(*ast.BasicLit); ok {
				i, ok := c.params[id.Name+"["+bl.Value+"]"]
				return i, ok
			}
		}
	}
	return 0, false
}

// sexpr translates a string-valued expression to Lean SExpr syntax.
func (c *j_sexprCtx) sexpr(e ast.Expr) (string, error) {
	e = j_unparen(e)
	if i, ok := c.paramIndex(e); ok {
		if c.isInt[i] {
			return "", fmt.Errorf("integer parameter used as a string at %s", c.sc.fset.Position(e.Pos()))
		}
		return fmt.Sprintf("(.param %d)", i), nil
	}
	switch x := e.(type) {
	case *ast.BinaryExpr:
		if x.Op == token.ADD {
			a, err := c.sexpr(x.X)
			if err != nil {
				return "", err
			}
			b, err := c.sexpr(x.Y)
			if err != nil {
				return "", err
			}
			return fmt.Sprintf("(.cat %s %s)", a, b), nil
		}
	case *ast.CallExpr:
		if sel, ok := x.Fun.(*ast.SelectorExpr); ok {
			pkg, _ := sel.X.(*ast.Ident)
			if pkg != nil {
				switch pkg.Name + "." + sel.Sel.Name {
				case "strconv.Itoa":
					if i, ok := c.paramIndex(x.Args[0]); ok && c.isInt[i] {
						return fmt.Sprintf("(.itoa %d)", i), nil
					}
				case "strings.Title":
					a, err := c.sexpr(x.Args[0])
					if err != nil {
						return "", err
					}
					return fmt.Sprintf("(.title %s)", a), nil
				case "fmt.Sprintf":
					return c.sprintf(x)
				case "cpe.MustUnbind":
					// the CPE is recorded as the text it is unbound from
					return c.sexpr(x.Args[0])
				}
			}
		}
	}
	s, err := c.sc.str(e)
	if err != nil {
		return "", err
	}
	return "(.lit " + j_lb(s) + ")", nil
}

func (c *j_sexprCtx) sprintf(x *ast.CallExpr) (string, error) {
	format, err := c.sc.str(x.Args[0])
	if err != nil {
		return "", err
	}
	args := x.Args[1:]
	var parts []string
	lit := ""
	flush := func() {
		if lit != "" {
			parts = append(parts, "(.lit "+j_lb(lit)+")")
			lit = ""
		}
	}
	ai := 0
	for i := 0; i < len(format); i++ {
		if format[i] != '%' {
			lit += string(format[i])
			continue
		}
		i++
		if i >= len(format) {
			return "", fmt.Errorf("dangling %% in format %q", format)
		}
		switch format[i] {
		case '%':
			lit += "%"
		case 'd', 's', 'v':
			if ai >= len(args) {
				return "", fmt.Errorf("too few arguments for %q", format)
			}
			idx, ok := c.paramIndex(args[ai])
			if !ok {
				// a constant string argument
				s, err := c.sexpr(args[ai])
				if err != nil {
					return "", err
				}
				flush()
				parts = append(parts, s)
				ai++
				continue
			}
			flush()
			switch {
			case format[i] == 'd' && c.isInt[idx], format[i] == 'v' && c.isInt[idx]:
				parts = append(parts, fmt.Sprintf("(.itoa %d)", idx))
			case format[i] != 'd' && !c.isInt[idx]:
				parts = append(parts, fmt.Sprintf("(.param %d)", idx))
			default:
				return "", fmt.Errorf("verb %%%c does not fit parameter %d in %q", format[i], idx, format)
			}
			ai++
		default:
			return "", fmt.Errorf("unsupported verb %%%c in %q", format[i], format)
		}
	}
	flush()
	if ai != len(args) {
		return "", fmt.Errorf("unused arguments for %q", format)
	}
	if len(parts) == 0 {
		return "(.lit [])", nil
	}
	out := parts[len(parts)-1]
	for i := len(parts) - 2; i >= 0; i-- {
		out = fmt.Sprintf("(.cat %s %s)", parts[i], out)
	}
	return out, nil
}

var j_distFields = []struct{ goName, leanName string }{
	{"DID", "did"}, {"Name", "name"}, {"Version", "version"}, {"VersionCodeName", "versionCodeName"},
	{"VersionID", "versionID"}, {"Arch", "arch"}, {"CPE", "cpe"}, {"PrettyName", "prettyName"},
}

// distT renders a claircore.Distribution composite literal as a Lean DistT.
func (c *j_sexprCtx) distT(cl *ast.CompositeLit) (string, error) {
	known := map[string]bool{}
	for _, f := range j_distFields {
		known[f.goName] = true
	}
	for _, el := range cl.Elts {
		kv, ok := el.(*ast.KeyValueExpr)
		if !ok {
			return "", fmt.Errorf("positional Distribution literal")
		}
		id, ok := kv.Key.(*ast.Ident)
		if !ok || !known[id.Name] {
			return "", fmt.Errorf("unknown Distribution field in literal at %s", c.sc.fset.Position(kv.Pos()))
		}
	}
	var parts []string
	for _, f := range j_distFields {
		fv := j_fieldOf(cl, f.goName)
		if fv == nil {
			continue
		}
		s, err := c.sexpr(fv)
		if err != nil {
			return "", fmt.Errorf("field %s: %w", f.goName, err)
		}
		parts = append(parts, f.leanName+" := "+s)
	}
	return "{ " + strings.Join(parts, ", ") + " }", nil
}

// j_findDistLiteral finds the (single) &claircore.Distribution{…} literal in a
// function body.
func j_findDistLiteral(fd *ast.FuncDecl) (*ast.CompositeLit, error) {
	var found []*ast.CompositeLit
	ast.Inspect(fd.Body, func(n ast.Node) bool {
		cl, ok := n.(*ast.CompositeLit)
		if !ok {
			return true
		}
		if sel, ok := cl.Type.(*ast.SelectorExpr); ok && sel.Sel.Name == "Distribution" {
			found = append(found, cl)
		}
		return true
	})
	if len(found) != 1 {
		return nil, fmt.Errorf("%s: expected one Distribution literal, found %d", fd.Name.Name, len(found))
	}
	return found[0], nil
}

// ---- FExpr (Filter bodies) ----

type j_fexprCtx struct {
	sc  *j_scope
	rec string // name of the record parameter
}

// path renders record.A.B as "A.B" if e is a selector chain on the record.
func (c *j_fexprCtx) path(e ast.Expr) (string, bool) {
	var parts []string
	if ue, ok := j_unparen(e).(*ast.UnaryExpr); ok && ue.Op == token.AND {
		e = ue.X // &record.A.B: the same field, passed by pointer
	}
	for {
		switch x := j_unparen(e).(type) {
		case *ast.SelectorExpr:
			parts = append([]string{x.Sel.Name}, parts...)
			e = x.X
			continue
		case *ast.Ident:
			if x.Name == c.rec && len(parts) > 0 {
				return strings.Join(parts, "."), true
			}
		}
		return "", false
	}
}

func j_isNil(e ast.Expr) bool {
	id, ok := j_unparen(e).(*ast.Ident)
	return ok && id.Name == "nil"
}

func (c *j_fexprCtx) cond(e ast.Expr) (string, error) {
	switch x := j_unparen(e).(type) {
	case *ast.BinaryExpr:
		switch x.Op {
		case token.LAND, token.LOR:
			a, err := c.cond(x.X)
			if err != nil {
				return "", err
			}
			b, err := c.cond(x.Y)
			if err != nil {
				return "", err
			}
			op := ".and"
			if x.Op == token.LOR {
				op = ".or"
			}
			return fmt.Sprintf("(%s %s %s)", op, a, b), nil
		case token.EQL, token.NEQ:
			l, r := x.X, x.Y
			if _, ok := c.path(r); ok {
				l, r = r, l
			}
			p, ok := c.path(l)
			if !ok {
				return "", fmt.Errorf("comparison without a record field at %s", c.sc.fset.Position(x.Pos()))
			}
			var s string
			if j_isNil(r) {
				s = "(.nonNil " + j_lb(p) + ")"
				if x.Op == token.EQL {
					s = "(.not " + s + ")"
				}
				return s, nil
			}
			v, err := c.sc.str(r)
			if err != nil {
				return "", err
			}
			s = fmt.Sprintf("(.eq %s %s)", j_lb(p), j_lb(v))
			if x.Op == token.NEQ {
				s = "(.not " + s + ")"
			}
			return s, nil
		}
	case *ast.UnaryExpr:
		if x.Op == token.NOT {
			a, err := c.cond(x.X)
			if err != nil {
				return "", err
			}
			return "(.not " + a + ")", nil
		}
	case *ast.CallExpr:
		// contains(slice, record.X.Y)
		if id, ok := x.Fun.(*ast.Ident); ok && id.Name == "contains" && len(x.Args) == 2 {
			p, ok := c.path(x.Args[1])
			if !ok {
				return "", fmt.Errorf("contains() without a record field")
			}
			vs, err := c.sc.strList(x.Args[0])
			if err != nil {
				return "", err
			}
			return fmt.Sprintf("(.mem %s %s)", j_lb(p), j_lbList(vs)), nil
		}
	case *ast.Ident:
		if x.Name == "true" {
			return ".tt", nil
		}
		if x.Name == "false" {
			return ".ff", nil
		}
	}
	return "", fmt.Errorf("unsupported condition at %s", c.sc.fset.Position(e.Pos()))
}

// j_retBool recognises `return true|false`.
func j_retBool(s ast.Stmt) (bool, bool) {
	rs, ok := s.(*ast.ReturnStmt)
	if !ok || len(rs.Results) != 1 {
		return false, false
	}
	id, ok := j_unparen(rs.Results[0]).(*ast.Ident)
	if !ok {
		return false, false
	}
	switch id.Name {
	case "true":
		return true, true
	case "false":
		return false, true
	}
	return false, false
}

// stmts translates a statement list that returns a bool on every path.
func (c *j_fexprCtx) stmts(list []ast.Stmt) (string, error) {
	if len(list) == 0 {
		return "", fmt.Errorf("falls off the end of Filter")
	}
	switch s := list[0].(type) {
	case *ast.ReturnStmt:
		if len(s.Results) != 1 {
			return "", fmt.Errorf("unexpected return arity")
		}
		return c.cond(s.Results[0])
	case *ast.IfStmt:
		if s.Init != nil || s.Else != nil || len(s.Body.List) != 1 {
			return "", fmt.Errorf("unsupported if statement at %s", c.sc.fset.Position(s.Pos()))
		}
		v, ok := j_retBool(s.Body.List[0])
		if !ok {
			return "", fmt.Errorf("if body is not a constant return")
		}
		cnd, err := c.cond(s.Cond)
		if err != nil {
			return "", err
		}
		rest, err := c.stmts(list[1:])
		if err != nil {
			return "", err
		}
		if v {
			return fmt.Sprintf("(.or %s %s)", cnd, rest), nil
		}
		return fmt.Sprintf("(.and (.not %s) %s)", cnd, rest), nil
	case *ast.SwitchStmt:
		if s.Init != nil || s.Tag != nil {
			return "", fmt.Errorf("unsupported switch at %s", c.sc.fset.Position(s.Pos()))
		}
		// cases in order; default (or the statements after the switch) last
		type arm struct {
			cond string
			val  bool
		}
		var arms []arm
		def := ""
		for _, cs := range s.Body.List {
			cc := cs.(*ast.CaseClause)
			if len(cc.Body) != 1 {
				return "", fmt.Errorf("switch arm is not a single return")
			}
			v, ok := j_retBool(cc.Body[0])
			if !ok {
				return "", fmt.Errorf("switch arm is not a constant return")
			}
			if cc.List == nil {
				if v {
					def = ".tt"
				} else {
					def = ".ff"
				}
				continue
			}
			var cs []string
			for _, e := range cc.List {
				x, err := c.cond(e)
				if err != nil {
					return "", err
				}
				cs = append(cs, x)
			}
			cnd := cs[len(cs)-1]
			for i := len(cs) - 2; i >= 0; i-- {
				cnd = fmt.Sprintf("(.or %s %s)", cs[i], cnd)
			}
			arms = append(arms, arm{cnd, v})
		}
		if def == "" {
			rest, err := c.stmts(list[1:])
			if err != nil {
				return "", err
			}
			def = rest
		}
		out := def
		for i := len(arms) - 1; i >= 0; i-- {
			if arms[i].val {
				out = fmt.Sprintf("(.or %s %s)", arms[i].cond, out)
			} else {
				out = fmt.Sprintf("(.and (.not %s) %s)", arms[i].cond, out)
			}
		}
		return out, nil
	}
	return "", fmt.Errorf("unsupported statement in Filter at %s", c.sc.fset.Position(list[0].Pos()))
}

func (sc *j_scope) filterExpr(fd *ast.FuncDecl) (string, error) {
	if fd.Type.Params == nil || len(fd.Type.Params.List) != 1 || len(fd.Type.Params.List[0].Names) != 1 {
		return "", fmt.Errorf("%s: Filter has an unexpected signature", sc.dir)
	}
	c := &j_fexprCtx{sc: sc, rec: fd.Type.Params.List[0].Names[0].Name}
	s, err := c.stmts(fd.Body.List)
	if err != nil {
		return "", fmt.Errorf("%s Filter: %w", sc.dir, err)
	}
	return s, nil
}

// ---- regular expressions ----

// j_leanRe translates a Go regular expression (as regexp.MustCompile parses it)
// to the Lean Re type.  Unsupported operators are an error.
func j_leanRe(expr string) (string, error) {
	re, err := syntax.Parse(expr, syntax.Perl)
	if err != nil {
		return "", err
	}
	re = re.Simplify()
	return j_reToLean(re)
}

func j_reCat(parts []string) string {
	if len(parts) == 0 {
		return ".eps"
	}
	out := parts[len(parts)-1]
	for i := len(parts) - 2; i >= 0; i-- {
		out = fmt.Sprintf("(.cat %s %s)", parts[i], out)
	}
	return out
}

func j_reToLean(re *syntax.Regexp) (string, error) {
	switch re.Op {
	case syntax.OpNoMatch:
		return ".fail", nil
	case syntax.OpEmptyMatch:
		return ".eps", nil
	case syntax.OpLiteral:
		fold := re.Flags&syntax.FoldCase != 0
		var parts []string
		for _, r := range re.Rune {
			if r >= 0x80 {
				return "", fmt.Errorf("non-ASCII literal in regexp")
			}
			f := fold && unicode.IsLetter(r)
			c := r
			if f {
				c = unicode.ToLower(r)
			}
			parts = append(parts, fmt.Sprintf("(.lit %d %s)", c, j_leanBool(f)))
		}
		return j_reCat(parts), nil
	case syntax.OpCharClass:
		var rs []string
		for i := 0; i+1 < len(re.Rune); i += 2 {
			lo, hi := re.Rune[i], re.Rune[i+1]
			if lo >= 0x80 {
				continue // input is ASCII
			}
			if hi >= 0x80 {
				hi = 0xff
			}
			rs = append(rs, fmt.Sprintf("(%d, %d)", lo, hi))
		}
		return "(.cls [" + strings.Join(rs, ", ") + "])", nil
	case syntax.OpAnyCharNotNL:
		return ".anyNotNL", nil
	case syntax.OpAnyChar:
		return ".any", nil
	case syntax.OpBeginText:
		return ".beginText", nil
	case syntax.OpEndText:
		return ".endText", nil
	case syntax.OpCapture:
		return j_reToLean(re.Sub[0])
	case syntax.OpStar:
		a, err := j_reToLean(re.Sub[0])
		if err != nil {
			return "", err
		}
		return "(.star " + a + ")", nil
	case syntax.OpPlus:
		a, err := j_reToLean(re.Sub[0])
		if err != nil {
			return "", err
		}
		return fmt.Sprintf("(.cat %s (.star %s))", a, a), nil
	case syntax.OpQuest:
		a, err := j_reToLean(re.Sub[0])
		if err != nil {
			return "", err
		}
		return "(.alt " + a + " .eps)", nil
	case syntax.OpConcat:
		var parts []string
		for _, s := range re.Sub {
			a, err := j_reToLean(s)
			if err != nil {
				return "", err
			}
			parts = append(parts, a)
		}
		return j_reCat(parts), nil
	case syntax.OpAlternate:
		var parts []string
		for _, s := range re.Sub {
			a, err := j_reToLean(s)
			if err != nil {
				return "", err
			}
			parts = append(parts, a)
		}
		out := parts[len(parts)-1]
		for i := len(parts) - 2; i >= 0; i-- {
			out = fmt.Sprintf("(.alt %s %s)", parts[i], out)
		}
		return out, nil
	}
	return "", fmt.Errorf("unsupported regexp operator %v in %q", re.Op, re.String())
}

// mustCompileArg returns the pattern of a regexp.MustCompile(`…`) call.
func (sc *j_scope) mustCompileArg(e ast.Expr) (string, error) {
	ce, ok := j_unparen(e).(*ast.CallExpr)
	if !ok || len(ce.Args) != 1 {
		return "", fmt.Errorf("%s: not a regexp.MustCompile call", sc.dir)
	}
	sel, ok := ce.Fun.(*ast.SelectorExpr)
	if !ok || sel.Sel.Name != "MustCompile" {
		return "", fmt.Errorf("%s: not a regexp.MustCompile call", sc.dir)
	}
	return sc.str(ce.Args[0])
}
