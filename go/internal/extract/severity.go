package extract

import (
	"bufio"
	"fmt"
	"go/ast"
	"go/constant"
	"go/token"
	"os"
	"path/filepath"
	"strconv"
	"strings"
)

// Severity (property C14): every per-source `string -> claircore.Severity`
// switch of the feed parsers, the CVSS rating-band switches of updater/osv,
// the constant severity of the alpine parser, the Severity constant block of
// severity.go, AND the tables of docs/concepts/severity_mapping.md.  The
// theorems of Props/C14 compare the code tables with the documented ones.

type sevSource struct {
	name string // Lean identifier stem
	file string // where the function is written today (named in the doc comment of the generated table)
	fn   string
	dir  string // the package whose string literals are candidate inputs
}

var sevSources = []sevSource{
	{"Debian", "debian/severity.go", "normalizeSeverity", "debian"},
	{"Ubuntu", "ubuntu/updater.go", "normalizeSeverity", "ubuntu"},
	{"Oracle", "oracle/normalizeseverity.go", "NormalizeSeverity", "oracle"},
	{"Suse", "suse/normalizeseverity.go", "NormalizeSeverity", "suse"},
	{"Photon", "photon/normalizeseverity.go", "NormalizeSeverity", "photon"},
	{"Aws", "aws/normalizeseverity.go", "NormalizeSeverity", "aws"},
	{"Rhel", "rhel/internal/common/normalizeseverity.go", "NormalizeSeverity", "rhel/internal/common"},
}

// severityConsts reads the Severity constants of package claircore (any file):
// names in value order, which must be 0,1,2,….
func severityConsts(repo string) ([]string, map[string]int, error) {
	p, err := rxLoadPkg(repo, ".")
	if err != nil {
		return nil, nil, err
	}
	names, err := p.IotaSeq("Severity")
	if err != nil {
		return nil, nil, err
	}
	m := map[string]int{}
	for i, n := range names {
		m[n] = i
	}
	return names, m, nil
}

type sevTable struct {
	mode  string // exact | lower | fold | (anything else: a behaviour the model does not know)
	keys  []string
	vals  []int
	deflt int
}

// ---- evaluated tables (probe "severity") ----

// rxSevFresh are strings no source can know: they pin the default branch.
var rxSevFresh = []string{"rxq", "RXQ-7", "~rx probe~", "zzzz unknown severity"}

func rxASCIIUpper(s string) string {
	b := []byte(s)
	for i, c := range b {
		if c >= 'a' && c <= 'z' {
			b[i] = c - 32
		}
	}
	return string(b)
}

func rxASCIILower(s string) string {
	b := []byte(s)
	for i, c := range b {
		if c >= 'A' && c <= 'Z' {
			b[i] = c + 32
		}
	}
	return string(b)
}

func rxASCIISwap(s string) string {
	b := []byte(s)
	for i, c := range b {
		switch {
		case c >= 'A' && c <= 'Z':
			b[i] = c + 32
		case c >= 'a' && c <= 'z':
			b[i] = c - 32
		}
	}
	return string(b)
}

func rxASCIITitle(s string) string {
	b := []byte(rxASCIILower(s))
	if len(b) > 0 && b[0] >= 'a' && b[0] <= 'z' {
		b[0] -= 32
	}
	return string(b)
}

func rxHasLetter(s string) bool { return rxASCIIUpper(s) != rxASCIILower(s) }

// rxCaseVariants: spellings that differ from s in ASCII letter case only.
func rxCaseVariants(s string) []string {
	set := rxSet{}
	for _, v := range []string{rxASCIIUpper(s), rxASCIILower(s), rxASCIISwap(s), rxASCIITitle(s)} {
		if v != s {
			set.add(v)
		}
	}
	return set.sorted()
}

// rxReplaceFirstFold replaces the first ASCII letter c (either case) by with.
func rxReplaceFirstFold(s string, c byte, with string) (string, bool) {
	for i := 0; i < len(s); i++ {
		if s[i] == c || s[i] == c-32 {
			return s[:i] + with + s[i+1:], true
		}
	}
	return "", false
}

// rxLooseVariants: near misses of s (padding, one character more or less).
// An accepted one becomes a row of the table like any other accepted string.
func rxLooseVariants(s string) []string {
	out := []string{" " + s, s + " ", "\t" + s, s + "\n", s + "x", "x" + s}
	if len(s) > 1 {
		out = append(out, s[:len(s)-1], s[1:])
	}
	return out
}

// rxSevTables evaluates every normaliser on its candidate domain:
// string literals of its package ∪ the keys of the snapshot ∪ the keys of the
// documentation tables ∪ near misses and case variants of all those ∪ fresh probes.
func rxSevTables(repo string, docKeys map[string][]string) (map[string]*sevTable, error) {
	type plan struct {
		base []string // candidate keys
		all  []string // everything asked
	}
	plans := map[string]*plan{}
	in := map[string][]string{}
	words := rxSet{}
	for _, ks := range rxSnapSeverity {
		words.add(ks.keys...)
	}
	srcs := append([]sevSource{}, sevSources...)
	srcs = append(srcs, sevSource{"OsvDb", "updater/osv/osv.go", "severityFromDBString", "updater/osv"})
	for _, s := range srcs {
		p, err := rxLoadPkg(repo, s.dir)
		if err != nil {
			return nil, err
		}
		base := rxSet{}
		base.add(p.StringLits()...)
		base.add(rxSnapSeverity[s.name].keys...)
		base.add(docKeys[s.name]...)
		base.add(words.sorted()...)
		base.add("")
		delete(base, "*")
		for _, k := range base.sorted() {
			if len(k) > 64 || strings.ContainsAny(k, "\n%{") {
				delete(base, k) // format strings, queries, documentation: not severity words
			}
		}
		for _, k := range base.sorted() {
			for _, v := range rxLooseVariants(k) {
				if len(k) > 0 {
					base.add(v)
				}
			}
		}
		all := rxSet{}
		for _, k := range base.sorted() {
			all.add(k)
			all.add(rxCaseVariants(k)...)
			if v, ok := rxReplaceFirstFold(k, 'i', "\u0130"); ok { // İ: ToLower gives i, EqualFold does not fold it to i
				all.add(v)
			}
			if v, ok := rxReplaceFirstFold(k, 's', "\u017f"); ok { // ſ: folds to s, ToLower leaves it
				all.add(v)
			}
		}
		all.add(rxSevFresh...)
		plans[s.name] = &plan{base: base.sorted(), all: all.sorted()}
		in[s.name] = plans[s.name].all
	}
	var out map[string][]int
	if err := rxProbe(repo, "severity", map[string]any{"normalize": in}, &struct {
		Normalize *map[string][]int `json:"normalize"`
	}{&out}); err != nil {
		return nil, err
	}
	res := map[string]*sevTable{}
	for _, s := range srcs {
		pl := plans[s.name]
		got := out[s.name]
		if len(got) != len(pl.all) {
			return nil, fmt.Errorf("severity probe: %s: %d answers for %d questions", s.name, len(got), len(pl.all))
		}
		f := map[string]int{}
		for i, k := range pl.all {
			f[k] = got[i]
		}
		t, err := rxSevClassify(s.name, pl.base, f)
		if err != nil {
			return nil, fmt.Errorf("%s %s: %w", s.file, s.fn, err)
		}
		res[s.name] = t
	}
	return res, nil
}

// rxSevClassify turns the evaluated function into (mode, rows, default).
//
// default  the value of the fresh probes (they must agree).
// mode     exact: no case variant of an accepted key is accepted with the key's value (unless it is listed itself);
//
//	lower / fold: every ASCII case variant of every accepted key gives the key's value; the two differ on
//	U+0130 (strings.ToLower maps it to i) and U+017F (strings.EqualFold folds it to s); when no accepted key
//	has an i or an s they are the same function and the snapshot's name is kept.
//
// rows     the snapshot's keys in the snapshot's order with their evaluated values, then every other accepted
//
//	candidate (value ≠ default) that is not a case variant of a listed key under a case-insensitive mode, sorted.
func rxSevClassify(name string, base []string, f map[string]int) (*sevTable, error) {
	deflt := f[rxSevFresh[0]]
	for _, p := range rxSevFresh {
		if f[p] != deflt {
			return nil, fmt.Errorf("no single default value: %q gives %d, %q gives %d", rxSevFresh[0], deflt, p, f[p])
		}
	}
	snap := rxSnapSeverity[name]
	var accepted []string
	for _, k := range base {
		if f[k] != deflt {
			accepted = append(accepted, k)
		}
	}
	// case behaviour of the accepted keys
	allCI, allExact, anyLetter := true, true, false
	for _, k := range accepted {
		if !rxHasLetter(k) {
			continue
		}
		anyLetter = true
		for _, v := range rxCaseVariants(k) {
			if f[v] == f[k] {
				allExact = false
			} else {
				allCI = false
			}
		}
	}
	t := &sevTable{deflt: deflt}
	switch {
	case !anyLetter:
		t.mode = snap.mode
	case allExact:
		t.mode = "exact"
	case allCI:
		hasI, iAcc, iRej := false, true, true
		hasS, sAcc, sRej := false, true, true
		for _, k := range accepted {
			if v, ok := rxReplaceFirstFold(k, 'i', "\u0130"); ok {
				hasI = true
				if f[v] == f[k] {
					iRej = false
				} else {
					iAcc = false
				}
			}
			if v, ok := rxReplaceFirstFold(k, 's', "\u017f"); ok {
				hasS = true
				if f[v] == f[k] {
					sRej = false
				} else {
					sAcc = false
				}
			}
		}
		lowerLike := (!hasI || iAcc) && (!hasS || sRej)
		foldLike := (!hasI || iRej) && (!hasS || sAcc)
		switch {
		case lowerLike && foldLike:
			t.mode = snap.mode
			if t.mode != "lower" && t.mode != "fold" {
				t.mode = "lower"
			}
		case lowerLike:
			t.mode = "lower"
		case foldLike:
			t.mode = "fold"
		default:
			t.mode = "case-insensitive-other"
		}
	default:
		t.mode = "mixed-case-behaviour"
	}
	ci := t.mode == "lower" || t.mode == "fold" || t.mode == "case-insensitive-other"
	canon := func(k string) string {
		if ci {
			return rxASCIILower(k)
		}
		return k
	}
	listed := map[string]bool{}
	for _, k := range snap.keys {
		t.keys = append(t.keys, k)
		t.vals = append(t.vals, f[k])
		listed[canon(k)] = true
	}
	extra := rxSet{}
	for _, k := range accepted {
		if !listed[canon(k)] {
			extra.add(canon(k))
		}
	}
	for _, k := range extra.sorted() {
		v, ok := f[k]
		if !ok {
			// canonical spelling was not asked itself: take the value of a spelling that was
			for _, a := range accepted {
				if canon(a) == k {
					v = f[a]
					break
				}
			}
		}
		t.keys = append(t.keys, k)
		t.vals = append(t.vals, v)
	}
	return t, nil
}

type band struct {
	op    string
	bound int64 // in tenths
	sev   int
}

// rxCmpBand reads `v <op> const` (or `const <op> v`) -> (variable, op, tenths).
func rxCmpBand(sc *rxScope, e ast.Expr) (string, string, int64, error) {
	for {
		p, ok := e.(*ast.ParenExpr)
		if !ok {
			break
		}
		e = p.X
	}
	be, ok := e.(*ast.BinaryExpr)
	if !ok {
		return "", "", 0, fmt.Errorf("case is not a comparison")
	}
	x, y, op := be.X, be.Y, be.Op
	if _, isID := x.(*ast.Ident); !isID {
		// constant on the left: flip
		x, y = y, x
		switch op {
		case token.LSS:
			op = token.GTR
		case token.LEQ:
			op = token.GEQ
		case token.GTR:
			op = token.LSS
		case token.GEQ:
			op = token.LEQ
		}
	} else if _, okc := sc.Const(x); okc {
		if _, okc2 := sc.Const(y); !okc2 {
			x, y = y, x
			switch op {
			case token.LSS:
				op = token.GTR
			case token.LEQ:
				op = token.GEQ
			case token.GTR:
				op = token.LSS
			case token.GEQ:
				op = token.LEQ
			}
		}
	}
	id, ok := x.(*ast.Ident)
	if !ok {
		return "", "", 0, fmt.Errorf("comparison is not on a variable")
	}
	v, ok := sc.Const(y)
	if !ok {
		return "", "", 0, fmt.Errorf("bound is not a constant")
	}
	v10 := constant.BinaryOp(constant.ToFloat(v), token.MUL, constant.MakeInt64(10))
	iv := constant.ToInt(v10)
	if iv.Kind() != constant.Int {
		return "", "", 0, fmt.Errorf("bound %s is not a multiple of 0.1", v.ExactString())
	}
	n, _ := constant.Int64Val(iv)
	var ops string
	switch op {
	case token.EQL:
		ops = "=="
	case token.LSS:
		ops = "<"
	case token.LEQ:
		ops = "<="
	default:
		return "", "", 0, fmt.Errorf("unsupported comparison %s", op)
	}
	return id.Name, ops, n, nil
}

// rxBandValue: the severity a band body yields: `x = Sev`, `return Sev, nil`, `return Sev`.
func rxBandValue(sc *rxScope, body []ast.Stmt) (int, error) {
	if len(body) != 1 {
		return 0, fmt.Errorf("band body is not a single statement")
	}
	var e ast.Expr
	switch x := body[0].(type) {
	case *ast.AssignStmt:
		if len(x.Lhs) != 1 || len(x.Rhs) != 1 || x.Tok != token.ASSIGN {
			return 0, fmt.Errorf("band body is not `sev = …`")
		}
		if _, ok := x.Lhs[0].(*ast.Ident); !ok {
			return 0, fmt.Errorf("band body is not `sev = …`")
		}
		e = x.Rhs[0]
	case *ast.ReturnStmt:
		if len(x.Results) == 0 || len(x.Results) > 2 {
			return 0, fmt.Errorf("band body returns no severity")
		}
		if len(x.Results) == 2 {
			if id, ok := x.Results[1].(*ast.Ident); !ok || id.Name != "nil" {
				return 0, fmt.Errorf("band body returns an error")
			}
		}
		e = x.Results[0]
	default:
		return 0, fmt.Errorf("band body is neither an assignment nor a return")
	}
	v, ok := sc.Int(e)
	if !ok {
		return 0, fmt.Errorf("band value is not a severity constant")
	}
	return int(v), nil
}

func rxIsErrorReturn(body []ast.Stmt) bool {
	if len(body) != 1 {
		return false
	}
	r, ok := body[0].(*ast.ReturnStmt)
	if !ok || len(r.Results) == 0 {
		return false
	}
	last := r.Results[len(r.Results)-1]
	if id, ok := last.(*ast.Ident); ok && id.Name == "nil" {
		return false
	}
	return true
}

// rxBandsOf recognises one rating construct:
//   - a tagless switch whose cases compare one variable with constants and whose default returns an error;
//   - an if / else-if chain of such comparisons ending in an else that returns an error;
//   - a run of `if cmp { return Sev, nil }` statements followed by a return of an error.
func rxBandsOf(sc *rxScope, stmts []ast.Stmt, i int) ([]band, bool) {
	var out []band
	variable := ""
	add := func(cond ast.Expr, body []ast.Stmt) bool {
		v, op, n, err := rxCmpBand(sc, cond)
		if err != nil || (variable != "" && v != variable) {
			return false
		}
		variable = v
		s, err := rxBandValue(sc, body)
		if err != nil {
			return false
		}
		out = append(out, band{op, n, s})
		return true
	}
	switch st := stmts[i].(type) {
	case *ast.SwitchStmt:
		if st.Tag != nil || st.Init != nil {
			return nil, false
		}
		sawDefault := false
		for _, c := range st.Body.List {
			cc := c.(*ast.CaseClause)
			if cc.List == nil {
				if !rxIsErrorReturn(cc.Body) {
					return nil, false
				}
				sawDefault = true
				continue
			}
			if sawDefault || len(cc.List) != 1 || !add(cc.List[0], cc.Body) {
				return nil, false
			}
		}
		return out, sawDefault && len(out) >= 2
	case *ast.IfStmt:
		cur := st
		chain := false
		for {
			if cur.Init != nil || !add(cur.Cond, cur.Body.List) {
				return nil, false
			}
			if cur.Else == nil {
				break
			}
			chain = true
			if next, ok := cur.Else.(*ast.IfStmt); ok {
				cur = next
				continue
			}
			blk, ok := cur.Else.(*ast.BlockStmt)
			if !ok || !rxIsErrorReturn(blk.List) {
				return nil, false
			}
			return out, len(out) >= 2
		}
		if chain {
			return nil, false // a chain without an error else: an unmatched score would pass
		}
		// run of independent ifs that return
		j := i + 1
		for ; j < len(stmts); j++ {
			is, ok := stmts[j].(*ast.IfStmt)
			if !ok || is.Else != nil || is.Init != nil {
				break
			}
			if !add(is.Cond, is.Body.List) {
				return nil, false
			}
		}
		// every body of the run must have been a return for the order to mean first-match
		for k := i; k < j; k++ {
			is := stmts[k].(*ast.IfStmt)
			if _, ok := is.Body.List[0].(*ast.ReturnStmt); !ok {
				return nil, false
			}
		}
		if j >= len(stmts) || !rxIsErrorReturn(stmts[j:j+1]) {
			return nil, false
		}
		return out, len(out) >= 2
	}
	return nil, false
}

// bandSwitch reads the rating bands of a fromCVSSn function: the last rating
// construct of its body, or of the one package function it hands the score to.
func bandSwitch(p *rxPkg, fn string) ([]band, error) {
	fd := p.Func("", fn)
	if fd == nil {
		return nil, fmt.Errorf("function not found")
	}
	find := func(fd *ast.FuncDecl) []band {
		sc := p.ScopeOf(fd)
		var best []band
		var walk func(list []ast.Stmt)
		walk = func(list []ast.Stmt) {
			for i := range list {
				// the longest construct wins (a run of early returns also matches from its second statement on)
				if bs, ok := rxBandsOf(sc, list, i); ok && len(bs) >= len(best) {
					best = bs
				}
			}
		}
		walk(fd.Body.List)
		return best
	}
	if bs := find(fd); bs != nil {
		return bs, nil
	}
	// one level of helper extraction
	var found []band
	n := 0
	ast.Inspect(fd.Body, func(nd ast.Node) bool {
		if call, ok := nd.(*ast.CallExpr); ok {
			if callee := p.rxCallee(call); callee != nil && callee != fd {
				if bs := find(callee); bs != nil {
					found = bs
					n++
				}
			}
		}
		return true
	})
	if n == 1 {
		return found, nil
	}
	return nil, fmt.Errorf("no rating construct (tagless switch / if chain over one score variable with an error default) found")
}

// ---- the markdown ----

type docTable struct {
	title string
	rows  [][2]string
}

func parseSeverityDoc(repo string) (names []string, tables []docTable, err error) {
	fh, err := os.Open(filepath.Join(repo, "docs/concepts/severity_mapping.md"))
	if err != nil {
		return nil, nil, err
	}
	defer fh.Close()
	sc := bufio.NewScanner(fh)
	section := ""
	var cur *docTable
	inNames := false
	for sc.Scan() {
		line := strings.TrimSpace(sc.Text())
		switch {
		case strings.HasPrefix(line, "#"):
			section = strings.TrimSpace(strings.TrimLeft(line, "#"))
			cur = nil
			inNames = section == "Claircore Severity Strings"
		case inNames && strings.HasPrefix(line, "- "):
			names = append(names, strings.TrimSpace(line[2:]))
		case strings.HasPrefix(line, "|"):
			cells := strings.Split(strings.Trim(line, "|"), "|")
			if len(cells) != 2 {
				return nil, nil, fmt.Errorf("doc table row with %d cells: %q", len(cells), line)
			}
			a, b := strings.TrimSpace(cells[0]), strings.TrimSpace(cells[1])
			if cur == nil {
				// header row
				tables = append(tables, docTable{title: section})
				cur = &tables[len(tables)-1]
				if !strings.Contains(b, "Claircore Severity") {
					return nil, nil, fmt.Errorf("doc table %q: unexpected header %q", section, line)
				}
				continue
			}
			if a == "-" && b == "-" {
				continue
			}
			cur.rows = append(cur.rows, [2]string{a, b})
		default:
			if line != "" {
				cur = nil
			}
		}
	}
	return names, tables, sc.Err()
}

// tenths parses "3.9" -> 39.
func tenths(s string) (int64, error) {
	s = strings.TrimSpace(s)
	ip, fp, has := strings.Cut(s, ".")
	if !has {
		fp = "0"
	}
	if len(fp) != 1 {
		return 0, fmt.Errorf("score %q is not given to one decimal", s)
	}
	a, err := strconv.ParseInt(ip, 10, 32)
	if err != nil {
		return 0, err
	}
	b, err := strconv.ParseInt(fp, 10, 32)
	if err != nil {
		return 0, err
	}
	return a*10 + b, nil
}

func leanPairs(keys []string, vals []int) string {
	var b strings.Builder
	b.WriteString("[")
	for i := range keys {
		if i > 0 {
			b.WriteString(", ")
		}
		fmt.Fprintf(&b, "(%s, %d)", LeanString(keys[i]), vals[i])
	}
	b.WriteString("]")
	return b.String()
}

func init() {
	Register(Gen{Name: "Severity", Run: func(repo string) (string, error) {
		srcs := []string{"severity.go", "docs/concepts/severity_mapping.md", "alpine/parser.go", "updater/osv/osv.go", "updater/osv/cvss.go"}
		for _, s := range sevSources {
			srcs = append(srcs, s.file)
		}
		out := Header("Severity", srcs...)
		names, consts, err := severityConsts(repo)
		if err != nil {
			return "", err
		}
		out += "/-- claircore.Severity constants in iota order (severity.go). -/\n"
		out += "def sevNames : List String := " + LeanStrList(names) + "\n\n"
		// the documentation first: its keys are candidate inputs of the normalisers
		dnames, tables, err := parseSeverityDoc(repo)
		if err != nil {
			return "", err
		}
		docKeys := map[string][]string{}
		for title, src := range map[string]string{"AWS Mapping": "Aws", "Debian Mapping": "Debian", "Oracle Mapping": "Oracle", "RHEL Mapping": "Rhel",
			"SUSE Mapping": "Suse", "Ubuntu Mapping": "Ubuntu", "Photon Mapping": "Photon", "database_specific": "OsvDb"} {
			for _, t := range tables {
				if t.title == title {
					for _, r := range t.rows {
						docKeys[src] = append(docKeys[src], r[0])
					}
				}
			}
		}
		evaluated, err := rxSevTables(repo, docKeys)
		if err != nil {
			return "", err
		}
		for _, s := range sevSources {
			t := evaluated[s.name]
			out += fmt.Sprintf("/-- %s %s -/\n", s.file, s.fn)
			out += fmt.Sprintf("def code%sMode : String := %s\n", s.name, LeanString(t.mode))
			out += fmt.Sprintf("def code%s : List (String × Nat) := %s\n", s.name, leanPairs(t.keys, t.vals))
			out += fmt.Sprintf("def code%sDefault : Nat := %d\n\n", s.name, t.deflt)
		}
		// OSV database_specific severity
		t := evaluated["OsvDb"]
		out += "/-- updater/osv/osv.go severityFromDBString (strings.EqualFold cases) -/\n"
		out += fmt.Sprintf("def codeOsvDbMode : String := %s\n", LeanString(t.mode))
		out += fmt.Sprintf("def codeOsvDb : List (String × Nat) := %s\n", leanPairs(t.keys, t.vals))
		out += fmt.Sprintf("def codeOsvDbDefault : Nat := %d\n\n", t.deflt)
		// OSV initial severity (Insert: proto.NormalizedSeverity = claircore.Unknown) is covered by the correspondence run.
		// CVSS bands
		osvPkg, err := rxLoadPkg(repo, "updater/osv")
		if err != nil {
			return "", err
		}
		for _, b := range []struct{ lean, fn string }{{"codeOsvV3Bands", "fromCVSS3"}, {"codeOsvV2Bands", "fromCVSS2"}} {
			bs, err := bandSwitch(osvPkg, b.fn)
			if err != nil {
				return "", fmt.Errorf("updater/osv/cvss.go %s: %w", b.fn, err)
			}
			out += fmt.Sprintf("/-- updater/osv/cvss.go %s: the rating switch, bounds in tenths; anything else is an error -/\n", b.fn)
			out += fmt.Sprintf("def %s : List (String × Nat × Nat) := [", b.lean)
			for i, x := range bs {
				if i > 0 {
					out += ", "
				}
				out += fmt.Sprintf("(%s, %d, %d)", LeanString(x.op), x.bound, x.sev)
			}
			out += "]\n\n"
		}
		// alpine constant: evaluated (the parser is run on a small security database)
		var alp struct {
			Alpine []int `json:"alpine"`
		}
		if err := rxProbe(repo, "severity", map[string]any{"alpine": true}, &alp); err != nil {
			return "", err
		}
		if len(alp.Alpine) != 1 {
			return "", fmt.Errorf("alpine/parser.go parse: the vulnerabilities of one security database carry %d different severities %v, expected one constant", len(alp.Alpine), alp.Alpine)
		}
		_ = consts
		out += "/-- alpine/parser.go parse: the constant NormalizedSeverity of every vulnerability -/\n"
		out += fmt.Sprintf("def codeAlpineConst : Nat := %d\n\n", alp.Alpine[0])

		// the documentation
		out += "/-- docs/concepts/severity_mapping.md: the list under \"Claircore Severity Strings\" -/\n"
		out += "def docSevNames : List String := " + LeanStrList(dnames) + "\n\n"
		idx := func(s string) (int, error) {
			for i, n := range dnames {
				if n == s {
					return i, nil
				}
			}
			return 0, fmt.Errorf("doc: %q is not one of the listed severity strings", s)
		}
		want := map[string]string{"Alpine Mapping": "docAlpine", "AWS Mapping": "docAws", "Debian Mapping": "docDebian", "Oracle Mapping": "docOracle",
			"RHEL Mapping": "docRhel", "SUSE Mapping": "docSuse", "Ubuntu Mapping": "docUbuntu", "Photon Mapping": "docPhoton",
			"database_specific": "docOsvDb"}
		bands := map[string]string{"CVSSv3": "docOsvV3", "CVSSv2": "docOsvV2"}
		seen := map[string]bool{}
		for _, t := range tables {
			if ln, ok := want[t.title]; ok {
				var ks []string
				var vs []int
				for _, r := range t.rows {
					v, err := idx(r[1])
					if err != nil {
						return "", err
					}
					ks = append(ks, r[0])
					vs = append(vs, v)
				}
				out += fmt.Sprintf("/-- doc table %q (\"*\" = any other string) -/\n", t.title)
				out += fmt.Sprintf("def %s : List (String × Nat) := %s\n\n", ln, leanPairs(ks, vs))
				seen[ln] = true
			} else if ln, ok := bands[t.title]; ok {
				out += fmt.Sprintf("/-- doc table %q: (low, high) base score in tenths, severity -/\n", t.title)
				out += fmt.Sprintf("def %s : List (Nat × Nat × Nat) := [", ln)
				for i, r := range t.rows {
					lo, hi, has := strings.Cut(r[0], "-")
					if !has {
						hi = lo
					}
					l, err := tenths(lo)
					if err != nil {
						return "", err
					}
					h, err := tenths(hi)
					if err != nil {
						return "", err
					}
					v, err := idx(r[1])
					if err != nil {
						return "", err
					}
					if i > 0 {
						out += ", "
					}
					out += fmt.Sprintf("(%d, %d, %d)", l, h, v)
				}
				out += "]\n\n"
				seen[ln] = true
			} else {
				return "", fmt.Errorf("doc: unexpected table under heading %q", t.title)
			}
		}
		for _, ln := range want {
			if !seen[ln] {
				return "", fmt.Errorf("doc: table %s missing", ln)
			}
		}
		for _, ln := range bands {
			if !seen[ln] {
				return "", fmt.Errorf("doc: table %s missing", ln)
			}
		}
		return out + Footer("Severity"), nil
	}})
}

// SeverityDoc returns the tables of docs/concepts/severity_mapping.md keyed by
// section heading (rows as written, including a "*" row), for the C14 harness's
// direct check of the real normalize functions against the documentation.
func SeverityDoc(repo string) (names []string, tables map[string][][2]string, err error) {
	names, ts, err := parseSeverityDoc(repo)
	if err != nil {
		return nil, nil, err
	}
	tables = map[string][][2]string{}
	for _, t := range ts {
		tables[t.title] = t.rows
	}
	return names, tables, nil
}
