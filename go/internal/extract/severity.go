package extract

import (
	"bufio"
	"fmt"
	"go/ast"
	"go/constant"
	"go/token"
	"os"
	"path/filepath"
	"strconv"
	"strings"
)

// Severity (property C14): every per-source `string -> claircore.Severity`
// switch of the feed parsers, the CVSS rating-band switches of updater/osv,
// the constant severity of the alpine parser, the Severity constant block of
// severity.go, AND the tables of docs/concepts/severity_mapping.md.  The
// theorems of Props/C14 compare the code tables with the documented ones.

type sevSource struct {
	name string // Lean identifier stem
	file string
	fn   string
}

var sevSources = []sevSource{
	{"Debian", "debian/severity.go", "normalizeSeverity"},
	{"Ubuntu", "ubuntu/updater.go", "normalizeSeverity"},
	{"Oracle", "oracle/normalizeseverity.go", "NormalizeSeverity"},
	{"Suse", "suse/normalizeseverity.go", "NormalizeSeverity"},
	{"Photon", "photon/normalizeseverity.go", "NormalizeSeverity"},
	{"Aws", "aws/normalizeseverity.go", "NormalizeSeverity"},
	{"Rhel", "rhel/internal/common/normalizeseverity.go", "NormalizeSeverity"},
}

// severityConsts reads the iota block of severity.go: name -> value.
func severityConsts(repo string) ([]string, map[string]int, error) {
	_, f, err := ParseFile(repo, "severity.go")
	if err != nil {
		return nil, nil, err
	}
	for _, d := range f.Decls {
		gd, ok := d.(*ast.GenDecl)
		if !ok || gd.Tok != token.CONST {
			continue
		}
		var names []string
		isSev := false
		for i, s := range gd.Specs {
			vs := s.(*ast.ValueSpec)
			if i == 0 {
				id, ok := vs.Type.(*ast.Ident)
				if !ok || id.Name != "Severity" || len(vs.Values) != 1 {
					break
				}
				if v, ok := vs.Values[0].(*ast.Ident); !ok || v.Name != "iota" {
					break
				}
				isSev = true
			} else if vs.Type != nil || len(vs.Values) != 0 {
				return nil, nil, fmt.Errorf("severity.go: const block is not a plain iota sequence")
			}
			if len(vs.Names) != 1 {
				return nil, nil, fmt.Errorf("severity.go: const spec with several names")
			}
			names = append(names, vs.Names[0].Name)
		}
		if isSev {
			m := map[string]int{}
			for i, n := range names {
				m[n] = i
			}
			return names, m, nil
		}
	}
	return nil, nil, fmt.Errorf("severity.go: Severity iota block not found")
}

// sevSelector resolves `claircore.X` (or bare X inside package claircore).
func sevSelector(e ast.Expr, consts map[string]int) (int, error) {
	switch x := e.(type) {
	case *ast.SelectorExpr:
		if id, ok := x.X.(*ast.Ident); ok && id.Name == "claircore" {
			if v, ok := consts[x.Sel.Name]; ok {
				return v, nil
			}
		}
	case *ast.Ident:
		if v, ok := consts[x.Name]; ok {
			return v, nil
		}
	}
	return 0, fmt.Errorf("not a claircore severity constant")
}

func strExpr(f *ast.File, e ast.Expr) (string, error) {
	switch x := e.(type) {
	case *ast.BasicLit:
		if x.Kind == token.STRING {
			return strconv.Unquote(x.Value)
		}
	case *ast.Ident:
		return StringConst(f, x.Name)
	}
	return "", fmt.Errorf("case label is not a string literal or constant")
}

type sevTable struct {
	mode  string // exact | lower | fold
	rows  [][2]any
	keys  []string
	vals  []int
	deflt int
}

// switchTable reads `switch <tag> { case "a": return claircore.X ... default: return claircore.Y }`.
func switchTable(f *ast.File, fd *ast.FuncDecl, consts map[string]int) (*sevTable, error) {
	if fd == nil || fd.Body == nil || fd.Type.Params == nil || len(fd.Type.Params.List) != 1 || len(fd.Type.Params.List[0].Names) != 1 {
		return nil, fmt.Errorf("function not found or not unary")
	}
	param := fd.Type.Params.List[0].Names[0].Name
	var sw *ast.SwitchStmt
	swIdx := -1
	for i, st := range fd.Body.List {
		if s, ok := st.(*ast.SwitchStmt); ok {
			if sw != nil {
				return nil, fmt.Errorf("more than one switch")
			}
			sw, swIdx = s, i
		}
	}
	if sw == nil || sw.Init != nil {
		return nil, fmt.Errorf("no plain switch statement")
	}
	t := &sevTable{deflt: -1}
	switch tag := sw.Tag.(type) {
	case *ast.Ident:
		if tag.Name != param {
			return nil, fmt.Errorf("switch tag is not the parameter")
		}
		t.mode = "exact"
	case *ast.CallExpr:
		sel, ok := tag.Fun.(*ast.SelectorExpr)
		if !ok || len(tag.Args) != 1 {
			return nil, fmt.Errorf("unrecognised switch tag")
		}
		pk, _ := sel.X.(*ast.Ident)
		arg, _ := tag.Args[0].(*ast.Ident)
		if pk == nil || pk.Name != "strings" || sel.Sel.Name != "ToLower" || arg == nil || arg.Name != param {
			return nil, fmt.Errorf("unrecognised switch tag call")
		}
		t.mode = "lower"
	default:
		return nil, fmt.Errorf("unrecognised switch tag")
	}
	retOf := func(body []ast.Stmt) (int, bool, error) {
		if len(body) == 0 {
			return 0, false, nil
		}
		if len(body) != 1 {
			return 0, false, fmt.Errorf("case body is not a single return")
		}
		r, ok := body[0].(*ast.ReturnStmt)
		if !ok || len(r.Results) != 1 {
			return 0, false, fmt.Errorf("case body is not a single return")
		}
		v, err := sevSelector(r.Results[0], consts)
		return v, true, err
	}
	for _, c := range sw.Body.List {
		cc := c.(*ast.CaseClause)
		v, has, err := retOf(cc.Body)
		if err != nil {
			return nil, err
		}
		if cc.List == nil { // default
			if has {
				t.deflt = v
			}
			continue
		}
		if !has {
			return nil, fmt.Errorf("case without a return")
		}
		for _, e := range cc.List {
			k, err := strExpr(f, e)
			if err != nil {
				return nil, err
			}
			t.keys = append(t.keys, k)
			t.vals = append(t.vals, v)
		}
	}
	if t.deflt < 0 {
		// the return after the switch
		rest := fd.Body.List[swIdx+1:]
		if len(rest) != 1 {
			return nil, fmt.Errorf("no default return")
		}
		v, has, err := retOf(rest)
		if err != nil || !has {
			return nil, fmt.Errorf("no default return")
		}
		t.deflt = v
	} else if swIdx != len(fd.Body.List)-1 {
		return nil, fmt.Errorf("statements after the switch")
	}
	return t, nil
}

// foldTable reads severityFromDBString: `sev = D; switch { case strings.EqualFold(s, "x")[, ...]: sev = claircore.X } return sev`.
func foldTable(fd *ast.FuncDecl, consts map[string]int) (*sevTable, error) {
	if fd == nil || fd.Body == nil || len(fd.Body.List) != 3 {
		return nil, fmt.Errorf("unexpected shape (want: assignment, switch, return)")
	}
	param := fd.Type.Params.List[0].Names[0].Name
	asg := func(st ast.Stmt) (int, error) {
		a, ok := st.(*ast.AssignStmt)
		if !ok || a.Tok != token.ASSIGN || len(a.Lhs) != 1 || len(a.Rhs) != 1 {
			return 0, fmt.Errorf("not an assignment")
		}
		if id, ok := a.Lhs[0].(*ast.Ident); !ok || id.Name != "sev" {
			return 0, fmt.Errorf("assignment is not to sev")
		}
		return sevSelector(a.Rhs[0], consts)
	}
	t := &sevTable{mode: "fold"}
	var err error
	if t.deflt, err = asg(fd.Body.List[0]); err != nil {
		return nil, err
	}
	sw, ok := fd.Body.List[1].(*ast.SwitchStmt)
	if !ok || sw.Tag != nil || sw.Init != nil {
		return nil, fmt.Errorf("second statement is not a tagless switch")
	}
	if r, ok := fd.Body.List[2].(*ast.ReturnStmt); !ok || len(r.Results) != 1 {
		return nil, fmt.Errorf("third statement is not `return sev`")
	} else if id, ok := r.Results[0].(*ast.Ident); !ok || id.Name != "sev" {
		return nil, fmt.Errorf("third statement is not `return sev`")
	}
	for _, c := range sw.Body.List {
		cc := c.(*ast.CaseClause)
		if cc.List == nil {
			return nil, fmt.Errorf("unexpected default clause")
		}
		if len(cc.Body) != 1 {
			return nil, fmt.Errorf("case body is not one assignment")
		}
		v, err := asg(cc.Body[0])
		if err != nil {
			return nil, err
		}
		for _, e := range cc.List {
			call, ok := e.(*ast.CallExpr)
			if !ok || len(call.Args) != 2 {
				return nil, fmt.Errorf("case is not strings.EqualFold(s, lit)")
			}
			sel, ok := call.Fun.(*ast.SelectorExpr)
			if !ok || sel.Sel.Name != "EqualFold" {
				return nil, fmt.Errorf("case is not strings.EqualFold(s, lit)")
			}
			a0, _ := call.Args[0].(*ast.Ident)
			a1, _ := call.Args[1].(*ast.BasicLit)
			if a0 == nil || a0.Name != param || a1 == nil || a1.Kind != token.STRING {
				return nil, fmt.Errorf("case is not strings.EqualFold(s, lit)")
			}
			k, _ := strconv.Unquote(a1.Value)
			t.keys = append(t.keys, k)
			t.vals = append(t.vals, v)
		}
	}
	return t, nil
}

type band struct {
	op    string
	bound int64 // in tenths
	sev   int
}

// bandSwitch reads the last tagless switch on `score` of a fromCVSSn function.
func bandSwitch(fd *ast.FuncDecl, consts map[string]int) ([]band, error) {
	if fd == nil || fd.Body == nil {
		return nil, fmt.Errorf("function not found")
	}
	var sw *ast.SwitchStmt
	for _, st := range fd.Body.List {
		if s, ok := st.(*ast.SwitchStmt); ok && s.Tag == nil {
			sw = s
		}
	}
	if sw == nil {
		return nil, fmt.Errorf("no tagless switch")
	}
	var out []band
	sawDefault := false
	for _, c := range sw.Body.List {
		cc := c.(*ast.CaseClause)
		if cc.List == nil {
			// default must return an error
			if len(cc.Body) != 1 {
				return nil, fmt.Errorf("default is not a single return")
			}
			if _, ok := cc.Body[0].(*ast.ReturnStmt); !ok {
				return nil, fmt.Errorf("default is not a return")
			}
			sawDefault = true
			continue
		}
		if sawDefault {
			return nil, fmt.Errorf("case after default")
		}
		if len(cc.List) != 1 || len(cc.Body) != 1 {
			return nil, fmt.Errorf("unexpected case shape")
		}
		be, ok := cc.List[0].(*ast.BinaryExpr)
		if !ok {
			return nil, fmt.Errorf("case is not a comparison")
		}
		if id, ok := be.X.(*ast.Ident); !ok || id.Name != "score" {
			return nil, fmt.Errorf("comparison is not on score")
		}
		lit, ok := be.Y.(*ast.BasicLit)
		if !ok {
			return nil, fmt.Errorf("bound is not a literal")
		}
		v := constant.MakeFromLiteral(lit.Value, lit.Kind, 0)
		v10 := constant.BinaryOp(v, token.MUL, constant.MakeInt64(10))
		iv := constant.ToInt(v10)
		if iv.Kind() != constant.Int {
			return nil, fmt.Errorf("bound %s is not a multiple of 0.1", lit.Value)
		}
		n, _ := constant.Int64Val(iv)
		var op string
		switch be.Op {
		case token.EQL:
			op = "=="
		case token.LSS:
			op = "<"
		case token.LEQ:
			op = "<="
		default:
			return nil, fmt.Errorf("unsupported comparison %s", be.Op)
		}
		a, ok := cc.Body[0].(*ast.AssignStmt)
		if !ok || len(a.Lhs) != 1 || len(a.Rhs) != 1 {
			return nil, fmt.Errorf("case body is not `sev = ...`")
		}
		if id, ok := a.Lhs[0].(*ast.Ident); !ok || id.Name != "sev" {
			return nil, fmt.Errorf("case body is not `sev = ...`")
		}
		s, err := sevSelector(a.Rhs[0], consts)
		if err != nil {
			return nil, err
		}
		out = append(out, band{op, n, s})
	}
	if !sawDefault {
		return nil, fmt.Errorf("no error default")
	}
	return out, nil
}

// compositeSeverity finds `NormalizedSeverity: claircore.X` in a function.
func compositeSeverity(fd *ast.FuncDecl, consts map[string]int) (int, error) {
	found, val := 0, 0
	var ferr error
	if fd == nil {
		return 0, fmt.Errorf("function not found")
	}
	ast.Inspect(fd, func(n ast.Node) bool {
		kv, ok := n.(*ast.KeyValueExpr)
		if !ok {
			return true
		}
		if id, ok := kv.Key.(*ast.Ident); ok && id.Name == "NormalizedSeverity" {
			v, err := sevSelector(kv.Value, consts)
			if err != nil {
				ferr = err
			}
			found++
			val = v
		}
		return true
	})
	if ferr != nil || found != 1 {
		return 0, fmt.Errorf("expected exactly one constant NormalizedSeverity field")
	}
	return val, nil
}

// ---- the markdown ----

type docTable struct {
	title string
	rows  [][2]string
}

func parseSeverityDoc(repo string) (names []string, tables []docTable, err error) {
	fh, err := os.Open(filepath.Join(repo, "docs/concepts/severity_mapping.md"))
	if err != nil {
		return nil, nil, err
	}
	defer fh.Close()
	sc := bufio.NewScanner(fh)
	section := ""
	var cur *docTable
	inNames := false
	for sc.Scan() {
		line := strings.TrimSpace(sc.Text())
		switch {
		case strings.HasPrefix(line, "#"):
			section = strings.TrimSpace(strings.TrimLeft(line, "#"))
			cur = nil
			inNames = section == "Claircore Severity Strings"
		case inNames && strings.HasPrefix(line, "- "):
			names = append(names, strings.TrimSpace(line[2:]))
		case strings.HasPrefix(line, "|"):
			cells := strings.Split(strings.Trim(line, "|"), "|")
			if len(cells) != 2 {
				return nil, nil, fmt.Errorf("doc table row with %d cells: %q", len(cells), line)
			}
			a, b := strings.TrimSpace(cells[0]), strings.TrimSpace(cells[1])
			if cur == nil {
				// header row
				tables = append(tables, docTable{title: section})
				cur = &tables[len(tables)-1]
				if !strings.Contains(b, "Claircore Severity") {
					return nil, nil, fmt.Errorf("doc table %q: unexpected header %q", section, line)
				}
				continue
			}
			if a == "-" && b == "-" {
				continue
			}
			cur.rows = append(cur.rows, [2]string{a, b})
		default:
			if line != "" {
				cur = nil
			}
		}
	}
	return names, tables, sc.Err()
}

// tenths parses "3.9" -> 39.
func tenths(s string) (int64, error) {
	s = strings.TrimSpace(s)
	ip, fp, has := strings.Cut(s, ".")
	if !has {
		fp = "0"
	}
	if len(fp) != 1 {
		return 0, fmt.Errorf("score %q is not given to one decimal", s)
	}
	a, err := strconv.ParseInt(ip, 10, 32)
	if err != nil {
		return 0, err
	}
	b, err := strconv.ParseInt(fp, 10, 32)
	if err != nil {
		return 0, err
	}
	return a*10 + b, nil
}

func leanPairs(keys []string, vals []int) string {
	var b strings.Builder
	b.WriteString("[")
	for i := range keys {
		if i > 0 {
			b.WriteString(", ")
		}
		fmt.Fprintf(&b, "(%s, %d)", LeanString(keys[i]), vals[i])
	}
	b.WriteString("]")
	return b.String()
}

func init() {
	Register(Gen{Name: "Severity", Run: func(repo string) (string, error) {
		srcs := []string{"severity.go", "docs/concepts/severity_mapping.md", "alpine/parser.go", "updater/osv/osv.go", "updater/osv/cvss.go"}
		for _, s := range sevSources {
			srcs = append(srcs, s.file)
		}
		out := Header("Severity", srcs...)
		names, consts, err := severityConsts(repo)
		if err != nil {
			return "", err
		}
		out += "/-- claircore.Severity constants in iota order (severity.go). -/\n"
		out += "def sevNames : List String := " + LeanStrList(names) + "\n\n"
		for _, s := range sevSources {
			_, f, err := ParseFile(repo, s.file)
			if err != nil {
				return "", err
			}
			t, err := switchTable(f, FuncDecl(f, "", s.fn), consts)
			if err != nil {
				return "", fmt.Errorf("%s %s: %w", s.file, s.fn, err)
			}
			out += fmt.Sprintf("/-- %s %s -/\n", s.file, s.fn)
			out += fmt.Sprintf("def code%sMode : String := %s\n", s.name, LeanString(t.mode))
			out += fmt.Sprintf("def code%s : List (String × Nat) := %s\n", s.name, leanPairs(t.keys, t.vals))
			out += fmt.Sprintf("def code%sDefault : Nat := %d\n\n", s.name, t.deflt)
		}
		// OSV database_specific severity
		_, f, err := ParseFile(repo, "updater/osv/osv.go")
		if err != nil {
			return "", err
		}
		t, err := foldTable(FuncDecl(f, "", "severityFromDBString"), consts)
		if err != nil {
			return "", fmt.Errorf("updater/osv/osv.go severityFromDBString: %w", err)
		}
		out += "/-- updater/osv/osv.go severityFromDBString (strings.EqualFold cases) -/\n"
		out += fmt.Sprintf("def codeOsvDbMode : String := %s\n", LeanString(t.mode))
		out += fmt.Sprintf("def codeOsvDb : List (String × Nat) := %s\n", leanPairs(t.keys, t.vals))
		out += fmt.Sprintf("def codeOsvDbDefault : Nat := %d\n\n", t.deflt)
		// OSV initial severity (Insert: proto.NormalizedSeverity = claircore.Unknown) is covered by the correspondence run.
		// CVSS bands
		_, f, err = ParseFile(repo, "updater/osv/cvss.go")
		if err != nil {
			return "", err
		}
		for _, b := range []struct{ lean, fn string }{{"codeOsvV3Bands", "fromCVSS3"}, {"codeOsvV2Bands", "fromCVSS2"}} {
			bs, err := bandSwitch(FuncDecl(f, "", b.fn), consts)
			if err != nil {
				return "", fmt.Errorf("updater/osv/cvss.go %s: %w", b.fn, err)
			}
			out += fmt.Sprintf("/-- updater/osv/cvss.go %s: the rating switch, bounds in tenths; anything else is an error -/\n", b.fn)
			out += fmt.Sprintf("def %s : List (String × Nat × Nat) := [", b.lean)
			for i, x := range bs {
				if i > 0 {
					out += ", "
				}
				out += fmt.Sprintf("(%s, %d, %d)", LeanString(x.op), x.bound, x.sev)
			}
			out += "]\n\n"
		}
		// alpine constant
		_, f, err = ParseFile(repo, "alpine/parser.go")
		if err != nil {
			return "", err
		}
		av, err := compositeSeverity(FuncDecl(f, "updater", "parse"), consts)
		if err != nil {
			return "", fmt.Errorf("alpine/parser.go parse: %w", err)
		}
		out += "/-- alpine/parser.go parse: the constant NormalizedSeverity of every vulnerability -/\n"
		out += fmt.Sprintf("def codeAlpineConst : Nat := %d\n\n", av)

		// the documentation
		dnames, tables, err := parseSeverityDoc(repo)
		if err != nil {
			return "", err
		}
		out += "/-- docs/concepts/severity_mapping.md: the list under \"Claircore Severity Strings\" -/\n"
		out += "def docSevNames : List String := " + LeanStrList(dnames) + "\n\n"
		idx := func(s string) (int, error) {
			for i, n := range dnames {
				if n == s {
					return i, nil
				}
			}
			return 0, fmt.Errorf("doc: %q is not one of the listed severity strings", s)
		}
		want := map[string]string{"Alpine Mapping": "docAlpine", "AWS Mapping": "docAws", "Debian Mapping": "docDebian", "Oracle Mapping": "docOracle",
			"RHEL Mapping": "docRhel", "SUSE Mapping": "docSuse", "Ubuntu Mapping": "docUbuntu", "Photon Mapping": "docPhoton",
			"database_specific": "docOsvDb"}
		bands := map[string]string{"CVSSv3": "docOsvV3", "CVSSv2": "docOsvV2"}
		seen := map[string]bool{}
		for _, t := range tables {
			if ln, ok := want[t.title]; ok {
				var ks []string
				var vs []int
				for _, r := range t.rows {
					v, err := idx(r[1])
					if err != nil {
						return "", err
					}
					ks = append(ks, r[0])
					vs = append(vs, v)
				}
				out += fmt.Sprintf("/-- doc table %q (\"*\" = any other string) -/\n", t.title)
				out += fmt.Sprintf("def %s : List (String × Nat) := %s\n\n", ln, leanPairs(ks, vs))
				seen[ln] = true
			} else if ln, ok := bands[t.title]; ok {
				out += fmt.Sprintf("/-- doc table %q: (low, high) base score in tenths, severity -/\n", t.title)
				out += fmt.Sprintf("def %s : List (Nat × Nat × Nat) := [", ln)
				for i, r := range t.rows {
					lo, hi, has := strings.Cut(r[0], "-")
					if !has {
						hi = lo
					}
					l, err := tenths(lo)
					if err != nil {
						return "", err
					}
					h, err := tenths(hi)
					if err != nil {
						return "", err
					}
					v, err := idx(r[1])
					if err != nil {
						return "", err
					}
					if i > 0 {
						out += ", "
					}
					out += fmt.Sprintf("(%d, %d, %d)", l, h, v)
				}
				out += "]\n\n"
				seen[ln] = true
			} else {
				return "", fmt.Errorf("doc: unexpected table under heading %q", t.title)
			}
		}
		for _, ln := range want {
			if !seen[ln] {
				return "", fmt.Errorf("doc: table %s missing", ln)
			}
		}
		for _, ln := range bands {
			if !seen[ln] {
				return "", fmt.Errorf("doc: table %s missing", ln)
			}
		}
		return out + Footer("Severity"), nil
	}})
}

// SeverityDoc returns the tables of docs/concepts/severity_mapping.md keyed by
// section heading (rows as written, including a "*" row), for the C14 harness's
// direct check of the real normalize functions against the documentation.
func SeverityDoc(repo string) (names []string, tables map[string][][2]string, err error) {
	names, ts, err := parseSeverityDoc(repo)
	if err != nil {
		return nil, nil, err
	}
	tables = map[string][][2]string{}
	for _, t := range ts {
		tables[t.title] = t.rows
	}
	return names, tables, nil
}
