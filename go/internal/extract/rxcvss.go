package extract

// Evaluated facts of Gen/Cvss (design/EXTRACT.md, round 2).
//
// Everything but the rating bands of updater/osv is obtained by RUNNING the code
// (probe go/cmd/rxprobe/cvss):
//
//   - toolkit/types/cvss through its verif hooks (rx_verif.go, cvss_verif.go):
//     metric names, valid-value strings, the v2/v3 weight tables, the v4
//     macrovector score table on every key with digits 0..4, eqDepth, maxFrag,
//     and QualitativeScore on a stub vector for every candidate score (the bands
//     are then derived from the step function, see rxCvssBands);
//   - updater/osv fromCVSS3 / fromCVSS2: the weights live in a local array, so
//     they are observed by tracing.  The probe is built against a private copy of
//     the package's sources (go build -overlay; the repository is not touched) in
//     which every assignment `x[i] = …` of a statement list is followed by
//     `rxTraceStore(i, x[i])`; the added function reports float stores through
//     verifhook.Point.  The function is then called, for every (metric name,
//     value) of the candidate domain, on a vector repeating that one metric: the
//     answer is "rejected", "accepted without a store" or "accepted, stored w in
//     slot i".  This does not depend on how the table is written (switch, map,
//     slice scan, builder function, helper, named constants, another file) as
//     long as the weights are stored into an indexed container.

import (
	"context"
	"encoding/json"
	"fmt"
	"go/ast"
	"go/constant"
	"go/parser"
	"go/token"
	"math"
	"math/big"
	"os"
	"os/exec"
	"path/filepath"
	"sort"
	"strconv"
	"strings"
	"time"
)

// ---- store tracing ----

var rxConvTypes = map[string]bool{"int": true, "int8": true, "int16": true, "int32": true, "int64": true,
	"uint": true, "uint8": true, "uint16": true, "uint32": true, "uint64": true, "uintptr": true, "byte": true, "rune": true}

// rxPureExpr: evaluating e twice is the same as evaluating it once.
func rxPureExpr(e ast.Expr) bool {
	switch x := e.(type) {
	case *ast.Ident, *ast.BasicLit:
		return true
	case *ast.ParenExpr:
		return rxPureExpr(x.X)
	case *ast.SelectorExpr:
		return rxPureExpr(x.X)
	case *ast.IndexExpr:
		return rxPureExpr(x.X) && rxPureExpr(x.Index)
	case *ast.StarExpr:
		return rxPureExpr(x.X)
	case *ast.UnaryExpr:
		return x.Op != token.ARROW && rxPureExpr(x.X)
	case *ast.BinaryExpr:
		return rxPureExpr(x.X) && rxPureExpr(x.Y)
	case *ast.CallExpr:
		if id, ok := x.Fun.(*ast.Ident); ok && rxConvTypes[id.Name] && len(x.Args) == 1 {
			return rxPureExpr(x.Args[0])
		}
	}
	return false
}

const rxTraceFile = `//go:build verif

package %s

import (
	"reflect"
	"strconv"

	"github.com/quay/claircore/internal/verifhook"
)

// RxTraceStore reports a store of a float into an indexed container (added by
// the fact extractor of the verification framework to a private copy of the
// package; never part of the repository).
func rxTraceStore(i, v any) {
	rv := reflect.ValueOf(v)
	if !rv.IsValid() || (rv.Kind() != reflect.Float64 && rv.Kind() != reflect.Float32) {
		return
	}
	idx := "?"
	ri := reflect.ValueOf(i)
	switch {
	case !ri.IsValid():
	case ri.CanInt():
		idx = strconv.FormatInt(ri.Int(), 10)
	case ri.CanUint():
		idx = strconv.FormatUint(ri.Uint(), 10)
	case ri.Kind() == reflect.String:
		idx = strconv.Quote(ri.String())
	}
	verifhook.Point("rx.store", idx+"\x00"+strconv.FormatFloat(rv.Float(), 'g', -1, 64))
}
`

// rxTraceOverlay writes instrumented copies of the non-test files of real/dir
// into tmp and returns the overlay map (path in the repository -> copy) and the
// number of instrumented assignments.
func rxTraceOverlay(real, dir, tmp string) (map[string]string, int, error) {
	ents, err := os.ReadDir(filepath.Join(real, dir))
	if err != nil {
		return nil, 0, err
	}
	repl := map[string]string{}
	pkgName := ""
	total := 0
	for _, e := range ents {
		n := e.Name()
		if e.IsDir() || !strings.HasSuffix(n, ".go") || strings.HasSuffix(n, "_test.go") {
			continue
		}
		path := filepath.Join(real, dir, n)
		src, err := os.ReadFile(path)
		if err != nil {
			return nil, 0, err
		}
		fset := token.NewFileSet()
		f, err := parser.ParseFile(fset, path, src, parser.ParseComments)
		if err != nil || rxIgnoredFile(f) {
			continue // the compiler will say what is wrong with it
		}
		if strings.HasSuffix(n, "_verif.go") {
			continue
		}
		if pkgName == "" {
			pkgName = f.Name.Name
		}
		type ins struct {
			off  int
			text string
		}
		var inss []ins
		visit := func(list []ast.Stmt) {
			for _, st := range list {
				as, ok := st.(*ast.AssignStmt)
				if !ok || as.Tok == token.DEFINE {
					continue
				}
				text := ""
				for _, l := range as.Lhs {
					for {
						p, ok := l.(*ast.ParenExpr)
						if !ok {
							break
						}
						l = p.X
					}
					ix, ok := l.(*ast.IndexExpr)
					if !ok || !rxPureExpr(ix.X) || !rxPureExpr(ix.Index) {
						continue
					}
					at := func(p token.Pos) int { return fset.Position(p).Offset }
					text += "; rxTraceStore(" + string(src[at(ix.Index.Pos()):at(ix.Index.End())]) + ", " + string(src[at(ix.Pos()):at(ix.End())]) + ")"
				}
				if text != "" {
					inss = append(inss, ins{fset.Position(as.End()).Offset, text})
				}
			}
		}
		ast.Inspect(f, func(nd ast.Node) bool {
			switch x := nd.(type) {
			case *ast.BlockStmt:
				visit(x.List)
			case *ast.CaseClause:
				visit(x.Body)
			case *ast.CommClause:
				visit(x.Body)
			}
			return true
		})
		if len(inss) == 0 {
			continue
		}
		sort.Slice(inss, func(i, j int) bool { return inss[i].off > inss[j].off })
		out := append([]byte{}, src...)
		for _, in := range inss {
			out = append(out[:in.off], append([]byte(in.text), out[in.off:]...)...)
		}
		cp := filepath.Join(tmp, "ov_"+strings.ReplaceAll(dir, "/", "_")+"_"+n)
		if err := os.WriteFile(cp, out, 0o644); err != nil {
			return nil, 0, err
		}
		repl[path] = cp
		total += len(inss)
	}
	if pkgName == "" {
		return nil, 0, fmt.Errorf("%s: no Go files", dir)
	}
	tf := filepath.Join(tmp, "ov_"+strings.ReplaceAll(dir, "/", "_")+"_trace.go")
	if err := os.WriteFile(tf, []byte(fmt.Sprintf(rxTraceFile, pkgName)), 0o644); err != nil {
		return nil, 0, err
	}
	repl[filepath.Join(real, dir, "zz_rxtrace_verif.go")] = tf
	return repl, total, nil
}

// rxCvssPrepareProbe builds go/cmd/rxprobe/cvss against repo with the store-tracing
// overlay for updater/osv, and hands the binary to rxProbe by seeding the build
// cache of rxprobe.go (same key, same clean-up).
func rxCvssPrepareProbe(repo string) error {
	const name = "cvss"
	real, err := filepath.EvalSymlinks(repo)
	if err != nil {
		return err
	}
	if real, err = filepath.Abs(real); err != nil {
		return err
	}
	key := real + "\x00" + name
	rxProbeMu.Lock()
	b := rxProbeBuilds[key]
	if b == nil {
		b = &rxProbeBuild{}
		rxProbeBuilds[key] = b
	}
	rxProbeMu.Unlock()
	b.once.Do(func() {
		goDir, err := rxGoDir()
		if err != nil {
			b.err = err
			return
		}
		tmp, err := os.MkdirTemp("", "rxprobe-")
		if err != nil {
			b.err = err
			return
		}
		b.dir = tmp
		mod, err := os.ReadFile(filepath.Join(goDir, "go.mod"))
		if err != nil {
			b.err = err
			return
		}
		txt := strings.ReplaceAll(string(mod), "=> /repo", "=> "+real)
		if err := os.WriteFile(filepath.Join(tmp, "go.mod"), []byte(txt), 0o644); err != nil {
			b.err = err
			return
		}
		sums := rxSet{}
		for _, p := range []string{filepath.Join(goDir, "go.sum"), filepath.Join(real, "go.sum"), filepath.Join(real, "toolkit", "go.sum"), filepath.Join(real, "updater", "driver", "go.sum")} {
			if bs, err := os.ReadFile(p); err == nil {
				for _, l := range strings.Split(string(bs), "\n") {
					if strings.TrimSpace(l) != "" {
						sums.add(l)
					}
				}
			}
		}
		if err := os.WriteFile(filepath.Join(tmp, "go.sum"), []byte(strings.Join(sums.sorted(), "\n")+"\n"), 0o644); err != nil {
			b.err = err
			return
		}
		repl, n, err := rxTraceOverlay(real, "updater/osv", tmp)
		if err != nil {
			b.err = err
			return
		}
		if n == 0 {
			b.err = fmt.Errorf("updater/osv: no assignment to an indexed element found to trace (the CVSS weights are not kept in an indexed container)")
			return
		}
		ov, _ := json.Marshal(map[string]any{"Replace": repl})
		ovPath := filepath.Join(tmp, "overlay.json")
		if err := os.WriteFile(ovPath, ov, 0o644); err != nil {
			b.err = err
			return
		}
		bin := filepath.Join(tmp, "probe_"+name)
		ctx, cancel := context.WithTimeout(context.Background(), 240*time.Second)
		defer cancel()
		cmd := exec.CommandContext(ctx, "go", "build", "-tags", "verif", "-modfile="+filepath.Join(tmp, "go.mod"), "-overlay="+ovPath, "-o", bin, "./cmd/rxprobe/"+name)
		cmd.Dir = goDir
		cmd.Env = rxEnv()
		out, err := cmd.CombinedOutput()
		if err != nil {
			msg := strings.TrimSpace(string(out))
			if len(msg) > 1500 {
				msg = msg[:1500] + " …"
			}
			b.err = fmt.Errorf("probe %s does not build against the repository (a function it calls was removed, renamed or changed its signature?): %v: %s", name, err, msg)
			return
		}
		b.bin = bin
	})
	return b.err
}

// ---- the probe's answer ----

type rxCvssVersion struct {
	Names   []string   `json:"names"`
	Valid   []string   `json:"valid"`
	Weights [][]string `json:"weights"`
}

type rxCvssStore struct {
	I string `json:"i"`
	W string `json:"w"`
}

type rxCvssOsvHit struct {
	N   string        `json:"n"`
	V   string        `json:"v"`
	Err bool          `json:"err"`
	St  []rxCvssStore `json:"st"`
}

type rxCvssOsv struct {
	Names  []string       `json:"names"`
	Values []string       `json:"values"`
	Hits   []rxCvssOsvHit `json:"hits"`
}

type rxCvssOut struct {
	V2   rxCvssVersion `json:"v2"`
	V3   rxCvssVersion `json:"v3"`
	V4   rxCvssVersion `json:"v4"`
	Qual []string      `json:"qual"`
	Mv   []struct {
		K [6]int64 `json:"k"`
		S string   `json:"s"`
	} `json:"mv"`
	EqDepth [][]string           `json:"eqDepth"`
	MaxFrag [][][][]int64        `json:"maxFrag"`
	Osv     map[string]rxCvssOsv `json:"osv"`
}

var rxCvssFresh = []string{"Zq7", "rx~"}

// rxCvssCopies: how often the probed metric is repeated in the vector handed to
// fromCVSSn (the functions want 8 resp. 6 pieces).  The probe calls the function
// with n and with n+1 copies: a store belongs to the metric iff it happens once
// more in the second call; a store made once per call (e.g. a fix-up after the
// loop) says nothing about the metric and is left out.
const rxCvssCopies = 12

func rxFmtFloat(f float64) string { return strconv.FormatFloat(f, 'g', -1, 64) }

// rxCvssScorePoints: the scores QualitativeScore is asked about: every number
// written in the package, every hundredth of 0..10, a few outside, each with its
// two float64 neighbours.
func rxCvssScorePoints(repo string) ([]float64, error) {
	p, err := rxLoadPkg(repo, "toolkit/types/cvss")
	if err != nil {
		return nil, err
	}
	seen := map[float64]bool{}
	var out []float64
	add := func(x float64) {
		if math.IsNaN(x) || math.IsInf(x, 0) || math.Abs(x) > 1e6 {
			return
		}
		if x == 0 {
			x = 0 // -0
		}
		if !seen[x] {
			seen[x] = true
			out = append(out, x)
		}
	}
	for _, f := range p.files {
		ast.Inspect(f, func(n ast.Node) bool {
			if bl, ok := n.(*ast.BasicLit); ok && (bl.Kind == token.INT || bl.Kind == token.FLOAT) {
				if v := constant.MakeFromLiteral(bl.Value, bl.Kind, 0); v.Kind() != constant.Unknown {
					x, _ := constant.Float64Val(constant.ToFloat(v))
					add(x)
					add(-x)
				}
			}
			return true
		})
	}
	for k := -100; k <= 1100; k++ {
		x, _ := strconv.ParseFloat(fmt.Sprintf("%d.%02d", k/100, k%100), 64)
		if k < 0 {
			x, _ = strconv.ParseFloat(fmt.Sprintf("-%d.%02d", -k/100, -k%100), 64)
		}
		add(x)
	}
	add(100)
	add(1000)
	sort.Float64s(out)
	return out, nil
}

func rxCvssEval(repo string) (*rxCvssOut, []float64, error) {
	if err := rxCvssPrepareProbe(repo); err != nil {
		return nil, nil, err
	}
	pts, err := rxCvssScorePoints(repo)
	if err != nil {
		return nil, nil, err
	}
	var qual []string
	for _, b := range pts {
		qual = append(qual, rxFmtFloat(math.Nextafter(b, math.Inf(-1))), rxFmtFloat(b), rxFmtFloat(math.Nextafter(b, math.Inf(1))))
	}
	qual = append(qual, "NaN", "+Inf", "-Inf")
	// candidate metric names and values of the OSV functions
	p, err := rxLoadPkg(repo, "updater/osv")
	if err != nil {
		return nil, nil, err
	}
	usable := func(s string, max int) bool {
		return len(s) <= max && !strings.ContainsAny(s, "/:\n\r\x00")
	}
	osvIn := map[string]any{}
	for ver, snap := range rxSnapOsvCvss {
		names, values := rxSet{}, rxSet{}
		var known, knownV []string
		for _, m := range snap.metrics {
			known = append(known, m.name)
			knownV = append(knownV, m.values...)
		}
		known = append(known, snap.ignored...)
		for _, s := range p.StringLits() {
			if usable(s, 16) {
				names.add(s)
			}
			if usable(s, 3) {
				values.add(s)
			}
		}
		for _, k := range known {
			names.add(k)
			names.add(rxCaseVariants(k)...)
			names.add(rxLooseVariants(k)...)
		}
		for _, k := range knownV {
			values.add(k)
			values.add(rxCaseVariants(k)...)
			values.add(rxLooseVariants(k)...)
		}
		for c := 33; c < 127; c++ {
			if c != '/' && c != ':' {
				values.add(string(rune(c)))
			}
		}
		values.add("")
		names.add("", "Zq", "rxq7")
		values.add(rxCvssFresh...)
		for _, s := range names.sorted() {
			if !usable(s, 16) {
				delete(names, s)
			}
		}
		for _, s := range values.sorted() {
			if !usable(s, 16) {
				delete(values, s)
			}
		}
		osvIn[ver] = map[string]any{"names": names.sorted(), "values": values.sorted(), "copies": rxCvssCopies}
	}
	var out rxCvssOut
	if err := rxProbe(repo, "cvss", map[string]any{"qual": qual, "mvMax": 4, "osv": osvIn}, &out); err != nil {
		return nil, nil, err
	}
	if len(out.Qual) != len(qual) {
		return nil, nil, fmt.Errorf("cvss probe: %d answers for %d scores", len(out.Qual), len(qual))
	}
	return &out, pts, nil
}

// rxCvssScaled reads a float printed by the probe and scales it; the result must be an integer.
func rxCvssScaled(s string, scale int64) (n int64, nan bool, err error) {
	if s == "NaN" {
		return 0, true, nil
	}
	r, ok := new(big.Rat).SetString(s)
	if !ok {
		return 0, false, fmt.Errorf("cannot scale %s", s)
	}
	r.Mul(r, big.NewRat(scale, 1))
	if !r.IsInt() || !r.Num().IsInt64() {
		return 0, false, fmt.Errorf("%s * %d is not an integer", s, scale)
	}
	return r.Num().Int64(), false, nil
}

func rxCvssOptRows(name string, t [][]string, scale int64) ([]string, error) {
	var rows []string
	for _, r := range t {
		var cells []string
		for _, c := range r {
			n, nan, err := rxCvssScaled(c, scale)
			if err != nil {
				return nil, fmt.Errorf("%s: %w", name, err)
			}
			if nan {
				cells = append(cells, "none")
			} else {
				cells = append(cells, "some "+cvLeanInt(n))
			}
		}
		rows = append(rows, "["+strings.Join(cells, ", ")+"]")
	}
	return rows, nil
}

// rxCvssBands turns the evaluated step function score -> Qualitative into the
// first-match list Gen/Cvss prints: first an `==` case for every point whose
// value differs from both neighbours, then, by ascending bound, a `<` (or `<=`
// when the bound itself still has the lower value) case for every point where
// the value changes, and the value above the last bound as default.  A switch
// written in any other order, as an if chain, with >= tests from the top or as a
// table scan gives the same list; a moved bound or `<` turned `<=` does not.
func rxCvssBands(pts []float64, answers []string, value func(string) (int, error)) (cases []string, deflt string, notes []string, err error) {
	g := func(i, side int) string { return answers[3*i+1+side] } // side -1, 0, +1
	nan, pinf, ninf := answers[3*len(pts)], answers[3*len(pts)+1], answers[3*len(pts)+2]
	tenths := func(b float64) (string, error) {
		n, _, err := rxCvssScaled(rxFmtFloat(b), 10)
		if err != nil {
			return "", fmt.Errorf("QualitativeScore changes its answer at %s, which a table of tenths cannot express", rxFmtFloat(b))
		}
		return cvLeanInt(n), nil
	}
	val := func(s string) (string, error) {
		v, err := value(s)
		if err != nil {
			return "", err
		}
		return strconv.Itoa(v), nil
	}
	for i := range pts {
		if i > 0 && g(i-1, 1) != g(i, -1) {
			return nil, "", nil, fmt.Errorf("QualitativeScore changes its answer between %s and %s, at a point that is no candidate", rxFmtFloat(pts[i-1]), rxFmtFloat(pts[i]))
		}
	}
	for i, b := range pts {
		if g(i, 0) != g(i, -1) && g(i, 0) != g(i, 1) {
			t, err := tenths(b)
			if err != nil {
				return nil, "", nil, err
			}
			v, err := val(g(i, 0))
			if err != nil {
				return nil, "", nil, err
			}
			cases = append(cases, fmt.Sprintf("(0, %s, %s)", t, v))
		}
	}
	for i, b := range pts {
		if g(i, -1) == g(i, 1) {
			continue
		}
		t, err := tenths(b)
		if err != nil {
			return nil, "", nil, err
		}
		v, err := val(g(i, -1))
		if err != nil {
			return nil, "", nil, err
		}
		op := 1
		if g(i, 0) == g(i, -1) {
			op = 2
		}
		cases = append(cases, fmt.Sprintf("(%d, %s, %s)", op, t, v))
	}
	top := g(len(pts)-1, 1)
	v, err := val(top)
	if err != nil {
		return nil, "", nil, err
	}
	deflt = "some " + v
	if pinf != top {
		notes = append(notes, fmt.Sprintf("QualitativeScore(+Inf) = %s, above the last candidate %s", pinf, top))
	}
	if nan != top {
		notes = append(notes, fmt.Sprintf("QualitativeScore(NaN) = %s, default %s", nan, top))
	}
	if ninf != g(0, -1) {
		notes = append(notes, fmt.Sprintf("QualitativeScore(-Inf) = %s, below the first candidate %s", ninf, g(0, -1)))
	}
	return cases, deflt, notes, nil
}

// rxCvssOsvTables renders the evaluated metric tables of fromCVSS3 / fromCVSS2.
func rxCvssOsvTables(fn, ver string, o rxCvssOsv) (weights, ignored string, notes []string, err error) {
	snap := rxSnapOsvCvss[ver]
	type key struct{ n, v string }
	hits := map[key]rxCvssOsvHit{}
	anyStore := false
	for _, h := range o.Hits {
		hits[key{h.N, h.V}] = h
		if len(h.St) > 0 {
			anyStore = true
		}
	}
	if !anyStore {
		return "", "", nil, fmt.Errorf("%s: no store of a weight observed for any (metric, value) of the candidate domain: the weights are not kept in an indexed container, or the function rejects every metric", fn)
	}
	isIgnored := func(n string) bool {
		for _, f := range rxCvssFresh {
			h, ok := hits[key{n, f}]
			if !ok || h.Err || len(h.St) > 0 {
				return false
			}
		}
		return true
	}
	type entry struct {
		v    string
		slot int64
		w    int64
	}
	weighted := map[string][]entry{}
	for _, n := range o.Names {
		if isIgnored(n) {
			continue
		}
		order := []string{}
		listed := map[string]bool{}
		for _, m := range snap.metrics {
			if m.name == n {
				for _, v := range m.values {
					if !listed[v] {
						listed[v] = true
						order = append(order, v)
					}
				}
			}
		}
		rest := []string{}
		for _, v := range o.Values {
			if !listed[v] {
				rest = append(rest, v)
			}
		}
		sort.Strings(rest)
		for _, v := range append(order, rest...) {
			h, ok := hits[key{n, v}]
			if !ok {
				continue
			}
			if len(h.St) == 0 {
				notes = append(notes, fmt.Sprintf("%s: %q:%q is accepted without an observable weight store (other values of %q are rejected)", fn, n, v, n))
				continue
			}
			if h.Err {
				notes = append(notes, fmt.Sprintf("%s: %q:%q stores a weight but the function reports an error", fn, n, v))
			}
			var distinct []rxCvssStore
			for _, s := range h.St {
				dup := false
				for _, d := range distinct {
					if d == s {
						dup = true
					}
				}
				if !dup {
					distinct = append(distinct, s)
				}
			}
			if len(distinct) > 1 {
				notes = append(notes, fmt.Sprintf("%s: %q:%q performs %d different stores", fn, n, v, len(distinct)))
			}
			for _, s := range distinct {
				slot, perr := strconv.ParseInt(s.I, 10, 64)
				if perr != nil || slot < 0 {
					notes = append(notes, fmt.Sprintf("%s: %q:%q stores its weight under the index %s", fn, n, v, s.I))
					continue
				}
				w, nan, werr := rxCvssScaled(s.W, 1000)
				if werr != nil || nan {
					return "", "", nil, fmt.Errorf("%s: weight of %s:%s: %s is not a multiple of 0.001", fn, n, v, s.W)
				}
				weighted[n] = append(weighted[n], entry{v, slot, w})
			}
		}
	}
	var rows []string
	emit := func(n string) {
		es := weighted[n]
		for len(es) > 0 {
			slot := es[0].slot
			var vals []string
			var rest []entry
			for _, e := range es {
				if e.slot == slot {
					vals = append(vals, fmt.Sprintf("(%s, %s)", cvLeanBytes(e.v), cvLeanInt(e.w)))
				} else {
					rest = append(rest, e)
				}
			}
			rows = append(rows, fmt.Sprintf("(%s, %d, [%s])", cvLeanBytes(n), slot, strings.Join(vals, ", ")))
			if len(rest) > 0 {
				notes = append(notes, fmt.Sprintf("%s: the values of %q are stored in more than one slot", fn, n))
			}
			es = rest
		}
	}
	done := map[string]bool{}
	for _, m := range snap.metrics {
		if !done[m.name] {
			done[m.name] = true
			emit(m.name)
		}
	}
	var others []string
	for n := range weighted {
		if !done[n] {
			others = append(others, n)
		}
	}
	sort.Strings(others)
	for _, n := range others {
		emit(n)
	}
	var ign []string
	done = map[string]bool{}
	for _, n := range snap.ignored {
		if !done[n] && isIgnored(n) {
			done[n] = true
			ign = append(ign, n)
		}
	}
	others = nil
	for _, n := range o.Names {
		if !done[n] && isIgnored(n) {
			done[n] = true
			others = append(others, n)
		}
	}
	sort.Strings(others)
	ign = append(ign, others...)
	return "[\n  " + strings.Join(rows, ",\n  ") + "]", cvLeanBytesList(ign), notes, nil
}

func rxCvssNotes(notes []string) string {
	out := ""
	for _, n := range notes {
		out += "-- rx: " + strings.ReplaceAll(n, "\n", " ") + "\n"
	}
	return out
}
