package extract

// C04 generator Gen/JoinState: the state the updater factories keep between
// runs and every operation the packages perform on it.
//
//   - debian, ubuntu, alpine, suse: the package-level sync.Map tables, with
//     every (function, method) that touches them ("escape" = the variable is
//     used other than as the receiver of a method call);
//   - debian.Factory.findReleases: the per-release loop only `continue`s (no
//     return inside it), calls mkDist once, as its last statement;
//     updater.Parse skips an advisory whose release getDist does not know;
//   - alpine.Factory.UpdaterSet: the fields it assigns, and that every such
//     assignment comes after the walk (after the last for statement).

import (
	"fmt"
	"go/ast"
	"go/token"
	"sort"
	"strings"
)

func init() {
	Register(Gen{Name: "JoinState", Run: genJoinState})
}

// j_syncMaps: package-level `var x sync.Map`.
func j_syncMaps(sc *j_scope) []string {
	var out []string
	for _, f := range sc.files {
		for _, d := range f.Decls {
			gd, ok := d.(*ast.GenDecl)
			if !ok || gd.Tok != token.VAR {
				continue
			}
			for _, s := range gd.Specs {
				vs := s.(*ast.ValueSpec)
				se, ok := vs.Type.(*ast.SelectorExpr)
				if !ok {
					continue
				}
				if x, ok := se.X.(*ast.Ident); ok && x.Name == "sync" && se.Sel.Name == "Map" {
					for _, n := range vs.Names {
						out = append(out, n.Name)
					}
				}
			}
		}
	}
	sort.Strings(out)
	return out
}

// j_tableOps lists (function, method) for every use of the variable.
func j_tableOps(sc *j_scope, name string) [][2]string {
	seen := map[[2]string]bool{}
	var keys []string
	for k := range sc.funcs {
		keys = append(keys, k)
	}
	sort.Strings(keys)
	for _, k := range keys {
		fd := sc.funcs[k]
		if fd.Body == nil {
			continue
		}
		asRecv := map[*ast.Ident]bool{}
		ast.Inspect(fd.Body, func(n ast.Node) bool {
			if se, ok := n.(*ast.SelectorExpr); ok {
				if id, ok := se.X.(*ast.Ident); ok && id.Name == name {
					asRecv[id] = true
					seen[[2]string{k, se.Sel.Name}] = true
				}
			}
			return true
		})
		ast.Inspect(fd.Body, func(n ast.Node) bool {
			if id, ok := n.(*ast.Ident); ok && id.Name == name && !asRecv[id] {
				seen[[2]string{k, "escape"}] = true
			}
			return true
		})
	}
	var out [][2]string
	for p := range seen {
		out = append(out, p)
	}
	sort.Slice(out, func(i, j int) bool {
		if out[i][0] != out[j][0] {
			return out[i][0] < out[j][0]
		}
		return out[i][1] < out[j][1]
	})
	return out
}

func j_countCalls(n ast.Node, fn string) int {
	c := 0
	ast.Inspect(n, func(x ast.Node) bool {
		if ce, ok := x.(*ast.CallExpr); ok {
			if id, ok := ce.Fun.(*ast.Ident); ok && id.Name == fn {
				c++
			}
		}
		return true
	})
	return c
}

func j_countReturns(n ast.Node) int {
	c := 0
	ast.Inspect(n, func(x ast.Node) bool {
		switch x.(type) {
		case *ast.FuncLit:
			return false
		case *ast.ReturnStmt:
			c++
		}
		return true
	})
	return c
}

func genJoinState(repo string) (string, error) {
	out := j_joinHeader("JoinState", "debian/releases.go", "debian/updater.go", "debian/parser.go", "ubuntu/updaterset.go", "alpine/release.go", "alpine/updater.go", "suse/factory.go", "updater/osv/osv.go")
	for _, pkg := range []string{"debian", "ubuntu", "alpine", "suse"} {
		sc, err := j_loadScope(repo, pkg, false)
		if err != nil {
			return "", err
		}
		tables := j_syncMaps(sc)
		if len(tables) != 1 {
			return "", fmt.Errorf("%s: expected one package-level sync.Map, found %v", pkg, tables)
		}
		out += "namespace " + pkg + "\n"
		out += "def table : Bytes := " + j_lb(tables[0]) + "\n"
		out += "/-- every (function, method) that touches `" + tables[0] + "` -/\ndef tableOps : List (Bytes × Bytes) := ["
		for i, p := range j_tableOps(sc, tables[0]) {
			if i > 0 {
				out += ", "
			}
			out += "(" + j_lb(p[0]) + ", " + j_lb(p[1]) + ")"
		}
		out += "]\n"
		switch pkg {
		case "debian":
			fd, err := sc.fn("Factory.findReleases")
			if err != nil {
				return "", err
			}
			var loop *ast.RangeStmt
			for _, st := range fd.Body.List {
				if ls, ok := st.(*ast.LabeledStmt); ok {
					if rs, ok := ls.Stmt.(*ast.RangeStmt); ok {
						loop = rs
					}
				}
			}
			if loop == nil || len(loop.Body.List) == 0 {
				return "", fmt.Errorf("debian: findReleases: labelled range loop over the listing not found")
			}
			last := loop.Body.List[len(loop.Body.List)-1]
			lastIsMk := false
			if es, ok := last.(*ast.ExprStmt); ok {
				if ce, ok := es.X.(*ast.CallExpr); ok {
					if id, ok := ce.Fun.(*ast.Ident); ok && id.Name == "mkDist" {
						lastIsMk = true
					}
				}
			}
			out += fmt.Sprintf("/-- findReleases, the per-release loop: return statements inside it -/\ndef loopReturns : Nat := %d\n", j_countReturns(loop.Body))
			out += fmt.Sprintf("def loopMkDistCalls : Nat := %d\n", j_countCalls(loop.Body, "mkDist"))
			out += "def loopEndsWithMkDist : Bool := " + j_leanBool(lastIsMk) + "\n"
			out += fmt.Sprintf("/-- mkDist calls in findReleases outside the loop -/\ndef otherMkDistCalls : Nat := %d\n", j_countCalls(fd.Body, "mkDist")-j_countCalls(loop.Body, "mkDist"))
			// Parse: d, err := getDist(release); if err != nil { continue }
			pd, err := sc.fn("updater.Parse")
			if err != nil {
				return "", err
			}
			skips := false
			ast.Inspect(pd.Body, func(n ast.Node) bool {
				bs, ok := n.(*ast.BlockStmt)
				if !ok {
					return true
				}
				for i := 0; i+1 < len(bs.List); i++ {
					as, ok := bs.List[i].(*ast.AssignStmt)
					if !ok || len(as.Rhs) != 1 || j_countCalls(as.Rhs[0], "getDist") != 1 {
						continue
					}
					is, ok := bs.List[i+1].(*ast.IfStmt)
					if !ok || len(is.Body.List) == 0 {
						continue
					}
					be, ok := is.Cond.(*ast.BinaryExpr)
					if !ok || be.Op != token.NEQ || !j_isNil(be.Y) {
						continue
					}
					if br, ok := is.Body.List[len(is.Body.List)-1].(*ast.BranchStmt); ok && br.Tok == token.CONTINUE && j_countReturns(is.Body) == 0 {
						skips = true
					}
				}
				return true
			})
			out += "/-- Parse: `d, err := getDist(release); if err != nil { continue }` -/\ndef parseSkipsUnknown : Bool := " + j_leanBool(skips) + "\n"
			out += fmt.Sprintf("def parseGetDistCalls : Nat := %d\n", j_countCalls(pd.Body, "getDist"))
		case "alpine":
			fd, err := sc.fn("Factory.UpdaterSet")
			if err != nil {
				return "", err
			}
			recv := ""
			if fd.Recv != nil && len(fd.Recv.List) == 1 && len(fd.Recv.List[0].Names) == 1 {
				recv = fd.Recv.List[0].Names[0].Name
			}
			var firstFor, lastFor token.Pos
			for _, st := range fd.Body.List {
				switch s := st.(type) {
				case *ast.ForStmt, *ast.RangeStmt:
					lastFor = s.End()
					if firstFor == 0 {
						firstFor = s.Pos()
					}
				case *ast.LabeledStmt:
					switch s.Stmt.(type) {
					case *ast.ForStmt, *ast.RangeStmt:
						lastFor = s.End()
						if firstFor == 0 {
							firstFor = s.Pos()
						}
					}
				}
			}
			var fields []string
			after := true
			ast.Inspect(fd.Body, func(n ast.Node) bool {
				as, ok := n.(*ast.AssignStmt)
				if !ok {
					return true
				}
				for _, l := range as.Lhs {
					if se, ok := l.(*ast.SelectorExpr); ok {
						if id, ok := se.X.(*ast.Ident); ok && id.Name == recv {
							fields = append(fields, se.Sel.Name)
							if as.Pos() < lastFor {
								after = false
							}
						}
					}
				}
				return true
			})
			sort.Strings(fields)
			out += "/-- fields of the Factory assigned in UpdaterSet -/\ndef stateWrites : List Bytes := " + j_lbList(fields) + "\n"
			out += "def stateWritesAfterWalk : Bool := " + j_leanBool(after && lastFor != 0) + "\n"
			// every `default:` arm of a switch on res.StatusCode inside the walk's
			// loops assigns `incomplete = true`
			marks, arms := 0, 0
			ast.Inspect(fd.Body, func(n ast.Node) bool {
				sw, ok := n.(*ast.SwitchStmt)
				if !ok || sw.Pos() > lastFor || sw.Pos() < firstFor {
					return true
				}
				se, ok := sw.Tag.(*ast.SelectorExpr)
				if !ok || se.Sel.Name != "StatusCode" {
					return true
				}
				for _, c := range sw.Body.List {
					cc := c.(*ast.CaseClause)
					if cc.List != nil {
						continue
					}
					arms++
					for _, st := range cc.Body {
						if as, ok := st.(*ast.AssignStmt); ok && len(as.Lhs) == 1 && len(as.Rhs) == 1 {
							l, lok := as.Lhs[0].(*ast.Ident)
							r, rok := as.Rhs[0].(*ast.Ident)
							if lok && rok && l.Name == "incomplete" && r.Name == "true" {
								marks++
							}
						}
					}
				}
				return true
			})
			// `if incomplete { return … }` between the walk and the state writes
			guard := false
			var firstWrite token.Pos
			ast.Inspect(fd.Body, func(n ast.Node) bool {
				if as, ok := n.(*ast.AssignStmt); ok {
					for _, l := range as.Lhs {
						if se, ok := l.(*ast.SelectorExpr); ok {
							if id, ok := se.X.(*ast.Ident); ok && id.Name == recv && (firstWrite == 0 || as.Pos() < firstWrite) {
								firstWrite = as.Pos()
							}
						}
					}
				}
				return true
			})
			for _, st := range fd.Body.List {
				is, ok := st.(*ast.IfStmt)
				if !ok || is.Pos() < lastFor || is.Pos() > firstWrite {
					continue
				}
				if id, ok := is.Cond.(*ast.Ident); ok && id.Name == "incomplete" && len(is.Body.List) == 1 {
					if _, ok := is.Body.List[0].(*ast.ReturnStmt); ok {
						guard = true
					}
				}
			}
			out += "/-- the walk has status switches with a default arm, and each of them sets `incomplete` -/\ndef unexpectedStatusMarksIncomplete : Bool := " + j_leanBool(arms >= 2 && marks == arms) + "\n"
			out += "def incompleteReturnsBeforeStateWrites : Bool := " + j_leanBool(guard) + "\n"
		}
		out += "end " + pkg + "\n\n"
	}
	// --- updater/osv: Factory.UpdaterSet and its validator
	{
		sc, err := j_loadScope(repo, "updater/osv", false)
		if err != nil {
			return "", err
		}
		fd, err := sc.fn("Factory.UpdaterSet")
		if err != nil {
			return "", err
		}
		recv := ""
		if fd.Recv != nil && len(fd.Recv.List) == 1 && len(fd.Recv.List[0].Names) == 1 {
			recv = fd.Recv.List[0].Names[0].Name
		}
		isRecvField := func(e ast.Expr, field string) bool {
			se, ok := e.(*ast.SelectorExpr)
			if !ok || se.Sel.Name != field {
				return false
			}
			id, ok := se.X.(*ast.Ident)
			return ok && id.Name == recv
		}
		notModCur, etagGuarded := false, false
		etagWrites, curWrites := 0, 0
		ast.Inspect(fd.Body, func(n ast.Node) bool {
			switch x := n.(type) {
			case *ast.AssignStmt:
				for _, l := range x.Lhs {
					if isRecvField(l, "etag") {
						etagWrites++
					}
					if isRecvField(l, "cur") {
						curWrites++
					}
				}
			case *ast.CaseClause:
				for _, e := range x.List {
					if se, ok := e.(*ast.SelectorExpr); ok && se.Sel.Name == "StatusNotModified" {
						if len(x.Body) == 1 {
							if as, ok := x.Body[0].(*ast.AssignStmt); ok && len(as.Lhs) == 1 && len(as.Rhs) == 1 {
								if id, ok := as.Lhs[0].(*ast.Ident); ok && id.Name == "s" && isRecvField(as.Rhs[0], "cur") {
									notModCur = true
								}
							}
						}
					}
				}
			case *ast.IfStmt:
				be, ok := x.Cond.(*ast.BinaryExpr)
				if !ok || be.Op != token.EQL || !j_isNil(be.Y) {
					return true
				}
				if id, ok := be.X.(*ast.Ident); !ok || id.Name != "err" {
					return true
				}
				e, c := false, false
				for _, st := range x.Body.List {
					if as, ok := st.(*ast.AssignStmt); ok && len(as.Lhs) == 1 && len(as.Rhs) == 1 {
						if isRecvField(as.Lhs[0], "etag") {
							e = true
						}
						if id, ok := as.Rhs[0].(*ast.Ident); ok && id.Name == "s" && isRecvField(as.Lhs[0], "cur") {
							c = true
						}
					}
				}
				if e && c {
					etagGuarded = true
				}
			}
			return true
		})
		out += "namespace osv\n"
		out += "/-- `case http.StatusNotModified: s = f.cur` -/\ndef notModifiedHandsOutCur : Bool := " + j_leanBool(notModCur) + "\n"
		out += "/-- etag and cur are assigned once each, together, under `if err == nil` -/\ndef etagStoredWithCompleteSet : Bool := " + j_leanBool(etagGuarded && etagWrites == 1 && curWrites == 1) + "\n"
		out += "end osv\n\n"
	}
	out += "end ClairModel.Gen.JoinState\n"
	return strings.ReplaceAll(out, "\t", " "), nil
}
