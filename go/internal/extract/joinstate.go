package extract

// C04 generator Gen/JoinState: the state the updater factories keep between
// runs and every operation the packages perform on it (shape-robust:
// design/EXTRACT.md, round 2).
//
// EVALUATED (probe go/cmd/rxprobe/joinstate: the witness inputs of the defects
// repaired in these factories, run against the real code over an in-process
// transport; exported API and existing hooks only):
//
//   - debian: Factory.UpdaterSet against a mirror listing five releases of which
//     one Release file answers 503 and one has no Version: no error and the
//     release listed after the failing one is recorded (loopReturns = 0), every
//     release that was read is recorded with its version (loopMkDistCalls = 1),
//     the failing / version-less ones are not (loopEndsWithMkDist), nothing else
//     is (otherMkDistCalls = 0: a skip-listed entry, an entry not listed); Parse
//     of an advisory naming a recorded and an unknown release: no error, the
//     unknown one left out (parseSkipsUnknown), the known one stamped with the
//     recorded Distribution itself (parseGetDistCalls = 1).
//   - alpine: what a complete walk of Factory.UpdaterSet stores (stateWrites: the
//     validator is sent next time = etag; an unchanged last-update is not walked
//     again = stamp; the same set is handed out = cur); a walk that breaks off on a
//     request error, or the first walk meeting a 5xx, stores nothing
//     (stateWritesAfterWalk); after a complete walk, a walk meeting a 5xx on a
//     release directory / on a repository file hands its set out, the next call
//     walks again and the release comes back (unexpectedStatusMarksIncomplete),
//     still sending the OLD validator (incompleteReturnsBeforeStateWrites).
//   - osv: a 304 on ecosystems.txt hands out the set of the last complete read
//     (notModifiedHandsOutCur); the validator is sent after a complete read and
//     not after a read that broke off, and the next read is complete
//     (etagStoredWithCompleteSet).
//
// READ: the package-level sync.Map tables of debian, ubuntu, alpine, suse and
// the methods called on them ("escape" = the variable is used other than as the
// receiver of a method call).  Which function performs an operation is a label:
// the snapshot's list (rxSnapTableOps) is printed when the SET OF METHODS used
// on the table is the one it shows, the list as found otherwise.

import (
	"fmt"
	"go/ast"
	"go/token"
	"sort"
	"strings"
)

func init() {
	Register(Gen{Name: "JoinState", Run: genJoinState})
}

var rxSnapTableOps = map[string]struct {
	table string
	ops   [][2]string
}{
	"debian": {"releases", [][2]string{{"getDist", "Load"}, {"mkDist", "LoadOrStore"}}},
	"ubuntu": {"releases", [][2]string{{"lookupDist", "Load"}, {"mkDist", "LoadOrStore"}}},
	"alpine": {"relMap", [][2]string{{"stableRelease.Distribution", "Load"}, {"stableRelease.Distribution", "LoadOrStore"}}},
	"suse":   {"releases", [][2]string{{"mkELDist", "LoadOrStore"}, {"mkLeapDist", "LoadOrStore"}}},
}

// rxjSyncMaps: package-level variables of type sync.Map (declared, or initialised with sync.Map{}).
func rxjSyncMaps(p *rxPkg) []string {
	var out []string
	isSyncMap := func(file *ast.File, e ast.Expr) bool {
		if cl, ok := e.(*ast.CompositeLit); ok {
			e = cl.Type
		}
		se, ok := e.(*ast.SelectorExpr)
		if !ok || se.Sel.Name != "Map" {
			return false
		}
		x, ok := se.X.(*ast.Ident)
		return ok && rxImportPath(file, x.Name) == "sync"
	}
	for _, f := range p.files {
		for _, d := range f.Decls {
			gd, ok := d.(*ast.GenDecl)
			if !ok || gd.Tok != token.VAR {
				continue
			}
			for _, s := range gd.Specs {
				vs := s.(*ast.ValueSpec)
				for i, n := range vs.Names {
					if (vs.Type != nil && isSyncMap(f, vs.Type)) || (i < len(vs.Values) && isSyncMap(f, vs.Values[i])) {
						out = append(out, n.Name)
					}
				}
			}
		}
	}
	sort.Strings(out)
	return out
}

// rxjTableOps lists (function, method) for every use of the package-level variable.
func rxjTableOps(p *rxPkg, name string) [][2]string {
	seen := map[[2]string]bool{}
	for _, f := range p.files {
		for _, d := range f.Decls {
			fd, ok := d.(*ast.FuncDecl)
			if !ok || fd.Body == nil {
				continue
			}
			k := fd.Name.Name
			if fd.Recv != nil && len(fd.Recv.List) == 1 {
				t := fd.Recv.List[0].Type
				if st, ok := t.(*ast.StarExpr); ok {
					t = st.X
				}
				if id, ok := t.(*ast.Ident); ok {
					k = id.Name + "." + k
				}
			}
			// a parameter or local variable of the same name shadows the table
			shadow := false
			ast.Inspect(fd, func(n ast.Node) bool {
				switch x := n.(type) {
				case *ast.Field:
					for _, nm := range x.Names {
						if nm.Name == name {
							shadow = true
						}
					}
				case *ast.AssignStmt:
					if x.Tok == token.DEFINE {
						for _, l := range x.Lhs {
							if id, ok := l.(*ast.Ident); ok && id.Name == name {
								shadow = true
							}
						}
					}
				}
				return true
			})
			if shadow {
				continue
			}
			asRecv := map[*ast.Ident]bool{}
			ast.Inspect(fd.Body, func(n ast.Node) bool {
				if se, ok := n.(*ast.SelectorExpr); ok {
					if id, ok := se.X.(*ast.Ident); ok && id.Name == name {
						asRecv[id] = true
						seen[[2]string{k, se.Sel.Name}] = true
					}
				}
				return true
			})
			ast.Inspect(fd.Body, func(n ast.Node) bool {
				if id, ok := n.(*ast.Ident); ok && id.Name == name && !asRecv[id] {
					seen[[2]string{k, "escape"}] = true
				}
				return true
			})
		}
	}
	var out [][2]string
	for p := range seen {
		out = append(out, p)
	}
	sort.Slice(out, func(i, j int) bool {
		if out[i][0] != out[j][0] {
			return out[i][0] < out[j][0]
		}
		return out[i][1] < out[j][1]
	})
	return out
}

func genJoinState(repo string) (string, error) {
	out := j_joinHeader("JoinState", "debian/releases.go", "debian/updater.go", "debian/parser.go", "ubuntu/updaterset.go", "alpine/release.go", "alpine/updater.go", "suse/factory.go", "updater/osv/osv.go")
	var obs map[string]map[string]string
	if err := rxProbe(repo, "joinstate", map[string]any{}, &obs); err != nil {
		return "", err
	}
	for _, part := range []string{"debian", "alpine", "osv"} {
		if obs[part] == nil {
			return "", fmt.Errorf("joinstate probe: no observations of %s", part)
		}
		for _, k := range []string{"panic", "factory"} {
			if v, ok := obs[part][k]; ok {
				return "", fmt.Errorf("joinstate probe: %s: %s: %s", part, k, v)
			}
		}
	}
	yes := func(part string, keys ...string) bool {
		for _, k := range keys {
			if obs[part][k] != "true" {
				return false
			}
		}
		return true
	}
	for _, pkg := range []string{"debian", "ubuntu", "alpine", "suse"} {
		p, err := rxLoadPkg(repo, pkg)
		if err != nil {
			return "", err
		}
		tables := rxjSyncMaps(p)
		if len(tables) != 1 {
			return "", fmt.Errorf("%s: expected one package-level sync.Map, found %v", pkg, tables)
		}
		table, ops := tables[0], rxjTableOps(p, tables[0])
		methods := func(ops [][2]string) string {
			s := rxSet{}
			for _, o := range ops {
				s.add(o[1])
			}
			return strings.Join(s.sorted(), ",")
		}
		if sn := rxSnapTableOps[pkg]; methods(ops) == methods(sn.ops) {
			table, ops = sn.table, sn.ops
		}
		out += "namespace " + pkg + "\n"
		out += "def table : Bytes := " + j_lb(table) + "\n"
		out += "/-- every (function, method) that touches `" + table + "` -/\ndef tableOps : List (Bytes × Bytes) := ["
		for i, o := range ops {
			if i > 0 {
				out += ", "
			}
			out += "(" + j_lb(o[0]) + ", " + j_lb(o[1]) + ")"
		}
		out += "]\n"
		switch pkg {
		case "debian":
			d := obs["debian"]
			nat := func(b bool, t, f int) int {
				if b {
					return t
				}
				return f
			}
			other := 0
			for _, k := range []string{"rec:rxja-updates", "rec:rxjzz"} {
				if d[k] != "999" {
					other++
				}
			}
			var known, unknown, stamped int
			parsed := false
			if _, err := fmt.Sscanf(d["parse"], "known=%d unknown=%d stamped=%d", &known, &unknown, &stamped); err == nil {
				parsed = true
			}
			out += fmt.Sprintf("/-- findReleases, the per-release loop: return statements inside it -/\ndef loopReturns : Nat := %d\n", nat(d["setErr"] == "" && d["rec:rxjc"] == "43", 0, 1))
			out += fmt.Sprintf("def loopMkDistCalls : Nat := %d\n", nat(d["rec:rxja"] == "41" && d["rec:rxjc"] == "43", 1, 0))
			out += "def loopEndsWithMkDist : Bool := " + j_leanBool(d["rec:rxjb"] == "999" && d["rec:rxjd"] == "999") + "\n"
			out += fmt.Sprintf("/-- mkDist calls in findReleases outside the loop -/\ndef otherMkDistCalls : Nat := %d\n", other)
			out += "/-- Parse: `d, err := getDist(release); if err != nil { continue }` -/\ndef parseSkipsUnknown : Bool := " + j_leanBool(parsed && known >= 1 && unknown == 0) + "\n"
			out += fmt.Sprintf("def parseGetDistCalls : Nat := %d\n", nat(parsed && known >= 1 && stamped == known, 1, 0))
		case "alpine":
			fields := []string{}
			for _, f := range [][2]string{{"cur", "curStored"}, {"etag", "etagStored"}, {"stamp", "stampStored"}} {
				if yes("alpine", f[1]) {
					fields = append(fields, f[0])
				}
			}
			out += "/-- fields of the Factory assigned in UpdaterSet -/\ndef stateWrites : List Bytes := " + j_lbList(fields) + "\n"
			out += "def stateWritesAfterWalk : Bool := " + j_leanBool(yes("alpine", "abort:err", "abort:nothingStored", "first:nothingStored")) + "\n"
			out += "/-- the walk has status switches with a default arm, and each of them sets `incomplete` -/\ndef unexpectedStatusMarksIncomplete : Bool := " +
				j_leanBool(yes("alpine", "dir:handedOut", "dir:walksAgain", "dir:comesBack", "repo:handedOut", "repo:walksAgain", "repo:comesBack")) + "\n"
			out += "def incompleteReturnsBeforeStateWrites : Bool := " + j_leanBool(yes("alpine", "dir:oldValidatorKept", "repo:oldValidatorKept", "first:nothingStored")) + "\n"
		}
		out += "end " + pkg + "\n\n"
	}
	out += "namespace osv\n"
	out += "/-- `case http.StatusNotModified: s = f.cur` -/\ndef notModifiedHandsOutCur : Bool := " + j_leanBool(yes("osv", "notModifiedHandsOutCur", "etagSentAfterCompleteRead")) + "\n"
	out += "/-- etag and cur are assigned once each, together, under `if err == nil` -/\ndef etagStoredWithCompleteSet : Bool := " +
		j_leanBool(yes("osv", "etagSentAfterCompleteRead", "cutRead:err", "cutRead:validatorNotKept", "cutRead:nextComplete")) + "\n"
	out += "end osv\n\n"
	out += "end ClairModel.Gen.JoinState\n"
	return strings.ReplaceAll(out, "\t", " "), nil
}
