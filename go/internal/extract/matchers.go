package extract

import (
	"fmt"
	"go/ast"
	"go/token"
	"os"
	"path/filepath"
	"strconv"
	"strings"
)

// Matchers: table-like facts of every built-in matcher (C03, C04): the name,
// the Query() constraint list, whether it is a VersionFilter and whether that
// filter is authoritative, and — of the Vulnerable body — the string literals
// it compares against / parses (sentinels, the "unfixed" bound, the query keys)
// and the comparison operators it applies to comparator results, in source order.
func init() {
	Register(Gen{Name: "Matchers", Run: func(repo string) (string, error) {
		type mt struct{ id, file, recv string }
		ms := []mt{
			{"alpine", "alpine/matcher.go", "Matcher"},
			{"aws", "aws/matcher.go", "Matcher"},
			{"debian", "debian/matcher.go", "Matcher"},
			{"ubuntu", "ubuntu/matcher.go", "Matcher"},
			{"oracle", "oracle/matcher.go", "Matcher"},
			{"photon", "photon/matcher.go", "Matcher"},
			{"suse", "suse/matcher.go", "Matcher"},
			{"rhel", "rhel/matcher.go", "Matcher"},
			{"rhcc", "rhel/rhcc/matcher.go", "matcher"},
			{"python", "python/matcher.go", "Matcher"},
			{"java", "java/matcher.go", "Matcher"},
			{"ruby", "ruby/matcher.go", "Matcher"},
			{"gobin", "gobin/matcher.go", "Matcher"},
			{"nodejs", "nodejs/matcher.go", "Matcher"},
		}
		var srcs []string
		for _, m := range ms {
			srcs = append(srcs, m.file)
		}
		out := Header("Matchers", srcs...)
		out += "structure Info where\n  id : String\n  name : String\n  query : List String\n  versionFilter : Bool\n  authoritative : Bool\n  vulnLits : List String\n  cmpOps : List String\n  deriving Repr, DecidableEq\n\n"
		var ids []string
		for _, m := range ms {
			_, f, err := ParseFile(repo, m.file)
			if err != nil {
				return "", err
			}
			nameFn := FuncDecl(f, m.recv, "Name")
			queryFn := FuncDecl(f, m.recv, "Query")
			vulnFn := FuncDecl(f, m.recv, "Vulnerable")
			if nameFn == nil || queryFn == nil || vulnFn == nil || nameFn.Body == nil || queryFn.Body == nil || vulnFn.Body == nil {
				return "", fmt.Errorf("%s: Name/Query/Vulnerable method of %s not found", m.file, m.recv)
			}
			name, err := c03SingleStringReturn(nameFn)
			if err != nil {
				return "", fmt.Errorf("%s: Name: %w", m.file, err)
			}
			var query []string
			ast.Inspect(queryFn.Body, func(n ast.Node) bool {
				if se, ok := n.(*ast.SelectorExpr); ok {
					if id, ok := se.X.(*ast.Ident); ok && id.Name == "driver" && se.Sel.Name != "MatchConstraint" {
						query = append(query, se.Sel.Name)
					}
				}
				return true
			})
			if len(query) == 0 {
				return "", fmt.Errorf("%s: Query: no driver.<constraint> found", m.file)
			}
			vf := FuncDecl(f, m.recv, "VersionFilter") != nil
			auth := false
			if af := FuncDecl(f, m.recv, "VersionAuthoritative"); af != nil {
				b, err := c03SingleBoolReturn(af)
				if err != nil {
					return "", fmt.Errorf("%s: VersionAuthoritative: %w", m.file, err)
				}
				auth = b
				if !vf {
					return "", fmt.Errorf("%s: VersionAuthoritative without VersionFilter", m.file)
				}
			} else if vf {
				return "", fmt.Errorf("%s: VersionFilter without VersionAuthoritative", m.file)
			}
			lits, ops := c03VulnerableFacts(vulnFn.Body)
			out += fmt.Sprintf("def %s : Info :=\n  { id := %s, name := %s,\n    query := %s,\n    versionFilter := %v, authoritative := %v,\n    vulnLits := %s,\n    cmpOps := %s }\n\n",
				m.id, LeanString(m.id), LeanString(name), LeanStrList(query), vf, auth, LeanStrList(lits), LeanStrList(ops))
			ids = append(ids, m.id)
		}
		out += "def all : List Info := [" + strings.Join(ids, ", ") + "]\n"
		// rhel's repository key
		_, f, err := ParseFile(repo, "rhel/repositoryscanner.go")
		if err != nil {
			return "", err
		}
		key, err := StringConst(f, "repositoryKey")
		if err != nil {
			return "", err
		}
		out += "\ndef rhelRepositoryKey : String := " + LeanString(key) + "\n"
		// the database-side range test: the SQL text the query builder adds for a
		// VersionFilter matcher, and the range constructor of the insert statement
		sqlLits, err := c03SQLFacts(repo)
		if err != nil {
			return "", err
		}
		out += "\n/-- String literals of `buildGetQuery`'s `if opts.VersionFiltering` block, and the\n    `VersionRange(...)` constructor calls of the vulnerability insert statement. -/\n"
		out += "def dbRangeTest : List String := " + LeanStrList(sqlLits) + "\n"
		// the pinned versions of the three third-party comparators the models transcribe
		pins, err := c03Pins(repo)
		if err != nil {
			return "", err
		}
		out += "\n/-- go.mod: the versions of go-rpm-version, go-deb-version, go-apk-version. -/\n"
		out += "def comparatorPins : List String := " + LeanStrList(pins) + "\n"
		return out + Footer("Matchers"), nil
	}})
}

func c03SingleStringReturn(fd *ast.FuncDecl) (string, error) {
	if len(fd.Body.List) == 1 {
		if rs, ok := fd.Body.List[0].(*ast.ReturnStmt); ok && len(rs.Results) == 1 {
			if bl, ok := rs.Results[0].(*ast.BasicLit); ok && bl.Kind == token.STRING {
				return strconv.Unquote(bl.Value)
			}
		}
	}
	return "", fmt.Errorf("body is not a single `return \"…\"`")
}

func c03SingleBoolReturn(fd *ast.FuncDecl) (bool, error) {
	if len(fd.Body.List) == 1 {
		if rs, ok := fd.Body.List[0].(*ast.ReturnStmt); ok && len(rs.Results) == 1 {
			if id, ok := rs.Results[0].(*ast.Ident); ok && (id.Name == "true" || id.Name == "false") {
				return id.Name == "true", nil
			}
		}
	}
	return false, fmt.Errorf("body is not a single `return true|false`")
}

// c03RootIdent is the leftmost identifier of a call / selector chain.
func c03RootIdent(e ast.Expr) string {
	for {
		switch x := e.(type) {
		case *ast.CallExpr:
			e = x.Fun
		case *ast.SelectorExpr:
			e = x.X
		case *ast.Ident:
			return x.Name
		default:
			return ""
		}
	}
}

func c03ExprText(e ast.Expr) string {
	switch x := e.(type) {
	case *ast.BasicLit:
		return x.Value
	case *ast.Ident:
		return x.Name
	case *ast.SelectorExpr:
		return c03ExprText(x.X) + "." + x.Sel.Name
	}
	return "?"
}

// c03VulnerableFacts walks a Vulnerable body (logging statements skipped):
// string literals in source order, and the comparisons applied to comparator
// results: `i == version.LESS`, `i != version.GREATER`, `x.Compare(y) < 0`,
// `<= 0`, and LessThan / GreaterThan / Equal calls.
func c03VulnerableFacts(body *ast.BlockStmt) (lits, ops []string) {
	ast.Inspect(body, func(n ast.Node) bool {
		switch x := n.(type) {
		case *ast.ExprStmt:
			if c03RootIdent(x.X) == "zlog" {
				return false
			}
		case *ast.BasicLit:
			if x.Kind == token.STRING {
				if s, err := strconv.Unquote(x.Value); err == nil {
					lits = append(lits, s)
				}
			}
		case *ast.BinaryExpr:
			switch x.Op {
			case token.LSS, token.LEQ, token.GTR, token.GEQ, token.EQL, token.NEQ:
				y := c03ExprText(x.Y)
				if y == "0" || strings.HasPrefix(y, "version.") {
					ops = append(ops, x.Op.String()+" "+y)
				}
			}
		case *ast.CallExpr:
			if se, ok := x.Fun.(*ast.SelectorExpr); ok {
				switch se.Sel.Name {
				case "LessThan", "GreaterThan", "Equal":
					ops = append(ops, se.Sel.Name)
				}
			}
		}
		return true
	})
	return lits, ops
}

// c03SQLFacts reads the two places where the half-open range reaches SQL.
func c03SQLFacts(repo string) ([]string, error) {
	_, f, err := ParseFile(repo, "datastore/postgres/querybuilder.go")
	if err != nil {
		return nil, err
	}
	var lits []string
	found := false
	ast.Inspect(f, func(n ast.Node) bool {
		is, ok := n.(*ast.IfStmt)
		if !ok {
			return true
		}
		se, ok := is.Cond.(*ast.SelectorExpr)
		if !ok || se.Sel.Name != "VersionFiltering" {
			return true
		}
		found = true
		ast.Inspect(is.Body, func(m ast.Node) bool {
			if bl, ok := m.(*ast.BasicLit); ok && (bl.Kind == token.STRING || bl.Kind == token.CHAR) {
				if s, err := strconv.Unquote(bl.Value); err == nil {
					lits = append(lits, s)
				}
			}
			return true
		})
		return false
	})
	if !found {
		return nil, fmt.Errorf("querybuilder.go: `if opts.VersionFiltering` not found")
	}
	_, g, err := ParseFile(repo, "datastore/postgres/updatevulnerabilities.go")
	if err != nil {
		return nil, err
	}
	n := 0
	ast.Inspect(g, func(m ast.Node) bool {
		if bl, ok := m.(*ast.BasicLit); ok && bl.Kind == token.STRING {
			if s, err := strconv.Unquote(bl.Value); err == nil {
				rest := s
				for {
					i := strings.Index(rest, "VersionRange(")
					if i < 0 {
						break
					}
					j := strings.Index(rest[i:], ")")
					if j < 0 {
						break
					}
					lits = append(lits, rest[i:i+j+1])
					rest = rest[i+j+1:]
					n++
				}
			}
		}
		return true
	})
	if n == 0 {
		return nil, fmt.Errorf("updatevulnerabilities.go: no VersionRange(...) constructor found")
	}
	return lits, nil
}

// c03Pins reads the require lines of the three comparator libraries from go.mod.
func c03Pins(repo string) ([]string, error) {
	b, err := os.ReadFile(filepath.Join(repo, "go.mod"))
	if err != nil {
		return nil, err
	}
	var out []string
	for _, mod := range []string{"github.com/knqyf263/go-apk-version", "github.com/knqyf263/go-deb-version", "github.com/knqyf263/go-rpm-version"} {
		found := ""
		for _, line := range strings.Split(string(b), "\n") {
			f := strings.Fields(line)
			if len(f) >= 2 && f[0] == mod {
				found = f[0] + " " + f[1]
			} else if len(f) >= 3 && f[0] == "require" && f[1] == mod {
				found = f[1] + " " + f[2]
			} else if len(f) >= 4 && f[0] == "replace" && f[1] == mod {
				found = strings.Join(f[1:], " ")
				break
			}
		}
		if found == "" {
			return nil, fmt.Errorf("go.mod: no requirement for %s", mod)
		}
		out = append(out, found)
	}
	return out, nil
}
