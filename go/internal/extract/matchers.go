package extract

import (
	"fmt"
	"go/ast"
	"go/parser"
	"go/token"
	"os"
	"path/filepath"
	"strconv"
	"strings"
)

// Matchers: table-like facts of every built-in matcher (C03, C04): the name,
// the Query() constraint list, whether it is a VersionFilter and whether that
// filter is authoritative, and — of the Vulnerable body — the string literals
// it compares against / parses (sentinels, the "unfixed" bound, the query keys)
// and the comparison operators it applies to comparator results, in source order.
func init() {
	Register(Gen{Name: "Matchers", Run: func(repo string) (string, error) {
		type mt struct{ id, file, recv string }
		ms := []mt{
			{"alpine", "alpine/matcher.go", "Matcher"},
			{"aws", "aws/matcher.go", "Matcher"},
			{"debian", "debian/matcher.go", "Matcher"},
			{"ubuntu", "ubuntu/matcher.go", "Matcher"},
			{"oracle", "oracle/matcher.go", "Matcher"},
			{"photon", "photon/matcher.go", "Matcher"},
			{"suse", "suse/matcher.go", "Matcher"},
			{"rhel", "rhel/matcher.go", "Matcher"},
			{"rhcc", "rhel/rhcc/matcher.go", "matcher"},
			{"python", "python/matcher.go", "Matcher"},
			{"java", "java/matcher.go", "Matcher"},
			{"ruby", "ruby/matcher.go", "Matcher"},
			{"gobin", "gobin/matcher.go", "Matcher"},
			{"nodejs", "nodejs/matcher.go", "Matcher"},
		}
		var srcs []string
		for _, m := range ms {
			srcs = append(srcs, m.file)
		}
		out := Header("Matchers", srcs...)
		out += "structure Info where\n  id : String\n  name : String\n  query : List String\n  queryIf : List String\n  filter : List String\n  versionFilter : Bool\n  authoritative : Bool\n  vulnLits : List String\n  cmpOps : List String\n  deriving Repr, DecidableEq\n\n"
		var ids []string
		for _, m := range ms {
			_, f, err := ParseFile(repo, m.file)
			if err != nil {
				return "", err
			}
			nameFn := FuncDecl(f, m.recv, "Name")
			queryFn := FuncDecl(f, m.recv, "Query")
			vulnFn := FuncDecl(f, m.recv, "Vulnerable")
			if nameFn == nil || queryFn == nil || vulnFn == nil || nameFn.Body == nil || queryFn.Body == nil || vulnFn.Body == nil {
				return "", fmt.Errorf("%s: Name/Query/Vulnerable method of %s not found", m.file, m.recv)
			}
			name, err := c03SingleStringReturn(nameFn)
			if err != nil {
				return "", fmt.Errorf("%s: Name: %w", m.file, err)
			}
			query, queryIf := c03QueryFacts(queryFn.Body)
			filterFn := FuncDecl(f, m.recv, "Filter")
			if filterFn == nil || filterFn.Body == nil {
				return "", fmt.Errorf("%s: Filter method of %s not found", m.file, m.recv)
			}
			filterFacts, err := c03FilterFacts(repo, filepath.Dir(m.file), filterFn)
			if err != nil {
				return "", fmt.Errorf("%s: Filter: %w", m.file, err)
			}
			if len(query) == 0 {
				return "", fmt.Errorf("%s: Query: no driver.<constraint> found", m.file)
			}
			vf := FuncDecl(f, m.recv, "VersionFilter") != nil
			auth := false
			if af := FuncDecl(f, m.recv, "VersionAuthoritative"); af != nil {
				b, err := c03SingleBoolReturn(af)
				if err != nil {
					return "", fmt.Errorf("%s: VersionAuthoritative: %w", m.file, err)
				}
				auth = b
				if !vf {
					return "", fmt.Errorf("%s: VersionAuthoritative without VersionFilter", m.file)
				}
			} else if vf {
				return "", fmt.Errorf("%s: VersionFilter without VersionAuthoritative", m.file)
			}
			lits, ops := c03VulnerableFacts(vulnFn.Body)
			out += fmt.Sprintf("def %s : Info :=\n  { id := %s, name := %s,\n    query := %s,\n    queryIf := %s,\n    filter := %s,\n    versionFilter := %v, authoritative := %v,\n    vulnLits := %s,\n    cmpOps := %s }\n\n",
				m.id, LeanString(m.id), LeanString(name), LeanStrList(query), LeanStrList(queryIf), LeanStrList(filterFacts), vf, auth, LeanStrList(lits), LeanStrList(ops))
			ids = append(ids, m.id)
		}
		out += "def all : List Info := [" + strings.Join(ids, ", ") + "]\n"
		// rhel's repository key
		_, f, err := ParseFile(repo, "rhel/repositoryscanner.go")
		if err != nil {
			return "", err
		}
		key, err := StringConst(f, "repositoryKey")
		if err != nil {
			return "", err
		}
		out += "\ndef rhelRepositoryKey : String := " + LeanString(key) + "\n"
		// the database-side range test: the SQL text the query builder adds for a
		// VersionFilter matcher, and the range constructor of the insert statement
		sqlLits, err := c03SQLFacts(repo)
		if err != nil {
			return "", err
		}
		out += "\n/-- String literals of `buildGetQuery`'s `if opts.VersionFiltering` block, and the\n    `VersionRange(...)` constructor calls of the vulnerability insert statement. -/\n"
		out += "def dbRangeTest : List String := " + LeanStrList(sqlLits) + "\n"
		// the registered default matchers and the query builder's constraint switch
		defs, facs, err := c03Defaults(repo)
		if err != nil {
			return "", err
		}
		out += "\n/-- matchers/defaults/defaults.go: the packages of the elements of `defaultMatchers`, and the names\n    registered with a factory of their own. -/\n"
		out += "def defaults : List String := " + LeanStrList(defs) + "\n"
		out += "def defaultFactories : List String := " + LeanStrList(facs) + "\n"
		need, cols, err := c03QueryColumns(repo)
		if err != nil {
			return "", err
		}
		out += "\n/-- datastore/postgres/querybuilder.go buildGetQuery: which part of the record a constraint needs\n    (`constraint:Distribution|Repository`), and the column / record field each constraint compares\n    (`constraint:column:value expression`). -/\n"
		out += "def queryNeeds : List String := " + LeanStrList(need) + "\n"
		out += "def queryColumns : List String := " + LeanStrList(cols) + "\n"
		// the pinned versions of the three third-party comparators the models transcribe
		pins, err := c03Pins(repo)
		if err != nil {
			return "", err
		}
		out += "\n/-- go.mod: the versions of go-rpm-version, go-deb-version, go-apk-version. -/\n"
		out += "def comparatorPins : List String := " + LeanStrList(pins) + "\n"
		return out + Footer("Matchers"), nil
	}})
}

func c03SingleStringReturn(fd *ast.FuncDecl) (string, error) {
	if len(fd.Body.List) == 1 {
		if rs, ok := fd.Body.List[0].(*ast.ReturnStmt); ok && len(rs.Results) == 1 {
			if bl, ok := rs.Results[0].(*ast.BasicLit); ok && bl.Kind == token.STRING {
				return strconv.Unquote(bl.Value)
			}
		}
	}
	return "", fmt.Errorf("body is not a single `return \"…\"`")
}

func c03SingleBoolReturn(fd *ast.FuncDecl) (bool, error) {
	if len(fd.Body.List) == 1 {
		if rs, ok := fd.Body.List[0].(*ast.ReturnStmt); ok && len(rs.Results) == 1 {
			if id, ok := rs.Results[0].(*ast.Ident); ok && (id.Name == "true" || id.Name == "false") {
				return id.Name == "true", nil
			}
		}
	}
	return false, fmt.Errorf("body is not a single `return true|false`")
}

// c03RootIdent is the leftmost identifier of a call / selector chain.
func c03RootIdent(e ast.Expr) string {
	for {
		switch x := e.(type) {
		case *ast.CallExpr:
			e = x.Fun
		case *ast.SelectorExpr:
			e = x.X
		case *ast.Ident:
			return x.Name
		default:
			return ""
		}
	}
}

func c03ExprText(e ast.Expr) string {
	switch x := e.(type) {
	case *ast.BasicLit:
		return x.Value
	case *ast.Ident:
		return x.Name
	case *ast.SelectorExpr:
		return c03ExprText(x.X) + "." + x.Sel.Name
	}
	return "?"
}

// c03VulnerableFacts walks a Vulnerable body (logging statements skipped):
// string literals in source order, and the comparisons applied to comparator
// results: `i == version.LESS`, `i != version.GREATER`, `x.Compare(y) < 0`,
// `<= 0`, and LessThan / GreaterThan / Equal calls.
func c03VulnerableFacts(body *ast.BlockStmt) (lits, ops []string) {
	ast.Inspect(body, func(n ast.Node) bool {
		switch x := n.(type) {
		case *ast.ExprStmt:
			if c03RootIdent(x.X) == "zlog" {
				return false
			}
		case *ast.BasicLit:
			if x.Kind == token.STRING {
				if s, err := strconv.Unquote(x.Value); err == nil {
					lits = append(lits, s)
				}
			}
		case *ast.BinaryExpr:
			switch x.Op {
			case token.LSS, token.LEQ, token.GTR, token.GEQ, token.EQL, token.NEQ:
				y := c03ExprText(x.Y)
				if y == "0" || strings.HasPrefix(y, "version.") {
					ops = append(ops, x.Op.String()+" "+y)
				}
			}
		case *ast.CallExpr:
			if se, ok := x.Fun.(*ast.SelectorExpr); ok {
				switch se.Sel.Name {
				case "LessThan", "GreaterThan", "Equal":
					ops = append(ops, se.Sel.Name)
				}
			}
		}
		return true
	})
	return lits, ops
}

// c03SQLFacts reads the two places where the half-open range reaches SQL.
func c03SQLFacts(repo string) ([]string, error) {
	_, f, err := ParseFile(repo, "datastore/postgres/querybuilder.go")
	if err != nil {
		return nil, err
	}
	var lits []string
	found := false
	ast.Inspect(f, func(n ast.Node) bool {
		is, ok := n.(*ast.IfStmt)
		if !ok {
			return true
		}
		se, ok := is.Cond.(*ast.SelectorExpr)
		if !ok || se.Sel.Name != "VersionFiltering" {
			return true
		}
		found = true
		ast.Inspect(is.Body, func(m ast.Node) bool {
			if bl, ok := m.(*ast.BasicLit); ok && (bl.Kind == token.STRING || bl.Kind == token.CHAR) {
				if s, err := strconv.Unquote(bl.Value); err == nil {
					lits = append(lits, s)
				}
			}
			return true
		})
		return false
	})
	if !found {
		return nil, fmt.Errorf("querybuilder.go: `if opts.VersionFiltering` not found")
	}
	_, g, err := ParseFile(repo, "datastore/postgres/updatevulnerabilities.go")
	if err != nil {
		return nil, err
	}
	n := 0
	ast.Inspect(g, func(m ast.Node) bool {
		if bl, ok := m.(*ast.BasicLit); ok && bl.Kind == token.STRING {
			if s, err := strconv.Unquote(bl.Value); err == nil {
				rest := s
				for {
					i := strings.Index(rest, "VersionRange(")
					if i < 0 {
						break
					}
					j := strings.Index(rest[i:], ")")
					if j < 0 {
						break
					}
					lits = append(lits, rest[i:i+j+1])
					rest = rest[i+j+1:]
					n++
				}
			}
		}
		return true
	})
	if n == 0 {
		return nil, fmt.Errorf("updatevulnerabilities.go: no VersionRange(...) constructor found")
	}
	return lits, nil
}

// c03Pins reads the require lines of the three comparator libraries from go.mod.
func c03Pins(repo string) ([]string, error) {
	b, err := os.ReadFile(filepath.Join(repo, "go.mod"))
	if err != nil {
		return nil, err
	}
	var out []string
	for _, mod := range []string{"github.com/knqyf263/go-apk-version", "github.com/knqyf263/go-deb-version", "github.com/knqyf263/go-rpm-version"} {
		found := ""
		for _, line := range strings.Split(string(b), "\n") {
			f := strings.Fields(line)
			if len(f) >= 2 && f[0] == mod {
				found = f[0] + " " + f[1]
			} else if len(f) >= 3 && f[0] == "require" && f[1] == mod {
				found = f[1] + " " + f[2]
			} else if len(f) >= 4 && f[0] == "replace" && f[1] == mod {
				found = strings.Join(f[1:], " ")
				break
			}
		}
		if found == "" {
			return nil, fmt.Errorf("go.mod: no requirement for %s", mod)
		}
		out = append(out, found)
	}
	return out, nil
}

// c03QueryFacts: the driver.<constraint> selectors of a Query body; those
// inside an if statement are conditional ("<condition>:<constraint>").
func c03QueryFacts(body *ast.BlockStmt) (always, cond []string) {
	var walk func(n ast.Node, under string)
	walk = func(n ast.Node, under string) {
		ast.Inspect(n, func(x ast.Node) bool {
			switch y := x.(type) {
			case *ast.IfStmt:
				if y.Init != nil {
					walk(y.Init, under)
				}
				c := c03ExprText(y.Cond)
				if under != "" {
					c = under + "&&" + c
				}
				walk(y.Body, c)
				if y.Else != nil {
					walk(y.Else, "!("+c+")")
				}
				return false
			case *ast.SelectorExpr:
				if id, ok := y.X.(*ast.Ident); ok && id.Name == "driver" && y.Sel.Name != "MatchConstraint" {
					if under == "" {
						always = append(always, y.Sel.Name)
					} else {
						cond = append(cond, under+":"+y.Sel.Name)
					}
				}
			}
			return true
		})
	}
	walk(body, "")
	return always, cond
}

// c03PkgFiles parses the non-test Go files of a package directory.
func c03PkgFiles(repo, dir string) ([]*ast.File, error) {
	ents, err := os.ReadDir(filepath.Join(repo, dir))
	if err != nil {
		return nil, err
	}
	var out []*ast.File
	fset := token.NewFileSet()
	for _, e := range ents {
		n := e.Name()
		if e.IsDir() || !strings.HasSuffix(n, ".go") || strings.HasSuffix(n, "_test.go") || strings.HasSuffix(n, "_verif.go") {
			continue
		}
		f, err := parser.ParseFile(fset, filepath.Join(repo, dir, n), nil, 0)
		if err != nil {
			return nil, err
		}
		out = append(out, f)
	}
	return out, nil
}

func c03FindValue(files []*ast.File, name string) ast.Expr {
	for _, f := range files {
		for _, d := range f.Decls {
			gd, ok := d.(*ast.GenDecl)
			if !ok {
				continue
			}
			for _, s := range gd.Specs {
				vs, ok := s.(*ast.ValueSpec)
				if !ok {
					continue
				}
				for i, n := range vs.Names {
					if n.Name == name && i < len(vs.Values) {
						return vs.Values[i]
					}
				}
			}
		}
	}
	return nil
}

// c03Resolve: the string(s) an expression of a Filter body stands for:
// a literal, a package-level constant, a slice of them, or a field of a
// package-level composite literal (GoldRepo.Name, AL1Dist.Name).
func c03Resolve(files []*ast.File, e ast.Expr, depth int) ([]string, bool) {
	if depth > 4 {
		return nil, false
	}
	switch x := e.(type) {
	case *ast.BasicLit:
		if x.Kind == token.STRING {
			if s, err := strconv.Unquote(x.Value); err == nil {
				return []string{s}, true
			}
		}
	case *ast.Ident:
		if v := c03FindValue(files, x.Name); v != nil {
			return c03Resolve(files, v, depth+1)
		}
	case *ast.CompositeLit:
		var out []string
		for _, el := range x.Elts {
			if _, isKV := el.(*ast.KeyValueExpr); isKV {
				return nil, false
			}
			s, ok := c03Resolve(files, el, depth+1)
			if !ok {
				return nil, false
			}
			out = append(out, s...)
		}
		return out, true
	case *ast.SelectorExpr:
		id, ok := x.X.(*ast.Ident)
		if !ok {
			return nil, false
		}
		v := c03FindValue(files, id.Name)
		if u, ok := v.(*ast.UnaryExpr); ok {
			v = u.X
		}
		cl, ok := v.(*ast.CompositeLit)
		if !ok {
			return nil, false
		}
		for _, el := range cl.Elts {
			if kv, ok := el.(*ast.KeyValueExpr); ok {
				if k, ok := kv.Key.(*ast.Ident); ok && k.Name == x.Sel.Name {
					return c03Resolve(files, kv.Value, depth+1)
				}
			}
		}
	}
	return nil, false
}

// c03FilterFacts: what a Filter body compares, in source order:
// "<record path>==nil" / "!=nil", "<record path>=<v1>|<v2>…" for an equality
// with resolvable strings or a contains(list, record path) call.
func c03FilterFacts(repo, dir string, fd *ast.FuncDecl) ([]string, error) {
	files, err := c03PkgFiles(repo, dir)
	if err != nil {
		return nil, err
	}
	if fd.Type.Params == nil || len(fd.Type.Params.List) != 1 || len(fd.Type.Params.List[0].Names) != 1 {
		return nil, fmt.Errorf("unexpected parameter list")
	}
	param := fd.Type.Params.List[0].Names[0].Name
	isRec := func(e ast.Expr) (string, bool) {
		if c03RootIdent(e) != param {
			return "", false
		}
		return strings.TrimPrefix(c03ExprText(e), param+"."), true
	}
	var facts []string
	var bad error
	ast.Inspect(fd.Body, func(n ast.Node) bool {
		switch x := n.(type) {
		case *ast.BinaryExpr:
			if x.Op != token.EQL && x.Op != token.NEQ {
				return true
			}
			l, r := x.X, x.Y
			if _, ok := isRec(l); !ok {
				l, r = r, l
			}
			path, ok := isRec(l)
			if !ok {
				return true
			}
			if id, ok := r.(*ast.Ident); ok && id.Name == "nil" {
				facts = append(facts, path+x.Op.String()+"nil")
				return true
			}
			vals, ok := c03Resolve(files, r, 0)
			if !ok {
				bad = fmt.Errorf("cannot resolve %s", c03ExprText(r))
				return true
			}
			op := "="
			if x.Op == token.NEQ {
				op = "!="
			}
			facts = append(facts, path+op+strings.Join(vals, "|"))
		case *ast.CallExpr:
			if id, ok := x.Fun.(*ast.Ident); ok && id.Name == "contains" && len(x.Args) == 2 {
				path, ok := isRec(x.Args[1])
				vals, ok2 := c03Resolve(files, x.Args[0], 0)
				if !ok || !ok2 {
					bad = fmt.Errorf("contains(...) call not understood")
					return true
				}
				facts = append(facts, path+"="+strings.Join(vals, "|"))
			}
		}
		return true
	})
	if bad != nil {
		return nil, bad
	}
	if len(facts) == 0 {
		return nil, fmt.Errorf("no comparison found")
	}
	return facts, nil
}

// c03Defaults reads matchers/defaults/defaults.go: the elements of the
// defaultMatchers slice (by package) and the names registered with their own factory.
func c03Defaults(repo string) (defs, facs []string, err error) {
	_, f, err := ParseFile(repo, "matchers/defaults/defaults.go")
	if err != nil {
		return nil, nil, err
	}
	v := c03FindValue([]*ast.File{f}, "defaultMatchers")
	cl, ok := v.(*ast.CompositeLit)
	if !ok {
		return nil, nil, fmt.Errorf("defaults.go: defaultMatchers is not a composite literal")
	}
	for _, el := range cl.Elts {
		e := el
		if u, ok := e.(*ast.UnaryExpr); ok {
			e = u.X
		}
		if c, ok := e.(*ast.CompositeLit); ok {
			e = c.Type
		}
		se, ok := e.(*ast.SelectorExpr)
		if !ok {
			return nil, nil, fmt.Errorf("defaults.go: element of defaultMatchers not understood")
		}
		defs = append(defs, c03ExprText(se))
	}
	ast.Inspect(f, func(n ast.Node) bool {
		ce, ok := n.(*ast.CallExpr)
		if !ok || c03ExprText(ce.Fun) != "registry.Register" || len(ce.Args) != 2 {
			return true
		}
		if bl, ok := ce.Args[0].(*ast.BasicLit); ok && bl.Kind == token.STRING {
			name, _ := strconv.Unquote(bl.Value)
			e := ce.Args[1]
			if u, ok := e.(*ast.UnaryExpr); ok {
				e = u.X
			}
			if c, ok := e.(*ast.CompositeLit); ok {
				e = c.Type
			}
			facs = append(facs, name+":"+c03ExprText(e))
		}
		return true
	})
	if len(defs) == 0 {
		return nil, nil, fmt.Errorf("defaults.go: no default matcher found")
	}
	return defs, facs, nil
}

// c03QueryColumns reads the two switches over the constraint in buildGetQuery.
func c03QueryColumns(repo string) (need, cols []string, err error) {
	_, f, err := ParseFile(repo, "datastore/postgres/querybuilder.go")
	if err != nil {
		return nil, nil, err
	}
	fd := FuncDecl(f, "", "buildGetQuery")
	if fd == nil || fd.Body == nil {
		return nil, nil, fmt.Errorf("querybuilder.go: buildGetQuery not found")
	}
	ast.Inspect(fd.Body, func(n ast.Node) bool {
		sw, ok := n.(*ast.SwitchStmt)
		if !ok || sw.Tag == nil || c03ExprText(sw.Tag) != "m" {
			return true
		}
		for _, st := range sw.Body.List {
			cc, ok := st.(*ast.CaseClause)
			if !ok || len(cc.List) == 0 {
				continue
			}
			var names []string
			for _, e := range cc.List {
				names = append(names, strings.TrimPrefix(c03ExprText(e), "driver."))
			}
			for _, b := range cc.Body {
				switch y := b.(type) {
				case *ast.IfStmt: // if record.X == nil { return error }
					if be, ok := y.Cond.(*ast.BinaryExpr); ok && be.Op == token.EQL {
						for _, nm := range names {
							need = append(need, nm+":"+strings.TrimPrefix(c03ExprText(be.X), "record."))
						}
					}
				case *ast.AssignStmt: // ex = goqu.Ex{"col": value}
					if len(y.Rhs) != 1 {
						continue
					}
					cl, ok := y.Rhs[0].(*ast.CompositeLit)
					if !ok || len(cl.Elts) != 1 {
						continue
					}
					kv, ok := cl.Elts[0].(*ast.KeyValueExpr)
					if !ok {
						continue
					}
					col, _ := strconv.Unquote(c03ExprText(kv.Key))
					val := c03ExprText(kv.Value)
					if u, ok := kv.Value.(*ast.UnaryExpr); ok {
						val = "&" + c03ExprText(u.X)
					}
					if vcl, ok := kv.Value.(*ast.CompositeLit); ok && len(vcl.Elts) == 1 { // goqu.Op{exp.NeqOp.String(): ""}
						if kv2, ok := vcl.Elts[0].(*ast.KeyValueExpr); ok {
							val = c03ExprText(c03CallRecv(kv2.Key)) + " " + c03ExprText(kv2.Value)
						}
					}
					for _, nm := range names {
						cols = append(cols, nm+":"+col+":"+strings.TrimPrefix(val, "record."))
					}
				}
			}
		}
		return true
	})
	if len(need) == 0 || len(cols) == 0 {
		return nil, nil, fmt.Errorf("querybuilder.go: constraint switches not recognised")
	}
	return need, cols, nil
}

// c03CallRecv: x.M() -> x
func c03CallRecv(e ast.Expr) ast.Expr {
	if ce, ok := e.(*ast.CallExpr); ok {
		if se, ok := ce.Fun.(*ast.SelectorExpr); ok {
			return se.X
		}
	}
	return e
}
