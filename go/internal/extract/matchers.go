package extract

import (
	"encoding/json"
	"fmt"
	"go/ast"
	"go/token"
	"os"
	"path/filepath"
	"regexp"
	"sort"
	"strconv"
	"strings"
)

// Matchers: table-like facts of every built-in matcher (C03, C04).
//
// EVALUATED through driver.Matcher (probe go/cmd/rxprobe/matchers; design/EXTRACT.md):
// the name, the Query() constraint list (for rhel also under `ignore_unpatched`),
// whether the matcher is a VersionFilter and whether that filter is
// authoritative, what Filter() accepts (which single record field with which
// value turns a never-matching record into an accepted one, and that a record
// without the distribution / repository is rejected), and what importing
// matchers/defaults registers.  Of buildGetQuery (probe
// go/cmd/rxprobe/querybuilder): the column and record field every constraint
// compares, the part of the record it needs, the version-filter condition.
//
// READ from the sources (shape-tolerant): of the Vulnerable body the string
// values it compares against / parses (sentinels, the "unfixed" bound, the query
// keys; named constants resolved, helpers of the same file followed) and the
// comparison operators it applies to comparator results, in source order; rhel's
// repository key (package-wide constant); the VersionRange(...) constructors of
// the insert statement; the comparator pins of go.mod.
func init() {
	Register(Gen{Name: "Matchers", Run: func(repo string) (string, error) {
		type mt struct{ id, file, recv string }
		ms := []mt{
			{"alpine", "alpine/matcher.go", "Matcher"},
			{"aws", "aws/matcher.go", "Matcher"},
			{"debian", "debian/matcher.go", "Matcher"},
			{"ubuntu", "ubuntu/matcher.go", "Matcher"},
			{"oracle", "oracle/matcher.go", "Matcher"},
			{"photon", "photon/matcher.go", "Matcher"},
			{"suse", "suse/matcher.go", "Matcher"},
			{"rhel", "rhel/matcher.go", "Matcher"},
			{"rhcc", "rhel/rhcc/matcher.go", "matcher"},
			{"python", "python/matcher.go", "Matcher"},
			{"java", "java/matcher.go", "Matcher"},
			{"ruby", "ruby/matcher.go", "Matcher"},
			{"gobin", "gobin/matcher.go", "Matcher"},
			{"nodejs", "nodejs/matcher.go", "Matcher"},
		}
		var srcs []string
		for _, m := range ms {
			srcs = append(srcs, m.file)
		}
		out := Header("Matchers", srcs...)
		out += "structure Info where\n  id : String\n  name : String\n  query : List String\n  queryIf : List String\n  filter : List String\n  versionFilter : Bool\n  authoritative : Bool\n  vulnLits : List String\n  cmpOps : List String\n  deriving Repr, DecidableEq\n\n"
		var ids []string
		// ---- evaluated part (probe "matchers"): Name, Query, VersionFilter, Filter
		cands := map[string][]string{}
		allSnap := rxSet{}
		for _, sn := range rxSnapMatchers {
			for _, a := range rxFilterAtoms(sn.filter) {
				allSnap.add(a[1])
			}
		}
		pkgs := map[string]*rxPkg{}
		for _, m := range ms {
			p, err := rxLoadPkg(repo, filepath.Dir(m.file))
			if err != nil {
				return "", err
			}
			pkgs[m.id] = p
			set := rxSet{}
			set.add(allSnap.sorted()...)
			for _, l := range p.StringLits() {
				if len(l) <= 80 && !strings.ContainsAny(l, "\n%") {
					set.add(l)
				}
			}
			set.add("", "rx-probe")
			for _, l := range set.sorted() {
				if l == "" {
					continue
				}
				set.add(rxCaseVariants(l)...)
				set.add(l+"x", "x"+l, " "+l, l+" ")
				if len(l) > 1 {
					set.add(l[:len(l)-1], l[1:])
				}
			}
			cands[m.id] = set.sorted()
		}
		type evalMatcher struct {
			Name            string
			Query           []int
			QueryConfigured []int
			VersionFilter   bool
			Authoritative   bool
			Base            string
			Nil             map[string]string
			Accepted        []struct{ Path, Value string }
		}
		var raw map[string]json.RawMessage
		if err := rxProbe(repo, "matchers", cands, &raw); err != nil {
			return "", err
		}
		ev := map[string]*evalMatcher{}
		var registered []struct {
			Name, Factory string
			Matchers      []string
		}
		for k, v := range raw {
			if k == "registered" {
				if err := json.Unmarshal(v, &registered); err != nil {
					return "", fmt.Errorf("matchers probe: %w", err)
				}
				continue
			}
			e := &evalMatcher{}
			if err := json.Unmarshal(v, e); err != nil {
				return "", fmt.Errorf("matchers probe: %s: %w", k, err)
			}
			ev[k] = e
		}
		// the names of the constraint constants (libvuln/driver; its stringer file may be stale)
		drv, err := rxLoadPkg(repo, "libvuln/driver")
		if err != nil {
			return "", err
		}
		cNames, cVals, err := drv.IotaNames("MatchConstraint")
		if err != nil {
			return "", err
		}
		constraintNames := func(vs []int) ([]string, error) {
			if vs == nil {
				return nil, nil
			}
			out := []string{}
			for _, v := range vs {
				found := false
				for i := range cVals {
					if cVals[i] == int64(v) {
						out = append(out, cNames[i])
						found = true
						break
					}
				}
				if !found {
					return nil, fmt.Errorf("Query() returns %d, which is no driver.MatchConstraint constant", v)
				}
			}
			return out, nil
		}
		for _, m := range ms {
			e := ev[m.id]
			if e == nil {
				return "", fmt.Errorf("matchers probe: no answer for %s", m.id)
			}
			p := pkgs[m.id]
			if len(e.Query) == 0 {
				return "", fmt.Errorf("%s: Query() returns no constraint", m.file)
			}
			snap := rxSnapMatchers[m.id]
			query, err := constraintNames(e.Query)
			if err != nil {
				return "", fmt.Errorf("%s: %w", m.file, err)
			}
			configured, err := constraintNames(e.QueryConfigured)
			if err != nil {
				return "", fmt.Errorf("%s: %w", m.file, err)
			}
			// conditional constraints: what configuration adds (rhel: ignore_unpatched), and whether
			// Query branches at all (a branch evaluation with the default configuration cannot see)
			queryIf, err := rxQueryIf(p, m.recv, m.id, query, configured, snap)
			if err != nil {
				return "", fmt.Errorf("%s: Query: %w", m.file, err)
			}
			var atoms [][2]string
			for _, a := range e.Accepted {
				atoms = append(atoms, [2]string{a.Path, a.Value})
			}
			filterFacts, err := rxFilterFacts(m.id, e.Base, e.Nil, atoms, snap)
			if err != nil {
				return "", fmt.Errorf("%s: Filter: %w", m.file, err)
			}
			vulnFn := p.Func(m.recv, "Vulnerable")
			if vulnFn == nil {
				return "", fmt.Errorf("%s: Vulnerable method of %s not found", m.file, m.recv)
			}
			lits, ops := c03VulnerableFacts(p, vulnFn)
			if os.Getenv("RX_DEBUG") != "" {
				fmt.Fprintf(os.Stderr, "RX vulnCanon %s: %q\n", m.id, lits)
			}
			lits = rxVulnLitsRender(lits, snap)
			out += fmt.Sprintf("def %s : Info :=\n  { id := %s, name := %s,\n    query := %s,\n    queryIf := %s,\n    filter := %s,\n    versionFilter := %v, authoritative := %v,\n    vulnLits := %s,\n    cmpOps := %s }\n\n",
				m.id, LeanString(m.id), LeanString(e.Name), LeanStrList(query), LeanStrList(queryIf), LeanStrList(filterFacts), e.VersionFilter, e.Authoritative, LeanStrList(lits), LeanStrList(ops))
			ids = append(ids, m.id)
		}
		out += "def all : List Info := [" + strings.Join(ids, ", ") + "]\n"
		// rhel's repository key
		key, err := pkgs["rhel"].StrConst("repositoryKey")
		if err != nil {
			return "", err
		}
		out += "\ndef rhelRepositoryKey : String := " + LeanString(key) + "\n"
		// the database-side range test: the SQL text the query builder adds for a
		// VersionFilter matcher, and the range constructor of the insert statement
		need, cols, sqlLits, err := rxQueryBuilderFacts(repo)
		if err != nil {
			return "", err
		}
		out += "\n/-- String literals of `buildGetQuery`'s `if opts.VersionFiltering` block, and the\n    `VersionRange(...)` constructor calls of the vulnerability insert statement. -/\n"
		out += "def dbRangeTest : List String := " + LeanStrList(sqlLits) + "\n"
		// the registered default matchers and the query builder's constraint switch
		defs, facs := rxDefaults(registered)
		out += "\n/-- matchers/defaults/defaults.go: the packages of the elements of `defaultMatchers`, and the names\n    registered with a factory of their own. -/\n"
		out += "def defaults : List String := " + LeanStrList(defs) + "\n"
		out += "def defaultFactories : List String := " + LeanStrList(facs) + "\n"
		out += "\n/-- datastore/postgres/querybuilder.go buildGetQuery: which part of the record a constraint needs\n    (`constraint:Distribution|Repository`), and the column / record field each constraint compares\n    (`constraint:column:value expression`). -/\n"
		out += "def queryNeeds : List String := " + LeanStrList(need) + "\n"
		out += "def queryColumns : List String := " + LeanStrList(cols) + "\n"
		// the pinned versions of the three third-party comparators the models transcribe
		pins, err := c03Pins(repo)
		if err != nil {
			return "", err
		}
		out += "\n/-- go.mod: the versions of go-rpm-version, go-deb-version, go-apk-version. -/\n"
		out += "def comparatorPins : List String := " + LeanStrList(pins) + "\n"
		return out + Footer("Matchers"), nil
	}})
}

// c03RootIdent is the leftmost identifier of a call / selector chain.
func c03RootIdent(e ast.Expr) string {
	for {
		switch x := e.(type) {
		case *ast.CallExpr:
			e = x.Fun
		case *ast.SelectorExpr:
			e = x.X
		case *ast.Ident:
			return x.Name
		default:
			return ""
		}
	}
}

func c03ExprText(e ast.Expr) string {
	switch x := e.(type) {
	case *ast.BasicLit:
		return x.Value
	case *ast.Ident:
		return x.Name
	case *ast.SelectorExpr:
		return c03ExprText(x.X) + "." + x.Sel.Name
	}
	return "?"
}

// c03VulnerableFacts walks a Vulnerable body (logging statements skipped):
// string values in source order — literals, and uses of named string constants
// (function-local or package-level) at the place of use; the literal inside a
// constant's own declaration is skipped — and the comparisons applied to
// comparator results: `i == version.LESS`, `i != version.GREATER`,
// `x.Compare(y) < 0`, `<= 0` (also written with the constant on the left), and
// LessThan / GreaterThan / Equal calls.  A call of a function or method of the
// same package is followed one level (two for a helper of a helper): its facts
// are inserted at the place of the call.
func c03VulnerableFacts(p *rxPkg, fd *ast.FuncDecl) (lits, ops []string) {
	visited := map[*ast.FuncDecl]bool{fd: true}
	home := p.FileOf(fd)
	var walk func(fd *ast.FuncDecl, depth int)
	walk = func(fd *ast.FuncDecl, depth int) {
		sc := p.ScopeOf(fd)
		params := map[string]bool{}
		if fd.Type.Params != nil {
			for _, f := range fd.Type.Params.List {
				for _, n := range f.Names {
					params[n.Name] = true
				}
			}
		}
		var visit func(n ast.Node) bool
		visit = func(n ast.Node) bool {
			switch x := n.(type) {
			case *ast.ExprStmt:
				if c03RootIdent(x.X) == "zlog" {
					return false
				}
			case *ast.DeclStmt:
				if gd, ok := x.Decl.(*ast.GenDecl); ok && gd.Tok == token.CONST {
					return false
				}
			case *ast.BasicLit:
				if x.Kind == token.STRING {
					if s, err := strconv.Unquote(x.Value); err == nil {
						lits = append(lits, s)
					}
				}
			case *ast.Ident:
				if params[x.Name] || x.Name == "_" {
					return true
				}
				isConst := false
				if x.Obj != nil {
					isConst = x.Obj.Kind == ast.Con
				} else if d := p.Decl(x.Name); d != nil && d.decl.Tok == token.CONST {
					isConst = true
				}
				if isConst {
					if v, ok := sc.Str(x); ok {
						lits = append(lits, v)
					}
				}
			case *ast.SelectorExpr:
				// pkg.Const of another claircore package
				if id, ok := x.X.(*ast.Ident); ok && id.Obj == nil {
					if _, isRepo := rxImportDir(rxImportPath(sc.file, id.Name)); isRepo {
						if v, ok := sc.Str(x); ok {
							lits = append(lits, v)
						}
						return false
					}
				}
			case *ast.BinaryExpr:
				switch x.Op {
				case token.LSS, token.LEQ, token.GTR, token.GEQ, token.EQL, token.NEQ:
					op, y := x.Op, c03ExprText(x.Y)
					if l := c03ExprText(x.X); (l == "0" || strings.HasPrefix(l, "version.")) && !(y == "0" || strings.HasPrefix(y, "version.")) {
						// constant on the left: flip
						y = l
						switch op {
						case token.LSS:
							op = token.GTR
						case token.LEQ:
							op = token.GEQ
						case token.GTR:
							op = token.LSS
						case token.GEQ:
							op = token.LEQ
						}
					}
					if y == "0" || strings.HasPrefix(y, "version.") {
						ops = append(ops, op.String()+" "+y)
					}
				}
			case *ast.CallExpr:
				if se, ok := x.Fun.(*ast.SelectorExpr); ok {
					switch se.Sel.Name {
					case "LessThan", "GreaterThan", "Equal":
						ops = append(ops, se.Sel.Name)
					}
				}
				// a helper extracted from Vulnerable: an unexported function or method declared in the
				// same file (exported functions and the version parsers of other files are API, not part of the body)
				if depth < 2 {
					if callee := p.rxCallee(x); callee != nil && !visited[callee] && !callee.Name.IsExported() && p.FileOf(callee) == home {
						// the arguments are evaluated before the body runs
						ast.Inspect(x.Fun, visit)
						for _, a := range x.Args {
							ast.Inspect(a, visit)
						}
						visited[callee] = true
						walk(callee, depth+1)
						return false
					}
				}
			}
			return true
		}
		ast.Inspect(fd.Body, visit)
	}
	walk(fd, 0)
	return lits, ops
}

// rxVulnLitsRender: the resolved string values are printed under the snapshot's
// spelling (which did not resolve package-level constants) exactly when they are
// the snapshot's resolved values; otherwise as they are.
func rxVulnLitsRender(lits []string, snap rxMatcherSnap) []string {
	if snap.vulnCanon != nil && strings.Join(lits, "\x00") == strings.Join(snap.vulnCanon, "\x00") && len(lits) == len(snap.vulnCanon) {
		return append([]string{}, snap.vulnLits...)
	}
	if lits == nil {
		return []string{}
	}
	return lits
}

// rxFilterAtoms expands the atoms `path=v1|v2` of a filter fact list.
func rxFilterAtoms(facts []string) [][2]string {
	var out [][2]string
	for _, f := range facts {
		if strings.HasSuffix(f, "==nil") || strings.HasSuffix(f, "!=nil") {
			continue
		}
		path, vals, ok := strings.Cut(f, "=")
		if !ok {
			continue
		}
		for _, v := range strings.Split(vals, "|") {
			out = append(out, [2]string{path, v})
		}
	}
	return out
}

// rxFilterFacts states what Filter was observed to do (probe "matchers"):
//
//	guards  for every part of the record (Distribution, Repository) some accepted field lives in:
//	        a record without that part is rejected (no panic);
//	atoms   the (field, value) pairs that alone turn the never-matching base record into an accepted one.
//
// When guards and atoms are exactly what the snapshot's fact list says, that list
// is printed (its order, its `==nil` / `!=nil` spelling of the guard and its
// grouping of values were read off the source and carry no further meaning);
// otherwise the observation is printed in canonical order.
func rxFilterFacts(id, base string, nilRes map[string]string, atoms [][2]string, snap rxMatcherSnap) ([]string, error) {
	if base != "false" {
		return []string{"base-record:" + base}, nil
	}
	if len(atoms) == 0 {
		return nil, fmt.Errorf("no field value makes Filter accept a record (candidates: the string literals of the package)")
	}
	roots := rxSet{}
	got := rxSet{}
	for _, a := range atoms {
		got.add(a[0] + "=" + a[1])
		if r, _, ok := strings.Cut(a[0], "."); ok && (r == "Distribution" || r == "Repository") {
			roots.add(r)
		}
	}
	var canon []string
	guardsOK := true
	for _, r := range roots.sorted() {
		switch nilRes[r] {
		case "false":
			canon = append(canon, r+"==nil")
		default:
			guardsOK = false
			canon = append(canon, r+"==nil->"+nilRes[r])
		}
	}
	canon = append(canon, got.sorted()...)
	var anomalies []string
	for k, v := range nilRes {
		if k != "Distribution" && k != "Repository" {
			anomalies = append(anomalies, k+"->"+v)
		}
	}
	sort.Strings(anomalies)
	canon = append(canon, anomalies...)
	want := rxSet{}
	for _, a := range rxFilterAtoms(snap.filter) {
		want.add(a[0] + "=" + a[1])
	}
	wantRoots := rxSet{}
	for _, f := range snap.filter {
		if strings.HasSuffix(f, "==nil") || strings.HasSuffix(f, "!=nil") {
			wantRoots.add(f[:len(f)-5])
		}
	}
	if guardsOK && len(anomalies) == 0 && strings.Join(want.sorted(), "\x00") == strings.Join(got.sorted(), "\x00") &&
		strings.Join(wantRoots.sorted(), "\x00") == strings.Join(roots.sorted(), "\x00") {
		return append([]string{}, snap.filter...), nil
	}
	return canon, nil
}

// rxQueryIf: the constraints Query() adds or drops under configuration (rhel:
// `ignore_unpatched`), from the evaluated default and configured lists, and a
// syntactic note when Query (or a helper it calls) branches although no
// configuration explains it.
func rxQueryIf(p *rxPkg, recv, id string, query, configured []string, snap rxMatcherSnap) ([]string, error) {
	fd := p.Func(recv, "Query")
	if fd == nil {
		return nil, fmt.Errorf("Query method of %s not found", recv)
	}
	branches := false
	seen := map[*ast.FuncDecl]bool{fd: true}
	var look func(fd *ast.FuncDecl, depth int)
	look = func(fd *ast.FuncDecl, depth int) {
		ast.Inspect(fd.Body, func(n ast.Node) bool {
			switch x := n.(type) {
			case *ast.IfStmt, *ast.SwitchStmt, *ast.TypeSwitchStmt, *ast.SelectStmt:
				branches = true
			case *ast.CallExpr:
				if depth == 0 {
					if c := p.rxCallee(x); c != nil && !seen[c] {
						seen[c] = true
						look(c, 1)
					}
				}
			}
			return true
		})
	}
	look(fd, 0)
	canon := []string{}
	if configured != nil {
		in := func(xs []string, x string) bool {
			for _, y := range xs {
				if y == x {
					return true
				}
			}
			return false
		}
		for _, c := range configured {
			if !in(query, c) {
				canon = append(canon, "ignore_unpatched:+"+c)
			}
		}
		for _, c := range query {
			if !in(configured, c) {
				canon = append(canon, "ignore_unpatched:-"+c)
			}
		}
		// the common constraints keep their order
		var a, b []string
		for _, c := range query {
			if in(configured, c) {
				a = append(a, c)
			}
		}
		for _, c := range configured {
			if in(query, c) {
				b = append(b, c)
			}
		}
		if strings.Join(a, ",") != strings.Join(b, ",") || (len(configured) > 0 && len(a) > 0 && configured[0] != a[0]) {
			canon = append(canon, "ignore_unpatched:reordered:"+strings.Join(configured, ","))
		}
	}
	if branches && len(canon) == 0 {
		canon = append(canon, "branches-on-state-no-configuration-explains")
	}
	if strings.Join(canon, "\x00") == strings.Join(snap.queryIfCanon, "\x00") {
		return append([]string{}, snap.queryIf...), nil
	}
	return canon, nil
}

// c03Pins reads the require lines of the three comparator libraries from go.mod.
func c03Pins(repo string) ([]string, error) {
	b, err := os.ReadFile(filepath.Join(repo, "go.mod"))
	if err != nil {
		return nil, err
	}
	var out []string
	for _, mod := range []string{"github.com/knqyf263/go-apk-version", "github.com/knqyf263/go-deb-version", "github.com/knqyf263/go-rpm-version"} {
		found := ""
		for _, line := range strings.Split(string(b), "\n") {
			f := strings.Fields(line)
			if len(f) >= 2 && f[0] == mod {
				found = f[0] + " " + f[1]
			} else if len(f) >= 3 && f[0] == "require" && f[1] == mod {
				found = f[1] + " " + f[2]
			} else if len(f) >= 4 && f[0] == "replace" && f[1] == mod {
				found = strings.Join(f[1:], " ")
				break
			}
		}
		if found == "" {
			return nil, fmt.Errorf("go.mod: no requirement for %s", mod)
		}
		out = append(out, found)
	}
	return out, nil
}

// rxDefaults: what importing matchers/defaults registers (evaluated: the probe
// lists the registry): the matchers registered through driver.MatcherStatic, by
// the Go type of the matcher, and the names registered with a factory of their
// own.  The snapshot's spelling and order (the element expressions of the
// `defaultMatchers` slice) are used for the entries it knows.
func rxDefaults(registered []struct {
	Name, Factory string
	Matchers      []string
}) (defs, facs []string) {
	static := map[string]bool{}
	own := map[string]bool{}
	for _, r := range registered {
		if r.Factory == "driver.MatcherFactoryFunc" {
			for _, m := range r.Matchers {
				static[strings.TrimPrefix(m, "*")] = true
			}
			if len(r.Matchers) == 0 {
				static[r.Name+":hands out no matcher"] = true
			}
		} else {
			own[r.Name+":"+strings.TrimPrefix(r.Factory, "*")] = true
		}
	}
	for _, sn := range rxSnapDefaults {
		if static[sn[1]] {
			defs = append(defs, sn[0])
			delete(static, sn[1])
		}
	}
	rest := rxSet{}
	for k := range static {
		rest.add(k)
	}
	defs = append(defs, rest.sorted()...)
	rest = rxSet{}
	for k := range own {
		rest.add(k)
	}
	facs = rest.sorted()
	if defs == nil {
		defs = []string{}
	}
	if facs == nil {
		facs = []string{}
	}
	return defs, facs
}

// rxQueryBuilderFacts evaluates datastore/postgres buildGetQuery (probe
// "querybuilder"): the record given to it holds, in every field, a marker naming
// the field, so the condition a constraint adds to the WHERE clause tells the
// column and the record field it compares; building the query again without the
// distribution / repository tells which part a constraint needs; building it with
// version filtering tells the database-side range test.  The `VersionRange(...)`
// constructor calls of the insert statement are read from the string constants of
// the package.
func rxQueryBuilderFacts(repo string) (need, cols, rangeTest []string, err error) {
	drv, err := rxLoadPkg(repo, "libvuln/driver")
	if err != nil {
		return nil, nil, nil, err
	}
	cNames, cVals, err := drv.IotaNames("MatchConstraint")
	if err != nil {
		return nil, nil, nil, err
	}
	var ans struct {
		Base, VersionFilter, KindMarker, DistCPE, RepoCPE string
		Constraints                                       []struct {
			C                               int
			SQL, Err, State, NoDist, NoRepo string
			Twice                           bool
		}
	}
	ints := make([]int, len(cVals))
	for i, v := range cVals {
		ints[i] = int(v)
	}
	if err := rxProbe(repo, "querybuilder", map[string]any{"constraints": ints}, &ans); err != nil {
		return nil, nil, nil, err
	}
	if ans.Base == "" || len(ans.Constraints) != len(ints) {
		return nil, nil, nil, fmt.Errorf("querybuilder probe: no base query or short answer")
	}
	// the conditions of a WHERE clause: ("column" op 'value')
	condRe := regexp.MustCompile(`\("([A-Za-z_."]+)" (=|!=|<>|<|>|<=|>=|LIKE|IS NOT|IS) ('(?:[^']|'')*'|NULL|TRUE|FALSE|-?[0-9]+)\)`)
	conds := func(sql string) map[string][3]string {
		m := map[string][3]string{}
		for _, g := range condRe.FindAllStringSubmatch(sql, -1) {
			m[g[0]] = [3]string{g[1], g[2], g[3]}
		}
		return m
	}
	base := conds(ans.Base)
	field := func(lit string) string {
		v := strings.ReplaceAll(strings.Trim(lit, "'"), "''", "'")
		switch {
		case strings.HasPrefix(v, "~rx:") && strings.HasSuffix(v, "~"):
			return v[4 : len(v)-1]
		case v == ans.DistCPE:
			return "Distribution.CPE"
		case v == ans.RepoCPE:
			return "Repository.CPE"
		}
		return ""
	}
	gotCols := map[string]bool{}
	gotNeed := map[string]bool{}
	var colOrder, needOrder []string
	for i, c := range ans.Constraints {
		name := cNames[i]
		if c.State != "ok" {
			continue // a constraint buildGetQuery does not know (or cannot build): no row
		}
		var added [][3]string
		var keys []string
		for k := range conds(c.SQL) {
			if _, ok := base[k]; !ok {
				keys = append(keys, k)
			}
		}
		sort.Strings(keys)
		cs := conds(c.SQL)
		for _, k := range keys {
			added = append(added, cs[k])
		}
		if len(added) == 0 {
			row := name + ":no condition recognised in the query text"
			gotCols[row] = true
			colOrder = append(colOrder, row)
		}
		for _, a := range added {
			var row string
			f := field(a[2])
			switch {
			case a[1] == "=" && f != "":
				row = name + ":" + a[0] + ":" + f
			case a[1] == "!=" && a[2] == "''":
				row = name + ":" + a[0] + ":!= ''"
			default:
				row = name + ":" + a[0] + ":" + a[1] + " " + a[2]
			}
			gotCols[row] = true
			colOrder = append(colOrder, row)
		}
		if !c.Twice {
			row := name + ":named twice changes the query"
			gotCols[row] = true
			colOrder = append(colOrder, row)
		}
		for part, st := range map[string]string{"Distribution": c.NoDist, "Repository": c.NoRepo} {
			switch st {
			case "ok":
			case "err":
				gotNeed[name+":"+part] = true
			default:
				gotNeed[name+":"+part+":"+st] = true
			}
		}
	}
	for k := range gotNeed {
		needOrder = append(needOrder, k)
	}
	sort.Strings(needOrder)
	// print in the snapshot's order and spelling what the snapshot lists, then the rest
	for _, r := range rxSnapQueryNeeds {
		if gotNeed[r] {
			need = append(need, r)
			delete(gotNeed, r)
		}
	}
	for _, r := range needOrder {
		if gotNeed[r] {
			need = append(need, r)
		}
	}
	for _, r := range rxSnapQueryColumns {
		if gotCols[r[1]] {
			cols = append(cols, r[0])
			delete(gotCols, r[1])
		}
	}
	for _, r := range colOrder {
		if gotCols[r] {
			cols = append(cols, r)
			delete(gotCols, r)
		}
	}
	if len(need) == 0 || len(cols) == 0 {
		return nil, nil, nil, fmt.Errorf("querybuilder: no constraint produced a condition / needs no part of the record")
	}
	// ---- version filtering
	vf := conds(ans.VersionFilter)
	kindCond := ""
	for k, c := range vf {
		if _, ok := base[k]; !ok && field(c[2]) == "Package.NormalizedVersion.Kind" {
			kindCond = c[0] + " " + c[1]
		}
	}
	sp := rxSnapRangeTest
	expect := sp[4] + sp[0] + strings.Join([]string{"1", "2", "3", "4", "5", "6", "7", "8", "9", "10"}, sp[1]) + sp[2]
	if kindCond == sp[3]+" =" && strings.Contains(ans.VersionFilter, " AND "+expect+")") && !strings.Contains(ans.Base, sp[4]) {
		rangeTest = append(rangeTest, sp...)
	} else {
		// what version filtering adds, as text
		i := 0
		for i < len(ans.Base) && i < len(ans.VersionFilter) && ans.Base[i] == ans.VersionFilter[i] {
			i++
		}
		j := 0
		for j < len(ans.Base)-i && j < len(ans.VersionFilter)-i && ans.Base[len(ans.Base)-1-j] == ans.VersionFilter[len(ans.VersionFilter)-1-j] {
			j++
		}
		rangeTest = append(rangeTest, "version filtering adds: "+ans.VersionFilter[i:len(ans.VersionFilter)-j])
	}
	// ---- the range constructor of the insert statement
	pg, err := rxLoadPkg(repo, "datastore/postgres")
	if err != nil {
		return nil, nil, nil, err
	}
	n := 0
	var ctor []string
	for _, f := range pg.files {
		ast.Inspect(f, func(m ast.Node) bool {
			if bl, ok := m.(*ast.BasicLit); ok && bl.Kind == token.STRING {
				if s, err := strconv.Unquote(bl.Value); err == nil {
					rest := s
					for {
						i := strings.Index(rest, "VersionRange(")
						if i < 0 {
							break
						}
						j := strings.Index(rest[i:], ")")
						if j < 0 {
							break
						}
						ctor = append(ctor, rest[i:i+j+1])
						rest = rest[i+j+1:]
						n++
					}
				}
			}
			return true
		})
	}
	if n == 0 {
		return nil, nil, nil, fmt.Errorf("datastore/postgres: no VersionRange(...) constructor found in the statements")
	}
	rangeTest = append(rangeTest, ctor...)
	return need, cols, rangeTest, nil
}
