package extract

import (
	"fmt"
	"go/ast"
	"go/token"
	"path/filepath"
	"strings"
)

// Feeds (property C14): the string constants and regular-expression sources
// the hand-written feed-parser models depend on.  The models hard-code how
// these regular expressions match; Props/C14 states that the sources are still
// the ones the models were written for.
//
// Shape-robust (design/EXTRACT.md): constants are looked up by name in the
// whole package and folded (a literal, a concatenation, a reference to another
// constant); a regular expression is `<name> = regexp.MustCompile(<constant
// expression>)` in a var declaration or an assignment (init) anywhere in the
// package; the osv repository table and rhcc's GoldRepo are evaluated by the
// probe program go/cmd/rxprobe/feeds.

// regexpSource finds the one `<name> = regexp.MustCompile|MustCompilePOSIX(<constant expression>)`
// of the package (var declaration or assignment statement).
func regexpSource(p *rxPkg, name string) (string, error) {
	var vals []string
	n := 0
	grab := func(file *ast.File, scope *rxScope, lhs ast.Expr, rhs ast.Expr) {
		id, ok := lhs.(*ast.Ident)
		if !ok || id.Name != name {
			return
		}
		call, ok := rhs.(*ast.CallExpr)
		if !ok || len(call.Args) != 1 {
			return
		}
		sel, ok := call.Fun.(*ast.SelectorExpr)
		if !ok || (sel.Sel.Name != "MustCompile" && sel.Sel.Name != "MustCompilePOSIX") {
			return
		}
		if pk, ok := sel.X.(*ast.Ident); !ok || rxImportPath(file, pk.Name) != "regexp" {
			return
		}
		n++
		if s, ok := scope.Str(call.Args[0]); ok {
			if sel.Sel.Name == "MustCompilePOSIX" {
				s = "POSIX:" + s
			}
			vals = append(vals, s)
		}
	}
	for _, f := range p.files {
		for _, d := range f.Decls {
			switch x := d.(type) {
			case *ast.GenDecl:
				for _, sp := range x.Specs {
					if vs, ok := sp.(*ast.ValueSpec); ok {
						for i := range vs.Names {
							if i < len(vs.Values) {
								grab(f, p.Scope(f), vs.Names[i], vs.Values[i])
							}
						}
					}
				}
			case *ast.FuncDecl:
				if x.Body == nil {
					continue
				}
				sc := p.ScopeOf(x)
				local := false // a local variable of the same name shadows the package variable
				ast.Inspect(x.Body, func(nd ast.Node) bool {
					if as, ok := nd.(*ast.AssignStmt); ok && as.Tok == token.DEFINE {
						for _, l := range as.Lhs {
							if id, ok := l.(*ast.Ident); ok && id.Name == name {
								local = true
							}
						}
					}
					return true
				})
				if local {
					continue
				}
				ast.Inspect(x.Body, func(nd ast.Node) bool {
					if as, ok := nd.(*ast.AssignStmt); ok {
						for i := range as.Lhs {
							if i < len(as.Rhs) {
								grab(f, sc, as.Lhs[i], as.Rhs[i])
							}
						}
					}
					return true
				})
			}
		}
	}
	if n != 1 || len(vals) != 1 {
		return "", fmt.Errorf("%s: expected exactly one `%s = regexp.MustCompile(<constant>)`, found %d (%d with a constant argument)", p.dir, name, n, len(vals))
	}
	return vals[0], nil
}

func init() {
	Register(Gen{Name: "Feeds", Run: func(repo string) (string, error) {
		out := Header("Feeds", "alpine/parser.go", "debian/parser.go", "updater/osv/osv.go", "pkg/ovalutil/rpm.go", "pkg/ovalutil/dpkg.go", "rhel/repositoryscanner.go", "rhel/vex/updater.go", "rhel/rhcc/rhcc.go")
		consts := []struct{ file, name, lean string }{
			{"alpine/parser.go", "cveURLPrefix", "alpineLinkPrefix"},
			{"debian/parser.go", "linkPrefix", "debianLinkPrefix"},
			{"updater/osv/osv.go", "ecosystemGo", "osvEcosystemGo"},
			{"updater/osv/osv.go", "ecosystemMaven", "osvEcosystemMaven"},
			{"updater/osv/osv.go", "ecosystemNPM", "osvEcosystemNPM"},
			{"updater/osv/osv.go", "ecosystemPyPI", "osvEcosystemPyPI"},
			{"updater/osv/osv.go", "ecosystemRubyGems", "osvEcosystemRubyGems"},
			{"pkg/ovalutil/rpm.go", "CVEDefinition", "ovalDefCve"},
			{"pkg/ovalutil/rpm.go", "UnaffectedDefinition", "ovalDefUnaffected"},
			{"pkg/ovalutil/rpm.go", "NoneDefinition", "ovalDefNone"},
			{"rhel/repositoryscanner.go", "repositoryKey", "rhelRepositoryKey"},
			{"rhel/vex/updater.go", "repoKey", "vexRepoKey"},
		}
		for _, c := range consts {
			p, err := rxLoadPkg(repo, filepath.Dir(c.file))
			if err != nil {
				return "", err
			}
			v, err := p.StrConst(c.name)
			if err != nil {
				return "", err
			}
			out += fmt.Sprintf("/-- %s %s -/\ndef %s : String := %s\n\n", c.file, c.name, c.lean, LeanString(v))
		}
		res := []struct{ file, name, lean string }{
			{"pkg/ovalutil/rpm.go", "moduleCommentRegex", "ovalModuleCommentRegex"},
			{"pkg/ovalutil/rpm.go", "definitionTypeRegex", "ovalDefinitionTypeRegex"},
			{"pkg/ovalutil/dpkg.go", "validVersion", "ovalValidVersionRegex"},
		}
		for _, c := range res {
			p, err := rxLoadPkg(repo, filepath.Dir(c.file))
			if err != nil {
				return "", err
			}
			v, err := regexpSource(p, c.name)
			if err != nil {
				return "", err
			}
			out += fmt.Sprintf("/-- %s %s (regexp source) -/\ndef %s : String := %s\n\n", c.file, c.name, c.lean, LeanString(v))
		}
		// updater/osv (*ecs).LookupRepository: repository name -> URI, evaluated on
		// every string literal of the package ∪ the snapshot's names ∪ fresh probes
		osvPkg, err := rxLoadPkg(repo, "updater/osv")
		if err != nil {
			return "", err
		}
		cands := rxSet{}
		cands.add(rxSnapOsvRepos...)
		for _, s := range osvPkg.StringLits() {
			if len(s) <= 64 && !strings.ContainsAny(s, "\n%") {
				cands.add(s, rxASCIILower(s), rxASCIIUpper(s))
			}
		}
		for _, s := range rxSnapOsvRepos {
			cands.add(rxCaseVariants(s)...)
			cands.add(rxLooseVariants(s)...)
		}
		cands.add(rxSevFresh...)
		cands.add("")
		names := cands.sorted()
		var ans struct {
			Repos []struct {
				Name, URI, Key string
				Other          bool
			} `json:"repos"`
			Gold struct {
				Name, URI, Key string
				Other          bool
			} `json:"gold"`
		}
		if err := rxProbe(repo, "feeds", map[string]any{"repos": names}, &ans); err != nil {
			return "", err
		}
		if len(ans.Repos) != len(names) {
			return "", fmt.Errorf("feeds probe: %d answers for %d questions", len(ans.Repos), len(names))
		}
		uri := map[string]string{}
		for i, n := range names {
			r := ans.Repos[i]
			if r.Name != n || r.Key != "" || r.Other {
				return "", fmt.Errorf("LookupRepository(%q) sets more than Name = name and URI (Name %q, Key %q, other fields %v): outside what the table can say", n, r.Name, r.Key, r.Other)
			}
			uri[n] = r.URI
		}
		for _, p := range rxSevFresh {
			if uri[p] != "" {
				return "", fmt.Errorf("LookupRepository gives an unknown name the URI %q: outside what the table can say", uri[p])
			}
		}
		out += "/-- updater/osv/osv.go (*ecs).LookupRepository: repository name ↦ URI -/\ndef osvRepoURIs : List (String × String) := ["
		var rows []string
		listed := map[string]bool{}
		for _, n := range rxSnapOsvRepos {
			rows = append(rows, "("+LeanString(n)+", "+LeanString(uri[n])+")")
			listed[n] = true
		}
		for _, n := range names {
			if !listed[n] && uri[n] != "" {
				rows = append(rows, "("+LeanString(n)+", "+LeanString(uri[n])+")")
			}
		}
		out += strings.Join(rows, ", ") + "]\n\n"
		// rhel/rhcc GoldRepo (evaluated)
		if ans.Gold.Other {
			return "", fmt.Errorf("rhel/rhcc/rhcc.go: GoldRepo sets a field besides Name, Key and URI, which the model does not render")
		}
		out += fmt.Sprintf("/-- rhel/rhcc/rhcc.go GoldRepo, rendered Name|Key|URI -/\ndef rhccGoldRepoKey : String := %s\n\n",
			LeanString(ans.Gold.Name+"|"+ans.Gold.Key+"|"+ans.Gold.URI))
		return out + Footer("Feeds"), nil
	}})
}
