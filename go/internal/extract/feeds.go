package extract

import (
	"fmt"
	"go/ast"
	"go/token"
	"strconv"
)

// Feeds (property C14): the string constants and regular-expression sources
// the hand-written feed-parser models depend on.  The models hard-code how
// these regular expressions match; Props/C14 states that the sources are still
// the ones the models were written for.

// regexpSource finds `<name> = regexp.MustCompile(<lit>)` anywhere in the file
// (assignment statement or var declaration).
func regexpSource(f *ast.File, name string) (string, error) {
	var lit *ast.BasicLit
	n := 0
	grab := func(lhs ast.Expr, rhs ast.Expr) {
		id, ok := lhs.(*ast.Ident)
		if !ok || id.Name != name {
			return
		}
		call, ok := rhs.(*ast.CallExpr)
		if !ok || len(call.Args) != 1 {
			return
		}
		sel, ok := call.Fun.(*ast.SelectorExpr)
		if !ok || sel.Sel.Name != "MustCompile" {
			return
		}
		if pk, ok := sel.X.(*ast.Ident); !ok || pk.Name != "regexp" {
			return
		}
		if bl, ok := call.Args[0].(*ast.BasicLit); ok && bl.Kind == token.STRING {
			lit = bl
			n++
		}
	}
	ast.Inspect(f, func(nd ast.Node) bool {
		switch x := nd.(type) {
		case *ast.AssignStmt:
			for i := range x.Lhs {
				if i < len(x.Rhs) {
					grab(x.Lhs[i], x.Rhs[i])
				}
			}
		case *ast.ValueSpec:
			for i := range x.Names {
				if i < len(x.Values) {
					grab(x.Names[i], x.Values[i])
				}
			}
		}
		return true
	})
	if n != 1 {
		return "", fmt.Errorf("expected exactly one `%s = regexp.MustCompile(literal)`, found %d", name, n)
	}
	return strconv.Unquote(lit.Value)
}

// c14CompositeStrings reads `var <name> = T{Field: "lit", ...}` at file level:
// every field must be a string literal.
func c14CompositeStrings(f *ast.File, name string) (map[string]string, error) {
	for _, d := range f.Decls {
		gd, ok := d.(*ast.GenDecl)
		if !ok {
			continue
		}
		for _, sp := range gd.Specs {
			vs, ok := sp.(*ast.ValueSpec)
			if !ok {
				continue
			}
			for i, n := range vs.Names {
				if n.Name != name || i >= len(vs.Values) {
					continue
				}
				cl, ok := vs.Values[i].(*ast.CompositeLit)
				if !ok {
					return nil, fmt.Errorf("%s is not a composite literal", name)
				}
				out := map[string]string{}
				for _, e := range cl.Elts {
					kv, ok := e.(*ast.KeyValueExpr)
					if !ok {
						return nil, fmt.Errorf("%s: element without field name", name)
					}
					k, ok := kv.Key.(*ast.Ident)
					bl, ok2 := kv.Value.(*ast.BasicLit)
					if !ok || !ok2 || bl.Kind != token.STRING {
						return nil, fmt.Errorf("%s: field is not a string literal", name)
					}
					v, err := strconv.Unquote(bl.Value)
					if err != nil {
						return nil, err
					}
					out[k.Name] = v
				}
				return out, nil
			}
		}
	}
	return nil, fmt.Errorf("variable %s not found", name)
}

func init() {
	Register(Gen{Name: "Feeds", Run: func(repo string) (string, error) {
		out := Header("Feeds", "alpine/parser.go", "debian/parser.go", "updater/osv/osv.go", "pkg/ovalutil/rpm.go", "pkg/ovalutil/dpkg.go", "rhel/repositoryscanner.go", "rhel/vex/updater.go", "rhel/rhcc/rhcc.go")
		consts := []struct{ file, name, lean string }{
			{"alpine/parser.go", "cveURLPrefix", "alpineLinkPrefix"},
			{"debian/parser.go", "linkPrefix", "debianLinkPrefix"},
			{"updater/osv/osv.go", "ecosystemGo", "osvEcosystemGo"},
			{"updater/osv/osv.go", "ecosystemMaven", "osvEcosystemMaven"},
			{"updater/osv/osv.go", "ecosystemNPM", "osvEcosystemNPM"},
			{"updater/osv/osv.go", "ecosystemPyPI", "osvEcosystemPyPI"},
			{"updater/osv/osv.go", "ecosystemRubyGems", "osvEcosystemRubyGems"},
			{"pkg/ovalutil/rpm.go", "CVEDefinition", "ovalDefCve"},
			{"pkg/ovalutil/rpm.go", "UnaffectedDefinition", "ovalDefUnaffected"},
			{"pkg/ovalutil/rpm.go", "NoneDefinition", "ovalDefNone"},
			{"rhel/repositoryscanner.go", "repositoryKey", "rhelRepositoryKey"},
			{"rhel/vex/updater.go", "repoKey", "vexRepoKey"},
		}
		for _, c := range consts {
			_, f, err := ParseFile(repo, c.file)
			if err != nil {
				return "", err
			}
			v, err := StringConst(f, c.name)
			if err != nil {
				return "", fmt.Errorf("%s: %w", c.file, err)
			}
			out += fmt.Sprintf("/-- %s %s -/\ndef %s : String := %s\n\n", c.file, c.name, c.lean, LeanString(v))
		}
		res := []struct{ file, name, lean string }{
			{"pkg/ovalutil/rpm.go", "moduleCommentRegex", "ovalModuleCommentRegex"},
			{"pkg/ovalutil/rpm.go", "definitionTypeRegex", "ovalDefinitionTypeRegex"},
			{"pkg/ovalutil/dpkg.go", "validVersion", "ovalValidVersionRegex"},
		}
		for _, c := range res {
			_, f, err := ParseFile(repo, c.file)
			if err != nil {
				return "", err
			}
			v, err := regexpSource(f, c.name)
			if err != nil {
				return "", fmt.Errorf("%s: %w", c.file, err)
			}
			out += fmt.Sprintf("/-- %s %s (regexp source) -/\ndef %s : String := %s\n\n", c.file, c.name, c.lean, LeanString(v))
		}
		// updater/osv (*ecs).LookupRepository: repository name -> URI
		{
			_, f, err := ParseFile(repo, "updater/osv/osv.go")
			if err != nil {
				return "", err
			}
			fd := FuncDecl(f, "ecs", "LookupRepository")
			if fd == nil {
				return "", fmt.Errorf("updater/osv/osv.go: (*ecs).LookupRepository not found")
			}
			var sw *ast.SwitchStmt
			nsw := 0
			ast.Inspect(fd, func(n ast.Node) bool {
				if s, ok := n.(*ast.SwitchStmt); ok {
					sw = s
					nsw++
				}
				return true
			})
			if nsw != 1 {
				return "", fmt.Errorf("LookupRepository: expected one switch, found %d", nsw)
			}
			if id, ok := sw.Tag.(*ast.Ident); !ok || id.Name != "name" {
				return "", fmt.Errorf("LookupRepository: switch is not on name")
			}
			out += "/-- updater/osv/osv.go (*ecs).LookupRepository: repository name ↦ URI -/\ndef osvRepoURIs : List (String × String) := ["
			first := true
			for _, c := range sw.Body.List {
				cc := c.(*ast.CaseClause)
				if cc.List == nil {
					return "", fmt.Errorf("LookupRepository: unexpected default clause")
				}
				if len(cc.Body) != 1 {
					return "", fmt.Errorf("LookupRepository: case body is not one assignment")
				}
				as, ok := cc.Body[0].(*ast.AssignStmt)
				if !ok || len(as.Lhs) != 1 || len(as.Rhs) != 1 {
					return "", fmt.Errorf("LookupRepository: case body is not one assignment")
				}
				if sel, ok := as.Lhs[0].(*ast.SelectorExpr); !ok || sel.Sel.Name != "URI" {
					return "", fmt.Errorf("LookupRepository: assignment is not to .URI")
				}
				bl, ok := as.Rhs[0].(*ast.BasicLit)
				if !ok || bl.Kind != token.STRING {
					return "", fmt.Errorf("LookupRepository: URI is not a literal")
				}
				uri, _ := strconv.Unquote(bl.Value)
				for _, e := range cc.List {
					kl, ok := e.(*ast.BasicLit)
					if !ok || kl.Kind != token.STRING {
						return "", fmt.Errorf("LookupRepository: case label is not a literal")
					}
					k, _ := strconv.Unquote(kl.Value)
					if !first {
						out += ", "
					}
					first = false
					out += "(" + LeanString(k) + ", " + LeanString(uri) + ")"
				}
			}
			out += "]\n\n"
		}
		// rhel/rhcc/rhcc.go: var GoldRepo = claircore.Repository{Name: "...", URI: `...`}
		{
			_, f, err := ParseFile(repo, "rhel/rhcc/rhcc.go")
			if err != nil {
				return "", err
			}
			fields, err := c14CompositeStrings(f, "GoldRepo")
			if err != nil {
				return "", fmt.Errorf("rhel/rhcc/rhcc.go: %w", err)
			}
			for k := range fields {
				if k != "Name" && k != "URI" && k != "Key" {
					return "", fmt.Errorf("rhel/rhcc/rhcc.go: GoldRepo sets field %s, which the model does not render", k)
				}
			}
			out += fmt.Sprintf("/-- rhel/rhcc/rhcc.go GoldRepo, rendered Name|Key|URI -/\ndef rhccGoldRepoKey : String := %s\n\n",
				LeanString(fields["Name"]+"|"+fields["Key"]+"|"+fields["URI"]))
		}
		return out + Footer("Feeds"), nil
	}})
}
