package c11

import (
	"archive/tar"
	"fmt"
	"strings"
)

// encodeRaw turns a generated member list into entries for the hand writer,
// choosing for every member how its name, link target, size and time are
// carried. Every choice describes the same member, so the sequential decoding
// (the model's input) and the view must still agree.
func (x *runner) encodeRaw(specs []spec) []rawEntry {
	rnd, r := x.rnd, x.r
	pct := func(p int) bool { return rnd.Intn(100) < p }
	out := make([]rawEntry, 0, len(specs))
	for _, m := range specs {
		if strings.IndexByte(m.Name, 0) >= 0 || strings.IndexByte(m.Link, 0) >= 0 {
			continue
		}
		e := rawEntry{Typeflag: m.Typeflag, Name: m.Name, Link: m.Link, Data: m.Data, Mode: m.Mode & 0o7777}
		switch m.Typeflag {
		case tar.TypeReg, tar.TypeCont:
		default:
			e.Data = nil
		}
		if pct(15) && m.Typeflag == tar.TypeReg {
			e.Typeflag = 0 // the old spelling of a regular file
			r.Count("raw:typeflag-nul")
		}
		if pct(70) {
			e.MTime = int64(rnd.Intn(2000000000))
		}
		if pct(10) {
			// File-type bits in the mode field, consistent or not with the typeflag.
			e.Mode |= []int64{0o40000, 0o100000, 0o120000, 0o10000, 0o60000, 0o20000, 0o140000}[rnd.Intn(7)]
			r.Count("raw:mode-type-bits")
		}
		e.OldGNU = pct(30)
		if pct(8) {
			e.Name = strings.TrimSuffix(e.Name, "/") + "/" + strings.Repeat("n", 90+rnd.Intn(80))
			if m.Typeflag == tar.TypeDir {
				e.Name += "/"
			}
		}
		if pct(5) && e.Link != "" {
			e.Link = strings.Repeat("t", 101+rnd.Intn(60)) + "/../" + e.Link
		}
		pick := func(n int, long bool) int {
			switch {
			case long && (e.OldGNU || n > 255 || pct(50)):
				if pct(50) {
					return viaPax
				}
				return viaGNU
			case long:
				return viaField // prefix split
			case pct(12):
				return viaPax
			case pct(8):
				return viaGNU
			}
			return viaField
		}
		e.NameVia = pick(len(e.Name), len(e.Name) > 100)
		if e.NameVia == viaField && len(e.Name) > 100 {
			// The prefix split needs a slash in the right place; fall back.
			ok := false
			for i := len(e.Name) - 101; i < len(e.Name) && i <= 155; i++ {
				if i > 0 && e.Name[i] == '/' && len(e.Name)-i-1 <= 100 && len(e.Name)-i-1 > 0 {
					ok = true
					break
				}
			}
			if !ok {
				e.NameVia = viaPax
			}
		}
		e.LinkVia = pick(len(e.Link), len(e.Link) > 100)
		if e.LinkVia == viaField && len(e.Link) > 100 {
			e.LinkVia = viaGNU
		}
		e.PaxFirst = pct(50)
		if pct(10) {
			e.Pax = append(e.Pax, kv{"mtime", fmt.Sprintf("%d.%09d", rnd.Intn(2000000000), rnd.Intn(1000000000))})
			r.Count("raw:pax-mtime")
		}
		if pct(10) {
			e.Pax = append(e.Pax, kv{"comment", "made by hand"}, kv{"uid", "1234"})
		}
		if pct(10) && len(e.Data) > 0 {
			e.PaxSize = true
			r.Count("raw:pax-size")
		}
		if pct(5) {
			e.Global = []kv{{"comment", "global"}, {"path", "ignored-global-path"}, {"mtime", "1.5"}}
			r.Count("raw:global-header")
		}
		if pct(10) && e.OldGNU {
			e.Base256 = true
			r.Count("raw:base256")
		}
		if pct(4) {
			e.Before = []byte{'V', 'M', 'N', 'D', 'A'}[rnd.Intn(5)]
		}
		if (m.Typeflag == tar.TypeReg) && e.Typeflag != 0 && len(e.Data) > 0 && pct(12) {
			// A sparse file in PAX 1.0 format: fragments of the data, holes between.
			e.Sparse = x.sparseOf(&e)
			e.NameVia = viaField
			if len(e.Name) > 100 {
				e.Sparse = nil
			} else {
				r.Count("raw:pax-sparse")
				if e.Sparse.RealSize > int64(len(e.Data))+1024 {
					r.Count("raw:sparse-larger-than-segment")
				}
			}
		}
		if e.Before != 0 && (e.Sparse != nil || e.PaxSize) {
			// The records would describe the entry in between.
			e.Before = 0
		}
		if e.Before != 0 {
			r.Count("raw:unknown-typeflag-entry")
		}
		switch e.NameVia {
		case viaPax:
			r.Count("raw:pax-path")
		case viaGNU:
			r.Count("raw:gnu-longname")
		default:
			if len(e.Name) > 100 {
				r.Count("raw:ustar-prefix")
			}
		}
		if e.Link != "" {
			switch e.LinkVia {
			case viaPax:
				r.Count("raw:pax-linkpath")
			case viaGNU:
				r.Count("raw:gnu-longlink")
			}
		}
		if e.OldGNU {
			r.Count("raw:old-gnu-magic")
		}
		out = append(out, e)
	}
	return out
}

// sparseOf cuts the data of e into fragments with holes between them; the
// expanded file (what a reader yields) replaces e.Data.
func (x *runner) sparseOf(e *rawEntry) *rawSparse {
	rnd := x.rnd
	data := e.Data
	var exp []byte
	var holes [][2]int64
	for len(data) > 0 {
		hole := rnd.Intn(3) * 512
		if rnd.Intn(6) == 0 {
			hole = 4096 + rnd.Intn(3)*2048
		}
		exp = append(exp, make([]byte, hole)...)
		n := 1 + rnd.Intn(len(data))
		if n < len(data) {
			// fragments (but the last) are whole blocks in real archives; not required by the format
			n = len(data)
			if rnd.Intn(2) == 0 && len(data) > 1 {
				n = 1 + rnd.Intn(len(data)-1)
			}
		}
		holes = append(holes, [2]int64{int64(len(exp)), int64(n)})
		exp = append(exp, data[:n]...)
		data = data[n:]
	}
	if rnd.Intn(2) == 0 {
		exp = append(exp, make([]byte, rnd.Intn(3000))...)
	}
	e.Data = exp
	return &rawSparse{Holes: holes, RealSize: int64(len(exp))}
}
