package c11

import (
	"bytes"
	"errors"
	"fmt"
	"io"
	"io/fs"
	"path"
	"sort"
	"strings"
	"testing/fstest"
	"unicode/utf8"

	"github.com/quay/claircore/pkg/tarfs"
)

// failure is one way the statement failed on the implementation.
type failure struct {
	kind   string // which clause: contain, reject, walk, read, readdir, stat, follow, alias, absent, glob, sub, testfs, crash
	detail string
}

func describe(ms []member) string {
	var b strings.Builder
	for i, m := range ms {
		if i > 0 {
			b.WriteString("; ")
		}
		fmt.Fprintf(&b, "%c %q", m.Kind, m.Name)
		if m.Kind == 's' || m.Kind == 'l' {
			fmt.Fprintf(&b, "->%q", m.Link)
		}
		if m.Kind == 'r' {
			fmt.Fprintf(&b, "(%d)", len(m.Data))
		}
		if b.Len() > 700 {
			fmt.Fprintf(&b, " …(%d members)", len(ms))
			break
		}
	}
	return b.String()
}

// contained says whether a name stays inside the root: relative, no "..",
// "." or empty element, valid UTF-8.
func contained(n string) bool {
	if n == "." {
		return true
	}
	if n == "" || !utf8.ValidString(n) {
		return false
	}
	for _, e := range strings.Split(n, "/") {
		if e == "" || e == "." || e == ".." {
			return false
		}
	}
	return true
}

// checkContainment: every key of the lookup table, every stored member name
// and every stored link target is a contained name.
func checkContainment(sys *tarfs.FS) []failure {
	var fs []failure
	lk, ins := sys.TablesForVerif()
	for k := range lk {
		if !contained(k) {
			fs = append(fs, failure{"contain", fmt.Sprintf("lookup key %q is not a contained name", k)})
		}
	}
	for _, n := range ins {
		if !contained(n.Name) {
			fs = append(fs, failure{"contain", fmt.Sprintf("member name %q is not a contained name", n.Name)})
		}
		if k, _ := kindOf(n.Typeflag); (k == 's' || k == 'l') && !contained(n.Linkname) {
			fs = append(fs, failure{"contain", fmt.Sprintf("link target %q of %q is not a contained name", n.Linkname, n.Name)})
		}
		for _, c := range n.Children {
			if c < 0 || c >= len(ins) {
				fs = append(fs, failure{"contain", fmt.Sprintf("child index %d of %q is outside the inode table", c, n.Name)})
			}
		}
	}
	for k, i := range lk {
		if i < 0 || i >= len(ins) {
			fs = append(fs, failure{"contain", fmt.Sprintf("lookup key %q has index %d outside the inode table", k, i)})
		}
	}
	return fs
}

func sameEntries(es []fs.DirEntry, want []oentry, t *otree) (string, bool) {
	var got, exp []string
	for _, e := range es {
		got = append(got, e.Name()+":"+typeLetter(e.Type()))
	}
	for _, w := range want {
		exp = append(exp, path.Base(w.path)+":"+t.typeOf(w.node))
	}
	sort.Strings(got)
	sort.Strings(exp)
	g, e := strings.Join(got, ","), strings.Join(exp, ",")
	return fmt.Sprintf("got [%s] want [%s]", g, e), g == e
}

// kidsOf lists the direct children of a directory node in view spelling.
func kidsOf(t *otree, n *onode, prefix string) []oentry {
	var out []oentry
	for raw, k := range n.kids {
		p := escName(raw)
		if prefix != "" && prefix != "." {
			p = prefix + "/" + p
		}
		out = append(out, oentry{p, k})
	}
	sort.Slice(out, func(i, j int) bool { return out[i].path < out[j].path })
	return out
}

// readKind is the kind of a failed read of node n: refusing a member larger
// than its segment with ErrInvalid is the recorded finding, anything else is def.
func readKind(t *otree, n *onode, err error, def string) string {
	if err != nil && n != nil && t.oversized(n) && errors.Is(err, fs.ErrInvalid) {
		return "oversize"
	}
	return def
}

func readAll(sys fs.FS, p string) ([]byte, error) {
	f, err := sys.Open(p)
	if err != nil {
		return nil, err
	}
	defer f.Close()
	return io.ReadAll(f)
}

// compareView checks the view against the extraction of a well-formed archive.
func compareView(sys *tarfs.FS, t *otree, rnd func(int) int) []failure {
	var fails []failure
	add := func(kind, f string, a ...any) {
		if len(fails) < 6 {
			fails = append(fails, failure{kind, fmt.Sprintf(f, a...)})
		}
	}
	var want []oentry
	t.listing(t.root, "", &want)

	// 1. The walk lists exactly the extracted paths, in order, with their types.
	var got []string
	count := 0
	fs.WalkDir(sys, ".", func(p string, d fs.DirEntry, err error) error {
		count++
		if count > 4*len(want)+16 {
			return fs.SkipAll
		}
		if err != nil {
			got = append(got, p+":E")
			return nil
		}
		got = append(got, p+":"+typeLetter(d.Type()))
		return nil
	})
	exp := []string{".:d"}
	for _, w := range want {
		exp = append(exp, w.path+":"+t.typeOf(w.node))
	}
	if g, e := strings.Join(got, ","), strings.Join(exp, ","); g != e {
		add("walk", "WalkDir lists [%s], the extraction created [%s]", clip(g), clip(e))
	}

	// 2-4. Every path: Stat, content, directory listing.
	nPaged := 0
	all := append([]oentry{{".", t.root}}, want...)
	for _, w := range all {
		fi, err := sys.Stat(w.path)
		litKind := "stat"
		if w.node.kind == 's' && w.node.lit != pathOf(w.node) {
			// A link that was placed through another link.
			litKind = "stat-literal"
		}
		if err != nil {
			add(litKind, "Stat(%q): %v, but the extraction created it", w.path, err)
			continue
		}
		if tl := typeLetter(fi.Mode()); tl != t.typeOf(w.node) {
			add(litKind, "Stat(%q) has type %s, extraction has %s", w.path, tl, t.typeOf(w.node))
			continue
		}
		if fi.Name() != path.Base(w.path) {
			add("stat", "Stat(%q).Name() = %q", w.path, fi.Name())
		}
		// Mode and time are those of the member that made the node (for a file:
		// of its last occurrence). A file written through a link and the
		// directories nobody wrote a member for are left out.
		if !w.node.implied && w.path != "." && !t.flags.throughLink && !t.flags.aliasDup {
			if mb := modeBits(fi.Mode()); int64(mb) != w.node.mode {
				add("meta", "Stat(%q) has mode bits %o, the member has %o", w.path, mb, w.node.mode)
			}
			if mt := fi.ModTime(); mt.Unix() != w.node.mtimeS || mt.Nanosecond() != w.node.mtimeN {
				add("meta", "Stat(%q).ModTime() = %d.%09d, the member has %d.%09d", w.path, mt.Unix(), mt.Nanosecond(), w.node.mtimeS, w.node.mtimeN)
			}
		}
		switch w.node.kind {
		case 'f', 'h':
			data, _ := t.content(w.node)
			b, err := readAll(sys, w.path)
			if err != nil {
				kind := readKind(t, w.node, err, "read")
				if kind == "read" && t.flags.hlAlias && t.chainThroughAlias(w.node) && errors.Is(err, fs.ErrNotExist) {
					// The chain of this hard link goes through a link the view removed.
					kind = "hardlink-missing"
				}
				add(kind, "reading %q: %v", w.path, err)
			} else if !bytes.Equal(b, data) {
				add("read", "%q reads %d bytes (fnv %d), the last occurrence has %d bytes (fnv %d)", w.path, len(b), fnv(b), len(data), fnv(data))
			}
			if w.node.kind == 'f' && fi.Size() != int64(len(data)) {
				add("stat", "Stat(%q).Size() = %d, content has %d bytes", w.path, fi.Size(), len(data))
			}
			if w.node.kind == 'h' && fi.Size() != int64(len(data)) {
				add("hardlink-size", "Stat(%q).Size() = %d, reading the hard link yields %d bytes", w.path, fi.Size(), len(data))
			}
		case 'd':
			es, err := sys.ReadDir(w.path)
			if err != nil {
				add("readdir", "ReadDir(%q): %v", w.path, err)
				break
			}
			if msg, ok := sameEntries(es, kidsOf(t, w.node, w.path), t); !ok {
				add("readdir", "ReadDir(%q): %s", w.path, msg)
			}
			for i := 1; i < len(es); i++ {
				if es[i-1].Name() >= es[i].Name() {
					add("readdir", "ReadDir(%q) is not strictly sorted: %q before %q", w.path, es[i-1].Name(), es[i].Name())
				}
			}
			// The DirEntry's Info is the Stat of the entry.
			for _, e := range es {
				if len(es) > 40 || t.flags.throughLink {
					// (Stat of the real path of a link placed through a link
					// follows it: part of the finding literal-names.)
					break
				}
				ei, err1 := e.Info()
				si, err2 := fs.Stat(sys, path.Join(w.path, e.Name()))
				if err1 != nil || err2 != nil {
					continue // listed entries that do not resolve are reported by the walk
				}
				if ei.Name() != si.Name() || ei.Size() != si.Size() || ei.Mode() != si.Mode() || !ei.ModTime().Equal(si.ModTime()) {
					add("readdir", "ReadDir(%q): entry %q has Info %v %d %v, Stat of it gives %v %d %v", w.path, e.Name(), ei.Mode(), ei.Size(), ei.ModTime().Unix(), si.Mode(), si.Size(), si.ModTime().Unix())
				}
			}
			if nPaged < 4 && !t.flags.aliasDup { // with twins two Opens of one name may meet different inodes
				nPaged++
				for _, msg := range checkPaging(sys, w.path, es) {
					add("paging", "%s", msg)
				}
			}
			// Open and ReadDir agree.
			if f, err := sys.Open(w.path); err != nil {
				add("readdir", "Open(%q): %v", w.path, err)
			} else {
				if d, ok := f.(fs.ReadDirFile); !ok {
					add("readdir", "Open(%q) is not a ReadDirFile", w.path)
				} else if es2, err := d.ReadDir(-1); err != nil || len(es2) != len(es) {
					add("readdir", "Open(%q).ReadDir(-1): %d entries, err %v; ReadDir gave %d", w.path, len(es2), err, len(es))
				}
				f.Close()
			}
		case 's':
			// 5. Links resolve as inside the root.
			tn, why := t.resolve(lexClean(unesc(w.path, w.node)), true)
			f, err := sys.Open(w.path)
			switch {
			case tn == nil:
				if err == nil {
					f.Close()
					add("follow", "Open(%q) succeeds, but the link does not resolve (%s)", w.path, why)
				} else if why == "dangling" && !errors.Is(err, fs.ErrNotExist) {
					add("follow", "Open(%q) of a dangling link: %v, want not-exist", w.path, err)
				}
			case tn.kind == 'x':
				if err == nil {
					f.Close()
				}
			case err != nil:
				add(readKind(t, tn, err, "follow"), "Open(%q): %v, but the link resolves to %q", w.path, err, pathOf(tn))
			default:
				fi, _ := f.Stat()
				switch tn.kind {
				case 'd':
					d, ok := f.(fs.ReadDirFile)
					if !ok || !fi.IsDir() {
						add("follow", "Open(%q) is not a directory, the link resolves to directory %q", w.path, pathOf(tn))
						break
					}
					es, _ := d.ReadDir(-1)
					if msg, ok := sameEntries(es, kidsOf(t, tn, ""), t); !ok {
						add("follow", "Open(%q) lists %s", w.path, msg)
					}
				case 'f', 'h':
					data, _ := t.content(tn)
					b, err := io.ReadAll(f)
					if err != nil || !bytes.Equal(b, data) {
						add("follow", "Open(%q) reads %d bytes (fnv %d, err %v), the link resolves to %q with %d bytes (fnv %d)", w.path, len(b), fnv(b), err, pathOf(tn), len(data), fnv(data))
					}
				}
				f.Close()
			}
		}
	}

	// 6. The same file through every symbolic link to one of its directories.
	for _, w := range want {
		if w.node.kind != 's' {
			continue
		}
		tn, _ := t.resolve(lexClean(unesc(w.path, w.node)), true)
		if tn == nil || tn.kind != 'd' {
			continue
		}
		var below []oentry
		t.listing(tn, w.path, &below)
		for i, b := range below {
			if i >= 12 {
				break
			}
			if b.node.kind == 's' {
				// Whether Stat follows a link in final position is not part of this check.
				continue
			}
			fi, err := sys.Stat(b.path)
			if err != nil {
				kind := "alias"
				if tn.lit != strings.Join(w.node.lexTarget, "/") {
					// The directory is registered under another spelling than the link's target.
					kind = "alias-literal"
				}
				add(kind, "Stat(%q): %v, but %q is a link to directory %q which has that entry", b.path, err, w.path, pathOf(tn))
				continue
			}
			if b.node.kind != 's' && typeLetter(fi.Mode()) != t.typeOf(b.node) {
				add("alias", "Stat(%q) has type %s, want %s", b.path, typeLetter(fi.Mode()), t.typeOf(b.node))
			}
			if data, ok := t.content(b.node); ok {
				got, err := readAll(sys, b.path)
				if err != nil || !bytes.Equal(got, data) {
					add(readKind(t, b.node, err, "alias"), "%q reads %d bytes (err %v), want %d bytes", b.path, len(got), err, len(data))
				}
			}
		}
	}

	// 7. Names the extraction did not create do not exist.
	for i := 0; i < 8 && len(all) > 0; i++ {
		w := all[rnd(len(all))]
		cand := w.path + "/nonesuch"
		if w.path == "." {
			cand = "nonesuch"
		}
		if w.node.kind == 's' {
			continue
		}
		if _, err := sys.Stat(cand); !errors.Is(err, fs.ErrNotExist) {
			add("absent", "Stat(%q): %v, want not-exist", cand, err)
		}
		if _, err := sys.Open(cand); !errors.Is(err, fs.ErrNotExist) {
			add("absent", "Open(%q): %v, want not-exist", cand, err)
		}
	}
	for _, bad := range []string{"", "/", "/a", "a/", "./a", "a//b", "../a", "a/../b", "a/.", "\xff"} {
		if _, err := sys.Open(bad); !errors.Is(err, fs.ErrInvalid) {
			add("absent", "Open(%q): %v, want invalid", bad, err)
		}
	}
	return fails
}

// checkPaging checks the ReadDir(n) contract of io/fs on a handle of the
// directory p, whose listing is es: n <= 0 hands out all the remaining entries
// and no error (also at the end); n > 0 hands out at most n entries, in
// listing order, and io.EOF exactly when nothing is left.
func checkPaging(sys fs.FS, p string, es []fs.DirEntry) (msgs []string) {
	open := func() fs.ReadDirFile {
		f, err := sys.Open(p)
		if err != nil {
			return nil
		}
		d, _ := f.(fs.ReadDirFile)
		return d
	}
	names := func(es []fs.DirEntry) string {
		var s []string
		for _, e := range es {
			s = append(s, e.Name())
		}
		return strings.Join(s, ",")
	}
	defer func() {
		if e := recover(); e != nil {
			msgs = append(msgs, fmt.Sprintf("ReadDir on a handle of %q panics: %v", p, e))
		}
	}()
	for _, n := range []int{0, -1, -7} {
		d := open()
		if d == nil {
			return
		}
		got, err := d.ReadDir(n)
		if err != nil || names(got) != names(es) {
			msgs = append(msgs, fmt.Sprintf("Open(%q).ReadDir(%d) = [%s], %v; the directory has [%s]", p, n, names(got), err, names(es)))
		}
		again, err := d.ReadDir(n)
		if err != nil || len(again) != 0 {
			msgs = append(msgs, fmt.Sprintf("Open(%q): a second ReadDir(%d) = [%s], %v; want nothing and no error", p, n, names(again), err))
		}
		d.Close()
	}
	for _, n := range []int{1, 2, 3} {
		d := open()
		if d == nil {
			return
		}
		var all []fs.DirEntry
		for i := 0; i <= len(es)+1; i++ {
			got, err := d.ReadDir(n)
			if err == io.EOF {
				if len(got) != 0 || len(all) != len(es) {
					msgs = append(msgs, fmt.Sprintf("Open(%q).ReadDir(%d): io.EOF after %d of %d entries (with %d entries)", p, n, len(all), len(es), len(got)))
				}
				break
			}
			if err != nil || len(got) == 0 || len(got) > n {
				msgs = append(msgs, fmt.Sprintf("Open(%q).ReadDir(%d) hands out %d entries, err %v", p, n, len(got), err))
				break
			}
			all = append(all, got...)
		}
		if names(all) != names(es) {
			msgs = append(msgs, fmt.Sprintf("Open(%q): pages of %d give [%s], the directory has [%s]", p, n, names(all), names(es)))
		}
		d.Close()
	}
	return
}

// unesc recovers the raw real path of an extraction node (resolution works on raw names).
func unesc(_ string, n *onode) string { return pathOf(n) }

func clip(s string) string {
	if len(s) > 300 {
		return s[:300] + "…"
	}
	return s
}

// compareGlob checks Glob against the extracted paths.
func compareGlob(sys *tarfs.FS, t *otree, pats []string) []failure {
	var fails []failure
	var want []oentry
	t.listing(t.root, "", &want)
	for _, pat := range pats {
		got, err := sys.Glob(pat)
		if err != nil {
			fails = append(fails, failure{"glob", fmt.Sprintf("Glob(%q): %v", pat, err)})
			continue
		}
		var exp []string
		for _, w := range want {
			if ok, _ := path.Match(pat, w.path); ok {
				exp = append(exp, w.path)
			}
		}
		sort.Strings(exp)
		var g []string
		for _, n := range got {
			if n != "." {
				g = append(g, n)
			}
		}
		if !sort.StringsAreSorted(got) {
			fails = append(fails, failure{"glob", fmt.Sprintf("Glob(%q) is not sorted: %q", pat, got)})
		}
		if strings.Join(g, "\x00") != strings.Join(exp, "\x00") {
			kind := "glob"
			if t.flags.hlAlias && onlyAliasHardlinksMissing(t, want, g, exp) {
				// The names missing from the answer are exactly hard links whose
				// target is spelled through a link (removed by New as dangling).
				kind = "hardlink-missing"
			}
			fails = append(fails, failure{kind, fmt.Sprintf("Glob(%q) = %q, the extraction has %q", pat, clipList(g), clipList(exp))})
		}
	}
	return fails
}

// onlyAliasHardlinksMissing: got is exp minus a non-empty set of names, each of
// which is a hard link whose target spelling is not the name its file was
// registered under (the shape of the finding hardlink-alias-target).
func onlyAliasHardlinksMissing(t *otree, want []oentry, got, exp []string) bool {
	have := map[string]bool{}
	for _, n := range got {
		have[n] = true
	}
	inExp := map[string]bool{}
	for _, n := range exp {
		inExp[n] = true
	}
	for _, n := range got {
		if !inExp[n] {
			return false
		}
	}
	byPath := map[string]*onode{}
	for _, w := range want {
		byPath[w.path] = w.node
	}
	missing := 0
	for _, n := range exp {
		if have[n] {
			continue
		}
		missing++
		nd := byPath[n]
		if nd == nil || nd.kind != 'h' {
			return false
		}
		first, _ := t.resolve(lexClean(nd.target), false)
		if first == nil || first.lit == strings.Join(lexClean(nd.target), "/") {
			return false
		}
	}
	return missing > 0
}

func clipList(xs []string) []string {
	if len(xs) > 12 {
		return append(append([]string{}, xs[:12]...), fmt.Sprintf("…(%d)", len(xs)))
	}
	return xs
}

// compareSub checks Sub(dir): the walk of the sub view is the extracted
// subtree, and nothing outside of it can be opened.
func compareSub(sys *tarfs.FS, t *otree, dir oentry) []failure {
	var fails []failure
	sub, err := sys.Sub(dir.path)
	if err != nil {
		return []failure{{"sub", fmt.Sprintf("Sub(%q): %v", dir.path, err)}}
	}
	lk, _ := sys.TablesForVerif()
	var want []oentry
	t.listing(dir.node, "", &want)
	exp := []string{".:d"}
	for _, w := range want {
		exp = append(exp, w.path+":"+t.typeOf(w.node))
	}
	var got []string
	count := 0
	fs.WalkDir(sub, ".", func(p string, d fs.DirEntry, err error) error {
		count++
		if count > 4*len(want)+16 {
			return fs.SkipAll
		}
		if err != nil {
			got = append(got, p+":E")
			return nil
		}
		got = append(got, p+":"+typeLetter(d.Type()))
		return nil
	})
	if g, e := strings.Join(got, ","), strings.Join(exp, ","); g != e {
		fails = append(fails, failure{"sub", fmt.Sprintf("Sub(%q) walks [%s], the extracted subtree is [%s]", dir.path, clip(g), clip(e))})
	}
	linkFail := false
	for _, w := range want {
		if data, ok := t.content(w.node); ok {
			b, err := readAll(sub, w.path)
			if err != nil || !bytes.Equal(b, data) {
				kind := "sub"
				if readKind(t, w.node, err, "") == "oversize" {
					fails = append(fails, failure{"oversize", fmt.Sprintf("Sub(%q): reading %q: %v", dir.path, w.path, err)})
					continue
				}
				if w.node.kind == 'h' && dir.path != "." {
					if linkFail {
						continue
					}
					kind, linkFail = "sub-link", true
				}
				fails = append(fails, failure{kind, fmt.Sprintf("Sub(%q): %q reads %d bytes (err %v), want %d", dir.path, w.path, len(b), err, len(data))})
				if kind == "sub" {
					break
				}
			}
		}
		if w.node.kind == 's' && dir.path != "." && !linkFail {
			// A link whose target lies inside the subtree resolves in the sub view too.
			tn, _ := t.resolve(lexClean(pathOf(w.node)), true)
			if tn != nil && (tn.kind == 'f' || tn.kind == 'd') && (pathOf(tn) == pathOf(dir.node) || strings.HasPrefix(pathOf(tn), pathOf(dir.node)+"/")) {
				if f, err := sub.Open(w.path); err != nil && readKind(t, tn, err, "") == "oversize" {
					fails = append(fails, failure{"oversize", fmt.Sprintf("Sub(%q): Open(%q): %v", dir.path, w.path, err)})
				} else if err != nil {
					fails = append(fails, failure{"sub-link", fmt.Sprintf("Sub(%q): Open(%q): %v, but the link resolves to %q inside the subtree", dir.path, w.path, err, pathOf(tn))})
					linkFail = true
				} else {
					f.Close()
				}
			}
		}
	}
	// Every name the sub view can list or glob lies in the subtree.
	inSub := map[string]bool{".": true}
	for _, w := range want {
		inSub[w.path] = true
	}
	if g, ok := sub.(fs.GlobFS); ok {
		for _, pat := range []string{"*", "*/*", "*/*/*"} {
			ns, _ := g.Glob(pat)
			for _, n := range ns {
				if !inSub[n] {
					fails = append(fails, failure{"sub", fmt.Sprintf("Sub(%q).Glob(%q) yields %q, which is not in the subtree", dir.path, pat, n)})
				}
			}
		}
	}
	// Siblings of the directory are not reachable under a trimmed name.
	if dir.node.parent != nil {
		base := path.Base(dir.path)
		for raw, sib := range dir.node.parent.kids {
			sn := escName(raw)
			if sn != base && strings.HasPrefix(sn, base) {
				rest := strings.TrimPrefix(sn, base)
				var below []oentry
				t.listing(sib, rest, &below)
				for _, b := range append([]oentry{{rest, sib}}, below...) {
					if !fs.ValidPath(b.path) {
						continue
					}
					if _, err := sub.Open(b.path); err == nil && !inSub[b.path] {
						kind := "sub"
						full := dir.path + "/" + b.path
						if _, isKey := lk[full]; isKey && t.flags.throughLink && utf8.ValidString(full) && t.realNode(strings.Split(full, "/")) == nil {
							// The name is a key only because a member placed through a
							// link was registered under its literal name.
							kind = "alias-literal"
						}
						fails = append(fails, failure{kind, fmt.Sprintf("Sub(%q) opens %q, which is %q outside the subtree", dir.path, b.path, sn+strings.TrimPrefix(b.path, rest))})
					}
				}
			}
		}
	}
	return fails
}

// runTestFS runs testing/fstest.TestFS with the regular files and
// directories the extraction created.
func runTestFS(sys *tarfs.FS, t *otree) []failure {
	var want []oentry
	t.listing(t.root, "", &want)
	var exp []string
	for _, w := range want {
		exp = append(exp, w.path)
	}
	if err := fstest.TestFS(sys, exp...); err != nil {
		kind := "testfs"
		if onlySymlinkStat(err.Error(), want) {
			kind = "testfs-symlink-stat"
		} else if onlySubLinks(err.Error(), want) {
			kind = "testfs-sub-link"
		}
		return []failure{{kind, "fstest.TestFS: " + clip(strings.ReplaceAll(err.Error(), "\n", " | "))}}
	}
	return nil
}

// onlySymlinkStat says whether every complaint of fstest.TestFS is that
// fs.Stat of a symbolic link differs from Open+Stat of it.
func onlySymlinkStat(msg string, want []oentry) bool {
	links := map[string]bool{}
	for _, w := range want {
		if w.node.kind == 's' {
			links[w.path] = true
		}
	}
	lines := strings.Split(msg, "\n")
	n := 0
	for _, l := range lines[1:] {
		if strings.HasPrefix(l, "\twant ") || strings.TrimSpace(l) == "" {
			continue
		}
		i := strings.Index(l, ": ")
		if i < 0 || !links[l[:i]] {
			return false
		}
		rest := l[i+2:]
		if !strings.HasPrefix(rest, "fs.Stat(...) = ") && !strings.HasPrefix(rest, "fsys.Stat(...) = ") {
			return false
		}
		n++
	}
	return n > 0
}

// onlySubLinks says whether every complaint of fstest.TestFS comes from its
// test of fs.Sub and is about opening a link inside the sub view.
func onlySubLinks(msg string, want []oentry) bool {
	const pre = "testing fs.Sub(fsys, "
	if !strings.HasPrefix(msg, pre) {
		return false
	}
	lines := strings.Split(msg, "\n")
	i := strings.Index(lines[0], "):")
	if i < 0 {
		return false
	}
	dir := lines[0][len(pre):i]
	links := map[string]bool{}
	for _, w := range want {
		if (w.node.kind == 's' || w.node.kind == 'h') && strings.HasPrefix(w.path, dir+"/") {
			links[w.path[len(dir)+1:]] = true
		}
	}
	n := 0
	for _, l := range lines[1:] {
		if strings.HasPrefix(l, "\t") || strings.TrimSpace(l) == "" {
			continue
		}
		j := strings.Index(l, ": ")
		if j < 0 || !links[l[:j]] {
			return false
		}
		n++
	}
	return n > 0
}
