package c11

import (
	"archive/tar"
	"fmt"
	"io/fs"
	"path"
	"sort"
	"strings"

	"github.com/quay/claircore/pkg/tarfs"
)

// classify maps a failure on an archive to the id of a listed finding, or ""
// (unclassified) when it is not of exactly such a shape.
func classify(t *otree, f failure) string {
	switch {
	case f.kind == "oversize":
		// Open refuses a member whose header size exceeds its segment.
		return "sparse-oversize-refused"
	case f.kind == "hardlink-size":
		// Stat of a hard link reports the link's header (size 0).
		return "hardlink-stat-size"
	case t.flags.aliasDup && f.kind == "dup":
		return "alias-duplicate"
	case t.flags.throughLink && (f.kind == "glob" || f.kind == "stat-literal" || f.kind == "alias-literal"):
		// Members placed through a link are registered under the literal name.
		return "literal-names"
	case !t.flags.throughLink && f.kind == "alias-literal":
		// No member was placed through a link, so every node is registered
		// under its real path: the link's target is spelled through a link.
		return "link-target-through-link"
	case f.kind == "testfs-symlink-stat":
		return "stat-symlink-lstat"
	case f.kind == "sub-link":
		return "sub-links"
	case t.flags.hlAlias && f.kind == "hardlink-missing":
		return "hardlink-alias-target"
	case t.flags.danglingThrough && f.kind == "hardlink-ghost":
		return "dangling-hardlink-ghost"
	case t.flags.lexMismatch && (f.kind == "follow" || f.kind == "alias"):
		return "link-lexical"
	case t.flags.lexMismatch && t.flags.throughLink && (f.kind == "walk" || f.kind == "readdir" || f.kind == "sub" || f.kind == "stat" || f.kind == "read" || f.kind == "reject"):
		// A member was placed through the link that means something else
		// lexically (it lands in another directory than in an extraction; when
		// that makes a second child of one name there, New may even fail on
		// the next member that walks past it).
		return "link-lexical"
	case f.kind == "testfs-sub-link":
		return "sub-links"
	}
	return ""
}

func toSpecs(ms []member) []spec {
	tf := map[byte]byte{'r': tar.TypeReg, 'd': tar.TypeDir, 's': tar.TypeSymlink, 'l': tar.TypeLink, 'x': tar.TypeFifo}
	out := make([]spec, len(ms))
	for i, m := range ms {
		out[i] = spec{Typeflag: tf[m.Kind], Name: m.Name, Link: m.Link, Data: m.Data, Mode: 0o644}
	}
	return out
}

// evaluate runs the direct checks on a member list and returns the failures
// with their classes. rnd picks the sampled names.
func evaluate(ms []member, rnd func(int) int) (t *otree, fails []failure, classes []string) {
	arch, _ := writeArchive(toSpecs(ms))
	ms2, err := decodeArchive(arch)
	if err != nil {
		return nil, nil, nil
	}
	sys, nerr := openReal(arch)
	t = extract(ms2)
	fails = directChecks(ms2, t, sys, nerr, rnd)
	for _, f := range fails {
		classes = append(classes, classify(t, f))
	}
	return
}

// directChecks evaluates the statement on one archive.
func directChecks(ms []member, t *otree, sys *tarfs.FS, nerr error, rnd func(int) int) []failure {
	var fails []failure
	if nerr == nil {
		fails = append(fails, checkContainment(sys)...)
	}
	if len(t.flags.nonWF) > 0 {
		return fails
	}
	if nerr != nil {
		if len(t.flags.otherRep) == 0 {
			fails = append(fails, failure{"reject", fmt.Sprintf("tarfs.New rejects a well-formed archive: %v", nerr)})
		}
		return fails
	}
	fails = append(fails, compareView(sys, t, rnd)...)

	var want []oentry
	t.listing(t.root, "", &want)
	pats := []string{"*", "*/*", "*/*/*", "?*"}
	var dirs []oentry
	for _, w := range want {
		if w.node.kind == 'd' {
			dirs = append(dirs, w)
			if len(pats) < 10 {
				pats = append(pats, w.path+"/*")
			}
		}
	}
	okPats := pats[:0]
	for _, p := range pats {
		if _, err := path.Match(p, ""); err == nil {
			okPats = append(okPats, p)
		}
	}
	fails = append(fails, compareGlob(sys, t, okPats)...)
	if _, err := sys.Glob("[a"); err == nil {
		fails = append(fails, failure{"glob", "Glob of the malformed pattern \"[a\" reports no error"})
	}

	subs := map[string]oentry{}
	if len(dirs) <= 10 {
		for _, d := range dirs {
			subs[d.path] = d
		}
	}
	for i := 0; i < 3 && len(dirs) > 10; i++ {
		d := dirs[rnd(len(dirs))]
		subs[d.path] = d
	}
	for _, d := range dirs {
		if d.node.parent == nil {
			continue
		}
		for raw := range d.node.parent.kids {
			if s := escName(raw); s != path.Base(d.path) && strings.HasPrefix(s, path.Base(d.path)) && len(subs) < 8 {
				subs[d.path] = d
			}
		}
	}
	subs["."] = oentry{".", t.root}
	subKeys := make([]string, 0, len(subs))
	for k := range subs {
		subKeys = append(subKeys, k)
	}
	sort.Strings(subKeys)
	for _, k := range subKeys {
		d := subs[k]
		for _, f := range compareSub(sys, t, d) {
			if t.flags.throughLink && strings.Contains(f.detail, "Glob") {
				f.kind = "glob"
			}
			fails = append(fails, f)
		}
	}

	if testFSEligible(t, want) && len(fails) == 0 {
		fails = append(fails, runTestFS(sys, t)...)
	}
	return refine(sys, t, fails)
}

// refine gives the failures caused by the shapes of listed findings their own
// kinds, so that classify can stay narrow.
func refine(sys *tarfs.FS, t *otree, fails []failure) []failure {
	_, ins := sys.TablesForVerif()
	dup := false
	for _, n := range ins {
		seen := map[string]bool{}
		for _, c := range n.Children {
			b := path.Base(ins[c].Name)
			if seen[b] {
				dup = true
			}
			seen[b] = true
		}
	}
	for i := range fails {
		f := &fails[i]
		structural := f.kind == "walk" || f.kind == "readdir" || f.kind == "sub" || f.kind == "follow"
		switch {
		case dup && t.flags.aliasDup && (structural || f.kind == "read" || f.kind == "stat" || f.kind == "alias"):
			f.kind = "dup"
			f.detail = "a directory of the view has two children with one name; " + f.detail
		case t.flags.hlAlias && f.kind == "stat" && strings.Contains(f.detail, "but the extraction created it"):
			f.kind = "hardlink-missing"
		case t.flags.hlAlias && (structural || f.kind == "alias"):
			f.kind = "hardlink-missing"
		case t.flags.danglingThrough && structural:
			f.kind = "hardlink-ghost"
		}
	}
	return fails
}

// testFSEligible: fstest.TestFS opens every entry, so it only applies when
// every entry can be opened (no dangling or cyclic link, no special file),
// and its Glob check only when no member was placed through a link.
func testFSEligible(t *otree, want []oentry) bool {
	if t.flags.throughLink || t.flags.aliasDup || t.flags.hlAlias || t.flags.lexMismatch || t.flags.danglingThrough || len(want) > 60 || t.anyOversize(t.root) {
		return false
	}
	for _, w := range want {
		switch w.node.kind {
		case 'x':
			return false
		case 's':
			if n, _ := t.resolve(lexClean(pathOf(w.node)), true); n == nil || n.kind == 'x' {
				return false
			}
		}
		if strings.ContainsAny(w.path, "*?[\\") {
			return false
		}
	}
	return true
}

// oracle runs the direct checks for one generated archive and reports.
func (x *runner) oracle(fam string, ms []member, t *otree, sys *tarfs.FS, nerr error) {
	r := x.r
	rnd := func(n int) int { return x.rnd.Intn(n) }
	fails := directChecks(ms, t, sys, nerr, rnd)
	wf := len(t.flags.nonWF) == 0
	r.Case(fmt.Sprintf("oracle %s %d members wf=%v new=%s", fam, len(ms), wf, errClass(nerr)), wf && nerr == nil)
	if wf && nerr == nil {
		r.Count("oracle:view-compared-with-extraction")
	} else if wf {
		r.Count("oracle:other-repetition-rejected")
	} else {
		r.Count("oracle:containment-only")
	}
	if len(fails) == 0 {
		return
	}
	var unclassified *failure
	for i, f := range fails {
		cls := classify(t, f)
		if cls == "" {
			if unclassified == nil {
				unclassified = &fails[i]
			}
			continue
		}
		r.Count("finding-shape:" + cls)
		r.Fail(cls, f.kind+": "+f.detail+" | archive: "+describe(ms))
	}
	if unclassified != nil {
		small := shrink(ms, unclassified.kind)
		_, f2, c2 := evaluate(small, func(n int) int { return 0 })
		msg := unclassified.kind + ": " + unclassified.detail
		for i, f := range f2 {
			if c2[i] == "" && f.kind == unclassified.kind {
				msg = f.kind + ": " + f.detail
				break
			}
		}
		r.Fail("", msg+" | archive: "+describe(small))
	}
}

// shrink removes members while an unclassified failure of the same kind remains.
func shrink(ms []member, kind string) []member {
	still := func(c []member) bool {
		_, fs, cls := evaluate(c, func(n int) int { return 0 })
		for i, f := range fs {
			if cls[i] == "" && f.kind == kind {
				return true
			}
		}
		return false
	}
	if len(ms) > 400 || !still(ms) {
		return ms
	}
	cur := append([]member{}, ms...)
	for changed := true; changed; {
		changed = false
		for i := 0; i < len(cur); i++ {
			cand := append(append([]member{}, cur[:i]...), cur[i+1:]...)
			if still(cand) {
				cur = cand
				changed = true
				i--
			}
		}
	}
	// Then drop contents.
	for i := range cur {
		if len(cur[i].Data) > 1 {
			cand := append([]member{}, cur...)
			cand[i].Data = cand[i].Data[:1]
			if still(cand) {
				cur = cand
			}
		}
	}
	return cur
}

// knownFindings replays the witness of every listed finding.
func (x *runner) knownFindings() {
	r := x.r
	reg := func(n, d string) member { return member{Kind: 'r', Name: n, Data: []byte(d)} }
	dir := func(n string) member { return member{Kind: 'd', Name: n} }
	sym := func(n, l string) member { return member{Kind: 's', Name: n, Link: l} }
	lnk := func(n, l string) member { return member{Kind: 'l', Name: n, Link: l} }
	open := func(ms []member) *tarfs.FS {
		arch, _ := writeArchive(toSpecs(ms))
		sys, err := openReal(arch)
		if err != nil {
			return nil
		}
		return sys
	}
	names := func(es []fs.DirEntry) string {
		var s []string
		for _, e := range es {
			s = append(s, e.Name())
		}
		return strings.Join(s, ",")
	}

	// literal-names
	if sys := open([]member{dir("d/"), sym("b", "d"), reg("b/c", "1")}); sys != nil {
		g, _ := sys.Glob("*/*")
		if strings.Join(g, ",") == "b/c" {
			r.KnownSeen("literal-names", `{d/, b -> d, file b/c}: Glob("*/*") = ["b/c"]; the extraction has d/c and no b/c`)
		}
	}
	// alias-duplicate
	if sys := open([]member{dir("d/"), sym("b", "d"), reg("b/c", "1"), reg("d/c", "2")}); sys != nil {
		es, _ := sys.ReadDir("d")
		if names(es) == "c,c" {
			r.KnownSeen("alias-duplicate", `{d/, b -> d, file b/c, file d/c}: ReadDir("d") = [c c]; an extraction has one file d/c with the second content`)
		}
	}
	// hardlink-alias-target
	if sys := open([]member{dir("d/"), sym("b", "d"), reg("b/c", "1"), lnk("hc", "d/c")}); sys != nil {
		if _, err := sys.Stat("hc"); err != nil {
			if _, err2 := sys.Stat("d/c"); err2 == nil {
				r.KnownSeen("hardlink-alias-target", `{d/, b -> d, file b/c, hc hardlink to d/c}: Stat("hc") does not exist although d/c does`)
			}
		}
	}
	// dangling-hardlink-ghost
	if sys := open([]member{dir("d/"), sym("b", "d"), lnk("b/h", "nope")}); sys != nil {
		es, _ := sys.ReadDir("d")
		if names(es) == "h" {
			r.KnownSeen("dangling-hardlink-ghost", `{d/, b -> d, b/h hardlink to a missing name}: ReadDir("d") = [h]; the link cannot be created by an extraction and is removed only from the lookup table`)
		}
	}
	// link-target-through-link
	if sys := open([]member{sym("b/s1", "."), sym("b/e", "s1/b"), reg("b/b/f", "1")}); sys != nil {
		es, err := fs.ReadDir(sys, "b/e")
		_, err2 := fs.Stat(sys, "b/e/f")
		if err == nil && names(es) == "f" && err2 != nil {
			r.KnownSeen("link-target-through-link", `{b/s1 -> ., b/e -> s1/b, file b/b/f}: ReadDir("b/e") = [f] but Stat("b/e/f") does not exist: in directory position walkTo looks the stored target b/s1/b up in the table only, it is not a key because it is spelled through the link b/s1`)
		}
	}
	// link-lexical
	if sys := open([]member{dir("d/e/"), reg("d/x", "in-d"), reg("x", "in-root"), sym("s", "d/e"), sym("t", "s/../x")}); sys != nil {
		b, err := fs.ReadFile(sys, "t")
		if err == nil && string(b) == "in-root" {
			r.KnownSeen("link-lexical", `{d/e/, d/x, x, s -> d/e, t -> s/../x}: reading t yields the root's x; inside the root s/.. is d, so t is d/x`)
		}
	}
	// sub-nested
	if sys := open([]member{reg("a/b/c", "1")}); sys != nil {
		if s1, err := sys.Sub("a"); err == nil {
			if s2, err := fs.Sub(s1, "b"); err == nil {
				if _, err := fs.ReadFile(s2, "c"); err != nil {
					r.KnownSeen("sub-nested", `{file a/b/c}: Sub("a") then Sub("b"): reading "c" fails (`+errClass(err)+`); Sub takes the prefix from the member's archive name a/b, which is not a name of the first sub view`)
				}
			}
		}
	}
	// sub-links
	if sys := open([]member{reg("a/f", "data"), lnk("a/h", "a/f")}); sys != nil {
		if s1, err := sys.Sub("a"); err == nil {
			if _, err := fs.ReadFile(s1, "h"); err != nil {
				r.KnownSeen("sub-links", `{file a/f, a/h hardlink to a/f}: Sub("a"): reading "h" fails (`+errClass(err)+`); in a sub view link targets are still spelled from the archive root`)
			}
		}
	}
	// stat-symlink-lstat
	if sys := open([]member{dir("d/"), sym("s", "d")}); sys != nil {
		fi, err := sys.Stat("s")
		f, err2 := sys.Open("s")
		if err == nil && err2 == nil {
			fi2, _ := f.Stat()
			f.Close()
			if fi.Mode().Type() == fs.ModeSymlink && fi2.IsDir() {
				r.KnownSeen("stat-symlink-lstat", `{d/, s -> d}: Stat("s") is the symbolic link, Open("s").Stat() is the directory d; the io/fs contract (fstest.TestFS: "Stat should be the same as Open+Stat, even for symlinks") wants them equal; TestSymlinks/ChaseSymlink requires the current behaviour`)
			}
		}
	}
	// sparse-oversize-refused
	{
		data := append(make([]byte, 8192), 'x')
		e := rawEntry{Typeflag: '0', Name: "sp", Data: data, Mode: 0o644,
			Sparse: &rawSparse{Holes: [][2]int64{{8192, 1}}, RealSize: 8193}}
		arch := writeRaw([]rawEntry{e})
		ms, derr := decodeArchive(arch)
		if sys, err := openReal(arch); err == nil && derr == nil && len(ms) == 1 && len(ms[0].Data) == 8193 {
			_, err := fs.ReadFile(sys, "sp")
			fi, serr := sys.Stat("sp")
			if err != nil && serr == nil && fi.Size() == 8193 {
				r.KnownSeen("sparse-oversize-refused", `{PAX 1.0 sparse file "sp": a hole of 8192 bytes, then "x"}: a sequential reader yields 8193 bytes; Stat("sp").Size() = 8193 but Open("sp") fails (`+errClass(err)+`): the logical size exceeds the 2560-byte segment (checkSize, ce813f23)`)
			}
		}
	}
	// gnu-sparse-swallows-next
	{
		sp := rawEntry{Typeflag: '0', Name: "sp", Data: []byte("xyz"), Mode: 0o644, OldGNU: true,
			Sparse: &rawSparse{Old: true, Holes: [][2]int64{{0, 3}}, RealSize: 3}}
		b := rawEntry{Typeflag: '0', Name: "b", Data: []byte("abc"), Mode: 0o644}
		arch := writeRaw([]rawEntry{sp, b})
		ms, derr := decodeArchive(arch)
		if sys, err := openReal(arch); err == nil && derr == nil && len(ms) == 2 {
			_, e1 := sys.Stat("sp")
			_, e2 := sys.Stat("b")
			arch2 := writeRaw([]rawEntry{b, sp})
			sys2, err2 := openReal(arch2)
			if e1 == nil && e2 != nil && err2 == nil {
				if _, e3 := sys2.Stat("sp"); e3 != nil {
					r.KnownSeen("gnu-sparse-swallows-next", `{old-GNU sparse file "sp" (typeflag 'S', no extension block), regular file "b"}: a sequential reader yields sp and b; the view has sp only, Stat("b") does not exist; with the order {b, sp} the view has b only: findSegments counts 'S' among the headers that describe the next entry`)
				}
			}
		}
	}
	// header-only-size-swallows-next
	{
		d := rawEntry{Typeflag: '5', Name: "d/", Mode: 0o755, SizeField: 1000}
		f := rawEntry{Typeflag: '0', Name: "d/f", Data: []byte("abc"), Mode: 0o644}
		g := rawEntry{Typeflag: '0', Name: "g", Data: []byte("abc"), Mode: 0o644}
		arch := writeRaw([]rawEntry{d, f, g})
		ms, derr := decodeArchive(arch)
		if sys, err := openReal(arch); err == nil && derr == nil && len(ms) == 3 {
			_, e1 := sys.Stat("d/f")
			_, e2 := sys.Stat("g")
			if e1 != nil && e2 == nil {
				r.KnownSeen("header-only-size-swallows-next", `{directory "d/" whose header has size 1000, file "d/f", file "g"}: no data follows a directory whatever its size field says (POSIX pax: for type 5 the field is an allocation hint), a sequential reader yields d/, d/f and g; findSegments skips two blocks of "content": the view has d and g, Stat("d/f") does not exist`)
			}
		}
	}
	// hardlink-stat-size
	if sys := open([]member{reg("f", "data"), lnk("h", "f")}); sys != nil {
		fi, err := sys.Stat("h")
		b, _ := fs.ReadFile(sys, "h")
		if err == nil && fi.Size() == 0 && len(b) == 4 {
			r.KnownSeen("hardlink-stat-size", `{file f (4 bytes), h hardlink to f}: Stat("h").Size() = 0 while reading h yields 4 bytes (Stat reports the link's own header)`)
		}
	}
}
