package c11

import (
	"errors"
	"strconv"
	"strings"
)

// An independent reading of the block structure of an archive, by the rules
// of POSIX pax and GNU tar as archive/tar's sequential Reader applies them
// (shares no code with pkg/tarfs/parse.go):
//
//   - an entry is a header block, then (old GNU sparse only) extension blocks,
//     then the content rounded up to whole blocks;
//   - the content length is the size field, overridden by a "size" record of
//     a preceding pax extended header; entries of the header-only types
//     (links, directories, devices, fifos) have no content whatever the field
//     says;
//   - 'x' (pax extended header), 'L' and 'K' (GNU long name / link) describe
//     the entry that follows and belong to it; 'g' (pax global header) and
//     entries of unknown types stand alone;
//   - two zero blocks (or the end of the data) end the archive.
//
// The result is one span per entry of a type the view presents, covering its
// describing headers, its own header and its content: the segment
// tarfs.findSegments should emit for it.

type span struct {
	start, size int64
	typeflag    byte
}

var errLayout = errors.New("layout: malformed archive")

func numField(b []byte) (int64, bool) {
	if len(b) > 0 && b[0]&0x80 != 0 {
		var x uint64
		for i, c := range b {
			if i == 0 {
				c &= 0x7f
			}
			if x>>55 != 0 {
				return 0, false
			}
			x = x<<8 | uint64(c)
		}
		return int64(x), true
	}
	s := strings.Trim(string(b), " \x00")
	if i := strings.IndexByte(s, 0); i >= 0 {
		s = s[:i]
	}
	if s == "" {
		return 0, true
	}
	n, err := strconv.ParseInt(s, 8, 64)
	return n, err == nil && n >= 0
}

func zeroBlock(b []byte) bool {
	for _, c := range b {
		if c != 0 {
			return false
		}
	}
	return true
}

// paxSize finds a "size" record in the content of an extended header.
func paxSize(b []byte) (int64, bool) {
	for len(b) > 0 {
		sp := strings.IndexByte(string(b), ' ')
		if sp < 0 {
			return 0, false
		}
		n, err := strconv.Atoi(string(b[:sp]))
		if err != nil || n <= sp || n > len(b) {
			return 0, false
		}
		rec := string(b[sp+1 : n])
		b = b[n:]
		if strings.HasPrefix(rec, "size=") {
			v, err := strconv.ParseInt(strings.TrimSuffix(rec[5:], "\n"), 10, 64)
			if err != nil {
				return 0, false
			}
			return v, true
		}
	}
	return 0, false
}

func layout(a []byte) ([]span, error) {
	const bs = 512
	var out []span
	cur := int64(0) // start of the entry being assembled (first describing header)
	off := int64(0)
	pending := false // describing headers seen since cur
	override := int64(-1)
	for off+bs <= int64(len(a)) {
		h := a[off : off+bs]
		if zeroBlock(h) {
			break
		}
		size, ok := numField(h[124:136])
		if !ok {
			return nil, errLayout
		}
		tf := h[156]
		blocks := func(n int64) int64 { return (n + bs - 1) / bs * bs }
		switch tf {
		case 'x', 'L', 'K', 'g':
			end := off + bs + blocks(size)
			if end > int64(len(a)) {
				return nil, errLayout
			}
			if tf == 'x' {
				if v, ok := paxSize(a[off+bs : off+bs+size]); ok {
					override = v
				}
			}
			if tf == 'g' {
				// Stands alone.
				off = end
				if !pending {
					cur = off
				}
				continue
			}
			pending = true
			off = end
		default:
			content := size
			if override >= 0 {
				content = override
			}
			switch tf {
			case '1', '2', '3', '4', '5', '6':
				content = 0
			}
			hdrEnd := off + bs
			if tf == 'S' && h[482] != 0 {
				// Old GNU sparse: extension blocks follow while the flag is set.
				for {
					if hdrEnd+bs > int64(len(a)) {
						return nil, errLayout
					}
					ext := a[hdrEnd : hdrEnd+bs]
					hdrEnd += bs
					if ext[504] == 0 {
						break
					}
				}
			}
			end := hdrEnd + blocks(content)
			if end > int64(len(a)) {
				return nil, errLayout
			}
			if _, known := kindOf(tf); known || tf == 'S' {
				out = append(out, span{cur, end - cur, tf})
			}
			off, cur, pending, override = end, end, false, -1
		}
	}
	return out, nil
}
