// Package c11 is the harness of property C11 (the tarfs view is faithful to
// the archive): it writes archives with archive/tar, opens them with the real
// tarfs.New, runs a query battery whose canonical answers the Lean model must
// reproduce from the decoded member list, and checks the property statement
// directly against an independent in-memory extraction.
package c11

import (
	"archive/tar"
	"fmt"
	"io/fs"
	"os"
	"path"
	"path/filepath"
	"sort"
	"strings"
	"time"
	"unicode/utf8"

	"github.com/quay/claircore/pkg/tarfs"
	"github.com/quay/claircore/verifharness/internal/hx"
)

type opline struct {
	op, out string
	nt      bool
}

type runner struct {
	r   *hx.Run
	rnd *hx.Rand
	cfg hx.Config
}

// Run is the harness entry point.
func Run(cfg hx.Config) error {
	r, err := hx.NewRun(cfg)
	if err != nil {
		return err
	}
	defer r.Close()
	r.Rule = "archives: member lists from ten generator families (plain, implied directories, leaf links, usr-merge style links in directory position, link chains and cycles, hard links, repetition of every kind, adversarial names, soup, big), written with archive/tar in USTAR/PAX/GNU format, the first nine again with the harness's own tar writer (raw-*: pax path/linkpath/size/mtime records, global headers, GNU long names and links, old-GNU magic, base-256 numbers, ustar prefix, NUL typeflag, PAX 1.0 sparse members, entries of unknown typeflags, file-type bits in the mode field), and longchain (chains of up to 70 symbolic links ending in a file, directory, missing name or cycle); opened with the real tarfs.New; then a query battery (tables incl. header and segment sizes, Stat/Open/ReadDir/ReadFile through io/fs on every key, derived, aliased and invalid paths, ReadDir(n) sequences on directory handles, Glob patterns, Sub chains, WalkDir) and, on a third of the archives, a claircore.Layer script (Init with good and bad media types and digests, FS, Reader, Files, Close in every state) answered by the real code and by the Lean model; plus the path functions on random byte strings. A line is non-trivial when the answer is not a plain not-exist/invalid error. Oracle cases compare the view with an independent extraction, and check the ReadDir(n), Layer and Reader contracts directly."
	x := &runner{r: r, rnd: hx.NewRand(cfg.Seed), cfg: cfg}

	x.corpus()
	x.knownFindings()
	x.fnOps(cfg.N(1500, 40000))

	nSmall := cfg.N(1500, 60000)
	for i := 0; i < nSmall && !r.Stop(); i++ {
		k := families[i%len(families)]
		x.archive(k.name, generate(x.rnd, k))
	}
	nRaw := cfg.N(500, 20000)
	for i := 0; i < nRaw && !r.Stop(); i++ {
		k := families[i%len(families)]
		x.archiveBytes("raw-"+k.name, writeRaw(x.encodeRaw(generate(x.rnd, k))))
	}
	nChain := cfg.N(80, 3000)
	for i := 0; i < nChain && !r.Stop(); i++ {
		x.archive("longchain", genChain(x.rnd))
	}
	nBig := cfg.N(6, 60)
	for i := 0; i < nBig && !r.Stop(); i++ {
		x.archive("big", generate(x.rnd, bigFamily))
	}
	return nil
}

// corpus replays stored witnesses first.
func (x *runner) corpus() {
	if x.cfg.Corpus == "" {
		return
	}
	files, _ := filepath.Glob(filepath.Join(x.cfg.Corpus, "*.members"))
	sort.Strings(files)
	for _, f := range files {
		b, err := os.ReadFile(f)
		if err != nil {
			continue
		}
		var ms []spec
		for _, line := range strings.Split(string(b), "\n") {
			w := strings.Fields(line)
			if len(w) != 5 || w[0] != "m" {
				continue
			}
			n, e1 := hx.Unhex(w[2])
			l, e2 := hx.Unhex(w[3])
			d, e3 := hx.Unhex(w[4])
			if e1 != nil || e2 != nil || e3 != nil {
				continue
			}
			tf := map[string]byte{"r": tar.TypeReg, "d": tar.TypeDir, "s": tar.TypeSymlink, "l": tar.TypeLink, "x": tar.TypeFifo}[w[1]]
			ms = append(ms, spec{Typeflag: tf, Name: string(n), Link: string(l), Data: d, Mode: 0o644})
		}
		x.r.Count("corpus")
		x.archive("corpus", ms)
	}
}

func mline(m member) string {
	return fmt.Sprintf("m %c %s %s %s %d %d %d %d %d", m.Kind, hx.Hex([]byte(m.Name)), hx.Hex([]byte(m.Link)), hx.Hex(m.Data),
		m.HSize, m.Seg, m.Mode, m.MTimeS, m.MTimeN)
}

// withTimeout runs f; ok is false when it did not finish in time.
func withTimeout(d time.Duration, f func()) bool {
	done := make(chan struct{})
	go func() {
		defer close(done)
		f()
	}()
	select {
	case <-done:
		return true
	case <-time.After(d):
		return false
	}
}

// archive runs one member list through the real code, the protocol and the oracle.
func (x *runner) archive(fam string, specs []spec) {
	arch, dropped := writeArchive(specs)
	if dropped > 0 {
		x.r.Count("writer-dropped-member")
	}
	x.archiveBytes(fam, arch)
}

// archiveBytes runs one archive through the real code, the protocol and the oracle.
func (x *runner) archiveBytes(fam string, arch []byte) {
	r := x.r
	ms, err := decodeArchive(arch)
	if err != nil {
		r.Count("decode-failed")
		return
	}
	r.Count("family:" + fam)
	r.Count(sizeBucket(len(ms)))

	var sys *tarfs.FS
	var nerr error
	newOut := ""
	finished := withTimeout(60*time.Second, func() {
		newOut = hx.Guard(func() string {
			sys, nerr = openReal(arch)
			return errClass(nerr)
		})
	})
	if !finished {
		r.Fail("", "tarfs.New does not return on: "+describe(ms))
		return
	}
	if newOut == "panic" {
		r.Fail("", "tarfs.New panics on: "+describe(ms))
		return
	}
	r.Count("new:" + newOut)

	tree := extract(ms)
	x.countFlags(tree)

	// Correspondence.
	var lines []opline
	lines = append(lines, opline{"reset", "ok", false})
	for _, m := range ms {
		lines = append(lines, opline{mline(m), "ok", false})
	}
	if xt, ok := referenceTree(ms, tree); ok {
		lines = append(lines, opline{"xtree", xt, true})
	}
	skip := ""
	if nerr == nil {
		lk, ins := sys.TablesForVerif()
		lines = append(lines, opline{"new", fmt.Sprintf("ok %d %d", len(ins), len(lk)), true})
		skip = nondeterministic(lk, ins)
		if skip == "" {
			if !withTimeout(120*time.Second, func() { lines = append(lines, x.battery(view{sys}, ms, lk, ins)...) }) {
				r.Fail("", "a query on the view does not return: "+describe(ms))
				return
			}
			if x.rnd.Intn(3) == 0 {
				keys := make([]string, 0, len(lk))
				for k := range lk {
					keys = append(keys, k)
				}
				sort.Strings(keys)
				if !withTimeout(120*time.Second, func() { lines = append(lines, x.layerLines(arch, keys, len(ins))...) }) {
					r.Fail("", "a Layer operation does not return: "+describe(ms))
					return
				}
			}
			if x.rnd.Intn(40) == 0 {
				x.readerChecks(arch)
			}
			if x.rnd.Intn(25) == 0 {
				wc := 3*len(ins) + 10
				x.layerChecks(arch, walkFS(sys, wc), true, wc)
			}
		}
	} else {
		if linkInPath(ms) {
			// New failed on an archive in which some member is placed through a
			// link: two spellings of one name may have produced two children of
			// one directory before the failure, and then which of them a walk
			// meets (and so whether and how New fails) depends on Go's map
			// iteration order. The tables are gone, so this cannot be checked
			// here; the model decides (`ambDuring`) whether such twins ever
			// existed and answers with its own outcome if they did not.
			lines = append(lines, opline{"newa " + newOut, newOut, true})
			r.Count("new-failed-with-link-in-a-member-path")
		} else {
			lines = append(lines, opline{"new", newOut, true})
			if x.rnd.Intn(10) == 0 {
				x.layerChecks(arch, "", false, 0)
			}
			if x.rnd.Intn(2) == 0 {
				// A Layer over an archive New rejects.
				lines = append(lines, x.layerLines(arch, nil, 0)...)
			}
		}
	}
	if skip != "" {
		// The answer of the real code depends on Go's map iteration order;
		// nothing is compared (the oracle below still runs).
		r.Count("not-compared:" + skip)
	} else {
		for _, l := range lines {
			r.Op(l.op, l.out, l.nt)
			if strings.HasPrefix(l.op, "l") {
				r.Count("op:" + strings.SplitN(l.op, " ", 2)[0])
				ans := strings.SplitN(l.out, " ", 2)[0]
				if strings.HasPrefix(l.op, "lfiles") && ans != "notfound" && ans != "err" && ans != "err:other" {
					ans = "found"
				}
				r.Count("layer:" + strings.SplitN(l.op, " ", 2)[0] + "=" + ans)
				continue
			}
			if strings.HasPrefix(l.op, "m ") || l.op == "reset" || l.op == "xtree" {
				if l.op == "xtree" {
					r.Count("op:xtree")
				}
				continue
			}
			r.Count("op:" + strings.SplitN(l.op, " ", 2)[0])
			r.Count("answer:" + answerBucket(l.out))
		}
	}

	// Direct checks of the statement.
	if !withTimeout(120*time.Second, func() { x.oracle(fam, ms, tree, sys, nerr) }) {
		r.Fail("", "a check of the view does not return: "+describe(ms))
	}
}

func sizeBucket(n int) string {
	switch {
	case n == 0:
		return "members:0"
	case n <= 4:
		return "members:1-4"
	case n <= 16:
		return "members:5-16"
	case n <= 64:
		return "members:17-64"
	case n <= 512:
		return "members:65-512"
	}
	return "members:>512"
}

func answerBucket(out string) string {
	switch {
	case strings.HasPrefix(out, "err:"), strings.HasPrefix(out, "suberr:"):
		return out
	case strings.HasPrefix(out, "i "), strings.HasPrefix(out, "f "), strings.HasPrefix(out, "d "):
		return out[:3]
	case out == "-":
		return "empty-list"
	}
	return "value"
}

func (x *runner) countFlags(t *otree) {
	r := x.r
	switch {
	case len(t.flags.nonWF) > 0:
		r.Count("class:outside-defined-extraction")
		for _, w := range t.flags.nonWF {
			r.Count("outside:" + w)
		}
	case len(t.flags.otherRep) > 0:
		r.Count("class:other-repetition")
	default:
		r.Count("class:well-formed")
	}
	for _, w := range t.flags.otherRep {
		r.Count("repetition:" + w)
	}
	if t.flags.throughLink {
		r.Count("shape:member-through-link")
	}
	if t.flags.impliedDirs > 0 {
		r.Count("shape:implied-directories")
	}
	if t.flags.repeats > 0 {
		r.Count("shape:repeated-names")
	}
	if t.flags.deferred > 0 {
		r.Count("shape:hardlink-before-target")
	}
	if t.flags.dangling > 0 {
		r.Count("shape:dangling-hardlink")
	}
}

// nondeterministic names the reason the real code's answers for this archive
// depend on map iteration order ("" if they do not).
func nondeterministic(lk map[string]int, ins []tarfs.InodeForVerif) string {
	for _, n := range ins {
		seen := map[string]bool{}
		for _, c := range n.Children {
			b := path.Base(ins[c].Name)
			if seen[b] {
				return "two-children-with-one-name"
			}
			seen[b] = true
		}
	}
	// Dangling hard links removed by the cleanup of New: the order matters
	// when one removed link is the directory part of another.
	live := map[int]bool{}
	for _, i := range lk {
		live[i] = true
	}
	removed := map[string]bool{}
	for i, n := range ins {
		if !live[i] {
			removed[n.Name] = true
		}
	}
	for n := range removed {
		if removed[path.Dir(n)] {
			return "removed-link-under-removed-link"
		}
	}
	// A removed link was, until the cleanup, a child of the directory its
	// literal parent name is the key of. If that directory has another child
	// of the same name (placed through a link), walks during New were
	// ambiguous although the final tables do not show it.
	for i, n := range ins {
		if live[i] {
			continue
		}
		if pi, ok := lk[path.Dir(n.Name)]; ok && ins[pi].IsDirNode {
			for _, c := range ins[pi].Children {
				if path.Base(ins[c].Name) == path.Base(n.Name) {
					return "removed-link-shadowed-an-entry"
				}
			}
		}
	}
	return ""
}

var fixedPaths = []string{"", ".", "/", "a/", "./a", "..", "a/../b", "\xff", "nonesuch", "a", "a/b", "usr/bin"}

// battery builds the query lines with the real code's answers.
func (x *runner) battery(v view, ms []member, lk map[string]int, ins []tarfs.InodeForVerif) []opline {
	rnd := x.rnd
	var out []opline
	q := func(op, chain, arg, ans string) {
		out = append(out, opline{op + " " + chain + " " + arg, ans, !(strings.HasPrefix(ans, "err:notexist") || strings.HasPrefix(ans, "err:invalid"))})
	}
	out = append(out, opline{"tables - -", v.tables(), true})

	keys := make([]string, 0, len(lk))
	for k := range lk {
		keys = append(keys, k)
	}
	sort.Strings(keys)

	pathSet := map[string]bool{}
	var paths []string
	addp := func(p string) {
		if !pathSet[p] && len(p) < 400 {
			pathSet[p] = true
			paths = append(paths, p)
		}
	}
	for _, k := range keys {
		addp(k)
	}
	for _, n := range ins {
		addp(n.Name)
	}
	for _, m := range ms {
		addp(m.Name)
		addp(strings.Join(lexClean(m.Name), "/"))
	}
	for _, k := range keys {
		addp(k + "/x")
		addp(k + "/" + plainComps[rnd.Intn(6)])
		addp(path.Dir(k))
	}
	// Aliases: a key below the target of a symbolic link, spelled through the link.
	for _, n := range ins {
		if kk, _ := kindOf(n.Typeflag); kk != 's' {
			continue
		}
		for _, k := range keys {
			if strings.HasPrefix(k, n.Linkname+"/") {
				addp(n.Name + k[len(n.Linkname):])
			}
			if n.Linkname == "." && k != "." {
				addp(n.Name + "/" + k)
			}
		}
	}
	for _, p := range fixedPaths {
		addp(p)
	}
	limit := 140
	if len(paths) > limit {
		// Keep a random sample (deterministic in the seed).
		for i := len(paths) - 1; i > 0; i-- {
			j := rnd.Intn(i + 1)
			paths[i], paths[j] = paths[j], paths[i]
		}
		paths = paths[:limit]
	}
	for _, p := range paths {
		h := hx.Hex([]byte(p))
		q("stat", "-", h, v.stat(p))
		q("open", "-", h, v.open(p))
		if rnd.Intn(3) == 0 {
			q("readdir", "-", h, v.readdir(p))
		}
		if rnd.Intn(3) == 0 {
			q("readfile", "-", h, v.readfile(p))
		}
	}

	// Paging through directory handles (directories, links to them, others).
	pageNs := []int{-2, -1, 0, 1, 1, 2, 3, 5, 100}
	nPage := 0
	for _, p := range paths {
		if nPage >= 8 {
			break
		}
		if _, isKey := lk[p]; !isKey && rnd.Intn(8) != 0 {
			continue
		}
		if i, isKey := lk[p]; isKey {
			if kk, _ := kindOf(ins[i].Typeflag); kk != 'd' && kk != 's' && rnd.Intn(6) != 0 {
				continue
			}
		}
		nPage++
		ns := make([]int, 1+rnd.Intn(5))
		strs := make([]string, len(ns))
		for i := range ns {
			ns[i] = pageNs[rnd.Intn(len(pageNs))]
			strs[i] = fmt.Sprint(ns[i])
		}
		out = append(out, opline{"page - " + hx.Hex([]byte(p)) + " " + strings.Join(strs, ","), v.page(p, ns), true})
	}

	// Glob.
	pats := []string{"*", "*/*", "*/*/*", "?", "?*", "*?*?", "a*", "*b", "*/b*"}
	for i := 0; i < 6 && len(keys) > 0; i++ {
		k := keys[rnd.Intn(len(keys))]
		pats = append(pats, mutatePattern(rnd, k))
	}
	for _, p := range pats {
		if strings.ContainsAny(p, "[\\") {
			continue
		}
		q("glob", "-", hx.Hex([]byte(p)), v.glob(p))
	}

	// Walk.
	walkCap := 3*len(ins) + 10
	if walkCap > 6000 {
		walkCap = 6000
	}
	q("walk", "-", fmt.Sprint(walkCap), v.walk(walkCap))

	// Sub.
	var dirs, others []string
	for _, k := range keys {
		if kk, _ := kindOf(ins[lk[k]].Typeflag); kk == 'd' {
			dirs = append(dirs, k)
		} else {
			others = append(others, k)
		}
	}
	var subs [][]string
	for i := 0; i < 3 && len(dirs) > 0; i++ {
		subs = append(subs, []string{dirs[rnd.Intn(len(dirs))]})
	}
	if len(others) > 0 {
		subs = append(subs, []string{others[rnd.Intn(len(others))]})
	}
	subs = append(subs, []string{"nonesuch"}, []string{"../x"})
	// Nested: a directory and one of its sub-directories, relative.
	for _, d := range dirs {
		for _, d2 := range dirs {
			if strings.HasPrefix(d2, d+"/") && rnd.Intn(4) == 0 && len(subs) < 9 {
				subs = append(subs, []string{d, d2[len(d)+1:]})
			}
		}
	}
	// Through an alias.
	for _, n := range ins {
		if kk, _ := kindOf(n.Typeflag); kk == 's' && rnd.Intn(3) == 0 && len(subs) < 12 {
			subs = append(subs, []string{n.Name})
		}
	}
	for _, chain := range subs {
		hs := make([]string, len(chain))
		for i, d := range chain {
			hs[i] = hx.Hex([]byte(d))
		}
		cs := strings.Join(hs, ",")
		sv, fail := v.sub(chain)
		if fail != "" {
			q("stat", cs, hx.Hex([]byte(".")), fail)
			continue
		}
		q("tables", cs, "-", sv.tables())
		q("stat", cs, hx.Hex([]byte(".")), sv.stat("."))
		q("open", cs, hx.Hex([]byte(".")), sv.open("."))
		q("readdir", cs, hx.Hex([]byte(".")), sv.readdir("."))
		q("glob", cs, hx.Hex([]byte("*")), sv.glob("*"))
		q("glob", cs, hx.Hex([]byte("*/*")), sv.glob("*/*"))
		q("walk", cs, fmt.Sprint(walkCap), sv.walk(walkCap))
		slk, _ := sv.sys.TablesForVerif()
		n := 0
		skeys := make([]string, 0, len(slk))
		for k := range slk {
			skeys = append(skeys, k)
		}
		sort.Strings(skeys)
		for _, k := range skeys {
			if n >= 6 {
				break
			}
			if rnd.Intn(2) == 0 || len(skeys) < 8 {
				n++
				q("stat", cs, hx.Hex([]byte(k)), sv.stat(k))
				q("open", cs, hx.Hex([]byte(k)), sv.open(k))
			}
		}
		// The same names from outside of the subtree.
		last := chain[len(chain)-1]
		for _, k := range keys {
			if strings.HasPrefix(k, last) && k != last && !strings.HasPrefix(k, last+"/") {
				rel := strings.TrimPrefix(k, last)
				if fs.ValidPath(rel) {
					q("open", cs, hx.Hex([]byte(rel)), sv.open(rel))
				}
			}
		}
	}
	return out
}

// mutatePattern makes a Glob pattern out of a key.
func mutatePattern(rnd *hx.Rand, k string) string {
	if !utf8.ValidString(k) || k == "" {
		return "*"
	}
	rs := []rune(k)
	switch rnd.Intn(5) {
	case 0:
		rs[rnd.Intn(len(rs))] = '?'
		return string(rs)
	case 1:
		i := rnd.Intn(len(rs))
		return string(rs[:i]) + "*"
	case 2:
		i := rnd.Intn(len(rs))
		return "*" + string(rs[i:])
	case 3:
		return path.Dir(k) + "/*"
	}
	i := rnd.Intn(len(rs))
	j := i + rnd.Intn(len(rs)-i)
	return string(rs[:i]) + "*" + string(rs[j:])
}

// fnOps compares the path functions of the model with the standard library
// and normPath with the real one.
func (x *runner) fnOps(n int) {
	rnd := x.rnd
	alphabet := []string{"/", "/", ".", "..", "a", "b", "ab", "é", "\xff", "\xc3", "\xe2\x82", "\xef\xbf\xbd", "\xed\xa0\x80", "\xf0\x9f\x98\x80", "\xf4\x90\x80\x80", "\xc0\xaf", "*", "?", " ", "\\", "x"}
	str := func() string {
		var b strings.Builder
		for i, k := 0, rnd.Intn(9); i < k; i++ {
			b.WriteString(alphabet[rnd.Intn(len(alphabet))])
		}
		return b.String()
	}
	bs := func(b bool) string {
		if b {
			return "true"
		}
		return "false"
	}
	for i := 0; i < n && !x.r.Stop(); i++ {
		s := str()
		h := hx.Hex([]byte(s))
		switch i % 9 {
		case 0:
			x.r.Op("fn clean "+h, hx.Hex([]byte(path.Clean(s))), true)
		case 1:
			out := hx.Guard(func() string { return hx.Hex([]byte(tarfs.NormPathForVerif(s))) })
			x.r.Op("fn norm "+h, out, true)
			if np := tarfs.NormPathForVerif(s); !contained(np) {
				x.r.Fail("", fmt.Sprintf("normPath(%q) = %q is not a contained name", s, np))
			}
			x.r.Case("contained normPath "+h, true)
		case 2:
			x.r.Op("fn dir "+h, hx.Hex([]byte(path.Dir(s))), true)
		case 3:
			x.r.Op("fn base "+h, hx.Hex([]byte(path.Base(s))), true)
		case 4:
			x.r.Op("fn isabs "+h, bs(path.IsAbs(s)), true)
		case 5:
			x.r.Op("fn validpath "+h, bs(fs.ValidPath(s)), true)
		case 6:
			x.r.Op("fn validutf8 "+h, bs(utf8.ValidString(s)), true)
		case 7:
			t := str()
			x.r.Op("fn join "+h+" "+hx.Hex([]byte(t)), hx.Hex([]byte(path.Join(s, t))), true)
		case 8:
			p := strings.NewReplacer("\\", "", "[", "").Replace(str())
			name := strings.ReplaceAll(str(), "..", "a")
			ok, err := path.Match(p, name)
			if err != nil {
				continue
			}
			x.r.Op("fn match "+hx.Hex([]byte(p))+" "+hx.Hex([]byte(name)), bs(ok), true)
		}
		x.r.Count("op:fn")
	}
}

// referenceTree renders what the
// independent extraction created, in the format of the Lean reference
// `extract` ("none" when the archive is outside its class: a member placed
// through a link, a hard link whose target is spelled through a link, a parent
// that is not a directory, any repetition other than file over file and
// directory over an existing name).
func referenceTree(ms []member, t *otree) (string, bool) {
	for _, m := range ms {
		for _, s := range []string{m.Name, m.Link} {
			if strings.ContainsRune(s, utf8.RuneError) || strings.Contains(s, "\\") {
				return "", false
			}
		}
	}
	if len(t.flags.nonWF) > 0 || t.flags.throughLink || t.flags.hardNotPlain || t.flags.hardViaLink {
		return "none", true
	}
	for _, o := range t.flags.otherRep {
		if o != "dir-over-nondir" {
			return "none", true
		}
	}
	var want []oentry
	t.listing(t.root, "", &want)
	items := []string{hx.Hex([]byte(".")) + ":d"}
	for _, w := range want {
		switch w.node.kind {
		case 'd':
			items = append(items, hx.Hex([]byte(w.path))+":d")
		case 'f':
			items = append(items, fmt.Sprintf("%s:f:%d:%d", hx.Hex([]byte(w.path)), len(w.node.data), fnv(w.node.data)))
		case 's':
			tgt := escName(strings.Join(w.node.lexTarget, "/"))
			if tgt == "" {
				tgt = "."
			}
			items = append(items, hx.Hex([]byte(w.path))+":s:"+hx.Hex([]byte(tgt)))
		case 'x':
			items = append(items, hx.Hex([]byte(w.path))+":x")
		case 'h':
			tgt := escName(strings.Join(lexClean(w.node.target), "/"))
			if tgt == "" {
				tgt = "."
			}
			items = append(items, hx.Hex([]byte(w.path))+":h:"+hx.Hex([]byte(tgt)))
		default:
			return "", false
		}
	}
	sort.Strings(items)
	return renderList(items), true
}

// linkInPath says whether the name of some symbolic or hard link member is a
// proper prefix (element-wise, after lexical cleaning) of another member's
// name. Only then can add/walkTo meet a link in directory position.
func linkInPath(ms []member) bool {
	var links [][]string
	for _, m := range ms {
		if m.Kind == 's' || m.Kind == 'l' {
			links = append(links, lexClean(m.Name))
		}
	}
	for _, m := range ms {
		el := lexClean(m.Name)
		for _, l := range links {
			if len(l) < len(el) {
				same := true
				for i := range l {
					if l[i] != el[i] {
						same = false
						break
					}
				}
				if same {
					return true
				}
			}
		}
	}
	return false
}
