package c11

import (
	"path"
	"sort"
	"strings"
	"unicode/utf8"
)

// An independent sequential extraction of the decoded member list into an
// in-memory tree, with chroot-like path resolution. It shares no code with
// pkg/tarfs and none with the Lean model.
//
// Semantics (the reference the property statement names):
//   - a member name is taken relative to the root; "", "." elements vanish and
//     ".." steps up lexically but never above the root;
//   - missing parent directories are created; a symbolic link in parent
//     position is followed inside the root (absolute targets start at the
//     root, ".." at the root stays there);
//   - a directory member over an existing directory changes nothing; a regular
//     file over an existing regular file replaces the content in place (every
//     hard link sees it);
//   - a hard link names its target relative to the root and is bound when the
//     whole archive has been read (so the target may come later); a hard link
//     whose target never appears is not created;
//   - a directory member at the name of a hard link whose target is not there
//     at that moment creates the directory: a sequential extraction could not
//     create that link, so the name is free (a later target does not bring the
//     link back). Over a hard link whose target is there nothing changes.
//
// Everything else (a parent that is not a directory, a dangling or cyclic link
// in parent position, other kinds of repetition, hard links to things that are
// not regular files) is recorded in flags; for those archives the statement
// only promises rejection or containment, and the oracle only checks that.

type onode struct {
	kind   byte // 'd' dir, 'f' file, 's' symlink, 'h' hard link (bound at the end), 'x' special
	name   string
	parent *onode
	kids   map[string]*onode
	data   []byte // 'f'
	// oversize: the header size of the file exceeds the archive segment that
	// holds it (a sparse file with more hole than data); the view refuses to
	// open such a member (finding sparse-oversize-refused).
	oversize bool
	// Header fields of the member that decides the node's metadata: the last
	// regular file written to it, else the member that created it. implied:
	// no member created the node (a parent made on the way).
	hsize, mode, mtimeS int64
	mtimeN              int
	implied             bool
	target string // 's': raw target; 'h': target name (root relative, raw)
	// lexTarget is the symlink target as the view spells it: cleaned lexically
	// against the directory part of the member's literal name.
	lexTarget []string
	// lit is the literal (lexically cleaned) name under which a member first
	// created the node; it differs from the real path when the member was
	// placed through a symbolic link.
	lit string
}

type oflags struct {
	nonWF       []string // reasons the archive is outside the class with a defined extraction
	otherRep    []string // kinds of repetition other than dir/dir and file/file
	throughLink bool     // some member was placed through a symbolic link in its directory path
	impliedDirs int
	repeats     int
	deferred    int // hard links that precede their target
	dangling    int // hard links without target
	// Shapes of the recorded findings (see findings/C11.txt).
	aliasDup        bool // a member reaches an existing node under another literal name
	hlAlias         bool // a hard link names its target by another spelling than the one it was created under
	danglingThrough bool // a dangling hard link was placed through a symbolic link
	lexMismatch     bool // a symlink target means something else lexically than it does in place
	hardNotPlain    bool // a hard link whose target is not, at that moment, a regular file
	hardViaLink     bool // a hard link whose target is, at that moment, reached only through a symbolic link
	hardlinks       int
}

type otree struct {
	root      *onode
	flags     oflags
	hardFinal map[*onode]*onode // bound hard link -> the regular file it names
	// placing: a member is being placed through the links follow resolves. The
	// view looks a link target up by its spelling; when the node it means was
	// registered under another spelling the view makes a second one (a twin).
	placing bool
}

func newTree() *otree {
	return &otree{root: &onode{kind: 'd', name: ".", kids: map[string]*onode{}}}
}

// lexClean is the rooted lexical normalisation of a name: the elements that remain.
func lexClean(name string) []string {
	var st []string
	for _, c := range strings.Split(name, "/") {
		switch c {
		case "", ".":
		case "..":
			if len(st) > 0 {
				st = st[:len(st)-1]
			}
		default:
			st = append(st, c)
		}
	}
	return st
}

// maxHops ends the resolution of a link cycle. It is far above the length of
// any chain an archive of the harness holds: an acyclic chain resolves however
// long it is (a real kernel gives up after 40 links; the view has no such
// limit and the statement does not ask for one).
const maxHops = 5000

// step resolves one element from dir d. It returns the node (possibly a
// symlink, not followed) or nil.
func (d *onode) child(c string) *onode {
	if d.kind != 'd' {
		return nil
	}
	return d.kids[c]
}

// follow resolves the symbolic link n (which lives in n.parent) to the node it
// points at, following further links, without creating anything.
// reason is "" on success, else "dangling", "loop" or "notdir".
func (t *otree) follow(n *onode, hops *int) (*onode, string) {
	for n.kind == 's' {
		*hops++
		if *hops > maxHops {
			return nil, "loop"
		}
		start := n.parent
		if strings.HasPrefix(n.target, "/") {
			start = t.root
		}
		r, why := t.walkFrom(start, strings.Split(n.target, "/"), hops)
		if r == nil {
			return nil, why
		}
		if t.placing && r.lit != strings.Join(n.lexTarget, "/") {
			t.flags.aliasDup = true
		}
		n = r
	}
	return n, ""
}

// walkFrom resolves the elements from cur with real ("..", symlinks followed
// in every position but the last) semantics; the last element is returned
// unfollowed.
func (t *otree) walkFrom(cur *onode, elems []string, hops *int) (*onode, string) {
	for i, c := range elems {
		switch c {
		case "", ".":
			continue
		case "..":
			if cur.parent != nil {
				cur = cur.parent
			}
			continue
		}
		if cur.kind == 's' {
			r, why := t.follow(cur, hops)
			if r == nil {
				return nil, why
			}
			cur = r
		}
		if cur.kind != 'd' {
			return nil, "notdir"
		}
		n := cur.kids[c]
		if n == nil {
			return nil, "dangling"
		}
		last := true
		for _, r := range elems[i+1:] {
			if r != "" && r != "." {
				last = false
			}
		}
		if n.kind == 's' && !last {
			r, why := t.follow(n, hops)
			if r == nil {
				return nil, why
			}
			n = r
		}
		cur = n
	}
	return cur, ""
}

// resolve resolves a root-relative element list; the final node is followed
// when followLast is set.
func (t *otree) resolve(elems []string, followLast bool) (*onode, string) {
	hops := 0
	n, why := t.walkFrom(t.root, elems, &hops)
	if n == nil {
		return nil, why
	}
	if followLast && n.kind == 's' {
		return t.follow(n, &hops)
	}
	return n, ""
}

// parentDir finds (creating missing directories) the directory the last
// element of elems lives in.
func (t *otree) parentDir(elems []string) (*onode, string) {
	cur := t.root
	hops := 0
	for i, c := range elems[:len(elems)-1] {
		n := cur.kids[c]
		if n == nil {
			n = &onode{kind: 'd', name: c, parent: cur, kids: map[string]*onode{}, lit: strings.Join(elems[:i+1], "/"), implied: true}
			cur.kids[c] = n
			t.flags.impliedDirs++
		}
		if n.kind == 's' {
			t.flags.throughLink = true
			t.placing = true
			r, why := t.follow(n, &hops)
			t.placing = false
			if r == nil {
				return nil, why + "-link-in-parent"
			}
			n = r
		}
		if n.kind != 'd' {
			return nil, "parent-not-dir"
		}
		cur = n
	}
	return cur, ""
}

func (t *otree) nonWF(why string) { t.flags.nonWF = append(t.flags.nonWF, why) }
func (t *otree) other(why string) { t.flags.otherRep = append(t.flags.otherRep, why) }

// extract applies the members in order.
func extract(ms []member) *otree {
	t := newTree()
	for _, m := range ms {
		elems := lexClean(m.Name)
		if len(elems) == 0 {
			// The root itself.
			if m.Kind != 'd' {
				t.nonWF("nondir-at-root")
			}
			continue
		}
		dir, why := t.parentDir(elems)
		if dir == nil {
			t.nonWF(why)
			continue
		}
		base := elems[len(elems)-1]
		old := dir.kids[base]
		lit := strings.Join(elems, "/")
		meta := func(n *onode) {
			n.hsize, n.mode, n.mtimeS, n.mtimeN = m.HSize, m.Mode&0o7777, m.MTimeS, m.MTimeN
		}
		mk := func(kind byte) *onode {
			n := &onode{kind: kind, name: base, parent: dir, lit: lit}
			meta(n)
			dir.kids[base] = n
			return n
		}
		if old != nil {
			t.flags.repeats++
			if old.lit != lit {
				t.flags.aliasDup = true
			}
		}
		switch m.Kind {
		case 'd':
			switch {
			case old == nil:
				mk('d').kids = map[string]*onode{}
			case old.kind == 'd':
			case old.kind == 'h' && t.unbound(old):
				// The link could not be created so far, so the name is free.
				old.kind, old.target, old.kids, old.lit = 'd', "", map[string]*onode{}, lit
				meta(old)
				t.other("dir-over-unbound-hardlink")
			default:
				t.other("dir-over-nondir")
			}
		case 'r':
			switch {
			case old == nil:
				n := mk('f')
				n.data, n.oversize = m.Data, m.HSize > m.Seg
			case old.kind == 'f':
				old.data, old.oversize = m.Data, m.HSize > m.Seg
				meta(old)
			case old.kind == 'h':
				// Replaces the link itself (it is bound at the end).
				old.kind, old.data, old.target, old.oversize = 'f', m.Data, "", m.HSize > m.Seg
				meta(old)
				t.other("file-over-hardlink")
			case old.kind == 's':
				t.other("file-over-symlink")
				t.writeThrough(old, m)
			case old.kind == 'd':
				t.nonWF("file-over-dir")
			default:
				t.other("file-over-special")
				old.kind, old.data, old.oversize = 'f', m.Data, m.HSize > m.Seg
				meta(old)
			}
		case 's':
			if old != nil {
				t.nonWF("symlink-over-existing")
				continue
			}
			n := mk('s')
			n.target = m.Link
			if strings.HasPrefix(m.Link, "/") {
				n.lexTarget = lexClean(m.Link)
			} else {
				n.lexTarget = lexClean(strings.Join(elems[:len(elems)-1], "/") + "/" + m.Link)
			}
		case 'l':
			if old != nil {
				t.nonWF("hardlink-over-existing")
				continue
			}
			n := mk('h')
			n.target = m.Link
			t.flags.hardlinks++
			r, _ := t.resolve(lexClean(m.Link), false)
			if r == nil {
				t.flags.deferred++
			}
			if r == nil || r.kind != 'f' {
				t.flags.hardNotPlain = true
			}
			if r != nil && pathOf(r) != strings.Join(lexClean(m.Link), "/") {
				t.flags.hardViaLink = true
			}
		case 'x':
			if old != nil {
				t.nonWF("special-over-existing")
				continue
			}
			mk('x')
		}
	}
	t.bindHardLinks()
	return t
}

// unbound: the target of the hard link l is not there (yet).
func (t *otree) unbound(l *onode) bool {
	r, _ := t.resolve(lexClean(l.target), false)
	return r == nil
}

// bindHardLinks resolves every hard link now that all members are in. A link
// whose target is missing is removed; a link to something that is not a
// regular file takes the archive out of the defined class.
func (t *otree) bindHardLinks() {
	var links []*onode
	var collect func(n *onode)
	collect = func(n *onode) {
		if n.kind == 'h' {
			links = append(links, n)
		}
		for _, k := range sortedKids(n) {
			collect(n.kids[k])
		}
	}
	collect(t.root)
	// Resolve with the links still in place, so that chains work.
	final := map[*onode]*onode{}
	for _, l := range links {
		cur := l
		seen := map[*onode]bool{}
		for cur != nil && cur.kind == 'h' {
			if seen[cur] {
				t.nonWF("hardlink-cycle")
				cur = nil
				break
			}
			seen[cur] = true
			n, _ := t.resolve(lexClean(cur.target), false)
			cur = n
		}
		final[l] = cur
	}
	for _, l := range links {
		if f := final[l]; f != nil && f.kind == 'h' {
			// Cannot happen: chains are followed to their end.
			t.nonWF("hardlink-chain")
		}
	}
	for _, l := range links {
		f := final[l]
		switch {
		case f == nil:
			t.flags.dangling++
			// The cleanup of New looks the parent up by the literal directory
			// name of the link; that finds the real parent only if the parent
			// is registered under exactly that name.
			if l.lit != pathOf(l) || (l.parent.parent != nil && l.parent.lit != path.Dir(l.lit)) {
				t.flags.danglingThrough = true
			}
			for _, l2 := range links {
				if l2 != l && l2.parent.kids[l2.name] == l2 {
					if n, _ := t.resolve(lexClean(l2.target), false); n == l {
						t.nonWF("hardlink-to-dangling-hardlink")
					}
				}
			}
		case f.kind != 'f':
			t.nonWF("hardlink-to-" + string(f.kind))
		default:
			// The view keeps the link only if the target's spelling is a name
			// somebody registered.
			if first, _ := t.resolve(lexClean(l.target), false); first != nil && first.lit != strings.Join(lexClean(l.target), "/") {
				t.flags.hlAlias = true
			}
		}
	}
	for _, l := range links {
		if final[l] == nil {
			delete(l.parent.kids, l.name)
		}
	}
	t.hardFinal = final
	t.lexCheck(t.root)
}

// lexCheck flags symbolic links whose target, cleaned lexically against the
// literal directory of the member (what the view stores), names something
// else than the target resolved in place.
func (t *otree) lexCheck(n *onode) {
	for _, k := range sortedKids(n) {
		c := n.kids[k]
		switch c.kind {
		case 'd':
			t.lexCheck(c)
		case 's':
			h1, h2 := 0, 0
			real, why1 := t.follow(c, &h1)
			lex, why2 := t.followLex(c, &h2)
			if real != lex || why1 != why2 {
				t.flags.lexMismatch = true
			}
		}
	}
}

// writeThrough writes a regular file through the symbolic link n (POSIX
// open(O_CREAT|O_TRUNC) semantics): the file the chain ends at is replaced;
// if the last link dangles and the directory of its target exists, the file
// is created there.
func (t *otree) writeThrough(n *onode, m member) {
	data, oversize := m.Data, m.HSize > m.Seg
	meta := func(n *onode) {
		n.hsize, n.mode, n.mtimeS, n.mtimeN = m.HSize, m.Mode&0o7777, m.MTimeS, m.MTimeN
	}
	hops := 0
	cur := n
	var via *onode // the last link of the chain
	for cur.kind == 's' {
		hops++
		if hops > maxHops {
			t.nonWF("file-over-symlink-loop")
			return
		}
		via = cur
		start := cur.parent
		if strings.HasPrefix(cur.target, "/") {
			start = t.root
		}
		te := strings.Split(cur.target, "/")
		h2 := 0
		nx, why := t.walkFrom(start, te, &h2)
		if h2 > 0 {
			t.flags.throughLink = true
		}
		if nx == nil {
			if why != "dangling" {
				t.nonWF("file-over-symlink-" + why)
				return
			}
			last := te[len(te)-1]
			pd, _ := t.walkFrom(start, te[:len(te)-1], &h2)
			if pd != nil && pd.kind == 's' {
				pd, _ = t.follow(pd, &h2)
			}
			if pd == nil || pd.kind != 'd' || last == "" || last == "." || last == ".." || pd.kids[last] != nil {
				t.nonWF("file-over-dangling-symlink")
				return
			}
			nn := &onode{kind: 'f', name: last, parent: pd, data: data, oversize: oversize}
			meta(nn)
			pd.kids[last] = nn
			return
		}
		cur = nx
	}
	if via != nil && (cur.kind == 'f' || cur.kind == 'h') && cur.lit != strings.Join(via.lexTarget, "/") {
		// The view looks the file up by the link's target name; it was
		// registered under another spelling (placed through a link).
		t.flags.aliasDup = true
	}
	switch cur.kind {
	case 'f':
		cur.data, cur.oversize = data, oversize
		meta(cur)
	case 'h':
		cur.kind, cur.data, cur.target, cur.oversize = 'f', data, "", oversize
		meta(cur)
	default:
		t.nonWF("file-over-symlink-to-" + string(cur.kind))
	}
}

// chainThroughAlias: n is a hard link whose chain passes through another hard
// link that the view treats as dangling and removes, because that link names
// its target by a spelling nobody registered (finding hardlink-alias-target).
func (t *otree) chainThroughAlias(n *onode) bool {
	seen := map[*onode]bool{}
	for cur := n; cur != nil && cur.kind == 'h' && !seen[cur]; {
		seen[cur] = true
		next, _ := t.resolve(lexClean(cur.target), false)
		if next == nil {
			return false
		}
		if cur != n && next.lit != strings.Join(lexClean(cur.target), "/") {
			return true
		}
		cur = next
	}
	return false
}

// realNode walks the tree by names only (no link is followed).
func (t *otree) realNode(elems []string) *onode {
	cur := t.root
	for _, c := range elems {
		if cur.kind != 'd' {
			return nil
		}
		cur = cur.kids[c]
		if cur == nil {
			return nil
		}
	}
	return cur
}

// oversized: reading n (a file or a bound hard link) means opening a member
// larger than its segment.
func (t *otree) oversized(n *onode) bool {
	switch n.kind {
	case 'f':
		return n.oversize
	case 'h':
		if f := t.hardFinal[n]; f != nil && f.kind == 'f' {
			return f.oversize
		}
	}
	return false
}

// anyOversize: some file of the tree is oversized.
func (t *otree) anyOversize(n *onode) bool {
	if n.kind == 'f' && n.oversize {
		return true
	}
	for _, k := range n.kids {
		if t.anyOversize(k) {
			return true
		}
	}
	return false
}

func sortedKids(n *onode) []string {
	ks := make([]string, 0, len(n.kids))
	for k := range n.kids {
		ks = append(ks, k)
	}
	sort.Strings(ks)
	return ks
}

// pathOf is the real path of a node, raw bytes.
func pathOf(n *onode) string {
	if n.parent == nil {
		return "."
	}
	var parts []string
	for c := n; c.parent != nil; c = c.parent {
		parts = append(parts, c.name)
	}
	for i, j := 0, len(parts)-1; i < j; i, j = i+1, j-1 {
		parts[i], parts[j] = parts[j], parts[i]
	}
	return strings.Join(parts, "/")
}

// escName spells a raw name the way the view does: bytes that are not part
// of a valid UTF-8 sequence become \xNN. (Written independently of normPath;
// names with U+FFFD or backslashes are not generated for extraction checks.)
func escName(s string) string {
	if utf8.ValidString(s) {
		return s
	}
	var b strings.Builder
	for len(s) > 0 {
		r, w := utf8.DecodeRuneInString(s)
		if r == utf8.RuneError && w == 1 {
			const hexd = "0123456789abcdef"
			b.WriteString(`\x`)
			b.WriteByte(hexd[s[0]>>4])
			b.WriteByte(hexd[s[0]&15])
		} else {
			b.WriteString(s[:w])
		}
		s = s[w:]
	}
	return b.String()
}

// oentry is one path the extraction created, as the view should present it.
type oentry struct {
	path string // escaped, view spelling
	node *onode
}

// typeOf is the letter the view should report for Stat (links not followed).
func (t *otree) typeOf(n *onode) string {
	switch n.kind {
	case 'd':
		return "d"
	case 'f', 'h':
		return "-"
	case 's':
		return "L"
	}
	return "o"
}

// listing is the depth-first, name-sorted list of everything below n (as
// fs.WalkDir visits it: symbolic links are not descended into).
func (t *otree) listing(n *onode, prefix string, out *[]oentry) {
	type kv struct {
		esc string
		n   *onode
	}
	var ks []kv
	for raw, k := range n.kids {
		ks = append(ks, kv{escName(raw), k})
	}
	sort.Slice(ks, func(i, j int) bool { return ks[i].esc < ks[j].esc })
	for _, k := range ks {
		p := k.esc
		if prefix != "" {
			p = prefix + "/" + k.esc
		}
		*out = append(*out, oentry{p, k.n})
		if k.n.kind == 'd' {
			t.listing(k.n, p, out)
		}
	}
}

// content is what reading n yields (n a file or a bound hard link).
func (t *otree) content(n *onode) ([]byte, bool) {
	switch n.kind {
	case 'f':
		return n.data, true
	case 'h':
		if f := t.hardFinal[n]; f != nil && f.kind == 'f' {
			return f.data, true
		}
	}
	return nil, false
}

// followLex resolves a symbolic link the lexical way: every link stands for
// the root-relative name lexTarget, resolved from the root.
func (t *otree) followLex(n *onode, hops *int) (*onode, string) {
	for n.kind == 's' {
		*hops++
		if *hops > maxHops {
			return nil, "loop"
		}
		cur := t.root
		for _, c := range n.lexTarget {
			if cur.kind == 's' {
				r, why := t.followLex(cur, hops)
				if r == nil {
					return nil, why
				}
				cur = r
			}
			if cur.kind != 'd' {
				return nil, "notdir"
			}
			k := cur.kids[c]
			if k == nil {
				return nil, "dangling"
			}
			cur = k
		}
		n = cur
	}
	return n, ""
}
