package c11

import (
	"fmt"
	"strings"
)

// A tar writer of our own: it lays out header blocks by hand, so the archives
// it makes reach the parts of pkg/tarfs/parse.go that archive/tar's Writer
// never produces input for: pax extended headers it would not write (path,
// linkpath, size, mtime records on short names, several records, a global
// header), GNU long name / long link entries, old-GNU magic, base-256 numbers,
// the ustar prefix field, PAX 1.0 and old-GNU sparse members, entries of
// typeflags the view does not present.

type kv struct{ k, v string }

const (
	viaField = iota // in the header field (ustar prefix split when it helps)
	viaPax          // pax "path" / "linkpath" record
	viaGNU          // GNU 'L' / 'K' entry
)

type rawEntry struct {
	Typeflag byte
	Name     string
	Link     string
	Data     []byte
	Mode     int64
	MTime    int64
	OldGNU   bool // magic "ustar  \0" instead of "ustar\0" "00"
	NameVia  int
	LinkVia  int
	Pax      []kv // further records of the extended header
	PaxSize  bool // a "size" record (equal to the content length)
	PaxFirst bool // the extended header goes before the GNU long entries (else after)
	Global   []kv // a pax global header in front of everything
	Base256  bool // size and mtime fields in base-256
	// Before lets an entry of a typeflag the view does not present (with some
	// content) precede this one.
	Before byte
	// Sparse: PAX 1.0 ('0' with GNU.sparse records, Old false) or old GNU ('S').
	Sparse *rawSparse
	// SizeField overrides the size field of a header-only entry (POSIX allows
	// a directory to carry one).
	SizeField int64
}

type rawSparse struct {
	Old      bool
	Holes    [][2]int64 // (offset, length) of the data fragments
	RealSize int64
}

func putOctal(b []byte, v int64) {
	s := fmt.Sprintf("%0*o", len(b)-1, v)
	if len(s) > len(b)-1 {
		s = s[len(s)-(len(b)-1):]
	}
	copy(b, s)
	b[len(b)-1] = 0
}

func putBase256(b []byte, v int64) {
	for i := len(b) - 1; i >= 0; i-- {
		b[i] = byte(v)
		v >>= 8
	}
	b[0] |= 0x80
}

func (e *rawEntry) block(tf byte, name, link string, size int64) []byte {
	b := make([]byte, 512)
	// Name: split into prefix/name at a slash when it does not fit (POSIX magic only).
	nm := name
	if len(nm) > 100 && !e.OldGNU {
		for i := len(nm) - 101; i < len(nm) && i <= 155; i++ {
			if i > 0 && nm[i] == '/' {
				copy(b[345:500], nm[:i])
				nm = nm[i+1:]
				break
			}
		}
	}
	copy(b[0:100], nm)
	putOctal(b[100:108], e.Mode)
	putOctal(b[108:116], 0)
	putOctal(b[116:124], 0)
	if e.Base256 && !e.OldGNU {
		// base-256 needs the GNU flavour for archive/tar to accept it
		putOctal(b[124:136], size)
		putOctal(b[136:148], e.MTime)
	} else if e.Base256 {
		putBase256(b[124:136], size)
		putBase256(b[136:148], e.MTime)
	} else {
		putOctal(b[124:136], size)
		putOctal(b[136:148], e.MTime)
	}
	b[156] = tf
	copy(b[157:257], link)
	if e.OldGNU {
		copy(b[257:265], "ustar  \x00")
	} else {
		copy(b[257:263], "ustar\x00")
		copy(b[263:265], "00")
	}
	return b
}

func sealBlock(b []byte) []byte {
	for i := 148; i < 156; i++ {
		b[i] = ' '
	}
	var s int64
	for _, c := range b {
		s += int64(c)
	}
	copy(b[148:156], fmt.Sprintf("%06o\x00 ", s))
	return b
}

func padBlocks(d []byte) []byte {
	n := (len(d) + 511) / 512 * 512
	out := make([]byte, n)
	copy(out, d)
	return out
}

func paxRecord(k, v string) string {
	// "<len> k=v\n" where len counts itself.
	base := len(k) + len(v) + 3
	n := base + len(fmt.Sprint(base))
	if len(fmt.Sprint(n)) != len(fmt.Sprint(base)) {
		n = base + len(fmt.Sprint(n))
	}
	return fmt.Sprintf("%d %s=%s\n", n, k, v)
}

func paxBody(recs []kv) []byte {
	var b strings.Builder
	for _, r := range recs {
		b.WriteString(paxRecord(r.k, r.v))
	}
	return []byte(b.String())
}

// aux writes an auxiliary entry (x, g, L, K, or an unknown type) with content.
func (e *rawEntry) aux(tf byte, name string, body []byte) []byte {
	h := *e
	h.Base256 = false
	h.Mode = 0o644
	out := sealBlock(h.block(tf, name, "", int64(len(body))))
	return append(out, padBlocks(body)...)
}

// bytes lays the entry out.
func (e *rawEntry) bytes() []byte {
	var out []byte
	if len(e.Global) > 0 {
		out = append(out, e.aux('g', "pax_global_header", paxBody(e.Global))...)
	}
	name, link := e.Name, e.Link
	var pax []kv
	var gnu []byte
	short := func(s string) string {
		if len(s) > 100 {
			return s[:100]
		}
		return s
	}
	switch e.NameVia {
	case viaPax:
		pax = append(pax, kv{"path", name})
		name = short("PaxHeaders.0/" + strings.ReplaceAll(short(name), "\x00", ""))
	case viaGNU:
		gnu = append(gnu, e.aux('L', "././@LongLink", append([]byte(e.Name), 0))...)
		name = short(name)
	}
	if link != "" {
		switch e.LinkVia {
		case viaPax:
			pax = append(pax, kv{"linkpath", link})
			link = short(link)
		case viaGNU:
			gnu = append(gnu, e.aux('K', "././@LongLink", append([]byte(e.Link), 0))...)
			link = short(link)
		}
	}
	pax = append(pax, e.Pax...)

	tf := e.Typeflag
	content := e.Data
	size := int64(len(content))
	var hdrTail func(b []byte) // further fields of the main header
	var ext []byte             // extension blocks (old GNU sparse)
	if sp := e.Sparse; sp != nil {
		var stored []byte
		for _, h := range sp.Holes {
			stored = append(stored, e.Data[h[0]:h[0]+h[1]]...)
		}
		if sp.Old {
			tf = 'S'
			content = stored
			size = int64(len(stored))
			hdrTail = func(b []byte) {
				for i, h := range sp.Holes {
					if i >= 4 {
						break
					}
					putOctal(b[386+24*i:386+24*i+12], h[0])
					putOctal(b[386+24*i+12:386+24*i+24], h[1])
				}
				if len(sp.Holes) > 4 {
					b[482] = 1
				}
				putOctal(b[483:495], sp.RealSize)
			}
			rest := sp.Holes
			if len(rest) > 4 {
				rest = rest[4:]
			} else {
				rest = nil
			}
			for len(rest) > 0 {
				blk := make([]byte, 512)
				n := len(rest)
				if n > 21 {
					n = 21
				}
				for i := 0; i < n; i++ {
					putOctal(blk[24*i:24*i+12], rest[i][0])
					putOctal(blk[24*i+12:24*i+24], rest[i][1])
				}
				rest = rest[n:]
				if len(rest) > 0 {
					blk[504] = 1
				}
				ext = append(ext, blk...)
			}
		} else {
			// PAX format 1.0: the map is in front of the data.
			var m strings.Builder
			fmt.Fprintf(&m, "%d\n", len(sp.Holes))
			for _, h := range sp.Holes {
				fmt.Fprintf(&m, "%d\n%d\n", h[0], h[1])
			}
			content = append(padBlocks([]byte(m.String())), stored...)
			size = int64(len(content))
			pax = append(pax, kv{"GNU.sparse.major", "1"}, kv{"GNU.sparse.minor", "0"},
				kv{"GNU.sparse.name", e.Name}, kv{"GNU.sparse.realsize", fmt.Sprint(sp.RealSize)})
			name = short("GNUSparseFile.0/" + short(e.Name))
		}
	}
	if e.PaxSize {
		pax = append(pax, kv{"size", fmt.Sprint(size)})
	}
	var paxB []byte
	if len(pax) > 0 {
		paxB = e.aux('x', "PaxHeaders.0/x", paxBody(pax))
	}
	if e.PaxFirst {
		out = append(append(out, paxB...), gnu...)
	} else {
		out = append(append(out, gnu...), paxB...)
	}
	if e.Before != 0 {
		out = append(out, e.aux(e.Before, "other", []byte("volume label or the like"))...)
	}
	field := size
	switch tf {
	case '1', '2', '3', '4', '5', '6':
		content = nil
		field = e.SizeField
	}
	b := e.block(tf, name, link, field)
	if hdrTail != nil {
		hdrTail(b)
	}
	out = append(out, sealBlock(b)...)
	out = append(out, ext...)
	out = append(out, padBlocks(content)...)
	return out
}

func writeRaw(es []rawEntry) []byte {
	var out []byte
	for i := range es {
		out = append(out, es[i].bytes()...)
	}
	return append(out, make([]byte, 1024)...)
}
