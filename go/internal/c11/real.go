package c11

import (
	"bytes"
	"errors"
	"fmt"
	"io"
	"io/fs"
	"sort"
	"strings"

	"github.com/quay/claircore/pkg/tarfs"
	"github.com/quay/claircore/verifharness/internal/hx"
)

// errClass maps an error of the package to the classes of the model.
func errClass(err error) string {
	switch {
	case err == nil:
		return "ok"
	case errors.Is(err, fs.ErrExist):
		return "err:exist"
	case errors.Is(err, fs.ErrInvalid):
		return "err:invalid"
	case errors.Is(err, fs.ErrNotExist):
		return "err:notexist"
	}
	return "err:other"
}

func fnv(b []byte) uint32 {
	h := uint32(2166136261)
	for _, c := range b {
		h = (h ^ uint32(c)) * 16777619
	}
	return h
}

func typeLetter(m fs.FileMode) string {
	switch t := m.Type(); {
	case t == 0:
		return "-"
	case t == fs.ModeDir:
		return "d"
	case t == fs.ModeSymlink:
		return "L"
	}
	return "o"
}

// renderList joins the items; long lists are summarised by count and hash
// (as the Lean driver does).
func renderList(items []string) string {
	if len(items) == 0 {
		return "-"
	}
	txt := strings.Join(items, ",")
	if len(items) > 64 {
		return fmt.Sprintf("n=%d h=%d", len(items), fnv([]byte(txt)))
	}
	return txt
}

func renderEntries(es []fs.DirEntry) string {
	items := make([]string, len(es))
	for i, e := range es {
		items[i] = hx.Hex([]byte(e.Name())) + ":" + typeLetter(e.Type())
	}
	sort.Strings(items)
	return renderList(items)
}

// modeBits is the permission, setuid, setgid and sticky part of a FileMode in
// tar's (POSIX) numbering.
func modeBits(m fs.FileMode) int {
	b := int(m.Perm())
	if m&fs.ModeSetuid != 0 {
		b |= 0o4000
	}
	if m&fs.ModeSetgid != 0 {
		b |= 0o2000
	}
	if m&fs.ModeSticky != 0 {
		b |= 0o1000
	}
	return b
}

func renderInfo(fi fs.FileInfo) string {
	mt := fi.ModTime()
	return fmt.Sprintf("%s %s %d %d %d.%d", typeLetter(fi.Mode()), hx.Hex([]byte(fi.Name())), fi.Size(), modeBits(fi.Mode()), mt.Unix(), mt.Nanosecond())
}

// view is the real FS (or a Sub of it) under test.
type view struct{ sys *tarfs.FS }

func openReal(b []byte) (*tarfs.FS, error) { return tarfs.New(bytes.NewReader(b)) }

func (v view) stat(p string) string {
	return hx.Guard(func() string {
		fi, err := fs.Stat(v.sys, p)
		if err != nil {
			return errClass(err)
		}
		return "i " + renderInfo(fi)
	})
}

func (v view) open(p string) string {
	return hx.Guard(func() string {
		f, err := v.sys.Open(p)
		if err != nil {
			return errClass(err)
		}
		defer f.Close()
		fi, err := f.Stat()
		if err != nil {
			return "staterr"
		}
		if d, ok := f.(fs.ReadDirFile); ok {
			es, err := d.ReadDir(-1)
			if err != nil {
				return "readdirerr"
			}
			return "d " + renderInfo(fi) + " " + renderEntries(es)
		}
		b, err := io.ReadAll(f)
		if err != nil {
			return "readerr"
		}
		return fmt.Sprintf("f %s %d %d", renderInfo(fi), len(b), fnv(b))
	})
}

func (v view) readdir(p string) string {
	return hx.Guard(func() string {
		es, err := fs.ReadDir(v.sys, p)
		if err != nil {
			return errClass(err)
		}
		return renderEntries(es)
	})
}

// renderOrdered keeps the order of the entries (paging shows it).
func renderOrdered(es []fs.DirEntry) string {
	items := make([]string, len(es))
	for i, e := range es {
		items[i] = hx.Hex([]byte(e.Name())) + ":" + typeLetter(e.Type())
	}
	return renderList(items)
}

// page opens p and calls ReadDir(n) for every n on the one handle.
func (v view) page(p string, ns []int) string {
	return hx.Guard(func() string {
		f, err := v.sys.Open(p)
		if err != nil {
			return errClass(err)
		}
		defer f.Close()
		d, ok := f.(fs.ReadDirFile)
		if !ok {
			return "notdir"
		}
		var out []string
		for _, n := range ns {
			out = append(out, hx.Guard(func() string {
				es, err := d.ReadDir(n)
				switch {
				case err == io.EOF && len(es) == 0:
					return "E"
				case err != nil:
					return "readdirerr"
				}
				return renderOrdered(es)
			}))
		}
		return strings.Join(out, ";")
	})
}

// readfile is io/fs.ReadFile on the view.
func (v view) readfile(p string) string {
	return hx.Guard(func() string {
		b, err := fs.ReadFile(v.sys, p)
		if err != nil {
			return errClass(err)
		}
		return fmt.Sprintf("ok %d %d", len(b), fnv(b))
	})
}

func (v view) glob(pat string) string {
	return hx.Guard(func() string {
		ns, err := fs.Glob(v.sys, pat)
		if err != nil {
			return "err:badpattern"
		}
		items := make([]string, len(ns))
		for i, n := range ns {
			items[i] = hx.Hex([]byte(n))
		}
		return renderList(items)
	})
}

// walk lists what fs.WalkDir visits, at most max visits.
func (v view) walk(max int) string {
	return hx.Guard(func() string {
		var items []string
		visits := 0
		fs.WalkDir(v.sys, ".", func(p string, d fs.DirEntry, err error) error {
			if err != nil {
				items = append(items, hx.Hex([]byte(p))+":E")
				if visits >= max {
					return fs.SkipAll
				}
				return nil
			}
			if visits >= max {
				return fs.SkipAll
			}
			visits++
			items = append(items, hx.Hex([]byte(p))+":"+typeLetter(d.Type()))
			return nil
		})
		return renderList(items)
	})
}

// sub applies Sub along the chain; the second result is the protocol answer
// when a Sub fails.
func (v view) sub(chain []string) (view, string) {
	cur := v
	for _, d := range chain {
		var next fs.FS
		var err error
		out := hx.Guard(func() string {
			next, err = fs.Sub(cur.sys, d)
			if err != nil {
				return "sub" + errClass(err)
			}
			return ""
		})
		if out != "" {
			return view{}, out
		}
		t, ok := next.(*tarfs.FS)
		if !ok {
			return view{}, "sub-not-tarfs"
		}
		cur = view{t}
	}
	return cur, ""
}

func kindLetter(tf byte) string {
	k, ok := kindOf(tf)
	if !ok {
		return "?"
	}
	return string(k)
}

// tables renders the lookup and inode tables as the Lean driver does.
func (v view) tables() string {
	lk, ins := v.sys.TablesForVerif()
	ls := make([]string, 0, len(lk))
	for k, i := range lk {
		ls = append(ls, fmt.Sprintf("%s=%d", hx.Hex([]byte(k)), i))
	}
	sort.Strings(ls)
	is := make([]string, len(ins))
	for i, n := range ins {
		cs := "n"
		if n.IsDirNode {
			parts := make([]string, len(n.Children))
			for j, c := range n.Children {
				parts[j] = fmt.Sprint(c)
			}
			cs = "[" + strings.Join(parts, " ") + "]"
		}
		link := "-"
		if k, _ := kindOf(n.Typeflag); k == 's' || k == 'l' {
			link = hx.Hex([]byte(n.Linkname))
		}
		d := fmt.Sprintf("%d/%d", n.Size, n.Sz)
		is[i] = fmt.Sprintf("%s:%s:%s:%s:%s", kindLetter(n.Typeflag), hx.Hex([]byte(n.Name)), link, cs, d)
	}
	txt := strings.Join(ls, ",") + " | " + strings.Join(is, ",")
	if len(txt) > 1500 {
		return fmt.Sprintf("keys=%d inodes=%d h=%d", len(lk), len(ins), fnv([]byte(txt)))
	}
	return txt
}
