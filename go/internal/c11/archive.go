package c11

import (
	"archive/tar"
	"bytes"
	"fmt"
	"io"
	"time"
)

// spec is one member as the generator wants it written.
type spec struct {
	Typeflag byte
	Name     string
	Link     string
	Data     []byte
	Mode     int64
	Format   tar.Format
	MTime    int64 // seconds; 0 = the zero time archive/tar writes as 0
}

// member is one member as archive/tar's Reader decodes it: the input of the
// Lean model and of the independent extraction.
type member struct {
	Kind byte // r d s l x
	Name string
	Link string
	Data []byte
	// Header fields the view hands on, as the sequential Reader decodes them,
	// and the size of the entry's segment by the independent layout.
	HSize  int64
	Seg    int64
	Mode   int64
	MTimeS int64
	MTimeN int
}

// kindOf maps a typeflag to the model's class. ok is false for typeflags
// findSegments does not emit a segment for.
func kindOf(tf byte) (byte, bool) {
	switch tf {
	case tar.TypeReg, 0, tar.TypeCont, tar.TypeGNUSparse:
		return 'r', true
	case tar.TypeDir:
		return 'd', true
	case tar.TypeSymlink:
		return 's', true
	case tar.TypeLink:
		return 'l', true
	case tar.TypeChar, tar.TypeBlock, tar.TypeFifo:
		return 'x', true
	}
	return 0, false
}

// writeArchive writes the members with archive/tar. Members the Writer refuses
// in the requested format are retried with the format left open and dropped
// if that fails too. The number of dropped members is returned.
func writeArchive(ms []spec) ([]byte, int) {
	var buf bytes.Buffer
	tw := tar.NewWriter(&buf)
	dropped := 0
	for _, m := range ms {
		h := tar.Header{Name: m.Name, Linkname: m.Link, Typeflag: m.Typeflag, Mode: m.Mode, Format: m.Format}
		if m.MTime != 0 {
			h.ModTime = time.Unix(m.MTime, 0)
		}
		data := m.Data
		switch m.Typeflag {
		case tar.TypeReg, tar.TypeCont:
			h.Size = int64(len(data))
		default:
			data = nil
		}
		if err := tw.WriteHeader(&h); err != nil {
			h.Format = tar.FormatUnknown
			if err := tw.WriteHeader(&h); err != nil {
				dropped++
				continue
			}
		}
		if len(data) > 0 {
			if _, err := tw.Write(data); err != nil {
				// Cannot happen for a correct Size; keep the archive well formed.
				panic(err)
			}
		}
	}
	if err := tw.Close(); err != nil {
		panic(err)
	}
	return buf.Bytes(), dropped
}

// decodeArchive reads the archive back sequentially.
func decodeArchive(b []byte) ([]member, error) {
	spans, err := layout(b)
	if err != nil {
		return nil, err
	}
	tr := tar.NewReader(bytes.NewReader(b))
	var out []member
	for {
		h, err := tr.Next()
		if err == io.EOF {
			break
		}
		if err != nil {
			return nil, err
		}
		k, ok := kindOf(h.Typeflag)
		if !ok {
			continue
		}
		var data []byte
		if k == 'r' {
			data, err = io.ReadAll(tr)
			if err != nil {
				return nil, err
			}
		}
		if h.Mode < 0 || h.Size < 0 {
			return nil, fmt.Errorf("negative mode or size: %w", errLayout)
		}
		out = append(out, member{Kind: k, Name: h.Name, Link: h.Linkname, Data: data,
			HSize: h.Size, Mode: h.Mode, MTimeS: h.ModTime.Unix(), MTimeN: h.ModTime.Nanosecond()})
	}
	if len(spans) != len(out) {
		return nil, fmt.Errorf("layout has %d entries, the reader %d: %w", len(spans), len(out), errLayout)
	}
	for i := range out {
		out[i].Seg = spans[i].size
	}
	return out, nil
}
