package c11

import (
	"archive/tar"
	"strings"

	"github.com/quay/claircore/verifharness/internal/hx"
)

// Generators of member lists. Every family is a soup with different knobs; the
// knobs decide which branches of New/add/walkTo an archive can reach.

var plainComps = []string{"a", "b", "c", "d", "e", "ab", "a.b", ".hid", "usr", "bin", "lib", "etc", "x", "y", "zz", "é", "日本", "a b", "q*", "w?"}

// Separate pools keep most archives free of accidental type conflicts; the
// mix knob draws from plainComps instead.
var dirComps = []string{"a", "b", "c", "d", "ab", "usr", "bin", "lib", "etc", ".hid", "日本"}
var fileComps = []string{"f", "g", "x", "y", "a.b", "ab.txt", "zz", "é", "a b", "q*", "w?", "bin2"}
var linkComps = []string{"l", "m", "ln", "s1", "s2", "b.l", "al"}

var advComps = []string{"..", ".", "", "\xff", "\xc3", "a\xe2\x82", "\xed\xa0\x80", "\xf5x", "..a", "...", "a..", strings.Repeat("L", 120), strings.Repeat("m", 101)}

type knobs struct {
	name     string
	n        [2]int // members: min, max
	wReg     int
	wDir     int
	wSym     int
	wLink    int
	wSpec    int
	explicit int // % of members whose parent directories are written first
	reuse    int // % names taken from the names already used (repetition)
	through  int // % names placed under a symbolic link's name
	adv      int // % adversarial elements / prefixes in names and link targets
	absLink  int // % absolute link targets
	upLink   int // % link targets with extra ".." elements
	selfLink int // % links to themselves
	dangle   int // % links to names nobody has
	later    int // % links to a name that is generated afterwards
	chain    int // % symlinks pointing at another symlink
	shuffle  int // % archives whose member order is shuffled at the end
	depth    int
	pool     int // number of distinct elements used (small = many collisions)
	mix      int // % elements drawn from the common pool (accidental type conflicts)
}

var families = []knobs{
	{name: "plain", n: [2]int{1, 14}, wReg: 60, wDir: 40, explicit: 100, reuse: 8, depth: 3, pool: 8},
	{name: "implied", n: [2]int{1, 14}, wReg: 70, wDir: 30, explicit: 10, reuse: 25, shuffle: 50, depth: 4, pool: 6},
	{name: "leaflinks", n: [2]int{2, 16}, wReg: 45, wDir: 20, wSym: 20, wLink: 15, explicit: 40, reuse: 10, absLink: 30, dangle: 10, later: 10, depth: 3, pool: 7},
	{name: "usrmerge", n: [2]int{3, 18}, wReg: 50, wDir: 15, wSym: 20, wLink: 10, wSpec: 5, explicit: 50, reuse: 10, through: 45, absLink: 40, chain: 20, depth: 3, pool: 6},
	{name: "chains", n: [2]int{2, 14}, wReg: 30, wDir: 10, wSym: 50, wLink: 10, explicit: 20, reuse: 10, through: 35, absLink: 30, selfLink: 8, dangle: 10, later: 30, chain: 60, upLink: 10, depth: 2, pool: 5},
	{name: "hardlinks", n: [2]int{2, 14}, wReg: 40, wDir: 10, wSym: 10, wLink: 40, explicit: 20, reuse: 15, through: 15, dangle: 20, later: 30, chain: 20, depth: 2, pool: 5},
	{name: "otherrep", n: [2]int{2, 10}, wReg: 40, wDir: 20, wSym: 20, wLink: 10, wSpec: 10, explicit: 10, reuse: 60, through: 10, dangle: 30, later: 10, chain: 20, depth: 2, pool: 4, mix: 50},
	{name: "adversarial", n: [2]int{1, 12}, wReg: 50, wDir: 20, wSym: 20, wLink: 10, explicit: 10, reuse: 10, through: 10, adv: 50, absLink: 40, upLink: 40, dangle: 20, depth: 4, pool: 8, mix: 10},
	{name: "soup", n: [2]int{1, 24}, wReg: 40, wDir: 20, wSym: 20, wLink: 12, wSpec: 8, explicit: 30, reuse: 20, through: 20, adv: 8, absLink: 30, upLink: 10, selfLink: 3, dangle: 10, later: 15, chain: 30, shuffle: 20, depth: 3, pool: 7, mix: 25},
}

var bigFamily = knobs{name: "big", n: [2]int{300, 2500}, wReg: 70, wDir: 15, wSym: 8, wLink: 6, wSpec: 1, explicit: 50, reuse: 3, through: 5, adv: 1, absLink: 30, dangle: 3, later: 5, chain: 10, depth: 6, pool: 20}

type gen struct {
	r     *hx.Rand
	k     knobs
	out   []spec
	names []string // every name used so far (as written)
	dirs  []string
	files []string
	syms  []string
	links []string
	// symDirs are the symbolic links meant to point at a directory.
	symDirs []string
	toDir   bool
}

func (g *gen) pct(p int) bool { return p > 0 && g.r.Intn(100) < p }

func (g *gen) comp() string { return g.compOf(plainComps) }

// compOf draws an element from the pool of a class (or the common pool).
func (g *gen) compOf(pool []string) string {
	if g.pct(g.k.adv) {
		return advComps[g.r.Intn(len(advComps))]
	}
	if g.pct(g.k.mix) {
		pool = plainComps
	}
	n := g.k.pool
	if n > len(pool) {
		if g.k.pool > len(plainComps) && g.r.Intn(3) > 0 {
			// Big archives: numbered elements on top of the pool.
			return pool[0] + itoa(g.r.Intn(n*6))
		}
		n = len(pool)
	}
	return pool[g.r.Intn(n)]
}

func itoa(i int) string {
	if i == 0 {
		return "0"
	}
	var b []byte
	for ; i > 0; i /= 10 {
		b = append([]byte{byte('0' + i%10)}, b...)
	}
	return string(b)
}

func pick(r *hx.Rand, xs []string) (string, bool) {
	if len(xs) == 0 {
		return "", false
	}
	return xs[r.Intn(len(xs))], true
}

// freshName makes a name for a regular file.
func (g *gen) freshName() string { return g.nameFor(tar.TypeReg) }

// nameFor makes a member name for a member of the given type.
func (g *gen) nameFor(tf byte) string {
	reuse := g.k.reuse
	if tf != tar.TypeReg && tf != tar.TypeDir {
		// Anything but a file or a directory over an existing name is rejected.
		reuse /= 5
	}
	if g.pct(reuse) {
		same := g.names
		switch tf {
		case tar.TypeReg:
			same = g.files
		case tar.TypeDir:
			same = g.dirs
		}
		if g.r.Intn(100) < 75 {
			if n, ok := pick(g.r, same); ok {
				return n
			}
		} else if n, ok := pick(g.r, g.names); ok {
			return n
		}
	}
	var parent string
	switch {
	case g.pct(g.k.through) && len(g.symDirs) > 0:
		parent, _ = pick(g.r, g.symDirs)
	case g.pct(g.k.through/3) && len(g.syms) > 0:
		parent, _ = pick(g.r, g.syms)
	case g.r.Intn(100) < 70 && len(g.dirs) > 0:
		parent, _ = pick(g.r, g.dirs)
	}
	depth := 1 + g.r.Intn(g.k.depth)
	if parent != "" {
		depth = 1 + g.r.Intn(2)
	}
	parts := make([]string, depth)
	for i := range parts {
		parts[i] = g.compOf(dirComps)
	}
	switch tf {
	case tar.TypeDir:
	case tar.TypeSymlink, tar.TypeLink:
		parts[depth-1] = g.compOf(linkComps)
	default:
		parts[depth-1] = g.compOf(fileComps)
	}
	n := strings.Join(parts, "/")
	if parent != "" {
		n = strings.TrimSuffix(parent, "/") + "/" + n
	}
	if g.pct(g.k.adv) {
		switch g.r.Intn(5) {
		case 0:
			n = "/" + n
		case 1:
			n = "./" + n
		case 2:
			n = "../" + n
		case 3:
			n = n + "/"
		case 4:
			n = strings.Replace(n, "/", "//", 1)
		}
	}
	return n
}

// relTo spells target (a root-relative name) relative to the directory of from.
func relTo(from, target string) string {
	fd := lexClean(from)
	if len(fd) > 0 {
		fd = fd[:len(fd)-1]
	}
	td := lexClean(target)
	i := 0
	for i < len(fd) && i < len(td) && fd[i] == td[i] {
		i++
	}
	var parts []string
	for range fd[i:] {
		parts = append(parts, "..")
	}
	parts = append(parts, td[i:]...)
	if len(parts) == 0 {
		return "."
	}
	return strings.Join(parts, "/")
}

// linkTarget chooses what a link at name points to. hard links name their
// target relative to the root.
func (g *gen) linkTarget(name string, hard bool) string {
	var tgt string
	g.toDir = false
	switch {
	case g.pct(g.k.selfLink):
		tgt = strings.Join(lexClean(name), "/")
	case g.pct(g.k.dangle):
		tgt = "nope" + itoa(g.r.Intn(3))
		if g.r.Intn(2) == 0 {
			tgt = g.comp() + "/" + tgt
		}
	case g.pct(g.k.later):
		tgt = g.freshName()
		// Make sure somebody may create it later.
		g.names = append(g.names, tgt)
	case !hard && g.pct(g.k.chain) && len(g.syms) > 0:
		tgt, _ = pick(g.r, g.syms)
	case hard && g.pct(g.k.chain) && len(g.links) > 0:
		tgt, _ = pick(g.r, g.links)
	default:
		pool := g.files
		if !hard && g.r.Intn(100) < 55 {
			pool = g.dirs
			g.toDir = len(g.dirs) > 0
		}
		var ok bool
		if tgt, ok = pick(g.r, pool); !ok {
			g.toDir = false
			if tgt, ok = pick(g.r, g.files); !ok {
				tgt = "nope" + itoa(g.r.Intn(3))
			}
		}
	}
	tgt = strings.Join(lexClean(tgt), "/")
	if tgt == "" {
		tgt = "."
	}
	if hard {
		if g.pct(g.k.absLink) {
			return "/" + tgt
		}
		return tgt
	}
	var s string
	if g.pct(g.k.absLink) {
		s = "/" + tgt
	} else {
		s = relTo(name, tgt)
	}
	if g.pct(g.k.upLink) {
		switch g.r.Intn(3) {
		case 0:
			s = "../../../" + s
		case 1:
			s = "./" + s + "/."
		case 2:
			s = g.comp() + "/../" + s
		}
	}
	return s
}

func (g *gen) data() []byte {
	var n int
	switch x := g.r.Intn(100); {
	case x < 20:
		n = 0
	case x < 90:
		n = 1 + g.r.Intn(40)
	case x < 93:
		// Around the block boundaries of the archive format.
		n = 512*(1+g.r.Intn(3)) + []int{-1, 0, 0, 0, 1}[g.r.Intn(5)]
	default:
		n = 500 + g.r.Intn(1200)
	}
	b := make([]byte, n)
	for i := range b {
		b[i] = byte(g.r.U64())
	}
	return b
}

func (g *gen) mode(tf byte) int64 {
	m := int64(0o644)
	if g.r.Intn(2) == 0 {
		m = 0o755
	}
	// Sometimes with the (consistent) file type bits tar.FileInfoHeader sets.
	if g.r.Intn(4) == 0 {
		switch tf {
		case tar.TypeDir:
			m |= 0o40000
		case tar.TypeReg, tar.TypeLink:
			m |= 0o100000
		case tar.TypeSymlink:
			m |= 0o120000
		}
	}
	return m
}

func (g *gen) format() tar.Format {
	switch g.r.Intn(4) {
	case 0:
		return tar.FormatUSTAR
	case 1:
		return tar.FormatPAX
	case 2:
		return tar.FormatGNU
	}
	return tar.FormatUnknown
}

func (g *gen) emit(tf byte, name, link string, data []byte) {
	g.out = append(g.out, spec{Typeflag: tf, Name: name, Link: link, Data: data, Mode: g.mode(tf), Format: g.format()})
	g.names = append(g.names, name)
	switch tf {
	case tar.TypeDir:
		g.dirs = append(g.dirs, name)
	case tar.TypeReg, tar.TypeCont:
		g.files = append(g.files, name)
	case tar.TypeSymlink:
		g.syms = append(g.syms, name)
	case tar.TypeLink:
		g.links = append(g.links, name)
	}
}

// parents writes directory members for every proper prefix of name not
// written yet.
func (g *gen) parents(name string) {
	el := lexClean(name)
	for i := 1; i < len(el); i++ {
		p := strings.Join(el[:i], "/")
		seen := false
		for _, n := range g.names {
			if strings.Join(lexClean(n), "/") == p {
				seen = true
				break
			}
		}
		if !seen {
			g.emit(tar.TypeDir, p+"/", "", nil)
		}
	}
}

func generate(r *hx.Rand, k knobs) []spec {
	g := &gen{r: r, k: k}
	n := k.n[0] + r.Intn(k.n[1]-k.n[0]+1)
	total := k.wReg + k.wDir + k.wSym + k.wLink + k.wSpec
	for len(g.out) < n {
		x := r.Intn(total)
		var tf byte
		switch {
		case x < k.wReg:
			tf = tar.TypeReg
			if r.Intn(40) == 0 {
				tf = tar.TypeCont
			}
		case x < k.wReg+k.wDir:
			tf = tar.TypeDir
		case x < k.wReg+k.wDir+k.wSym:
			tf = tar.TypeSymlink
		case x < k.wReg+k.wDir+k.wSym+k.wLink:
			tf = tar.TypeLink
		default:
			tf = []byte{tar.TypeChar, tar.TypeBlock, tar.TypeFifo}[r.Intn(3)]
		}
		cls := tf
		if tf == tar.TypeCont {
			cls = tar.TypeReg
		}
		name := g.nameFor(cls)
		if g.pct(k.explicit) && len(g.out) < 400 {
			g.parents(name)
		}
		switch tf {
		case tar.TypeReg, tar.TypeCont:
			g.emit(tf, name, "", g.data())
		case tar.TypeDir:
			if !strings.HasSuffix(name, "/") && r.Intn(2) == 0 {
				name += "/"
			}
			g.emit(tf, name, "", nil)
		case tar.TypeSymlink:
			l := g.linkTarget(name, false)
			g.emit(tf, name, l, nil)
			if g.toDir {
				g.symDirs = append(g.symDirs, name)
			}
		case tar.TypeLink:
			g.emit(tf, name, g.linkTarget(name, true), nil)
		default:
			g.emit(tf, name, "", nil)
		}
	}
	if g.pct(k.shuffle) {
		for i := len(g.out) - 1; i > 0; i-- {
			j := r.Intn(i + 1)
			g.out[i], g.out[j] = g.out[j], g.out[i]
		}
	}
	return g.out
}

// genChain makes an archive around one long chain of symbolic links
// c0 -> c1 -> ... -> c(k-1) -> end, where end is a regular file, a directory
// with a file in it, a missing name, or a link of the chain again (a cycle).
// Then, sometimes, a regular member named like the first link (written
// through the whole chain) and a member placed below it (the chain in
// directory position). Hop budgets that do not grow with the archive show
// here.
func genChain(r *hx.Rand) []spec {
	k := 1 + r.Intn(12)
	if r.Intn(3) == 0 {
		k = 12 + r.Intn(60)
	}
	dirs := []string{"", "l/", "a/b/"}
	name := func(i int) string { return dirs[i%len(dirs)] + "c" + itoa(i) }
	var out []spec
	emit := func(tf byte, n, l string, d []byte) {
		out = append(out, spec{Typeflag: tf, Name: n, Link: l, Data: d, Mode: 0o644})
	}
	end := r.Intn(4)
	var last string
	switch end {
	case 0:
		last = "end/file"
		emit(tar.TypeReg, last, "", []byte("at the end of the chain"))
	case 1:
		last = "end/dir"
		emit(tar.TypeDir, last+"/", "", nil)
		emit(tar.TypeReg, last+"/x", "", []byte("in the directory at the end"))
	case 2:
		last = "end/nope"
	case 3:
		last = name(r.Intn(k))
	}
	order := make([]int, k)
	for i := range order {
		order[i] = i
	}
	if r.Intn(2) == 0 {
		for i := k - 1; i > 0; i-- {
			j := r.Intn(i + 1)
			order[i], order[j] = order[j], order[i]
		}
	}
	for _, i := range order {
		tgt := last
		if i+1 < k {
			tgt = name(i + 1)
		}
		if r.Intn(2) == 0 {
			emit(tar.TypeSymlink, name(i), "/"+tgt, nil)
		} else {
			emit(tar.TypeSymlink, name(i), relTo(name(i), tgt), nil)
		}
	}
	if r.Intn(2) == 0 {
		// Written through the chain.
		emit(tar.TypeReg, name(0), "", []byte("written through"))
	}
	if r.Intn(2) == 0 {
		// The chain in directory position.
		emit(tar.TypeReg, name(0)+"/below", "", []byte("placed through"))
	}
	if r.Intn(3) == 0 {
		emit(tar.TypeLink, "hl", name(r.Intn(k)), nil)
	}
	return out
}
