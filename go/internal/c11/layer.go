package c11

import (
	"bytes"
	"context"
	"fmt"
	"io"
	"io/fs"
	"os"
	"sort"
	"strings"

	"github.com/quay/claircore"
	"github.com/quay/claircore/verifharness/internal/hx"
)

// The life cycle of a claircore.Layer around the view (layer.go): protocol
// lines for Init / FS / Reader / Files / Close in every state, and direct
// checks of what Reader hands out.

var tarTypes = []string{
	"application/vnd.oci.image.layer.v1.tar",
	"application/vnd.oci.image.layer.v1.tar+gzip",
	"application/vnd.oci.image.layer.v1.tar+zstd",
	"application/vnd.oci.image.layer.nondistributable.v1.tar",
	"application/vnd.oci.image.layer.nondistributable.v1.tar+gzip",
	"application/vnd.oci.image.layer.nondistributable.v1.tar+zstd",
}

var otherTypes = []string{
	"",
	"application/vnd.oci.image.layer.v1.tar+bzip2",
	"application/vnd.oci.image.layer.v1.tar ",
	"application/vnd.docker.image.rootfs.diff.tar.gzip",
	"application/vnd.claircore.filesystem",
	"application/vnd.oci.image.layer.v2.tar",
	"APPLICATION/VND.OCI.IMAGE.LAYER.V1.TAR",
}

const goodDigest = "sha256:e3b0c44298fc1c149afbf4c8996fb92427ae41e4649b934ca495991b7852b855"

func walkFS(sys fs.FS, max int) string {
	return hx.Guard(func() string {
		var items []string
		visits := 0
		fs.WalkDir(sys, ".", func(p string, d fs.DirEntry, err error) error {
			if err != nil {
				items = append(items, hx.Hex([]byte(p))+":E")
				if visits >= max {
					return fs.SkipAll
				}
				return nil
			}
			if visits >= max {
				return fs.SkipAll
			}
			visits++
			items = append(items, hx.Hex([]byte(p))+":"+typeLetter(d.Type()))
			return nil
		})
		return renderList(items)
	})
}

// layerLines runs a script over a fresh Layer on the archive and returns the
// protocol lines. The Layer is always closed at the end.
func (x *runner) layerLines(arch []byte, keys []string, nInodes int) []opline {
	rnd := x.rnd
	var out []opline
	ctx := context.Background()
	var l claircore.Layer
	initOK := false
	closed := false
	emit := func(op, ans string) { out = append(out, opline{op, ans, !strings.HasPrefix(ans, "err:other")}) }
	doInit := func(mt string, digestOK bool) {
		dg := goodDigest
		if !digestOK {
			dg = []string{"", "sha256:zz", "md5:d41d8cd98f00b204e9800998ecf8427e", "sha256:abcd"}[rnd.Intn(4)]
		}
		ans := hx.Guard(func() string {
			err := l.Init(ctx, &claircore.LayerDescription{Digest: dg, MediaType: mt}, bytes.NewReader(arch))
			if err == nil {
				initOK = true
			}
			return errClass(err)
		})
		b := "0"
		if digestOK {
			b = "1"
		}
		emit("linit "+hx.Hex([]byte(mt))+" "+b, ans)
	}
	walkCap := 3*nInodes + 10
	if walkCap > 6000 {
		walkCap = 6000
	}
	doFS := func() {
		emit(fmt.Sprintf("lfs %d", walkCap), hx.Guard(func() string {
			sys, err := l.FS()
			if err != nil {
				return "err:other"
			}
			return "ok " + walkFS(sys, walkCap)
		}))
	}
	doReader := func() {
		emit("lreader", hx.Guard(func() string {
			rd, err := l.Reader()
			if err != nil {
				return "err:other"
			}
			defer rd.Close()
			b, err := io.ReadAll(rd)
			if err != nil || !bytes.Equal(b, arch) {
				x.r.Fail("", fmt.Sprintf("Layer.Reader yields %d bytes (err %v), the layer has %d", len(b), err, len(arch)))
			}
			return "ok"
		}))
	}
	doClose := func() {
		emit("lclose", hx.Guard(func() string {
			if err := l.Close(); err != nil {
				return "err:other"
			}
			closed = true
			return "ok"
		}))
	}
	doFiles := func() {
		n := 1 + rnd.Intn(4)
		var ps []string
		for i := 0; i < n; i++ {
			var p string
			switch {
			case len(keys) > 0 && rnd.Intn(4) > 0:
				p = keys[rnd.Intn(len(keys))]
				switch rnd.Intn(7) {
				case 0:
					p = "/" + p
				case 1:
					p = "./" + p
				case 2:
					p = p + "/"
				case 3:
					p = "x/../" + p
				case 4:
					p = []string{"/x/../", "//", "/./", "/x/y/../../"}[rnd.Intn(4)] + p
				}
			default:
				p = []string{"nonesuch", "", ".", "/", "a", "a/b", "etc/os-release"}[rnd.Intn(7)]
			}
			if strings.Contains(p, ",") {
				continue
			}
			ps = append(ps, p)
		}
		if len(ps) == 0 {
			ps = []string{"a"}
		}
		hs := make([]string, len(ps))
		for i, p := range ps {
			hs[i] = hx.Hex([]byte(p))
		}
		emit(fmt.Sprintf("lfiles %s %d", strings.Join(hs, ","), walkCap), hx.Guard(func() string {
			m, err := l.Files(append([]string{}, ps...)...)
			switch {
			case err == claircore.ErrNotFound:
				return "notfound"
			case err != nil:
				return "err"
			}
			items := make([]string, 0, len(m))
			for k, b := range m {
				items = append(items, fmt.Sprintf("%s:%d:%d", hx.Hex([]byte(k)), b.Len(), fnv(b.Bytes())))
			}
			sort.Strings(items)
			return renderList(items)
		}))
	}

	// Uninitialised.
	if rnd.Intn(2) == 0 {
		doFS()
		doReader()
		doClose()
	}
	if rnd.Intn(2) == 0 {
		doInit(otherTypes[rnd.Intn(len(otherTypes))], true)
		doFS()
	}
	if rnd.Intn(3) == 0 {
		doInit(tarTypes[rnd.Intn(len(tarTypes))], false)
	}
	doInit(tarTypes[rnd.Intn(len(tarTypes))], true)
	if rnd.Intn(2) == 0 {
		doInit(tarTypes[rnd.Intn(len(tarTypes))], true)
	}
	doFS()
	doReader()
	if initOK {
		doFiles()
		if rnd.Intn(2) == 0 {
			doFiles()
		}
	}
	doClose()
	if initOK && rnd.Intn(3) == 0 {
		doFS()
		doClose() // the second Close panics
	}
	if initOK && !closed {
		hx.Guard(func() string { l.Close(); return "" })
	}
	return out
}

// layerChecks states the contract of Layer directly: every OCI tar media type
// gives the view New gives (or New's rejection), any other type is refused,
// nothing works on a Layer that is not initialised, a failed Init leaves it so.
func (x *runner) layerChecks(arch []byte, viewWalk string, newOK bool, walkCap int) {
	r := x.r
	ctx := context.Background()
	r.Count("layer:direct-checks")
	for _, mt := range tarTypes {
		var l claircore.Layer
		if _, err := l.FS(); err == nil {
			r.Fail("", "Layer.FS of an uninitialised Layer succeeds")
		}
		if _, err := l.Reader(); err == nil {
			r.Fail("", "Layer.Reader of an uninitialised Layer succeeds")
		}
		err := l.Init(ctx, &claircore.LayerDescription{Digest: goodDigest, MediaType: mt}, bytes.NewReader(arch))
		switch {
		case err != nil && newOK:
			r.Fail("", fmt.Sprintf("Layer.Init with media type %q fails (%v) on an archive tarfs.New accepts", mt, err))
		case err == nil && !newOK:
			r.Fail("", fmt.Sprintf("Layer.Init with media type %q succeeds on an archive tarfs.New rejects", mt))
		}
		if err != nil {
			if _, e := l.FS(); e == nil {
				r.Fail("", fmt.Sprintf("Layer.FS succeeds after a failed Init (%q)", mt))
			}
			continue
		}
		if sys, e := l.FS(); e != nil {
			r.Fail("", fmt.Sprintf("Layer.FS after Init(%q): %v", mt, e))
		} else if w := walkFS(sys, walkCap); w != viewWalk {
			r.Fail("", fmt.Sprintf("Layer.FS after Init(%q) walks %s, tarfs.New on the same bytes walks %s", mt, clip(w), clip(viewWalk)))
		}
		if e := l.Init(ctx, &claircore.LayerDescription{Digest: goodDigest, MediaType: mt}, bytes.NewReader(arch)); e == nil {
			r.Fail("", "a second Layer.Init succeeds")
		}
		l.Close()
	}
	for _, mt := range otherTypes {
		var l claircore.Layer
		if err := l.Init(ctx, &claircore.LayerDescription{Digest: goodDigest, MediaType: mt}, bytes.NewReader(arch)); err == nil {
			r.Fail("", fmt.Sprintf("Layer.Init accepts the media type %q", mt))
			l.Close()
		}
	}
}

// readerChecks: every Reader of a Layer has its own cursor and yields the
// whole layer, for a layer held in memory and for one backed by an *os.File
// (the fileAdapter path).
func (x *runner) readerChecks(arch []byte) {
	r := x.r
	ctx := context.Background()
	check := func(kind string, ra io.ReaderAt) {
		var l claircore.Layer
		if err := l.Init(ctx, &claircore.LayerDescription{Digest: goodDigest, MediaType: tarTypes[0]}, ra); err != nil {
			return
		}
		defer l.Close()
		r.Case("layer reader "+kind, true)
		r.Count("layer:reader-check-" + kind)
		r1, e1 := l.Reader()
		r2, e2 := l.Reader()
		if e1 != nil || e2 != nil {
			r.Fail("", fmt.Sprintf("Layer.Reader (%s): %v %v", kind, e1, e2))
			return
		}
		// Interleaved reads from two readers.
		half := make([]byte, len(arch)/2)
		io.ReadFull(r1, half)
		var b2, b1 bytes.Buffer
		io.Copy(&b2, r2)
		b1.Write(half)
		io.Copy(&b1, r1)
		if !bytes.Equal(b1.Bytes(), arch) || !bytes.Equal(b2.Bytes(), arch) {
			r.Fail("", fmt.Sprintf("Layer.Reader (%s): two readers of one layer read %d and %d bytes of %d (shared cursor?)", kind, b1.Len(), b2.Len(), len(arch)))
		}
		// A later reader starts at the beginning again; ReadAt does not move it.
		r3, _ := l.Reader()
		one := make([]byte, 1)
		if len(arch) > 600 {
			r3.ReadAt(one, 600)
		}
		var b3 bytes.Buffer
		io.Copy(&b3, r3)
		if !bytes.Equal(b3.Bytes(), arch) {
			r.Fail("", fmt.Sprintf("Layer.Reader (%s): a third reader reads %d bytes of %d", kind, b3.Len(), len(arch)))
		}
		if sk, ok := r3.(io.Seeker); ok {
			if n, err := sk.Seek(0, io.SeekStart); err != nil || n != 0 {
				r.Fail("", fmt.Sprintf("Layer.Reader (%s): Seek(0, start) = %d, %v", kind, n, err))
			}
			var b4 bytes.Buffer
			io.Copy(&b4, r3)
			if !bytes.Equal(b4.Bytes(), arch) {
				r.Fail("", fmt.Sprintf("Layer.Reader (%s): after Seek to the start the reader yields %d bytes of %d", kind, b4.Len(), len(arch)))
			}
		}
		// The view still reads after all that.
		if sys, err := l.FS(); err != nil {
			r.Fail("", "Layer.FS after Reader: "+err.Error())
		} else if _, err := fs.Stat(sys, "."); err != nil {
			r.Fail("", "Layer.FS after Reader: Stat(.): "+err.Error())
		}
	}
	check("memory", bytes.NewReader(arch))
	f, err := os.CreateTemp("", "c11-layer-*.tar")
	if err != nil {
		return
	}
	defer os.Remove(f.Name())
	defer f.Close()
	if _, err := f.Write(arch); err != nil {
		return
	}
	check("file", f)
}
