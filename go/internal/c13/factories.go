package c13

import (
	"context"
	"errors"
	"fmt"
	"net/http"
	"sort"
	"sync"
	"sync/atomic"

	"github.com/quay/claircore/libvuln/driver"
	"github.com/quay/claircore/updater"
	"github.com/quay/claircore/verifharness/internal/hx"
)

// ---- scripted factories ----------------------------------------------------------

// facObj is an UpdaterSetFactory of the scenario.
type facObj struct {
	w    *world
	spec facSpec
	set  *driver.UpdaterSet // spec.uset >= 0: the static set
}

func (f *facObj) UpdaterSet(ctx context.Context) (driver.UpdaterSet, error) {
	return f.w.factoryCalled(f.spec.id, f.set)
}

// cfgFacObj is a factory that is Configurable as well.
type cfgFacObj struct{ facObj }

func (f *cfgFacObj) Configure(ctx context.Context, cfg driver.ConfigUnmarshaler, c *http.Client) error {
	return f.w.factoryConfigured(f.spec.id, cfg, c)
}

var (
	_ driver.UpdaterSetFactory = (*facObj)(nil)
	_ driver.Configurable      = (*cfgFacObj)(nil)
)

func (w *world) mkFactory(spec facSpec) driver.UpdaterSetFactory {
	o := facObj{w: w, spec: spec}
	if spec.uset >= 0 {
		o.set = w.usets[spec.uset]
	}
	if spec.fcfg != 0 {
		return &cfgFacObj{o}
	}
	return &o
}

// factoryCalled is factory.UpdaterSet(ctx) as called by Manager.Run.
func (w *world) factoryCalled(id int, static *driver.UpdaterSet) (driver.UpdaterSet, error) {
	w.mu.Lock()
	spec := w.sc.facs[id]
	if rs := w.runOfGoroutine(hx.GoID(), true); rs != nil {
		rs.facCalls = append(rs.facCalls, id)
		if rs.begun {
			w.fail("", fmt.Sprintf("factory-called-after-the-updaters-were-started run=%d factory=%d", rs.id, id))
		}
	} else {
		w.stray("factory")
	}
	switch {
	case static != nil:
		w.r.Count("factory:static")
	case !spec.ok:
		w.r.Count("factory:err")
	default:
		w.r.Count("factory:ok")
	}
	w.mu.Unlock()
	if static != nil {
		return *static, nil
	}
	if !spec.ok {
		return driver.UpdaterSet{}, errors.New("scripted factory failure")
	}
	// UpdaterSet.Add calls Name(), which takes w.mu
	set := driver.NewUpdaterSet()
	for _, i := range spec.members {
		if err := set.Add(w.ups[i]); err != nil {
			return set, err
		}
	}
	return set, nil
}

// factoryConfigured is updater.Configure's call into a Configurable factory
// (made by NewManager).
func (w *world) factoryConfigured(id int, cfg driver.ConfigUnmarshaler, c *http.Client) error {
	got := cfgOf(cfg)
	w.mu.Lock()
	defer w.mu.Unlock()
	w.facCfgCalls = append(w.facCfgCalls, [2]int{id, got})
	if c != w.client {
		w.fail("", fmt.Sprintf("factory-configured-with-another-http-client factory=%d", id))
	}
	w.r.Count(fmt.Sprintf("configure:factory:cfg%d", min(got, 1)))
	if w.sc.facs[id].fcfg == 2 {
		return errors.New("scripted factory configure failure")
	}
	return nil
}

// ---- the process-wide registry (updater.Register) ---------------------------------
//
// Registered factories outlive a scenario, so they are slots: what a slot does
// is looked up in the scenario that is running (the binding name -> facSpec).
// Slots with an odd number are Configurable.

type regSlot struct{ name int }

type cfgRegSlot struct{ regSlot }

var curWorld atomic.Pointer[world]

var (
	regMu    sync.Mutex
	regNames []int // names registered so far, in order
)

func (s *regSlot) UpdaterSet(ctx context.Context) (driver.UpdaterSet, error) {
	w := curWorld.Load()
	if w == nil {
		return driver.UpdaterSet{}, errors.New("no scenario")
	}
	id, ok := w.regBind[s.name]
	if !ok {
		return driver.UpdaterSet{}, errors.New("slot not bound")
	}
	return w.factoryCalled(id, nil)
}

func (s *cfgRegSlot) Configure(ctx context.Context, cfg driver.ConfigUnmarshaler, c *http.Client) error {
	w := curWorld.Load()
	if w == nil {
		return nil
	}
	id, ok := w.regBind[s.name]
	if !ok {
		return nil
	}
	return w.factoryConfigured(id, cfg, c)
}

func slotConfigurable(name int) bool { return name%2 == 1 }

func registeredNames() []int {
	regMu.Lock()
	defer regMu.Unlock()
	return append([]int{}, regNames...)
}

// doRegister calls the real updater.Register; the answer is ok or panic.
func doRegister(name int) string {
	var f driver.UpdaterSetFactory = &regSlot{name: name}
	if slotConfigurable(name) {
		f = &cfgRegSlot{regSlot{name: name}}
	}
	out := hx.Guard(func() string { updater.Register(facName(name), f); return "ok" })
	if out == "ok" {
		regMu.Lock()
		regNames = append(regNames, name)
		regMu.Unlock()
	}
	return out
}

// doRegistered calls the real updater.Registered twice, writes into the first
// result, and answers with the names of the second: the registry hands out
// copies. (The write is undone, so that a registry that hands out its own map
// is reported and not destroyed.)
func doRegistered() (string, bool) {
	a := updater.Registered()
	a["intruder"] = nil
	b := updater.Registered()
	_, leaked := b["intruder"]
	delete(a, "intruder")
	delete(b, "intruder")
	var names []int
	for k := range b {
		names = append(names, facNum(k))
	}
	sort.Ints(names)
	return "facs " + csv(names), !leaked
}

// preflight checks the one contract of UpdaterSet the manager relies on so
// blindly that a violation crashes the process inside a goroutine the manager
// starts: Updaters() returns the updaters of the set, each once, nothing else.
func preflight(r *hx.Run) bool {
	w := &world{r: r, sc: &scenario{}}
	set := driver.NewUpdaterSet()
	var us []driver.Updater
	for i := 0; i < 3; i++ {
		sc := newScript(i, 2+i, "pde"[i])
		w.sc.scripts = append(w.sc.scripts, sc)
		u := w.mkUpdater(sc)
		us = append(us, u)
		if err := set.Add(u); err != nil {
			r.Fail("", fmt.Sprintf("UpdaterSet.Add-of-a-new-name-failed: %v", err))
			return false
		}
	}
	got := set.Updaters()
	okAll := len(got) == len(us)
	for _, u := range us {
		n := 0
		for _, g := range got {
			if g == u {
				n++
			}
		}
		okAll = okAll && n == 1
	}
	r.Case("preflight: UpdaterSet{u2,u3,u4}.Updaters()", false)
	if !okAll {
		r.Fail("", fmt.Sprintf("UpdaterSet.Updaters()-does-not-return-the-updaters-of-the-set: a set of u2,u3,u4 returned %d entries: %v", len(got), got))
		return false
	}
	return true
}
