package c13

import (
	"fmt"
	"sort"
	"strconv"
	"strings"
	"time"
)

// ---- scenario ----------------------------------------------------------------

// facSpec is an UpdaterSetFactory handed to the manager from outside
// (WithFactories or the process-wide registry).
type facSpec struct {
	id      int
	ok      bool  // UpdaterSet(ctx) succeeds
	members []int // the set it returns (built with UpdaterSet.Add)
	fcfg    int   // 0 not Configurable, 1 Configure succeeds, 2 Configure fails
	uset    int   // >= 0: the factory is StaticSet(<that UpdaterSet>) as it is after the set operations
}

type histOp struct {
	kind byte // 'v' | 'e'
	name int
	fp   int
}

type cfgEnt struct {
	fac  bool
	name int
	id   int
}

// optSpec is one ManagerOption, in the order it is handed to NewManager.
type optSpec struct {
	kind  string   // b | i | en | cf | oot | gc | fs
	n     int      // b, gc; i in microseconds
	list  []int    // en: factory names; oot: updater instances
	isNil bool     // en: the nil slice; fs: the nil map
	pairs [][2]int // fs: factory name, factory id
	cfgs  []cfgEnt // cf
}

func (o optSpec) token() string {
	switch o.kind {
	case "b", "i", "gc":
		return fmt.Sprintf("%s:%d", o.kind, o.n)
	case "en":
		if o.isNil {
			return "en:*"
		}
		return "en:" + csv(o.list)
	case "oot":
		return "oot:" + csv(o.list)
	case "cf":
		if len(o.cfgs) == 0 {
			return "cf:-"
		}
		var ps []string
		for _, c := range o.cfgs {
			k := "u"
			if c.fac {
				k = "f"
			}
			ps = append(ps, fmt.Sprintf("%s%d=%d", k, c.name, c.id))
		}
		return "cf:" + strings.Join(ps, ",")
	case "fs":
		if len(o.pairs) == 0 {
			return "fs:-"
		}
		var ps []string
		for _, p := range o.pairs {
			ps = append(ps, fmt.Sprintf("%d=%d", p[0], p[1]))
		}
		return "fs:" + strings.Join(ps, ",")
	}
	return "?"
}

func parseOptToken(tok string) (optSpec, error) {
	bad := fmt.Errorf("bad option %q", tok)
	j := strings.Index(tok, ":")
	if j < 0 {
		return optSpec{}, bad
	}
	o := optSpec{kind: tok[:j]}
	arg := tok[j+1:]
	switch o.kind {
	case "b", "i", "gc":
		n, err := strconv.Atoi(arg)
		if err != nil {
			return o, bad
		}
		o.n = n
	case "en":
		if arg == "*" {
			o.isNil = true
			break
		}
		l, err := parseCSV(arg)
		if err != nil {
			return o, bad
		}
		o.list = append([]int{}, l...)
	case "oot":
		l, err := parseCSV(arg)
		if err != nil {
			return o, bad
		}
		o.list = l
	case "cf":
		if arg == "-" {
			break
		}
		for _, kv := range strings.Split(arg, ",") {
			p := strings.Split(kv, "=")
			if len(p) != 2 || len(p[0]) < 2 {
				return o, bad
			}
			nm, e1 := strconv.Atoi(p[0][1:])
			id, e2 := strconv.Atoi(p[1])
			if e1 != nil || e2 != nil || (p[0][0] != 'u' && p[0][0] != 'f') {
				return o, bad
			}
			o.cfgs = append(o.cfgs, cfgEnt{fac: p[0][0] == 'f', name: nm, id: id})
		}
	case "fs":
		if arg == "-" {
			break
		}
		for _, kv := range strings.Split(arg, ",") {
			p := strings.Split(kv, "=")
			if len(p) != 2 {
				return o, bad
			}
			nm, e1 := strconv.Atoi(p[0])
			id, e2 := strconv.Atoi(p[1])
			if e1 != nil || e2 != nil {
				return o, bad
			}
			o.pairs = append(o.pairs, [2]int{nm, id})
		}
	default:
		return o, bad
	}
	return o, nil
}

type mgrSpec struct {
	opts      []optSpec
	clientNil bool
}

func (m mgrSpec) tokens() string {
	ts := make([]string, len(m.opts))
	for i, o := range m.opts {
		ts[i] = o.token()
	}
	return strings.Join(ts, " ")
}

// facRef is one entry of a manager's factory map.
type facRef struct {
	static bool
	ext    int   // factory id
	mem    []int // members of the static set
}

// mgrView is what a manager is after its options were applied one after the
// other (the harness's own reading of options.go, used by the direct oracles;
// the protocol answers come from the real manager and from the Lean model).
type mgrView struct {
	facs      map[int]facRef
	batch     int
	interval  int // microseconds
	retention int
	cfgs      map[[2]int]int // (1 if factory key, name) -> config id
	// out-of-tree updaters that a later WithEnabled removed again
	droppedOOT []int
}

const defIntervalMicros = 6 * 3600 * 1000000

func (s *scenario) view(m mgrSpec, defBatch int, reg map[int]int) mgrView {
	v := mgrView{facs: map[int]facRef{}, batch: defBatch, interval: defIntervalMicros, cfgs: map[[2]int]int{}}
	for n, f := range reg {
		v.facs[n] = facRef{ext: f}
	}
	for _, o := range m.opts {
		switch o.kind {
		case "b":
			v.batch = o.n
		case "i":
			v.interval = o.n
		case "gc":
			v.retention = o.n
		case "cf":
			v.cfgs = map[[2]int]int{}
			for _, c := range o.cfgs {
				k := 0
				if c.fac {
					k = 1
				}
				v.cfgs[[2]int{k, c.name}] = c.id
			}
		case "fs":
			v.facs = map[int]facRef{}
			for _, p := range o.pairs {
				v.facs[p[0]] = facRef{ext: p[1]}
			}
			v.droppedOOT = nil
		case "en":
			if o.isNil {
				break
			}
			nf := map[int]facRef{}
			for _, e := range o.list {
				if f, ok := v.facs[e]; ok {
					nf[e] = f
				}
			}
			if f, ok := v.facs[0]; ok && f.static {
				if _, kept := nf[0]; !kept {
					v.droppedOOT = append(v.droppedOOT, f.mem...)
				}
			}
			v.facs = nf
		case "oot":
			var mem []int
			seen := map[int]bool{}
			for _, i := range o.list {
				if nm := s.scripts[i].name; !seen[nm] {
					seen[nm] = true
					mem = append(mem, i)
				}
			}
			v.facs[0] = facRef{static: true, mem: mem}
			v.droppedOOT = nil
		}
	}
	return v
}

// members of a factory map entry, and whether the factory can be constructed.
func (s *scenario) refMembers(f facRef) ([]int, bool) {
	if f.static {
		return f.mem, true
	}
	if f.ext < 0 || f.ext >= len(s.facs) {
		return nil, false
	}
	return s.facs[f.ext].members, s.facs[f.ext].ok
}

func (s *scenario) isStub(mem []int) bool {
	return len(mem) == 1 && s.scripts[mem[0]].name == 0
}

// configured is the statement's "every configured updater": members of the
// factories that could be constructed and are not a stub set, whose Configure
// did not fail.
func (s *scenario) configured(v mgrView) map[int]bool {
	out := map[int]bool{}
	for _, f := range v.facs {
		mem, ok := s.refMembers(f)
		if !ok || s.isStub(mem) {
			continue
		}
		for _, i := range mem {
			if s.scripts[i].cfg != 2 {
				out[i] = true
			}
		}
	}
	return out
}

func (s *scenario) stubSets(v mgrView) int {
	n := 0
	for _, f := range v.facs {
		if mem, ok := s.refMembers(f); ok && s.isStub(mem) {
			n++
		}
	}
	return n
}

// cfgID is the ConfigUnmarshaler the manager must hand to Configure.
func (v mgrView) cfgID(fac bool, name int) int {
	k := 0
	if fac {
		k = 1
	}
	return v.cfgs[[2]int{k, name}]
}

// cancelPlan says when the context of a run (or of a Start call) is cancelled.
type cancelPlan struct {
	kind string // "", "before", "hook", "event", "timer"; Start calls: "before", "hook", "ran"
	site string // for "hook": acquire | launch | wait
	n    int    // k-th occurrence (hook, event) or microseconds (timer)
	run  int    // Start calls: in / after the run with this index
}

type runSpec struct {
	mgr     int
	phase   int
	plan    cancelPlan
	gateD   time.Duration // delay between the wait hook and the opening of the gate
	startGC int           // 1+r: started when run r is inside store.GC (0: started with its phase)
	start   bool          // Manager.Start instead of Manager.Run
}

// usetOp is one operation on a driver.UpdaterSet.
type usetOp struct {
	set int
	op  string // add | merge | filter | list
	arg int    // add: updater instance; merge: other set
	pat string // filter
}

func (u usetOp) line() string {
	switch u.op {
	case "add", "merge":
		return fmt.Sprintf("uset %d %s %d", u.set, u.op, u.arg)
	case "filter":
		return fmt.Sprintf("uset %d filter %s", u.set, u.pat)
	}
	return fmt.Sprintf("uset %d list", u.set)
}

// regOp is one operation on the process-wide factory registry.
type regOp struct {
	op   string // register | registered
	name int
	fac  int
}

type scenario struct {
	scripts  []*script
	facs     []facSpec
	hist     []histOp
	usetOps  []usetOp
	regOps   []regOp
	regBind  map[int]int // registry name -> factory of this scenario standing behind that name
	mgrs     []mgrSpec
	runs     []runSpec
	procs    int
	yieldAll bool
	silent   bool // oracle-only scenario: no protocol lines (for corpus cases outside the machine)
	setFail  bool // RecordUpdaterSetStatus returns an error
	gcFail   bool // store.GC returns an error
	meet     bool // workers leave driveUpdater in pairs, at the same moment
	burst    bool // one run, every updater in flight at once: all start Fetch together and leave driveUpdater together
}

func (s *scenario) decls() []string {
	var out []string
	for _, h := range s.hist {
		out = append(out, fmt.Sprintf("hist %c %d %d", h.kind, h.name, h.fp))
	}
	for _, sc := range s.scripts {
		out = append(out, sc.decl())
	}
	return out
}

// usetCount is the number of UpdaterSets the scenario talks about.
func (s *scenario) usetCount() int {
	n := 0
	for _, u := range s.usetOps {
		if u.set >= n {
			n = u.set + 1
		}
		if u.op == "merge" && u.arg >= n {
			n = u.arg + 1
		}
	}
	for _, f := range s.facs {
		if f.uset >= n {
			n = f.uset + 1
		}
	}
	return n
}

// bindRegistry makes the scenario total with respect to the process-wide
// registry: every name registered so far (and every name the scenario
// registers) has a factory of this scenario behind it, Configurable exactly
// when the registered slot is.
func (s *scenario) bindRegistry(registered []int) {
	if s.regBind == nil {
		s.regBind = map[int]int{}
	}
	bind := func(n int) {
		if f, ok := s.regBind[n]; ok && f >= 0 && f < len(s.facs) {
			return
		}
		s.facs = append(s.facs, facSpec{id: len(s.facs), ok: false, uset: -1})
		s.regBind[n] = len(s.facs) - 1
	}
	for i, o := range s.regOps {
		if o.op == "register" {
			if _, ok := s.regBind[o.name]; !ok && o.fac >= 0 && o.fac < len(s.facs) {
				s.regBind[o.name] = o.fac
			}
			bind(o.name)
			s.regOps[i].fac = s.regBind[o.name]
		}
	}
	for _, n := range registered {
		bind(n)
	}
	for n, f := range s.regBind {
		spec := &s.facs[f]
		switch {
		case slotConfigurable(n) && spec.fcfg == 0:
			spec.fcfg = 1
		case !slotConfigurable(n):
			spec.fcfg = 0
		}
	}
}

func (f facSpec) decl() string {
	if f.uset >= 0 {
		return fmt.Sprintf("facset %d %d %d", f.id, f.uset, f.fcfg)
	}
	return fmt.Sprintf("fac %d %s %s %d", f.id, b01(f.ok), csv(f.members), f.fcfg)
}

// ---- names ------------------------------------------------------------------

// facName spells a factory name: 0 is the key WithOutOfTree uses, 1000+k are
// the names used with the process-wide registry.
func facName(n int) string {
	switch {
	case n == 0:
		return "outOfTree"
	case n >= 1000:
		return "r" + strconv.Itoa(n-1000)
	}
	return "f" + strconv.Itoa(n)
}

func facNum(s string) int {
	if s == "outOfTree" {
		return 0
	}
	if len(s) > 1 {
		if n, err := strconv.Atoi(s[1:]); err == nil && n >= 0 {
			switch s[0] {
			case 'f':
				if n >= 1 && n < 1000 {
					return n
				}
			case 'r':
				return 1000 + n
			}
		}
	}
	return 999999
}

func sortedKeys(m map[int]bool) []int {
	out := make([]int, 0, len(m))
	for k := range m {
		out = append(out, k)
	}
	sort.Ints(out)
	return out
}

func pairsStr(ps [][2]int) string {
	if len(ps) == 0 {
		return "-"
	}
	sort.Slice(ps, func(a, b int) bool {
		if ps[a][0] != ps[b][0] {
			return ps[a][0] < ps[b][0]
		}
		return ps[a][1] < ps[b][1]
	})
	ss := make([]string, len(ps))
	for i, p := range ps {
		ss[i] = fmt.Sprintf("%d=%d", p[0], p[1])
	}
	return strings.Join(ss, ",")
}
