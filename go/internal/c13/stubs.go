package c13

import (
	"context"
	"errors"
	"fmt"
	"io"
	"net/http"
	"strconv"
	"strings"
	"sync"
	"sync/atomic"
	"time"

	"github.com/google/uuid"

	"github.com/quay/claircore"
	"github.com/quay/claircore/datastore"
	"github.com/quay/claircore/libvuln/driver"
	"github.com/quay/claircore/verifharness/internal/hx"
)

// ---- naming of the protocol's numbers ------------------------------------

func nameStr(n int) string {
	switch n {
	case 0:
		return "rhel-all"
	case 1:
		return "garbage-collection"
	}
	return "u" + strconv.Itoa(n)
}

// nameNum is the inverse of nameStr; anything else maps to a number no
// scenario uses, so that it shows up as a disagreement.
func nameNum(s string) int {
	switch s {
	case "rhel-all":
		return 0
	case "garbage-collection":
		return 1
	}
	if strings.HasPrefix(s, "u") {
		if n, err := strconv.Atoi(s[1:]); err == nil && n >= 2 {
			return n
		}
	}
	return 999999
}

func fpStr(n int) driver.Fingerprint {
	if n == 0 {
		return ""
	}
	return driver.Fingerprint("fp" + strconv.Itoa(n))
}

func fpNum(f driver.Fingerprint) int {
	if f == "" {
		return 0
	}
	s := string(f)
	if strings.HasPrefix(s, "fp") {
		if n, err := strconv.Atoi(s[2:]); err == nil && n > 0 {
			return n
		}
	}
	return 999999
}

func csv(xs []int) string {
	if len(xs) == 0 {
		return "-"
	}
	ss := make([]string, len(xs))
	for i, x := range xs {
		ss[i] = strconv.Itoa(x)
	}
	return strings.Join(ss, ",")
}

func itemNum(s string) int {
	if strings.HasPrefix(s, "v") {
		if n, err := strconv.Atoi(s[1:]); err == nil {
			return n
		}
	}
	return 999999
}

func b01(b bool) string {
	if b {
		return "1"
	}
	return "0"
}

func okErr(b bool) string {
	if b {
		return "ok"
	}
	return "err"
}

// ---- scripted updaters -----------------------------------------------------

// script is one updater instance: identity, scripted behaviour of every step
// it goes through (the same family as `Script` in Model/Manager.lean), and
// schedule hints that only the harness sees.
type script struct {
	inst     int
	name     int
	kind     byte // 'p' plain, 'd' delta, 'e' enrichment, 'x' an object that is EnrichmentUpdater and DeltaUpdater
	cfg      int  // 0 not Configurable, 1 Configure ok, 2 Configure fails
	getOk    bool
	fmode    int // 0 Unchanged iff prev == src, 1 error, 2 Unchanged (with the fingerprint src), 3 changed
	src      int
	parseOk  bool
	vulns    []int
	deleted  []int
	storeOk  bool
	ctxAware bool
	cmode    int // Fetch returns a ReadCloser: 0 iff it succeeds, 1 always, 2 never

	gate bool // Fetch blocks until the scenario's gate opens
	spin int  // yields / short sleeps before each step
}

func (sc *script) decl() string {
	return fmt.Sprintf("upd %d %d %c %d %s %d %d %s %s %s %s %s %d", sc.inst, sc.name, sc.kind, sc.cfg, b01(sc.getOk),
		sc.fmode, sc.src, b01(sc.parseOk), csv(sc.vulns), csv(sc.deleted), b01(sc.storeOk), b01(sc.ctxAware), sc.cmode)
}

// fetchOutcome mirrors Script.fetch of the model.
func (sc *script) fetchOutcome(prev int, dead bool) (string, int) {
	switch {
	case sc.ctxAware && dead:
		return "err", 0
	case sc.fmode == 1:
		return "err", sc.src
	case sc.fmode == 2:
		return "unch", sc.src
	case sc.fmode == 3:
		return "ok", sc.src
	case prev == sc.src:
		return "unch", prev
	}
	return "ok", sc.src
}

// ownErr is a scripted failure; its text carries the updater's name in
// brackets, so that the error Run reports for an updater can be recognised as
// that updater's own.
func ownErr(sc *script, step string) error {
	return fmt.Errorf("scripted %s failure [%s]", step, nameStr(sc.name))
}

// closerGiven mirrors Script.closer of the model.
func (sc *script) closerGiven(res string) bool {
	switch sc.cmode {
	case 1:
		return true
	case 2:
		return false
	}
	return res == "ok"
}

// isEnrich: the manager must treat the updater as an EnrichmentUpdater.
func (sc *script) isEnrich() bool { return sc.kind == 'e' || sc.kind == 'x' }

type body struct {
	w      *world
	wk     *worker
	closes int
}

func (b *body) Read(p []byte) (int, error) { return 0, io.EOF }

// Close is the deferred vulnDB.Close() of driveUpdater.
func (b *body) Close() error {
	w := b.w
	w.mu.Lock()
	defer w.mu.Unlock()
	wk := w.worker[hx.GoID()]
	if wk == nil || wk != b.wk {
		w.stray("close")
		return nil
	}
	b.closes++
	if b.closes > 1 {
		w.fail("", fmt.Sprintf("fetched-contents-closed-%d-times run=%d updater=%s", b.closes, wk.run, nameStr(wk.sc.name)))
	}
	if wk.statusCalls > 0 {
		w.fail("", fmt.Sprintf("fetched-contents-closed-after-the-status-was-recorded run=%d updater=%s", wk.run, nameStr(wk.sc.name)))
	}
	if wk.doneSeen {
		w.fail("", fmt.Sprintf("fetched-contents-closed-after-lock-release run=%d updater=%s", wk.run, nameStr(wk.sc.name)))
	}
	w.emit(wk, "close", "ok")
	w.r.Count("close")
	return nil
}

type base struct {
	w  *world
	sc *script
}

func (b *base) Name() string {
	b.w.noteName(b.sc.inst)
	return nameStr(b.sc.name)
}

func (b *base) Fetch(ctx context.Context, fp driver.Fingerprint) (io.ReadCloser, driver.Fingerprint, error) {
	return b.w.fetch(ctx, b.sc, fp, 'f')
}

func (b *base) Parse(ctx context.Context, rc io.ReadCloser) ([]*claircore.Vulnerability, error) {
	if !b.w.parse(ctx, b.sc, rc, 'p') {
		return nil, ownErr(b.sc, "parse")
	}
	return mkVulns(b.sc.vulns), nil
}

func mkVulns(ids []int) []*claircore.Vulnerability {
	vs := make([]*claircore.Vulnerability, len(ids))
	for i, id := range ids {
		vs[i] = &claircore.Vulnerability{Name: "v" + strconv.Itoa(id)}
	}
	return vs
}

type plainU struct{ base }

type deltaU struct{ base }

func (d *deltaU) DeltaParse(ctx context.Context, rc io.ReadCloser) ([]*claircore.Vulnerability, []string, error) {
	if !d.w.parse(ctx, d.sc, rc, 'd') {
		return nil, nil, ownErr(d.sc, "delta parse")
	}
	del := make([]string, len(d.sc.deleted))
	for i, id := range d.sc.deleted {
		del[i] = "v" + strconv.Itoa(id)
	}
	return mkVulns(d.sc.vulns), del, nil
}

type enrichU struct{ base }

func (e *enrichU) FetchEnrichment(ctx context.Context, fp driver.Fingerprint) (io.ReadCloser, driver.Fingerprint, error) {
	return e.w.fetch(ctx, e.sc, fp, 'e')
}

func (e *enrichU) ParseEnrichment(ctx context.Context, rc io.ReadCloser) ([]driver.EnrichmentRecord, error) {
	if !e.w.parse(ctx, e.sc, rc, 'e') {
		return nil, ownErr(e.sc, "enrichment parse")
	}
	rs := make([]driver.EnrichmentRecord, len(e.sc.vulns))
	for i, id := range e.sc.vulns {
		rs[i] = driver.EnrichmentRecord{Tags: []string{"v" + strconv.Itoa(id)}, Enrichment: []byte("{}")}
	}
	return rs, nil
}

// bothU is an EnrichmentUpdater that also has a DeltaParse method: the manager
// must drive it as an enrichment updater; DeltaParse, Fetch and Parse must
// not be called.
type bothU struct{ enrichU }

func (x *bothU) DeltaParse(ctx context.Context, rc io.ReadCloser) ([]*claircore.Vulnerability, []string, error) {
	x.w.mu.Lock()
	x.w.fail("", fmt.Sprintf("DeltaParse-called-on-an-enrichment-updater updater=%s", nameStr(x.sc.name)))
	x.w.mu.Unlock()
	return nil, nil, errors.New("unexpected")
}

// cfgOf identifies the ConfigUnmarshaler the manager passed: the harness's
// own ones write their id into an *int, noopConfig leaves it 0.
func cfgOf(cfg driver.ConfigUnmarshaler) int {
	if cfg == nil {
		return -1
	}
	got := 0
	if err := cfg(&got); err != nil {
		return -2
	}
	return got
}

func mkCfg(id int) driver.ConfigUnmarshaler {
	return func(v interface{}) error {
		if p, ok := v.(*int); ok {
			*p = id
		}
		return nil
	}
}

func (b *base) configure(ctx context.Context, cfg driver.ConfigUnmarshaler, c *http.Client) error {
	w := b.w
	id := cfgOf(cfg)
	w.mu.Lock()
	w.configured[b.sc.inst]++
	if rs := w.runOfGoroutine(hx.GoID(), true); rs != nil {
		rs.cfgCalls = append(rs.cfgCalls, [2]int{b.sc.inst, id})
		if want := rs.view.cfgID(false, b.sc.name); want != id {
			w.fail("", fmt.Sprintf("updater-configured-with-the-wrong-config updater=%s got=%d want=%d", nameStr(b.sc.name), id, want))
		}
		if c != w.client {
			w.fail("", fmt.Sprintf("updater-configured-with-another-http-client updater=%s", nameStr(b.sc.name)))
		}
	} else {
		w.stray("configure")
	}
	w.r.Count(fmt.Sprintf("configure:updater:cfg%d", min(id, 1)))
	w.mu.Unlock()
	if b.sc.cfg == 2 {
		return errors.New("scripted configure failure")
	}
	return nil
}

type cfgPlainU struct{ plainU }
type cfgDeltaU struct{ deltaU }
type cfgEnrichU struct{ enrichU }
type cfgBothU struct{ bothU }

func (u *cfgPlainU) Configure(ctx context.Context, cfg driver.ConfigUnmarshaler, c *http.Client) error {
	return u.configure(ctx, cfg, c)
}
func (u *cfgDeltaU) Configure(ctx context.Context, cfg driver.ConfigUnmarshaler, c *http.Client) error {
	return u.configure(ctx, cfg, c)
}
func (u *cfgEnrichU) Configure(ctx context.Context, cfg driver.ConfigUnmarshaler, c *http.Client) error {
	return u.configure(ctx, cfg, c)
}
func (u *cfgBothU) Configure(ctx context.Context, cfg driver.ConfigUnmarshaler, c *http.Client) error {
	return u.configure(ctx, cfg, c)
}

var (
	_ driver.Updater           = (*plainU)(nil)
	_ driver.DeltaUpdater      = (*deltaU)(nil)
	_ driver.EnrichmentUpdater = (*enrichU)(nil)
	_ driver.Configurable      = (*cfgPlainU)(nil)
	_ driver.Configurable      = (*cfgDeltaU)(nil)
	_ driver.Configurable      = (*cfgEnrichU)(nil)
	_ driver.DeltaUpdater      = (*bothU)(nil)
	_ driver.EnrichmentUpdater = (*bothU)(nil)
)

func (w *world) mkUpdater(sc *script) driver.Updater {
	b := base{w: w, sc: sc}
	switch {
	case sc.kind == 'p' && sc.cfg == 0:
		return &plainU{b}
	case sc.kind == 'p':
		return &cfgPlainU{plainU{b}}
	case sc.kind == 'd' && sc.cfg == 0:
		return &deltaU{b}
	case sc.kind == 'd':
		return &cfgDeltaU{deltaU{b}}
	case sc.kind == 'x' && sc.cfg == 0:
		return &bothU{enrichU{b}}
	case sc.kind == 'x':
		return &cfgBothU{bothU{enrichU{b}}}
	case sc.cfg == 0:
		return &enrichU{b}
	}
	return &cfgEnrichU{enrichU{b}}
}

// ---- updater steps (called by the real manager) ------------------------------

// ctxFollowsRun: the context a step is handed is the run's (through the lock
// source): once the run is cancelled, it is done. Caller holds w.mu.
func (w *world) ctxFollowsRun(ctx context.Context, wk *worker, what string) {
	if w.runs[wk.run].cancelled && ctx.Err() == nil {
		w.fail("", fmt.Sprintf("updater-context-still-live-after-the-run-was-cancelled run=%d updater=%s step=%s", wk.run, nameStr(wk.sc.name), what))
	}
}

func (w *world) fetch(ctx context.Context, sc *script, fp driver.Fingerprint, method byte) (io.ReadCloser, driver.Fingerprint, error) {
	w.pre(sc, true)
	w.barrierOf(w.fetchBars).wait()
	w.mu.Lock()
	defer w.mu.Unlock()
	wk := w.workerOf(sc.inst, "fetch")
	if wk == nil {
		return nil, "", errors.New("stray")
	}
	dead := w.runs[wk.run].cancelled
	w.ctxFollowsRun(ctx, wk, "fetch")
	prev := fpNum(fp)
	res, nfp := sc.fetchOutcome(prev, dead)
	// the statement, directly: the fingerprint handed to Fetch is the one of
	// the latest stored operation of this updater (and kind), right now
	kind := driver.VulnerabilityKind
	if sc.isEnrich() {
		kind = driver.EnrichmentKind
	}
	if (method == 'e') != sc.isEnrich() {
		w.fail("", fmt.Sprintf("wrong-fetch-method updater=%s kind=%c method=%c", nameStr(sc.name), sc.kind, method))
	}
	if wk.fetched {
		w.fail("", fmt.Sprintf("updater-fetched-twice run=%d updater=%s", wk.run, nameStr(sc.name)))
	}
	if want := w.store.latest(kind, nameStr(sc.name)); want != fp {
		w.fail("", fmt.Sprintf("fetch-not-given-latest-fingerprint updater=%s kind=%c got=%q latest-stored=%q", nameStr(sc.name), sc.kind, fp, want))
	}
	wk.fetched = true
	wk.fetchRes = res
	wk.newFP = nfp
	given := sc.closerGiven(res)
	w.emit(wk, "fetch", fmt.Sprintf("fetch %c %d %s %d c%s", method, prev, res, nfp, b01(given)))
	w.r.Count(fmt.Sprintf("fetch:%c:%s:closer%s", sc.kind, res, b01(given)))
	var rc io.ReadCloser
	if given {
		wk.body = &body{w: w, wk: wk}
		rc = wk.body
	}
	switch res {
	case "ok":
		return rc, fpStr(nfp), nil
	case "unch":
		if sc.inst%2 == 1 {
			return rc, fpStr(nfp), fmt.Errorf("source says: %w", driver.Unchanged)
		}
		return rc, fpStr(nfp), driver.Unchanged
	}
	wk.failed = true
	return rc, fpStr(nfp), ownErr(sc, "fetch")
}

func (w *world) parse(ctx context.Context, sc *script, rc io.ReadCloser, method byte) bool {
	w.pre(sc, false)
	w.mu.Lock()
	defer w.mu.Unlock()
	wk := w.workerOf(sc.inst, "parse")
	if wk == nil {
		return false
	}
	dead := w.runs[wk.run].cancelled
	w.ctxFollowsRun(ctx, wk, "parse")
	ok := sc.parseOk && !(sc.ctxAware && dead)
	if wk.body == nil {
		if rc != nil {
			w.fail("", fmt.Sprintf("parse-not-given-the-fetched-contents updater=%s (fetch returned no contents)", nameStr(sc.name)))
		}
	} else if b, isBody := rc.(*body); !isBody || b != wk.body {
		w.fail("", fmt.Sprintf("parse-not-given-the-fetched-contents updater=%s", nameStr(sc.name)))
	} else if b.closes > 0 {
		w.fail("", fmt.Sprintf("parse-given-closed-contents updater=%s", nameStr(sc.name)))
	}
	wantM := map[byte]byte{'p': 'p', 'd': 'd', 'e': 'e', 'x': 'e'}[sc.kind]
	if method != wantM {
		w.fail("", fmt.Sprintf("wrong-parse-method updater=%s kind=%c method=%c", nameStr(sc.name), sc.kind, method))
	}
	if wk.parsed {
		w.fail("", fmt.Sprintf("updater-parsed-twice run=%d updater=%s", wk.run, nameStr(sc.name)))
	}
	wk.parsed = true
	wk.parseOk = ok
	if !ok {
		wk.failed = true
	}
	w.emit(wk, "parse", fmt.Sprintf("parse %c %s", method, okErr(ok)))
	w.r.Count(fmt.Sprintf("parse:%c:%s", sc.kind, okErr(ok)))
	return ok
}

// ---- recording store -------------------------------------------------------

type storedOp struct {
	kind driver.UpdateKind
	name string
	fp   driver.Fingerprint
	ref  uuid.UUID
}

type storeCall struct {
	method  byte
	name    int
	fp      int
	vulns   []int
	deleted []int
	ok      bool
}

type store struct {
	w   *world
	ops []storedOp // latest first
}

var _ datastore.Updater = (*store)(nil)

func (s *store) latest(kind driver.UpdateKind, name string) driver.Fingerprint {
	for _, o := range s.ops {
		if o.kind == kind && o.name == name {
			return o.fp
		}
	}
	return ""
}

func (s *store) GetUpdateOperations(ctx context.Context, kind driver.UpdateKind, names ...string) (map[string][]driver.UpdateOperation, error) {
	w := s.w
	w.preStore()
	w.mu.Lock()
	defer w.mu.Unlock()
	wk := w.workerOf(-1, "getops")
	if wk == nil {
		return nil, errors.New("stray")
	}
	sc := wk.sc
	dead := w.runs[wk.run].cancelled
	w.ctxFollowsRun(ctx, wk, "getops")
	ok := sc.getOk && !(sc.ctxAware && dead)
	k := "v"
	if kind == driver.EnrichmentKind {
		k = "e"
	} else if kind != driver.VulnerabilityKind {
		k = "?"
	}
	nm := 999999
	if len(names) == 1 {
		nm = nameNum(names[0])
	}
	if wk.inDrive {
		w.fail("", fmt.Sprintf("updater-driven-twice run=%d updater=%s", wk.run, nameStr(sc.name)))
	}
	wk.inDrive = true
	wk.getOk = ok
	w.enterDrive(wk)
	if !ok {
		wk.failed = true
	}
	w.emit(wk, "getops", fmt.Sprintf("getops %s %d %s", k, nm, okErr(ok)))
	w.r.Count(fmt.Sprintf("getops:%c:%s", sc.kind, okErr(ok)))
	if !ok {
		return nil, ownErr(sc, "GetUpdateOperations")
	}
	out := map[string][]driver.UpdateOperation{}
	for _, o := range s.ops {
		if o.kind != kind {
			continue
		}
		match := len(names) == 0
		for _, n := range names {
			if n == o.name {
				match = true
			}
		}
		if match {
			out[o.name] = append(out[o.name], driver.UpdateOperation{Ref: o.ref, Updater: o.name, Fingerprint: o.fp, Kind: o.kind, Date: time.Unix(int64(1000000-len(out[o.name])), 0)})
		}
	}
	return out, nil
}

func (s *store) update(method byte, kind driver.UpdateKind, name string, fp driver.Fingerprint, vulns, deleted []int) (uuid.UUID, error) {
	w := s.w
	w.preStore()
	w.mu.Lock()
	defer w.mu.Unlock()
	wk := w.workerOf(-1, "store")
	if wk == nil {
		return uuid.Nil, errors.New("stray")
	}
	sc := wk.sc
	dead := w.runs[wk.run].cancelled
	ok := sc.storeOk && !(sc.ctxAware && dead)
	call := storeCall{method: method, name: nameNum(name), fp: fpNum(fp), vulns: vulns, deleted: deleted, ok: ok}
	wk.stores = append(wk.stores, call)
	if !ok {
		wk.failed = true
	}
	del := "-"
	if method == 'd' {
		del = csv(deleted)
	}
	w.emit(wk, "store", fmt.Sprintf("store %c %d %d %s %s %s", method, call.name, call.fp, csv(vulns), del, okErr(ok)))
	w.r.Count(fmt.Sprintf("store:%c:%s", method, okErr(ok)))
	if !ok {
		return uuid.Nil, ownErr(sc, "store")
	}
	ref := uuid.New()
	s.ops = append([]storedOp{{kind: kind, name: name, fp: fp, ref: ref}}, s.ops...)
	return ref, nil
}

func vulnIDs(vs []*claircore.Vulnerability) []int {
	out := make([]int, 0, len(vs))
	for _, v := range vs {
		if v == nil {
			out = append(out, 999999)
			continue
		}
		out = append(out, itemNum(v.Name))
	}
	return out
}

func (s *store) UpdateVulnerabilities(ctx context.Context, updater string, fp driver.Fingerprint, vulns []*claircore.Vulnerability) (uuid.UUID, error) {
	return s.update('v', driver.VulnerabilityKind, updater, fp, vulnIDs(vulns), nil)
}

func (s *store) DeltaUpdateVulnerabilities(ctx context.Context, updater string, fp driver.Fingerprint, vulns []*claircore.Vulnerability, deleted []string) (uuid.UUID, error) {
	del := make([]int, 0, len(deleted))
	for _, d := range deleted {
		del = append(del, itemNum(d))
	}
	return s.update('d', driver.VulnerabilityKind, updater, fp, vulnIDs(vulns), del)
}

func (s *store) UpdateEnrichments(ctx context.Context, kind string, fp driver.Fingerprint, es []driver.EnrichmentRecord) (uuid.UUID, error) {
	ids := make([]int, 0, len(es))
	for _, e := range es {
		if len(e.Tags) == 1 {
			ids = append(ids, itemNum(e.Tags[0]))
		} else {
			ids = append(ids, 999999)
		}
	}
	return s.update('e', driver.EnrichmentKind, kind, fp, ids, nil)
}

func (s *store) RecordUpdaterStatus(ctx context.Context, name string, _ time.Time, fp driver.Fingerprint, uerr error) error {
	err := s.recordStatus(name, fp, uerr)
	// the last thing driveUpdater does: let workers leave it at the same moment
	// (all of them in a burst scenario, else two)
	s.w.barrierOf(s.w.statusBars).wait()
	s.w.rendezvous()
	return err
}

// barrierOf picks the barrier of the run the calling worker belongs to.
func (w *world) barrierOf(bars []*barrier) *barrier {
	if bars == nil {
		return nil
	}
	w.mu.Lock()
	defer w.mu.Unlock()
	if wk := w.worker[hx.GoID()]; wk != nil && wk.run < len(bars) {
		return bars[wk.run]
	}
	return nil
}

// barrier releases its waiters together once `need` of them have arrived
// (or lets a waiter go after a while: a worker that never arrives must not
// hang the others). A nil barrier does nothing.
type barrier struct {
	mu       sync.Mutex
	n        int
	need     int
	ch       chan struct{}
	at       atomic.Int64 // the instant (UnixNano) at which the released waiters go on
	timeouts atomic.Int64
}

func newBarrier(need int) *barrier {
	if need < 2 {
		return nil
	}
	return &barrier{need: need, ch: make(chan struct{})}
}

func (b *barrier) wait() {
	if b == nil {
		return
	}
	b.mu.Lock()
	b.n++
	if b.n == b.need {
		b.at.Store(time.Now().UnixNano() + int64(40*time.Microsecond))
		close(b.ch)
	}
	b.mu.Unlock()
	select {
	case <-b.ch:
		// woken goroutines become runnable one after the other: those that are
		// on a processor spin until the common instant, so that as many as
		// there are processors go on truly at once
		for at := b.at.Load(); time.Now().UnixNano() < at; {
		}
	case <-time.After(100 * time.Millisecond):
		b.timeouts.Add(1)
	}
}

// rendezvous pairs two goroutines (or gives up after a moment): both go on at
// the same instant. Used at the end of driveUpdater, where the workers of a
// run hand their results back to it.
func (w *world) rendezvous() {
	if !w.sc.meet {
		return
	}
	t := time.NewTimer(150 * time.Microsecond)
	defer t.Stop()
	select {
	case w.meet <- struct{}{}:
	case <-w.meet:
	case <-t.C:
	}
}

func (s *store) recordStatus(name string, fp driver.Fingerprint, uerr error) error {
	w := s.w
	w.preStore()
	w.mu.Lock()
	defer w.mu.Unlock()
	wk := w.workerOf(-1, "status")
	if wk == nil {
		return errors.New("stray")
	}
	st := "ok"
	if uerr != nil {
		st = "fail"
	}
	wk.statusCalls++
	wk.statusFailed = uerr != nil
	wk.statusName = nameNum(name)
	wk.statusFP = fpNum(fp)
	if wk.body != nil && wk.body.closes == 0 {
		w.fail("", fmt.Sprintf("status-recorded-before-the-fetched-contents-were-closed run=%d updater=%s", wk.run, nameStr(wk.sc.name)))
	}
	w.emit(wk, "status", fmt.Sprintf("status %d %d %s", nameNum(name), fpNum(fp), st))
	w.r.Count("status:" + wk.outcome() + ":" + st)
	w.leaveDrive(wk)
	if wk.sc.ctxAware && w.runs[wk.run].cancelled {
		return context.Canceled
	}
	return nil
}

func (s *store) RecordUpdaterSetStatus(ctx context.Context, set string, _ time.Time) error {
	w := s.w
	g := hx.GoID()
	w.mu.Lock()
	defer w.mu.Unlock()
	if rs := w.runOfGoroutine(g, true); rs != nil {
		rs.setStatus++
		if set != "RHEL" {
			w.fail("", "set-status-recorded-under-unexpected-name "+set)
		}
	} else {
		w.stray("setstatus")
	}
	if w.sc.setFail {
		w.r.Count("setstatus:err")
		return errors.New("scripted RecordUpdaterSetStatus failure")
	}
	w.r.Count("setstatus:ok")
	return nil
}

func (s *store) GC(ctx context.Context, keep int) (int64, error) {
	w := s.w
	g := hx.GoID()
	w.mu.Lock()
	if rs := w.runOfGoroutine(g, false); rs != nil && w.gcHook != nil {
		hook := w.gcHook
		w.mu.Unlock()
		hook(rs.id)
		w.mu.Lock()
	}
	defer w.mu.Unlock()
	if rs := w.runOfGoroutine(g, false); rs != nil {
		r := rs.id
		rs.gcCalls++
		w.op(fmt.Sprintf("gc %d", r), fmt.Sprintf("gc %d", keep))
		// garbage collection belongs after the updaters: none may be in flight
		if rs.active > 0 {
			w.fail("", fmt.Sprintf("gc-while-updaters-in-flight run=%d in-flight=%d", r, rs.active))
		}
		if !rs.drainedSeen {
			w.fail("", fmt.Sprintf("gc-before-the-final-wait run=%d", r))
		}
		if keep != rs.view.retention {
			w.fail("", fmt.Sprintf("gc-called-with-keep=%d but-retention=%d run=%d", keep, rs.view.retention, r))
		}
		if rs.gcCalls > 1 {
			w.fail("", fmt.Sprintf("gc-ran-%d-times-in-one-run run=%d", rs.gcCalls, r))
		}
	} else {
		w.stray("gc")
	}
	if w.sc.gcFail {
		w.r.Count("gc:store-error")
		return 0, errors.New("scripted GC failure")
	}
	return 0, nil
}

// methods the manager has no business calling
func (s *store) UpdateVulnerabilitiesIter(context.Context, string, driver.Fingerprint, datastore.VulnerabilityIter) (uuid.UUID, error) {
	s.w.mu.Lock()
	s.w.stray("UpdateVulnerabilitiesIter")
	s.w.mu.Unlock()
	return uuid.Nil, errors.New("unexpected")
}
func (s *store) UpdateEnrichmentsIter(context.Context, string, driver.Fingerprint, datastore.EnrichmentIter) (uuid.UUID, error) {
	s.w.mu.Lock()
	s.w.stray("UpdateEnrichmentsIter")
	s.w.mu.Unlock()
	return uuid.Nil, errors.New("unexpected")
}
func (s *store) GetLatestUpdateRefs(context.Context, driver.UpdateKind) (map[string][]driver.UpdateOperation, error) {
	return nil, errors.New("unexpected")
}
func (s *store) GetLatestUpdateRef(context.Context, driver.UpdateKind) (uuid.UUID, error) {
	return uuid.Nil, errors.New("unexpected")
}
func (s *store) DeleteUpdateOperations(context.Context, ...uuid.UUID) (int64, error) {
	s.w.mu.Lock()
	s.w.stray("DeleteUpdateOperations")
	s.w.mu.Unlock()
	return 0, errors.New("unexpected")
}
func (s *store) GetUpdateDiff(context.Context, uuid.UUID, uuid.UUID) (*driver.UpdateDiff, error) {
	return nil, errors.New("unexpected")
}
func (s *store) Initialized(context.Context) (bool, error) { return true, nil }
