// Package c13 drives the real update manager (libvuln/updates.Manager) through
// its public API with scripted updaters, a recording updater store and the
// real process-local lock source, linearises everything the manager does
// (hook points in Run and Start, lock operations, store calls, updater and
// factory calls) under one mutex, and emits that trace in the line protocol
// of the Lean model (Model/Manager.lean, ManagerSetup.lean, ManagerStart.lean).
// The set-up code (driver.UpdaterSet, updater.Register/Registered/Configure,
// the ManagerOptions, NewManager) is driven operation by operation in the same
// protocol.  The same observations feed direct checks of the property statement.
package c13

import (
	"context"
	"errors"
	"fmt"
	"net/http"
	"runtime"
	"sort"
	"strings"
	"sync"
	"time"

	"github.com/quay/claircore/internal/verifhook"
	"github.com/quay/claircore/libvuln/driver"
	"github.com/quay/claircore/libvuln/updates"
	"github.com/quay/claircore/verifharness/internal/hx"
)

type runKey struct{}

// ---- world: everything observed in one scenario ------------------------------

type worker struct {
	run, inst int
	sc        *script
	lock      string
	doneSeen  bool
	inDrive   bool
	getOk     bool
	fetched   bool
	fetchRes  string
	newFP     int
	parsed    bool
	parseOk   bool
	stores    []storeCall
	body      *body

	statusCalls  int
	statusFailed bool
	statusName   int
	statusFP     int
	failed       bool // a step of its driveUpdater failed
}

// outcome names how the worker's driveUpdater ended (for the histogram).
func (wk *worker) outcome() string {
	switch {
	case !wk.getOk:
		return "getops-error"
	case wk.fetchRes == "err":
		return "fetch-error"
	case wk.fetchRes == "unch":
		return "unchanged"
	case !wk.parseOk:
		return "parse-error"
	case len(wk.stores) > 0 && !wk.stores[len(wk.stores)-1].ok:
		return "store-error"
	}
	return "stored"
}

type runState struct {
	id       int
	spec     runSpec
	view     mgrView
	start    *startState // the Start call that makes this run, or nil
	cancel   context.CancelFunc
	gate     chan struct{}
	gateOnce sync.Once

	cancelled        bool
	cancelledPreWait bool
	openAtCancel     bool // cancel arrived while sem.Acquire(ctx,1) was in progress
	graceUsed        bool
	begun            bool
	lastHook         string
	hookCount        map[string]int
	workerEvents     int
	setStatus        int
	facCalls         []int
	cfgCalls         [][2]int
	gcCalls          int
	gcTries          int
	active           int
	launches         int
	waitSeen         bool
	drainedSeen      bool
	returned         bool
	started          bool
	placeholder      bool // the slot of a Start call in the scenario's run list
	workers          []*worker
	done             chan struct{}
}

func (rs *runState) openGate() { rs.gateOnce.Do(func() { close(rs.gate) }) }

// startState is one Manager.Start call.
type startState struct {
	id        int
	spec      runSpec
	view      mgrView
	cancel    context.CancelFunc
	begun     bool // the sbegin line was written
	k         int  // runs that have returned
	cur       *runState
	cancelled bool
	lastErr   string
	hasErr    bool
	returned  bool
	done      chan struct{}
}

type world struct {
	mu          sync.Mutex
	r           *hx.Run
	sc          *scenario
	idx         int
	seed        uint64
	client      *http.Client
	locks       updates.LockSource
	ups         []driver.Updater
	usets       []*driver.UpdaterSet
	regBind     map[int]int // registry name -> factory of this scenario
	views       []mgrView
	mgrOK       []bool
	facCfgCalls [][2]int
	lastName    sync.Map // goroutine id -> updater instance whose Name() it called last (no lock: Name() is called right before a worker hands its error to Run)
	runOfGo     map[int64]int
	startOfGo   map[int64]*startState
	worker      map[int64]*worker
	byKey       map[[2]int]*worker
	driving     map[int]*worker // name -> worker inside driveUpdater
	configured  map[int]int
	runs        []*runState
	starts      []*startState
	store       *store
	lastTry     int
	failures    int
	silent      bool // no protocol lines
	gcHolders   int  // Run goroutines holding the "garbage-collection" lock
	gcHook      func(run int)
	meet        chan struct{}
	fetchBars   []*barrier    // burst scenarios, per run: every worker of the run starts Fetch at the same moment
	statusBars  []*barrier    // ... and leaves driveUpdater at the same moment
	abort       chan struct{} // closed when the scenario cannot go on without crashing the process
	abortOnce   sync.Once
}

// classified failures (listed findings) are reported a few times only, so that
// they never trigger hx.Run.Stop.
var (
	knownMu    sync.Mutex
	knownCount = map[string]int{}
)

func (w *world) fail(class, msg string) {
	if class != "" {
		knownMu.Lock()
		knownCount[class]++
		n := knownCount[class]
		knownMu.Unlock()
		w.r.Count("known:" + class)
		if n > 3 {
			return
		}
	}
	w.failures++
	txt := w.sc.dump()
	if len(txt) > 6000 {
		txt = txt[:6000] + "…"
	}
	w.r.Fail(class, fmt.Sprintf("%s | seed=%d scenario=%d: %s", msg, w.seed, w.idx, txt))
}

// op writes one protocol line (unless the scenario is oracle-only).
func (w *world) op(line, out string) {
	if !w.silent {
		w.r.Op(line, out, true)
	}
}

// stray: the manager did something on a goroutine that is neither a known
// Run/Start call nor one of their workers.
func (w *world) stray(what string) {
	w.op("stray "+what, "stray")
	w.r.Count("stray")
	w.fail("", "manager-activity-outside-any-known-run-or-worker: "+what)
}

func (w *world) noteName(inst int) {
	w.lastName.Store(hx.GoID(), inst)
}

// runOfGoroutine: the run the goroutine is executing Manager.Run for (directly
// or inside Manager.Start). Caller holds w.mu.
func (w *world) runOfGoroutine(g int64, create bool) *runState {
	if r, ok := w.runOfGo[g]; ok {
		return w.runs[r]
	}
	if st := w.startOfGo[g]; st != nil {
		if st.cur == nil && create {
			w.newStartRun(st)
		}
		return st.cur
	}
	return nil
}

// newStartRun: the Start loop has entered m.Run(ctx) once more. Caller holds w.mu.
func (w *world) newStartRun(st *startState) {
	if !st.begun {
		st.begun = true
		w.op(fmt.Sprintf("sbegin %d", st.id), "ok")
		if st.view.interval == 0 {
			w.fail("", fmt.Sprintf("Start-ran-the-updaters-although-no-interval-is-configured start=%d", st.id))
		}
	}
	if st.k > 0 {
		w.op(fmt.Sprintf("tick %d", st.id), "ok")
		w.r.Count("start:tick")
	}
	if st.returned {
		w.fail("", fmt.Sprintf("run-begun-after-Start-returned start=%d", st.id))
	}
	gate := make(chan struct{})
	rs := &runState{id: len(w.runs), spec: runSpec{mgr: st.spec.mgr}, view: st.view, start: st, gate: gate,
		hookCount: map[string]int{}, done: make(chan struct{}), started: true}
	rs.openGate()
	if st.cancelled {
		rs.cancelled = true
		rs.cancelledPreWait = true
		w.r.Count("start:run-with-dead-context")
	}
	w.runs = append(w.runs, rs)
	st.cur = rs
	w.op(fmt.Sprintf("run %d %d %d", rs.id, st.spec.mgr, st.id), "ok")
}

// workerOf attributes a call made by the manager to the worker goroutine it
// runs in. Caller holds w.mu.
func (w *world) workerOf(inst int, what string) *worker {
	wk := w.worker[hx.GoID()]
	if wk == nil || (inst >= 0 && wk.inst != inst) {
		w.stray(what)
		return nil
	}
	rs := w.runs[wk.run]
	if rs.returned {
		w.fail("", fmt.Sprintf("updater-still-working-after-Run-returned run=%d updater=%s step=%s", wk.run, nameStr(wk.sc.name), what))
	}
	if wk.lock != "acq" {
		w.fail("", fmt.Sprintf("updater-ran-without-holding-its-lock run=%d updater=%s trylock=%s step=%s", wk.run, nameStr(wk.sc.name), wk.lock, what))
	}
	if wk.doneSeen {
		w.fail("", fmt.Sprintf("updater-step-after-lock-release run=%d updater=%s step=%s", wk.run, nameStr(wk.sc.name), what))
	}
	return wk
}

// emit writes one worker event; the model answers the same line. Caller holds w.mu.
func (w *world) emit(wk *worker, kind, out string) {
	w.op(fmt.Sprintf("%s %d %d", kind, wk.run, wk.inst), out)
	rs := w.runs[wk.run]
	rs.workerEvents++
	if p := rs.spec.plan; p.kind == "event" && rs.workerEvents == p.n {
		w.cancelLocked(rs)
	}
}

// enterDrive: two updaters with the same name never run at the same time.
func (w *world) enterDrive(wk *worker) {
	if o := w.driving[wk.sc.name]; o != nil && o != wk {
		w.fail("", fmt.Sprintf("same-name-updaters-overlap name=%s run/inst=%d/%d and %d/%d", nameStr(wk.sc.name), o.run, o.inst, wk.run, wk.inst))
	}
	w.driving[wk.sc.name] = wk
}

func (w *world) leaveDrive(wk *worker) {}

func (rs *runState) markCancelled() {
	rs.cancelled = true
	if !rs.waitSeen {
		rs.cancelledPreWait = true
	}
	rs.openAtCancel = rs.lastHook == "acquire"
}

func (w *world) cancelLocked(rs *runState) {
	if rs.start != nil {
		w.cancelStart(rs.start)
		return
	}
	if rs.cancelled || rs.returned {
		return
	}
	rs.markCancelled()
	rs.cancel()
	w.op(fmt.Sprintf("cancel %d", rs.id), "ok")
	w.r.Count("cancel:" + rs.spec.plan.kind)
}

// cancelStart cancels the context handed to Manager.Start. Caller holds w.mu.
func (w *world) cancelStart(st *startState) {
	if st.cancelled {
		return
	}
	st.cancelled = true
	if st.cur != nil && !st.cur.returned {
		st.cur.markCancelled()
	}
	st.cancel()
	w.op(fmt.Sprintf("scancel %d", st.id), "ok")
	w.r.Count("cancel:start:" + st.spec.plan.kind)
}

// pre runs outside the mutex before an updater step: schedule perturbation
// and the gate that keeps chosen workers in flight.
func (w *world) pre(sc *script, isFetch bool) {
	for i := 0; i < sc.spin; i++ {
		if i%2 == 0 {
			runtime.Gosched()
		} else {
			time.Sleep(20 * time.Microsecond)
		}
	}
	if isFetch && sc.gate {
		w.mu.Lock()
		wk := w.worker[hx.GoID()]
		var gate chan struct{}
		if wk != nil {
			gate = w.runs[wk.run].gate
		}
		w.mu.Unlock()
		if gate != nil {
			select {
			case <-gate:
			case <-time.After(200 * time.Millisecond):
				w.r.Count("gate:fallback-timeout")
			}
		}
	}
}

func (w *world) preStore() {
	if w.sc.yieldAll {
		runtime.Gosched()
	}
}

// hook receives the verifhook points. The lock.* sites fire inside the real
// lock source while this goroutine already holds w.mu (see lockSrc.TryLock).
func (w *world) hook(site, key string) {
	if w.hookLocked(site, key) {
		// Run is about to go on although its updaters are still in flight (the
		// failure is recorded): it would close the error channel under them and
		// crash the process. Keep it here; the scenario is abandoned.
		select {}
	}
}

func (w *world) hookLocked(site, key string) (park bool) {
	switch site {
	case "lock.try.acquire":
		w.lastTry = 1
		return
	case "lock.try.busy":
		w.lastTry = 2
		return
	case "manager.acquire", "manager.launch", "manager.wait", "manager.drained", "manager.start.err", "manager.start.ran":
	default:
		return
	}
	g := hx.GoID()
	w.mu.Lock()
	defer w.mu.Unlock()
	if strings.HasPrefix(site, "manager.start.") {
		st := w.startOfGo[g]
		if st == nil {
			w.stray(site)
			return
		}
		if site == "manager.start.err" {
			st.lastErr, st.hasErr = key, true
			return
		}
		w.startRan(st)
		return
	}
	rs := w.runOfGoroutine(g, true)
	if rs == nil {
		w.stray(site)
		return
	}
	r := rs.id
	w.begin(rs)
	ev := strings.TrimPrefix(site, "manager.")
	if rs.returned {
		w.fail("", fmt.Sprintf("run-loop-active-after-return run=%d", r))
	}
	switch ev {
	case "launch":
		rs.launches++
		// after cancellation no new worker starts (at most the one whose
		// semaphore acquisition was already in progress)
		if rs.cancelled {
			if rs.openAtCancel && !rs.graceUsed && rs.lastHook == "acquire" {
				rs.graceUsed = true
			} else {
				w.fail("", fmt.Sprintf("updater-launched-after-cancellation run=%d", r))
			}
		}
	case "acquire":
		if rs.cancelled {
			rs.openAtCancel = false
		}
	case "wait":
		rs.waitSeen = true
		d := rs.spec.gateD
		time.AfterFunc(d, rs.openGate)
	case "drained":
		rs.drainedSeen = true
		// the run returns only after every started updater has finished
		if rs.active > 0 || rs.launches > len(rs.workers) {
			w.fail("", fmt.Sprintf("run-stopped-waiting-while-updaters-in-flight run=%d in-flight=%d launched=%d reached-trylock=%d", r, rs.active, rs.launches, len(rs.workers)))
			w.abortOnce.Do(func() { close(w.abort) })
			park = true
		}
	}
	rs.lastHook = ev
	w.op(fmt.Sprintf("%s %d", ev, r), "ok")
	rs.hookCount[ev]++
	if st := rs.start; st != nil {
		if p := st.spec.plan; p.kind == "hook" && p.run == st.k && p.site == ev && rs.hookCount[ev] == p.n {
			w.cancelStart(st)
		}
	} else if p := rs.spec.plan; p.kind == "hook" && p.site == ev && rs.hookCount[ev] == p.n {
		w.cancelLocked(rs)
	}
	return park
}

// startRan: one m.Run(ctx) of the Start loop has returned. Caller holds w.mu.
func (w *world) startRan(st *startState) {
	rs := st.cur
	if rs == nil {
		// a Run that reached no hook point at all
		w.newStartRun(st)
		rs = st.cur
	}
	var err error
	if st.hasErr {
		err = errors.New(st.lastErr)
	}
	st.hasErr, st.lastErr = false, ""
	w.ret(rs, err, false)
	st.cur = nil
	st.k++
	w.r.Count("start:run")
	p := st.spec.plan
	if st.k >= p.run+1 || st.k >= 6 {
		w.cancelStart(st)
	}
}

func (w *world) begin(rs *runState) {
	if rs.begun {
		return
	}
	rs.begun = true
	fs := map[int]bool{}
	for _, f := range rs.facCalls {
		for n, ref := range rs.view.facs {
			if !ref.static && ref.ext == f {
				fs[n] = true
			}
		}
	}
	// the static out-of-tree set is a closure of package driver: its being
	// called cannot be observed, the answer for it is taken over
	if ref, ok := rs.view.facs[0]; ok && ref.static {
		fs[0] = true
	}
	w.op(fmt.Sprintf("begin %d", rs.id), fmt.Sprintf("begin f=%s s=%d c=%s", csv(sortedKeys(fs)), rs.setStatus, pairsStr(rs.cfgCalls)))
	// every factory of the manager is asked exactly once per run, and no other
	seen := map[int]int{}
	for _, f := range rs.facCalls {
		seen[f]++
		mine := false
		for _, ref := range rs.view.facs {
			mine = mine || (!ref.static && ref.ext == f)
		}
		if !mine {
			w.fail("", fmt.Sprintf("factory-outside-the-managers-map-asked run=%d factory=%d", rs.id, f))
		}
	}
	for n, ref := range rs.view.facs {
		if !ref.static && seen[ref.ext] != 1 {
			w.fail("", fmt.Sprintf("factory-asked-%d-times-in-one-run run=%d factory=%s", seen[ref.ext], rs.id, facName(n)))
		}
	}
}

// ---- lock source wrapper --------------------------------------------------------

type lockSrc struct {
	w    *world
	real updates.LockSource
}

func (l *lockSrc) Lock(ctx context.Context, key string) (context.Context, context.CancelFunc) {
	l.w.mu.Lock()
	l.w.stray("Lock")
	l.w.mu.Unlock()
	return l.real.Lock(ctx, key)
}

func (l *lockSrc) TryLock(ctx context.Context, key string) (context.Context, context.CancelFunc) {
	w := l.w
	g := hx.GoID()
	w.preStore()
	w.mu.Lock()
	defer w.mu.Unlock()
	if rs := w.runOfGoroutine(g, false); rs != nil {
		// the garbage-collection lock taken by Run itself
		rr := rs.id
		w.r.Count("gc:trylock")
		w.lastTry = 0
		c, f := l.real.TryLock(ctx, key)
		if key != "garbage-collection" || w.lastTry == 0 {
			w.stray("run-trylock")
			return c, f
		}
		if !rs.drainedSeen {
			w.fail("", fmt.Sprintf("gc-lock-taken-before-the-final-wait run=%d", rr))
		}
		rs.gcTries++
		out := "busy"
		if w.lastTry == 1 {
			out = "acq"
			if c.Err() != nil {
				out = "acqdead"
			}
			w.gcHolders++
		}
		got := w.lastTry == 1
		w.r.Count("gc:" + out)
		w.op(fmt.Sprintf("gctry %d", rr), out)
		var once sync.Once
		return c, func() {
			once.Do(func() {
				w.mu.Lock()
				if got {
					w.gcHolders--
				}
				w.op(fmt.Sprintf("gcdone %d", rr), "done")
				f()
				w.mu.Unlock()
			})
		}
	}
	r, okr := ctx.Value(runKey{}).(int)
	if okr && r < 0 {
		// a worker of a run made by Manager.Start
		okr = false
		if sid := -1 - r; sid < len(w.starts) && w.starts[sid].cur != nil {
			r, okr = w.starts[sid].cur.id, true
		}
	}
	instV, oki := w.lastName.Load(g)
	inst, _ := instV.(int)
	w.lastTry = 0
	c, f := l.real.TryLock(ctx, key)
	if !okr || !oki || nameStr(w.sc.scripts[inst].name) != key || w.lastTry == 0 {
		w.stray("trylock")
		return c, f
	}
	rs := w.runs[r]
	wk := &worker{run: r, inst: inst, sc: w.sc.scripts[inst]}
	switch {
	case w.lastTry == 2:
		wk.lock = "busy"
		if c.Err() == nil {
			w.fail("", "trylock-busy-returned-live-context")
		}
	case c.Err() != nil:
		wk.lock = "acqdead"
	default:
		wk.lock = "acq"
	}
	if rs.returned {
		w.fail("", fmt.Sprintf("updater-started-after-Run-returned run=%d updater=%s", r, key))
	}
	if old := w.byKey[[2]int{r, inst}]; old != nil {
		w.fail("", fmt.Sprintf("updater-started-twice-in-one-run run=%d updater=%s", r, key))
	}
	if !w.sc.configured(rs.view)[inst] {
		w.fail("", fmt.Sprintf("unconfigured-updater-started run=%d updater=%s", r, key))
	}
	if wk.lock == "busy" {
		holder := false
		for _, ors := range w.runs {
			for _, o := range ors.workers {
				if o.sc.name == wk.sc.name && o.lock != "busy" && !o.doneSeen {
					holder = true
				}
			}
		}
		switch {
		case holder:
		case wk.sc.name == 1 && w.gcHolders > 0:
			// the garbage-collection lock of a concurrent Run shares the updaters' key space
			w.fail("gc-lock-name-collision", fmt.Sprintf("updater-named-garbage-collection-skipped-while-another-Run-collects-garbage run=%d", r))
		default:
			w.fail("", fmt.Sprintf("configured-updater-skipped-although-no-same-name-updater-holds-the-lock run=%d updater=%s", r, key))
		}
	}
	w.worker[g] = wk
	w.byKey[[2]int{r, inst}] = wk
	rs.workers = append(rs.workers, wk)
	rs.active++
	if rs.active > rs.view.batch {
		w.fail("", fmt.Sprintf("more-updaters-in-flight-than-batch-size run=%d in-flight=%d batch=%d", r, rs.active, rs.view.batch))
	}
	w.r.Count("trylock:" + wk.lock)
	w.emit(wk, "try", wk.lock)
	return c, func() { w.workerDone(wk, f) }
}

func (w *world) workerDone(wk *worker, f context.CancelFunc) {
	w.mu.Lock()
	defer w.mu.Unlock()
	rs := w.runs[wk.run]
	if wk.doneSeen {
		w.stray("done-twice")
		f()
		return
	}
	wk.doneSeen = true
	rs.active--
	if w.driving[wk.sc.name] == wk {
		delete(w.driving, wk.sc.name)
	}
	if rs.returned {
		w.fail("", fmt.Sprintf("updater-finished-after-Run-returned run=%d updater=%s", wk.run, nameStr(wk.sc.name)))
	}
	if wk.body != nil && wk.body.closes == 0 {
		w.fail("", fmt.Sprintf("fetched-contents-never-closed run=%d updater=%s fetch=%s", wk.run, nameStr(wk.sc.name), wk.fetchRes))
	}
	w.emit(wk, "done", "done")
	f()
}

// ---- running one scenario ---------------------------------------------------------

func errNames(err error) []int {
	if err == nil {
		return nil
	}
	var out []int
	lines := strings.Split(err.Error(), "\n")
	for i, l := range lines {
		if i == 0 || l == "" {
			continue
		}
		j := strings.Index(l, ":")
		if j < 0 {
			out = append(out, 999999)
			continue
		}
		out = append(out, nameNum(l[:j]))
	}
	sort.Ints(out)
	return out
}

// ret is called after Run returned. Caller holds w.mu.
func (w *world) ret(rs *runState, err error, panicked bool) {
	w.begin(rs)
	rs.returned = true
	names := errNames(err)
	out := "ret " + csv(names)
	if panicked {
		out = "panic"
	}
	w.op(fmt.Sprintf("ret %d", rs.id), out)
	if err != nil {
		w.r.Count("ret:error")
	} else {
		w.r.Count("ret:nil")
	}
	// ---- the statement, checked on what was observed ----
	// the run returns only after every started updater has finished
	for _, wk := range rs.workers {
		if !wk.doneSeen {
			w.fail("", fmt.Sprintf("Run-returned-while-updater-in-flight run=%d updater=%s", rs.id, nameStr(wk.sc.name)))
			break
		}
	}
	if rs.launches > len(rs.workers) {
		w.fail("", fmt.Sprintf("Run-returned-before-launched-updater-started run=%d launched=%d started=%d", rs.id, rs.launches, len(rs.workers)))
	}
	if !rs.drainedSeen || !rs.waitSeen {
		w.fail("", fmt.Sprintf("Run-returned-without-waiting run=%d", rs.id))
	}
	// every configured updater is run (unless the context was cancelled while launching)
	conf := w.sc.configured(rs.view)
	if !rs.cancelledPreWait {
		var missing []string
		for i := range conf {
			if w.byKey[[2]int{rs.id, i}] == nil {
				missing = append(missing, nameStr(w.sc.scripts[i].name))
			}
		}
		if len(missing) > 0 {
			sort.Strings(missing)
			w.fail("", fmt.Sprintf("configured-updaters-not-run run=%d missing=%s", rs.id, strings.Join(missing, ",")))
		}
		// the updaters handed to WithOutOfTree are configured updaters as well
		if len(rs.view.droppedOOT) > 0 {
			w.fail("enabled-drops-out-of-tree", fmt.Sprintf("out-of-tree-updaters-not-run-because-WithEnabled-came-after-WithOutOfTree run=%d missing=%d", rs.id, len(rs.view.droppedOOT)))
		}
	}
	// ... with its own error, not another updater's
	if err != nil {
		for i, l := range strings.Split(err.Error(), "\n") {
			if j := strings.Index(l, ":"); i > 0 && j > 0 && !strings.Contains(l, "["+l[:j]+"]") {
				w.fail("", fmt.Sprintf("error-reported-for-an-updater-is-not-its-own run=%d line=%q", rs.id, l))
				break
			}
		}
	}
	// a failed updater is named in the returned error (and only failed ones are)
	var want []int
	for _, wk := range rs.workers {
		if wk.failed {
			want = append(want, wk.sc.name)
		}
	}
	sort.Ints(want)
	if csv(want) != csv(names) {
		w.fail("", fmt.Sprintf("returned-error-does-not-name-the-failed-updaters run=%d failed=%s named=%s", rs.id, csv(want), csv(names)))
	}
	if want := w.sc.stubSets(rs.view); want != rs.setStatus {
		w.fail("", fmt.Sprintf("stub-updater-set-status-calls run=%d want=%d got=%d", rs.id, want, rs.setStatus))
	}
	if rs.view.retention == 0 && (rs.gcCalls > 0 || rs.gcTries > 0) {
		w.fail("", fmt.Sprintf("gc-ran-without-retention run=%d", rs.id))
	}
	// garbage collection is attempted at the end of every run (failed updaters or not, cancelled or not)
	if rs.view.retention != 0 && rs.gcTries != 1 && !panicked {
		w.fail("", fmt.Sprintf("gc-section-entered-%d-times run=%d retention=%d failed-updaters=%d", rs.gcTries, rs.id, rs.view.retention, len(names)))
	}
	// every Configurable updater of a constructed, non-stub set is configured exactly once per run
	cfgd := map[int]int{}
	for _, c := range rs.cfgCalls {
		cfgd[c[0]]++
	}
	for _, f := range rs.view.facs {
		mem, ok := w.sc.refMembers(f)
		if !ok || w.sc.isStub(mem) {
			continue
		}
		for _, i := range mem {
			want := 0
			if w.sc.scripts[i].cfg != 0 {
				want = 1
			}
			if cfgd[i] != want {
				w.fail("", fmt.Sprintf("updater-configured-%d-times-in-one-run run=%d updater=%s want=%d", cfgd[i], rs.id, nameStr(w.sc.scripts[i].name), want))
			}
		}
	}
}

// checkWorkers is the per-updater half of the statement, evaluated on the
// calls the recording store received.
func (w *world) checkWorkers() {
	for _, rs := range w.runs {
		for _, wk := range rs.workers {
			sc := wk.sc
			who := fmt.Sprintf("run=%d updater=%s kind=%c", rs.id, nameStr(sc.name), sc.kind)
			if wk.lock != "acq" {
				if wk.inDrive || wk.fetched || len(wk.stores) > 0 || wk.statusCalls > 0 {
					w.fail("", "skipped-updater-was-driven "+who)
				}
				continue
			}
			if !wk.inDrive {
				if !rs.cancelled {
					w.fail("", "locked-updater-not-driven "+who)
				}
				continue
			}
			if len(wk.stores) > 1 {
				w.fail("", fmt.Sprintf("parse-result-stored-%d-times %s", len(wk.stores), who))
			}
			shouldStore := wk.fetched && wk.fetchRes == "ok" && wk.parsed && wk.parseOk
			if len(wk.stores) >= 1 && !shouldStore {
				w.fail("", fmt.Sprintf("stored-although-fetch/parse-did-not-succeed fetch=%s parsed=%v %s", wk.fetchRes, wk.parsed && wk.parseOk, who))
			}
			if len(wk.stores) == 0 && shouldStore {
				w.fail("", "changed-source-not-stored "+who)
			}
			if wk.fetched && wk.fetchRes == "ok" && !wk.parsed {
				w.fail("", "fetched-contents-not-parsed "+who)
			}
			if wk.parsed && wk.fetchRes != "ok" {
				w.fail("", fmt.Sprintf("parsed-after-fetch=%s %s", wk.fetchRes, who))
			}
			if wk.getOk && !wk.fetched {
				w.fail("", "updater-not-fetched "+who)
			}
			if !wk.getOk && wk.fetched {
				w.fail("", "fetched-although-the-previous-fingerprint-could-not-be-read "+who)
			}
			for _, c := range wk.stores {
				wantM := map[byte]byte{'p': 'v', 'd': 'd', 'e': 'e', 'x': 'e'}[sc.kind]
				ok := c.method == wantM && c.name == sc.name && c.fp == wk.newFP && csv(c.vulns) == csv(sc.vulns)
				if sc.kind == 'd' && csv(c.deleted) != csv(sc.deleted) {
					ok = false
				}
				if !ok {
					w.fail("", fmt.Sprintf("stored-call-differs-from-parse-result got=%c/%s/fp%d/%s/%s want=%c/%s/fp%d/%s/%s %s",
						c.method, nameStr(c.name), c.fp, csv(c.vulns), csv(c.deleted), wantM, nameStr(sc.name), wk.newFP, csv(sc.vulns), csv(sc.deleted), who))
				}
			}
			// RecordUpdaterStatus: once, whatever the outcome, with the updater's
			// name, the fingerprint Fetch returned (none if it was never
			// called) and the error driveUpdater returns
			wantFP := 0
			if wk.fetched {
				wantFP = wk.newFP
			}
			switch {
			case wk.statusCalls != 1:
				w.fail("", fmt.Sprintf("updater-status-recorded-%d-times outcome=%s %s", wk.statusCalls, wk.outcome(), who))
			case wk.statusFailed != wk.failed:
				w.fail("", fmt.Sprintf("updater-status-failure-flag=%v but-steps-failed=%v outcome=%s %s", wk.statusFailed, wk.failed, wk.outcome(), who))
			case wk.statusName != sc.name || wk.statusFP != wantFP:
				w.fail("", fmt.Sprintf("updater-status-recorded-as=%s/fp%d want=%s/fp%d outcome=%s %s", nameStr(wk.statusName), wk.statusFP, nameStr(sc.name), wantFP, wk.outcome(), who))
			}
			if wk.body != nil && wk.body.closes != 1 {
				w.fail("", fmt.Sprintf("fetched-contents-closed-%d-times fetch=%s %s", wk.body.closes, wk.fetchRes, who))
			}
		}
	}
}

// setUp runs the set-up operations of the scenario against the real code, in
// protocol order: UpdaterSet algebra, factory declarations, registry,
// NewManager with its options.  Nothing else runs yet (single goroutine); the
// callbacks NewManager makes take w.mu themselves.
func (w *world) setUp(sc *scenario) []*updates.Manager {
	// driver.UpdaterSet
	for _, u := range sc.usetOps {
		for u.set >= len(w.usets) || (u.op == "merge" && u.arg >= len(w.usets)) {
			s := driver.NewUpdaterSet()
			w.usets = append(w.usets, &s)
		}
		set := w.usets[u.set]
		var out string
		switch u.op {
		case "add":
			err := set.Add(w.ups[u.arg])
			out = "ok"
			var ee driver.ErrExists
			if errors.As(err, &ee) {
				out = "exists"
				if len(ee.Updater) != 1 || ee.Updater[0] != nameStr(sc.scripts[u.arg].name) {
					w.fail("", fmt.Sprintf("UpdaterSet.Add-error-names=%v want=%s", ee.Updater, nameStr(sc.scripts[u.arg].name)))
				}
			} else if err != nil {
				out = "err"
			}
		case "merge":
			err := set.Merge(*w.usets[u.arg])
			out = "ok"
			var ee driver.ErrExists
			if errors.As(err, &ee) {
				var ns []int
				for _, n := range ee.Updater {
					ns = append(ns, nameNum(n))
				}
				sort.Ints(ns)
				out = "exists " + csv(ns)
			} else if err != nil {
				out = "err"
			}
		case "filter":
			out = okErr(set.RegexFilter(patRegexp(u.pat)) == nil)
		case "list":
			var is []int
			names := map[string]int{}
			for _, x := range set.Updaters() {
				i := w.instOf(x)
				is = append(is, i)
				if i >= 0 && i < len(sc.scripts) {
					names[nameStr(sc.scripts[i].name)]++
				}
			}
			sort.Ints(is)
			out = "set " + csv(is)
			for n, c := range names {
				if c > 1 {
					w.fail("", fmt.Sprintf("UpdaterSet-holds-%d-updaters-named-%s", c, n))
				}
			}
		}
		w.r.Count("uset:" + u.op + ":" + strings.Fields(out)[0])
		w.op(u.line(), out)
	}
	for len(w.usets) < sc.usetCount() {
		s := driver.NewUpdaterSet()
		w.usets = append(w.usets, &s)
	}
	for _, f := range sc.facs {
		w.op(f.decl(), "ok")
	}
	// the registry
	for _, n := range registeredNames() {
		if f, ok := w.regBind[n]; ok {
			w.op(fmt.Sprintf("regdecl %d %d", n, f), "ok")
		}
	}
	for _, o := range sc.regOps {
		switch o.op {
		case "register":
			was := false
			for _, n := range registeredNames() {
				was = was || n == o.name
			}
			out := doRegister(o.name)
			if was != (out == "panic") {
				w.fail("", fmt.Sprintf("Register(%s)=%s although-registered-before=%v", facName(o.name), out, was))
			}
			w.r.Count("registry:register:" + out)
			w.op(fmt.Sprintf("register %d %d", o.name, o.fac), out)
		case "registered":
			out, intact := doRegistered()
			if !intact {
				w.fail("", "Registered-hands-out-its-own-map: damaging the result changed the registry")
			}
			w.r.Count("registry:registered")
			w.op("registered", out)
		}
	}
	// managers
	reg := map[int]int{}
	for _, n := range registeredNames() {
		if f, ok := w.regBind[n]; ok {
			reg[n] = f
		}
	}
	facObjs := make([]driver.UpdaterSetFactory, len(sc.facs))
	for i, f := range sc.facs {
		facObjs[i] = w.mkFactory(f)
	}
	mgrs := make([]*updates.Manager, len(sc.mgrs))
	w.views = make([]mgrView, len(sc.mgrs))
	w.mgrOK = make([]bool, len(sc.mgrs))
	defBatch := runtime.GOMAXPROCS(0)
	for mi, m := range sc.mgrs {
		var opts []updates.ManagerOption
		var shared []map[string]driver.UpdaterSetFactory
		for _, o := range m.opts {
			switch o.kind {
			case "b":
				opts = append(opts, updates.WithBatchSize(o.n))
			case "i":
				opts = append(opts, updates.WithInterval(time.Duration(o.n)*time.Microsecond))
			case "gc":
				opts = append(opts, updates.WithGC(o.n))
			case "en":
				if o.isNil {
					opts = append(opts, updates.WithEnabled(nil))
					break
				}
				names := []string{}
				for _, e := range o.list {
					names = append(names, facName(e))
				}
				opts = append(opts, updates.WithEnabled(names))
			case "cf":
				cfgs := updates.Configs{}
				for _, c := range o.cfgs {
					k := nameStr(c.name)
					if c.fac {
						k = facName(c.name)
					}
					cfgs[k] = mkCfg(c.id)
				}
				opts = append(opts, updates.WithConfigs(cfgs))
			case "oot":
				var us []driver.Updater
				for _, i := range o.list {
					us = append(us, w.ups[i])
				}
				opts = append(opts, updates.WithOutOfTree(us))
			case "fs":
				var given map[string]driver.UpdaterSetFactory
				if !o.isNil {
					given = map[string]driver.UpdaterSetFactory{}
					for _, p := range o.pairs {
						given[facName(p[0])] = facObjs[p[1]]
					}
					shared = append(shared, given)
				}
				opts = append(opts, updates.WithFactories(given))
			}
		}
		sizes := make([]int, len(shared))
		for i, g := range shared {
			sizes[i] = len(g)
		}
		client := w.client
		if m.clientNil {
			client = nil
		}
		w.facCfgCalls = nil
		var mgr *updates.Manager
		var err error
		out := hx.Guard(func() string {
			mgr, err = updates.NewManager(context.Background(), w.store, &lockSrc{w: w, real: w.locks}, client, opts...)
			return ""
		})
		v := sc.view(m, defBatch, reg)
		w.views[mi] = v
		// the Configure calls NewManager made, by factory name
		var calls [][2]int
		cfgd := map[int]int{}
		for _, c := range w.facCfgCalls {
			cfgd[c[0]]++
			for n, ref := range v.facs {
				if !ref.static && ref.ext == c[0] {
					calls = append(calls, [2]int{n, c[1]})
					if want := v.cfgID(true, n); want != c[1] {
						w.fail("", fmt.Sprintf("factory-configured-with-the-wrong-config factory=%s got=%d want=%d", facName(n), c[1], want))
					}
				}
			}
		}
		line := fmt.Sprintf("newmgr %d %s %d %d %s", mi, b01(!m.clientNil), defBatch, defIntervalMicros, m.tokens())
		line = strings.TrimRight(line, " ")
		switch {
		case out == "panic":
			w.r.Count("newmgr:panic")
			w.op(line, "panic")
			w.fail("", "NewManager-panicked manager="+fmt.Sprint(mi))
		case err != nil:
			w.r.Count("newmgr:err")
			w.op(line, "err c="+pairsStr(calls))
			if v.retention != 1 && !m.clientNil {
				failing := false
				for _, ref := range v.facs {
					if !ref.static && sc.facs[ref.ext].fcfg == 2 {
						failing = true
					}
				}
				if !failing {
					w.fail("", "NewManager-failed-without-a-reason: "+err.Error())
				}
			}
		default:
			w.r.Count("newmgr:ok")
			mgrs[mi] = mgr
			w.mgrOK[mi] = true
			b, iv, ret, _ := mgr.SettingsForVerif()
			w.op(line, fmt.Sprintf("ok f=%s b=%d i=%d r=%d c=%s", w.showFactories(mgr), b, int64(iv/time.Microsecond), ret, pairsStr(calls)))
			if v.retention == 1 {
				w.fail("", "NewManager-accepted-retention-1")
			}
			if m.clientNil {
				w.fail("", "NewManager-accepted-a-nil-http-client")
			}
			// every Configurable factory of the manager was configured exactly once
			for n, ref := range v.facs {
				if ref.static {
					continue
				}
				want := 0
				if sc.facs[ref.ext].fcfg != 0 {
					want = 1
				}
				if cfgd[ref.ext] != want {
					w.fail("", fmt.Sprintf("factory-configured-%d-times factory=%s want=%d", cfgd[ref.ext], facName(n), want))
				}
			}
		}
		// the caller's factory maps are the caller's: NewManager and its options do not write to them
		for i, g := range shared {
			if len(g) != sizes[i] {
				w.fail("", fmt.Sprintf("options-wrote-into-the-callers-factory-map manager=%d size-before=%d after=%d", mi, sizes[i], len(g)))
			}
		}
	}
	return mgrs
}

// showFactories renders the real manager's factory map like the model does.
func (w *world) showFactories(m *updates.Manager) string {
	fs := m.FactoriesForVerif()
	var names []int
	by := map[int]string{}
	for k, f := range fs {
		n := facNum(k)
		names = append(names, n)
		switch x := f.(type) {
		case *facObj:
			by[n] = fmt.Sprintf("e%d", x.spec.id)
		case *cfgFacObj:
			by[n] = fmt.Sprintf("e%d", x.spec.id)
		case *regSlot:
			by[n] = fmt.Sprintf("e%d", w.regBind[x.name])
		case *cfgRegSlot:
			by[n] = fmt.Sprintf("e%d", w.regBind[x.name])
		default:
			// the StaticSet of WithOutOfTree
			set, err := f.UpdaterSet(context.Background())
			if err != nil {
				by[n] = "?"
				break
			}
			var is []int
			for _, u := range set.Updaters() {
				is = append(is, w.instOf(u))
			}
			sort.Ints(is)
			ss := make([]string, len(is))
			for i, x := range is {
				ss[i] = fmt.Sprint(x)
			}
			by[n] = "s" + strings.Join(ss, "+")
		}
	}
	if len(names) == 0 {
		return "-"
	}
	sort.Ints(names)
	out := make([]string, len(names))
	for i, n := range names {
		out[i] = fmt.Sprintf("%d=%s", n, by[n])
	}
	return strings.Join(out, ",")
}

func (w *world) instOf(u driver.Updater) int {
	for i, x := range w.ups {
		if x == u {
			return i
		}
	}
	return 999999
}

// patRegexp is the regular expression of a filter pattern of the protocol.
func patRegexp(pat string) string {
	switch {
	case pat == "any":
		return ".*"
	case pat == "none":
		return "^$"
	case strings.HasPrefix(pat, "exact:"):
		return "^u" + pat[6:] + "$"
	case strings.HasPrefix(pat, "prefix:"):
		return "^u" + pat[7:]
	case strings.HasPrefix(pat, "suffix:"):
		return pat[7:] + "$"
	}
	return "(" // "bad": does not compile
}

func runScenario(r *hx.Run, seed uint64, idx int, sc *scenario) bool {
	w := &world{r: r, sc: sc, idx: idx, seed: seed, runOfGo: map[int64]int{}, startOfGo: map[int64]*startState{},
		worker: map[int64]*worker{}, byKey: map[[2]int]*worker{}, driving: map[int]*worker{}, configured: map[int]int{}, silent: sc.silent,
		client: &http.Client{}, regBind: map[int]int{}, locks: updates.NewLocalLockSource(), meet: make(chan struct{}), abort: make(chan struct{})}
	w.store = &store{w: w}
	if sc.burst {
		fetching := 0
		for _, s := range sc.scripts {
			if s.getOk {
				fetching++
			}
		}
		for range sc.runs {
			w.fetchBars = append(w.fetchBars, newBarrier(fetching))
			w.statusBars = append(w.statusBars, newBarrier(len(sc.scripts)))
		}
	}
	for _, h := range sc.hist {
		k := driver.VulnerabilityKind
		if h.kind == 'e' {
			k = driver.EnrichmentKind
		}
		w.store.ops = append([]storedOp{{kind: k, name: nameStr(h.name), fp: fpStr(h.fp)}}, w.store.ops...)
	}
	for n, f := range sc.regBind {
		w.regBind[n] = f
	}
	if !sc.silent {
		r.Op("reset", "ok", false)
		for _, d := range sc.decls() {
			r.Op(d, "ok", false)
		}
	}
	old := runtime.GOMAXPROCS(sc.procs)
	defer runtime.GOMAXPROCS(old)
	verifhook.Install(w.hook)
	defer verifhook.Install(nil)
	curWorld.Store(w)
	defer curWorld.Store(nil)

	w.ups = make([]driver.Updater, len(sc.scripts))
	for i, s := range sc.scripts {
		w.ups[i] = w.mkUpdater(s)
	}
	mgrs := w.setUp(sc)

	// the runs and Start calls of the scenario
	w.mu.Lock()
	startOf := map[int]*startState{}
	for ri, spec := range sc.runs {
		rs := &runState{id: ri, spec: spec, gate: make(chan struct{}), hookCount: map[string]int{}, done: make(chan struct{})}
		if w.mgrOK[spec.mgr] {
			rs.view = w.views[spec.mgr]
		}
		w.runs = append(w.runs, rs)
		if !w.mgrOK[spec.mgr] {
			continue
		}
		if spec.start {
			// the runs a Start call makes are numbered as they appear; the slot keeps the indices of plain runs stable
			rs.placeholder, rs.returned = true, true
			rs.openGate()
			st := &startState{id: len(w.starts), spec: spec, view: w.views[spec.mgr], done: make(chan struct{})}
			w.starts = append(w.starts, st)
			startOf[ri] = st
			w.op(fmt.Sprintf("startdecl %d %d", st.id, spec.mgr), "ok")
			continue
		}
		w.op(fmt.Sprintf("run %d %d", ri, spec.mgr), "ok")
	}
	w.mu.Unlock()
	maxPhase := 0
	for _, spec := range sc.runs {
		if spec.phase > maxPhase {
			maxPhase = spec.phase
		}
	}
	hung := false
	var tmu sync.Mutex
	var timers []*time.Timer
	start := func(rs *runState) {
		ctx, cancel := context.WithCancel(context.WithValue(context.Background(), runKey{}, rs.id))
		w.mu.Lock()
		rs.cancel = cancel
		rs.started = true
		if rs.spec.plan.kind == "before" {
			w.cancelLocked(rs)
		}
		w.mu.Unlock()
		if rs.spec.plan.kind == "timer" {
			t := time.AfterFunc(time.Duration(rs.spec.plan.n)*time.Microsecond, func() {
				w.mu.Lock()
				w.cancelLocked(rs)
				w.mu.Unlock()
			})
			tmu.Lock()
			timers = append(timers, t)
			tmu.Unlock()
		}
		go func() {
			defer close(rs.done)
			w.mu.Lock()
			w.runOfGo[hx.GoID()] = rs.id
			w.mu.Unlock()
			var err error
			out := hx.Guard(func() string { err = mgrs[rs.spec.mgr].Run(ctx); return "" })
			w.mu.Lock()
			w.ret(rs, err, out == "panic")
			w.mu.Unlock()
		}()
	}
	startLoop := func(st *startState) {
		ctx, cancel := context.WithCancel(context.WithValue(context.Background(), runKey{}, -1-st.id))
		w.mu.Lock()
		st.cancel = cancel
		if st.spec.plan.kind == "before" {
			w.cancelStart(st)
		}
		w.mu.Unlock()
		go func() {
			defer close(st.done)
			w.mu.Lock()
			w.startOfGo[hx.GoID()] = st
			w.mu.Unlock()
			var err error
			out := hx.Guard(func() string { err = mgrs[st.spec.mgr].Start(ctx); return "" })
			w.mu.Lock()
			defer w.mu.Unlock()
			st.returned = true
			switch {
			case out == "panic":
				w.op(fmt.Sprintf("sret %d", st.id), "panic")
				w.fail("", fmt.Sprintf("Start-panicked start=%d", st.id))
			case !st.begun:
				// returned without running anything: only a missing interval allows that
				st.begun = true
				res := "returned-without-a-run"
				if err != nil && !errors.Is(err, context.Canceled) && st.view.interval == 0 {
					res = "interval-error"
				}
				w.op(fmt.Sprintf("sbegin %d", st.id), res)
				w.r.Count("start:" + res)
				if res != "interval-error" {
					w.fail("", fmt.Sprintf("Start-returned-without-the-initial-run start=%d err=%v", st.id, err))
				}
			default:
				res := "ctx-error"
				if !errors.Is(err, context.Canceled) {
					res = fmt.Sprintf("returned-error=%v", err != nil)
				}
				if st.cur != nil {
					w.fail("", fmt.Sprintf("Start-returned-inside-a-run start=%d run=%d", st.id, st.cur.id))
				}
				if !st.cancelled {
					w.fail("", fmt.Sprintf("Start-returned-although-its-context-is-live start=%d err=%v", st.id, err))
				} else if !errors.Is(err, context.Canceled) {
					w.fail("", fmt.Sprintf("Start-did-not-return-the-context-error start=%d err=%v", st.id, err))
				}
				w.op(fmt.Sprintf("sret %d", st.id), res)
				w.r.Count(fmt.Sprintf("start:returned-after-runs=%d", min(st.k, 4)))
			}
		}()
	}
	// runs that begin while another run is inside store.GC (holding the GC lock)
	nstatic := len(sc.runs)
	w.gcHook = func(run int) {
		for ri := 0; ri < nstatic; ri++ {
			w.mu.Lock()
			rs := w.runs[ri]
			mine := rs.spec.startGC == run+1 && !rs.started && !rs.placeholder && w.mgrOK[rs.spec.mgr]
			w.mu.Unlock()
			if !mine {
				continue
			}
			start(rs)
			// keep collecting garbage until the new run's workers have been at the lock
			deadline := time.Now().Add(2 * time.Second)
			for time.Now().Before(deadline) {
				w.mu.Lock()
				n, fin := len(rs.workers), rs.returned
				w.mu.Unlock()
				if fin || n >= len(w.sc.configured(rs.view)) {
					break
				}
				time.Sleep(50 * time.Microsecond)
			}
		}
	}
	for ph := 0; ph <= maxPhase && !hung; ph++ {
		var cur []*runState
		var curStarts []*startState
		for ri := 0; ri < nstatic; ri++ {
			w.mu.Lock()
			rs := w.runs[ri]
			w.mu.Unlock()
			if rs.spec.phase != ph || !w.mgrOK[rs.spec.mgr] {
				continue
			}
			if rs.placeholder {
				st := startOf[ri]
				curStarts = append(curStarts, st)
				startLoop(st)
				continue
			}
			cur = append(cur, rs)
			if rs.spec.startGC == 0 {
				start(rs)
			}
		}
		// first the runs started here, then the ones they started
		for pass := 0; pass < 2; pass++ {
			for _, rs := range cur {
				if (rs.spec.startGC != 0) != (pass == 1) {
					continue
				}
				w.mu.Lock()
				started := rs.started
				w.mu.Unlock()
				if !started {
					continue
				}
				select {
				case <-rs.done:
				case <-w.abort:
					hung = true
				case <-time.After(60 * time.Second):
					w.mu.Lock()
					w.fail("", fmt.Sprintf("Run-did-not-return-within-60s run=%d in-flight=%d", rs.id, rs.active))
					w.mu.Unlock()
					hung = true
				}
				rs.openGate()
			}
		}
		for _, st := range curStarts {
			select {
			case <-st.done:
			case <-w.abort:
				hung = true
			case <-time.After(60 * time.Second):
				w.mu.Lock()
				w.fail("", fmt.Sprintf("Start-did-not-return-within-60s start=%d runs=%d cancelled=%v", st.id, st.k, st.cancelled))
				w.mu.Unlock()
				hung = true
			}
		}
	}
	tmu.Lock()
	for _, t := range timers {
		t.Stop()
	}
	tmu.Unlock()
	w.mu.Lock()
	all := append([]*runState{}, w.runs...)
	sts := append([]*startState{}, w.starts...)
	w.mu.Unlock()
	for _, rs := range all {
		rs.openGate()
		w.mu.Lock()
		c := rs.cancel
		w.mu.Unlock()
		if c != nil {
			c()
		}
	}
	for _, st := range sts {
		w.mu.Lock()
		c := st.cancel
		w.mu.Unlock()
		if c != nil {
			c()
		}
	}
	w.mu.Lock()
	for _, b := range append(append([]*barrier{}, w.fetchBars...), w.statusBars...) {
		if b != nil && b.timeouts.Load() > 0 {
			r.Count("burst:barrier-timeout")
		}
	}
	if !hung {
		w.checkWorkers()
	}
	nontrivial := false
	for _, rs := range w.runs {
		for _, wk := range rs.workers {
			if wk.failed || wk.lock != "acq" || wk.fetchRes == "unch" {
				nontrivial = true
			}
		}
		if rs.cancelled {
			nontrivial = true
		}
	}
	if len(sc.usetOps) > 0 || len(sc.regOps) > 0 || len(w.starts) > 0 {
		nontrivial = true
	}
	w.mu.Unlock()
	r.Case(fmt.Sprintf("scenario %d/%d: %s", seed, idx, sc.dump()), nontrivial)
	return !hung
}
