// Package c13 drives the real update manager (libvuln/updates.Manager) through
// its public API with scripted updaters, a recording updater store and the
// real process-local lock source, linearises everything the manager does
// (hook points in Run, lock operations, store calls, updater calls) under one
// mutex, and emits that trace in the line protocol of the Lean machine
// (Model/Manager.lean).  The same observations feed direct checks of the
// property statement.
package c13

import (
	"context"
	"fmt"
	"net/http"
	"runtime"
	"sort"
	"strings"
	"sync"
	"time"

	"github.com/rs/zerolog"

	"github.com/quay/claircore/internal/verifhook"
	"github.com/quay/claircore/libvuln/driver"
	"github.com/quay/claircore/libvuln/updates"
	"github.com/quay/claircore/verifharness/internal/hx"
)

type runKey struct{}

// ---- scenario ----------------------------------------------------------------

type facSpec struct {
	id      int
	ok      bool
	members []int
}

type histOp struct {
	kind byte // 'v' | 'e'
	name int
	fp   int
}

type mgrSpec struct {
	batch     int
	given     []int // WithFactories
	enabled   []int // WithEnabled (nil: option not used)
	oot       int   // factory handed over through WithOutOfTree, or -1
	retention int
}

// facs is the factory map the manager ends up with.
func (m mgrSpec) facs() []int {
	var out []int
	for _, f := range m.given {
		if m.enabled == nil {
			out = append(out, f)
			continue
		}
		for _, e := range m.enabled {
			if e == f {
				out = append(out, f)
				break
			}
		}
	}
	if m.oot >= 0 {
		out = append(out, m.oot)
	}
	return out
}

// cancelPlan says when the context of a run is cancelled.
type cancelPlan struct {
	kind string // "", "before", "hook", "event", "timer"
	site string // for "hook": acquire | launch | wait
	n    int    // k-th occurrence (hook, event) or microseconds (timer)
}

type runSpec struct {
	mgr     int
	phase   int
	plan    cancelPlan
	gateD   time.Duration // delay between the wait hook and the opening of the gate
	startGC int           // 1+r: started when run r is inside store.GC (0: started with its phase)
}

type scenario struct {
	scripts  []*script
	facs     []facSpec
	hist     []histOp
	mgrs     []mgrSpec
	runs     []runSpec
	procs    int
	yieldAll bool
	silent   bool // oracle-only scenario: no protocol lines (for corpus cases outside the machine)
}

func (s *scenario) decls() []string {
	var out []string
	for _, h := range s.hist {
		out = append(out, fmt.Sprintf("hist %c %d %d", h.kind, h.name, h.fp))
	}
	for _, sc := range s.scripts {
		out = append(out, sc.decl())
	}
	for _, f := range s.facs {
		out = append(out, fmt.Sprintf("fac %d %s %s", f.id, b01(f.ok), csv(f.members)))
	}
	for r, rs := range s.runs {
		m := s.mgrs[rs.mgr]
		out = append(out, fmt.Sprintf("run %d %d %s %s", r, m.batch, b01(m.retention != 0), csv(m.facs())))
	}
	return out
}

// configured is the statement's "every configured updater": members of the
// factories that could be constructed and are not a stub set, whose Configure
// did not fail.
func (s *scenario) configured(m mgrSpec) map[int]bool {
	out := map[int]bool{}
	for _, fid := range m.facs() {
		f := s.facs[fid]
		if !f.ok {
			continue
		}
		if len(f.members) == 1 && s.scripts[f.members[0]].name == 0 {
			continue
		}
		for _, i := range f.members {
			if s.scripts[i].cfg != 2 {
				out[i] = true
			}
		}
	}
	return out
}

// ---- world: everything observed in one scenario ------------------------------

type worker struct {
	run, inst int
	sc        *script
	lock      string
	doneSeen  bool
	inDrive   bool
	fetched   bool
	fetchRes  string
	newFP     int
	parsed    bool
	parseOk   bool
	stores    []storeCall
	body      *body

	statusCalls  int
	statusFailed bool
	failed       bool // a step of its driveUpdater failed
}

type runState struct {
	id       int
	spec     runSpec
	mgr      mgrSpec
	cancel   context.CancelFunc
	gate     chan struct{}
	gateOnce sync.Once

	cancelled        bool
	cancelledPreWait bool
	openAtCancel     bool // cancel arrived while sem.Acquire(ctx,1) was in progress
	graceUsed        bool
	begun            bool
	lastHook         string
	hookCount        map[string]int
	workerEvents     int
	setStatus        int
	gcCalls          int
	active           int
	launches         int
	waitSeen         bool
	drainedSeen      bool
	returned         bool
	started          bool
	workers          []*worker
	done             chan struct{}
}

func (rs *runState) openGate() { rs.gateOnce.Do(func() { close(rs.gate) }) }

type world struct {
	mu         sync.Mutex
	r          *hx.Run
	sc         *scenario
	idx        int
	seed       uint64
	lastName   map[int64]int
	runOfGo    map[int64]int
	worker     map[int64]*worker
	byKey      map[[2]int]*worker
	driving    map[int]*worker // name -> worker inside driveUpdater
	configured map[int]int
	runs       []*runState
	store      *store
	lastTry    int
	failures   int
	flags      map[string]bool
	silent     bool // no protocol lines
	gcHolders  int  // Run goroutines holding the "garbage-collection" lock
	gcHook     func(run int)
}

// classified failures (listed findings) are reported a few times only, so that
// they never trigger hx.Run.Stop.
var (
	knownMu    sync.Mutex
	knownCount = map[string]int{}
)

func (w *world) fail(class, msg string) {
	if class != "" {
		knownMu.Lock()
		knownCount[class]++
		n := knownCount[class]
		knownMu.Unlock()
		w.r.Count("known:" + class)
		if n > 3 {
			return
		}
	}
	w.failures++
	txt := w.sc.dump()
	if len(txt) > 6000 {
		txt = txt[:6000] + "…"
	}
	w.r.Fail(class, fmt.Sprintf("%s | seed=%d scenario=%d: %s", msg, w.seed, w.idx, txt))
}

// op writes one protocol line (unless the scenario is oracle-only).
func (w *world) op(line, out string) {
	if !w.silent {
		w.r.Op(line, out, true)
	}
}

func (w *world) stray(what string) {
	w.op("stray "+what, "stray")
	w.r.Count("stray")
}

func (w *world) noteName(inst int) {
	g := hx.GoID()
	w.mu.Lock()
	w.lastName[g] = inst
	w.mu.Unlock()
}

// workerOf attributes a call made by the manager to the worker goroutine it
// runs in. Caller holds w.mu.
func (w *world) workerOf(inst int, what string) *worker {
	wk := w.worker[hx.GoID()]
	if wk == nil || (inst >= 0 && wk.inst != inst) {
		w.stray(what)
		return nil
	}
	rs := w.runs[wk.run]
	if rs.returned {
		w.fail("", fmt.Sprintf("updater-still-working-after-Run-returned run=%d updater=%s step=%s", wk.run, nameStr(wk.sc.name), what))
	}
	if wk.lock != "acq" {
		w.fail("", fmt.Sprintf("updater-ran-without-holding-its-lock run=%d updater=%s trylock=%s step=%s", wk.run, nameStr(wk.sc.name), wk.lock, what))
	}
	if wk.doneSeen {
		w.fail("", fmt.Sprintf("updater-step-after-lock-release run=%d updater=%s step=%s", wk.run, nameStr(wk.sc.name), what))
	}
	return wk
}

// emit writes one worker event; the model answers the same line. Caller holds w.mu.
func (w *world) emit(wk *worker, kind, out string) {
	w.op(fmt.Sprintf("%s %d %d", kind, wk.run, wk.inst), out)
	rs := w.runs[wk.run]
	rs.workerEvents++
	if p := rs.spec.plan; p.kind == "event" && rs.workerEvents == p.n {
		w.cancelLocked(rs)
	}
}

// enterDrive: two updaters with the same name never run at the same time.
func (w *world) enterDrive(wk *worker) {
	if o := w.driving[wk.sc.name]; o != nil && o != wk {
		w.fail("", fmt.Sprintf("same-name-updaters-overlap name=%s run/inst=%d/%d and %d/%d", nameStr(wk.sc.name), o.run, o.inst, wk.run, wk.inst))
	}
	w.driving[wk.sc.name] = wk
}

func (w *world) leaveDrive(wk *worker) {}

func (w *world) cancelLocked(rs *runState) {
	if rs.cancelled || rs.returned {
		return
	}
	rs.cancelled = true
	if !rs.waitSeen {
		rs.cancelledPreWait = true
	}
	rs.openAtCancel = rs.lastHook == "acquire"
	rs.cancel()
	w.op(fmt.Sprintf("cancel %d", rs.id), "ok")
	w.r.Count("cancel:" + rs.spec.plan.kind)
}

// pre runs outside the mutex before an updater step: schedule perturbation
// and the gate that keeps chosen workers in flight.
func (w *world) pre(sc *script, isFetch bool) {
	for i := 0; i < sc.spin; i++ {
		if i%2 == 0 {
			runtime.Gosched()
		} else {
			time.Sleep(20 * time.Microsecond)
		}
	}
	if isFetch && sc.gate {
		w.mu.Lock()
		wk := w.worker[hx.GoID()]
		var gate chan struct{}
		if wk != nil {
			gate = w.runs[wk.run].gate
		}
		w.mu.Unlock()
		if gate != nil {
			select {
			case <-gate:
			case <-time.After(200 * time.Millisecond):
				w.r.Count("gate:fallback-timeout")
			}
		}
	}
}

func (w *world) preStore() {
	if w.sc.yieldAll {
		runtime.Gosched()
	}
}

// hook receives the verifhook points. The lock.* sites fire inside the real
// lock source while this goroutine already holds w.mu (see lockSrc.TryLock).
func (w *world) hook(site, key string) {
	switch site {
	case "lock.try.acquire":
		w.lastTry = 1
		return
	case "lock.try.busy":
		w.lastTry = 2
		return
	case "manager.acquire", "manager.launch", "manager.wait", "manager.drained":
	default:
		return
	}
	g := hx.GoID()
	w.mu.Lock()
	defer w.mu.Unlock()
	r, ok := w.runOfGo[g]
	if !ok {
		w.stray(site)
		return
	}
	rs := w.runs[r]
	w.begin(rs)
	ev := strings.TrimPrefix(site, "manager.")
	if rs.returned {
		w.fail("", fmt.Sprintf("run-loop-active-after-return run=%d", r))
	}
	switch ev {
	case "launch":
		rs.launches++
		// after cancellation no new worker starts (at most the one whose
		// semaphore acquisition was already in progress)
		if rs.cancelled {
			if rs.openAtCancel && !rs.graceUsed && rs.lastHook == "acquire" {
				rs.graceUsed = true
			} else {
				w.fail("", fmt.Sprintf("updater-launched-after-cancellation run=%d", r))
			}
		}
	case "acquire":
		if rs.cancelled {
			rs.openAtCancel = false
		}
	case "wait":
		rs.waitSeen = true
		d := rs.spec.gateD
		time.AfterFunc(d, rs.openGate)
	case "drained":
		rs.drainedSeen = true
		// the run returns only after every started updater has finished
		if rs.active > 0 || rs.launches > len(rs.workers) {
			w.fail("", fmt.Sprintf("run-stopped-waiting-while-updaters-in-flight run=%d in-flight=%d launched=%d reached-trylock=%d", r, rs.active, rs.launches, len(rs.workers)))
		}
	}
	rs.lastHook = ev
	w.op(fmt.Sprintf("%s %d", ev, r), "ok")
	rs.hookCount[ev]++
	if p := rs.spec.plan; p.kind == "hook" && p.site == ev && rs.hookCount[ev] == p.n {
		w.cancelLocked(rs)
	}
}

func (w *world) begin(rs *runState) {
	if rs.begun {
		return
	}
	rs.begun = true
	w.op(fmt.Sprintf("begin %d", rs.id), fmt.Sprintf("begin %d", rs.setStatus))
}

// ---- lock source wrapper --------------------------------------------------------

type lockSrc struct {
	w    *world
	real updates.LockSource
}

func (l *lockSrc) Lock(ctx context.Context, key string) (context.Context, context.CancelFunc) {
	l.w.mu.Lock()
	l.w.stray("Lock")
	l.w.mu.Unlock()
	return l.real.Lock(ctx, key)
}

func (l *lockSrc) TryLock(ctx context.Context, key string) (context.Context, context.CancelFunc) {
	w := l.w
	g := hx.GoID()
	w.preStore()
	w.mu.Lock()
	defer w.mu.Unlock()
	if rr, isRun := w.runOfGo[g]; isRun {
		// the garbage-collection lock taken by Run itself
		w.r.Count("gc:trylock")
		w.lastTry = 0
		c, f := l.real.TryLock(ctx, key)
		if key != "garbage-collection" || w.lastTry == 0 {
			w.stray("run-trylock")
			return c, f
		}
		out := "busy"
		if w.lastTry == 1 {
			out = "acq"
			if c.Err() != nil {
				out = "acqdead"
			}
			w.gcHolders++
		}
		got := w.lastTry == 1
		w.r.Count("gc:" + out)
		w.op(fmt.Sprintf("gctry %d", rr), out)
		var once sync.Once
		return c, func() {
			once.Do(func() {
				w.mu.Lock()
				if got {
					w.gcHolders--
				}
				w.op(fmt.Sprintf("gcdone %d", rr), "done")
				f()
				w.mu.Unlock()
			})
		}
	}
	r, okr := ctx.Value(runKey{}).(int)
	inst, oki := w.lastName[g]
	w.lastTry = 0
	c, f := l.real.TryLock(ctx, key)
	if !okr || !oki || nameStr(w.sc.scripts[inst].name) != key || w.lastTry == 0 {
		w.stray("trylock")
		return c, f
	}
	rs := w.runs[r]
	wk := &worker{run: r, inst: inst, sc: w.sc.scripts[inst]}
	switch {
	case w.lastTry == 2:
		wk.lock = "busy"
		if c.Err() == nil {
			w.fail("", "trylock-busy-returned-live-context")
		}
	case c.Err() != nil:
		wk.lock = "acqdead"
	default:
		wk.lock = "acq"
	}
	if rs.returned {
		w.fail("", fmt.Sprintf("updater-started-after-Run-returned run=%d updater=%s", r, key))
	}
	if old := w.byKey[[2]int{r, inst}]; old != nil {
		w.fail("", fmt.Sprintf("updater-started-twice-in-one-run run=%d updater=%s", r, key))
	}
	if !w.sc.configured(rs.mgr)[inst] {
		w.fail("", fmt.Sprintf("unconfigured-updater-started run=%d updater=%s", r, key))
	}
	if wk.lock == "busy" {
		holder := false
		for _, ors := range w.runs {
			for _, o := range ors.workers {
				if o.sc.name == wk.sc.name && o.lock != "busy" && !o.doneSeen {
					holder = true
				}
			}
		}
		switch {
		case holder:
		case wk.sc.name == 1 && w.gcHolders > 0:
			// the garbage-collection lock of a concurrent Run shares the updaters' key space
			w.fail("gc-lock-name-collision", fmt.Sprintf("updater-named-garbage-collection-skipped-while-another-Run-collects-garbage run=%d", r))
		default:
			w.fail("", fmt.Sprintf("configured-updater-skipped-although-no-same-name-updater-holds-the-lock run=%d updater=%s", r, key))
		}
	}
	w.worker[g] = wk
	w.byKey[[2]int{r, inst}] = wk
	rs.workers = append(rs.workers, wk)
	rs.active++
	if rs.active > rs.mgr.batch {
		w.fail("", fmt.Sprintf("more-updaters-in-flight-than-batch-size run=%d in-flight=%d batch=%d", r, rs.active, rs.mgr.batch))
	}
	w.r.Count("trylock:" + wk.lock)
	w.emit(wk, "try", wk.lock)
	return c, func() { w.workerDone(wk, f) }
}

func (w *world) workerDone(wk *worker, f context.CancelFunc) {
	w.mu.Lock()
	defer w.mu.Unlock()
	rs := w.runs[wk.run]
	if wk.doneSeen {
		w.stray("done-twice")
		f()
		return
	}
	wk.doneSeen = true
	rs.active--
	if w.driving[wk.sc.name] == wk {
		delete(w.driving, wk.sc.name)
	}
	if rs.returned {
		w.fail("", fmt.Sprintf("updater-finished-after-Run-returned run=%d updater=%s", wk.run, nameStr(wk.sc.name)))
	}
	w.emit(wk, "done", "done")
	f()
}

// ---- running one scenario ---------------------------------------------------------

func errNames(err error) []int {
	if err == nil {
		return nil
	}
	var out []int
	lines := strings.Split(err.Error(), "\n")
	for i, l := range lines {
		if i == 0 || l == "" {
			continue
		}
		j := strings.Index(l, ":")
		if j < 0 {
			out = append(out, 999999)
			continue
		}
		out = append(out, nameNum(l[:j]))
	}
	sort.Ints(out)
	return out
}

// ret is called after Run returned. Caller holds w.mu.
func (w *world) ret(rs *runState, err error, panicked bool) {
	w.begin(rs)
	rs.returned = true
	names := errNames(err)
	out := "ret " + csv(names)
	if panicked {
		out = "panic"
	}
	w.op(fmt.Sprintf("ret %d", rs.id), out)
	if err != nil {
		w.r.Count("ret:error")
	} else {
		w.r.Count("ret:nil")
	}
	// ---- the statement, checked on what was observed ----
	// the run returns only after every started updater has finished
	for _, wk := range rs.workers {
		if !wk.doneSeen {
			w.fail("", fmt.Sprintf("Run-returned-while-updater-in-flight run=%d updater=%s", rs.id, nameStr(wk.sc.name)))
			break
		}
	}
	if rs.launches > len(rs.workers) {
		w.fail("", fmt.Sprintf("Run-returned-before-launched-updater-started run=%d launched=%d started=%d", rs.id, rs.launches, len(rs.workers)))
	}
	if !rs.drainedSeen || !rs.waitSeen {
		w.fail("", fmt.Sprintf("Run-returned-without-waiting run=%d", rs.id))
	}
	// every configured updater is run (unless the context was cancelled while launching)
	conf := w.sc.configured(rs.mgr)
	if !rs.cancelledPreWait {
		var missing []string
		for i := range conf {
			if w.byKey[[2]int{rs.id, i}] == nil {
				missing = append(missing, nameStr(w.sc.scripts[i].name))
			}
		}
		if len(missing) > 0 {
			sort.Strings(missing)
			w.fail("", fmt.Sprintf("configured-updaters-not-run run=%d missing=%s", rs.id, strings.Join(missing, ",")))
		}
	}
	// a failed updater is named in the returned error (and only failed ones are)
	var want []int
	for _, wk := range rs.workers {
		if wk.failed {
			want = append(want, wk.sc.name)
		}
	}
	sort.Ints(want)
	if csv(want) != csv(names) {
		w.fail("", fmt.Sprintf("returned-error-does-not-name-the-failed-updaters run=%d failed=%s named=%s", rs.id, csv(want), csv(names)))
	}
	if want := planStubs(w.sc, rs.mgr); want != rs.setStatus {
		w.fail("", fmt.Sprintf("stub-updater-set-status-calls run=%d want=%d got=%d", rs.id, want, rs.setStatus))
	}
	if rs.mgr.retention == 0 && rs.gcCalls > 0 {
		w.fail("", fmt.Sprintf("gc-ran-without-retention run=%d", rs.id))
	}
}

func planStubs(s *scenario, m mgrSpec) int {
	n := 0
	for _, fid := range m.facs() {
		f := s.facs[fid]
		if f.ok && len(f.members) == 1 && s.scripts[f.members[0]].name == 0 {
			n++
		}
	}
	return n
}

// checkWorkers is the per-updater half of the statement, evaluated on the
// calls the recording store received.
func (w *world) checkWorkers() {
	for _, rs := range w.runs {
		for _, wk := range rs.workers {
			sc := wk.sc
			who := fmt.Sprintf("run=%d updater=%s kind=%c", rs.id, nameStr(sc.name), sc.kind)
			if wk.lock != "acq" {
				if wk.inDrive || wk.fetched || len(wk.stores) > 0 || wk.statusCalls > 0 {
					w.fail("", "skipped-updater-was-driven "+who)
				}
				continue
			}
			if !wk.inDrive {
				if !rs.cancelled {
					w.fail("", "locked-updater-not-driven "+who)
				}
				continue
			}
			if len(wk.stores) > 1 {
				w.fail("", fmt.Sprintf("parse-result-stored-%d-times %s", len(wk.stores), who))
			}
			shouldStore := wk.fetched && wk.fetchRes == "ok" && wk.parsed && wk.parseOk
			if len(wk.stores) >= 1 && !shouldStore {
				w.fail("", fmt.Sprintf("stored-although-fetch/parse-did-not-succeed fetch=%s parsed=%v %s", wk.fetchRes, wk.parsed && wk.parseOk, who))
			}
			if len(wk.stores) == 0 && shouldStore {
				w.fail("", "changed-source-not-stored "+who)
			}
			if wk.fetched && wk.fetchRes == "ok" && !wk.parsed {
				w.fail("", "fetched-contents-not-parsed "+who)
			}
			if wk.parsed && wk.fetchRes != "ok" {
				w.fail("", fmt.Sprintf("parsed-after-fetch=%s %s", wk.fetchRes, who))
			}
			for _, c := range wk.stores {
				wantM := map[byte]byte{'p': 'v', 'd': 'd', 'e': 'e'}[sc.kind]
				ok := c.method == wantM && c.name == sc.name && c.fp == wk.newFP && csv(c.vulns) == csv(sc.vulns)
				if sc.kind == 'd' && csv(c.deleted) != csv(sc.deleted) {
					ok = false
				}
				if !ok {
					w.fail("", fmt.Sprintf("stored-call-differs-from-parse-result got=%c/%s/fp%d/%s/%s want=%c/%s/fp%d/%s/%s %s",
						c.method, nameStr(c.name), c.fp, csv(c.vulns), csv(c.deleted), wantM, nameStr(sc.name), wk.newFP, csv(sc.vulns), csv(sc.deleted), who))
				}
			}
			if wk.statusCalls != 1 {
				w.fail("", fmt.Sprintf("updater-status-recorded-%d-times %s", wk.statusCalls, who))
			} else if wk.statusFailed != wk.failed {
				w.fail("", fmt.Sprintf("updater-status-failure-flag=%v but-steps-failed=%v %s", wk.statusFailed, wk.failed, who))
			}
		}
	}
}

func runScenario(r *hx.Run, seed uint64, idx int, sc *scenario) bool {
	w := &world{r: r, sc: sc, idx: idx, seed: seed, lastName: map[int64]int{}, runOfGo: map[int64]int{}, worker: map[int64]*worker{},
		byKey: map[[2]int]*worker{}, driving: map[int]*worker{}, configured: map[int]int{}, flags: map[string]bool{}, silent: sc.silent}
	w.store = &store{w: w}
	for _, h := range sc.hist {
		k := driver.VulnerabilityKind
		if h.kind == 'e' {
			k = driver.EnrichmentKind
		}
		w.store.ops = append([]storedOp{{kind: k, name: nameStr(h.name), fp: fpStr(h.fp)}}, w.store.ops...)
	}
	if !sc.silent {
		r.Op("reset", "ok", false)
		for _, d := range sc.decls() {
			r.Op(d, "ok", false)
		}
	}
	old := runtime.GOMAXPROCS(sc.procs)
	defer runtime.GOMAXPROCS(old)
	verifhook.Install(w.hook)
	defer verifhook.Install(nil)

	ups := make([]driver.Updater, len(sc.scripts))
	for i, s := range sc.scripts {
		ups[i] = w.mkUpdater(s)
	}
	locks := &lockSrc{w: w, real: updates.NewLocalLockSource()}
	mgrs := make([]*updates.Manager, len(sc.mgrs))
	for mi, m := range sc.mgrs {
		facs := map[string]driver.UpdaterSetFactory{}
		for _, fid := range m.given {
			f := sc.facs[fid]
			facs[fmt.Sprintf("f%d", fid)] = driver.UpdaterSetFactoryFunc(func(context.Context) (driver.UpdaterSet, error) {
				if !f.ok {
					return driver.UpdaterSet{}, fmt.Errorf("scripted factory failure")
				}
				set := driver.NewUpdaterSet()
				for _, i := range f.members {
					if err := set.Add(ups[i]); err != nil {
						return set, err
					}
				}
				return set, nil
			})
		}
		opts := []updates.ManagerOption{updates.WithFactories(facs), updates.WithBatchSize(m.batch)}
		if m.enabled != nil {
			names := []string{}
			for _, e := range m.enabled {
				names = append(names, fmt.Sprintf("f%d", e))
			}
			opts = append(opts, updates.WithEnabled(names))
		}
		if m.oot >= 0 {
			var us []driver.Updater
			for _, i := range sc.facs[m.oot].members {
				us = append(us, ups[i])
			}
			opts = append(opts, updates.WithOutOfTree(us))
		}
		if m.retention != 0 {
			opts = append(opts, updates.WithGC(m.retention))
		}
		mgr, err := updates.NewManager(context.Background(), w.store, locks, http.DefaultClient, opts...)
		if err != nil {
			w.fail("", "NewManager: "+err.Error())
			return false
		}
		mgrs[mi] = mgr
	}
	for ri, spec := range sc.runs {
		w.runs = append(w.runs, &runState{id: ri, spec: spec, mgr: sc.mgrs[spec.mgr], gate: make(chan struct{}), hookCount: map[string]int{}, done: make(chan struct{})})
	}
	maxPhase := 0
	for _, spec := range sc.runs {
		if spec.phase > maxPhase {
			maxPhase = spec.phase
		}
	}
	hung := false
	var tmu sync.Mutex
	var timers []*time.Timer
	start := func(rs *runState) {
		ctx, cancel := context.WithCancel(context.WithValue(context.Background(), runKey{}, rs.id))
		w.mu.Lock()
		rs.cancel = cancel
		rs.started = true
		if rs.spec.plan.kind == "before" {
			w.cancelLocked(rs)
		}
		w.mu.Unlock()
		if rs.spec.plan.kind == "timer" {
			t := time.AfterFunc(time.Duration(rs.spec.plan.n)*time.Microsecond, func() {
				w.mu.Lock()
				w.cancelLocked(rs)
				w.mu.Unlock()
			})
			tmu.Lock()
			timers = append(timers, t)
			tmu.Unlock()
		}
		go func() {
			defer close(rs.done)
			w.mu.Lock()
			w.runOfGo[hx.GoID()] = rs.id
			w.mu.Unlock()
			var err error
			out := hx.Guard(func() string { err = mgrs[rs.spec.mgr].Run(ctx); return "" })
			w.mu.Lock()
			w.ret(rs, err, out == "panic")
			w.mu.Unlock()
		}()
	}
	// runs that begin while another run is inside store.GC (holding the GC lock)
	w.gcHook = func(run int) {
		for _, rs := range w.runs {
			w.mu.Lock()
			mine := rs.spec.startGC == run+1 && !rs.started
			w.mu.Unlock()
			if !mine {
				continue
			}
			start(rs)
			// keep collecting garbage until the new run's workers have been at the lock
			deadline := time.Now().Add(2 * time.Second)
			for time.Now().Before(deadline) {
				w.mu.Lock()
				n, fin := len(rs.workers), rs.returned
				w.mu.Unlock()
				if fin || n >= len(w.sc.configured(rs.mgr)) {
					break
				}
				time.Sleep(50 * time.Microsecond)
			}
		}
	}
	for ph := 0; ph <= maxPhase && !hung; ph++ {
		var cur []*runState
		for _, rs := range w.runs {
			if rs.spec.phase != ph {
				continue
			}
			cur = append(cur, rs)
			if rs.spec.startGC == 0 {
				start(rs)
			}
		}
		// first the runs started here, then the ones they started
		for pass := 0; pass < 2; pass++ {
			for _, rs := range cur {
				if (rs.spec.startGC != 0) != (pass == 1) {
					continue
				}
				w.mu.Lock()
				started := rs.started
				w.mu.Unlock()
				if !started {
					continue
				}
				select {
				case <-rs.done:
				case <-time.After(60 * time.Second):
					w.mu.Lock()
					w.fail("", fmt.Sprintf("Run-did-not-return-within-60s run=%d in-flight=%d", rs.id, rs.active))
					w.mu.Unlock()
					hung = true
				}
				rs.openGate()
			}
		}
	}
	tmu.Lock()
	for _, t := range timers {
		t.Stop()
	}
	tmu.Unlock()
	for _, rs := range w.runs {
		rs.openGate()
		w.mu.Lock()
		c := rs.cancel
		w.mu.Unlock()
		if c != nil {
			c()
		}
	}
	w.mu.Lock()
	if !hung {
		w.checkWorkers()
	}
	nontrivial := false
	for _, rs := range w.runs {
		for _, wk := range rs.workers {
			if wk.failed || wk.lock != "acq" || wk.fetchRes == "unch" {
				nontrivial = true
			}
		}
		if rs.cancelled {
			nontrivial = true
		}
	}
	w.mu.Unlock()
	r.Case(fmt.Sprintf("scenario %d/%d: %s", seed, idx, strings.Join(sc.decls(), ";")), nontrivial)
	return !hung
}

// ---- generator -------------------------------------------------------------------

func pickN(rnd *hx.Rand, n, lo, hi int) []int {
	out := make([]int, n)
	for i := range out {
		out[i] = lo + rnd.Intn(hi-lo+1)
	}
	return out
}

func genScenario(rnd *hx.Rand, r *hx.Run) *scenario {
	sc := &scenario{procs: 1 + rnd.Intn(16), yieldAll: rnd.Chance(1, 3)}
	var n int
	switch c := rnd.Intn(100); {
	case c < 8:
		n = rnd.Intn(2)
	case c < 60:
		n = 2 + rnd.Intn(7)
	case c < 90:
		n = 9 + rnd.Intn(22)
	default:
		n = 31 + rnd.Intn(70)
	}
	r.Count(fmt.Sprintf("size:updaters<=%d", bucket(n)))
	nfac := 1 + rnd.Intn(4)
	if n == 0 {
		nfac = rnd.Intn(2)
	}
	facOf := make([]int, n)
	sc.facs = make([]facSpec, nfac)
	for f := range sc.facs {
		sc.facs[f] = facSpec{id: f, ok: true}
	}
	retention := 0
	if rnd.Chance(1, 5) {
		retention = 2 + rnd.Intn(5)
	}
	dups := rnd.Chance(3, 10)
	usedIn := make([]map[int]bool, nfac)
	for f := range usedIn {
		usedIn[f] = map[int]bool{}
	}
	faulty := rnd.Chance(7, 10) // scenarios without any scripted failure are kept as well
	for i := 0; i < n; i++ {
		f := rnd.Intn(nfac)
		facOf[i] = f
		s := &script{inst: i, name: 2 + i, kind: "ppde"[rnd.Intn(4)], getOk: true, parseOk: true, storeOk: true}
		if dups && i > 0 && rnd.Chance(1, 3) {
			k := rnd.Intn(i)
			if nm := sc.scripts[k].name; !usedIn[f][nm] {
				s.name = nm
				r.Count("gen:duplicate-name")
			}
		}
		if rnd.Chance(1, 50) && !usedIn[f][1] {
			// an updater called "garbage-collection": with GC enabled the name collides with the
			// manager's own lock (finding gc-lock-name-collision)
			s.name = 1
		}
		usedIn[f][s.name] = true
		switch c := rnd.Intn(10); {
		case c < 6:
			s.cfg = 0
		case c < 9:
			s.cfg = 1
		default:
			s.cfg = 2
		}
		s.src = 1 + rnd.Intn(6)
		s.fmode = 0
		if faulty {
			switch c := rnd.Intn(100); {
			case c < 60:
			case c < 72:
				s.fmode = 1
			case c < 82:
				s.fmode = 2
			default:
				s.fmode = 3
			}
			s.getOk = !rnd.Chance(1, 20)
			s.parseOk = !rnd.Chance(1, 8)
			s.storeOk = !rnd.Chance(1, 8)
		} else if rnd.Chance(1, 4) {
			s.fmode = 3
		}
		s.ctxAware = rnd.Chance(1, 2)
		s.vulns = pickN(rnd, rnd.Intn(6), 1, 50)
		if s.kind == 'd' {
			s.deleted = pickN(rnd, rnd.Intn(4), 1, 50)
		}
		s.spin = rnd.Intn(4)
		sc.scripts = append(sc.scripts, s)
		sc.facs[f].members = append(sc.facs[f].members, i)
	}
	// special factories
	if rnd.Chance(1, 6) {
		// a factory that cannot be constructed: its members never run
		i := len(sc.scripts)
		sc.scripts = append(sc.scripts, &script{inst: i, name: 2 + i, kind: 'p', getOk: true, parseOk: true, storeOk: true, src: 1, fmode: 3})
		sc.facs = append(sc.facs, facSpec{id: len(sc.facs), ok: false, members: []int{i}})
		r.Count("gen:failing-factory")
	}
	if rnd.Chance(1, 6) {
		// the stub set: one updater called rhel-all
		i := len(sc.scripts)
		sc.scripts = append(sc.scripts, &script{inst: i, name: 0, kind: 'p', getOk: true, parseOk: true, storeOk: true, src: 1, fmode: 3})
		sc.facs = append(sc.facs, facSpec{id: len(sc.facs), ok: true, members: []int{i}})
		r.Count("gen:stub-set")
	} else if rnd.Chance(1, 10) {
		// rhel-all next to another updater is an ordinary updater
		i := len(sc.scripts)
		sc.scripts = append(sc.scripts, &script{inst: i, name: 0, kind: 'p', getOk: true, parseOk: true, storeOk: true, src: 2, fmode: 0, vulns: []int{7}},
			&script{inst: i + 1, name: 2 + i + 1, kind: 'd', getOk: true, parseOk: true, storeOk: true, src: 3, fmode: 0, vulns: []int{8}, deleted: []int{9}})
		sc.facs = append(sc.facs, facSpec{id: len(sc.facs), ok: true, members: []int{i, i + 1}})
		r.Count("gen:rhel-all-ordinary")
	}
	// prior history
	if rnd.Chance(3, 4) {
		for _, s := range sc.scripts {
			if !rnd.Chance(1, 2) {
				continue
			}
			for k := rnd.Intn(4); k > 0; k-- {
				kind := byte('v')
				if s.kind == 'e' {
					kind = 'e'
				}
				if rnd.Chance(1, 5) {
					kind = "ve"[rnd.Intn(2)]
				}
				fp := 1 + rnd.Intn(6)
				if rnd.Chance(1, 3) {
					fp = s.src
				}
				if rnd.Chance(1, 20) {
					fp = 0
				}
				sc.hist = append(sc.hist, histOp{kind: kind, name: s.name, fp: fp})
			}
		}
		// shuffle: history of different updaters is interleaved
		for i := len(sc.hist) - 1; i > 0; i-- {
			j := rnd.Intn(i + 1)
			sc.hist[i], sc.hist[j] = sc.hist[j], sc.hist[i]
		}
		if rnd.Chance(1, 4) {
			sc.hist = append(sc.hist, histOp{kind: 'v', name: 900 + rnd.Intn(5), fp: 1 + rnd.Intn(6)})
		}
	}
	r.Count(fmt.Sprintf("size:history<=%d", bucket(len(sc.hist))))
	// managers and runs
	var batch int
	switch c := rnd.Intn(10); {
	case c < 4:
		batch = 1 + rnd.Intn(2)
	case c < 8:
		batch = 3 + rnd.Intn(6)
	default:
		batch = 9 + rnd.Intn(24)
	}
	r.Count(fmt.Sprintf("size:batch<=%d", bucket(batch)))
	allFacs := make([]int, len(sc.facs))
	for i := range allFacs {
		allFacs[i] = i
	}
	m := mgrSpec{batch: batch, given: allFacs, oot: -1, retention: retention}
	if rnd.Chance(1, 6) && nfac > 0 {
		// one ordinary factory is handed over through WithOutOfTree instead of WithFactories
		m.oot = rnd.Intn(nfac)
		m.given = nil
		for _, f := range allFacs {
			if f != m.oot {
				m.given = append(m.given, f)
			}
		}
		r.Count("gen:out-of-tree")
	}
	if rnd.Chance(1, 6) {
		// WithEnabled: only a subset of the factories takes part
		m.enabled = []int{}
		for _, f := range m.given {
			if rnd.Chance(2, 3) {
				m.enabled = append(m.enabled, f)
			}
		}
		r.Count("gen:with-enabled")
	}
	sc.mgrs = []mgrSpec{m}
	mode := rnd.Intn(10)
	switch {
	case mode < 5:
		sc.runs = []runSpec{{mgr: 0, phase: 0}}
		r.Count("mode:single-run")
	case mode < 7:
		sc.runs = []runSpec{{mgr: 0, phase: 0}, {mgr: 0, phase: 1}}
		if rnd.Chance(1, 3) {
			sc.runs = append(sc.runs, runSpec{mgr: 0, phase: 2})
		}
		r.Count("mode:sequential-runs")
	case mode < 9:
		sc.runs = []runSpec{{mgr: 0, phase: 0}, {mgr: 0, phase: 0}}
		if rnd.Chance(1, 3) {
			sc.runs = append(sc.runs, runSpec{mgr: 0, phase: 0})
		}
		r.Count("mode:concurrent-runs-one-manager")
	default:
		// two managers (different batch sizes) sharing store and lock source
		m2 := m
		m2.batch = 1 + rnd.Intn(8)
		sc.mgrs = append(sc.mgrs, m2)
		sc.runs = []runSpec{{mgr: 0, phase: 0}, {mgr: 1, phase: 0}}
		if rnd.Chance(1, 2) {
			sc.runs = append(sc.runs, runSpec{mgr: 0, phase: 1})
		}
		r.Count("mode:concurrent-runs-two-managers")
	}
	for i := range sc.runs {
		sc.runs[i].gateD = time.Duration(rnd.Intn(1500)) * time.Microsecond
		if !rnd.Chance(35, 100) {
			continue
		}
		p := &sc.runs[i].plan
		switch c := rnd.Intn(10); {
		case c < 1:
			p.kind = "before"
		case c < 5:
			p.kind = "hook"
			p.site = []string{"acquire", "launch", "launch", "wait"}[rnd.Intn(4)]
			p.n = 1 + rnd.Intn(1+len(sc.scripts))
			if p.site == "wait" {
				p.n = 1
			}
		case c < 8:
			p.kind = "event"
			p.n = 1 + rnd.Intn(1+4*len(sc.scripts))
		default:
			p.kind = "timer"
			p.n = rnd.Intn(800)
		}
	}
	// gates: keep some workers in flight until the run loop has ended
	if rnd.Chance(3, 10) && len(sc.scripts) > 0 {
		minBatch := sc.mgrs[0].batch
		for _, mm := range sc.mgrs {
			if mm.batch < minBatch {
				minBatch = mm.batch
			}
		}
		k := minBatch - 1
		timerCancel := false
		for _, rs := range sc.runs {
			if rs.plan.kind == "timer" {
				timerCancel = true
			}
		}
		if timerCancel && rnd.Chance(1, 2) {
			k = minBatch // every slot is held: Run blocks in sem.Acquire until the cancellation
		}
		if k > 3 {
			k = 3
		}
		for ; k > 0; k-- {
			sc.scripts[rnd.Intn(len(sc.scripts))].gate = true
		}
		r.Count("gen:gated")
	}
	return sc
}

func bucket(n int) int {
	for _, b := range []int{0, 1, 2, 4, 8, 16, 32, 64, 128} {
		if n <= b {
			return b
		}
	}
	return 1 << 20
}

// ---- fixed scenarios run first on every run ------------------------------------

func ok(inst, name int, kind byte, src int, vulns ...int) *script {
	return &script{inst: inst, name: name, kind: kind, getOk: true, parseOk: true, storeOk: true, src: src, vulns: vulns}
}

func fixedScenarios() []*scenario {
	one := func(ss []*script, hist []histOp, batch int, runs []runSpec) *scenario {
		f := facSpec{id: 0, ok: true}
		for _, s := range ss {
			f.members = append(f.members, s.inst)
		}
		return &scenario{scripts: ss, facs: []facSpec{f}, hist: hist, mgrs: []mgrSpec{{batch: batch, given: []int{0}, oot: -1}}, runs: runs, procs: 4}
	}
	var out []*scenario
	// fingerprint round trip: the second run sees the fingerprint the first stored
	out = append(out, one([]*script{ok(0, 2, 'p', 3, 1, 2), ok(1, 3, 'd', 4, 5), ok(2, 4, 'e', 5, 6)},
		[]histOp{{'v', 2, 1}, {'e', 2, 3}, {'v', 4, 5}, {'v', 3, 4}}, 2, []runSpec{{phase: 0}, {phase: 1}}))
	// one of each failure next to a healthy updater
	f1, f2, f3, f4 := ok(1, 3, 'p', 2, 1), ok(2, 4, 'd', 2, 1), ok(3, 5, 'e', 2, 1), ok(4, 6, 'p', 2, 1)
	f1.fmode = 1
	f2.parseOk = false
	f3.storeOk = false
	f4.getOk = false
	out = append(out, one([]*script{ok(0, 2, 'p', 3, 1, 2), f1, f2, f3, f4}, nil, 1, []runSpec{{phase: 0}}))
	// two concurrent runs over the same updaters, workers held in flight
	g0, g1 := ok(0, 2, 'p', 3, 1), ok(1, 3, 'd', 4, 2)
	g0.gate, g1.gate = true, true
	g1.deleted = []int{9}
	out = append(out, one([]*script{g0, g1, ok(2, 4, 'e', 5, 3)}, nil, 3, []runSpec{{phase: 0, gateD: 300 * time.Microsecond}, {phase: 0, gateD: 300 * time.Microsecond}}))
	// cancellation right before the final wait while a worker is in flight
	h0 := ok(0, 2, 'p', 3, 1)
	h0.gate = true
	out = append(out, one([]*script{h0, ok(1, 3, 'p', 3, 1)}, nil, 2, []runSpec{{phase: 0, plan: cancelPlan{kind: "hook", site: "wait", n: 1}, gateD: 2 * time.Millisecond}}))
	// cancellation while Run is blocked in sem.Acquire
	k0 := ok(0, 2, 'p', 3, 1)
	k0.gate = true
	out = append(out, one([]*script{k0, ok(1, 3, 'p', 3, 1), ok(2, 4, 'p', 3, 1)}, nil, 1, []runSpec{{phase: 0, plan: cancelPlan{kind: "timer", n: 300}}}))
	// witness of finding gc-lock-name-collision:
	// run 1 starts while run 0 holds the "garbage-collection" lock inside store.GC; its
	// updater of that name finds the lock taken and is skipped although no updater of
	// that name is running.
	gc := ok(0, 1, 'p', 3, 1)
	gc.fmode = 3
	w := one([]*script{gc, ok(1, 3, 'p', 3, 1)}, nil, 2, []runSpec{{phase: 0}, {phase: 0, startGC: 1}})
	w.mgrs[0].retention = 2
	out = append(out, w)
	return out
}

// Run is the harness entry point for C13.
func Run(cfg hx.Config) error {
	r, err := hx.NewRun(cfg)
	if err != nil {
		return err
	}
	zerolog.SetGlobalLevel(zerolog.Disabled)
	r.Rule = "scenarios = scripted updater sets (plain/delta/enrichment, configurable or not, duplicate names across factories, stub and failing factories) x prior store history x batch size x 1-3 runs (sequential or concurrent, one or two managers sharing store and lock source) x cancellation plan x schedule perturbation; every hook point, lock operation, store call and updater call of the real manager is one protocol line answered by the Lean machine; a scenario is non-trivial when it had a failing step, an unchanged source, a lock conflict or a cancellation"
	rnd := hx.NewRand(cfg.Seed)
	before := runtime.NumGoroutine()
	idx := 0
	corpus, names, err := loadCorpus(cfg.Corpus)
	if err != nil {
		return err
	}
	r.Notes["corpus"] = len(names)
	for _, sc := range append(corpus, fixedScenarios()...) {
		if !runScenario(r, cfg.Seed, idx, sc) {
			break
		}
		idx++
	}
	n := cfg.N(800, 40000)
	for i := 0; i < n && !r.Stop(); i++ {
		sc := genScenario(rnd, r)
		if !runScenario(r, cfg.Seed, idx, sc) {
			break
		}
		idx++
	}
	time.Sleep(20 * time.Millisecond)
	if after := runtime.NumGoroutine(); after > before+4 {
		time.Sleep(300 * time.Millisecond)
		if after = runtime.NumGoroutine(); after > before+4 {
			r.Fail("", fmt.Sprintf("goroutines-left-behind-by-Run before=%d after=%d", before, after))
		}
	}
	r.Notes["scenarios"] = idx
	r.Notes["store"] = "recording stub (go/internal/c13/stubs.go); Postgres is not exercised"
	r.Notes["lock_source"] = "real libvuln/updates.localLockSource behind a logging wrapper"
	return r.Close()
}
