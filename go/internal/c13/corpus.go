package c13

import (
	"fmt"
	"os"
	"path/filepath"
	"sort"
	"strconv"
	"strings"
	"time"
)

// The corpus format is the scenario itself, one directive per line: the
// declaration lines of the protocol (hist, upd, fac) and the harness-side
// settings the machine does not see (managers, run plans, gates, schedule
// hints). A failure witness is printed in this format, so it can be saved
// under corpus/C13/ and is then run first on every check.

func (s *scenario) dump() string {
	var out []string
	for _, h := range s.hist {
		out = append(out, fmt.Sprintf("hist %c %d %d", h.kind, h.name, h.fp))
	}
	for _, sc := range s.scripts {
		out = append(out, sc.decl())
		if sc.gate {
			out = append(out, fmt.Sprintf("gate %d", sc.inst))
		}
		if sc.spin != 0 {
			out = append(out, fmt.Sprintf("spin %d %d", sc.inst, sc.spin))
		}
	}
	for _, f := range s.facs {
		out = append(out, fmt.Sprintf("fac %d %s %s", f.id, b01(f.ok), csv(f.members)))
	}
	for i, m := range s.mgrs {
		en := "*"
		if m.enabled != nil {
			en = csv(m.enabled)
		}
		out = append(out, fmt.Sprintf("mgr %d %d %d %s %s %d", i, m.batch, m.retention, csv(m.given), en, m.oot))
	}
	for i, r := range s.runs {
		k, site := r.plan.kind, r.plan.site
		if k == "" {
			k = "-"
		}
		if site == "" {
			site = "-"
		}
		out = append(out, fmt.Sprintf("runspec %d %d %d %d %s %s %d %d", i, r.mgr, r.phase, r.startGC, k, site, r.plan.n, r.gateD/time.Microsecond))
	}
	out = append(out, fmt.Sprintf("procs %d", s.procs))
	if s.yieldAll {
		out = append(out, "yield")
	}
	if s.silent {
		out = append(out, "silent")
	}
	return strings.Join(out, "; ")
}

func parseCSV(s string) ([]int, error) {
	if s == "-" {
		return nil, nil
	}
	var out []int
	for _, p := range strings.Split(s, ",") {
		n, err := strconv.Atoi(p)
		if err != nil {
			return nil, err
		}
		out = append(out, n)
	}
	return out, nil
}

// parseScenario reads the dump format (lines separated by newlines or "; ").
func parseScenario(text string) (*scenario, error) {
	sc := &scenario{procs: 4}
	text = strings.ReplaceAll(text, ";", "\n")
	for _, line := range strings.Split(text, "\n") {
		line = strings.TrimSpace(line)
		if line == "" || strings.HasPrefix(line, "#") {
			continue
		}
		f := strings.Fields(line)
		ints := make([]int, len(f))
		for i, x := range f {
			ints[i], _ = strconv.Atoi(x)
		}
		bad := fmt.Errorf("bad corpus line %q", line)
		switch f[0] {
		case "hist":
			if len(f) != 4 {
				return nil, bad
			}
			sc.hist = append(sc.hist, histOp{kind: f[1][0], name: ints[2], fp: ints[3]})
		case "upd":
			if len(f) != 13 || ints[1] != len(sc.scripts) {
				return nil, bad
			}
			vs, e1 := parseCSV(f[9])
			ds, e2 := parseCSV(f[10])
			if e1 != nil || e2 != nil {
				return nil, bad
			}
			sc.scripts = append(sc.scripts, &script{inst: ints[1], name: ints[2], kind: f[3][0], cfg: ints[4], getOk: f[5] == "1",
				fmode: ints[6], src: ints[7], parseOk: f[8] == "1", vulns: vs, deleted: ds, storeOk: f[11] == "1", ctxAware: f[12] == "1"})
		case "gate":
			if len(f) != 2 || ints[1] >= len(sc.scripts) {
				return nil, bad
			}
			sc.scripts[ints[1]].gate = true
		case "spin":
			if len(f) != 3 || ints[1] >= len(sc.scripts) {
				return nil, bad
			}
			sc.scripts[ints[1]].spin = ints[2]
		case "fac":
			if len(f) != 4 || ints[1] != len(sc.facs) {
				return nil, bad
			}
			ms, err := parseCSV(f[3])
			if err != nil {
				return nil, bad
			}
			sc.facs = append(sc.facs, facSpec{id: ints[1], ok: f[2] == "1", members: ms})
		case "mgr":
			if len(f) != 7 || ints[1] != len(sc.mgrs) {
				return nil, bad
			}
			given, err := parseCSV(f[4])
			if err != nil {
				return nil, bad
			}
			m := mgrSpec{batch: ints[2], retention: ints[3], given: given, oot: ints[6]}
			if f[5] != "*" {
				en, err := parseCSV(f[5])
				if err != nil {
					return nil, bad
				}
				m.enabled = append([]int{}, en...)
			}
			sc.mgrs = append(sc.mgrs, m)
		case "runspec":
			if len(f) != 9 || ints[1] != len(sc.runs) || ints[2] >= len(sc.mgrs) {
				return nil, bad
			}
			r := runSpec{mgr: ints[2], phase: ints[3], startGC: ints[4], gateD: time.Duration(ints[8]) * time.Microsecond}
			if f[5] != "-" {
				r.plan.kind = f[5]
			}
			if f[6] != "-" {
				r.plan.site = f[6]
			}
			r.plan.n = ints[7]
			sc.runs = append(sc.runs, r)
		case "procs":
			if len(f) != 2 || ints[1] < 1 {
				return nil, bad
			}
			sc.procs = ints[1]
		case "yield":
			sc.yieldAll = true
		case "silent":
			sc.silent = true
		case "run":
			// derived declaration line; ignored when present
		default:
			return nil, bad
		}
	}
	for _, f := range sc.facs {
		for _, i := range f.members {
			if i < 0 || i >= len(sc.scripts) {
				return nil, fmt.Errorf("factory %d names updater %d", f.id, i)
			}
		}
	}
	for _, m := range sc.mgrs {
		for _, f := range append(append([]int{}, m.given...), m.enabled...) {
			if f < 0 || f >= len(sc.facs) {
				return nil, fmt.Errorf("manager names factory %d", f)
			}
		}
		if m.oot >= len(sc.facs) {
			return nil, fmt.Errorf("manager names factory %d", m.oot)
		}
	}
	if len(sc.mgrs) == 0 || len(sc.runs) == 0 {
		return nil, fmt.Errorf("corpus scenario without manager or run")
	}
	return sc, nil
}

// loadCorpus reads corpus/C13/*.scn in name order.
func loadCorpus(dir string) ([]*scenario, []string, error) {
	if dir == "" {
		return nil, nil, nil
	}
	names, _ := filepath.Glob(filepath.Join(dir, "*.scn"))
	sort.Strings(names)
	var out []*scenario
	for _, n := range names {
		b, err := os.ReadFile(n)
		if err != nil {
			return nil, nil, err
		}
		sc, err := parseScenario(string(b))
		if err != nil {
			return nil, nil, fmt.Errorf("%s: %v", n, err)
		}
		out = append(out, sc)
	}
	return out, names, nil
}
