package c13

import (
	"fmt"
	"os"
	"path/filepath"
	"sort"
	"strconv"
	"strings"
	"time"
)

// The corpus format is the scenario itself, one directive per line: the
// declaration lines of the protocol (hist, upd) and the harness-side settings
// (factories, set and registry operations, managers with their options in
// order, run plans, gates, schedule hints). A failure witness is printed in
// this format, so it can be saved under corpus/C13/ and is then run first on
// every check.

func (s *scenario) dump() string {
	var out []string
	for _, h := range s.hist {
		out = append(out, fmt.Sprintf("hist %c %d %d", h.kind, h.name, h.fp))
	}
	for _, sc := range s.scripts {
		out = append(out, sc.decl())
		if sc.gate {
			out = append(out, fmt.Sprintf("gate %d", sc.inst))
		}
		if sc.spin != 0 {
			out = append(out, fmt.Sprintf("spin %d %d", sc.inst, sc.spin))
		}
	}
	for _, u := range s.usetOps {
		switch u.op {
		case "filter":
			out = append(out, fmt.Sprintf("usetop %d filter %s", u.set, u.pat))
		case "list":
			out = append(out, fmt.Sprintf("usetop %d list -", u.set))
		default:
			out = append(out, fmt.Sprintf("usetop %d %s %d", u.set, u.op, u.arg))
		}
	}
	for _, f := range s.facs {
		out = append(out, fmt.Sprintf("factory %d %s %s %d %d", f.id, b01(f.ok), csv(f.members), f.fcfg, f.uset))
	}
	for _, o := range s.regOps {
		out = append(out, fmt.Sprintf("regop %s %d %d", o.op, o.name, o.fac))
	}
	var bound []int
	for n := range s.regBind {
		bound = append(bound, n)
	}
	sort.Ints(bound)
	for _, n := range bound {
		out = append(out, fmt.Sprintf("regbind %d %d", n, s.regBind[n]))
	}
	for i, m := range s.mgrs {
		out = append(out, strings.TrimRight(fmt.Sprintf("mgr %d %s %s", i, b01(!m.clientNil), m.tokens()), " "))
	}
	for i, r := range s.runs {
		k, site := r.plan.kind, r.plan.site
		if k == "" {
			k = "-"
		}
		if site == "" {
			site = "-"
		}
		out = append(out, fmt.Sprintf("runspec %d %d %d %d %s %s %d %d %s %d", i, r.mgr, r.phase, r.startGC, k, site, r.plan.n, r.gateD/time.Microsecond, b01(r.start), r.plan.run))
	}
	out = append(out, fmt.Sprintf("procs %d", s.procs))
	if s.yieldAll {
		out = append(out, "yield")
	}
	if s.silent {
		out = append(out, "silent")
	}
	if s.setFail {
		out = append(out, "setfail")
	}
	if s.gcFail {
		out = append(out, "gcfail")
	}
	if s.meet {
		out = append(out, "meet")
	}
	if s.burst {
		out = append(out, "burst")
	}
	return strings.Join(out, "; ")
}

func parseCSV(s string) ([]int, error) {
	if s == "-" {
		return nil, nil
	}
	var out []int
	for _, p := range strings.Split(s, ",") {
		n, err := strconv.Atoi(p)
		if err != nil {
			return nil, err
		}
		out = append(out, n)
	}
	return out, nil
}

// parseScenario reads the dump format (lines separated by newlines or "; ").
func parseScenario(text string) (*scenario, error) {
	sc := &scenario{procs: 4, regBind: map[int]int{}}
	var lines []string
	for _, l := range strings.Split(text, "\n") {
		if strings.HasPrefix(strings.TrimSpace(l), "#") {
			continue
		}
		lines = append(lines, strings.Split(l, ";")...)
	}
	for _, line := range lines {
		line = strings.TrimSpace(line)
		if line == "" {
			continue
		}
		f := strings.Fields(line)
		ints := make([]int, len(f))
		for i, x := range f {
			ints[i], _ = strconv.Atoi(x)
		}
		bad := fmt.Errorf("bad corpus line %q", line)
		switch f[0] {
		case "hist":
			if len(f) != 4 {
				return nil, bad
			}
			sc.hist = append(sc.hist, histOp{kind: f[1][0], name: ints[2], fp: ints[3]})
		case "upd":
			if (len(f) != 13 && len(f) != 14) || ints[1] != len(sc.scripts) {
				return nil, bad
			}
			vs, e1 := parseCSV(f[9])
			ds, e2 := parseCSV(f[10])
			if e1 != nil || e2 != nil {
				return nil, bad
			}
			s := &script{inst: ints[1], name: ints[2], kind: f[3][0], cfg: ints[4], getOk: f[5] == "1",
				fmode: ints[6], src: ints[7], parseOk: f[8] == "1", vulns: vs, deleted: ds, storeOk: f[11] == "1", ctxAware: f[12] == "1"}
			if len(f) == 14 {
				s.cmode = ints[13]
			}
			sc.scripts = append(sc.scripts, s)
		case "gate":
			if len(f) != 2 || ints[1] >= len(sc.scripts) {
				return nil, bad
			}
			sc.scripts[ints[1]].gate = true
		case "spin":
			if len(f) != 3 || ints[1] >= len(sc.scripts) {
				return nil, bad
			}
			sc.scripts[ints[1]].spin = ints[2]
		case "usetop":
			if len(f) != 4 {
				return nil, bad
			}
			u := usetOp{set: ints[1], op: f[2]}
			switch f[2] {
			case "add", "merge":
				u.arg = ints[3]
			case "filter":
				u.pat = f[3]
			case "list":
			default:
				return nil, bad
			}
			sc.usetOps = append(sc.usetOps, u)
		case "factory":
			if len(f) != 6 || ints[1] != len(sc.facs) {
				return nil, bad
			}
			ms, err := parseCSV(f[3])
			if err != nil {
				return nil, bad
			}
			sc.facs = append(sc.facs, facSpec{id: ints[1], ok: f[2] == "1", members: ms, fcfg: ints[4], uset: ints[5]})
		case "regop":
			if len(f) != 4 || (f[1] != "register" && f[1] != "registered") {
				return nil, bad
			}
			sc.regOps = append(sc.regOps, regOp{op: f[1], name: ints[2], fac: ints[3]})
		case "regbind":
			if len(f) != 3 {
				return nil, bad
			}
			sc.regBind[ints[1]] = ints[2]
		case "mgr":
			if len(f) < 3 || ints[1] != len(sc.mgrs) {
				return nil, bad
			}
			m := mgrSpec{clientNil: f[2] == "0"}
			for _, tok := range f[3:] {
				o, err := parseOptToken(tok)
				if err != nil {
					return nil, err
				}
				m.opts = append(m.opts, o)
			}
			sc.mgrs = append(sc.mgrs, m)
		case "runspec":
			if (len(f) != 9 && len(f) != 11) || ints[1] != len(sc.runs) || ints[2] >= len(sc.mgrs) {
				return nil, bad
			}
			r := runSpec{mgr: ints[2], phase: ints[3], startGC: ints[4], gateD: time.Duration(ints[8]) * time.Microsecond}
			if f[5] != "-" {
				r.plan.kind = f[5]
			}
			if f[6] != "-" {
				r.plan.site = f[6]
			}
			r.plan.n = ints[7]
			if len(f) == 11 {
				r.start = f[9] == "1"
				r.plan.run = ints[10]
			}
			sc.runs = append(sc.runs, r)
		case "procs":
			if len(f) != 2 || ints[1] < 1 {
				return nil, bad
			}
			sc.procs = ints[1]
		case "yield":
			sc.yieldAll = true
		case "silent":
			sc.silent = true
		case "setfail":
			sc.setFail = true
		case "gcfail":
			sc.gcFail = true
		case "meet":
			sc.meet = true
		case "burst":
			sc.burst = true
		default:
			return nil, bad
		}
	}
	for _, f := range sc.facs {
		for _, i := range f.members {
			if i < 0 || i >= len(sc.scripts) {
				return nil, fmt.Errorf("factory %d names updater %d", f.id, i)
			}
		}
	}
	for _, u := range sc.usetOps {
		if u.op == "add" && (u.arg < 0 || u.arg >= len(sc.scripts)) {
			return nil, fmt.Errorf("set operation names updater %d", u.arg)
		}
	}
	for n, f := range sc.regBind {
		if f < 0 || f >= len(sc.facs) {
			return nil, fmt.Errorf("registry name %d bound to factory %d", n, f)
		}
	}
	for _, m := range sc.mgrs {
		for _, o := range m.opts {
			for _, p := range o.pairs {
				if p[1] < 0 || p[1] >= len(sc.facs) {
					return nil, fmt.Errorf("manager names factory %d", p[1])
				}
			}
			if o.kind == "oot" {
				for _, i := range o.list {
					if i < 0 || i >= len(sc.scripts) {
						return nil, fmt.Errorf("manager names updater %d", i)
					}
				}
			}
		}
	}
	if len(sc.mgrs) == 0 || len(sc.runs) == 0 {
		return nil, fmt.Errorf("corpus scenario without manager or run")
	}
	return sc, nil
}

// loadCorpus reads corpus/C13/*.scn in name order.
func loadCorpus(dir string) ([]*scenario, []string, error) {
	if dir == "" {
		return nil, nil, nil
	}
	names, _ := filepath.Glob(filepath.Join(dir, "*.scn"))
	sort.Strings(names)
	var out []*scenario
	for _, n := range names {
		b, err := os.ReadFile(n)
		if err != nil {
			return nil, nil, err
		}
		sc, err := parseScenario(string(b))
		if err != nil {
			return nil, nil, fmt.Errorf("%s: %v", n, err)
		}
		out = append(out, sc)
	}
	return out, names, nil
}
