package c13

import (
	"fmt"
	"runtime"
	"time"

	"github.com/rs/zerolog"

	"github.com/quay/claircore/verifharness/internal/hx"
)

// ---- generator -------------------------------------------------------------------

func pickN(rnd *hx.Rand, n, lo, hi int) []int {
	out := make([]int, n)
	for i := range out {
		out[i] = lo + rnd.Intn(hi-lo+1)
	}
	return out
}

func newScript(inst, name int, kind byte) *script {
	return &script{inst: inst, name: name, kind: kind, getOk: true, parseOk: true, storeOk: true, src: 1, fmode: 3}
}

// genSets appends a few UpdaterSet operations over fresh updaters and returns
// the members of set 0 afterwards (by the map semantics of the type).
func genSets(rnd *hx.Rand, r *hx.Run, sc *scenario) []int {
	base := len(sc.scripts)
	n := 3 + rnd.Intn(6)
	for k := 0; k < n; k++ {
		i := base + k
		s := newScript(i, 2+i, "ppde"[rnd.Intn(4)])
		if k > 0 && rnd.Chance(1, 3) {
			s.name = sc.scripts[base+rnd.Intn(k)].name // a second updater of the same name
		}
		s.src = 1 + rnd.Intn(6)
		s.fmode = 0
		s.vulns = pickN(rnd, rnd.Intn(4), 1, 50)
		if s.kind == 'd' {
			s.deleted = pickN(rnd, rnd.Intn(3), 1, 50)
		}
		sc.scripts = append(sc.scripts, s)
	}
	nsets := 1 + rnd.Intn(3)
	sets := make([]map[int]int, nsets) // name -> instance
	for k := range sets {
		sets[k] = map[int]int{}
	}
	nops := 3 + rnd.Intn(10)
	for k := 0; k < nops; k++ {
		set := rnd.Intn(nsets)
		switch c := rnd.Intn(10); {
		case c < 5:
			i := base + rnd.Intn(n)
			sc.usetOps = append(sc.usetOps, usetOp{set: set, op: "add", arg: i})
			if _, ok := sets[set][sc.scripts[i].name]; !ok {
				sets[set][sc.scripts[i].name] = i
			}
		case c < 7 && nsets > 1:
			other := rnd.Intn(nsets)
			if other == set {
				other = (set + 1) % nsets
			}
			sc.usetOps = append(sc.usetOps, usetOp{set: set, op: "merge", arg: other})
			clash := false
			for nm := range sets[other] {
				if _, ok := sets[set][nm]; ok {
					clash = true
				}
			}
			if !clash {
				for nm, i := range sets[other] {
					sets[set][nm] = i
				}
			}
		case c < 9:
			var pat string
			i := base + rnd.Intn(n)
			nm := fmt.Sprint(sc.scripts[i].name)
			switch rnd.Intn(7) {
			case 0:
				pat = "any"
			case 1:
				pat = "none"
			case 2:
				pat = "bad"
			case 3:
				pat = "exact:" + nm
			case 4:
				pat = "prefix:" + nm[:1]
			case 5:
				pat = "suffix:" + nm[len(nm)-1:]
			default:
				pat = "prefix:" + nm
			}
			sc.usetOps = append(sc.usetOps, usetOp{set: set, op: "filter", pat: pat})
			if pat != "bad" {
				for name := range sets[set] {
					if !patMatches(pat, name) {
						delete(sets[set], name)
					}
				}
			}
		default:
			sc.usetOps = append(sc.usetOps, usetOp{set: set, op: "list"})
		}
	}
	for k := 0; k < nsets; k++ {
		sc.usetOps = append(sc.usetOps, usetOp{set: k, op: "list"})
	}
	var mem []int
	for _, i := range sets[0] {
		mem = append(mem, i)
	}
	sortInts(mem)
	r.Count("gen:updater-sets")
	return mem
}

// patMatches is what the regular expression of a filter pattern answers for
// the updater name number n (the generator's own reading, used to predict the
// members of a static set).
func patMatches(pat string, n int) bool {
	s := nameStr(n)
	switch {
	case pat == "any":
		return true
	case pat == "none":
		return false
	case len(pat) > 6 && pat[:6] == "exact:":
		return s == "u"+pat[6:]
	case len(pat) > 7 && pat[:7] == "prefix:":
		p := "u" + pat[7:]
		return len(s) >= len(p) && s[:len(p)] == p
	case len(pat) > 7 && pat[:7] == "suffix:":
		p := pat[7:]
		return len(s) >= len(p) && s[len(s)-len(p):] == p
	}
	return false
}

func sortInts(xs []int) {
	for i := 1; i < len(xs); i++ {
		for j := i; j > 0 && xs[j] < xs[j-1]; j-- {
			xs[j], xs[j-1] = xs[j-1], xs[j]
		}
	}
}

// genBurst: one free-running run in which many updaters (32-64, batch size >=
// their number, GOMAXPROCS > 1, no cancellation, no gates) are in flight at
// once, start Fetch at the same instant and - most of them failing at fetch,
// parse, store or GetUpdateOperations - hand their result back to Run at the
// same instant. Whatever the workers share with Run (error collection,
// semaphore, lock source, status records) is hit by all of them together.
func genBurst(rnd *hx.Rand, r *hx.Run) *scenario {
	sc := &scenario{procs: 4 + rnd.Intn(13), burst: true, regBind: map[int]int{}}
	n := 32 + rnd.Intn(33)
	f := facSpec{id: 0, ok: true, uset: -1}
	for i := 0; i < n; i++ {
		s := &script{inst: i, name: 2 + i, kind: "pppdddeeex"[rnd.Intn(10)], getOk: true, parseOk: true, storeOk: true, src: 1 + rnd.Intn(6), fmode: 3}
		switch c := rnd.Intn(20); {
		case c < 6:
			s.fmode = 1
		case c < 11:
			s.parseOk = false
		case c < 16:
			s.storeOk = false
		case c < 17:
			s.getOk = false
		case c < 18:
			s.fmode = 2
		}
		s.cmode = []int{0, 0, 1, 2}[rnd.Intn(4)]
		s.vulns = pickN(rnd, rnd.Intn(3), 1, 50)
		if s.kind == 'd' {
			s.deleted = pickN(rnd, rnd.Intn(2), 1, 50)
		}
		sc.scripts = append(sc.scripts, s)
		f.members = append(f.members, i)
	}
	sc.facs = []facSpec{f}
	sc.mgrs = []mgrSpec{{opts: []optSpec{fsOpt(0), {kind: "b", n: n + rnd.Intn(8)}}}}
	// twice: the failures repeat in the second run, the stored ones turn into unchanged sources
	sc.runs = []runSpec{{mgr: 0, phase: 0}, {mgr: 0, phase: 1}}
	r.Count("mode:burst")
	return sc
}

func genScenario(rnd *hx.Rand, r *hx.Run) *scenario {
	sc := &scenario{procs: 1 + rnd.Intn(16), yieldAll: rnd.Chance(1, 3), regBind: map[int]int{}}
	var n int
	switch c := rnd.Intn(100); {
	case c < 8:
		n = rnd.Intn(2)
	case c < 60:
		n = 2 + rnd.Intn(7)
	case c < 90:
		n = 9 + rnd.Intn(22)
	default:
		n = 31 + rnd.Intn(70)
	}
	r.Count(fmt.Sprintf("size:updaters<=%d", bucket(n)))
	nfac := 1 + rnd.Intn(4)
	if n == 0 {
		nfac = rnd.Intn(2)
	}
	facOf := make([]int, n)
	sc.facs = make([]facSpec, nfac)
	for f := range sc.facs {
		sc.facs[f] = facSpec{id: f, ok: true, uset: -1}
		switch c := rnd.Intn(10); {
		case c < 7:
		default:
			sc.facs[f].fcfg = 1
		}
	}
	retention := 0
	if rnd.Chance(1, 5) {
		retention = 2 + rnd.Intn(5)
		if rnd.Chance(1, 8) {
			retention = -1 - rnd.Intn(3)
		}
	}
	dups := rnd.Chance(3, 10)
	usedIn := make([]map[int]bool, nfac)
	for f := range usedIn {
		usedIn[f] = map[int]bool{}
	}
	faulty := rnd.Chance(7, 10) // scenarios without any scripted failure are kept as well
	for i := 0; i < n; i++ {
		f := rnd.Intn(nfac)
		facOf[i] = f
		s := &script{inst: i, name: 2 + i, kind: "pppdddeeex"[rnd.Intn(10)], getOk: true, parseOk: true, storeOk: true}
		if dups && i > 0 && rnd.Chance(1, 3) {
			k := rnd.Intn(i)
			if nm := sc.scripts[k].name; !usedIn[f][nm] {
				s.name = nm
				r.Count("gen:duplicate-name")
			}
		}
		if rnd.Chance(1, 50) && !usedIn[f][1] {
			// an updater called "garbage-collection": with GC enabled the name collides with the
			// manager's own lock (finding gc-lock-name-collision)
			s.name = 1
		}
		usedIn[f][s.name] = true
		switch c := rnd.Intn(10); {
		case c < 6:
			s.cfg = 0
		case c < 9:
			s.cfg = 1
		default:
			s.cfg = 2
		}
		s.src = 1 + rnd.Intn(6)
		s.fmode = 0
		if faulty {
			switch c := rnd.Intn(100); {
			case c < 60:
			case c < 72:
				s.fmode = 1
			case c < 82:
				s.fmode = 2
			default:
				s.fmode = 3
			}
			s.getOk = !rnd.Chance(1, 20)
			s.parseOk = !rnd.Chance(1, 8)
			s.storeOk = !rnd.Chance(1, 8)
		} else if rnd.Chance(1, 4) {
			s.fmode = 3
		}
		switch c := rnd.Intn(10); {
		case c < 6:
		case c < 9:
			s.cmode = 1 // a ReadCloser next to an error or Unchanged as well
		default:
			s.cmode = 2 // no ReadCloser at all
		}
		s.ctxAware = rnd.Chance(1, 2)
		s.vulns = pickN(rnd, rnd.Intn(6), 1, 50)
		if s.kind == 'd' {
			s.deleted = pickN(rnd, rnd.Intn(4), 1, 50)
		}
		s.spin = rnd.Intn(4)
		sc.scripts = append(sc.scripts, s)
		sc.facs[f].members = append(sc.facs[f].members, i)
	}
	// special factories
	if rnd.Chance(1, 6) {
		// a factory that cannot be constructed: its members never run
		i := len(sc.scripts)
		sc.scripts = append(sc.scripts, newScript(i, 2+i, 'p'))
		sc.facs = append(sc.facs, facSpec{id: len(sc.facs), ok: false, members: []int{i}, uset: -1})
		r.Count("gen:failing-factory")
	}
	if rnd.Chance(1, 6) {
		// the stub set: one updater called rhel-all
		i := len(sc.scripts)
		sc.scripts = append(sc.scripts, newScript(i, 0, 'p'))
		sc.facs = append(sc.facs, facSpec{id: len(sc.facs), ok: true, members: []int{i}, uset: -1})
		sc.setFail = rnd.Chance(1, 3)
		r.Count("gen:stub-set")
	} else if rnd.Chance(1, 10) {
		// rhel-all next to another updater is an ordinary updater
		i := len(sc.scripts)
		a, b := newScript(i, 0, 'p'), newScript(i+1, 2+i+1, 'd')
		a.src, a.fmode, a.vulns = 2, 0, []int{7}
		b.src, b.fmode, b.vulns, b.deleted = 3, 0, []int{8}, []int{9}
		sc.scripts = append(sc.scripts, a, b)
		sc.facs = append(sc.facs, facSpec{id: len(sc.facs), ok: true, members: []int{i, i + 1}, uset: -1})
		r.Count("gen:rhel-all-ordinary")
	}
	if rnd.Chance(1, 6) {
		// a factory that is StaticSet(<an UpdaterSet built by Add / Merge / RegexFilter>)
		mem := genSets(rnd, r, sc)
		sc.facs = append(sc.facs, facSpec{id: len(sc.facs), ok: true, members: mem, uset: 0})
	}
	// prior history
	if rnd.Chance(3, 4) {
		for _, s := range sc.scripts {
			if !rnd.Chance(1, 2) {
				continue
			}
			for k := rnd.Intn(4); k > 0; k-- {
				kind := byte('v')
				if s.isEnrich() {
					kind = 'e'
				}
				if rnd.Chance(1, 5) {
					kind = "ve"[rnd.Intn(2)]
				}
				fp := 1 + rnd.Intn(6)
				if rnd.Chance(1, 3) {
					fp = s.src
				}
				if rnd.Chance(1, 20) {
					fp = 0
				}
				sc.hist = append(sc.hist, histOp{kind: kind, name: s.name, fp: fp})
			}
		}
		// shuffle: history of different updaters is interleaved
		for i := len(sc.hist) - 1; i > 0; i-- {
			j := rnd.Intn(i + 1)
			sc.hist[i], sc.hist[j] = sc.hist[j], sc.hist[i]
		}
		if rnd.Chance(1, 4) {
			sc.hist = append(sc.hist, histOp{kind: 'v', name: 900 + rnd.Intn(5), fp: 1 + rnd.Intn(6)})
		}
	}
	r.Count(fmt.Sprintf("size:history<=%d", bucket(len(sc.hist))))
	// managers and runs
	var batch int
	switch c := rnd.Intn(10); {
	case c < 4:
		batch = 1 + rnd.Intn(2)
	case c < 8:
		batch = 3 + rnd.Intn(6)
	default:
		batch = 9 + rnd.Intn(24)
	}
	r.Count(fmt.Sprintf("size:batch<=%d", bucket(batch)))
	if batch >= 2 && sc.procs >= 2 && rnd.Chance(1, 3) {
		// workers hand their results back to Run in pairs, at the same moment
		sc.meet = true
		r.Count("gen:leave-in-pairs")
	}

	// which factories the manager is given, and how
	oot := -1
	var given []int
	for f := range sc.facs {
		given = append(given, f)
	}
	if rnd.Chance(1, 6) && nfac > 0 {
		// the members of one ordinary factory are handed over through WithOutOfTree instead
		oot = rnd.Intn(nfac)
		given = nil
		for f := range sc.facs {
			if f != oot {
				given = append(given, f)
			}
		}
		r.Count("gen:out-of-tree")
	}
	var m mgrSpec
	useRegistry := rnd.Chance(1, 10)
	switch {
	case useRegistry:
		// no WithFactories: the manager starts from updater.Registered()
		names := registeredNames()
		fresh := -1
		if len(names) < 6 && rnd.Chance(1, 2) {
			fresh = 1001 + len(names)
			names = append(names, fresh)
		}
		for k, nm := range names {
			if k < len(given) {
				sc.regBind[nm] = given[k]
			}
		}
		if fresh >= 0 {
			sc.regOps = append(sc.regOps, regOp{op: "register", name: fresh, fac: -1})
		}
		if len(names) > 0 && rnd.Chance(1, 3) {
			// a name used twice: Register panics
			sc.regOps = append(sc.regOps, regOp{op: "register", name: names[rnd.Intn(len(names))], fac: -1})
		}
		sc.regOps = append(sc.regOps, regOp{op: "registered"})
		r.Count("gen:registry")
	case rnd.Chance(1, 40):
		m.opts = append(m.opts, optSpec{kind: "fs", isNil: true})
		r.Count("gen:nil-factory-map")
	default:
		o := optSpec{kind: "fs"}
		for _, f := range given {
			o.pairs = append(o.pairs, [2]int{genFacName(f), f})
		}
		m.opts = append(m.opts, o)
	}
	m.opts = append(m.opts, optSpec{kind: "b", n: batch})
	var rest []optSpec
	if rnd.Chance(1, 6) {
		// WithEnabled: only a subset of the factories takes part
		o := optSpec{kind: "en", list: []int{}}
		switch rnd.Intn(8) {
		case 0:
			o.isNil = true
			o.list = nil
		default:
			for _, f := range given {
				if rnd.Chance(2, 3) {
					nm := genFacName(f)
					if useRegistry {
						nm = 1001 + rnd.Intn(6)
					}
					o.list = append(o.list, nm)
				}
			}
			if rnd.Chance(1, 3) {
				o.list = append(o.list, 0) // "outOfTree" itself
			}
			if rnd.Chance(1, 4) {
				o.list = append(o.list, 77) // a name no factory has
			}
		}
		rest = append(rest, o)
		r.Count("gen:with-enabled")
	}
	if oot >= 0 {
		o := optSpec{kind: "oot", list: append([]int{}, sc.facs[oot].members...)}
		if len(o.list) > 0 && rnd.Chance(1, 2) {
			// a second out-of-tree updater with a name already used, anywhere after the first:
			// WithOutOfTree ignores it and goes on with the rest of the list
			i := len(sc.scripts)
			k := rnd.Intn(len(o.list))
			d := newScript(i, sc.scripts[o.list[k]].name, 'p')
			sc.scripts = append(sc.scripts, d)
			at := k + 1 + rnd.Intn(len(o.list)-k)
			o.list = append(o.list[:at], append([]int{i}, o.list[at:]...)...)
			r.Count("gen:out-of-tree-duplicate")
		}
		rest = append(rest, o)
	} else if rnd.Chance(1, 12) {
		rest = append(rest, optSpec{kind: "oot"}) // WithOutOfTree(nil): an empty "outOfTree" set
	}
	if rnd.Chance(1, 3) {
		o := optSpec{kind: "cf"}
		for _, s := range sc.scripts {
			if rnd.Chance(1, 2) {
				o.cfgs = append(o.cfgs, cfgEnt{name: s.name, id: 1 + rnd.Intn(9)})
			}
		}
		for f := range sc.facs {
			if rnd.Chance(1, 2) {
				o.cfgs = append(o.cfgs, cfgEnt{fac: true, name: genFacName(f), id: 1 + rnd.Intn(9)})
			}
		}
		// the Go map keeps one entry per key
		seen := map[[2]int]bool{}
		var uniq []cfgEnt
		for _, c := range o.cfgs {
			k := [2]int{0, c.name}
			if c.fac {
				k[0] = 1
			}
			if !seen[k] {
				seen[k] = true
				uniq = append(uniq, c)
			}
		}
		o.cfgs = uniq
		rest = append(rest, o)
		r.Count("gen:with-configs")
	}
	if retention != 0 {
		rest = append(rest, optSpec{kind: "gc", n: retention})
		sc.gcFail = rnd.Chance(1, 6)
	}
	// Manager.Start instead of Manager.Run
	useStart := rnd.Chance(1, 8)
	startInterval := -1
	if useStart {
		switch c := rnd.Intn(10); {
		case c < 6:
			startInterval = 100 + rnd.Intn(700)
		case c < 8:
			// the default interval (6h): only the initial run happens
		case c < 9:
			startInterval = 0
		default:
			startInterval = 3600 * 1000000
		}
		if startInterval >= 0 {
			rest = append(rest, optSpec{kind: "i", n: startInterval})
		}
	} else if rnd.Chance(1, 20) {
		rest = append(rest, optSpec{kind: "i", n: rnd.Intn(3) * 1000})
	}
	// the options come in any order
	for i := len(rest) - 1; i > 0; i-- {
		j := rnd.Intn(i + 1)
		rest[i], rest[j] = rest[j], rest[i]
	}
	m.opts = append(m.opts, rest...)
	// rare refusals of NewManager
	switch rnd.Intn(120) {
	case 0:
		m.opts = append(m.opts, optSpec{kind: "gc", n: 1})
		r.Count("gen:retention-1")
	case 1:
		m.clientNil = true
		r.Count("gen:nil-client")
	case 2:
		if len(given) > 0 && !useRegistry {
			sc.facs[given[rnd.Intn(len(given))]].fcfg = 2
			r.Count("gen:factory-configure-fails")
		}
	}
	sc.mgrs = []mgrSpec{m}
	mode := rnd.Intn(10)
	switch {
	case useStart:
		p := cancelPlan{kind: "ran", run: rnd.Intn(3)}
		switch c := rnd.Intn(10); {
		case c < 1:
			p.kind = "before"
		case c < 5:
			p.kind = "hook"
			p.site = []string{"acquire", "launch", "wait"}[rnd.Intn(3)]
			p.n = 1 + rnd.Intn(1+len(sc.scripts)/2)
			if p.site == "wait" {
				p.n = 1
			}
		}
		if startInterval < 0 || startInterval > 100000 {
			p.run = 0
		}
		sc.runs = []runSpec{{mgr: 0, phase: 0, start: true, plan: p}}
		if rnd.Chance(1, 3) {
			// a plain run of the same manager at the same time
			sc.runs = append(sc.runs, runSpec{mgr: 0, phase: 0})
		}
		r.Count("mode:start-loop")
	case mode < 5:
		sc.runs = []runSpec{{mgr: 0, phase: 0}}
		r.Count("mode:single-run")
	case mode < 7:
		sc.runs = []runSpec{{mgr: 0, phase: 0}, {mgr: 0, phase: 1}}
		if rnd.Chance(1, 3) {
			sc.runs = append(sc.runs, runSpec{mgr: 0, phase: 2})
		}
		r.Count("mode:sequential-runs")
	case mode < 9:
		sc.runs = []runSpec{{mgr: 0, phase: 0}, {mgr: 0, phase: 0}}
		if rnd.Chance(1, 3) {
			sc.runs = append(sc.runs, runSpec{mgr: 0, phase: 0})
		}
		r.Count("mode:concurrent-runs-one-manager")
	default:
		// two managers (different batch sizes, the same factory map handed to both) sharing store and lock source
		m2 := mgrSpec{opts: append([]optSpec{}, m.opts...), clientNil: m.clientNil}
		for i := range m2.opts {
			if m2.opts[i].kind == "b" {
				m2.opts[i].n = 1 + rnd.Intn(8)
			}
		}
		sc.mgrs = append(sc.mgrs, m2)
		sc.runs = []runSpec{{mgr: 0, phase: 0}, {mgr: 1, phase: 0}}
		if rnd.Chance(1, 2) {
			sc.runs = append(sc.runs, runSpec{mgr: 0, phase: 1})
		}
		r.Count("mode:concurrent-runs-two-managers")
	}
	for i := range sc.runs {
		if sc.runs[i].start {
			continue
		}
		sc.runs[i].gateD = time.Duration(rnd.Intn(1500)) * time.Microsecond
		if !rnd.Chance(35, 100) {
			continue
		}
		p := &sc.runs[i].plan
		switch c := rnd.Intn(10); {
		case c < 1:
			p.kind = "before"
		case c < 5:
			p.kind = "hook"
			p.site = []string{"acquire", "launch", "launch", "wait"}[rnd.Intn(4)]
			p.n = 1 + rnd.Intn(1+len(sc.scripts))
			if p.site == "wait" {
				p.n = 1
			}
		case c < 8:
			p.kind = "event"
			p.n = 1 + rnd.Intn(1+4*len(sc.scripts))
		default:
			p.kind = "timer"
			p.n = rnd.Intn(800)
		}
	}
	// gates: keep some workers in flight until the run loop has ended
	if rnd.Chance(3, 10) && len(sc.scripts) > 0 && !useStart {
		minBatch := batch
		for _, mm := range sc.mgrs {
			for _, o := range mm.opts {
				if o.kind == "b" && o.n < minBatch {
					minBatch = o.n
				}
			}
		}
		k := minBatch - 1
		timerCancel := false
		for _, rs := range sc.runs {
			if rs.plan.kind == "timer" {
				timerCancel = true
			}
		}
		if timerCancel && rnd.Chance(1, 2) {
			k = minBatch // every slot is held: Run blocks in sem.Acquire until the cancellation
		}
		if k > 3 {
			k = 3
		}
		for ; k > 0; k-- {
			sc.scripts[rnd.Intn(len(sc.scripts))].gate = true
		}
		r.Count("gen:gated")
	}
	return sc
}

// genFacName: the name a generated scenario gives its f-th factory. Some names
// are prefixes of others ("f1", "f11", "f111"; "f2", "f21"): WithEnabled
// compares whole names.
func genFacName(f int) int {
	names := []int{1, 11, 2, 12, 111, 3, 21, 13}
	if f < len(names) {
		return names[f]
	}
	return 30 + f
}

func bucket(n int) int {
	for _, b := range []int{0, 1, 2, 4, 8, 16, 32, 64, 128} {
		if n <= b {
			return b
		}
	}
	return 1 << 20
}

// ---- fixed scenarios run first on every run ------------------------------------

func ok(inst, name int, kind byte, src int, vulns ...int) *script {
	return &script{inst: inst, name: name, kind: kind, getOk: true, parseOk: true, storeOk: true, src: src, vulns: vulns}
}

func fsOpt(facs ...int) optSpec {
	o := optSpec{kind: "fs"}
	for _, f := range facs {
		o.pairs = append(o.pairs, [2]int{f + 1, f})
	}
	return o
}

func fixedScenarios() []*scenario {
	one := func(ss []*script, hist []histOp, batch int, runs []runSpec, more ...optSpec) *scenario {
		f := facSpec{id: 0, ok: true, uset: -1}
		for _, s := range ss {
			f.members = append(f.members, s.inst)
		}
		opts := append([]optSpec{fsOpt(0), {kind: "b", n: batch}}, more...)
		return &scenario{scripts: ss, facs: []facSpec{f}, hist: hist, mgrs: []mgrSpec{{opts: opts}}, runs: runs, procs: 4}
	}
	var out []*scenario
	// fingerprint round trip: the second run sees the fingerprint the first stored
	out = append(out, one([]*script{ok(0, 2, 'p', 3, 1, 2), ok(1, 3, 'd', 4, 5), ok(2, 4, 'e', 5, 6), ok(3, 5, 'x', 6, 7)},
		[]histOp{{'v', 2, 1}, {'e', 2, 3}, {'v', 4, 5}, {'v', 3, 4}}, 2, []runSpec{{phase: 0}, {phase: 1}}))
	// one of each failure next to a healthy updater, for every kind of updater; the
	// fetch failures and the unchanged source hand back a ReadCloser all the same
	var ss []*script
	ss = append(ss, ok(0, 2, 'p', 3, 1, 2))
	for _, k := range []byte{'p', 'd', 'e', 'x'} {
		for f := 0; f < 5; f++ {
			i := len(ss)
			s := ok(i, 2+i, k, 2, 1)
			if k == 'd' {
				s.deleted = []int{4}
			}
			switch f {
			case 0:
				s.fmode, s.cmode = 1, 1
			case 1:
				s.parseOk = false
			case 2:
				s.storeOk = false
			case 3:
				s.getOk = false
			case 4:
				s.fmode, s.cmode = 2, 1
			}
			ss = append(ss, s)
		}
	}
	out = append(out, one(ss, nil, 1, []runSpec{{phase: 0}}))
	// two concurrent runs over the same updaters, workers held in flight
	g0, g1 := ok(0, 2, 'p', 3, 1), ok(1, 3, 'd', 4, 2)
	g0.gate, g1.gate = true, true
	g1.deleted = []int{9}
	out = append(out, one([]*script{g0, g1, ok(2, 4, 'e', 5, 3)}, nil, 3, []runSpec{{phase: 0, gateD: 300 * time.Microsecond}, {phase: 0, gateD: 300 * time.Microsecond}}))
	// cancellation right before the final wait while a worker is in flight
	h0 := ok(0, 2, 'p', 3, 1)
	h0.gate = true
	out = append(out, one([]*script{h0, ok(1, 3, 'p', 3, 1)}, nil, 2, []runSpec{{phase: 0, plan: cancelPlan{kind: "hook", site: "wait", n: 1}, gateD: 2 * time.Millisecond}}))
	// cancellation while Run is blocked in sem.Acquire
	k0 := ok(0, 2, 'p', 3, 1)
	k0.gate = true
	out = append(out, one([]*script{k0, ok(1, 3, 'p', 3, 1), ok(2, 4, 'p', 3, 1)}, nil, 1, []runSpec{{phase: 0, plan: cancelPlan{kind: "timer", n: 300}}}))
	// witness of finding gc-lock-name-collision:
	// run 1 starts while run 0 holds the "garbage-collection" lock inside store.GC; its
	// updater of that name finds the lock taken and is skipped although no updater of
	// that name is running.
	gc := ok(0, 1, 'p', 3, 1)
	gc.fmode = 3
	out = append(out, one([]*script{gc, ok(1, 3, 'p', 3, 1)}, nil, 2, []runSpec{{phase: 0}, {phase: 0, startGC: 1}}, optSpec{kind: "gc", n: 2}))
	// regression for /repo 96dfd93a: WithOutOfTree on a manager whose factory map is nil ...
	a0 := ok(0, 2, 'p', 3, 1)
	nilMap := &scenario{scripts: []*script{a0}, mgrs: []mgrSpec{{opts: []optSpec{{kind: "fs", isNil: true}, {kind: "b", n: 2}, {kind: "oot", list: []int{0}}}}},
		runs: []runSpec{{phase: 0}}, procs: 4}
	out = append(out, nilMap)
	// ... and on two managers that were handed the same factory map: each keeps its own out-of-tree updaters
	b0, b1, b2 := ok(0, 2, 'p', 3, 1), ok(1, 3, 'p', 3, 1), ok(2, 4, 'd', 3, 1)
	two := &scenario{scripts: []*script{b0, b1, b2}, facs: []facSpec{{id: 0, ok: true, members: []int{0}, uset: -1}},
		mgrs: []mgrSpec{
			{opts: []optSpec{fsOpt(0), {kind: "b", n: 2}, {kind: "oot", list: []int{1}}}},
			{opts: []optSpec{fsOpt(0), {kind: "b", n: 2}, {kind: "oot", list: []int{2}}}}},
		runs: []runSpec{{mgr: 0, phase: 0}, {mgr: 1, phase: 1}}, procs: 4}
	out = append(out, two)
	// witness of finding enabled-drops-out-of-tree: WithEnabled after WithOutOfTree removes the "outOfTree" factory again
	c0, c1 := ok(0, 2, 'p', 3, 1), ok(1, 3, 'p', 3, 1)
	drop := &scenario{scripts: []*script{c0, c1}, facs: []facSpec{{id: 0, ok: true, members: []int{0}, uset: -1}},
		mgrs: []mgrSpec{{opts: []optSpec{fsOpt(0), {kind: "b", n: 2}, {kind: "oot", list: []int{1}}, {kind: "en", list: []int{1}}}}},
		runs: []runSpec{{phase: 0}}, procs: 4}
	out = append(out, drop)
	// Manager.Start: the initial run happens without a tick (default interval), the loop ends with the context
	s0 := ok(0, 2, 'p', 3, 1)
	st1 := one([]*script{s0, ok(1, 3, 'e', 4, 2)}, nil, 2, []runSpec{{phase: 0, start: true, plan: cancelPlan{kind: "ran", run: 0}}})
	out = append(out, st1)
	// Manager.Start with a short interval: three runs, the second sees the first's fingerprint (Unchanged)
	st2 := one([]*script{ok(0, 2, 'p', 3, 1), ok(1, 3, 'd', 4, 2)}, nil, 2,
		[]runSpec{{phase: 0, start: true, plan: cancelPlan{kind: "ran", run: 2}}}, optSpec{kind: "i", n: 200})
	out = append(out, st2)
	// Manager.Start without an interval: an error, nothing runs
	st3 := one([]*script{ok(0, 2, 'p', 3, 1)}, nil, 2,
		[]runSpec{{phase: 0, start: true, plan: cancelPlan{kind: "ran", run: 0}}}, optSpec{kind: "i", n: 0})
	out = append(out, st3)
	// Manager.Start cancelled inside its second run while a worker is being launched
	st4 := one([]*script{ok(0, 2, 'p', 3, 1), ok(1, 3, 'p', 3, 1), ok(2, 4, 'p', 3, 1)}, nil, 1,
		[]runSpec{{phase: 0, start: true, plan: cancelPlan{kind: "hook", run: 1, site: "launch", n: 2}}}, optSpec{kind: "i", n: 150})
	out = append(out, st4)
	return out
}

// Run is the harness entry point for C13.
func Run(cfg hx.Config) error {
	r, err := hx.NewRun(cfg)
	if err != nil {
		return err
	}
	zerolog.SetGlobalLevel(zerolog.Disabled)
	r.Rule = "scenarios = scripted updater sets (plain/delta/enrichment/both, configurable or not, ReadCloser always/never/on success, duplicate names across factories, stub and failing factories, static sets built with UpdaterSet.Add/Merge/RegexFilter) x process-wide registry operations x NewManager options in any order (factories, enabled, configs, out-of-tree, GC, interval, batch) x prior store history x 1-3 runs or a Start loop (sequential or concurrent, one or two managers sharing store and lock source) x cancellation plan x schedule perturbation; every set-up operation, hook point, lock operation, store call, updater and factory call of the real code is one protocol line answered by the Lean model; a scenario is non-trivial when it had a failing step, an unchanged source, a lock conflict, a cancellation, set or registry operations or a Start loop"
	rnd := hx.NewRand(cfg.Seed)
	before := runtime.NumGoroutine()
	idx := 0
	corpus, names, err := loadCorpus(cfg.Corpus)
	if err != nil {
		return err
	}
	r.Notes["corpus"] = len(names)
	if !preflight(r) {
		// the scenarios would crash inside goroutines the manager starts
		return r.Close()
	}
	for _, sc := range append(corpus, fixedScenarios()...) {
		sc.bindRegistry(registeredNames())
		if !runScenario(r, cfg.Seed, idx, sc) {
			break
		}
		idx++
	}
	n := cfg.N(800, 40000)
	for i := 0; i < n && !r.Stop(); i++ {
		var sc *scenario
		if i%4 == 1 {
			sc = genBurst(rnd, r)
		} else {
			sc = genScenario(rnd, r)
		}
		sc.bindRegistry(registeredNames())
		if !runScenario(r, cfg.Seed, idx, sc) {
			break
		}
		idx++
	}
	time.Sleep(20 * time.Millisecond)
	if after := runtime.NumGoroutine(); after > before+4 {
		time.Sleep(300 * time.Millisecond)
		if after = runtime.NumGoroutine(); after > before+4 {
			r.Fail("", fmt.Sprintf("goroutines-left-behind-by-Run before=%d after=%d", before, after))
		}
	}
	r.Notes["scenarios"] = idx
	r.Notes["store"] = "recording stub (go/internal/c13/stubs.go); Postgres is not exercised"
	r.Notes["lock_source"] = "real libvuln/updates.localLockSource behind a logging wrapper"
	return r.Close()
}
