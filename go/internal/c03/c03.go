// Package c03 is the harness of property C03 ("a matcher reports a package
// exactly when its version is below the fix").
//
// Correspondence: the real third-party comparators and the real
// Matcher.Vulnerable functions are driven in-process on generated inputs;
// every call is one protocol line that the Lean model (lean/Driver/C03.lean)
// must answer identically.
//
// Direct oracle: chains of versions whose order is known by construction in
// the scheme's grammar (see gen_*.go) are pushed through every matcher; the
// statement "reported iff below the fix / within the range" is checked on the
// implementation's answers.
package c03

import (
	"context"
	"fmt"
	"net/url"
	"os"
	"path/filepath"
	"regexp"
	"sort"
	"strconv"
	"strings"
	"time"

	apkver "github.com/knqyf263/go-apk-version"
	debver "github.com/knqyf263/go-deb-version"
	rpmver "github.com/knqyf263/go-rpm-version"
	"github.com/quay/zlog"
	"github.com/rs/zerolog"

	"github.com/quay/claircore"
	"github.com/quay/claircore/alpine"
	"github.com/quay/claircore/aws"
	"github.com/quay/claircore/debian"
	"github.com/quay/claircore/java"
	"github.com/quay/claircore/libvuln/driver"
	"github.com/quay/claircore/oracle"
	"github.com/quay/claircore/photon"
	"github.com/quay/claircore/pkg/pep440"
	"github.com/quay/claircore/python"
	"github.com/quay/claircore/rhel"
	"github.com/quay/claircore/rhel/rhcc"
	"github.com/quay/claircore/ruby"
	"github.com/quay/claircore/suse"
	"github.com/quay/claircore/toolkit/types/cpe"
	"github.com/quay/claircore/ubuntu"
	"github.com/quay/claircore/verifharness/internal/hx"
)

func hexs(s string) string { return hx.Hex([]byte(s)) }

func sign(n int) string {
	switch {
	case n < 0:
		return "-1"
	case n > 0:
		return "1"
	}
	return "0"
}

// timed runs f with a deadline; a call that does not return is the
// observation "hang" (the goroutine is abandoned).
func timed(d time.Duration, f func() string) string {
	ch := make(chan string, 1)
	go func() { ch <- hx.Guard(f) }()
	select {
	case s := <-ch:
		return s
	case <-time.After(d):
		return "hang"
	}
}

// advisory is what a matcher reads of a claircore.Vulnerability.
type advisory struct {
	fixed, pkgVersion, pkgArch string
	op                         claircore.ArchOp
}

type pkg struct{ version, arch string }

// reOutcome is the part of ArchOp.Cmp the model does not contain: does the
// pattern compile and match (e | t | f).
func reOutcome(pattern, s string) string {
	re, err := regexp.Compile(pattern)
	if err != nil {
		return "e"
	}
	if re.MatchString(s) {
		return "t"
	}
	return "f"
}

// rhelCase is one (advisory repository, record repository) situation of the
// rhel matcher's CPE gate; the six gate bits are computed with the real cpe
// package and handed to the model (the CPE algebra is C19's subject).
type rhelCase struct {
	vulnRepo *claircore.Repository
	recRepo  *claircore.Repository
	bits     string
}

const rhelRepositoryKey = "rhel-cpe-repository"

func b2s(b bool) string {
	if b {
		return "1"
	}
	return "0"
}

func mkRhelCase(vulnNil, recNil bool, key, vulnName, recCPE string) rhelCase {
	c := rhelCase{}
	var rc cpe.WFN
	if recCPE != "" {
		rc, _ = cpe.Unbind(recCPE)
	}
	if !vulnNil {
		c.vulnRepo = &claircore.Repository{Name: vulnName, Key: key}
	}
	if !recNil {
		c.recRepo = &claircore.Repository{Name: recCPE, Key: rhelRepositoryKey, CPE: rc}
	}
	vc, err := cpe.Unbind(vulnName)
	unbindOK := err == nil
	superset, substring := false, false
	if unbindOK {
		superset = cpe.Compare(vc, rc).IsSuperset()
		substring = strings.HasPrefix(rc.String(), strings.TrimRight(vc.String(), ":*"))
	}
	c.bits = b2s(vulnNil) + b2s(recNil) + b2s(key == rhelRepositoryKey) + b2s(unbindOK) + b2s(superset) + b2s(substring)
	return c
}

func rhelCases() []rhelCase {
	k := rhelRepositoryKey
	return []rhelCase{
		mkRhelCase(false, false, k, "cpe:/o:redhat:enterprise_linux:8::baseos", "cpe:/o:redhat:enterprise_linux:8::baseos"),
		mkRhelCase(false, false, k, "cpe:/o:redhat:enterprise_linux:8::baseos", "cpe:/o:redhat:enterprise_linux:8::baseos"),
		mkRhelCase(false, false, k, "cpe:/o:redhat:enterprise_linux:8::baseos", "cpe:/o:redhat:enterprise_linux:8::baseos"),
		mkRhelCase(false, false, k, "cpe:/a:redhat:openshift:4", "cpe:/a:redhat:openshift:4.13::el8"),
		mkRhelCase(false, false, k, "cpe:/o:redhat:enterprise_linux:8", "cpe:/o:redhat:enterprise_linux:8::baseos"),
		mkRhelCase(false, false, k, "cpe:/o:redhat:enterprise_linux:9::baseos", "cpe:/o:redhat:enterprise_linux:8::baseos"),
		mkRhelCase(false, false, k, "cpe:/a:redhat:openshift:4.1", "cpe:/a:redhat:openshift:4.13::el8"),
		mkRhelCase(false, false, k, "not a cpe", "cpe:/o:redhat:enterprise_linux:8::baseos"),
		mkRhelCase(false, false, "other-key", "cpe:/o:redhat:enterprise_linux:8::baseos", "cpe:/o:redhat:enterprise_linux:8::baseos"),
		mkRhelCase(true, false, k, "cpe:/o:redhat:enterprise_linux:8::baseos", "cpe:/o:redhat:enterprise_linux:8::baseos"),
		mkRhelCase(false, true, k, "cpe:/o:redhat:enterprise_linux:8::baseos", "cpe:/o:redhat:enterprise_linux:8::baseos"),
	}
}

func (c rhelCase) pass() bool {
	b := c.bits
	return b[0] == '0' && b[1] == '0' && b[2] == '1' && b[3] == '1' && (b[4] == '1' || b[5] == '1')
}

// matcher couples a built-in matcher with its protocol name.
type matcher struct {
	name string
	m    driver.Matcher
}

func rpmMatchers() []matcher {
	return []matcher{
		{"aws", &aws.Matcher{}},
		{"oracle", &oracle.Matcher{}},
		{"suse", &suse.Matcher{}},
		{"photon", &photon.Matcher{}},
		{"rhel", &rhel.Matcher{}},
		{"rhcc", rhcc.Matcher},
	}
}

// callRaw runs the real Vulnerable.
func callRaw(m driver.Matcher, p pkg, a advisory, rc *rhelCase) string {
	rec := &claircore.IndexRecord{Package: &claircore.Package{Name: "pkg", Version: p.version, Arch: p.arch}}
	v := &claircore.Vulnerability{Name: "CVE-0", FixedInVersion: a.fixed, ArchOperation: a.op,
		Package: &claircore.Package{Name: "pkg", Version: a.pkgVersion, Arch: a.pkgArch}}
	if rc != nil {
		if rc.recRepo != nil {
			cp := *rc.recRepo
			rec.Repository = &cp
		}
		if rc.vulnRepo != nil {
			cp := *rc.vulnRepo
			v.Repo = &cp
		}
	}
	ok, err := m.Vulnerable(context.Background(), rec, v)
	if err != nil {
		return "err"
	}
	if ok {
		return "true"
	}
	return "false"
}

// call runs the real Vulnerable under a deadline.
func call(m driver.Matcher, p pkg, a advisory, rc *rhelCase) string {
	return timed(5*time.Second, func() string { return callRaw(m, p, a, rc) })
}

func vulnLine(name string, p pkg, a advisory, rc *rhelCase) string {
	l := fmt.Sprintf("vuln %s %s %s %s %s %s %d %s", name, hexs(p.version), hexs(p.arch), hexs(a.fixed), hexs(a.pkgVersion), hexs(a.pkgArch),
		uint(a.op), reOutcome(a.pkgArch, p.arch))
	if rc != nil {
		l += " " + rc.bits
	}
	return l
}

type env struct {
	r       *hx.Run
	rnd     *hx.Rand
	cfg     hx.Config
	pending []pendingOp // calls predicted not to return: run in a subprocess at the end
	skipped int
	d0, d1  []driver.Matcher // the registered default matchers: default configuration / rhel with ignore_unpatched
}

func matcherByName(name string) driver.Matcher {
	for _, m := range append(append(rpmMatchers(), debMatchers()...), matcher{"alpine", &alpine.Matcher{}}) {
		if m.name == name {
			return m.m
		}
	}
	return nil
}

func debMatchers() []matcher {
	return []matcher{{"debian", &debian.Matcher{}}, {"ubuntu", &ubuntu.Matcher{}}}
}

func debCompare(a, b string) string {
	x, err := debver.NewVersion(a)
	if err != nil {
		return "err"
	}
	y, err := debver.NewVersion(b)
	if err != nil {
		return "err"
	}
	return sign(x.Compare(y))
}

var arches = []string{"x86_64", "aarch64", "noarch", "i686", "s390x", "ppc64le", "armv7hl", "i386"}

// fragArches are legal architecture names that are fragments of others
// (ppc64 / ppc64le, s390 / s390x, arm / armv7hl, x86 / x86_64): what an
// unanchored pattern match must tell apart.
var fragArches = []string{"ppc64", "s390", "arm", "ppc", "x86", "armv7", "i3", "64", "aarch64_be", "ppc64le", "s390x", "x86_64"}

// archPatterns: what the feeds write (plain alternations), anchored forms,
// bare fragments, and patterns with real regexp syntax / syntax errors.
var archPatterns = []string{
	"aarch64|ppc64le|s390x|x86_64", "x86_64|ppc64le", "x86_64|aarch64", "i386|i686|x86_64", "armv7hl|aarch64", "s390x|ppc64le",
	"aarch64|ppc64le|s390x|x86_64", "x86_64|ppc64le", // (weighted)
	"x86", "ppc64", "noarch", "x86_64", "arm|s390", "x86_64|", "|",
	"^(x86_64|ppc64le)$", "^(aarch64|ppc64le|s390x|x86_64)$", "(i386|i686)", "ppc64(le)?", "s390x?", ".*", "x86.64",
	"(", "[a-", "*",
}

// genArch picks (record arch, advisory arch, operation) covering every branch
// of ArchOp.Cmp.
func (e *env) genArch() (string, string, claircore.ArchOp) {
	rnd := e.rnd
	switch c := rnd.Intn(24); {
	case c < 6: // advisory names no architecture
		return rnd.Pick(append(arches, "")...), "", claircore.ArchOp(rnd.Intn(4))
	case c < 8: // package has no architecture
		return "", rnd.Pick(arches...), claircore.ArchOp(rnd.Intn(4))
	case c < 12:
		a := rnd.Pick(arches...)
		b := a
		if rnd.Chance(1, 2) {
			b = rnd.Pick(arches...)
		}
		return a, b, claircore.ArchOp(1 + rnd.Intn(2))
	case c < 23:
		a := rnd.Pick(arches...)
		if rnd.Chance(1, 2) {
			a = rnd.Pick(fragArches...)
		}
		return a, archPatterns[rnd.Intn(len(archPatterns))], claircore.OpPatternMatch
	default:
		return rnd.Pick(arches...), rnd.Pick(arches...), claircore.ArchOp(rnd.Intn(6))
	}
}

func archExpected(op claircore.ArchOp, a, b string) bool {
	switch {
	case b == "":
		return true
	case a == "":
		return false
	}
	switch op {
	case claircore.OpEquals:
		return a == b
	case claircore.OpNotEquals:
		return a != b
	case claircore.OpPatternMatch:
		return reOutcome(b, a) == "t"
	}
	return false
}

// rpmCompareOps: the real go-rpm-version against the model, on spellings of
// abstract versions (with the order known) and on free-form strings.
func (e *env) rpmCompareOps(n int) {
	r, rnd := e.r, e.rnd
	for i := 0; i < n && !r.Stop(); i++ {
		var a, b string
		expect := 2 // unknown
		switch c := rnd.Intn(10); {
		case c < 6:
			x := genRpm(rnd)
			y := x
			for k := rnd.Intn(3); k > 0; k-- {
				y = mutateRpm(rnd, y)
			}
			if rnd.Chance(1, 6) {
				y = genRpm(rnd)
			}
			a, b = renderRpm(rnd, x), renderRpm(rnd, y)
			expect = cmpRpm(x, y)
			r.Count("rpmcmp:structured")
		case c < 8:
			a, b = freeStr(rnd, rpmAlphabet, 12), freeStr(rnd, rpmAlphabet, 12)
			r.Count("rpmcmp:free")
		default:
			// a structured version with a random edit
			a = renderRpm(rnd, genRpm(rnd))
			b = edit(rnd, a, rpmAlphabet)
			r.Count("rpmcmp:edited")
		}
		if rnd.Chance(1, 12) {
			// bytes outside ASCII: separators for the segment pattern; Unicode white space left of the epoch is trimmed
			a = nonASCIIEdit(rnd, a)
			if rnd.Chance(1, 2) {
				b = nonASCIIEdit(rnd, b)
			}
			expect = 2
			r.Count("rpmcmp:non-ascii")
		}
		got := timed(5*time.Second, func() string { return sign(rpmver.NewVersion(a).Compare(rpmver.NewVersion(b))) })
		r.Op("rpmcmp "+hexs(a)+" "+hexs(b), got, a != b)
		r.Count("rpmcmp:result:" + got)
		e.shapes("rpm", a, b)
		if expect != 2 && got != sign(expect) {
			r.Fail("", fmt.Sprintf("rpm-order: Compare(%q,%q)=%s, the rpm version scheme says %s", a, b, got, sign(expect)))
		}
		// antisymmetry on the implementation
		back := timed(5*time.Second, func() string { return sign(rpmver.NewVersion(b).Compare(rpmver.NewVersion(a))) })
		if !mirror(got, back) {
			r.Fail("", fmt.Sprintf("rpm-antisymmetry: Compare(%q,%q)=%s but Compare(%q,%q)=%s", a, b, got, b, a, back))
		}
		if i%4 == 0 {
			s := timed(5*time.Second, func() string { v := rpmver.NewVersion(a); return hexs(v.String()) })
			r.Op("rpmstr "+hexs(a), s, true)
		}
	}
}

// shapes counts which parts of a scheme's grammar a version string exercises
// (the evidence histogram shows that the generators reach them).
func (e *env) shapes(scheme string, vs ...string) {
	for _, v := range vs {
		has := func(f string, ok bool) {
			if ok {
				e.r.Count("shape:" + scheme + ":" + f)
			}
		}
		has("epoch", strings.Contains(v, ":") || strings.Contains(v, "!"))
		has("tilde", strings.Contains(v, "~"))
		has("letters", strings.IndexFunc(v, func(c rune) bool { return c >= 'a' && c <= 'z' || c >= 'A' && c <= 'Z' }) >= 0)
		has("release/revision", strings.Contains(v, "-"))
		has("empty", v == "")
		lz, long := false, false
		run := 0
		for i := 0; i <= len(v); i++ {
			if i < len(v) && v[i] >= '0' && v[i] <= '9' {
				if run == 0 && v[i] == '0' && i+1 < len(v) && v[i+1] >= '0' && v[i+1] <= '9' {
					lz = true
				}
				run++
				continue
			}
			if run > 18 {
				long = true
			}
			run = 0
		}
		has("leading-zero", lz)
		has("number>18digits", long)
		has("pre/post/dev-suffix", strings.Contains(v, "_") || strings.Contains(v, "rc") || strings.Contains(v, "dev") || strings.Contains(v, "post") || strings.Contains(v, "alpha") || strings.Contains(v, "SNAPSHOT"))
	}
}

func mirror(x, y string) bool {
	switch x {
	case "-1":
		return y == "1"
	case "1":
		return y == "-1"
	case "0":
		return y == "0"
	}
	return x == y
}

// nonASCIISeqs: valid multi-byte runes (letters, digits and white space of
// other scripts), and invalid / truncated / overlong byte sequences.
var nonASCIISeqs = []string{"\u00a0", "\u0085", "\u1680", "\u2003", "\u200a", "\u2028", "\u2029", "\u202f", "\u205f", "\u3000", "\u200b", "\u3001",
	"\u00e9", "\u00fc", "\u0660", "\uff11", "\u00b2", "\U0001d7d8", "\xc2", "\x85", "\xa0", "\xe2\x80", "\xc0\xa0", "\xe0\x80\xa0", "\xff", "\xe2\x80\x8b", "\xe1\x9a"}

// nonASCIIEdit inserts one to two such sequences, preferably where the
// libraries look at runes: at the very start (left of an epoch) or anywhere.
func nonASCIIEdit(rnd *hx.Rand, s string) string {
	for k := 1 + rnd.Intn(2); k > 0; k-- {
		seq := nonASCIISeqs[rnd.Intn(len(nonASCIISeqs))]
		i := 0
		if !rnd.Chance(1, 2) {
			i = rnd.Intn(len(s) + 1)
		}
		s = s[:i] + seq + s[i:]
	}
	if rnd.Chance(1, 3) && !strings.Contains(s, ":") {
		s = nonASCIISeqs[rnd.Intn(12)] + itoa(1+rnd.Intn(3)) + ":" + s // white space (or not) left of an epoch
	}
	return s
}

func isASCII(s string) bool {
	for i := 0; i < len(s); i++ {
		if s[i] >= 0x80 {
			return false
		}
	}
	return true
}

// asciiOnly: the go-deb-version and go-apk-version models cover ASCII (both
// libraries classify runes with the full Unicode tables); their generators
// must stay inside it.
func (e *env) asciiOnly(scheme string, vs ...string) {
	for _, v := range vs {
		if !isASCII(v) {
			e.r.Fail("", fmt.Sprintf("harness: the %s generator produced a non-ASCII version %q", scheme, v))
			return
		}
	}
	e.r.Count("legal:" + scheme + ":ascii")
}

// edit applies one random insertion, deletion or replacement.
func edit(rnd *hx.Rand, s, alphabet string) string {
	b := []byte(s)
	c := alphabet[rnd.Intn(len(alphabet))]
	switch {
	case len(b) == 0 || rnd.Chance(1, 3):
		i := rnd.Intn(len(b) + 1)
		b = append(b[:i], append([]byte{c}, b[i:]...)...)
	case rnd.Chance(1, 2):
		i := rnd.Intn(len(b))
		b = append(b[:i], b[i+1:]...)
	default:
		b[rnd.Intn(len(b))] = c
	}
	return string(b)
}

// rpmChain builds versions sorted by the scheme's order, with their ranks
// (equal rank = equal in the scheme) and one or two spellings each.
type chainElem struct {
	rank  int
	spell string
}

func (e *env) rpmChain(n int) []chainElem {
	rnd := e.rnd
	base := genRpm(rnd)
	vs := []rpmVer{base}
	for len(vs) < n {
		src := vs[rnd.Intn(len(vs))]
		vs = append(vs, mutateRpm(rnd, src))
	}
	if rnd.Chance(1, 3) {
		a, b := e.deepRpm(vs[rnd.Intn(len(vs))])
		vs = append(vs, a, b)
	}
	sort.SliceStable(vs, func(i, j int) bool { return cmpRpm(vs[i], vs[j]) < 0 })
	e.countSlots("rpm", len(vs), func(i, j int) string { return slotRpm(vs[i], vs[j]) })
	var out []chainElem
	rank := 0
	for i, v := range vs {
		if i > 0 && cmpRpm(vs[i-1], v) != 0 {
			rank++
		}
		out = append(out, chainElem{rank, renderRpm(rnd, v)})
		if rnd.Chance(1, 4) {
			out = append(out, chainElem{rank, renderRpm(rnd, v)})
		}
	}
	return out
}

// rpmMatcherOps drives the six go-rpm-version matchers over chains.
func (e *env) rpmMatcherOps(chains int) {
	r, rnd := e.r, e.rnd
	ms := rpmMatchers()
	rcs := rhelCases()
	for c := 0; c < chains && !r.Stop(); c++ {
		chain := e.rpmChain(5 + rnd.Intn(4))
		for _, m := range ms {
			for _, pe := range chain {
				for _, fe := range chain {
					if r.Stop() {
						return
					}
					if rnd.Chance(1, 2) && pe.rank != fe.rank && pe.rank+1 != fe.rank && pe.rank != fe.rank+1 {
						continue // keep every boundary pair, sample the rest
					}
					pa, va, op := e.genArch()
					p := pkg{pe.spell, pa}
					a := advisory{pkgArch: va, op: op}
					mode := "fix"
					switch rnd.Intn(6) {
					case 0: // no fix named
						a.pkgVersion = fe.spell
						mode = "nofix"
					case 1: // a fix and an (ignored) advisory package version
						a.fixed = fe.spell
						a.pkgVersion = chain[rnd.Intn(len(chain))].spell
					default:
						a.fixed = fe.spell
					}
					var rc *rhelCase
					if m.name == "rhel" {
						rc = &rcs[rnd.Intn(len(rcs))]
					}
					got := call(m.m, p, a, rc)
					r.Op(vulnLine(m.name, p, a, rc), got, true)
					r.Count("vuln:" + m.name + ":" + mode + ":" + got)
					e.rpmOracle(m.name, p, a, rc, pe.rank, fe.rank, mode, got)
				}
			}
		}
	}
}

// rpmOracle is the statement itself on the implementation's answer.
func (e *env) rpmOracle(name string, p pkg, a advisory, rc *rhelCase, prank, frank int, mode, got string) {
	var below bool
	switch {
	case mode != "nofix" || name == "rhcc":
		if a.fixed == "" {
			// rhcc without a fix: LessThan(NewVersion("")); only "~…" versions sort below the empty version
			return
		}
		below = prank < frank
	case name == "aws" || name == "rhel":
		below = true // unfixed: every version (epoch < 65535) is affected
		if i := strings.Index(p.version, ":"); i >= 0 {
			if ep, err := strconv.Atoi(strings.TrimSpace(p.version[:i])); err != nil || ep >= 65535 {
				return // generated epochs at and above the 65535:0 bound are for the model comparison only
			}
		}
	default: // oracle, suse, photon: bounded by the last known affected version
		below = prank <= frank
	}
	want := below
	if name != "photon" && name != "rhcc" {
		want = want && archExpected(a.op, p.arch, a.pkgArch)
	}
	if rc != nil {
		want = want && rc.pass()
	}
	if got != fmt.Sprint(want) {
		rel := map[bool]string{true: "strictly below the fix", false: "not below the fix"}[below]
		if mode == "nofix" {
			rel = map[bool]string{true: "not above the last affected version", false: "above the last affected version"}[below]
			if name == "aws" || name == "rhel" {
				rel = "affected by an advisory without fix (unfixed)"
			}
		}
		e.r.Fail("", fmt.Sprintf("%s: Vulnerable(pkg=%q arch=%q; fixed=%q advisory-version=%q arch=%q op=%d)=%s, by construction the package is %s and the architecture test is %v",
			name, p.version, p.arch, a.fixed, a.pkgVersion, a.pkgArch, uint(a.op), got, rel, archExpected(a.op, p.arch, a.pkgArch)))
	}
}

// freeMatcherOps: arbitrary strings through the matchers (model comparison only).
func (e *env) freeRpmMatcherOps(n int) {
	r, rnd := e.r, e.rnd
	ms := rpmMatchers()
	rcs := rhelCases()
	for i := 0; i < n && !r.Stop(); i++ {
		m := ms[rnd.Intn(len(ms))]
		pa, va, op := e.genArch()
		p := pkg{freeStr(rnd, rpmAlphabet, 10), pa}
		a := advisory{pkgArch: va, op: op}
		if rnd.Chance(2, 3) {
			a.fixed = edit(rnd, p.version, rpmAlphabet)
		}
		if rnd.Chance(1, 10) {
			p.version = nonASCIIEdit(rnd, p.version)
			if a.fixed != "" && rnd.Chance(1, 2) {
				a.fixed = nonASCIIEdit(rnd, a.fixed)
			}
			r.Count("vuln-free:non-ascii")
		}
		if rnd.Chance(1, 2) {
			a.pkgVersion = edit(rnd, p.version, rpmAlphabet)
		}
		var rc *rhelCase
		if m.name == "rhel" {
			rc = &rcs[rnd.Intn(len(rcs))]
		}
		got := call(m.m, p, a, rc)
		r.Op(vulnLine(m.name, p, a, rc), got, true)
		r.Count("vuln-free:" + m.name + ":" + got)
	}
}

// archOps: ArchOp.Cmp against the model, every branch.
func (e *env) archOps(n int) {
	r := e.r
	for i := 0; i < n && !r.Stop(); i++ {
		a, b, op := e.genArch()
		if e.rnd.Chance(1, 15) {
			// architectures are compared as byte strings; a pattern is a regexp over UTF-8
			a = nonASCIIEdit(e.rnd, a)
			if e.rnd.Chance(1, 2) {
				b = a
			} else if e.rnd.Chance(1, 2) {
				b = nonASCIIEdit(e.rnd, b)
			}
			r.Count("archop:non-ascii")
		}
		got := timed(5*time.Second, func() string { return fmt.Sprint(op.Cmp(a, b)) })
		r.Op(fmt.Sprintf("archop %d %s %s %s", uint(op), hexs(a), hexs(b), reOutcome(b, a)), got, true)
		r.Count("archop:" + got)
		if got != fmt.Sprint(archExpected(op, a, b)) {
			r.Fail("", fmt.Sprintf("archop: ArchOp(%d).Cmp(%q,%q)=%s, regexp.MatchString / the operation's definition says %v", uint(op), a, b, got, archExpected(op, a, b)))
		}
	}
}

// Run is the entry point.
func Run(cfg hx.Config) error {
	if in := os.Getenv("C03_PROBE"); in != "" {
		return probeChild(in)
	}
	nop := zerolog.Nop()
	zlog.Set(&nop) // the matchers log every comparison at debug level
	r, err := hx.NewRun(cfg)
	if err != nil {
		return err
	}
	// hx.NewRand(seed) starts seed steps into one splitmix64 stream, so nearby
	// seeds would replay each other's draws shifted by a few positions; Fork
	// re-seeds from a mixed output and gives unrelated streams per seed.
	e := &env{r: r, rnd: hx.NewRand(cfg.Seed).Fork(), cfg: cfg}
	r.Rule = "comparator lines: spellings of abstract versions (order known by construction), free-form strings and single edits; matcher lines: all (package, fix) pairs of version chains sorted by the scheme's order, with every ArchOp branch; non-trivial = the two version strings differ (comparators) / any matcher call"
	r.Op("reset", "ok", false)
	if err := e.corpus(); err != nil {
		return err
	}
	phase := func(name string, f func()) {
		t0 := time.Now()
		f()
		if os.Getenv("C03_TIMING") != "" {
			fmt.Fprintf(os.Stderr, "c03 phase %-18s %6.1fs\n", name, time.Since(t0).Seconds())
		}
	}
	phase("rpmCaretWitness", func() { e.rpmCaretWitness() })
	phase("archOps", func() { e.archOps(cfg.N(300, 3000)) })
	phase("rpmCompareOps", func() { e.rpmCompareOps(cfg.N(6000, 200000)) })
	phase("rpmMatcherOps", func() { e.rpmMatcherOps(cfg.N(40, 1200)) })
	phase("freeRpmMatcherOps", func() { e.freeRpmMatcherOps(cfg.N(1500, 60000)) })
	phase("debWitness", func() { e.debWitness() })
	phase("debCompareOps", func() { e.debCompareOps(cfg.N(5000, 150000)) })
	phase("debMatcherOps", func() { e.debMatcherOps(cfg.N(40, 2000)) })
	phase("apkCompareOps", func() { e.apkCompareOps(cfg.N(5000, 150000)) })
	phase("apkMatcherOps", func() { e.apkMatcherOps(cfg.N(40, 2000)) })
	phase("rangeOps", func() { e.rangeOps(cfg.N(1500, 100000)) })
	phase("ctlOps", func() { e.ctlOps(cfg.N(25, 1000)) })
	phase("multiRecordOps", func() { e.multiRecordOps(cfg.N(40, 1400)) })
	phase("cpeSubOps", func() { e.cpeSubOps(cfg.N(300, 5000)) })
	phase("scanOps", func() { e.scanOps(cfg.N(60, 2000)) })
	phase("concurrentOps", func() { e.concurrentOps() })
	phase("rhelStickyWitness", func() { e.rhelStickyWitness() })
	phase("urlQueryOps", func() { e.urlQueryOps(cfg.N(600, 20000)) })
	phase("osvMatcherOps", func() { e.osvMatcherOps(cfg.N(30, 1200)) })
	phase("osvFreeOps", func() { e.osvFreeOps(cfg.N(1500, 80000)) })
	if err := e.flushPending(); err != nil {
		return err
	}
	return r.Close()
}

// ---- go-deb-version, debian, ubuntu ----

const findingDebHang = "deb-compare-hang"

// debWitness replays the witness of the finding deb-compare-hang.
func (e *env) debWitness() {
	p, a := pkg{version: "1.00-1"}, advisory{fixed: "1.0-1"}
	for _, name := range []string{"debian", "ubuntu"} {
		name := name
		e.defer_(probeReq{"vuln", []string{name, p.version, a.fixed}}, vulnLine(name, p, a, nil), func(got string) {
			if got == "hang" {
				e.r.KnownSeen(findingDebHang, fmt.Sprintf("%s Vulnerable(package 1.00-1, fixed 1.0-1) does not return", name))
			}
		})
	}
}

func (e *env) debCompareOps(n int) {
	r, rnd := e.r, e.rnd
	for i := 0; i < n && !r.Stop(); i++ {
		var a, b string
		expect := 2
		switch c := rnd.Intn(10); {
		case c < 6:
			x := genDeb(rnd)
			y := x
			for k := rnd.Intn(3); k > 0; k-- {
				y = mutateDeb(rnd, y)
			}
			if rnd.Chance(1, 6) {
				y = genDeb(rnd)
			}
			a, b = renderDeb(rnd, x, true), renderDeb(rnd, y, true)
			if cmpDeb(x, y) == 0 && rnd.Chance(9, 10) {
				// equal versions: mostly spelled alike (different spellings do not return)
				a = renderDeb(rnd, x, false)
				b = renderDeb(rnd, y, false)
			}
			expect = cmpDeb(x, y)
			r.Count("debcmp:structured")
		case c < 8:
			a, b = freeStr(rnd, debAlphabet, 10), freeStr(rnd, debAlphabet, 10)
			if rnd.Chance(1, 2) {
				a, b = "1"+a, "2"+b // most free strings fail validation on the first character
			}
			r.Count("debcmp:free")
		default:
			a = renderDeb(rnd, genDeb(rnd), true)
			b = edit(rnd, a, debAlphabet)
			if rnd.Chance(1, 8) {
				// long digit runs: strconv.Atoi clamps at MaxInt64
				a = a + "." + rnd.Pick("9223372036854775807", "9223372036854775808", "99999999999999999999")
				b = b + "." + rnd.Pick("9223372036854775807", "9223372036854775806", "99999999999999999998")
			}
			r.Count("debcmp:edited")
		}
		line := "debcmp " + hexs(a) + " " + hexs(b)
		e.shapes("deb", a, b)
		e.asciiOnly("deb", a, b)
		check := func(got string) {
			r.Count("debcmp:result:" + got)
			if got == "hang" {
				if debHangShape(a, b) {
					r.Fail(findingDebHang, fmt.Sprintf("go-deb-version Compare(%q,%q) does not return", a, b))
				} else {
					r.Fail("", fmt.Sprintf("deb-hang: Compare(%q,%q) does not return", a, b))
				}
				return
			}
			if expect != 2 && got != sign(expect) {
				r.Fail("", fmt.Sprintf("deb-order: Compare(%q,%q)=%s, deb-version(7) says %s", a, b, got, sign(expect)))
			}
		}
		if debHangShape(a, b) {
			e.defer_(probeReq{"debcmp", []string{a, b}}, line, check)
			continue
		}
		got := timed(5*time.Second, func() string { return debCompare(a, b) })
		r.Op(line, got, a != b)
		check(got)
		if got != "hang" && got != "err" {
			back := timed(5*time.Second, func() string { return debCompare(b, a) })
			if !mirror(got, back) {
				r.Fail("", fmt.Sprintf("deb-antisymmetry: Compare(%q,%q)=%s but Compare(%q,%q)=%s", a, b, got, b, a, back))
			}
		}
		if i%4 == 0 {
			s := timed(5*time.Second, func() string {
				v, err := debver.NewVersion(a)
				if err != nil {
					return "err"
				}
				return hexs(v.String())
			})
			r.Op("debnew "+hexs(a), s, true)
			r.Count("debnew:" + map[bool]string{true: "err", false: "ok"}[s == "err"])
		}
	}
}

type debElem struct {
	rank  int
	spell string
	zero  bool // the version 0 (no epoch, no revision): prints as "0"
}

func debIsZero(v debVer) bool {
	return v.epoch == 0 && !v.hasRev && len(v.upstream) == 1 && v.upstream[0].pre == "" && v.upstream[0].num == "0"
}

func (e *env) debChain(n int) []debElem { return e.debChainFrom(n, false) }

// debChainFrom: with zeroBase the chain grows around the version 0 (what the
// trackers write for "not affected" is the string "0"; other spellings of
// zero, and versions below it such as 0~rc1, are ordinary versions).
func (e *env) debChainFrom(n int, zeroBase bool) []debElem {
	rnd := e.rnd
	vs := []debVer{genDeb(rnd)}
	if zeroBase {
		z := debVer{upstream: []debPart{{pre: "", num: "0"}}}
		vs = []debVer{z, mutateDeb(rnd, z), {upstream: []debPart{{pre: "", num: "0"}, {pre: "~", num: genDebDigits(rnd)}}}}
	}
	for len(vs) < n {
		vs = append(vs, mutateDeb(rnd, vs[rnd.Intn(len(vs))]))
	}
	if rnd.Chance(1, 3) {
		a, b := e.deepDeb(vs[rnd.Intn(len(vs))])
		vs = append(vs, a, b)
	}
	sort.SliceStable(vs, func(i, j int) bool { return cmpDeb(vs[i], vs[j]) < 0 })
	e.countSlots("deb", len(vs), func(i, j int) string { return slotDeb(vs[i], vs[j]) })
	var out []debElem
	rank := 0
	for i, v := range vs {
		if i > 0 && cmpDeb(vs[i-1], v) != 0 {
			rank++
		}
		out = append(out, debElem{rank, renderDeb(rnd, v, false), debIsZero(v)})
		if rnd.Chance(1, 5) {
			out = append(out, debElem{rank, renderDeb(rnd, v, true), false}) // an equal version, possibly spelled differently
		}
	}
	return out
}

// debPrintsZero: does the fix print as "0" (ubuntu's sentinel)?
func debPrintsZero(s string) bool {
	v, err := debver.NewVersion(s)
	return err == nil && v.String() == "0"
}

func (e *env) debMatcherOps(chains int) {
	r, rnd := e.r, e.rnd
	for c := 0; c < chains && !r.Stop(); c++ {
		chain := e.debChainFrom(5+rnd.Intn(4), rnd.Chance(1, 4))
		for _, m := range debMatchers() {
			one := func(pe debElem, fixed string, frank int) {
				p := pkg{version: pe.spell}
				if rnd.Chance(1, 4) {
					p.arch = rnd.Pick(arches...)
				}
				a := advisory{fixed: fixed}
				if rnd.Chance(1, 4) {
					a.pkgArch, a.op = rnd.Pick(arches...), claircore.ArchOp(rnd.Intn(4)) // ignored by these matchers
				}
				line := vulnLine(m.name, p, a, nil)
				check := func(got string) {
					r.Count("vuln:" + m.name + ":" + got)
					e.debOracle(m.name, p, a, pe.rank, frank, got)
				}
				sentinel := fixed == "" || (m.name == "debian" && fixed == "0")
				if !sentinel && debHangShape(p.version, fixed) {
					e.defer_(probeReq{"vuln", []string{m.name, p.version, fixed}}, vulnLine(m.name, pkg{version: p.version}, advisory{fixed: fixed}, nil), check)
					return
				}
				got := call(m.m, p, a, nil)
				r.Op(line, got, true)
				check(got)
			}
			for _, pe := range chain {
				for _, fe := range chain {
					if r.Stop() {
						return
					}
					if rnd.Chance(1, 2) && pe.rank != fe.rank && pe.rank+1 != fe.rank && pe.rank != fe.rank+1 {
						continue
					}
					one(pe, fe.spell, fe.rank)
				}
				// the sentinels
				one(pe, rnd.Pick("", "0", "0:0", " 0", "0-0", "00"), -1)
				// other spellings of the version 0, with its place in the chain known
				for _, z := range chain {
					if z.zero {
						one(pe, rnd.Pick("0:0", " 0", "0 ", " 0:0"), z.rank)
						r.Count("vuln:" + m.name + ":zero-spelled-otherwise")
						break
					}
				}
			}
		}
	}
}

// debOracle is the statement on the implementation's answer for a chain pair.
func (e *env) debOracle(name string, p pkg, a advisory, prank, frank int, got string) {
	if got == "hang" {
		if debHangShape(p.version, a.fixed) {
			e.r.Fail(findingDebHang, fmt.Sprintf("%s Vulnerable(package %q, fixed %q) does not return", name, p.version, a.fixed))
		} else {
			e.r.Fail("", fmt.Sprintf("%s-hang: Vulnerable(package %q, fixed %q) does not return", name, p.version, a.fixed))
		}
		return
	}
	var want bool
	switch {
	case a.fixed == "":
		want = true // no fix yet: affected
	case name == "debian" && a.fixed == "0":
		want = false // "not affected" sentinel
	case name == "ubuntu" && debPrintsZero(a.fixed):
		want = true // ubuntu's sentinel
	case frank < 0:
		return // other spellings of zero: an ordinary (very small) version; compared by the model only
	default:
		want = prank < frank
	}
	if got != fmt.Sprint(want) {
		e.r.Fail("", fmt.Sprintf("%s: Vulnerable(package %q, fixed %q)=%s, by construction expected %v", name, p.version, a.fixed, got, want))
	}
}

// ---- go-apk-version, alpine ----

func apkCompare(a, b string) string { return sign(apkver.Version(a).Compare(apkver.Version(b))) }

func (e *env) apkCompareOps(n int) {
	r, rnd := e.r, e.rnd
	for i := 0; i < n && !r.Stop(); i++ {
		var a, b string
		expect := 2
		switch c := rnd.Intn(10); {
		case c < 5:
			x := genApk(rnd)
			y := x
			for k := rnd.Intn(3); k > 0; k-- {
				y = mutateApk(rnd, y)
			}
			if rnd.Chance(1, 6) {
				y = genApk(rnd)
			}
			a, b = renderApk(rnd, x, true), renderApk(rnd, y, true)
			expect = cmpApk(x, y)
			r.Count("apkcmp:structured")
		case c < 8:
			a, b = freeApk(rnd), freeApk(rnd)
			if rnd.Chance(1, 2) {
				b = edit(rnd, a, apkAlphabet)
			}
			r.Count("apkcmp:free")
		default:
			a = renderApk(rnd, genApk(rnd), true)
			b = edit(rnd, a, apkAlphabet)
			r.Count("apkcmp:edited")
		}
		got := timed(5*time.Second, func() string { return apkCompare(a, b) })
		r.Op("apkcmp "+hexs(a)+" "+hexs(b), got, a != b)
		r.Op("apkcmp2 "+hexs(a)+" "+hexs(b), got, a != b)
		r.Count("apkcmp:result:" + got)
		e.shapes("apk", a, b)
		e.asciiOnly("apk", a, b)
		if expect != 2 && got != sign(expect) {
			r.Fail("", fmt.Sprintf("apk-order: Compare(%q,%q)=%s, the apk version scheme says %s", a, b, got, sign(expect)))
		}
		va := timed(5*time.Second, func() string { return fmt.Sprint(apkver.Valid(a)) })
		if i%3 == 0 {
			r.Op("apkvalid "+hexs(a), va, true)
			r.Count("apkvalid:" + va)
		}
		if expect != 2 && va != "true" {
			r.Fail("", fmt.Sprintf("apk-valid: Valid(%q)=%s for a well-formed version", a, va))
		}
		if va == "true" && timed(5*time.Second, func() string { return fmt.Sprint(apkver.Valid(b)) }) == "true" {
			back := timed(5*time.Second, func() string { return apkCompare(b, a) })
			if !mirror(got, back) {
				r.Fail("", fmt.Sprintf("apk-antisymmetry: Compare(%q,%q)=%s but Compare(%q,%q)=%s", a, b, got, b, a, back))
			}
		}
	}
}

func (e *env) apkChain(n int) []chainElem {
	rnd := e.rnd
	vs := []apkVer{genApk(rnd)}
	for len(vs) < n {
		vs = append(vs, mutateApk(rnd, vs[rnd.Intn(len(vs))]))
	}
	if rnd.Chance(1, 3) {
		a, b := e.deepApk(vs[rnd.Intn(len(vs))])
		vs = append(vs, a, b)
	}
	sort.SliceStable(vs, func(i, j int) bool { return cmpApk(vs[i], vs[j]) < 0 })
	e.countSlots("apk", len(vs), func(i, j int) string { return slotApk(vs[i], vs[j]) })
	var out []chainElem
	rank := 0
	for i, v := range vs {
		if i > 0 && cmpApk(vs[i-1], v) != 0 {
			rank++
		}
		out = append(out, chainElem{rank, renderApk(rnd, v, false)})
		if rnd.Chance(1, 5) {
			out = append(out, chainElem{rank, renderApk(rnd, v, true)})
		}
	}
	return out
}

func (e *env) apkMatcherOps(chains int) {
	r, rnd := e.r, e.rnd
	m := &alpine.Matcher{}
	for c := 0; c < chains && !r.Stop(); c++ {
		chain := e.apkChain(5 + rnd.Intn(4))
		one := func(pv, fixed string, prank, frank int) {
			p := pkg{version: pv}
			if rnd.Chance(1, 4) {
				p.arch = rnd.Pick(arches...)
			}
			a := advisory{fixed: fixed}
			if rnd.Chance(1, 4) {
				a.pkgArch, a.op = rnd.Pick(arches...), claircore.ArchOp(rnd.Intn(4)) // ignored by alpine
			}
			got := call(m, p, a, nil)
			r.Op(vulnLine("alpine", p, a, nil), got, true)
			r.Count("vuln:alpine:" + got)
			var want bool
			switch {
			case fixed == "":
				want = true
			case fixed == "0":
				want = false
			case prank < 0 || frank < 0:
				if apkver.Valid(pv) && apkver.Valid(fixed) {
					return // the edit left a well-formed version of unknown rank: compared with the model only
				}
				want = false // a version apk does not accept is never reported
				r.Count("vuln:alpine:invalid-version")
			default:
				want = prank < frank
			}
			if got != fmt.Sprint(want) {
				r.Fail("", fmt.Sprintf("alpine: Vulnerable(package %q, fixed %q)=%s, by construction expected %v", pv, fixed, got, want))
			}
		}
		for _, pe := range chain {
			for _, fe := range chain {
				if r.Stop() {
					return
				}
				if rnd.Chance(1, 2) && pe.rank != fe.rank && pe.rank+1 != fe.rank && pe.rank != fe.rank+1 {
					continue
				}
				one(pe.spell, fe.spell, pe.rank, fe.rank)
			}
			one(pe.spell, rnd.Pick("", "0", "0", "00", "0-r0"), pe.rank, -1)
			if rnd.Chance(1, 3) {
				// versions apk does not accept, on either side
				bad := edit(rnd, pe.spell, "Z~+_-")
				one(bad, chain[rnd.Intn(len(chain))].spell, -1, -1)
				one(pe.spell, bad, -1, -1)
			}
		}
	}
}

// ---- python, ruby, java: url-encoded introduced / fixed / lastAffected ----

// langScheme is a language ecosystem's real parser and comparator.
type langScheme struct {
	name  string
	m     driver.Matcher
	parse func(string) (any, error)
	cmp   func(a, b any) int
}

func langSchemes() []langScheme {
	return []langScheme{
		{"python", &python.Matcher{},
			func(s string) (any, error) { v, err := pep440.Parse(s); return &v, err },
			func(a, b any) int { return a.(*pep440.Version).Compare(b.(*pep440.Version)) }},
		{"ruby", &ruby.Matcher{},
			func(s string) (any, error) { return ruby.NewVersion(s) },
			func(a, b any) int { return a.(ruby.Version).Compare(b.(ruby.Version)) }},
		{"java", &java.Matcher{},
			func(s string) (any, error) { return java.ParseMavenVersionForVerif(s) },
			func(a, b any) int { return a.(java.MavenVersionForVerif).Compare(b.(java.MavenVersionForVerif)) }},
	}
}

// osvTable records what the scheme's real parser and comparator say about
// the strings the matcher will look at (the package version and the decoded
// introduced / fixed / lastAffected values).
func osvTable(sc langScheme, pv, fixedIn string) string {
	if fixedIn == "" {
		return "none"
	}
	strs := []string{pv}
	if q, err := url.ParseQuery(fixedIn); err == nil {
		for _, k := range []string{"introduced", "fixed", "lastAffected"} {
			if v := q.Get(k); v != "" {
				strs = append(strs, v)
			}
		}
	}
	pkgV, pkgErr := sc.parse(pv)
	var ents []string
	seen := map[string]bool{}
	for _, s := range strs {
		if seen[s] {
			continue
		}
		seen[s] = true
		v, err := sc.parse(s)
		p, c := "1", "x"
		if err != nil {
			p = "0"
		} else if pkgErr == nil {
			c = map[string]string{"-1": "l", "0": "e", "1": "g"}[sign(sc.cmp(pkgV, v))]
		}
		ents = append(ents, hexs(s)+"/"+p+"/"+c)
	}
	return strings.Join(ents, ",")
}

func (e *env) osvCall(sc langScheme, pv, fixedIn string) string {
	p, a := pkg{version: pv}, advisory{fixed: fixedIn}
	got := call(sc.m, p, a, nil)
	e.shapes(sc.name, pv)
	e.r.Op("osv "+hexs(pv)+" "+hexs(fixedIn)+" "+osvTable(sc, pv, fixedIn), got, true)
	// the same call against the string-level models of the scheme (C12's)
	e.r.Op("osvs "+sc.name+" "+hexs(pv)+" "+hexs(fixedIn), got, true)
	return got
}

// urlQueryOps: url.ParseQuery + Get of the three keys, against the model.
func (e *env) urlQueryOps(n int) {
	r, rnd := e.r, e.rnd
	keys := []string{"introduced", "fixed", "lastAffected", "limit", "Fixed", ""}
	vals := []string{"1.0", "2.0.1", "1.0 rc1", "1.0+local", "1%2B2", "a&b", "a=b", "a;b", "", "0", "1.0~rc1", "%zz", "100%", "1.0\u00e9", "\xff1", "1\u30002"}
	for i := 0; i < n && !r.Stop(); i++ {
		var q string
		switch c := rnd.Intn(10); {
		case c < 4: // what the updater writes
			v := url.Values{}
			for k := rnd.Intn(4); k > 0; k-- {
				v.Add(keys[rnd.Intn(3)], vals[rnd.Intn(len(vals))])
			}
			q = v.Encode()
		case c < 8: // hand-written settings
			var parts []string
			for k := rnd.Intn(4); k > 0; k-- {
				part := keys[rnd.Intn(len(keys))]
				if rnd.Chance(5, 6) {
					part += "=" + rnd.Pick("1.0", "2.0.1", "1.0+rc1", "1%2B2", "%41", "%4", "%", "%zz", "a;b", "", "1=2", "%3D", "%C3%A9", "%ff%FE", "1.0\u00e9", "%E2%80%83x")
				}
				parts = append(parts, part)
			}
			q = strings.Join(parts, rnd.Pick("&", "&", "&", "&&", ";"))
		default:
			q = freeStr(rnd, "abfixedintroduced=&%+;12.0AF", 14)
		}
		got := timed(5*time.Second, func() string {
			m, err := url.ParseQuery(q)
			if err != nil {
				return "err"
			}
			return "ok " + hexs(m.Get("introduced")) + " " + hexs(m.Get("fixed")) + " " + hexs(m.Get("lastAffected"))
		})
		r.Op("urlq "+hexs(q), got, true)
		r.Count("urlq:" + got[:2])
	}
}

func (e *env) langChain(eco string, n int) []chainElem {
	rnd := e.rnd
	vs := []langVer{genLang(rnd, eco)}
	for len(vs) < n {
		vs = append(vs, mutateLang(rnd, eco, vs[rnd.Intn(len(vs))]))
	}
	if rnd.Chance(1, 2) {
		a, b := e.deepLang(eco, vs[rnd.Intn(len(vs))])
		vs = append(vs, a, b)
	}
	sort.SliceStable(vs, func(i, j int) bool { return cmpLang(vs[i], vs[j]) < 0 })
	e.countSlots(eco, len(vs), func(i, j int) string { return slotLang(vs[i], vs[j]) })
	var out []chainElem
	rank := 0
	for i, v := range vs {
		if i > 0 && cmpLang(vs[i-1], v) != 0 {
			rank++
		}
		out = append(out, chainElem{rank, renderLang(rnd, eco, v, false)})
		if rnd.Chance(1, 4) {
			out = append(out, chainElem{rank, renderLang(rnd, eco, v, true)})
		}
	}
	return out
}

// osvMatcherOps: every range shape over chains, with the statement checked on the answers.
func (e *env) osvMatcherOps(chains int) {
	r, rnd := e.r, e.rnd
	for c := 0; c < chains && !r.Stop(); c++ {
		for _, sc := range langSchemes() {
			chain := e.langChain(sc.name, 5+rnd.Intn(3))
			for _, pe := range chain {
				for k := 0; k < 10 && !r.Stop(); k++ {
					var ie, ue *chainElem // introduced, upper bound
					if rnd.Chance(1, 2) {
						ie = &chain[rnd.Intn(len(chain))]
					}
					shape := rnd.Pick("fixed", "fixed", "fixed", "lastAffected", "lastAffected", "open", "nofix", "both")
					if shape == "fixed" || shape == "lastAffected" || shape == "both" {
						// prefer bounds next to the package
						ue = &chain[rnd.Intn(len(chain))]
						if rnd.Chance(1, 2) {
							for j := range chain {
								if chain[j].rank == pe.rank || chain[j].rank == pe.rank+1 {
									ue = &chain[j]
									if rnd.Chance(1, 2) {
										break
									}
								}
							}
						}
					}
					v := url.Values{}
					pspell, ispell, uspell := pe.spell, "", ""
					if ie != nil {
						ispell = ie.spell
					}
					if ue != nil {
						uspell = ue.spell
					}
					if sc.name == "python" {
						// PEP 440 local version labels ("+cu118"): pkg/pep440 discards them, PEP 440 sorts them
						// just above the public version; used only where both readings give the same verdict
						// (the bound's public version differs from the package's)
						loc := func(s string) string { return s + "+" + rnd.Pick("local", "cu118", "ubuntu.1", "1", "abc.5") }
						if ie != nil && ie.rank != pe.rank && rnd.Chance(1, 5) {
							ispell = loc(ispell)
							r.Count("osv:python:local-label:introduced")
						}
						if ue != nil && ue.rank != pe.rank && rnd.Chance(1, 5) {
							uspell = loc(uspell)
							r.Count("osv:python:local-label:bound")
						}
						if rnd.Chance(1, 8) && !(shape == "lastAffected" && ue != nil && ue.rank == pe.rank) {
							pspell = loc(pspell)
							r.Count("osv:python:local-label:package")
						}
					}
					if ie != nil {
						v.Add("introduced", ispell)
					}
					if ue != nil && shape != "both" {
						v.Add(shape, uspell)
					}
					if shape == "both" {
						// a fix and a last affected version: the fix decides (the matchers look at `fixed` first)
						v.Add("fixed", uspell)
						v.Add("lastAffected", chain[rnd.Intn(len(chain))].spell)
					}
					fixedIn := v.Encode()
					if shape == "nofix" {
						fixedIn = ""
					} else if fixedIn == "" {
						continue
					}
					if rnd.Chance(1, 8) && fixedIn != "" {
						// the same settings in another order / with an unknown key
						parts := strings.Split(fixedIn, "&")
						for i, j := 0, len(parts)-1; i < j; i, j = i+1, j-1 {
							parts[i], parts[j] = parts[j], parts[i]
						}
						fixedIn = strings.Join(append(parts, "limit=9"), "&")
					}
					got := e.osvCall(sc, pspell, fixedIn)
					r.Count("osv:" + sc.name + ":" + shape + ":" + got)
					want := true
					if fixedIn != "" {
						if ie != nil && pe.rank < ie.rank {
							want = false
						}
						switch shape {
						case "fixed", "both":
							want = want && pe.rank < ue.rank
						case "lastAffected":
							want = want && pe.rank <= ue.rank
						}
					}
					if got != fmt.Sprint(want) {
						r.Fail("", fmt.Sprintf("%s: Vulnerable(package %q, FixedInVersion %q)=%s, by construction expected %v", sc.name, pspell, fixedIn, got, want))
					}
				}
			}
		}
	}
}

// osvFreeOps: arbitrary versions and queries (model comparison only).
func (e *env) osvFreeOps(n int) {
	r, rnd := e.r, e.rnd
	scs := langSchemes()
	for i := 0; i < n && !r.Stop(); i++ {
		sc := scs[rnd.Intn(len(scs))]
		mk := func() string {
			switch rnd.Intn(4) {
			case 0:
				return freeStr(rnd, langAlphabet, 8)
			case 1:
				return edit(rnd, renderLang(rnd, sc.name, genLang(rnd, sc.name), true), langAlphabet)
			}
			return renderLang(rnd, sc.name, genLang(rnd, sc.name), true)
		}
		pv := mk()
		var parts []string
		for _, k := range []string{"introduced", "fixed", "lastAffected"} {
			if rnd.Chance(1, 2) {
				val := mk()
				if rnd.Chance(3, 4) {
					val = url.QueryEscape(val)
				}
				parts = append(parts, k+"="+val)
			}
		}
		if rnd.Chance(1, 10) {
			parts = append(parts, rnd.Pick("fixed=%zz", "a;b=1", "fixed", "=1", "fixed=1&fixed=2"))
		}
		rnd2 := rnd.Intn(len(parts) + 1)
		if rnd2 < len(parts) {
			parts[0], parts[rnd2] = parts[rnd2], parts[0]
		}
		fixedIn := strings.Join(parts, "&")
		got := e.osvCall(sc, pv, fixedIn)
		r.Count("osv-free:" + sc.name + ":" + got)
	}
}

// ---- corpus and witnesses ----

func undash(s string) string {
	if s == "-" {
		return ""
	}
	return s
}

// corpus replays corpus/C03/*.txt through the same paths as generated cases.
func (e *env) corpus() error {
	if e.cfg.Corpus == "" {
		return nil
	}
	files, _ := filepath.Glob(filepath.Join(e.cfg.Corpus, "*.txt"))
	sort.Strings(files)
	for _, f := range files {
		b, err := os.ReadFile(f)
		if err != nil {
			return err
		}
		for _, line := range strings.Split(string(b), "\n") {
			w := strings.Fields(line)
			if len(w) == 0 || strings.HasPrefix(w[0], "#") {
				continue
			}
			e.r.Count("corpus:" + w[0])
			switch {
			case w[0] == "rpmcmp" && len(w) == 3:
				a, b := undash(w[1]), undash(w[2])
				e.r.Op("rpmcmp "+hexs(a)+" "+hexs(b), timed(5*time.Second, func() string { return sign(rpmver.NewVersion(a).Compare(rpmver.NewVersion(b))) }), true)
			case w[0] == "apkcmp" && len(w) == 3:
				a, b := undash(w[1]), undash(w[2])
				got := timed(5*time.Second, func() string { return apkCompare(a, b) })
				e.r.Op("apkcmp "+hexs(a)+" "+hexs(b), got, true)
				e.r.Op("apkcmp2 "+hexs(a)+" "+hexs(b), got, true)
			case w[0] == "debcmp" && len(w) == 3:
				a, b := undash(w[1]), undash(w[2])
				line := "debcmp " + hexs(a) + " " + hexs(b)
				if debHangShape(a, b) {
					e.deferAlways(probeReq{"debcmp", []string{a, b}}, line, func(got string) {
						if got == "hang" {
							e.r.Fail(findingDebHang, fmt.Sprintf("go-deb-version Compare(%q,%q) does not return", a, b))
						}
					})
				} else {
					e.r.Op(line, timed(5*time.Second, func() string { return debCompare(a, b) }), true)
				}
			case w[0] == "vuln" && len(w) == 4:
				m := matcherByName(w[1])
				if m == nil {
					return fmt.Errorf("corpus %s: unknown matcher %q", f, w[1])
				}
				p, a := pkg{version: undash(w[2])}, advisory{fixed: undash(w[3])}
				var rc *rhelCase
				if w[1] == "rhel" {
					c := rhelCases()[0]
					rc = &c
				}
				line := vulnLine(w[1], p, a, rc)
				if (w[1] == "debian" || w[1] == "ubuntu") && a.fixed != "" && debHangShape(p.version, a.fixed) {
					name := w[1]
					e.deferAlways(probeReq{"vuln", []string{name, p.version, a.fixed}}, line, func(got string) {
						if got == "hang" {
							e.r.KnownSeen(findingDebHang, fmt.Sprintf("%s Vulnerable(package %s, fixed %s) does not return", name, p.version, a.fixed))
						}
					})
				} else {
					e.r.Op(line, call(m, p, a, rc), true)
				}
			case w[0] == "osvx" && len(w) == 5:
				var sc *langScheme
				for _, x := range langSchemes() {
					if x.name == w[1] {
						x := x
						sc = &x
					}
				}
				if sc == nil {
					return fmt.Errorf("corpus %s: unknown ecosystem %q", f, w[1])
				}
				got := e.osvCall(*sc, undash(w[2]), undash(w[3]))
				if got != w[4] {
					e.r.Fail("", fmt.Sprintf("%s: Vulnerable(package %q, FixedInVersion %q)=%s, the version scheme says %s", w[1], w[2], w[3], got, w[4]))
				}
			case w[0] == "archop" && len(w) == 4:
				var opn uint
				fmt.Sscan(w[1], &opn)
				op, a, b := claircore.ArchOp(opn), undash(w[2]), undash(w[3])
				got := timed(5*time.Second, func() string { return fmt.Sprint(op.Cmp(a, b)) })
				e.r.Op(fmt.Sprintf("archop %d %s %s %s", opn, hexs(a), hexs(b), reOutcome(b, a)), got, true)
				if got != fmt.Sprint(archExpected(op, a, b)) {
					e.r.Fail("", fmt.Sprintf("archop: ArchOp(%d).Cmp(%q,%q)=%s, regexp.MatchString says %v", opn, a, b, got, archExpected(op, a, b)))
				}
			default:
				return fmt.Errorf("corpus %s: bad line %q", f, line)
			}
		}
	}
	return nil
}

const findingRpmCaret = "rpm-caret"

// rpmCaretWitness replays the witness of the finding rpm-caret: rpm (>= 4.15)
// sorts 1.0^20230101 below 1.0.5 (a caret suffix is newer than the base
// version and older than any further release component); the pinned
// go-rpm-version has no caret, reads ^ as a separator and compares 20230101
// with 5.
func (e *env) rpmCaretWitness() {
	p, a := pkg{version: "1.0^20230101-1.el9"}, advisory{fixed: "1.0.5-1.el9"}
	for _, m := range rpmMatchers() {
		var rc *rhelCase
		if m.name == "rhel" {
			c := rhelCases()[0]
			rc = &c
		}
		got := call(m.m, p, a, rc)
		e.r.Case("caret "+m.name, true)
		if got == "false" {
			e.r.KnownSeen(findingRpmCaret, fmt.Sprintf("%s Vulnerable(package %s, fixed %s)=false; rpm orders 1.0^20230101 below 1.0.5", m.name, p.version, a.fixed))
		}
	}
}
