package c03

import (
	"strings"

	"github.com/quay/claircore/verifharness/internal/hx"
)

// An rpm version in the abstract: what the rpm version scheme orders, free
// of spelling. The order of two abstract versions is known by construction
// (cmpRpm below is the definition of the scheme, written on atoms, not a
// string algorithm): epochs numerically, then the atoms of the version, then
// the atoms of the release, atom by atom with  ~ < (end) < letters < number,
// letters by byte order, numbers by value.
//
// Carets are not generated: the pinned go-rpm-version predates them (see the
// finding rpm-caret).
type rpmAtom struct {
	kind byte   // 'n' number, 'a' letters, '~'
	s    string // digits without leading zeros ("0" for zero) or letters
}

type rpmVer struct {
	epoch   int
	version []rpmAtom
	release []rpmAtom
	hasRel  bool
}

func atomRank(a *rpmAtom) int {
	if a == nil {
		return 1
	}
	switch a.kind {
	case '~':
		return 0
	case 'a':
		return 2
	}
	return 3
}

func cmpInt(a, b int) int {
	switch {
	case a < b:
		return -1
	case a > b:
		return 1
	}
	return 0
}

// cmpDigits compares two canonical (no leading zero) digit strings by value.
func cmpDigits(a, b string) int {
	if len(a) != len(b) {
		return cmpInt(len(a), len(b))
	}
	return strings.Compare(a, b)
}

func cmpRpmAtoms(x, y []rpmAtom) int {
	for i := 0; ; i++ {
		var a, b *rpmAtom
		if i < len(x) {
			a = &x[i]
		}
		if i < len(y) {
			b = &y[i]
		}
		if a == nil && b == nil {
			return 0
		}
		if c := cmpInt(atomRank(a), atomRank(b)); c != 0 {
			return c
		}
		if a == nil || b == nil { // unreachable: ranks differ unless both nil
			return 0
		}
		switch a.kind {
		case 'n':
			if c := cmpDigits(a.s, b.s); c != 0 {
				return c
			}
		case 'a':
			if c := strings.Compare(a.s, b.s); c != 0 {
				return c
			}
		}
	}
}

func cmpRpm(a, b rpmVer) int {
	if c := cmpInt(a.epoch, b.epoch); c != 0 {
		return c
	}
	if c := cmpRpmAtoms(a.version, b.version); c != 0 {
		return c
	}
	return cmpRpmAtoms(a.release, b.release)
}

var rpmWords = []string{"a", "b", "el", "fc", "rc", "beta", "alpha", "git", "post", "Z", "el7_9", "x"}

func genDigits(r *hx.Rand) string {
	switch r.Intn(10) {
	case 0:
		return "0"
	case 1, 2, 3, 4:
		return string(rune('1' + r.Intn(9)))
	case 5, 6:
		return string(rune('1'+r.Intn(9))) + string(rune('0'+r.Intn(10)))
	case 7:
		// around the int64 / int32 boundaries and beyond
		return r.Pick("2147483647", "2147483648", "9223372036854775807", "9223372036854775808", "18446744073709551616", "99999999999999999999", "99999999999999999998")
	default:
		n := 3 + r.Intn(6)
		var b strings.Builder
		b.WriteByte(byte('1' + r.Intn(9)))
		for i := 1; i < n; i++ {
			b.WriteByte(byte('0' + r.Intn(10)))
		}
		return b.String()
	}
}

func genLetters(r *hx.Rand) string {
	w := rpmWords[r.Intn(len(rpmWords))]
	// keep only letters: digits/underscores inside would split the atom
	var b strings.Builder
	for _, c := range w {
		if (c >= 'a' && c <= 'z') || (c >= 'A' && c <= 'Z') {
			b.WriteRune(c)
		}
	}
	return b.String()
}

func genRpmAtoms(r *hx.Rand, n int) []rpmAtom {
	var out []rpmAtom
	for i := 0; i < n; i++ {
		switch c := r.Intn(10); {
		case c < 6:
			out = append(out, rpmAtom{'n', genDigits(r)})
		case c < 9:
			out = append(out, rpmAtom{'a', genLetters(r)})
		default:
			out = append(out, rpmAtom{'~', "~"})
		}
	}
	return out
}

func genRpm(r *hx.Rand) rpmVer {
	v := rpmVer{}
	if r.Chance(1, 4) {
		v.epoch = r.Intn(4)
		if r.Chance(1, 6) {
			v.epoch = 65534 + r.Intn(3) // around the 65535 "unfixed" bound of aws/rhel
		}
	}
	v.version = genRpmAtoms(r, 1+r.Intn(4))
	if r.Chance(3, 4) {
		v.hasRel = true
		v.release = genRpmAtoms(r, r.Intn(4))
	}
	return v
}

func cloneAtoms(a []rpmAtom) []rpmAtom { return append([]rpmAtom(nil), a...) }

// mutateRpm makes a small change, so that chains have many near-boundary pairs.
func mutateRpm(r *hx.Rand, v rpmVer) rpmVer {
	w := rpmVer{epoch: v.epoch, version: cloneAtoms(v.version), release: cloneAtoms(v.release), hasRel: v.hasRel}
	part := &w.version
	if w.hasRel && r.Chance(1, 2) {
		part = &w.release
	}
	switch r.Intn(8) {
	case 0:
		w.epoch = v.epoch + 1
	case 1:
		*part = append(*part, genRpmAtoms(r, 1)...)
	case 2:
		*part = append(*part, rpmAtom{'~', "~"}, rpmAtom{'a', "rc"}, rpmAtom{'n', genDigits(r)})
	case 3:
		if len(*part) > 0 {
			*part = (*part)[:len(*part)-1]
		}
	default:
		if len(*part) > 0 {
			i := r.Intn(len(*part))
			switch (*part)[i].kind {
			case 'n':
				(*part)[i] = rpmAtom{'n', bumpDigits(r, (*part)[i].s, genDigits)}
			case 'a':
				(*part)[i] = rpmAtom{'a', (*part)[i].s + string(rune('a'+r.Intn(26)))}
			default:
				(*part)[i] = rpmAtom{'n', genDigits(r)}
			}
		}
	}
	return w
}

// bumpDigits changes a canonical digit string a little: +1, -1, ×10, or a new one.
func bumpDigits(r *hx.Rand, s string, fresh func(*hx.Rand) string) string {
	switch r.Intn(4) {
	case 0: // +1
		b := []byte(s)
		i := len(b) - 1
		for ; i >= 0; i-- {
			if b[i] != '9' {
				b[i]++
				break
			}
			b[i] = '0'
		}
		if i < 0 {
			return "1" + string(b)
		}
		return string(b)
	case 1: // one digit longer
		if s == "0" {
			return "10"
		}
		return s + "0"
	case 2: // one digit shorter
		if len(s) > 1 {
			return s[:len(s)-1]
		}
		return "0"
	}
	return fresh(r)
}

var rpmSeps = []string{".", ".", ".", "_", "+", "..", "._"}

func renderRpmAtoms(r *hx.Rand, as []rpmAtom, allowDash bool) string {
	var b strings.Builder
	for i, a := range as {
		if i > 0 {
			prev := as[i-1]
			needSep := prev.kind == a.kind && a.kind != '~'
			if needSep || r.Chance(2, 3) && a.kind != '~' && prev.kind != '~' {
				if allowDash && r.Chance(1, 8) {
					b.WriteString("-")
				} else {
					b.WriteString(rpmSeps[r.Intn(len(rpmSeps))])
				}
			}
		}
		if a.kind == 'n' && r.Chance(1, 6) {
			b.WriteString(strings.Repeat("0", 1+r.Intn(2)))
		}
		b.WriteString(a.s)
	}
	if r.Chance(1, 12) {
		b.WriteString(".") // a trailing separator does not count
	}
	return b.String()
}

// renderRpm spells an abstract version; different spellings of the same
// abstract version are equal in the scheme.
func renderRpm(r *hx.Rand, v rpmVer) string {
	var b strings.Builder
	switch {
	case v.epoch > 0:
		if r.Chance(1, 8) {
			b.WriteString(" ") // NewVersion trims space left of the epoch
		}
		if r.Chance(1, 8) {
			b.WriteString("0")
		}
		b.WriteString(itoa(v.epoch))
		b.WriteString(":")
	case r.Chance(1, 5):
		b.WriteString("0:")
	}
	b.WriteString(renderRpmAtoms(r, v.version, false))
	if v.hasRel {
		b.WriteString("-")
		b.WriteString(renderRpmAtoms(r, v.release, true))
	}
	return b.String()
}

func itoa(n int) string {
	if n == 0 {
		return "0"
	}
	var d []byte
	for n > 0 {
		d = append([]byte{byte('0' + n%10)}, d...)
		n /= 10
	}
	return string(d)
}

// freeRpm is an arbitrary ASCII string over the characters the rpm parser
// distinguishes (model-vs-implementation only; no order is claimed).
func freeStr(r *hx.Rand, alphabet string, maxLen int) string {
	n := r.Intn(maxLen + 1)
	var b strings.Builder
	for i := 0; i < n; i++ {
		b.WriteByte(alphabet[r.Intn(len(alphabet))])
	}
	return b.String()
}

const rpmAlphabet = "0011223459abzAZ..--__~~::+^ \t"
