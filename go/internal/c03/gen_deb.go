package c03

import (
	"strconv"
	"strings"

	debver "github.com/knqyf263/go-deb-version"

	"github.com/quay/claircore/verifharness/internal/hx"
)

// A Debian version in the abstract (deb-version(7)): epoch, upstream version
// and revision, the last two as alternating (non-digit prefix, number) parts.
// The order is the policy's: epochs numerically, then upstream, then revision;
// parts pairwise, a missing part counting as ("", 0); prefixes character by
// character with  ~ < (end) < letters < everything else;  numbers by value.
// An absent revision is the revision "0", an absent epoch the epoch 0.
type debPart struct {
	pre string // non-digit prefix, "" only for the first part of an upstream version
	num string // canonical digits ("0" for zero); "" = no number after the prefix (counts 0)
}

type debVer struct {
	epoch    int
	upstream []debPart
	revision []debPart
	hasRev   bool
}

func debOrder(c byte, end bool) int {
	switch {
	case end:
		return 0
	case c == '~':
		return -1
	case (c >= 'a' && c <= 'z') || (c >= 'A' && c <= 'Z'):
		return int(c)
	}
	return int(c) + 256
}

func cmpDebPre(a, b string) int {
	for i := 0; i < len(a) || i < len(b); i++ {
		var x, y int
		if i < len(a) {
			x = debOrder(a[i], false)
		}
		if i < len(b) {
			y = debOrder(b[i], false)
		}
		if x != y {
			return cmpInt(x, y)
		}
	}
	return 0
}

func cmpDebParts(a, b []debPart) int {
	for i := 0; i < len(a) || i < len(b); i++ {
		var x, y debPart
		if i < len(a) {
			x = a[i]
		}
		if i < len(b) {
			y = b[i]
		}
		if c := cmpDebPre(x.pre, y.pre); c != 0 {
			return c
		}
		xn, yn := x.num, y.num
		if xn == "" {
			xn = "0"
		}
		if yn == "" {
			yn = "0"
		}
		if c := cmpDigits(xn, yn); c != 0 {
			return c
		}
	}
	return 0
}

func cmpDeb(a, b debVer) int {
	if c := cmpInt(a.epoch, b.epoch); c != 0 {
		return c
	}
	if c := cmpDebParts(a.upstream, b.upstream); c != 0 {
		return c
	}
	return cmpDebParts(a.revision, b.revision)
}

var debUpPre = []string{".", ".", ".", "+", "~", "~rc", "+dfsg", "a", "b", ".a", "~beta", "-", "_", "+b"}
var debRevPre = []string{".", "ubuntu", "+deb", "~", "+b", "build", "."}

// genDebDigits: values a dpkg int holds (the library clamps at MaxInt64; see freeform inputs for more).
func genDebDigits(r *hx.Rand) string {
	switch r.Intn(8) {
	case 0:
		return "0"
	case 1, 2, 3:
		return string(rune('1' + r.Intn(9)))
	case 4, 5:
		return string(rune('1'+r.Intn(9))) + string(rune('0'+r.Intn(10)))
	case 6:
		return r.Pick("2147483647", "20240131", "1000", "999")
	default:
		n := 3 + r.Intn(5)
		var b strings.Builder
		b.WriteByte(byte('1' + r.Intn(9)))
		for i := 1; i < n; i++ {
			b.WriteByte(byte('0' + r.Intn(10)))
		}
		return b.String()
	}
}

func genDebParts(r *hx.Rand, n int, pres []string, firstEmpty bool) []debPart {
	var out []debPart
	for i := 0; i < n; i++ {
		p := debPart{pre: pres[r.Intn(len(pres))], num: genDebDigits(r)}
		if i == 0 && firstEmpty {
			p.pre = ""
		}
		out = append(out, p)
	}
	return out
}

func genDeb(r *hx.Rand) debVer {
	v := debVer{}
	if r.Chance(1, 4) {
		v.epoch = r.Intn(3)
	}
	v.upstream = genDebParts(r, 1+r.Intn(4), debUpPre, true)
	if r.Chance(2, 3) {
		v.hasRev = true
		v.revision = genDebParts(r, 1+r.Intn(2), debRevPre, r.Chance(4, 5))
	}
	v.fix()
	return v
}

// fix keeps the abstract version spellable: '-' may occur in the upstream
// version only when a revision follows.
func (v *debVer) fix() {
	if !v.hasRev {
		for i := range v.upstream {
			v.upstream[i].pre = strings.ReplaceAll(v.upstream[i].pre, "-", ".")
		}
	}
	if len(v.upstream) > 0 {
		v.upstream[0].pre = ""
		if v.upstream[0].num == "" {
			v.upstream[0].num = "0"
		}
	}
}

func cloneParts(p []debPart) []debPart { return append([]debPart(nil), p...) }

func mutateDeb(r *hx.Rand, v debVer) debVer {
	w := debVer{epoch: v.epoch, upstream: cloneParts(v.upstream), revision: cloneParts(v.revision), hasRev: v.hasRev}
	part, pres := &w.upstream, debUpPre
	if w.hasRev && r.Chance(1, 2) {
		part, pres = &w.revision, debRevPre
	}
	switch r.Intn(8) {
	case 0:
		w.epoch++
	case 1:
		*part = append(*part, genDebParts(r, 1, pres, false)...)
	case 2:
		*part = append(*part, debPart{pre: "~", num: genDebDigits(r)})
	case 3:
		if len(*part) > 1 {
			*part = (*part)[:len(*part)-1]
		}
	case 4:
		if len(*part) > 0 {
			i := r.Intn(len(*part))
			(*part)[i].pre = pres[r.Intn(len(pres))]
		}
	default:
		if len(*part) > 0 {
			i := r.Intn(len(*part))
			(*part)[i].num = bumpDigits(r, (*part)[i].num, genDebDigits)
			if len((*part)[i].num) > 18 {
				(*part)[i].num = (*part)[i].num[:18]
			}
		}
	}
	w.fix()
	return w
}

func renderDebParts(r *hx.Rand, ps []debPart, zeros bool) string {
	var b strings.Builder
	for _, p := range ps {
		b.WriteString(p.pre)
		if zeros && r.Chance(1, 5) {
			b.WriteString(strings.Repeat("0", 1+r.Intn(2)))
		}
		b.WriteString(p.num)
	}
	return b.String()
}

// renderDeb spells an abstract version. With variants, the spelling may use
// the freedoms that do not change the version: leading zeros, an explicit
// "0:" epoch, an explicit "-0" revision.
func renderDeb(r *hx.Rand, v debVer, variants bool) string {
	var b strings.Builder
	switch {
	case v.epoch > 0:
		b.WriteString(itoa(v.epoch))
		b.WriteString(":")
	case variants && r.Chance(1, 6):
		b.WriteString("0:")
	}
	b.WriteString(renderDebParts(r, v.upstream, variants))
	if v.hasRev {
		b.WriteString("-")
		b.WriteString(renderDebParts(r, v.revision, variants))
	} else if variants && r.Chance(1, 10) {
		b.WriteString("-0")
	}
	s := b.String()
	if variants && r.Chance(1, 12) {
		s = " " + s + " " // NewVersion trims space
	}
	return s
}

const debAlphabet = "0011223459abzAZ..--__~~::++ ^"

// debHangShape reports whether (a, b) has the shape of the finding
// deb-compare-hang: both parse, the epochs are equal, and the upstream
// versions (or, these being identical, the revisions) are different strings
// whose digit runs (as ints, clamped) and non-digit runs are pairwise equal.
// It is used to route such calls to a subprocess (they never return) and to
// classify an observed hang; it is not an oracle for anything else.
func debHangShape(a, b string) bool {
	ea, ua, ra, ok1 := debSplit(a)
	eb, ub, rb, ok2 := debSplit(b)
	if !ok1 || !ok2 || ea != eb {
		return false
	}
	if ua != ub {
		return debSameRuns(ua, ub)
	}
	return ra != rb && debSameRuns(ra, rb)
}

func debSplit(s string) (epoch int, up, rev string, ok bool) {
	if _, err := debver.NewVersion(s); err != nil {
		return 0, "", "", false
	}
	s = strings.TrimSpace(s)
	if i := strings.Index(s, ":"); i >= 0 {
		epoch, _ = strconv.Atoi(s[:i])
		s = s[i+1:]
	}
	up = s
	if i := strings.LastIndex(s, "-"); i >= 0 {
		up, rev = s[:i], s[i+1:]
	}
	return epoch, up, rev, true
}

func debRuns(s string) (nums, strs []string) {
	i := 0
	if len(s) > 0 && s[0] >= '0' && s[0] <= '9' {
		strs = append(strs, "")
	}
	for i < len(s) {
		j := i
		d := s[i] >= '0' && s[i] <= '9'
		for j < len(s) && (s[j] >= '0' && s[j] <= '9') == d {
			j++
		}
		if d {
			n := strings.TrimLeft(s[i:j], "0")
			if len(n) > 19 || (len(n) == 19 && n > "9223372036854775807") {
				n = "9223372036854775807"
			}
			nums = append(nums, n)
		} else {
			strs = append(strs, s[i:j])
		}
		i = j
	}
	return nums, strs
}

func debSameRuns(a, b string) bool {
	na, sa := debRuns(a)
	nb, sb := debRuns(b)
	for i := 0; i < len(na) || i < len(nb); i++ {
		var x, y string
		if i < len(na) {
			x = na[i]
		}
		if i < len(nb) {
			y = nb[i]
		}
		if x != y {
			return false
		}
	}
	for i := 0; i < len(sa) || i < len(sb); i++ {
		var x, y string
		if i < len(sa) {
			x = sa[i]
		}
		if i < len(sb) {
			y = sb[i]
		}
		if x != y {
			return false
		}
	}
	return true
}
