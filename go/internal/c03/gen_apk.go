package c03

import (
	"strings"

	"github.com/quay/claircore/verifharness/internal/hx"
)

// An apk version in the abstract (apk-tools version grammar):
//
//	N(.N)*[letter][_suffix[N]][-rN]
//
// ordered as the tuple (numbers, letter, suffix, suffix number, revision):
// numbers component-wise, a longer list above its prefix; a letter above none;
// pre-release suffixes alpha < beta < pre < rc below no suffix, post-release
// cvs < svn < git < hg < p above it; a suffix number above none; a revision
// above none. Components after the first are spelled without leading zeros
// (apk gives those a fractional meaning that is left to the model comparison).
type apkVer struct {
	nums   []string // canonical digits
	letter byte     // 0 = none
	suffix int      // 0 none, -4..-1 alpha,beta,pre,rc, 1..5 cvs,svn,git,hg,p
	sufNum string   // "" = none
	rev    string   // "" = none
}

var apkSuffixName = map[int]string{-4: "alpha", -3: "beta", -2: "pre", -1: "rc", 1: "cvs", 2: "svn", 3: "git", 4: "hg", 5: "p"}

func cmpOptDigits(a, b string) int {
	switch {
	case a == "" && b == "":
		return 0
	case a == "":
		return -1
	case b == "":
		return 1
	}
	return cmpDigits(a, b)
}

func cmpApk(a, b apkVer) int {
	for i := 0; i < len(a.nums) || i < len(b.nums); i++ {
		if i >= len(a.nums) {
			return -1
		}
		if i >= len(b.nums) {
			return 1
		}
		if c := cmpDigits(a.nums[i], b.nums[i]); c != 0 {
			return c
		}
	}
	if c := cmpInt(int(a.letter), int(b.letter)); c != 0 {
		return c
	}
	if c := cmpInt(a.suffix, b.suffix); c != 0 {
		return c
	}
	if c := cmpOptDigits(a.sufNum, b.sufNum); c != 0 {
		return c
	}
	return cmpOptDigits(a.rev, b.rev)
}

func genApkDigits(r *hx.Rand) string {
	switch r.Intn(8) {
	case 0:
		return "0"
	case 1, 2, 3, 4:
		return string(rune('1' + r.Intn(9)))
	case 5, 6:
		return string(rune('1'+r.Intn(9))) + string(rune('0'+r.Intn(10)))
	default:
		return r.Pick("100", "2024", "20240131", "2147483647", "999")
	}
}

func genApk(r *hx.Rand) apkVer {
	v := apkVer{}
	for i, n := 0, 1+r.Intn(4); i < n; i++ {
		v.nums = append(v.nums, genApkDigits(r))
	}
	if r.Chance(1, 5) {
		v.letter = byte('a' + r.Intn(26))
	}
	if r.Chance(1, 3) {
		v.suffix = []int{-4, -3, -2, -1, 1, 2, 3, 4, 5}[r.Intn(9)]
		if r.Chance(2, 3) {
			v.sufNum = genApkDigits(r)
		}
	}
	if r.Chance(2, 3) {
		v.rev = genApkDigits(r)
	}
	v.fix()
	return v
}

// fix avoids one shape: a version that ends right after a ".0" component.
// apk-tools' tokenizer (and its port) then sees END where the same prefix
// followed by anything else yields a DIGIT token, so "1.0" sorts below
// "1.0_beta"; with a revision (as every Alpine package has) the order is the
// documented one. The shape is left to the model comparison.
func (v *apkVer) fix() {
	if n := len(v.nums); n >= 2 && v.nums[n-1] == "0" && v.letter == 0 && v.suffix == 0 && v.rev == "" {
		v.rev = "0"
	}
}

func mutateApk(r *hx.Rand, v apkVer) apkVer {
	w := v
	w.nums = append([]string(nil), v.nums...)
	switch r.Intn(9) {
	case 0:
		w.nums = append(w.nums, genApkDigits(r))
	case 1:
		if len(w.nums) > 1 {
			w.nums = w.nums[:len(w.nums)-1]
		}
	case 2:
		if w.letter == 0 {
			w.letter = byte('a' + r.Intn(26))
		} else if r.Chance(1, 2) {
			w.letter = 0
		} else {
			w.letter = byte('a' + r.Intn(26))
		}
	case 3:
		w.suffix = []int{-4, -3, -2, -1, 0, 1, 2, 3, 4, 5}[r.Intn(10)]
		if w.suffix == 0 {
			w.sufNum = ""
		}
	case 4:
		if w.suffix != 0 {
			if w.sufNum == "" || r.Chance(1, 4) {
				w.sufNum = genApkDigits(r)
			} else {
				w.sufNum = capDigits(bumpDigits(r, w.sufNum, genApkDigits))
			}
		}
	case 5:
		if w.rev == "" || r.Chance(1, 4) {
			w.rev = genApkDigits(r)
		} else if r.Chance(1, 4) {
			w.rev = ""
		} else {
			w.rev = capDigits(bumpDigits(r, w.rev, genApkDigits))
		}
	default:
		i := r.Intn(len(w.nums))
		w.nums[i] = capDigits(bumpDigits(r, w.nums[i], genApkDigits))
	}
	w.fix()
	return w
}

// capDigits keeps numbers within what an apk int component holds.
func capDigits(s string) string {
	if len(s) > 15 {
		return s[:15]
	}
	return s
}

// renderApk spells an abstract version; with variants it may add leading
// zeros where they are insignificant (first component, suffix number, revision).
func renderApk(r *hx.Rand, v apkVer, variants bool) string {
	var b strings.Builder
	z := func() {
		if variants && r.Chance(1, 6) {
			b.WriteString("0")
		}
	}
	for i, n := range v.nums {
		if i > 0 {
			b.WriteString(".")
		} else {
			z()
		}
		b.WriteString(n)
	}
	if v.letter != 0 {
		b.WriteByte(v.letter)
	}
	if v.suffix != 0 {
		b.WriteString("_" + apkSuffixName[v.suffix])
		if v.sufNum != "" {
			z()
			b.WriteString(v.sufNum)
		}
	}
	if v.rev != "" {
		b.WriteString("-r")
		z()
		b.WriteString(v.rev)
	}
	return b.String()
}

var apkFreeWords = []string{"_alpha", "_beta", "_pre", "_rc", "_cvs", "_svn", "_git", "_hg", "_p", "-r", ".", ".0", ".00", "0", "1", "9", "10", "a", "z", "A", "_", "-", "~", "_x", "99999999999999999999", "p", "pre"}

func freeApk(r *hx.Rand) string {
	var b strings.Builder
	if r.Chance(4, 5) {
		b.WriteString(genApkDigits(r))
	}
	for i, n := 0, r.Intn(6); i < n; i++ {
		b.WriteString(apkFreeWords[r.Intn(len(apkFreeWords))])
	}
	return b.String()
}

const apkAlphabet = "0011259abprcZ.._--~+"
