package c03

import (
	"encoding/json"
	"fmt"
	"os"
	"os/exec"
	"path/filepath"
	"time"

	"github.com/quay/claircore/verifharness/internal/hx"
)

// go-deb-version's compare loop does not return on differently spelled equal
// versions, and a spinning goroutine cannot be stopped. Calls predicted to be
// of that shape are therefore not made in-process: they are collected and run
// in one child process (this binary, C03_PROBE set) that reports which calls
// returned within the deadline and is then killed. What is recorded is still
// what the real code did.

type probeReq struct {
	Kind string   `json:"kind"` // debcmp | vuln
	Args []string `json:"args"` // debcmp: a b; vuln: matcher pkgver fixed
}

type pendingOp struct {
	req  probeReq
	line string           // protocol line ("" = oracle only)
	then func(got string) // oracle on the real answer
}

// maxPending caps the calls of one kind sent to the child (each of them
// spins a core until the child is killed).
const maxPending = 16

func (e *env) defer_(req probeReq, line string, then func(string)) {
	n := 0
	for _, p := range e.pending {
		if p.req.Kind == req.Kind {
			n++
		}
	}
	if n >= maxPending {
		e.skipped++
		e.r.Count("probe:skipped-over-cap:" + req.Kind)
		return
	}
	e.pending = append(e.pending, pendingOp{req, line, then})
}

// deferAlways is defer_ without the cap (corpus and witness lines).
func (e *env) deferAlways(req probeReq, line string, then func(string)) {
	e.pending = append(e.pending, pendingOp{req, line, then})
}

func runProbe(req probeReq) string {
	switch req.Kind {
	case "debcmp":
		return debCompare(req.Args[0], req.Args[1])
	case "vuln":
		m := matcherByName(req.Args[0])
		if m == nil {
			return "bad-matcher"
		}
		return callRaw(m, pkg{version: req.Args[1]}, advisory{fixed: req.Args[2]}, nil)
	}
	return "bad-kind"
}

// probeChild is the child side: run everything concurrently, report, exit.
func probeChild(in string) error {
	b, err := os.ReadFile(in)
	if err != nil {
		return err
	}
	var reqs []probeReq
	if err := json.Unmarshal(b, &reqs); err != nil {
		return err
	}
	type res struct {
		i int
		s string
	}
	ch := make(chan res, len(reqs))
	for i, q := range reqs {
		go func(i int, q probeReq) { ch <- res{i, hx.Guard(func() string { return runProbe(q) })} }(i, q)
	}
	out := make([]string, len(reqs))
	for i := range out {
		out[i] = "hang"
	}
	deadline := time.After(2500 * time.Millisecond)
	for n := 0; n < len(reqs); n++ {
		select {
		case r := <-ch:
			out[r.i] = r.s
		case <-deadline:
			n = len(reqs)
		}
	}
	ob, _ := json.Marshal(out)
	if err := os.WriteFile(in+".out", ob, 0o644); err != nil {
		return err
	}
	os.Exit(0)
	return nil
}

// flushPending runs the collected calls in a child and emits their lines.
func (e *env) flushPending() error {
	if len(e.pending) == 0 {
		return nil
	}
	dir := filepath.Join(e.cfg.OutDir, "probe")
	if err := os.MkdirAll(dir, 0o755); err != nil {
		return err
	}
	reqs := make([]probeReq, len(e.pending))
	for i, p := range e.pending {
		reqs[i] = p.req
	}
	b, _ := json.Marshal(reqs)
	in := filepath.Join(dir, "reqs.json")
	if err := os.WriteFile(in, b, 0o644); err != nil {
		return err
	}
	exe, err := os.Executable()
	if err != nil {
		return err
	}
	cmd := exec.Command(exe, "-out", dir)
	cmd.Env = append(os.Environ(), "C03_PROBE="+in)
	done := make(chan error, 1)
	if err := cmd.Start(); err != nil {
		return err
	}
	go func() { done <- cmd.Wait() }()
	select {
	case <-done:
	case <-time.After(30 * time.Second):
		cmd.Process.Kill()
		<-done
	}
	var out []string
	ob, err := os.ReadFile(in + ".out")
	if err == nil {
		err = json.Unmarshal(ob, &out)
	}
	if err != nil || len(out) != len(reqs) {
		return fmt.Errorf("probe child produced no result: %v", err)
	}
	for i, p := range e.pending {
		if p.line != "" {
			e.r.Op(p.line, out[i], true)
		}
		e.r.Count("probe:" + p.req.Kind + ":" + out[i])
		if p.then != nil {
			p.then(out[i])
		}
	}
	e.pending = nil
	return nil
}
