package c03

// Concurrent evaluation.  libvuln runs one goroutine per matcher and serves
// several scans at once, so every call on the evaluation path — ArchOp.Cmp,
// the Vulnerable functions, Version / Range, Controller.Match / matcher.Match
// with the shared matcher objects — is executed by many goroutines at the same
// time, with different arguments.  The answers are functions of the arguments
// alone: whatever the interleaving, a call must return what it returns when it
// runs alone.  This section computes every answer sequentially first (these
// are ordinary protocol lines, compared with the model), then has N goroutines
// (N >= 4, GOMAXPROCS raised if needed), released together by a barrier,
// repeat the same calls many times, each goroutine working on other arguments
// than its neighbours at any moment, and compares every answer with the
// sequential one.  The amount of work is fixed by the tier, not by the clock;
// on correct code no interleaving can produce a difference.

import (
	"fmt"
	"os"
	"runtime"
	"strings"
	"sync"

	"github.com/quay/claircore"
	"github.com/quay/claircore/libvuln/driver"
	"github.com/quay/claircore/nodejs"
	"github.com/quay/claircore/verifharness/internal/hx"
)

type concCase struct {
	kind string        // archop | vuln | range | scan
	desc string        // the call, readable
	run  func() string // evaluates the call with arguments of its own (nothing shared with other cases but the code under test)
	want string        // the answer of the call running alone
}

type concMiss struct {
	c   *concCase
	got string
}

// concRun has g goroutines go through their share of the cases iters times.
// Case i belongs to goroutine i mod g, so at any moment the goroutines are
// busy with different arguments.  Returns the first disagreement of each goroutine.
func concRun(cases []*concCase, g, iters int) []concMiss {
	start := make(chan struct{})
	var wg sync.WaitGroup
	misses := make([]*concMiss, g)
	var stop sync.Once
	stopped := make(chan struct{})
	for w := 0; w < g; w++ {
		var mine []*concCase
		for i := w; i < len(cases); i += g {
			mine = append(mine, cases[i])
		}
		if len(mine) == 0 {
			continue
		}
		wg.Add(1)
		go func(w int, mine []*concCase) {
			defer wg.Done()
			<-start
			for it := 0; it < iters; it++ {
				select {
				case <-stopped:
					return
				default:
				}
				for _, c := range mine {
					if got := c.run(); got != c.want {
						misses[w] = &concMiss{c, got}
						stop.Do(func() { close(stopped) })
						return
					}
				}
			}
		}(w, mine)
	}
	close(start)
	wg.Wait()
	var out []concMiss
	for _, m := range misses {
		if m != nil {
			out = append(out, *m)
		}
	}
	return out
}

// concArchCases: ArchOp.Cmp over many different patterns and architectures
// (every feed pattern, anchored forms, real regexp syntax, syntax errors).
func (e *env) concArchCases(n int) []*concCase {
	var out []*concCase
	add := func(op claircore.ArchOp, a, b string) {
		c := &concCase{kind: "archop", desc: fmt.Sprintf("ArchOp(%d).Cmp(%q,%q)", uint(op), a, b)}
		c.run = func() string { return fmt.Sprint(op.Cmp(a, b)) }
		c.want = timed5(c.run)
		e.r.Op(fmt.Sprintf("archop %d %s %s %s", uint(op), hexs(a), hexs(b), reOutcome(b, a)), c.want, true)
		out = append(out, c)
	}
	// every pattern with an architecture it matches and one it does not
	for _, p := range archPatterns {
		for _, a := range []string{"x86_64", "s390x", "ppc64", "noarch", "i686"} {
			add(claircore.OpPatternMatch, a, p)
		}
	}
	for len(out) < n {
		a, b, op := e.genArch()
		add(op, a, b)
	}
	return out
}

// concVulnCases: whole Vulnerable calls of every matcher; the rpm family with
// architecture patterns that differ from advisory to advisory.
func (e *env) concVulnCases(chains int) []*concCase {
	rnd := e.rnd
	var out []*concCase
	add := func(name string, m driver.Matcher, p pkg, a advisory, rc *rhelCase, line string) {
		c := &concCase{kind: "vuln", desc: fmt.Sprintf("%s Vulnerable(package %q arch %q; fixed %q advisory-version %q arch %q op %d)", name, p.version, p.arch, a.fixed, a.pkgVersion, a.pkgArch, uint(a.op))}
		c.run = func() string { return hx.Guard(func() string { return callRaw(m, p, a, rc) }) }
		c.want = timed5(c.run)
		if line != "" {
			e.r.Op(line, c.want, true)
		}
		out = append(out, c)
	}
	rcs := rhelCases()
	for k := 0; k < chains; k++ {
		chain := e.rpmChain(4)
		for _, m := range rpmMatchers() {
			for j := 0; j < 4; j++ {
				pe, fe := chain[rnd.Intn(len(chain))], chain[rnd.Intn(len(chain))]
				pa := rnd.Pick(append(arches, fragArches...)...)
				a := advisory{fixed: fe.spell, pkgArch: archPatterns[rnd.Intn(len(archPatterns))], op: claircore.OpPatternMatch}
				if rnd.Chance(1, 5) {
					a.fixed, a.pkgVersion = "", fe.spell
				}
				p := pkg{pe.spell, pa}
				var rc *rhelCase
				if m.name == "rhel" {
					rc = &rcs[rnd.Intn(3)] // a passing gate: the architecture decides
				}
				add(m.name, m.m, p, a, rc, vulnLine(m.name, p, a, rc))
			}
		}
		dchain := e.debChain(4)
		for _, m := range debMatchers() {
			for j := 0; j < 3; j++ {
				pe, fe := dchain[rnd.Intn(len(dchain))], dchain[rnd.Intn(len(dchain))]
				if debHangShape(pe.spell, fe.spell) {
					continue
				}
				p, a := pkg{version: pe.spell}, advisory{fixed: fe.spell}
				add(m.name, m.m, p, a, nil, vulnLine(m.name, p, a, nil))
			}
		}
		achain := e.apkChain(4)
		for j := 0; j < 3; j++ {
			p, a := pkg{version: achain[rnd.Intn(len(achain))].spell}, advisory{fixed: achain[rnd.Intn(len(achain))].spell}
			add("alpine", matcherByName("alpine"), p, a, nil, vulnLine("alpine", p, a, nil))
		}
		for _, sc := range langSchemes() {
			lchain := e.langChain(sc.name, 4)
			for j := 0; j < 3; j++ {
				pv := lchain[rnd.Intn(len(lchain))].spell
				fixedIn := rnd.Pick("fixed", "lastAffected", "introduced") + "=" + lchain[rnd.Intn(len(lchain))].spell
				p, a := pkg{version: pv}, advisory{fixed: fixedIn}
				add(sc.name, sc.m, p, a, nil, "osvs "+sc.name+" "+hexs(pv)+" "+hexs(fixedIn))
			}
		}
	}
	return out
}

// concRangeCases: Version.Compare / Range.Contains.
func (e *env) concRangeCases(n int) []*concCase {
	var out []*concCase
	for i := 0; i < n; i++ {
		k := nvKinds[e.rnd.Intn(len(nvKinds))]
		lo, up, v := genNVersion(e.rnd, k), genNVersion(e.rnd, k), genNVersion(e.rnd, k)
		c := &concCase{kind: "range", desc: fmt.Sprintf("Range[%q %v, %q %v).Contains(%q %v)", lo.Kind, lo.V, up.Kind, up.V, v.Kind, v.V)}
		c.run = func() string {
			l, u, x := lo, up, v
			return fmt.Sprint((&claircore.Range{Lower: l, Upper: u}).Contains(&x)) + sign(l.Compare(&x))
		}
		c.want = timed5(c.run)
		out = append(out, c)
	}
	return out
}

// concScanCases: whole matcher.Match runs (several scans at a time, the
// matcher objects shared as in a Libvuln instance).
func (e *env) concScanCases(n int, d0, d1 []driver.Matcher) []*concCase {
	var out []*concCase
	ecos := []string{"rhel", "aws", "oracle", "suse", "rhel", "debian", "python", "alpine", "gobin", "rhcc", "ruby", "java", "ubuntu", "photon"}
	for i := 0; len(out) < n && i < 12*n; i++ {
		var eco scanEco
		for _, x := range scanEcos {
			if x.id == ecos[i%len(ecos)] {
				eco = x
			}
		}
		sc := e.genScan(eco, scanOpt{})
		if sc == nil {
			continue
		}
		if eco.family == "rpm" {
			// every advisory with an architecture pattern of its own
			for _, a := range sc.advs {
				for {
					if pat := archPatterns[e.rnd.Intn(len(archPatterns))]; reComputedGo(pat) {
						a.v.ArchOperation, a.v.Package.Arch = claircore.OpPatternMatch, pat
						break
					}
				}
			}
		}
		ms := d0
		switch sc.set {
		case "D1":
			ms = d1
		case "M:nodejs":
			ms = []driver.Matcher{&nodejs.Matcher{}}
		}
		if preflight(ms, sc) != "" {
			continue
		}
		c := &concCase{kind: "scan", desc: "matcher.Match: " + sc.describe()}
		c.run = func() string { s, _ := runScan(ms, sc); return s }
		c.want = c.run()
		if strings.HasSuffix(c.want, " -") && i%4 != 0 {
			continue // mostly scans in which Vulnerable is reached and something is listed
		}
		e.r.Op(sc.line(), c.want, true)
		out = append(out, c)
	}
	return out
}

// timed5: the sequential answer (a panic is the observation "panic").
func timed5(f func() string) string { return hx.Guard(f) }

// concurrentOps is the section's entry point.
func (e *env) concurrentOps() {
	r := e.r
	g := runtime.GOMAXPROCS(0)
	if g < 4 {
		defer runtime.GOMAXPROCS(runtime.GOMAXPROCS(4))
		g = 4
	}
	if g > 8 {
		g = 8
	}
	r.Count(fmt.Sprintf("conc:goroutines=%d", g))
	d0, d1, ok := e.matcherSets()
	if !ok {
		return
	}
	skip := os.Getenv("C03_CONC_SKIP") // measurement aid: leave phases out to see what the others catch alone
	report := func(phase string, ms []concMiss) bool {
		for _, m := range ms {
			if os.Getenv("C03_TIMING") != "" {
				fmt.Fprintf(os.Stderr, "c03 conc caught in phase %s\n", phase)
			}
			r.Fail("", fmt.Sprintf("concurrent evaluation (%s, %d goroutines with different arguments): %s = %s, the same call running alone = %s", phase, g, m.c.desc, m.got, m.c.want))
		}
		return len(ms) > 0
	}
	arch := e.concArchCases(e.cfg.N(160, 240))
	vuln := e.concVulnCases(e.cfg.N(4, 6))
	rng := e.concRangeCases(e.cfg.N(64, 256))
	scan := e.concScanCases(e.cfg.N(32, 40), d0, d1)
	r.Count(fmt.Sprintf("conc:cases:archop=%d vuln=%d range=%d scan=%d", len(arch), len(vuln), len(rng), len(scan)))
	// rounds: every round releases the goroutines together again
	rounds := e.cfg.N(12, 24)
	for round := 0; round < rounds && !r.Stop(); round++ {
		// rotate the cases so the pairing of goroutines and arguments changes from round to round
		rot := func(cs []*concCase) []*concCase {
			if len(cs) == 0 {
				return cs
			}
			k := (round * 7) % len(cs)
			return append(append([]*concCase{}, cs[k:]...), cs[:k]...)
		}
		if !strings.Contains(skip, "archop") && report("ArchOp.Cmp", concRun(rot(arch), g, e.cfg.N(400, 500))) {
			return
		}
		if !strings.Contains(skip, "vuln") && report("Vulnerable", concRun(rot(vuln), g, e.cfg.N(40, 50))) {
			return
		}
		if report("Version/Range", concRun(rot(rng), g, e.cfg.N(50, 100))) {
			return
		}
		if !strings.Contains(skip, "scan") && report("matcher.Match, several scans at once", concRun(rot(scan), g, e.cfg.N(500, 500))) {
			return
		}
		// everything at once: scans next to single calls
		mixed := append([]*concCase{}, rot(scan)...)
		if !strings.Contains(skip, "mixed-single") {
			mixed = append(append(mixed, rot(vuln)...), rot(arch)...)
		}
		if report("matcher.Match next to Vulnerable and ArchOp.Cmp", concRun(mixed, g, e.cfg.N(2, 4))) {
			return
		}
		r.Count("conc:rounds")
		if os.Getenv("C03_TIMING") != "" {
			fmt.Fprintf(os.Stderr, "c03 conc round %d done\n", round)
		}
	}
	for _, k := range []string{"archop", "vuln", "range", "scan"} {
		r.Case("concurrent "+k, true)
	}
}
