package c03

import (
	"strings"

	"github.com/quay/claircore/verifharness/internal/hx"
)

// Conservative abstract versions for the three OSV language ecosystems. The
// version schemes themselves (PEP 440, RubyGems, Maven) are property C12's
// subject; here only shapes whose order every description of the scheme
// agrees on are generated, as (release numbers, stage, stage number):
//
//	PEP 440   [E!]N(.N)*  with one of  .devN < aN < bN < rcN < (final) < .postN,
//	          a pre-release number may be 0 or left out (1.0a = 1.0a0), and a pre or post
//	          release may carry its own .devM, which sorts just below it:
//	          X.devN < XaN.devM < XaN < … < X < X.postN.devM < X.postN
//	RubyGems  N(.N)*      with one of  .<word>[.N] (prerelease, words by ASCII) < (release)
//	Maven     N(.N)*      with one of  -alpha-N < -beta-N < -milestone-N < -rc-N < -SNAPSHOT < (release) < -sp-N
//
// Trailing zero release components are insignificant in all three.
type langVer struct {
	epoch   int      // PEP 440 only
	release []string // canonical digits
	stage   int      // 0 = final/release, <0 pre, >0 post
	word    string   // RubyGems prerelease word (stage = -1)
	num     string   // stage number ("" = none, counts 0)
	dev     string   // PEP 440: dev number of a pre / post release ("" = none); >= 1
}

func trimRelease(r []string) []string {
	n := len(r)
	for n > 0 && r[n-1] == "0" {
		n--
	}
	return r[:n]
}

func cmpLang(a, b langVer) int {
	if c := cmpInt(a.epoch, b.epoch); c != 0 {
		return c
	}
	x, y := trimRelease(a.release), trimRelease(b.release)
	for i := 0; i < len(x) || i < len(y); i++ {
		p, q := "0", "0"
		if i < len(x) {
			p = x[i]
		}
		if i < len(y) {
			q = y[i]
		}
		if c := cmpDigits(p, q); c != 0 {
			return c
		}
	}
	if c := cmpInt(a.stage, b.stage); c != 0 {
		return c
	}
	if c := strings.Compare(a.word, b.word); c != 0 {
		return c
	}
	p, q := a.num, b.num
	if p == "" {
		p = "0"
	}
	if q == "" {
		q = "0"
	}
	if c := cmpDigits(p, q); c != 0 {
		return c
	}
	// the dev release of a pre / post release sorts just below it
	switch {
	case a.dev == "" && b.dev == "":
		return 0
	case a.dev == "":
		return 1
	case b.dev == "":
		return -1
	}
	return cmpDigits(a.dev, b.dev)
}

func genLangDigits(r *hx.Rand) string {
	switch r.Intn(8) {
	case 0:
		return "0"
	case 1, 2, 3, 4:
		return string(rune('1' + r.Intn(9)))
	case 5, 6:
		return string(rune('1'+r.Intn(9))) + string(rune('0'+r.Intn(10)))
	default:
		return r.Pick("100", "2024", "20240131", "999")
	}
}

func posDigits(r *hx.Rand) string {
	for {
		if d := genLangDigits(r); d != "0" {
			return d
		}
	}
}

var gemWords = []string{"a", "alpha", "b", "beta", "pre", "rc", "dev"}

func genLang(r *hx.Rand, eco string) langVer {
	v := langVer{}
	if eco == "python" && r.Chance(1, 8) {
		v.epoch = 1 + r.Intn(2)
	}
	for i, n := 0, 1+r.Intn(4); i < n; i++ {
		v.release = append(v.release, genLangDigits(r))
	}
	if r.Chance(1, 2) {
		setStage(r, eco, &v)
	}
	return v
}

func setStage(r *hx.Rand, eco string, v *langVer) {
	v.word, v.num, v.dev = "", "", ""
	switch eco {
	case "python":
		v.stage = []int{-4, -4, -3, -2, -1, 0, 1}[r.Intn(7)]
		if v.stage != 0 {
			v.num = posDigits(r)
		}
		if v.stage < 0 && v.stage > -4 && r.Chance(1, 2) {
			v.num = r.Pick("0", "") // the zeroth pre-release, explicit or implicit
		}
		if v.stage != 0 && v.stage != -4 && r.Chance(1, 2) {
			v.dev = posDigits(r)
		}
	case "ruby":
		v.stage = []int{-1, 0}[r.Intn(2)]
		if v.stage != 0 {
			v.word = gemWords[r.Intn(len(gemWords))]
			if r.Chance(2, 3) {
				v.num = posDigits(r)
			}
		}
	case "java":
		v.stage = []int{-5, -4, -3, -2, -1, 0, 1}[r.Intn(7)]
		if v.stage != 0 && v.stage != -1 {
			v.num = posDigits(r)
		}
	}
}

func mutateLang(r *hx.Rand, eco string, v langVer) langVer {
	w := v
	w.release = append([]string(nil), v.release...)
	switch r.Intn(8) {
	case 0:
		if eco == "python" {
			w.epoch++
		}
	case 1:
		if len(w.release) < maxRelease(eco) {
			w.release = append(w.release, genLangDigits(r))
		}
	case 2:
		if len(w.release) > 1 {
			w.release = w.release[:len(w.release)-1]
		}
	case 3:
		setStage(r, eco, &w)
	case 5:
		if eco == "python" && w.stage != 0 && w.stage != -4 {
			// add, drop or change the dev number of a pre / post release
			switch {
			case w.dev == "":
				w.dev = posDigits(r)
			case r.Chance(1, 3):
				w.dev = ""
			default:
				w.dev = capLang(bumpDigits(r, w.dev, posDigits))
				if w.dev == "0" {
					w.dev = "1"
				}
			}
		} else if eco == "python" && w.stage == -4 {
			// a plain dev release turns into the dev release of the zeroth pre-release, or gets a larger number
			if r.Chance(1, 2) {
				w.stage, w.dev, w.num = []int{-3, -2, -1}[r.Intn(3)], w.num, r.Pick("0", "")
			} else {
				w.num = capLang(w.num + string(rune('0'+r.Intn(10))))
			}
		} else {
			i := r.Intn(len(w.release))
			w.release[i] = capLang(bumpDigits(r, w.release[i], genLangDigits))
		}
	case 4:
		if w.num != "" && w.num != "0" {
			w.num = capLang(bumpDigits(r, w.num, posDigits))
			if w.num == "0" {
				w.num = "1"
			}
		}
	default:
		i := r.Intn(len(w.release))
		w.release[i] = capLang(bumpDigits(r, w.release[i], genLangDigits))
	}
	return w
}

func capLang(s string) string {
	if len(s) > 9 {
		return s[:9]
	}
	return s
}

func renderLang(r *hx.Rand, eco string, v langVer, variants bool) string {
	var b strings.Builder
	rel := v.release
	if variants && r.Chance(1, 5) && len(rel) < maxRelease(eco) {
		rel = append(append([]string(nil), rel...), "0") // a trailing zero component
	}
	switch eco {
	case "python":
		if variants && r.Chance(1, 8) {
			b.WriteString("v")
		}
		if v.epoch != 0 {
			b.WriteString(itoa(v.epoch) + "!")
		}
		b.WriteString(strings.Join(rel, "."))
		switch v.stage {
		case -4:
			b.WriteString(pickV(r, variants, ".dev", "dev", "-dev", "_dev") + v.num)
		case -3:
			b.WriteString(pickV(r, variants, "a", ".a", "-a.", "_a", "alpha", "-alpha.") + v.num)
		case -2:
			b.WriteString(pickV(r, variants, "b", ".b", "-b", "_b_", "beta", ".beta.") + v.num)
		case -1:
			b.WriteString(pickV(r, variants, "rc", "c", ".rc", "pre", "-rc.", "preview", "-preview-") + v.num)
		case 1:
			b.WriteString(pickV(r, variants, ".post", "post", "-", "-r", ".rev") + v.num)
		}
		if v.dev != "" {
			b.WriteString(pickV(r, variants, ".dev", "dev", "-dev", "_dev.") + v.dev)
		}
		if variants && r.Chance(1, 8) {
			b.WriteString("+local.1")
		}
	case "ruby":
		b.WriteString(strings.Join(rel, "."))
		if v.stage != 0 {
			b.WriteString("." + v.word)
			if v.num != "" {
				b.WriteString("." + v.num)
			}
		}
		if variants && r.Chance(1, 8) {
			return " " + b.String() + " "
		}
	case "java":
		b.WriteString(strings.Join(rel, "."))
		switch v.stage {
		case -5:
			b.WriteString(pickV(r, variants, "-alpha-", "-ALPHA-", "-a") + v.num)
		case -4:
			b.WriteString(pickV(r, variants, "-beta-", "-Beta-", "-b") + v.num)
		case -3:
			b.WriteString(pickV(r, variants, "-milestone-", "-m") + v.num)
		case -2:
			b.WriteString(pickV(r, variants, "-rc-", "-cr-", "-RC-") + v.num)
		case -1:
			b.WriteString(pickV(r, variants, "-SNAPSHOT", "-snapshot"))
		case 1:
			b.WriteString(pickV(r, variants, "-sp-", "-SP-") + v.num)
		case 0:
			if variants {
				b.WriteString(r.Pick("", "", "", "-ga", "-final"))
			}
		}
	}
	return b.String()
}

func pickV(r *hx.Rand, variants bool, xs ...string) string {
	if !variants {
		return xs[0]
	}
	return xs[r.Intn(len(xs))]
}

const langAlphabet = "0012359abrcdevpost..--__!+ "
