package c03

import (
	"context"
	"fmt"
	"sort"
	"strings"
	"time"

	"github.com/quay/claircore"
	"github.com/quay/claircore/alpine"
	"github.com/quay/claircore/aws"
	"github.com/quay/claircore/datastore"
	"github.com/quay/claircore/debian"
	"github.com/quay/claircore/gobin"
	ctlpkg "github.com/quay/claircore/internal/matcher"
	"github.com/quay/claircore/libvuln/driver"
	"github.com/quay/claircore/nodejs"
	"github.com/quay/claircore/rhel/rhcc"
	"github.com/quay/claircore/verifharness/internal/hx"
)

// ---- claircore.Version / Range (the Go twin of the database-side range test) ----

func intsOf(v *claircore.Version) string {
	p := make([]string, 10)
	for i := range p {
		p[i] = fmt.Sprint(v.V[i])
	}
	return strings.Join(p, ",")
}

func nverWords(v *claircore.Version) string { return hexs(v.Kind) + " " + intsOf(v) }

var nvKinds = []string{"semver", "semver", "semver", "pep440", "", "x"}

func genNVersion(rnd *hx.Rand, kind string) claircore.Version {
	v := claircore.Version{Kind: kind}
	n := 1 + rnd.Intn(4)
	for i := 0; i < n; i++ {
		j := rnd.Intn(5)
		if rnd.Chance(1, 4) {
			j = rnd.Intn(10) // every one of the ten components
		}
		switch rnd.Intn(8) {
		case 0:
			v.V[j] = int32(-1 - rnd.Intn(3))
		case 1:
			v.V[j] = []int32{2147483647, -2147483648, 65535}[rnd.Intn(3)]
		default:
			v.V[j] = int32(rnd.Intn(4))
		}
	}
	return v
}

func (e *env) rangeOps(n int) {
	r, rnd := e.r, e.rnd
	for i := 0; i < n && !r.Stop(); i++ {
		k := nvKinds[rnd.Intn(len(nvKinds))]
		pick := func() claircore.Version {
			kk := k
			if rnd.Chance(1, 10) {
				kk = nvKinds[rnd.Intn(len(nvKinds))]
			}
			return genNVersion(rnd, kk)
		}
		lo, up, v := pick(), pick(), pick()
		if rnd.Chance(1, 3) {
			v = lo
			if rnd.Chance(1, 2) {
				v = up
			}
		}
		got := timed(5*time.Second, func() string { return sign(lo.Compare(&v)) })
		r.Op("vercmp "+nverWords(&lo)+" "+nverWords(&v), got, true)
		r.Count("vercmp:" + got)
		rg := &claircore.Range{Lower: lo, Upper: up}
		tag := "set"
		if rnd.Chance(1, 20) {
			rg, tag = nil, "nil"
		}
		got = timed(5*time.Second, func() string { return fmt.Sprint(rg.Contains(&v)) })
		r.Op("range "+tag+" "+nverWords(&lo)+" "+nverWords(&up)+" "+nverWords(&v), got, true)
		r.Count("range:" + got)
		// the statement: lower <= v < upper, read off the components
		if tag == "set" && lo.Kind == v.Kind && up.Kind == v.Kind {
			want := cmpV(lo, v) <= 0 && cmpV(v, up) < 0
			if got != fmt.Sprint(want) {
				r.Fail("", fmt.Sprintf("range: [%v,%v).Contains(%v)=%s", lo.V, up.V, v.V, got))
			}
		}
	}
}

func cmpV(a, b claircore.Version) int {
	for i := 0; i < 10; i++ {
		if a.V[i] != b.V[i] {
			return cmpInt(int(a.V[i]), int(b.V[i]))
		}
	}
	return 0
}

// ---- internal/matcher.Controller with a store that evaluates the range test ----

// rangeStore is a datastore.Vulnerability holding one advisory. With
// opts.VersionFiltering it returns the advisory only if its Range contains
// the record's normalized version and the kinds agree — what the SQL
// `version_kind = $kind AND vulnerable_range @> $version` does (PostgreSQL
// itself is modelled, not run).
type rangeStore struct {
	vuln      *claircore.Vulnerability
	sawFilter bool
	fail      bool
}

func dbHit(v *claircore.Vulnerability, rec *claircore.IndexRecord) bool {
	nv := &rec.Package.NormalizedVersion
	return v.Range != nil && v.Range.Lower.Kind == v.Range.Upper.Kind && v.Range.Lower.Kind == nv.Kind && v.Range.Contains(nv)
}

func (s *rangeStore) Get(_ context.Context, recs []*claircore.IndexRecord, opts datastore.GetOpts) (map[string][]*claircore.Vulnerability, error) {
	s.sawFilter = opts.VersionFiltering
	if s.fail {
		return nil, fmt.Errorf("store failure")
	}
	out := map[string][]*claircore.Vulnerability{}
	for _, rec := range recs {
		if !opts.VersionFiltering || dbHit(s.vuln, rec) {
			out[rec.Package.ID] = append(out[rec.Package.ID], s.vuln)
		}
	}
	return out, nil
}

type ctlMatcher struct {
	name string
	m    driver.Matcher
	rec  func(*claircore.IndexRecord) // makes the record pass the matcher's Filter
}

func ctlMatchers() []ctlMatcher {
	return []ctlMatcher{
		{"gobin", &gobin.Matcher{}, func(r *claircore.IndexRecord) {
			r.Repository = &claircore.Repository{Name: "go", URI: "https://pkg.go.dev/"}
		}},
		{"nodejs", &nodejs.Matcher{}, func(r *claircore.IndexRecord) { r.Repository = &claircore.Repository{Name: "npm"} }},
		{"rhcc", rhcc.Matcher, func(r *claircore.IndexRecord) { cp := rhcc.GoldRepo; r.Repository = &cp }},
		{"aws", &aws.Matcher{}, func(r *claircore.IndexRecord) { r.Distribution = &claircore.Distribution{DID: aws.ID} }},
		{"alpine", &alpine.Matcher{}, func(r *claircore.IndexRecord) { r.Distribution = &claircore.Distribution{DID: "alpine"} }},
		{"debian", &debian.Matcher{}, func(r *claircore.IndexRecord) { r.Distribution = &claircore.Distribution{DID: "debian"} }},
	}
}

// semverChain: normalized versions sorted, with ranks.
type nvElem struct {
	rank int
	v    claircore.Version
}

func (e *env) nvChain(n int) []nvElem {
	rnd := e.rnd
	var vs []claircore.Version
	base := claircore.Version{Kind: "semver"}
	base.V[1], base.V[2], base.V[3] = int32(rnd.Intn(3)), int32(rnd.Intn(3)), int32(rnd.Intn(3))
	vs = append(vs, base)
	for len(vs) < n {
		w := vs[rnd.Intn(len(vs))]
		j := 1 + rnd.Intn(3)
		w.V[j] += int32(rnd.Intn(3))
		if rnd.Chance(1, 4) {
			w.V[j] = 0
		}
		vs = append(vs, w)
	}
	sort.SliceStable(vs, func(i, j int) bool { return cmpV(vs[i], vs[j]) < 0 })
	var out []nvElem
	rank := 0
	for i, v := range vs {
		if i > 0 && cmpV(vs[i-1], v) != 0 {
			rank++
		}
		out = append(out, nvElem{rank, v})
	}
	return out
}

func (e *env) ctlOps(rounds int) {
	r, rnd := e.r, e.rnd
	for c := 0; c < rounds && !r.Stop(); c++ {
		chain := e.nvChain(5)
		rchain := e.rpmChain(4)
		for _, cm := range ctlMatchers() {
			for k := 0; k < 12 && !r.Stop(); k++ {
				pe, lo, up := chain[rnd.Intn(len(chain))], chain[rnd.Intn(len(chain))], chain[rnd.Intn(len(chain))]
				p := pkg{version: rchain[rnd.Intn(len(rchain))].spell}
				a := advisory{fixed: rchain[rnd.Intn(len(rchain))].spell}
				switch cm.name {
				case "alpine":
					p.version, a.fixed = "1.2."+itoa(rnd.Intn(3))+"-r0", "1.2."+itoa(rnd.Intn(3))+"-r0"
				case "debian":
					p.version, a.fixed = "1.2."+itoa(rnd.Intn(3))+"-1", "1.2."+itoa(rnd.Intn(3))+"-1"
				}
				rec := &claircore.IndexRecord{Package: &claircore.Package{ID: "7", Name: "pkg", Version: p.version, NormalizedVersion: pe.v}}
				cm.rec(rec)
				v := &claircore.Vulnerability{ID: "1", Name: "CVE-0", FixedInVersion: a.fixed, Package: &claircore.Package{Name: "pkg"},
					Range: &claircore.Range{Lower: lo.v, Upper: up.v}}
				switch rnd.Intn(12) {
				case 0:
					v.Range = nil
				case 1:
					v.Range.Upper.Kind = "pep440"
				case 2:
					rec.Package.NormalizedVersion.Kind = ""
				}
				if !cm.m.Filter(rec) {
					r.Fail("", fmt.Sprintf("ctl: %s.Filter rejects the record built for it", cm.name))
					continue
				}
				st := &rangeStore{vuln: v, fail: rnd.Chance(1, 25)}
				got := timed(10*time.Second, func() string {
					res, err := ctlpkg.NewController(cm.m, st).Match(context.Background(), []*claircore.IndexRecord{rec})
					if err != nil {
						return "err"
					}
					for _, x := range res[rec.Package.ID] {
						if x == v {
							return "true"
						}
					}
					return "false"
				})
				vf, isVF := cm.m.(driver.VersionFilter)
				auth := isVF && vf.VersionAuthoritative()
				hit := dbHit(v, rec)
				if st.fail {
					r.Count("ctl:" + cm.name + ":store-error:" + got)
					if got != "err" {
						r.Fail("", fmt.Sprintf("ctl: %s: store error but Match returned %s", cm.name, got))
					}
					continue
				}
				if st.sawFilter != isVF {
					r.Fail("", fmt.Sprintf("ctl: %s: store was asked VersionFiltering=%v, matcher implements VersionFilter=%v", cm.name, st.sawFilter, isVF))
				}
				tag, rg := "set", v.Range
				if rg == nil {
					tag, rg = "nil", &claircore.Range{}
				}
				line := fmt.Sprintf("ctl %s %s %s %s %s %s ", b2s(isVF), b2s(auth), tag, nverWords(&rg.Lower), nverWords(&rg.Upper), nverWords(&rec.Package.NormalizedVersion)) +
					strings.TrimPrefix(vulnLine(cm.name, p, a, nil), "vuln ")
				r.Op(line, got, true)
				r.Count("ctl:" + cm.name + ":hit=" + b2s(hit) + ":" + got)
				// the statement for gobin / nodejs (whose Vulnerable is a no-op): reported iff lower <= v < upper
				if (cm.name == "gobin" || cm.name == "nodejs") && v.Range != nil && v.Range.Upper.Kind == "semver" && rec.Package.NormalizedVersion.Kind == "semver" {
					want := lo.rank <= pe.rank && pe.rank < up.rank
					if got != fmt.Sprint(want) {
						r.Fail("", fmt.Sprintf("%s: version %v, range [%v,%v): reported=%s, expected %v", cm.name, pe.v.V, lo.v.V, up.v.V, got, want))
					}
				}
			}
		}
	}
}
