package c03

import (
	"context"
	"fmt"
	"sort"
	"strings"
	"time"

	"github.com/quay/claircore"
	"github.com/quay/claircore/alpine"
	"github.com/quay/claircore/aws"
	"github.com/quay/claircore/datastore"
	"github.com/quay/claircore/debian"
	"github.com/quay/claircore/gobin"
	ctlpkg "github.com/quay/claircore/internal/matcher"
	"github.com/quay/claircore/libvuln/driver"
	"github.com/quay/claircore/nodejs"
	"github.com/quay/claircore/rhel"
	"github.com/quay/claircore/rhel/rhcc"
	"github.com/quay/claircore/verifharness/internal/hx"
)

// ---- claircore.Version / Range (the Go twin of the database-side range test) ----

func intsOf(v *claircore.Version) string {
	p := make([]string, 10)
	for i := range p {
		p[i] = fmt.Sprint(v.V[i])
	}
	return strings.Join(p, ",")
}

func nverWords(v *claircore.Version) string { return hexs(v.Kind) + " " + intsOf(v) }

var nvKinds = []string{"semver", "semver", "semver", "pep440", "", "x", "s\u00e9mver", "\xff"}

func genNVersion(rnd *hx.Rand, kind string) claircore.Version {
	v := claircore.Version{Kind: kind}
	n := 1 + rnd.Intn(4)
	for i := 0; i < n; i++ {
		j := rnd.Intn(5)
		if rnd.Chance(1, 4) {
			j = rnd.Intn(10) // every one of the ten components
		}
		switch rnd.Intn(8) {
		case 0:
			v.V[j] = int32(-1 - rnd.Intn(3))
		case 1:
			v.V[j] = []int32{2147483647, -2147483648, 65535}[rnd.Intn(3)]
		default:
			v.V[j] = int32(rnd.Intn(4))
		}
	}
	return v
}

func (e *env) rangeOps(n int) {
	r, rnd := e.r, e.rnd
	for i := 0; i < n && !r.Stop(); i++ {
		k := nvKinds[rnd.Intn(len(nvKinds))]
		pick := func() claircore.Version {
			kk := k
			if rnd.Chance(1, 10) {
				kk = nvKinds[rnd.Intn(len(nvKinds))]
			}
			return genNVersion(rnd, kk)
		}
		lo, up, v := pick(), pick(), pick()
		if rnd.Chance(1, 3) {
			v = lo
			if rnd.Chance(1, 2) {
				v = up
			}
		}
		got := timed(5*time.Second, func() string { return sign(lo.Compare(&v)) })
		r.Op("vercmp "+nverWords(&lo)+" "+nverWords(&v), got, true)
		r.Count("vercmp:" + got)
		// the documented order: versions of one kind by their components, different kinds by the kind strings
		wantCmp := cmpV(lo, v)
		if lo.Kind != v.Kind {
			wantCmp = strings.Compare(lo.Kind, v.Kind)
			r.Count("vercmp:kinds-differ")
		}
		if got != sign(wantCmp) {
			r.Fail("", fmt.Sprintf("version-compare: (%q %v).Compare(%q %v)=%s, expected %s (kinds lexically, then the ten components)", lo.Kind, lo.V, v.Kind, v.V, got, sign(wantCmp)))
		}
		rg := &claircore.Range{Lower: lo, Upper: up}
		tag := "set"
		if rnd.Chance(1, 20) {
			rg, tag = nil, "nil"
		}
		got = timed(5*time.Second, func() string { return fmt.Sprint(rg.Contains(&v)) })
		r.Op("range "+tag+" "+nverWords(&lo)+" "+nverWords(&up)+" "+nverWords(&v), got, true)
		r.Count("range:" + got)
		// the statement: lower <= v < upper, read off the components
		if tag == "set" && lo.Kind == v.Kind && up.Kind == v.Kind {
			want := cmpV(lo, v) <= 0 && cmpV(v, up) < 0
			if got != fmt.Sprint(want) {
				r.Fail("", fmt.Sprintf("range: [%v,%v).Contains(%v)=%s", lo.V, up.V, v.V, got))
			}
		}
	}
}

func cmpV(a, b claircore.Version) int {
	for i := 0; i < 10; i++ {
		if a.V[i] != b.V[i] {
			return cmpInt(int(a.V[i]), int(b.V[i]))
		}
	}
	return 0
}

// ---- internal/matcher.Controller with a store that evaluates the range test ----

// rangeStore is a datastore.Vulnerability holding one advisory. With
// opts.VersionFiltering it returns the advisory only if its Range contains
// the record's normalized version and the kinds agree — what the SQL
// `version_kind = $kind AND vulnerable_range @> $version` does (PostgreSQL
// itself is modelled, not run).
type rangeStore struct {
	vuln      *claircore.Vulnerability
	sawFilter bool
	fail      bool
}

func dbHit(v *claircore.Vulnerability, rec *claircore.IndexRecord) bool {
	nv := &rec.Package.NormalizedVersion
	return v.Range != nil && v.Range.Lower.Kind == v.Range.Upper.Kind && v.Range.Lower.Kind == nv.Kind && v.Range.Contains(nv)
}

func (s *rangeStore) Get(_ context.Context, recs []*claircore.IndexRecord, opts datastore.GetOpts) (map[string][]*claircore.Vulnerability, error) {
	s.sawFilter = opts.VersionFiltering
	if s.fail {
		return nil, fmt.Errorf("store failure")
	}
	out := map[string][]*claircore.Vulnerability{}
	for _, rec := range recs {
		if !opts.VersionFiltering || dbHit(s.vuln, rec) {
			out[rec.Package.ID] = append(out[rec.Package.ID], s.vuln)
		}
	}
	return out, nil
}

type ctlMatcher struct {
	name string
	m    driver.Matcher
	rec  func(*claircore.IndexRecord) // makes the record pass the matcher's Filter
}

func ctlMatchers() []ctlMatcher {
	return []ctlMatcher{
		{"gobin", &gobin.Matcher{}, func(r *claircore.IndexRecord) {
			r.Repository = &claircore.Repository{Name: "go", URI: "https://pkg.go.dev/"}
		}},
		{"nodejs", &nodejs.Matcher{}, func(r *claircore.IndexRecord) { r.Repository = &claircore.Repository{Name: "npm"} }},
		{"rhcc", rhcc.Matcher, func(r *claircore.IndexRecord) { cp := rhcc.GoldRepo; r.Repository = &cp }},
		{"aws", &aws.Matcher{}, func(r *claircore.IndexRecord) { r.Distribution = &claircore.Distribution{DID: aws.ID} }},
		{"alpine", &alpine.Matcher{}, func(r *claircore.IndexRecord) { r.Distribution = &claircore.Distribution{DID: "alpine"} }},
		{"debian", &debian.Matcher{}, func(r *claircore.IndexRecord) { r.Distribution = &claircore.Distribution{DID: "debian"} }},
	}
}

// semverChain: normalized versions sorted, with ranks.
type nvElem struct {
	rank int
	v    claircore.Version
}

func (e *env) nvChain(n int) []nvElem {
	rnd := e.rnd
	var vs []claircore.Version
	base := claircore.Version{Kind: "semver"}
	base.V[1], base.V[2], base.V[3] = int32(rnd.Intn(3)), int32(rnd.Intn(3)), int32(rnd.Intn(3))
	vs = append(vs, base)
	for len(vs) < n {
		w := vs[rnd.Intn(len(vs))]
		j := 1 + rnd.Intn(3)
		if rnd.Chance(1, 3) {
			j = rnd.Intn(10) // every component of the ten, the deep ones (pre-release / post / dev slots of pep440, rhctag parts) included
		}
		w.V[j] += int32(rnd.Intn(3))
		if rnd.Chance(1, 4) {
			w.V[j] = 0
		}
		vs = append(vs, w)
	}
	sort.SliceStable(vs, func(i, j int) bool { return cmpV(vs[i], vs[j]) < 0 })
	e.countSlots("normalized", len(vs), func(i, j int) string { return slotNV(vs[i], vs[j]) })
	var out []nvElem
	rank := 0
	for i, v := range vs {
		if i > 0 && cmpV(vs[i-1], v) != 0 {
			rank++
		}
		out = append(out, nvElem{rank, v})
	}
	return out
}

func (e *env) ctlOps(rounds int) {
	r, rnd := e.r, e.rnd
	for c := 0; c < rounds && !r.Stop(); c++ {
		chain := e.nvChain(5)
		rchain := e.rpmChain(4)
		for _, cm := range ctlMatchers() {
			for k := 0; k < 12 && !r.Stop(); k++ {
				pe, lo, up := chain[rnd.Intn(len(chain))], chain[rnd.Intn(len(chain))], chain[rnd.Intn(len(chain))]
				p := pkg{version: rchain[rnd.Intn(len(rchain))].spell}
				a := advisory{fixed: rchain[rnd.Intn(len(rchain))].spell}
				switch cm.name {
				case "alpine":
					p.version, a.fixed = "1.2."+itoa(rnd.Intn(3))+"-r0", "1.2."+itoa(rnd.Intn(3))+"-r0"
				case "debian":
					p.version, a.fixed = "1.2."+itoa(rnd.Intn(3))+"-1", "1.2."+itoa(rnd.Intn(3))+"-1"
				}
				rec := &claircore.IndexRecord{Package: &claircore.Package{ID: "7", Name: "pkg", Version: p.version, NormalizedVersion: pe.v}}
				cm.rec(rec)
				v := &claircore.Vulnerability{ID: "1", Name: "CVE-0", FixedInVersion: a.fixed, Package: &claircore.Package{Name: "pkg"},
					Range: &claircore.Range{Lower: lo.v, Upper: up.v}}
				switch rnd.Intn(12) {
				case 0:
					v.Range = nil
				case 1:
					v.Range.Upper.Kind = "pep440"
				case 2:
					rec.Package.NormalizedVersion.Kind = ""
				}
				if !cm.m.Filter(rec) {
					r.Fail("", fmt.Sprintf("ctl: %s.Filter rejects the record built for it", cm.name))
					continue
				}
				st := &rangeStore{vuln: v, fail: rnd.Chance(1, 25)}
				got := timed(10*time.Second, func() string {
					res, err := ctlpkg.NewController(cm.m, st).Match(context.Background(), []*claircore.IndexRecord{rec})
					if err != nil {
						return "err"
					}
					for _, x := range res[rec.Package.ID] {
						if x == v {
							return "true"
						}
					}
					return "false"
				})
				vf, isVF := cm.m.(driver.VersionFilter)
				auth := isVF && vf.VersionAuthoritative()
				hit := dbHit(v, rec)
				if st.fail {
					r.Count("ctl:" + cm.name + ":store-error:" + got)
					if got != "err" {
						r.Fail("", fmt.Sprintf("ctl: %s: store error but Match returned %s", cm.name, got))
					}
					continue
				}
				if st.sawFilter != isVF {
					r.Fail("", fmt.Sprintf("ctl: %s: store was asked VersionFiltering=%v, matcher implements VersionFilter=%v", cm.name, st.sawFilter, isVF))
				}
				tag, rg := "set", v.Range
				if rg == nil {
					tag, rg = "nil", &claircore.Range{}
				}
				line := fmt.Sprintf("ctl %s %s %s %s %s %s ", b2s(isVF), b2s(auth), tag, nverWords(&rg.Lower), nverWords(&rg.Upper), nverWords(&rec.Package.NormalizedVersion)) +
					strings.TrimPrefix(vulnLine(cm.name, p, a, nil), "vuln ")
				r.Op(line, got, true)
				r.Count("ctl:" + cm.name + ":hit=" + b2s(hit) + ":" + got)
				// the statement for gobin / nodejs (whose Vulnerable is a no-op): reported iff lower <= v < upper
				if (cm.name == "gobin" || cm.name == "nodejs") && v.Range != nil && v.Range.Upper.Kind == "semver" && rec.Package.NormalizedVersion.Kind == "semver" {
					want := lo.rank <= pe.rank && pe.rank < up.rank
					if got != fmt.Sprint(want) {
						r.Fail("", fmt.Sprintf("%s: version %v, range [%v,%v): reported=%s, expected %v", cm.name, pe.v.V, lo.v.V, up.v.V, got, want))
					}
				}
			}
		}
	}
}

// ---- one package in several IndexRecords ----

// mergedStore answers like the postgres store: per package ID one merged,
// de-duplicated list, whichever record of the package produced the hit.
type mergedStore struct {
	vuln      *claircore.Vulnerability
	sawFilter bool
}

func (s *mergedStore) Get(_ context.Context, recs []*claircore.IndexRecord, opts datastore.GetOpts) (map[string][]*claircore.Vulnerability, error) {
	s.sawFilter = opts.VersionFiltering
	out := map[string][]*claircore.Vulnerability{}
	for _, rec := range recs {
		if _, ok := out[rec.Package.ID]; !ok {
			out[rec.Package.ID] = []*claircore.Vulnerability{}
		}
		if (!opts.VersionFiltering || dbHit(s.vuln, rec)) && len(out[rec.Package.ID]) == 0 {
			out[rec.Package.ID] = append(out[rec.Package.ID], s.vuln)
		}
	}
	return out, nil
}

var rhelRecordCPEs = []string{
	"cpe:/o:redhat:enterprise_linux:8::baseos",
	"cpe:/a:redhat:enterprise_linux:8::appstream",
	"cpe:/a:redhat:enterprise_linux:8::crb",
	"cpe:/o:redhat:enterprise_linux:9::baseos",
	"cpe:/a:redhat:openshift:4.13::el8",
}

var rhelAdvisoryCPEs = []string{
	"cpe:/a:redhat:enterprise_linux:8::appstream",
	"cpe:/o:redhat:enterprise_linux:8::baseos",
	"cpe:/a:redhat:enterprise_linux:8",
	"cpe:/a:redhat:openshift:4",
	"cpe:/o:redhat:enterprise_linux:9::baseos",
	"not a cpe",
}

// multiRecordOps: the same package (one Package.ID) listed in several
// IndexRecords that differ in repository / distribution, and one advisory.
// The advisory must be listed once for every record it applies to — in
// particular it must be reported when it applies to a later record only.
func (e *env) multiRecordOps(rounds int) {
	r, rnd := e.r, e.rnd
	type mm struct {
		name string
		m    driver.Matcher
	}
	ms := []mm{{"rhel", &rhel.Matcher{}}, {"rhel", &rhel.Matcher{}}, {"rhel", &rhel.Matcher{}}, {"aws", &aws.Matcher{}}, {"rhcc", rhcc.Matcher}, {"gobin", &gobin.Matcher{}}}
	for c := 0; c < rounds && !r.Stop(); c++ {
		chain := e.rpmChain(4)
		nchain := e.nvChain(4)
		for _, cm := range ms {
			for k := 0; k < 6 && !r.Stop(); k++ {
				pe, fe := chain[rnd.Intn(len(chain))], chain[rnd.Intn(len(chain))]
				ne, lo, up := nchain[rnd.Intn(len(nchain))], nchain[rnd.Intn(len(nchain))], nchain[rnd.Intn(len(nchain))]
				if rnd.Chance(2, 3) && pe.rank >= fe.rank {
					pe, fe = chain[0], chain[len(chain)-1] // mostly a package that is below the fix
				}
				if rnd.Chance(2, 3) {
					lo, ne, up = nchain[0], nchain[0], nchain[len(nchain)-1]
				}
				pa, va, op := e.genArch()
				if rnd.Chance(1, 2) {
					va = "" // no architecture constraint
				}
				p := pkg{pe.spell, pa}
				a := advisory{fixed: fe.spell, pkgArch: va, op: op}
				pk := &claircore.Package{ID: "7", Name: "pkg", Version: p.version, Arch: p.arch, NormalizedVersion: ne.v}
				v := &claircore.Vulnerability{ID: "1", Name: "CVE-0", FixedInVersion: a.fixed, ArchOperation: a.op,
					Package: &claircore.Package{Name: "pkg", Arch: a.pkgArch}, Range: &claircore.Range{Lower: lo.v, Upper: up.v}}
				n := 2 + rnd.Intn(3)
				var recs []*claircore.IndexRecord
				var gates []string
				passes := 0
				switch cm.name {
				case "rhel":
					vname := rhelAdvisoryCPEs[rnd.Intn(len(rhelAdvisoryCPEs))]
					key := rhelRepositoryKey
					if rnd.Chance(1, 12) {
						key = "other-key"
					}
					v.Repo = &claircore.Repository{Name: vname, Key: key}
					perm := rnd.Intn(len(rhelRecordCPEs))
					for i := 0; i < n; i++ {
						cpeStr := rhelRecordCPEs[(perm+i)%len(rhelRecordCPEs)]
						rc := mkRhelCase(false, false, key, vname, cpeStr)
						recs = append(recs, &claircore.IndexRecord{Package: pk, Repository: rc.recRepo})
						gates = append(gates, rc.bits)
						if rc.pass() {
							passes++
						}
					}
				case "aws":
					for i := 0; i < n; i++ {
						recs = append(recs, &claircore.IndexRecord{Package: pk, Distribution: &claircore.Distribution{DID: aws.ID, VersionID: itoa(i + 1)}})
						gates = append(gates, "-")
					}
					passes = n
				case "rhcc":
					for i := 0; i < n; i++ {
						cp := rhcc.GoldRepo
						cp.ID = itoa(i + 1)
						recs = append(recs, &claircore.IndexRecord{Package: pk, Repository: &cp})
						gates = append(gates, "-")
					}
					passes = n
				case "gobin":
					for i := 0; i < n; i++ {
						recs = append(recs, &claircore.IndexRecord{Package: pk, Repository: &claircore.Repository{ID: itoa(i + 1), Name: "go", URI: "https://pkg.go.dev/"}})
						gates = append(gates, "-")
					}
				}
				ok := true
				for _, rec := range recs {
					if !cm.m.Filter(rec) {
						r.Fail("", fmt.Sprintf("ctlm: %s.Filter rejects the record built for it", cm.name))
						ok = false
					}
				}
				if !ok {
					continue
				}
				// Vulnerable (rhel) writes vuln.Repo.CPE: hand the controller a private copy per run
				st := &mergedStore{vuln: v}
				got := timed(10*time.Second, func() string {
					res, err := ctlpkg.NewController(cm.m, st).Match(context.Background(), recs)
					if err != nil {
						return "err"
					}
					cnt := 0
					for _, x := range res[pk.ID] {
						if x == v {
							cnt++
						}
					}
					return fmt.Sprint(cnt)
				})
				vf, isVF := cm.m.(driver.VersionFilter)
				auth := isVF && vf.VersionAuthoritative()
				line := fmt.Sprintf("ctlm %s %s set %s %s %s ", b2s(isVF), b2s(auth), nverWords(&lo.v), nverWords(&up.v), nverWords(&ne.v)) +
					strings.TrimPrefix(vulnLine(cm.name, p, a, nil), "vuln ") + " " + strings.Join(gates, ",")
				r.Op(line, got, true)
				r.Count("ctlm:" + cm.name + ":records=" + itoa(n) + ":listed=" + got)
				// the statement: listed once per record the advisory applies to
				below := pe.rank < fe.rank
				inRange := lo.rank <= ne.rank && ne.rank < up.rank
				want := 0
				switch cm.name {
				case "rhel", "aws":
					if below && archExpected(a.op, p.arch, a.pkgArch) {
						want = passes
					}
				case "rhcc":
					if below && inRange {
						want = passes
					}
				case "gobin":
					if inRange {
						want = 1
					}
				}
				if a.fixed == "" {
					continue // an empty spelling makes this a no-fix advisory: compared with the model only
				}
				if got != fmt.Sprint(want) {
					r.Fail("", fmt.Sprintf("%s: package %q (arch %q, normalized %v) listed in %d records %v; advisory fixed=%q arch=%q op=%d range [%v,%v) repo=%v: listed %s times, expected %d (once per record it applies to)",
						cm.name, p.version, p.arch, ne.v.V, n, gates, a.fixed, a.pkgArch, uint(a.op), lo.v.V, up.v.V, repoName(v.Repo), got, want))
				}
			}
		}
	}
}

func repoName(r *claircore.Repository) string {
	if r == nil {
		return "-"
	}
	return r.Name
}
