package c03

// Where two abstract versions first differ in their scheme's ordering key.
// Every chain builder counts, for neighbouring members of the sorted chain
// (the pairs whose order decides "below the fix" at the boundary), the slot of
// the first difference: the histogram (`slot:<scheme>:<slot>`) shows that the
// generators put the deciding difference at every position of the key, deep
// ones included (fifth release segment, dev number of a post release, …).

import (
	"fmt"

	"github.com/quay/claircore"
)

func idxSlot(prefix string, i, cap int) string {
	if i+1 >= cap {
		return fmt.Sprintf("%s%d+", prefix, cap)
	}
	return fmt.Sprintf("%s%d", prefix, i+1)
}

func atomKind(a *rpmAtom) string {
	if a == nil {
		return "end"
	}
	switch a.kind {
	case 'n':
		return "num"
	case 'a':
		return "alpha"
	}
	return "tilde"
}

func slotRpmAtoms(prefix string, x, y []rpmAtom) string {
	for i := 0; i < len(x) || i < len(y); i++ {
		var a, b *rpmAtom
		if i < len(x) {
			a = &x[i]
		}
		if i < len(y) {
			b = &y[i]
		}
		if cmpRpmAtoms([]rpmAtom{deref(a)}[:boolInt(a != nil)], []rpmAtom{deref(b)}[:boolInt(b != nil)]) != 0 {
			ka, kb := atomKind(a), atomKind(b)
			if ka > kb {
				ka, kb = kb, ka
			}
			return idxSlot(prefix, i, 5) + ":" + ka + "/" + kb
		}
	}
	return ""
}

func deref(a *rpmAtom) rpmAtom {
	if a == nil {
		return rpmAtom{}
	}
	return *a
}

func boolInt(b bool) int {
	if b {
		return 1
	}
	return 0
}

func slotRpm(a, b rpmVer) string {
	if a.epoch != b.epoch {
		return "epoch"
	}
	if s := slotRpmAtoms("version", a.version, b.version); s != "" {
		return s
	}
	if s := slotRpmAtoms("release", a.release, b.release); s != "" {
		return s
	}
	return "equal"
}

func slotDebParts(prefix string, x, y []debPart) string {
	for i := 0; i < len(x) || i < len(y); i++ {
		var p, q debPart
		if i < len(x) {
			p = x[i]
		}
		if i < len(y) {
			q = y[i]
		}
		if cmpDebParts([]debPart{{pre: p.pre}}, []debPart{{pre: q.pre}}) != 0 {
			return idxSlot(prefix, i, 5) + ":prefix"
		}
		if cmpDebParts([]debPart{p}, []debPart{q}) != 0 {
			return idxSlot(prefix, i, 5) + ":number"
		}
	}
	return ""
}

func slotDeb(a, b debVer) string {
	if a.epoch != b.epoch {
		return "epoch"
	}
	if s := slotDebParts("upstream", a.upstream, b.upstream); s != "" {
		return s
	}
	if s := slotDebParts("revision", a.revision, b.revision); s != "" {
		return s
	}
	return "equal"
}

func slotApk(a, b apkVer) string {
	for i := 0; i < len(a.nums) || i < len(b.nums); i++ {
		if i >= len(a.nums) || i >= len(b.nums) {
			return idxSlot("number", i, 6) + ":length"
		}
		if cmpDigits(a.nums[i], b.nums[i]) != 0 {
			return idxSlot("number", i, 6)
		}
	}
	switch {
	case a.letter != b.letter:
		return "letter"
	case a.suffix != b.suffix:
		return "suffix"
	case cmpOptDigits(a.sufNum, b.sufNum) != 0:
		return "suffix-number"
	case cmpOptDigits(a.rev, b.rev) != 0:
		return "revision"
	}
	return "equal"
}

func slotLang(a, b langVer) string {
	if a.epoch != b.epoch {
		return "epoch"
	}
	x, y := trimRelease(a.release), trimRelease(b.release)
	for i := 0; i < len(x) || i < len(y); i++ {
		p, q := "0", "0"
		if i < len(x) {
			p = x[i]
		}
		if i < len(y) {
			q = y[i]
		}
		if cmpDigits(p, q) != 0 {
			return idxSlot("release", i, 7)
		}
	}
	switch {
	case a.stage != b.stage:
		return "stage(dev/pre-label/final/post)"
	case a.word != b.word:
		return "word"
	}
	p, q := a.num, b.num
	if p == "" {
		p = "0"
	}
	if q == "" {
		q = "0"
	}
	if cmpDigits(p, q) != 0 {
		return fmt.Sprintf("stage-number(stage %d)", a.stage)
	}
	if a.dev != b.dev {
		return fmt.Sprintf("dev-of(stage %d)", a.stage)
	}
	return "equal"
}

func slotNV(a, b claircore.Version) string {
	if a.Kind != b.Kind {
		return "kind"
	}
	for i := 0; i < 10; i++ {
		if a.V[i] != b.V[i] {
			return fmt.Sprintf("v%d", i)
		}
	}
	return "equal"
}

// countSlots: the first-difference slot of every pair of neighbours.
func (e *env) countSlots(scheme string, n int, slot func(i, j int) string) {
	for i := 0; i+1 < n; i++ {
		if s := slot(i, i+1); s != "equal" {
			e.r.Count("slot:" + scheme + ":" + s)
		}
	}
}

// ---- deep pairs: two versions that agree on everything up to a deep slot of the key ----

func maxRelease(eco string) int {
	if eco == "python" {
		return 5 // pkg/pep440 orders by the first five release segments (its documented projection); a sixth is beyond it
	}
	return 6
}

func smallDigits(r interface{ Intn(int) int }) string { return string(rune('0' + r.Intn(4))) }

// deepLang: v stretched to k release segments (4 <= k <= maxRelease) and a twin that differs in the k-th only.
func (e *env) deepLang(eco string, v langVer) (langVer, langVer) {
	r := e.rnd
	k := 4 + r.Intn(maxRelease(eco)-3)
	a := v
	a.release = append([]string(nil), v.release...)
	for len(a.release) < k {
		a.release = append(a.release, smallDigits(r))
	}
	a.release = a.release[:k]
	b := a
	b.release = append([]string(nil), a.release...)
	b.release[k-1] = itoa(atoiSmall(a.release[k-1]) + 1 + r.Intn(2))
	if r.Chance(1, 3) {
		// the same stretch with a stage on both: the deep release segment still decides
		setStage(r, eco, &a)
		b.stage, b.word, b.num, b.dev = a.stage, a.word, a.num, a.dev
	}
	return a, b
}

func atoiSmall(s string) int {
	n := 0
	for _, c := range s {
		if c < '0' || c > '9' || n > 100000000 {
			break
		}
		n = n*10 + int(c-'0')
	}
	return n
}

func (e *env) deepApk(v apkVer) (apkVer, apkVer) {
	r := e.rnd
	k := 4 + r.Intn(3)
	a := v
	a.nums = append([]string(nil), v.nums...)
	for len(a.nums) < k {
		a.nums = append(a.nums, string(rune('1'+r.Intn(4))))
	}
	a.nums = a.nums[:k]
	b := a
	b.nums = append([]string(nil), a.nums...)
	b.nums[k-1] = itoa(atoiSmall(a.nums[k-1]) + 1 + r.Intn(2))
	a.fix()
	b.fix()
	if a.rev != b.rev { // fix() gave only one of them a revision: keep the pair a pair
		a.rev, b.rev = "0", "0"
	}
	return a, b
}

func (e *env) deepDeb(v debVer) (debVer, debVer) {
	r := e.rnd
	a := debVer{epoch: v.epoch, upstream: cloneParts(v.upstream), revision: cloneParts(v.revision), hasRev: v.hasRev}
	part := &a.upstream
	k := 4 + r.Intn(3)
	if a.hasRev && r.Chance(1, 3) {
		part, k = &a.revision, 3+r.Intn(2)
	}
	for len(*part) < k {
		*part = append(*part, debPart{pre: ".", num: string(rune('0' + r.Intn(4)))})
	}
	*part = (*part)[:k]
	if (*part)[k-1].num == "" {
		(*part)[k-1].num = "0"
	}
	a.fix()
	b := debVer{epoch: a.epoch, upstream: cloneParts(a.upstream), revision: cloneParts(a.revision), hasRev: a.hasRev}
	bp := &b.upstream
	if part == &a.revision {
		bp = &b.revision
	}
	(*bp)[k-1].num = itoa(atoiSmall((*bp)[k-1].num) + 1 + r.Intn(2))
	return a, b
}

func (e *env) deepRpm(v rpmVer) (rpmVer, rpmVer) {
	r := e.rnd
	a := rpmVer{epoch: v.epoch, version: cloneAtoms(v.version), release: cloneAtoms(v.release), hasRel: v.hasRel}
	part := &a.version
	if a.hasRel && r.Chance(1, 2) {
		part = &a.release
	}
	k := 4 + r.Intn(3)
	for len(*part) < k {
		*part = append(*part, rpmAtom{'n', string(rune('0' + r.Intn(4)))})
	}
	*part = (*part)[:k]
	(*part)[k-1] = rpmAtom{'n', string(rune('0' + r.Intn(4)))}
	b := rpmVer{epoch: a.epoch, version: cloneAtoms(a.version), release: cloneAtoms(a.release), hasRel: a.hasRel}
	bp := &b.version
	if part == &a.release {
		bp = &b.release
	}
	if r.Chance(1, 4) {
		(*bp)[k-1] = rpmAtom{'a', genLetters(r)} // letters sort below a number in the same place
	} else {
		(*bp)[k-1] = rpmAtom{'n', itoa(atoiSmall((*bp)[k-1].s) + 1 + r.Intn(2))}
	}
	return a, b
}
