package c03

// Scan-level matching: the real internal/matcher.Match (what libvuln.Scan
// runs) over the matcher set the real matchers.NewMatchers builds from the
// registered defaults, against an in-memory vulnerability store that asks the
// REAL query builder (datastore/postgres buildGetQuery) for the SQL text of
// every record and evaluates its WHERE clause over the stored rows.  One
// protocol line per scenario (`scan …`): the Lean model (Model/MatchScan.lean)
// answers how often each advisory is listed for each package.
//
// PostgreSQL itself is the trusted twin here: text equality is byte equality,
// a NULL compares equal to nothing, `vulnerable_range @> v` is lower <= v <
// upper on the ten-element arrays.

import (
	"context"
	"encoding/json"
	"fmt"
	"net/http"
	"net/url"
	"sort"
	"strconv"
	"strings"
	"time"

	"github.com/quay/claircore"
	"github.com/quay/claircore/datastore"
	"github.com/quay/claircore/datastore/postgres"
	ctlpkg "github.com/quay/claircore/internal/matcher"
	"github.com/quay/claircore/libvuln/driver"
	"github.com/quay/claircore/matchers"
	"github.com/quay/claircore/nodejs"
	"github.com/quay/claircore/rhel"
	"github.com/quay/claircore/toolkit/types/cpe"
	"github.com/quay/claircore/verifharness/internal/hx"
)

// ---- SQL WHERE evaluation ----

type sqlTok struct {
	kind byte // '(' ')' 'i' identifier, 's' string literal, 'o' operator, 'k' keyword, 'r' the raw range test
	val  string
}

func sqlLex(s string) ([]sqlTok, error) {
	var out []sqlTok
	for i := 0; i < len(s); {
		c := s[i]
		switch {
		case c == ' ':
			i++
		case c == '(' || c == ')':
			out = append(out, sqlTok{c, ""})
			i++
		case c == '"':
			name := ""
			for i < len(s) && s[i] == '"' {
				j := strings.IndexByte(s[i+1:], '"')
				if j < 0 {
					return nil, fmt.Errorf("unterminated identifier")
				}
				if name != "" {
					name += "."
				}
				name += s[i+1 : i+1+j]
				i += j + 2
				if i < len(s) && s[i] == '.' {
					i++
				} else {
					break
				}
			}
			out = append(out, sqlTok{'i', name})
		case c == '\'':
			var b strings.Builder
			i++
			for {
				if i >= len(s) {
					return nil, fmt.Errorf("unterminated literal")
				}
				if s[i] == '\'' {
					if i+1 < len(s) && s[i+1] == '\'' {
						b.WriteByte('\'')
						i += 2
						continue
					}
					i++
					break
				}
				b.WriteByte(s[i])
				i++
			}
			out = append(out, sqlTok{'s', b.String()})
		case strings.HasPrefix(s[i:], "!="):
			out = append(out, sqlTok{'o', "!="})
			i += 2
		case c == '=':
			out = append(out, sqlTok{'o', "="})
			i++
		case strings.HasPrefix(s[i:], "AND "):
			out = append(out, sqlTok{'k', "AND"})
			i += 4
		case strings.HasPrefix(s[i:], "OR "):
			out = append(out, sqlTok{'k', "OR"})
			i += 3
		case strings.HasPrefix(s[i:], "vulnerable_range @> '{"):
			j := strings.Index(s[i:], "}'::int[]")
			if j < 0 {
				return nil, fmt.Errorf("range test not understood")
			}
			out = append(out, sqlTok{'r', s[i+len("vulnerable_range @> '{") : i+j]})
			i += j + len("}'::int[]")
		default:
			return nil, fmt.Errorf("unexpected %q", s[i:])
		}
	}
	return out, nil
}

// sqlRow is one row of the vuln table: the text columns (nil = NULL) and the range.
type sqlRow struct {
	cols     map[string]*string
	hasRange bool
	lower    [10]int32
	upper    [10]int32
	vuln     *claircore.Vulnerability
}

type sqlParser struct {
	toks []sqlTok
	pos  int
	row  *sqlRow
}

func (p *sqlParser) peek() sqlTok {
	if p.pos < len(p.toks) {
		return p.toks[p.pos]
	}
	return sqlTok{0, ""}
}

func (p *sqlParser) expr() (bool, error) {
	v, err := p.term()
	if err != nil {
		return false, err
	}
	op := ""
	for p.peek().kind == 'k' {
		k := p.peek().val
		if op != "" && k != op {
			return false, fmt.Errorf("mixed AND/OR without parentheses")
		}
		op = k
		p.pos++
		w, err := p.term()
		if err != nil {
			return false, err
		}
		if op == "AND" {
			v = v && w
		} else {
			v = v || w
		}
	}
	return v, nil
}

func cmpArr(a, b [10]int32) int {
	for i := 0; i < 10; i++ {
		if a[i] != b[i] {
			return cmpInt(int(a[i]), int(b[i]))
		}
	}
	return 0
}

func (p *sqlParser) term() (bool, error) {
	t := p.peek()
	switch t.kind {
	case '(':
		p.pos++
		v, err := p.expr()
		if err != nil {
			return false, err
		}
		if p.peek().kind != ')' {
			return false, fmt.Errorf("missing )")
		}
		p.pos++
		return v, nil
	case 'i':
		p.pos++
		op := p.peek()
		if op.kind != 'o' {
			return false, fmt.Errorf("operator expected after %q", t.val)
		}
		p.pos++
		lit := p.peek()
		if lit.kind != 's' {
			return false, fmt.Errorf("literal expected")
		}
		p.pos++
		col, ok := p.row.cols[t.val]
		if !ok {
			return false, fmt.Errorf("unknown column %q", t.val)
		}
		if col == nil {
			return false, nil // NULL = x and NULL != x are not true
		}
		if op.val == "=" {
			return *col == lit.val, nil
		}
		return *col != lit.val, nil
	case 'r':
		p.pos++
		parts := strings.Split(t.val, ",")
		if len(parts) != 10 {
			return false, fmt.Errorf("range literal with %d elements", len(parts))
		}
		var v [10]int32
		for i, s := range parts {
			n, err := strconv.ParseInt(s, 10, 32)
			if err != nil {
				return false, err
			}
			v[i] = int32(n)
		}
		if !p.row.hasRange {
			return false, nil // VersionRange('{}','{}') is the empty range
		}
		return cmpArr(p.row.lower, v) <= 0 && cmpArr(v, p.row.upper) < 0, nil
	}
	return false, fmt.Errorf("unexpected token %q %q", string(t.kind), t.val)
}

func sqlWhere(query string) ([]sqlTok, error) {
	i := strings.Index(query, " WHERE ")
	if i < 0 {
		return nil, fmt.Errorf("no WHERE clause")
	}
	return sqlLex(query[i+len(" WHERE "):])
}

// sqlStore is the in-memory datastore.Vulnerability.
type sqlStore struct {
	rows []*sqlRow
}

func sp(s string) *string { return &s }

// addRow mirrors the INSERT of updateVulnerabilities (nil Dist / Repo are the
// zero values; version_kind and the range only when both ends have one kind).
func (s *sqlStore) addRow(id string, v *claircore.Vulnerability) {
	dist, repo := v.Dist, v.Repo
	if dist == nil {
		dist = &claircore.Distribution{}
	}
	if repo == nil {
		repo = &claircore.Repository{}
	}
	r := &sqlRow{cols: map[string]*string{
		"package_name": sp(v.Package.Name), "package_kind": sp(v.Package.Kind), "package_module": sp(v.Package.Module),
		"dist_id": sp(dist.DID), "dist_name": sp(dist.Name), "dist_version": sp(dist.Version),
		"dist_version_code_name": sp(dist.VersionCodeName), "dist_version_id": sp(dist.VersionID),
		"dist_arch": sp(dist.Arch), "dist_pretty_name": sp(dist.PrettyName),
		"repo_name": sp(repo.Name), "repo_key": sp(repo.Key), "repo_uri": sp(repo.URI),
		"fixed_in_version": sp(v.FixedInVersion), "version_kind": nil,
		"latest_update_operations.kind": sp("vulnerability"),
	}}
	if v.Range != nil && v.Range.Lower.Kind == v.Range.Upper.Kind {
		r.cols["version_kind"] = sp(v.Range.Lower.Kind)
		r.hasRange, r.lower, r.upper = true, v.Range.Lower.V, v.Range.Upper.V
	}
	cp := *v
	cp.ID = id
	r.vuln = &cp
	s.rows = append(s.rows, r)
}

// rebuild is what the row scan of Get allocates: a fresh Vulnerability with
// Package, Dist and Repo always present (rhel's Vulnerable writes to Repo.CPE).
func (r *sqlRow) rebuild() *claircore.Vulnerability {
	v := r.vuln
	out := &claircore.Vulnerability{ID: v.ID, Name: v.Name, FixedInVersion: v.FixedInVersion, ArchOperation: v.ArchOperation, Updater: v.Updater,
		Package: &claircore.Package{Name: v.Package.Name, Version: v.Package.Version, Module: v.Package.Module, Arch: v.Package.Arch, Kind: v.Package.Kind},
		Dist:    &claircore.Distribution{}, Repo: &claircore.Repository{}}
	if v.Dist != nil {
		d := *v.Dist
		out.Dist = &d
	}
	if v.Repo != nil {
		out.Repo = &claircore.Repository{Name: v.Repo.Name, Key: v.Repo.Key, URI: v.Repo.URI}
	}
	return out
}

func (s *sqlStore) Get(_ context.Context, recs []*claircore.IndexRecord, opts datastore.GetOpts) (map[string][]*claircore.Vulnerability, error) {
	out := map[string][]*claircore.Vulnerability{}
	seen := map[string]map[string]bool{}
	for _, rec := range recs {
		q, err := postgres.BuildGetQueryForVerif(rec, &opts)
		if err != nil {
			continue // "if we cannot build a query for an individual record continue to the next"
		}
		toks, err := sqlWhere(q)
		if err != nil {
			return nil, fmt.Errorf("harness: query text not understood: %v: %s", err, q)
		}
		pid := rec.Package.ID
		if _, ok := out[pid]; !ok {
			out[pid] = []*claircore.Vulnerability{}
			seen[pid] = map[string]bool{}
		}
		for _, row := range s.rows {
			p := &sqlParser{toks: toks, row: row}
			hit, err := p.expr()
			if err != nil || p.pos != len(toks) {
				return nil, fmt.Errorf("harness: query text not understood: %v: %s", err, q)
			}
			if hit && !seen[pid][row.vuln.ID] {
				seen[pid][row.vuln.ID] = true
				out[pid] = append(out[pid], row.rebuild())
			}
		}
	}
	return out, nil
}

// ---- the matcher sets ----

// defaultSet asks the real matchers.NewMatchers for the registered defaults
// (rhel configured with ignore_unpatched on request).
func defaultSet(ignoreUnpatched bool) ([]driver.Matcher, error) {
	var opts []matchers.MatchersOption
	if ignoreUnpatched {
		opts = append(opts, matchers.WithConfigs(matchers.Configs{
			"rhel": func(v interface{}) error { return json.Unmarshal([]byte(`{"ignore_unpatched":true}`), v) },
		}))
	}
	return matchers.NewMatchers(context.Background(), http.DefaultClient, opts...)
}

func matcherNames(ms []driver.Matcher) string {
	var n []string
	for _, m := range ms {
		n = append(n, m.Name())
	}
	sort.Strings(n)
	return strings.Join(n, ",")
}

// ---- scenarios ----

type sDist struct{ did, name, version, code, vid, arch, pretty string }

func (d *sDist) real() *claircore.Distribution {
	if d == nil {
		return nil
	}
	return &claircore.Distribution{DID: d.did, Name: d.name, Version: d.version, VersionCodeName: d.code, VersionID: d.vid, Arch: d.arch, PrettyName: d.pretty}
}

func (d *sDist) toks() string {
	if d == nil {
		return "0 - - - - - - -"
	}
	return "1 " + strings.Join([]string{hexs(d.did), hexs(d.name), hexs(d.version), hexs(d.code), hexs(d.vid), hexs(d.arch), hexs(d.pretty)}, " ")
}

type sRepo struct {
	name, key, uri string
	cpe            cpe.WFN
	idx            int
}

func (r *sRepo) real() *claircore.Repository {
	if r == nil {
		return nil
	}
	return &claircore.Repository{Name: r.name, Key: r.key, URI: r.uri, CPE: r.cpe}
}

func (r *sRepo) toks() string {
	if r == nil {
		return "0 - - - - 0"
	}
	return "1 " + strings.Join([]string{hexs(r.name), hexs(r.key), hexs(r.uri), hexs(r.cpe.String()), itoa(r.idx)}, " ")
}

// sRec is one IndexRecord with what is known about it by construction.
type sRec struct {
	pkg        *claircore.Package
	dist       *sDist
	repo       *sRepo
	interested bool // passes the ecosystem's Filter
	rank       int  // of Package.Version in the scenario's chain
	nrank      int  // of the normalized version in the scenario's nvChain
}

func (r *sRec) toks() string {
	p := r.pkg
	src, sn, sk := "0", "-", "-"
	if p.Source != nil && p.Source.Name != "" {
		src, sn, sk = "1", hexs(p.Source.Name), hexs(p.Source.Kind)
	}
	return strings.Join([]string{hexs(p.ID), hexs(p.Name), hexs(p.Kind), hexs(p.Module), src, sn, sk, hexs(p.Version), hexs(p.Arch),
		nverWords(&p.NormalizedVersion), r.dist.toks(), r.repo.toks()}, " ")
}

// sAdv is one stored advisory with what is known about it by construction.
type sAdv struct {
	id     string
	v      *claircore.Vulnerability
	frank  int    // rank of the fix / last affected version (-1: none)
	shape  string // fix | nofix | lastAffected | open | sentinel…
	irank  int    // osv: rank of introduced (-1: none)
	lo, up int    // ranks of the range ends (-1: no range)
	cpeOK  bool
	cpeStr string
	wfn    cpe.WFN
	rhel   bool
	bad    bool // the matcher's Vulnerable returns an error for it
	sup    []bool
}

func (a *sAdv) toks() string {
	v := a.v
	d := &sDist{}
	if v.Dist != nil {
		d = &sDist{v.Dist.DID, v.Dist.Name, v.Dist.Version, v.Dist.VersionCodeName, v.Dist.VersionID, v.Dist.Arch, v.Dist.PrettyName}
	}
	rp := &claircore.Repository{}
	if v.Repo != nil {
		rp = v.Repo
	}
	tag, rg := "set", v.Range
	if rg == nil {
		tag, rg = "nil", &claircore.Range{}
	}
	bits := "-"
	if len(a.sup) > 0 {
		bits = ""
		for _, b := range a.sup {
			bits += b2s(b)
		}
	}
	return strings.Join([]string{hexs(a.id), hexs(v.Package.Name), hexs(v.Package.Kind), hexs(v.Package.Module), strings.TrimPrefix(d.toks(), "1 "),
		hexs(rp.Name), hexs(rp.Key), hexs(rp.URI), hexs(v.FixedInVersion), hexs(v.Package.Version), hexs(v.Package.Arch), fmt.Sprint(uint(v.ArchOperation)),
		tag, nverWords(&rg.Lower), nverWords(&rg.Upper), b2s(a.cpeOK), hexs(a.cpeStr), bits}, " ")
}

// scanEco describes one ecosystem: its matcher's name in the protocol, the
// fields on which an advisory must agree with the record to be about the
// record's release / repository (what the matcher's Query() asks the store
// to compare), and its version scheme.
type scanEco struct {
	id          string
	constrained []string
	family      string // rpm | deb | apk | osv | range
}

var scanEcos = []scanEco{
	{"alpine", []string{"did", "name", "pretty"}, "apk"},
	{"aws", []string{"did", "vid"}, "rpm"},
	{"debian", []string{"did", "name", "version"}, "deb"},
	{"ubuntu", []string{"did", "name", "version"}, "deb"},
	{"oracle", []string{"did", "name", "version"}, "rpm"},
	{"suse", []string{"did", "name", "version"}, "rpm"},
	{"photon", []string{"did", "name", "version"}, "rpm"},
	{"rhel", []string{"module", "rkey"}, "rpm"},
	{"rhcc", []string{"rname"}, "rpm"},
	{"python", []string{"rname"}, "osv"},
	{"java", []string{"rname"}, "osv"},
	{"ruby", []string{"rname"}, "osv"},
	{"gobin", []string{"rname"}, "range"},
	{"nodejs", []string{"rname"}, "range"},
}

type distLit struct{ did, name string }

var ecoDists = map[string][]distLit{
	"alpine": {{"alpine", "Alpine Linux"}},
	"aws":    {{"amzn", "Amazon Linux"}, {"amzn", "Amazon Linux AMI"}},
	"debian": {{"debian", "Debian GNU/Linux"}},
	"ubuntu": {{"ubuntu", "Ubuntu"}},
	"oracle": {{"ol", "Oracle Linux Server"}},
	"suse":   {{"sles", "SLES"}, {"opensuse-leap", "openSUSE Leap"}, {"opensuse", "openSUSE Leap"}},
	"photon": {{"photon", "VMware Photon OS"}},
}

var ecoRepos = map[string]sRepo{
	"rhcc":   {name: "Red Hat Container Catalog", uri: "https://catalog.redhat.com/software/containers/explore"},
	"python": {name: "pypi", uri: "https://pypi.org/simple"},
	"java":   {name: "maven", uri: "https://repo1.maven.apache.org/maven2"},
	"ruby":   {name: "rubygems", uri: "https://rubygems.org/gems/"},
	"gobin":  {name: "go", uri: "https://pkg.go.dev/"},
	"nodejs": {name: "npm", uri: "https://www.npmjs.com/"},
}

// near-miss spellings for the Filter / join boundaries
func nearMiss(rnd *hx.Rand, s string) string {
	if s == "" {
		return rnd.Pick("x", " ", "0")
	}
	switch rnd.Intn(6) {
	case 5:
		if u := strings.ToUpper(s); u != s {
			return u // the comparisons are case sensitive
		}
		return strings.ToLower(s) + "_"
	case 0:
		return s + " "
	case 1:
		return strings.ToUpper(s[:1]) + s[1:] + "x"
	case 2:
		if len(s) > 1 {
			return s[:len(s)-1]
		}
		return s + "0"
	case 3:
		return ""
	}
	return "x" + s
}

// scanEnv makes one environment of the ecosystem; interested says whether the
// record is one the ecosystem's matcher must look at (by the ecosystem's own
// definition: the distribution's ID or name, the repository, the version kind).
func (e *env) scanEnv(eco scanEco, release string) (d *sDist, rp *sRepo, nvKind string, interested bool) {
	rnd := e.rnd
	interested = true
	if lits, ok := ecoDists[eco.id]; ok {
		l := lits[rnd.Intn(len(lits))]
		d = &sDist{did: l.did, name: l.name, version: release, vid: release, pretty: l.name + " " + release, code: "rel" + release}
		if rnd.Chance(1, 6) {
			d.arch = "x86_64"
		}
		switch rnd.Intn(10) {
		case 0: // the name alone identifies the distribution
			d.did = nearMiss(rnd, d.did)
			interested = eco.id != "photon"
		case 1: // the ID alone
			d.name = nearMiss(rnd, d.name)
		case 2: // neither
			d.did, d.name = nearMiss(rnd, d.did), nearMiss(rnd, d.name)
			interested = false
		case 3:
			d, interested = nil, false
		}
		if rnd.Chance(1, 8) { // a repository next to the distribution changes nothing
			rp = &sRepo{name: "extra", uri: "https://example.com/"}
		}
		return d, rp, "", interested
	}
	if eco.id == "rhel" {
		c := rhelRecordCPEs[rnd.Intn(len(rhelRecordCPEs))]
		w, _ := cpe.Unbind(c)
		rp = &sRepo{name: c, key: rhelRepositoryKey, cpe: w}
		d = &sDist{did: "rhel", name: "Red Hat Enterprise Linux Server", version: release, vid: release, pretty: "Red Hat Enterprise Linux Server " + release}
		switch rnd.Intn(10) {
		case 0:
			rp.key, interested = nearMiss(rnd, rp.key), false
		case 1:
			rp, interested = nil, false
		case 2:
			d = nil // rhel does not look at the distribution
		}
		return d, rp, "", interested
	}
	base := ecoRepos[eco.id]
	rp = &sRepo{name: base.name, uri: base.uri}
	nvKind = "semver"
	if eco.id == "python" {
		nvKind = "pep440"
	}
	switch rnd.Intn(10) {
	case 0:
		if eco.id == "gobin" {
			rp.uri = nearMiss(rnd, rp.uri)
		} else {
			rp.name = nearMiss(rnd, rp.name)
		}
		interested = eco.id == "python"
	case 1:
		rp, interested = nil, eco.id == "python"
	case 2:
		if eco.id == "gobin" {
			rp.name = "golang" // gobin goes by the URI
		} else {
			rp.uri = nearMiss(rnd, rp.uri)
		}
	case 3:
		if eco.id == "python" {
			nvKind, interested = rnd.Pick("", "semver", "pep44"), false
		}
	}
	if rnd.Chance(1, 5) { // found in an image of some distribution
		d = &sDist{did: "fedora", name: "Fedora Linux", version: "40", vid: "40"}
	}
	return d, rp, nvKind, interested
}

// field access for the join oracle
func recField(r *sRec, f string) (string, bool) {
	switch f {
	case "module":
		return r.pkg.Module, true
	case "rname", "rkey":
		if r.repo == nil {
			return "", false
		}
		if f == "rname" {
			return r.repo.name, true
		}
		return r.repo.key, true
	}
	if r.dist == nil {
		return "", false
	}
	switch f {
	case "did":
		return r.dist.did, true
	case "name":
		return r.dist.name, true
	case "version":
		return r.dist.version, true
	case "code":
		return r.dist.code, true
	case "vid":
		return r.dist.vid, true
	case "arch":
		return r.dist.arch, true
	case "pretty":
		return r.dist.pretty, true
	}
	return "", false
}

func advField(v *claircore.Vulnerability, f string) *string {
	switch f {
	case "module":
		return &v.Package.Module
	case "rname":
		return &v.Repo.Name
	case "rkey":
		return &v.Repo.Key
	case "ruri":
		return &v.Repo.URI
	case "did":
		return &v.Dist.DID
	case "name":
		return &v.Dist.Name
	case "version":
		return &v.Dist.Version
	case "code":
		return &v.Dist.VersionCodeName
	case "vid":
		return &v.Dist.VersionID
	case "arch":
		return &v.Dist.Arch
	case "pretty":
		return &v.Dist.PrettyName
	case "pkgname":
		return &v.Package.Name
	case "pkgkind":
		return &v.Package.Kind
	}
	return nil
}

var advFields = []string{"module", "rname", "rkey", "ruri", "did", "name", "version", "code", "vid", "arch", "pretty", "pkgname", "pkgkind"}

// joins: is the advisory about this record's package in this record's release / repository?
func joins(eco scanEco, r *sRec, a *sAdv) bool {
	v := a.v
	if r.pkg.Name == "" {
		return false
	}
	nameOK := v.Package.Name == r.pkg.Name && v.Package.Kind == r.pkg.Kind
	if s := r.pkg.Source; s != nil && s.Name != "" && v.Package.Name == s.Name && v.Package.Kind == s.Kind {
		nameOK = true
	}
	if !nameOK {
		return false
	}
	for _, f := range eco.constrained {
		rv, ok := recField(r, f)
		if !ok || *advField(v, f) != rv {
			return false
		}
	}
	return true
}

// canQuery: can the record be looked up at all (it has the distribution /
// repository the ecosystem's advisories are keyed on)?
func canQuery(eco scanEco, r *sRec) bool {
	if r.pkg.Name == "" {
		return false
	}
	for _, f := range eco.constrained {
		if _, ok := recField(r, f); !ok {
			return false
		}
	}
	return true
}

// scanArch picks an architecture situation whose verdict the model computes itself.
func (e *env) scanArch() (string, string, claircore.ArchOp) {
	for {
		a, b, op := e.genArch()
		if op != claircore.OpPatternMatch || b == "" || reComputedGo(b) {
			return a, b, op
		}
	}
}

func isLitChar(c byte) bool {
	return c >= '0' && c <= '9' || c >= 'a' && c <= 'z' || c >= 'A' && c <= 'Z' || c == '_' || c == '-'
}

func isLitAlt(s string) bool {
	for i := 0; i < len(s); i++ {
		if !isLitChar(s[i]) && s[i] != '|' {
			return false
		}
	}
	return true
}

// reComputedGo: the patterns Model/Matchers.lean `reComputed` evaluates without the real regexp's verdict.
func reComputedGo(b string) bool {
	if isLitAlt(b) {
		return true
	}
	if strings.HasPrefix(b, "^(") {
		return strings.HasSuffix(b, ")$") && len(b) >= 4 && isLitAlt(b[2:len(b)-2])
	}
	if strings.HasPrefix(b, "^") && strings.HasSuffix(b, "$") && len(b) >= 2 {
		in := b[1 : len(b)-1]
		return isLitAlt(in) && !strings.Contains(in, "|")
	}
	return false
}

type scanScenario struct {
	eco        scanEco
	set        string // D0 | D1 | M:<id>
	recs       []*sRec
	advs       []*sAdv
	ir         *claircore.IndexReport
	oracle     bool // is the by-construction expectation defined for every pair?
	whyNot     string
	rhelIU     bool
	nrepos     int
	repoSet    []*sRepo
	badVersion bool
	badAdv     bool            // holds an advisory the ecosystem's matcher cannot evaluate
	parts      []*scanScenario // a report put together from scenarios of several ecosystems
}

// mergeScan puts two scenarios of different ecosystems into one IndexReport
// and one store (a python package in a Debian image, an rpm next to a gem).
func mergeScan(a, b *scanScenario) *scanScenario {
	m := &scanScenario{set: a.set, rhelIU: a.rhelIU, parts: []*scanScenario{a, b}}
	off := len(a.repoSet)
	for _, x := range b.repoSet {
		x.idx += off
	}
	m.repoSet = append(append([]*sRepo{}, a.repoSet...), b.repoSet...)
	m.recs = append(append([]*sRec{}, a.recs...), b.recs...)
	m.advs = append(append([]*sAdv{}, a.advs...), b.advs...)
	ir := &claircore.IndexReport{Packages: map[string]*claircore.Package{}, Distributions: map[string]*claircore.Distribution{},
		Repositories: map[string]*claircore.Repository{}, Environments: map[string][]*claircore.Environment{}}
	for _, p := range m.parts {
		for k, v := range p.ir.Packages {
			ir.Packages[k] = v
		}
		for k, v := range p.ir.Distributions {
			ir.Distributions[k] = v
		}
		for k, v := range p.ir.Environments {
			ir.Environments[k] = v
		}
	}
	// repository keys follow the merged numbering
	for _, p := range m.parts {
		for pid, envs := range p.ir.Environments {
			_ = pid
			for _, en := range envs {
				for i, rid := range en.RepositoryIDs {
					rp := p.ir.Repositories[rid]
					nid := rid + "m"
					ir.Repositories[nid] = rp
					en.RepositoryIDs[i] = nid
				}
			}
		}
	}
	for _, ad := range m.advs {
		if !ad.rhel {
			continue
		}
		ad.sup = nil
		for _, x := range m.repoSet {
			ad.sup = append(ad.sup, ad.cpeOK && cpe.Compare(ad.wfn, x.cpe).IsSuperset())
		}
	}
	m.ir = ir
	return m
}

// scanVersions: n spellings with ranks in the ecosystem's scheme.
func (e *env) scanVersions(eco scanEco, n int) []chainElem {
	switch eco.family {
	case "rpm":
		return e.rpmChain(n)
	case "apk":
		return e.apkChain(n)
	case "deb":
		var out []chainElem
		for _, d := range e.debChain(n) {
			out = append(out, chainElem{d.rank, d.spell})
		}
		return out
	case "osv":
		return e.langChain(eco.id, n)
	}
	return []chainElem{{0, "1.0.0"}}
}

func rpmEpochBelowBound(v string) bool {
	i := strings.Index(v, ":")
	if i < 0 {
		return true
	}
	ep, err := strconv.Atoi(strings.TrimSpace(v[:i]))
	return err == nil && ep < 65535
}

// wantVulnerable: the statement for one (record, advisory) pair of the
// ecosystem, from ranks known by construction. known=false: the pair is
// outside what the construction decides (compared with the model only).
func (sc *scanScenario) wantVulnerable(r *sRec, a *sAdv) (want, known bool) {
	eco, v := sc.eco, a.v
	arch := archExpected(v.ArchOperation, r.pkg.Arch, v.Package.Arch)
	switch eco.id {
	case "aws", "rhel", "oracle", "suse", "photon":
		var below bool
		switch a.shape {
		case "fix":
			if v.FixedInVersion == "" {
				return false, false
			}
			below = r.rank < a.frank
		case "nofix":
			if eco.id == "aws" || eco.id == "rhel" {
				if !rpmEpochBelowBound(r.pkg.Version) {
					return false, false
				}
				below = true
			} else {
				below = r.rank <= a.frank
			}
		}
		if eco.id != "photon" {
			below = below && arch
		}
		if eco.id == "rhel" {
			if r.repo == nil {
				return false, true
			}
			gate := v.Repo.Key == rhelRepositoryKey && a.cpeOK &&
				(a.sup[r.repo.idx] || strings.HasPrefix(r.repo.cpe.String(), strings.TrimRight(a.cpeStr, ":*")))
			below = below && gate
		}
		return below, true
	case "rhcc":
		if v.FixedInVersion == "" {
			return false, false
		}
		return r.rank < a.frank, true
	case "debian", "ubuntu", "alpine":
		switch {
		case v.FixedInVersion == "":
			return true, true
		case v.FixedInVersion == "0" && eco.id != "ubuntu":
			return false, true
		case eco.id == "ubuntu" && debPrintsZero(v.FixedInVersion):
			return true, true // ubuntu's reading of a fix that prints as "0"
		case a.shape == "sentinel":
			return false, false
		}
		return r.rank < a.frank, true
	case "python", "java", "ruby":
		if v.FixedInVersion == "" {
			return true, true
		}
		w := true
		if a.irank >= 0 && r.rank < a.irank {
			w = false
		}
		switch a.shape {
		case "fixed":
			w = w && r.rank < a.frank
		case "lastAffected":
			w = w && r.rank <= a.frank
		}
		return w, true
	}
	return false, true // gobin, nodejs: Vulnerable is never asked
}

func (sc *scanScenario) inRange(r *sRec, a *sAdv) (bool, bool) {
	if a.v.Range == nil {
		return false, true
	}
	if a.v.Range.Lower.Kind != a.v.Range.Upper.Kind || a.v.Range.Lower.Kind != r.pkg.NormalizedVersion.Kind {
		return false, true
	}
	return a.lo <= r.nrank && r.nrank < a.up, true
}

// expected: how often the advisory must be listed for the package.
func (sc *scanScenario) expected(pid string, a *sAdv) (int, bool) {
	eco := sc.eco
	isVF := eco.id == "rhcc" || eco.id == "gobin" || eco.id == "nodejs"
	auth := eco.id == "gobin" || eco.id == "nodejs"
	if sc.badVersion && pid == sc.recs[0].pkg.ID {
		return 0, false // a version outside the scheme: compared with the model only
	}
	if a.bad {
		return 0, false // cannot be evaluated: the call fails, or goes on without it
	}
	if sc.rhelIU && eco.id == "rhel" && a.v.FixedInVersion == "" {
		return 0, true // configured to ignore advisories without a fix
	}
	fetched := false
	for _, r := range sc.recs {
		if r.pkg.ID != pid || !r.interested || !canQuery(eco, r) || !joins(eco, r, a) {
			continue
		}
		if isVF {
			in, _ := sc.inRange(r, a)
			if !in {
				continue
			}
		}
		fetched = true
	}
	if !fetched {
		return 0, true
	}
	if auth {
		return 1, true
	}
	n := 0
	for _, r := range sc.recs {
		if r.pkg.ID != pid || !r.interested {
			continue
		}
		w, known := sc.wantVulnerable(r, a)
		if !known {
			return 0, false
		}
		if w {
			n++
		}
	}
	return n, true
}

// whyUnlisted names the first reason an advisory is not listed (for the histogram).
func (sc *scanScenario) whyUnlisted(pid string, a *sAdv) string {
	interested, joined := false, false
	for _, r := range sc.recs {
		if r.pkg.ID != pid {
			continue
		}
		if r.interested {
			interested = true
			if canQuery(sc.eco, r) && joins(sc.eco, r, a) {
				joined = true
			}
		}
	}
	switch {
	case !interested:
		return "no-interested-record"
	case !joined:
		return "advisory-of-another-release-or-package"
	case sc.rhelIU && sc.eco.id == "rhel" && a.v.FixedInVersion == "":
		return "ignore-unpatched"
	}
	return "version-arch-or-gate"
}

var scanPkgNames = []string{"openssl", "zlib", "libxml2", "requests", "rack", "log4j-core", "golang.org/x/net", "lodash", "a'b", "pkg"}

// genScan builds one scenario for the ecosystem.
// scanOpt places a scenario inside a larger report: ID offset, a tag that
// keeps its names and map keys apart, and the matcher set it has to run under.
type scanOpt struct {
	base     int
	tag      string
	forceSet string
	badAdv   bool // one of several advisories of the package is one the matcher's Vulnerable refuses
	badPos   int  // its position in the store's answer (modulo the number of advisories)
}

func (e *env) genScan(eco scanEco, opt scanOpt) *scanScenario {
	rnd := e.rnd
	sc := &scanScenario{eco: eco, oracle: true}
	sc.set = "D0"
	if eco.id == "rhel" && rnd.Chance(1, 3) {
		sc.set, sc.rhelIU = "D1", true
	} else if rnd.Chance(1, 8) {
		sc.set = "D1" // the configuration of rhel must not matter to anybody else
		sc.rhelIU = true
	}
	if eco.id == "nodejs" {
		sc.set, sc.rhelIU = "M:nodejs", false // not among the registered defaults
	}
	if opt.forceSet != "" {
		sc.set, sc.rhelIU = opt.forceSet, opt.forceSet == "D1"
	}
	chain := e.scanVersions(eco, 4+rnd.Intn(3))
	nchain := e.nvChain(4)
	release := rnd.Pick("8", "9", "12", "3.18", "22.04", "2")
	npk := 1 + rnd.Intn(2)
	if opt.badAdv {
		npk = 1
	}
	ir := &claircore.IndexReport{Packages: map[string]*claircore.Package{}, Distributions: map[string]*claircore.Distribution{},
		Repositories: map[string]*claircore.Repository{}, Environments: map[string][]*claircore.Environment{}}
	name := scanPkgNames[rnd.Intn(len(scanPkgNames))] + opt.tag
	for pi := 0; pi < npk; pi++ {
		pid := itoa(opt.base + pi + 1)
		ce := chain[rnd.Intn(len(chain))]
		ne := nchain[rnd.Intn(len(nchain))]
		pa, _, _ := e.scanArch()
		p := &claircore.Package{ID: pid, Name: name, Kind: claircore.BINARY, Version: ce.spell, Arch: pa}
		if pi == 1 && rnd.Chance(1, 2) {
			p.Name = name + "-libs"
		}
		if rnd.Chance(1, 4) {
			p.Source = &claircore.Package{Name: name + "-src", Kind: claircore.SOURCE, Version: ce.spell}
			if rnd.Chance(1, 5) {
				p.Source.Name = ""
			}
		}
		if eco.id == "rhel" && rnd.Chance(1, 3) {
			p.Module = "nodejs:18"
		}
		if rnd.Chance(1, 40) {
			p.Name = "" // cannot be queried
		}
		ir.Packages[pid] = p
		nenv := 1
		if rnd.Chance(1, 3) {
			nenv = 2
		}
		for ei := 0; ei < nenv; ei++ {
			rel := release
			if ei == 1 && rnd.Chance(1, 2) {
				rel = release + ".1"
			}
			d, rp, nvKind, interested := e.scanEnv(eco, rel)
			if ei == 0 {
				p.NormalizedVersion = ne.v
				p.NormalizedVersion.Kind = nvKind
				if nvKind == "" {
					p.NormalizedVersion = claircore.Version{}
				}
			} else if eco.id == "python" {
				// the version kind belongs to the package, not to the environment
				interested = p.NormalizedVersion.Kind == "pep440"
			}
			envr := &claircore.Environment{}
			if d != nil {
				did := "d" + opt.tag + itoa(len(ir.Distributions)+1)
				ir.Distributions[did] = d.real()
				envr.DistributionID = did
			}
			var repos []*sRepo
			if rp != nil {
				repos = append(repos, rp)
				if eco.id == "rhel" && rnd.Chance(1, 2) { // a package found under several repository CPEs
					c := rhelRecordCPEs[rnd.Intn(len(rhelRecordCPEs))]
					w, _ := cpe.Unbind(c)
					repos = append(repos, &sRepo{name: c, key: rhelRepositoryKey, cpe: w})
				}
			}
			for _, x := range repos {
				x.idx = len(sc.repoSet)
				sc.repoSet = append(sc.repoSet, x)
				rid := "r" + opt.tag + itoa(x.idx+1)
				ir.Repositories[rid] = x.real()
				envr.RepositoryIDs = append(envr.RepositoryIDs, rid)
			}
			ir.Environments[pid] = append(ir.Environments[pid], envr)
			if len(repos) == 0 {
				sc.recs = append(sc.recs, &sRec{pkg: p, dist: d, interested: interested, rank: ce.rank, nrank: ne.rank})
			}
			for _, x := range repos {
				in := interested
				if eco.id == "rhel" {
					in = x.key == rhelRepositoryKey
				}
				sc.recs = append(sc.recs, &sRec{pkg: p, dist: d, repo: x, interested: in, rank: ce.rank, nrank: ne.rank})
			}
		}
	}
	sc.ir = ir
	if rnd.Chance(1, 12) && (eco.family == "deb" || eco.family == "osv") {
		// a version the scheme's parser refuses: the matcher's controller fails, the others' results stand
		sc.recs[0].pkg.Version = rnd.Pick("1.0_bad", "!", "1..x y")
		sc.badVersion = true
	}
	// advisories: about one of the records' release, with one field possibly off
	nadv := 1 + rnd.Intn(3)
	if opt.badAdv {
		nadv = 3 + rnd.Intn(2)
	}
	for ai := 0; ai < nadv; ai++ {
		base := sc.recs[rnd.Intn(len(sc.recs))]
		_, va, op := e.scanArch()
		if rnd.Chance(1, 2) {
			va = ""
		}
		v := &claircore.Vulnerability{Name: "CVE-" + itoa(ai+1), Updater: "u", ArchOperation: op,
			Package: &claircore.Package{Name: base.pkg.Name, Kind: base.pkg.Kind, Module: base.pkg.Module, Arch: va},
			Dist:    &claircore.Distribution{}, Repo: &claircore.Repository{}}
		if base.dist != nil {
			v.Dist = base.dist.real()
		}
		if base.repo != nil {
			v.Repo = &claircore.Repository{Name: base.repo.name, Key: base.repo.key, URI: base.repo.uri}
		}
		if s := base.pkg.Source; s != nil && s.Name != "" && rnd.Chance(1, 2) {
			v.Package.Name, v.Package.Kind = s.Name, s.Kind // written against the source package
			if rnd.Chance(1, 4) {
				v.Package.Kind = claircore.BINARY
			}
		}
		a := &sAdv{id: itoa(opt.base + ai + 1), v: v, frank: -1, irank: -1, lo: -1, up: -1}
		if eco.id == "rhel" {
			v.Repo.Name = rhelAdvisoryCPEs[rnd.Intn(len(rhelAdvisoryCPEs))]
			v.Repo.Key = rhelRepositoryKey
			if base.repo != nil && rnd.Chance(3, 5) { // mostly about (a prefix of) the record's repository CPE
				v.Repo.Name = base.repo.name
				if i := strings.Index(v.Repo.Name, "::"); i > 0 && rnd.Chance(1, 2) {
					v.Repo.Name = v.Repo.Name[:i]
				}
			}
		}
		if !opt.badAdv && rnd.Chance(1, 4) { // one field differs
			f := advFields[rnd.Intn(len(advFields))]
			if eco.id == "rhel" && f == "rname" {
				f = "rkey"
			}
			p := advField(v, f)
			*p = nearMiss(rnd, *p)
			if *p == "" && f == "pkgname" {
				*p = "other"
			}
		}
		if eco.id == "rhel" {
			a.rhel = true
			if w, err := cpe.Unbind(v.Repo.Name); err == nil {
				a.cpeOK, a.cpeStr, a.wfn = true, w.String(), w
				for _, x := range sc.repoSet {
					a.sup = append(a.sup, cpe.Compare(w, x.cpe).IsSuperset())
				}
			} else {
				for range sc.repoSet {
					a.sup = append(a.sup, false)
				}
			}
		}
		// the version part
		fe := chain[rnd.Intn(len(chain))]
		if rnd.Chance(2, 3) { // at or just above a package
			for _, c := range chain {
				if c.rank == base.rank && rnd.Chance(1, 3) || c.rank == base.rank+1 {
					fe = c
					if rnd.Chance(1, 2) {
						break
					}
				}
			}
		}
		a.frank = fe.rank
		switch eco.family {
		case "rpm":
			a.shape = "fix"
			v.FixedInVersion = fe.spell
			if eco.id != "rhcc" && rnd.Chance(1, 4) {
				a.shape, v.FixedInVersion, v.Package.Version = "nofix", "", fe.spell
			}
		case "deb", "apk":
			a.shape = "fix"
			v.FixedInVersion = fe.spell
			switch rnd.Intn(8) {
			case 0:
				v.FixedInVersion = ""
			case 1:
				v.FixedInVersion, a.shape = "0", "sentinel"
			}
		case "osv":
			q := url.Values{}
			a.shape = rnd.Pick("fixed", "fixed", "fixed", "lastAffected", "open", "nofix")
			if rnd.Chance(1, 2) {
				ie := chain[rnd.Intn(len(chain))]
				a.irank = ie.rank
				q.Add("introduced", ie.spell)
			}
			if a.shape == "fixed" || a.shape == "lastAffected" {
				q.Add(a.shape, fe.spell)
			}
			v.FixedInVersion = q.Encode()
			if a.shape == "nofix" {
				v.FixedInVersion, a.irank = "", -1
			}
		}
		if eco.family == "range" || eco.id == "rhcc" || rnd.Chance(1, 6) {
			lo, up := nchain[rnd.Intn(len(nchain))], nchain[rnd.Intn(len(nchain))]
			if rnd.Chance(2, 3) {
				lo, up = nchain[0], nchain[len(nchain)-1]
			}
			v.Range = &claircore.Range{Lower: lo.v, Upper: up.v}
			a.lo, a.up = lo.rank, up.rank
			if eco.id == "python" {
				v.Range.Lower.Kind, v.Range.Upper.Kind = "pep440", "pep440"
			}
			switch rnd.Intn(14) {
			case 0:
				v.Range = nil
			case 1:
				v.Range.Upper.Kind = "pep440x"
			case 2:
				v.Range.Lower.Kind, v.Range.Upper.Kind = "", ""
			}
		}
		sc.advs = append(sc.advs, a)
	}
	if opt.badAdv {
		// one advisory the matcher cannot evaluate, among well-formed ones of the same package
		a := sc.advs[opt.badPos%len(sc.advs)]
		switch eco.family {
		case "deb":
			a.v.FixedInVersion = rnd.Pick("v1.1.1l-1", "1.0_1", "abc", "1:", "-1")
		case "osv":
			a.v.FixedInVersion = rnd.Pick("fixed=%zz", "introduced=1.0&fixed=%4", "a;b=1")
			if eco.id != "java" {
				a.v.FixedInVersion = rnd.Pick(a.v.FixedInVersion, "fixed=abc", "introduced=abc&fixed=9999", "lastAffected=x.y")
			}
		}
		a.bad, a.shape = true, "unparsable"
		sc.badAdv = true
	}
	// calls that would not return (finding deb-compare-hang) are kept out of the scan lines
	if eco.family == "deb" {
		for _, r := range sc.recs {
			for _, a := range sc.advs {
				if f := a.v.FixedInVersion; f != "" && debHangShape(r.pkg.Version, f) {
					return nil
				}
			}
		}
	}
	return sc
}

func (sc *scanScenario) line() string {
	var parts []string
	for _, r := range sc.recs {
		parts = append(parts, r.toks())
	}
	for _, a := range sc.advs {
		parts = append(parts, a.toks())
	}
	return fmt.Sprintf("scan %s %d %d ", sc.set, len(sc.recs), len(sc.advs)) + strings.Join(parts, " ")
}

func (sc *scanScenario) describe() string {
	var b strings.Builder
	fmt.Fprintf(&b, "matchers=%s records=[", sc.set)
	for i, r := range sc.recs {
		if i > 0 {
			b.WriteString("; ")
		}
		fmt.Fprintf(&b, "pkg#%s %q kind=%q module=%q version=%q arch=%q normalized=%s:%v", r.pkg.ID, r.pkg.Name, r.pkg.Kind, r.pkg.Module, r.pkg.Version, r.pkg.Arch,
			r.pkg.NormalizedVersion.Kind, r.pkg.NormalizedVersion.V)
		if s := r.pkg.Source; s != nil {
			fmt.Fprintf(&b, " source=%q/%q", s.Name, s.Kind)
		}
		if r.dist != nil {
			fmt.Fprintf(&b, " dist=%+v", *r.dist)
		} else {
			b.WriteString(" dist=nil")
		}
		if r.repo != nil {
			fmt.Fprintf(&b, " repo={%q key=%q uri=%q}", r.repo.name, r.repo.key, r.repo.uri)
		} else {
			b.WriteString(" repo=nil")
		}
	}
	b.WriteString("] advisories=[")
	for i, a := range sc.advs {
		if i > 0 {
			b.WriteString("; ")
		}
		v := a.v
		fmt.Fprintf(&b, "#%s pkg=%q/%q module=%q fixed=%q pkgversion=%q arch=%q op=%d dist=%+v repo={%q key=%q}", a.id, v.Package.Name, v.Package.Kind, v.Package.Module,
			v.FixedInVersion, v.Package.Version, v.Package.Arch, uint(v.ArchOperation), *v.Dist, v.Repo.Name, v.Repo.Key)
		if v.Range != nil {
			fmt.Fprintf(&b, " range=[%s:%v,%s:%v)", v.Range.Lower.Kind, v.Range.Lower.V, v.Range.Upper.Kind, v.Range.Upper.V)
		}
	}
	b.WriteString("]")
	return b.String()
}

// runScan drives the real matcher.Match and canonicalises the report.
func runScan(ms []driver.Matcher, sc *scanScenario) (string, map[string]int) {
	st := &sqlStore{}
	for _, a := range sc.advs {
		st.addRow(a.id, a.v)
	}
	counts := map[string]int{}
	got := timed(20*time.Second, func() string {
		vr, err := ctlpkg.Match(context.Background(), sc.ir, ms, st)
		flag := "K"
		if err != nil {
			if strings.Contains(err.Error(), "harness:") {
				return "harness-error " + err.Error()
			}
			flag = "E"
		}
		if vr == nil {
			return flag + " nil-report"
		}
		var keys []string
		for pid, ids := range vr.PackageVulnerabilities {
			for _, id := range ids {
				k := hexs(pid) + ":" + hexs(id)
				if counts[k] == 0 {
					keys = append(keys, k)
				}
				counts[k]++
				if _, ok := vr.Vulnerabilities[id]; !ok {
					return flag + " listed-advisory-missing-from-report"
				}
			}
		}
		sort.Strings(keys)
		for i, k := range keys {
			keys[i] = k + "*" + itoa(counts[k])
		}
		if len(keys) == 0 {
			return flag + " -"
		}
		return flag + " " + strings.Join(keys, ",")
	})
	return got, counts
}

// preflight calls Filter of every matcher on every record, and Query, in this goroutine.
func preflight(ms []driver.Matcher, sc *scanScenario) string {
	for _, m := range ms {
		m := m
		if out := hx.Guard(func() string { m.Query(); return "" }); out != "" {
			return fmt.Sprintf("%s.Query() panics", m.Name())
		}
		for i, rec := range sc.ir.IndexRecords() {
			rec := rec
			if out := hx.Guard(func() string { m.Filter(rec); return "" }); out != "" {
				return fmt.Sprintf("%s.Filter panics on record %d of the report (package %q, distribution %v, repository %v)", m.Name(), i, rec.Package.Name, rec.Distribution != nil, rec.Repository != nil)
			}
		}
	}
	return ""
}

// matcherSets builds the two matcher sets once per run, the default
// configuration FIRST: the factories live in a process-wide registry and
// rhel's keeps what Configure wrote (finding rhel-config-sticky), so a set
// built without configuration after one built with ignore_unpatched is not
// the default configuration any more.
func (e *env) matcherSets() (d0, d1 []driver.Matcher, ok bool) {
	if e.d0 == nil {
		var err0, err1 error
		e.d0, err0 = defaultSet(false)
		e.d1, err1 = defaultSet(true)
		if err0 != nil || err1 != nil {
			e.r.Fail("", fmt.Sprintf("scan: matchers.NewMatchers failed: %v %v", err0, err1))
			e.d0, e.d1 = nil, nil
			return nil, nil, false
		}
	}
	return e.d0, e.d1, true
}

const findingRhelSticky = "rhel-config-sticky"

// rhelStickyWitness replays the finding rhel-config-sticky: after a
// NewMatchers call that configured rhel with ignore_unpatched, a later call
// WITHOUT any configuration still yields an rhel matcher that drops advisories
// without a fix (the shared *rhel.MatcherFactory in matchers/registry keeps the flag).
func (e *env) rhelStickyWitness() {
	if _, _, ok := e.matcherSets(); !ok { // (this has configured rhel with ignore_unpatched once)
		return
	}
	later, err := defaultSet(false)
	if err != nil {
		e.r.Fail("", fmt.Sprintf("scan: matchers.NewMatchers failed: %v", err))
		return
	}
	w, _ := cpe.Unbind("cpe:/o:redhat:enterprise_linux:8::baseos")
	p := &claircore.Package{ID: "1", Name: "openssl", Kind: claircore.BINARY, Version: "1.0-1", Arch: "x86_64"}
	ir := &claircore.IndexReport{Packages: map[string]*claircore.Package{"1": p},
		Distributions: map[string]*claircore.Distribution{}, Repositories: map[string]*claircore.Repository{
			"r1": {Name: "cpe:/o:redhat:enterprise_linux:8::baseos", Key: rhelRepositoryKey, CPE: w}},
		Environments: map[string][]*claircore.Environment{"1": {{RepositoryIDs: []string{"r1"}}}}}
	v := &claircore.Vulnerability{Name: "CVE-unfixed", Package: &claircore.Package{Name: "openssl", Kind: claircore.BINARY},
		Dist: &claircore.Distribution{}, Repo: &claircore.Repository{Name: "cpe:/o:redhat:enterprise_linux:8::baseos", Key: rhelRepositoryKey}}
	run := func(ms []driver.Matcher) string {
		st := &sqlStore{}
		st.addRow("7", v)
		return timed(20*time.Second, func() string {
			vr, err := ctlpkg.Match(context.Background(), ir, ms, st)
			if err != nil || vr == nil {
				return "err"
			}
			return fmt.Sprint(len(vr.PackageVulnerabilities["1"]))
		})
	}
	first, after := run(e.d0), run(later)
	e.r.Case("rhel default configuration, built before / after a configured set: "+first+" / "+after, true)
	if first != "1" {
		e.r.Fail("", "rhel (default configuration): package openssl 1.0-1 of cpe:/o:redhat:enterprise_linux:8::baseos, advisory without fix for that CPE: listed "+first+" times, expected 1")
	}
	if after == "0" {
		e.r.KnownSeen(findingRhelSticky, "matchers.NewMatchers without configuration, called after a call that configured rhel with ignore_unpatched, drops the unfixed advisory (listed 0 times; the set built first lists it once)")
	} else if after != "1" {
		e.r.Fail("", "rhel (default configuration, second NewMatchers call): unfixed advisory listed "+after+" times, expected 1")
	}
}

// scanOps: scenarios for every ecosystem through the default matcher set.
func (e *env) scanOps(rounds int) {
	r, rnd := e.r, e.rnd
	d0, d1, ok := e.matcherSets()
	if !ok {
		return
	}
	// the registered set itself (matchers/defaults): one protocol line
	r.Op("defaults", matcherNames(d0), true)
	for c := 0; c < rounds && !r.Stop(); c++ {
		type scanJob struct {
			eco scanEco
			opt scanOpt
		}
		var jobs []scanJob
		for _, eco := range scanEcos {
			jobs = append(jobs, scanJob{eco, scanOpt{}})
			if eco.family == "deb" || eco.family == "osv" {
				// one unparsable advisory among several of one package, in every position of the store's answer
				jobs = append(jobs, scanJob{eco, scanOpt{badAdv: true, badPos: c}})
			}
		}
		for _, job := range jobs {
			eco := job.eco
			if r.Stop() {
				return
			}
			sc := e.genScan(eco, job.opt)
			if job.opt.badAdv {
				r.Count("scan:unparsable-advisory:" + eco.id)
			}
			if sc == nil {
				r.Count("scan:skipped-hang-shape")
				continue
			}
			if eco.id != "nodejs" && rnd.Chance(1, 3) {
				// packages of a second ecosystem in the same image
				other := scanEcos[rnd.Intn(len(scanEcos))]
				if other.id != eco.id && other.id != "nodejs" {
					if sb := e.genScan(other, scanOpt{base: 10, tag: "-b", forceSet: sc.set}); sb != nil {
						sc = mergeScan(sc, sb)
						r.Count("scan:mixed:" + eco.id + "+" + other.id)
					}
				}
			}
			var ms []driver.Matcher
			switch sc.set {
			case "D0":
				ms = d0
			case "D1":
				ms = d1
			default:
				ms = []driver.Matcher{&nodejs.Matcher{}}
			}
			// records as the real IndexReport yields them must be the ones on the line
			if n := len(sc.ir.IndexRecords()); n != len(sc.recs) {
				r.Fail("", fmt.Sprintf("scan: IndexReport.IndexRecords yields %d records, %d environments were built: %s", n, len(sc.recs), sc.describe()))
				continue
			}
			// Match runs every controller in a goroutine of its own, where a panic would end the process:
			// put each record to every Filter (and ask for every Query) here first
			if bad := preflight(ms, sc); bad != "" {
				r.Fail("", "scan: "+bad+": "+sc.describe())
				continue
			}
			got, counts := runScan(ms, sc)
			r.Op(sc.line(), got, true)
			r.Count("scan:" + eco.id + ":" + sc.set + ":" + got[:1])
			if job.opt.badAdv {
				r.Count("scan:unparsable-advisory:" + eco.id + ":" + got[:1])
			}
			parts := sc.parts
			if parts == nil {
				parts = []*scanScenario{sc}
			}
			if strings.HasPrefix(got, "harness-error") || got == "hang" {
				r.Fail("", "scan: "+got+": "+sc.describe())
				continue
			}
			// the statement, pair by pair
			errExpected := strings.HasPrefix(got, "E")
			if errExpected {
				// by construction only a package version outside its scheme makes a matcher fail
				bad := false
				for _, part := range parts {
					bad = bad || part.badVersion || part.badAdv
				}
				if !bad {
					r.Fail("", "scan: matcher.Match returned an error although every version parses in its scheme (a failing matcher loses all its results): "+sc.describe())
				}
			}
			for _, part := range parts {
				pids := map[string]bool{}
				for _, rec := range part.recs {
					pids[rec.pkg.ID] = true
				}
				for pid := range pids {
					for _, a := range sc.advs {
						own := false
						for _, x := range part.advs {
							own = own || x == a
						}
						want, known := 0, true // an advisory about the other ecosystem's packages
						if own {
							want, known = part.expected(pid, a)
						}
						n := counts[hexs(pid)+":"+hexs(a.id)]
						if !known || errExpected {
							r.Count("scan:" + part.eco.id + ":pair:model-only")
							continue
						}
						r.Count(fmt.Sprintf("scan:%s:pair:listed=%d", part.eco.id, n))
						if n == 0 && own {
							r.Count("scan:unlisted:" + part.whyUnlisted(pid, a))
						}
						if n != want {
							note := ""
							if part.badAdv {
								note = "; another advisory of the package cannot be evaluated by the matcher — the call must then fail, or still list every advisory that can (never a silent subset)"
							}
							r.Fail("", fmt.Sprintf("scan/%s: matcher.Match returned no error and advisory #%s is listed %d times for package #%s, by construction expected %d (once per record of the package in a release / repository the advisory is about, whose version is affected%s): %s",
								part.eco.id, a.id, n, pid, want, note, sc.describe()))
						}
					}
				}
			}
		}
	}
}

// cpeSubOps: rhel's isCPESubstringMatch on pairs of CPEs, against the
// string-level model (`cpesub`).
func (e *env) cpeSubOps(n int) {
	r, rnd := e.r, e.rnd
	pool := append(append([]string{}, rhelRecordCPEs...), rhelAdvisoryCPEs...)
	pool = append(pool, "cpe:/a:redhat:openshift:4.1", "cpe:/a:redhat:openshift:4.13", "cpe:/a:redhat:openshift", "cpe:/a:redhat", "cpe:/a",
		"cpe:/a:redhat:enterprise_linux:8::appstream", "cpe:/a:redhat:enterprise_linux:8:*:appstream", "cpe:/a:redhat:rhel_eus:8.6::appstream",
		"cpe:2.3:a:redhat:openshift:4.13:*:el8:*:*:*:*:*", "cpe:2.3:a:redhat:openshift:4:*:*:*:*:*:*:*", "cpe:/a:redhat:openshift:4%2e13", "cpe:/a:redhat:a%2a:1")
	for i := 0; i < n && !r.Stop(); i++ {
		rs, vs := pool[rnd.Intn(len(pool))], pool[rnd.Intn(len(pool))]
		rc, err1 := cpe.Unbind(rs)
		vc, err2 := cpe.Unbind(vs)
		if err1 != nil || err2 != nil {
			continue
		}
		got := timed(5*time.Second, func() string { return fmt.Sprint(rhel.IsCPESubstringMatchForVerif(rc, vc)) })
		r.Op("cpesub "+hexs(rc.String())+" "+hexs(vc.String()), got, true)
		r.Count("cpesub:" + got)
		// the definition: the advisory's CPE, without its trailing unset attributes, is a prefix of the record's
		want := strings.HasPrefix(rc.String(), strings.TrimRight(vc.String(), ":*"))
		if got != fmt.Sprint(want) {
			r.Fail("", fmt.Sprintf("rhel isCPESubstringMatch(record %q, advisory %q)=%s, the prefix rule says %v", rs, vs, got, want))
		}
	}
}
