package c04

// The outside world of the updaters, served in-process through an
// http.RoundTripper: the Alpine secdb layout, a Debian mirror and security
// tracker, the Launchpad series API and Canonical's OVAL files, the OSV
// bucket, SUSE's OVAL directory, Photon's and Oracle's OVAL files.  The REAL
// updater factories discover their releases there, and the REAL Fetch/Parse
// produce the vulnerabilities (with the Distribution / Repository the updater
// stamps).

import (
	"archive/zip"
	"bytes"
	"compress/gzip"
	"context"
	"encoding/json"
	"fmt"
	"io"
	"net/http"
	"sort"
	"strings"
	"sync"

	"github.com/quay/claircore"
	"github.com/quay/claircore/alpine"
	"github.com/quay/claircore/aws"
	"github.com/quay/claircore/debian"
	"github.com/quay/claircore/libvuln/driver"
	"github.com/quay/claircore/oracle"
	"github.com/quay/claircore/photon"
	"github.com/quay/claircore/pkg/ovalutil"
	"github.com/quay/claircore/suse"
	"github.com/quay/claircore/ubuntu"
	"github.com/quay/claircore/updater/osv"
)

type resp struct {
	status int
	header map[string]string
	body   []byte
}

type world struct {
	mu     sync.Mutex
	routes map[string]resp // "host/path"
	hits   map[string]int

	// histories (history.go): transient faults of the current run by route,
	// conditional requests (If-None-Match / If-Modified-Since answered with
	// 304), and a callback that runs inside a request (a deterministic
	// interleaving point: "while the factory is waiting for this response").
	faults      map[string]fault
	conditional bool
	during      func(method, key string)
	faulted     map[string]int // route -> times a fault was served
}

// fault is a transient failure of one route: an HTTP status, a transport
// error, or a body that breaks off with a read error.
type fault struct {
	status int  // != 0: answer with this status
	net    bool // the request fails (connection reset)
	body   bool // the body ends with an error after half of its bytes
	trunc  bool // the body is cut after half of its bytes (the transfer ends cleanly)
}

func (f fault) String() string {
	switch {
	case f.net:
		return "connection-reset"
	case f.body:
		return "body-breaks-off"
	case f.trunc:
		return "body-cut-short"
	}
	return fmt.Sprintf("status-%d", f.status)
}

func newWorld() *world {
	return &world{routes: map[string]resp{}, hits: map[string]int{}, faults: map[string]fault{}, faulted: map[string]int{}}
}

func (w *world) put(key string, status int, ctype string, body []byte, extra ...string) {
	h := map[string]string{}
	if ctype != "" {
		h["content-type"] = ctype
	}
	for i := 0; i+1 < len(extra); i += 2 {
		h[extra[i]] = extra[i+1]
	}
	w.mu.Lock()
	w.routes[key] = resp{status: status, header: h, body: body}
	w.mu.Unlock()
}

func (w *world) del(key string) {
	w.mu.Lock()
	delete(w.routes, key)
	w.mu.Unlock()
}

// brokenBody yields its bytes and then a read error.
type brokenBody struct{ r *bytes.Reader }

func (b *brokenBody) Read(p []byte) (int, error) {
	n, err := b.r.Read(p)
	if err == io.EOF {
		return n, fmt.Errorf("world: connection reset while reading the body")
	}
	return n, err
}
func (b *brokenBody) Close() error { return nil }

func (w *world) RoundTrip(req *http.Request) (*http.Response, error) {
	key := req.URL.Host + req.URL.Path
	w.mu.Lock()
	w.hits[key]++
	r, ok := w.routes[key]
	flt, hasFault := w.faults[key]
	if hasFault {
		w.faulted[key]++
	}
	during, cond := w.during, w.conditional
	w.mu.Unlock()
	if during != nil {
		during(req.Method, key)
	}
	if !ok {
		r = resp{status: 404}
	}
	if hasFault && flt.net {
		return nil, fmt.Errorf("world: connection reset by peer (%s)", key)
	}
	if hasFault && (flt.status != 0 || ((flt.body || flt.trunc) && req.Method == http.MethodHead)) {
		st := flt.status
		if st == 0 {
			st = 503
		}
		r = resp{status: st, body: []byte("transient fault")}
	}
	// (a 304 has no body that could break off)
	if cond && ok && r.status == 200 && (!hasFault || ((flt.body || flt.trunc) && req.Method != http.MethodHead)) {
		if inm := req.Header.Get("If-None-Match"); inm != "" && inm == r.header["etag"] {
			r = resp{status: 304, header: r.header}
		} else if ims := req.Header.Get("If-Modified-Since"); ims != "" && ims == r.header["last-modified"] {
			r = resp{status: 304, header: r.header}
		}
	}
	h := http.Header{}
	for k, v := range r.header {
		h.Set(k, v)
	}
	body := r.body
	if req.Method == http.MethodHead {
		body = nil
	}
	var rc io.ReadCloser = io.NopCloser(bytes.NewReader(body))
	if hasFault && flt.body && req.Method != http.MethodHead && r.status != 304 {
		rc = &brokenBody{bytes.NewReader(body[:len(body)/2])}
	}
	if hasFault && flt.trunc && req.Method != http.MethodHead && r.status != 304 {
		rc = io.NopCloser(bytes.NewReader(body[:len(body)/2]))
	}
	return &http.Response{
		StatusCode:    r.status,
		Status:        fmt.Sprintf("%d %s", r.status, http.StatusText(r.status)),
		Header:        h,
		Body:          rc,
		ContentLength: int64(len(body)),
		Request:       req,
		Proto:         "HTTP/1.1", ProtoMajor: 1, ProtoMinor: 1,
	}, nil
}

func (w *world) client() *http.Client { return &http.Client{Transport: w} }

// noConfig is a ConfigUnmarshaler that leaves the defaults.
func noConfig(any) error { return nil }

// runUpdater does what the update manager does with one updater: Configure,
// Fetch, Parse.
func runUpdater(ctx context.Context, u driver.Updater, c *http.Client, cf driver.ConfigUnmarshaler) ([]*claircore.Vulnerability, error) {
	if cfg, ok := u.(driver.Configurable); ok {
		if err := cfg.Configure(ctx, cf, c); err != nil {
			return nil, fmt.Errorf("configure: %w", err)
		}
	}
	rc, _, err := u.Fetch(ctx, "")
	if err != nil {
		return nil, fmt.Errorf("fetch: %w", err)
	}
	defer rc.Close()
	vs, err := u.Parse(ctx, rc)
	if err != nil {
		return nil, fmt.Errorf("parse: %w", err)
	}
	return vs, nil
}

// adv is one advisory of the generated feeds: package, fixed version, id.
type adv struct {
	pkg   string
	fixed string
	id    string
	plats []string // OVAL: the <platform> elements of the definition (default: the document's platform)
	// feeds are not one advisory = one package = one fixed version:
	before []advPkg          // other packages the same advisory names, listed BEFORE pkg (OVAL: further criterions; aws: further <package>s)
	viaVar []string          // OVAL dpkg: the object names a constant_variable holding these names and pkg (Canonical's documents do)
	open   bool              // no fixed version (debian: status "open"; OVAL: a test without a state)
	perRel map[string]string // debian: further releases of the same advisory id -> their own fixed version
}

// advPkg: another package of an advisory, with its own fixed version.
type advPkg struct{ pkg, fixed string }

// ---- alpine ----

func alpineSecdb(rel string, as []adv) []byte {
	type details struct {
		Name     string              `json:"name"`
		Secfixes map[string][]string `json:"secfixes"`
	}
	type pkg struct {
		Pkg details `json:"pkg"`
	}
	db := struct {
		Distroversion string `json:"distroversion"`
		Reponame      string `json:"reponame"`
		Packages      []pkg  `json:"packages"`
	}{Distroversion: rel, Reponame: "main"}
	// as in the real database: one entry per package, its secfixes map a fixed
	// version to ALL the ids fixed by it
	idx := map[string]int{}
	for _, a := range as {
		i, ok := idx[a.pkg]
		if !ok {
			i = len(db.Packages)
			idx[a.pkg] = i
			db.Packages = append(db.Packages, pkg{details{Name: a.pkg, Secfixes: map[string][]string{}}})
		}
		sf := db.Packages[i].Pkg.Secfixes
		sf[a.fixed] = append(sf[a.fixed], a.id)
	}
	b, _ := json.Marshal(db)
	return b
}

// alpineWorld serves the releases (directory names such as "3.18", "edge").
func (w *world) alpineWorld(advs map[string][]adv) {
	w.put("alpine.test/last-update", 200, "text/plain", []byte("stamp-1"), "etag", `"1"`)
	for rel, as := range advs {
		dir := "v" + rel
		if rel == "edge" {
			dir = "edge"
		} else {
			w.put("alpine.test/"+dir+"/", 200, "text/html", []byte("<html></html>"))
		}
		w.put("alpine.test/"+dir+"/main.json", 200, "application/json", alpineSecdb(dir, as))
	}
}

// alpineRun runs the real Factory against the world; result keyed by updater name.
func alpineRun(ctx context.Context, w *world) (map[string][]*claircore.Vulnerability, error) {
	f, err := alpine.NewFactory(ctx)
	if err != nil {
		return nil, err
	}
	cf := func(v any) error {
		if c, ok := v.(*alpine.FactoryConfig); ok {
			c.URL = "http://alpine.test/"
		}
		return nil
	}
	if err := f.Configure(ctx, cf, w.client()); err != nil {
		return nil, err
	}
	return runSet(ctx, w, f.UpdaterSet, noConfig)
}

func runSet(ctx context.Context, w *world, set func(context.Context) (driver.UpdaterSet, error), cf driver.ConfigUnmarshaler) (map[string][]*claircore.Vulnerability, error) {
	us, err := set(ctx)
	if err != nil {
		return nil, err
	}
	out := map[string][]*claircore.Vulnerability{}
	for _, u := range us.Updaters() {
		vs, err := runUpdater(ctx, u, w.client(), cf)
		if err != nil {
			return nil, fmt.Errorf("%s: %w", u.Name(), err)
		}
		out[u.Name()] = vs
	}
	return out, nil
}

// ---- debian ----

type debRelease struct {
	code  string
	major int
}

func (w *world) debianWorld(rels []debRelease, advs map[string][]adv) {
	var listing strings.Builder
	listing.WriteString("<html><body><h1>Index of /debian/dists</h1><a href=\"../\">Parent Directory</a>\n<a href=\"?C=N;O=D\">Name</a>\n<a href=\"README\">README</a>\n")
	for _, r := range rels {
		fmt.Fprintf(&listing, "<a href=\"%s/\">%s/</a>\n<a href=\"%s-updates/\">%s-updates/</a>\n<a href=\"%s-backports/\">x</a>\n<a href=\"Debian%d.4/\">x</a>\n", r.code, r.code, r.code, r.code, r.code, r.major)
		rel := fmt.Sprintf("Origin: Debian\nLabel: Debian\nSuite: stable\nVersion: %d.4\nCodename: %s\nDate: Sat, 10 Feb 2024 11:07:25 UTC\nAcquire-By-Hash: yes\n", r.major, r.code)
		w.put("deb.test/debian/dists/"+r.code+"/Release", 200, "text/plain", []byte(rel))
	}
	listing.WriteString("<a href=\"sid/\">sid/</a>\n<a href=\"stable/\">stable/</a>\n<a href=\"testing/\">testing/</a>\n<a href=\"experimental/\">x</a></body></html>")
	w.put("deb.test/debian/dists/", 200, "text/html", []byte(listing.String()))
	// sid has a Release without a version
	w.put("deb.test/debian/dists/sid/Release", 200, "text/plain", []byte("Origin: Debian\nSuite: unstable\nCodename: sid\n"))
	type rd struct {
		Status       string `json:"status"`
		FixedVersion string `json:"fixed_version"`
		Urgency      string `json:"urgency"`
	}
	type vuln struct {
		Description string        `json:"description"`
		Releases    map[string]rd `json:"releases"`
	}
	data := map[string]map[string]*vuln{}
	for code, as := range advs {
		for _, a := range as {
			if data[a.pkg] == nil {
				data[a.pkg] = map[string]*vuln{}
			}
			v := data[a.pkg][a.id]
			if v == nil {
				v = &vuln{Description: "generated", Releases: map[string]rd{}}
				data[a.pkg][a.id] = v
			}
			if a.open {
				v.Releases[code] = rd{Status: "open", Urgency: "low"}
			} else {
				v.Releases[code] = rd{Status: "resolved", FixedVersion: a.fixed, Urgency: "low"}
			}
			v.Releases["sid"] = rd{Status: "resolved", FixedVersion: a.fixed, Urgency: "low"}
			for rel, fx := range a.perRel {
				v.Releases[rel] = rd{Status: "resolved", FixedVersion: fx, Urgency: "low"}
			}
		}
	}
	b, _ := json.Marshal(data)
	w.put("deb.test/tracker/data/json", 200, "application/json", b, "last-modified", "Sat, 10 Feb 2024 11:07:25 GMT")
}

func debianRun(ctx context.Context, w *world) ([]*claircore.Vulnerability, error) {
	f, err := debian.NewFactory(ctx)
	if err != nil {
		return nil, err
	}
	cf := func(v any) error {
		if c, ok := v.(*debian.FactoryConfig); ok {
			c.MirrorURL = "http://deb.test/"
			c.JSONURL = "http://deb.test/tracker/data/json"
		}
		return nil
	}
	if err := f.Configure(ctx, cf, w.client()); err != nil {
		return nil, err
	}
	m, err := runSet(ctx, w, f.UpdaterSet, noConfig)
	if err != nil {
		return nil, err
	}
	var out []*claircore.Vulnerability
	for _, vs := range m {
		out = append(out, vs...)
	}
	return out, nil
}

// ---- OVAL documents ----

// ovalDoc renders a minimal OVAL document: one definition per advisory with
// one <kind>info_test / object / state (evr "less than").  kind: "rpm" or "dpkg".
func ovalDoc(kind string, platform string, as []adv) []byte {
	var b strings.Builder
	b.WriteString(`<?xml version="1.0" encoding="utf-8"?>` + "\n")
	b.WriteString(`<oval_definitions xmlns="http://oval.mitre.org/XMLSchema/oval-definitions-5" xmlns:oval="http://oval.mitre.org/XMLSchema/oval-common-5">` + "\n<definitions>\n")
	ns := `xmlns="http://oval.mitre.org/XMLSchema/oval-definitions-5#linux"`
	// one test / object / state per (advisory, package)
	type tst struct {
		name   string
		fixed  string
		open   bool
		viaVar []string
	}
	var tests []tst
	for i, a := range as {
		pl := a.plats
		if pl == nil {
			pl = []string{platform}
		}
		var pls, cris strings.Builder
		for _, p := range pl {
			pls.WriteString("<platform>" + xmlEsc(p) + "</platform>")
		}
		// several packages: nested criteria, as the vendors' documents have them
		for _, o := range a.before {
			fmt.Fprintf(&cris, `<criteria operator="AND"><criterion comment="c" test_ref="oval:verif:tst:%d"/></criteria>`, len(tests))
			tests = append(tests, tst{name: o.pkg, fixed: o.fixed})
		}
		if len(a.before) > 0 {
			fmt.Fprintf(&cris, `<criteria operator="AND"><criteria operator="OR"><criterion comment="c" test_ref="oval:verif:tst:%d"/></criteria></criteria>`, len(tests))
		} else {
			fmt.Fprintf(&cris, `<criterion comment="c" test_ref="oval:verif:tst:%d"/>`, len(tests))
		}
		tests = append(tests, tst{name: a.pkg, fixed: a.fixed, open: a.open, viaVar: a.viaVar})
		op := "AND"
		if len(a.before) > 0 {
			op = "OR"
		}
		fmt.Fprintf(&b, `<definition class="patch" id="oval:verif:def:%d" version="1"><metadata><title>%s</title><affected family="unix">%s</affected><description>generated</description><advisory><severity>Important</severity><issued date="2024-01-01"/></advisory></metadata><criteria operator="%s">%s</criteria></definition>`+"\n", i, xmlEsc(a.id), pls.String(), op, cris.String())
	}
	b.WriteString("</definitions>\n<tests>\n")
	for i, t := range tests {
		st := fmt.Sprintf(`<state state_ref="oval:verif:ste:%d"/>`, i)
		if t.open {
			st = ""
		}
		fmt.Fprintf(&b, `<%sinfo_test check="at least one" comment="c" id="oval:verif:tst:%d" version="1" %s><object object_ref="oval:verif:obj:%d"/>%s</%sinfo_test>`+"\n", kind, i, ns, i, st, kind)
	}
	b.WriteString("</tests>\n<objects>\n")
	for i, t := range tests {
		if t.viaVar != nil {
			fmt.Fprintf(&b, `<%sinfo_object id="oval:verif:obj:%d" version="1" %s><name var_ref="oval:verif:var:%d" var_check="at least one"/></%sinfo_object>`+"\n", kind, i, ns, i, kind)
		} else {
			fmt.Fprintf(&b, `<%sinfo_object id="oval:verif:obj:%d" version="1" %s><name>%s</name></%sinfo_object>`+"\n", kind, i, ns, xmlEsc(t.name), kind)
		}
	}
	b.WriteString("</objects>\n<states>\n")
	dt := "evr_string"
	if kind == "dpkg" {
		dt = "debian_evr_string"
	}
	for i, t := range tests {
		if !t.open {
			fmt.Fprintf(&b, `<%sinfo_state id="oval:verif:ste:%d" version="1" %s><evr datatype="%s" operation="less than">%s</evr></%sinfo_state>`+"\n", kind, i, ns, dt, xmlEsc(t.fixed), kind)
		}
	}
	b.WriteString("</states>\n<variables>\n")
	for i, t := range tests {
		if t.viaVar != nil {
			fmt.Fprintf(&b, `<constant_variable id="oval:verif:var:%d" version="1" datatype="string" comment="c">`, i)
			for _, n := range append(append([]string{}, t.viaVar...), t.name) {
				b.WriteString("<value>" + xmlEsc(n) + "</value>")
			}
			b.WriteString("</constant_variable>\n")
		}
	}
	b.WriteString("</variables>\n</oval_definitions>\n")
	return []byte(b.String())
}

func xmlEsc(s string) string {
	r := strings.NewReplacer("&", "&amp;", "<", "&lt;", ">", "&gt;", `"`, "&quot;")
	return r.Replace(s)
}

// ---- ubuntu ----

type ubSeries struct {
	version, name string
	active        bool
}

func (w *world) ubuntuWorld(series []ubSeries, advs map[string][]adv) {
	type ent struct {
		Active  bool   `json:"active"`
		Name    string `json:"name"`
		Version string `json:"version"`
	}
	var es []ent
	for _, s := range series {
		es = append(es, ent{s.active, s.name, s.version})
		if !s.active {
			continue
		}
		p := "security-metadata.canonical.com/oval/com.ubuntu." + s.name + ".cve.oval.xml"
		w.put(p, 200, "application/xml", ovalDoc("dpkg", "Ubuntu "+s.version, advs[s.version]), "content-location", "com.ubuntu."+s.name+".cve.oval.xml", "etag", `"1"`)
	}
	b, _ := json.Marshal(map[string]any{"entries": es})
	w.put("lp.test/1.0/ubuntu/series", 200, "application/json", b)
}

func ubuntuRun(ctx context.Context, w *world) (map[string][]*claircore.Vulnerability, error) {
	f, err := ubuntu.NewFactory(ctx)
	if err != nil {
		return nil, err
	}
	cf := func(v any) error {
		if c, ok := v.(*ubuntu.FactoryConfig); ok {
			c.URL = "http://lp.test/1.0/"
		}
		return nil
	}
	if err := f.Configure(ctx, cf, w.client()); err != nil {
		return nil, err
	}
	return runSet(ctx, w, f.UpdaterSet, noConfig)
}

// ---- photon / oracle / suse / aws ----

func (w *world) photonWorld(advs map[string][]adv) {
	for rel, as := range advs {
		w.put("packages.vmware.com/photon/photon_oval_definitions/com.vmware.phsa-"+rel+".xml", 200, "application/xml", ovalDoc("rpm", "Photon", as))
	}
}

func photonRun(ctx context.Context, w *world) (map[string][]*claircore.Vulnerability, error) {
	return runSet(ctx, w, photon.UpdaterSet, noConfig)
}

// oracleRun parses one OVAL document whose advisories name the platforms.
func oracleRun(ctx context.Context, w *world, year int, byPlatform map[string][]adv) ([]*claircore.Vulnerability, error) {
	// one document, one definition per advisory with its own platform
	var all []adv
	var plats []string
	for p := range byPlatform {
		plats = append(plats, p)
	}
	sort.Strings(plats)
	var doc bytes.Buffer
	for _, p := range plats {
		all = append(all, byPlatform[p]...)
	}
	_ = all
	// ovalDoc takes one platform; build per platform and merge by running the
	// updater once per platform document.
	var out []*claircore.Vulnerability
	for i, p := range plats {
		doc.Reset()
		doc.Write(ovalDoc("rpm", p, byPlatform[p]))
		key := fmt.Sprintf("linux.oracle.test/security/oval/com.oracle.elsa-%d-%d.xml", year, i)
		w.put(key, 200, "application/xml", append([]byte(nil), doc.Bytes()...))
		u, err := oracle.NewUpdater(year, oracle.WithURL("http://"+key, "none"))
		if err != nil {
			return nil, err
		}
		vs, err := runUpdater(ctx, u, w.client(), noConfig)
		if err != nil {
			return nil, err
		}
		out = append(out, vs...)
	}
	return out, nil
}

// oracleParseDoc runs the real oracle updater (Fetch + Parse) on one OVAL
// document holding the given definitions (each with its own platform list).
func oracleParseDoc(ctx context.Context, w *world, name string, as []adv) ([]*claircore.Vulnerability, error) {
	key := "linux.oracle.test/security/oval/" + name
	w.put(key, 200, "application/xml", ovalDoc("rpm", "", as))
	u, err := oracle.NewUpdater(2024, oracle.WithURL("http://"+key, "none"))
	if err != nil {
		return nil, err
	}
	return runUpdater(ctx, u, w.client(), noConfig)
}

// suseWorld serves the OVAL directory listing with the given file names.
func (w *world) suseWorld(files map[string][]adv) {
	var listing strings.Builder
	listing.WriteString("<html><body><pre><a href=\"../\">../</a>\n")
	var names []string
	for n := range files {
		names = append(names, n)
	}
	sort.Strings(names)
	for _, n := range names {
		fmt.Fprintf(&listing, "<a href=\"%s\">%s</a>\n", n, n)
		var gz bytes.Buffer
		zw := gzip.NewWriter(&gz)
		zw.Write(ovalDoc("rpm", "SUSE", files[n]))
		zw.Close()
		w.put("ftp.suse.test/pub/projects/security/oval/"+n, 200, "application/gzip", gz.Bytes())
	}
	listing.WriteString("<a href=\"suse.linux.enterprise.desktop.15.xml.gz\">x</a>\n<a href=\"opensuse.leap.15.4.xml.gz\">old</a>\n<a href=\"opensuse.leap.42.3.xml.gz\">older</a>\n</pre></body></html>")
	w.put("ftp.suse.test/pub/projects/security/oval/", 200, "text/html", []byte(listing.String()))
}

func suseRun(ctx context.Context, w *world) (map[string][]*claircore.Vulnerability, error) {
	f := &suse.Factory{}
	cf := func(v any) error {
		if c, ok := v.(*suse.FactoryConfig); ok {
			c.URL = "http://ftp.suse.test/pub/projects/security/oval/"
		}
		return nil
	}
	if err := f.Configure(ctx, cf, w.client()); err != nil {
		return nil, err
	}
	return runSet(ctx, w, f.UpdaterSet, noConfig)
}

// awsParse runs the real Parse of the updater of a release on an updateinfo document.
func awsParse(ctx context.Context, rel aws.Release, as []adv) ([]*claircore.Vulnerability, error) {
	u, err := aws.NewUpdater(rel)
	if err != nil {
		return nil, err
	}
	return u.Parse(ctx, io.NopCloser(bytes.NewReader(awsUpdateinfo(as))))
}

// ---- OSV ----

type osvAdv struct {
	id        string
	ecosystem string // as in the advisory's affected.package.ecosystem
	name      string
	purl      string
	rangeType string // ECOSYSTEM | SEMVER
	intro     string
	fixed     string
	before    []advPkg // further `affected` entries of the same advisory, listed before this package
}

func osvZip(as []osvAdv) []byte {
	var buf bytes.Buffer
	zw := zip.NewWriter(&buf)
	for _, a := range as {
		type event map[string]string
		evs := []event{{"introduced": a.intro}}
		if a.fixed != "" {
			evs = append(evs, event{"fixed": a.fixed})
		}
		var affected []any
		for _, o := range a.before {
			affected = append(affected, map[string]any{
				"package": map[string]string{"ecosystem": a.ecosystem, "name": o.pkg, "purl": a.purl + "-other"},
				"ranges":  []any{map[string]any{"type": a.rangeType, "events": []event{{"introduced": "0"}, {"fixed": o.fixed}}}},
			})
		}
		affected = append(affected, map[string]any{
			"package": map[string]string{"ecosystem": a.ecosystem, "name": a.name, "purl": a.purl},
			"ranges":  []any{map[string]any{"type": a.rangeType, "events": evs}},
		})
		doc := map[string]any{
			"id": a.id, "summary": "generated", "published": "2024-01-01T00:00:00Z", "modified": "2024-01-01T00:00:00Z",
			"affected": affected,
		}
		b, _ := json.Marshal(doc)
		f, _ := zw.Create(a.id + ".json")
		f.Write(b)
	}
	zw.Close()
	return buf.Bytes()
}

// osvWorld serves ecosystems.txt with the given lines and an all.zip per line.
func (w *world) osvWorld(lines []string, advs map[string][]osvAdv) {
	w.put("osv.test/ecosystems.txt", 200, "text/plain", []byte(strings.Join(lines, "\n")+"\n"), "etag", `"1"`)
	for _, l := range lines {
		w.put("osv.test/"+l+"/all.zip", 200, "application/zip", osvZip(advs[l]), "etag", `"1"`)
	}
}

func osvRun(ctx context.Context, w *world) (map[string][]*claircore.Vulnerability, error) {
	f := new(osv.Factory)
	cf := func(v any) error {
		if c, ok := v.(*osv.FactoryConfig); ok {
			c.URL = "http://osv.test/"
		}
		return nil
	}
	if err := f.Configure(ctx, cf, w.client()); err != nil {
		return nil, err
	}
	return runSet(ctx, w, f.UpdaterSet, noConfig)
}

// ---- aws / oracle as the update manager reaches them ----

func awsUpdateinfo(as []adv) []byte {
	var b strings.Builder
	b.WriteString(`<?xml version="1.0" ?><updates>`)
	pk := func(name, fixed string) string {
		ver, relv := fixed, "1"
		if i := strings.LastIndexByte(fixed, '-'); i >= 0 {
			ver, relv = fixed[:i], fixed[i+1:]
		}
		return fmt.Sprintf(`<package arch="x86_64" epoch="0" name="%s" release="%s" version="%s"><filename>f.rpm</filename></package>`, xmlEsc(name), xmlEsc(relv), xmlEsc(ver))
	}
	for _, a := range as {
		var pkgs strings.Builder
		for _, o := range a.before {
			pkgs.WriteString(pk(o.pkg, o.fixed))
		}
		pkgs.WriteString(pk(a.pkg, a.fixed))
		fmt.Fprintf(&b, `<update author="x" from="x" status="final" type="security" version="1.4"><id>%s</id><title>t</title><issued date="2024-01-01 00:00"/><updated date="2024-01-01 00:00"/><severity>important</severity><description>generated</description><references></references><pkglist><collection short="amazon-linux"><name>Amazon Linux</name>%s</collection></pkglist></update>`, xmlEsc(a.id), pkgs.String())
	}
	b.WriteString(`</updates>`)
	return []byte(b.String())
}

// awsWorld serves, per release, the mirror list at the address the release's
// updater asks, and on the mirror repomd.xml and updateinfo.xml.gz.
func (w *world) awsWorld(advs map[string][]adv) { w.awsWorldTagged(advs, "") }

// awsWorldTagged: tag goes into the updateinfo checksum of repomd.xml (the
// updater's fingerprint), so that a republished feed has another one.
func (w *world) awsWorldTagged(advs map[string][]adv, tag string) {
	lists := map[string]string{
		"AL1":    "repo.us-west-2.amazonaws.com/2018.03/updates/x86_64/mirror.list",
		"AL2":    "cdn.amazonlinux.com/2/core/latest/x86_64/mirror.list",
		"AL2023": "cdn.amazonlinux.com/al2023/core/mirrors/latest/x86_64/mirror.list",
	}
	for rel, as := range advs {
		w.put(lists[rel], 200, "text/plain", []byte("http://aws.test/"+rel+"\n"))
		var gz bytes.Buffer
		zw := gzip.NewWriter(&gz)
		zw.Write(awsUpdateinfo(as))
		zw.Close()
		sum := fmt.Sprintf("%x", len(gz.Bytes())) + "-" + rel + tag
		md := `<?xml version="1.0" encoding="UTF-8"?><repomd xmlns="http://linux.duke.edu/metadata/repo" xmlns:rpm="http://linux.duke.edu/metadata/rpm"><revision>1</revision>` +
			`<data type="primary_db"><checksum type="sha256">aa</checksum><location href="repodata/primary.sqlite.bz2"/></data>` +
			`<data type="updateinfo"><checksum type="sha256">` + sum + `</checksum><location href="repodata/updateinfo.xml.gz"/><timestamp>1</timestamp></data></repomd>`
		w.put("aws.test/"+rel+"/repodata/repomd.xml", 200, "application/xml", []byte(md))
		w.put("aws.test/"+rel+"/repodata/updateinfo.xml.gz", 200, "application/gzip", gz.Bytes())
	}
}

// oracleYearsWorld serves one uncompressed OVAL document per year; the
// returned configuration points the updater of each year at it.
func (w *world) oracleYearsWorld(years map[int][]adv, from, to int) map[string]func(any) error {
	cfgs := map[string]func(any) error{}
	for y := from; y <= to; y++ {
		key := fmt.Sprintf("linux.oracle.test/security/oval/com.oracle.elsa-%d.xml", y)
		w.put(key, 200, "application/xml", ovalDoc("rpm", "Oracle Linux 0", years[y]), "etag", `"1"`)
		url := "http://" + key
		cfgs[fmt.Sprintf("oracle-%d-updater", y)] = func(v any) error {
			if c, ok := v.(*ovalutil.FetcherConfig); ok {
				c.URL = url
				c.Compression = "none"
			}
			return nil
		}
	}
	return cfgs
}
