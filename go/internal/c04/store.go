package c04

// An in-memory datastore.Vulnerability.  Rows are what
// datastore/postgres.updateVulnerabilities writes for a vulnerability; Get
// asks the REAL query builder (postgres.buildGetQuery, through the verif
// export) for the SQL text of each record and evaluates its WHERE clause over
// the rows.  The SQL engine itself (Postgres) is modelled here, not verified:
// equality of text columns is byte equality, a NULL never compares equal, and
// `vulnerable_range @> v` is lower <= v < upper on ten-element arrays.

import (
	"context"
	"fmt"
	"strconv"
	"strings"
	"sync"

	"github.com/quay/claircore"
	"github.com/quay/claircore/datastore"
	"github.com/quay/claircore/datastore/postgres"
)

// row is one line of the vuln table (the columns the query can mention, plus
// what Get returns).
type row struct {
	id       int
	cols     map[string]*string // nil pointer = NULL
	hasRange bool
	lower    [10]int32
	upper    [10]int32
	vuln     *claircore.Vulnerability // as Get would rebuild it
}

func sp(s string) *string { return &s }

// mkRow mirrors the INSERT of updateVulnerabilities (nil Dist/Repo -> zero
// values, vulnerabilities without a package name are skipped) and the row
// scan of Get.
func mkRow(id int, v *claircore.Vulnerability) (*row, bool) {
	if v.Package == nil || v.Package.Name == "" {
		return nil, false
	}
	pkg, dist, repo := v.Package, v.Dist, v.Repo
	if dist == nil {
		dist = &claircore.Distribution{}
	}
	if repo == nil {
		repo = &claircore.Repository{}
	}
	cpeVal := ""
	if cv, err := (&dist.CPE).Value(); err == nil {
		if s, ok := cv.(string); ok {
			cpeVal = s
		}
	}
	r := &row{id: id, cols: map[string]*string{
		"name":                          sp(v.Name),
		"package_name":                  sp(pkg.Name),
		"package_version":               sp(pkg.Version),
		"package_module":                sp(pkg.Module),
		"package_arch":                  sp(pkg.Arch),
		"package_kind":                  sp(pkg.Kind),
		"dist_id":                       sp(dist.DID),
		"dist_name":                     sp(dist.Name),
		"dist_version":                  sp(dist.Version),
		"dist_version_code_name":        sp(dist.VersionCodeName),
		"dist_version_id":               sp(dist.VersionID),
		"dist_arch":                     sp(dist.Arch),
		"dist_cpe":                      sp(cpeVal),
		"dist_pretty_name":              sp(dist.PrettyName),
		"repo_name":                     sp(repo.Name),
		"repo_key":                      sp(repo.Key),
		"repo_uri":                      sp(repo.URI),
		"fixed_in_version":              sp(v.FixedInVersion),
		"version_kind":                  nil,
		"latest_update_operations.kind": sp("vulnerability"),
	}}
	// rangefmt: a kind only when the range exists and both ends have the same kind
	if v.Range != nil && v.Range.Lower.Kind == v.Range.Upper.Kind {
		r.cols["version_kind"] = sp(v.Range.Lower.Kind)
		r.hasRange = true
		r.lower = v.Range.Lower.V
		r.upper = v.Range.Upper.V
	}
	out := &claircore.Vulnerability{
		ID:                 strconv.Itoa(id),
		Name:               v.Name,
		Description:        v.Description,
		Issued:             v.Issued,
		Links:              v.Links,
		Severity:           v.Severity,
		NormalizedSeverity: v.NormalizedSeverity,
		Updater:            v.Updater,
		FixedInVersion:     v.FixedInVersion,
		ArchOperation:      v.ArchOperation,
		Package:            &claircore.Package{Name: pkg.Name, Version: pkg.Version, Module: pkg.Module, Arch: pkg.Arch, Kind: pkg.Kind},
		Dist: &claircore.Distribution{DID: dist.DID, Name: dist.Name, Version: dist.Version, VersionCodeName: dist.VersionCodeName,
			VersionID: dist.VersionID, Arch: dist.Arch, PrettyName: dist.PrettyName},
		Repo: &claircore.Repository{Name: repo.Name, Key: repo.Key, URI: repo.URI},
	}
	_ = out.Dist.CPE.Scan(cpeVal)
	r.vuln = out
	return r, true
}

// ---- SQL WHERE evaluation ----

type tok struct {
	kind string // ( ) and or ident str op cast
	val  string
}

func lexSQL(s string) ([]tok, error) {
	var out []tok
	i := 0
	for i < len(s) {
		c := s[i]
		switch {
		case c == ' ' || c == '\t' || c == '\n':
			i++
		case c == '(' || c == ')':
			out = append(out, tok{kind: string(c)})
			i++
		case c == '"':
			// "a" or "a"."b"
			var parts []string
			for i < len(s) && s[i] == '"' {
				j := strings.IndexByte(s[i+1:], '"')
				if j < 0 {
					return nil, fmt.Errorf("unterminated identifier")
				}
				parts = append(parts, s[i+1:i+1+j])
				i += j + 2
				if i < len(s) && s[i] == '.' && i+1 < len(s) && s[i+1] == '"' {
					i++
					continue
				}
				break
			}
			out = append(out, tok{kind: "ident", val: strings.Join(parts, ".")})
		case c == '\'':
			var b strings.Builder
			i++
			for {
				if i >= len(s) {
					return nil, fmt.Errorf("unterminated string")
				}
				if s[i] == '\'' {
					if i+1 < len(s) && s[i+1] == '\'' {
						b.WriteByte('\'')
						i += 2
						continue
					}
					i++
					break
				}
				b.WriteByte(s[i])
				i++
			}
			out = append(out, tok{kind: "str", val: b.String()})
		case strings.HasPrefix(s[i:], "::int[]"):
			out = append(out, tok{kind: "cast"})
			i += len("::int[]")
		case strings.HasPrefix(s[i:], "!="):
			out = append(out, tok{kind: "op", val: "!="})
			i += 2
		case strings.HasPrefix(s[i:], "@>"):
			out = append(out, tok{kind: "op", val: "@>"})
			i += 2
		case c == '=':
			out = append(out, tok{kind: "op", val: "="})
			i++
		default:
			j := i
			for j < len(s) && (s[j] == '_' || (s[j] >= 'a' && s[j] <= 'z') || (s[j] >= 'A' && s[j] <= 'Z')) {
				j++
			}
			if j == i {
				return nil, fmt.Errorf("unexpected byte %q", c)
			}
			w := s[i:j]
			switch w {
			case "AND":
				out = append(out, tok{kind: "and"})
			case "OR":
				out = append(out, tok{kind: "or"})
			default:
				out = append(out, tok{kind: "ident", val: w})
			}
			i = j
		}
	}
	return out, nil
}

type sqlEval struct {
	toks []tok
	pos  int
	row  *row
}

func (e *sqlEval) peek() tok {
	if e.pos < len(e.toks) {
		return e.toks[e.pos]
	}
	return tok{kind: "eof"}
}

// tri is SQL three-valued logic: 1 true, 0 false, -1 NULL.
func and3(a, b int) int {
	if a == 0 || b == 0 {
		return 0
	}
	if a == -1 || b == -1 {
		return -1
	}
	return 1
}

func or3(a, b int) int {
	if a == 1 || b == 1 {
		return 1
	}
	if a == -1 || b == -1 {
		return -1
	}
	return 0
}

func (e *sqlEval) expr() (int, error) {
	v, err := e.term()
	if err != nil {
		return 0, err
	}
	for e.peek().kind == "or" {
		e.pos++
		w, err := e.term()
		if err != nil {
			return 0, err
		}
		v = or3(v, w)
	}
	return v, nil
}

func (e *sqlEval) term() (int, error) {
	v, err := e.atom()
	if err != nil {
		return 0, err
	}
	for e.peek().kind == "and" {
		e.pos++
		w, err := e.atom()
		if err != nil {
			return 0, err
		}
		v = and3(v, w)
	}
	return v, nil
}

func (e *sqlEval) atom() (int, error) {
	t := e.peek()
	switch t.kind {
	case "(":
		e.pos++
		v, err := e.expr()
		if err != nil {
			return 0, err
		}
		if e.peek().kind != ")" {
			return 0, fmt.Errorf("missing )")
		}
		e.pos++
		return v, nil
	case "ident":
		e.pos++
		op := e.peek()
		if op.kind != "op" {
			return 0, fmt.Errorf("identifier %q without operator", t.val)
		}
		e.pos++
		lit := e.peek()
		if lit.kind != "str" {
			return 0, fmt.Errorf("operator without literal")
		}
		e.pos++
		if op.val == "@>" {
			if t.val != "vulnerable_range" {
				return 0, fmt.Errorf("@> on %q", t.val)
			}
			if e.peek().kind != "cast" {
				return 0, fmt.Errorf("array literal without cast")
			}
			e.pos++
			var v [10]int32
			body := strings.Trim(lit.val, "{}")
			fs := strings.Split(body, ",")
			if len(fs) != 10 {
				return 0, fmt.Errorf("array literal of %d elements", len(fs))
			}
			for i, f := range fs {
				n, err := strconv.ParseInt(f, 10, 32)
				if err != nil {
					return 0, err
				}
				v[i] = int32(n)
			}
			if !e.row.hasRange {
				return 0, nil // default range '()' of empty arrays is empty
			}
			if cmp10(e.row.lower, v) <= 0 && cmp10(v, e.row.upper) < 0 {
				return 1, nil
			}
			return 0, nil
		}
		col, ok := e.row.cols[t.val]
		if !ok {
			return 0, fmt.Errorf("unknown column %q", t.val)
		}
		if col == nil {
			return -1, nil
		}
		eq := *col == lit.val
		if op.val == "!=" {
			eq = !eq
		}
		if eq {
			return 1, nil
		}
		return 0, nil
	}
	return 0, fmt.Errorf("unexpected token %q", t.kind)
}

func cmp10(a, b [10]int32) int {
	for i := 0; i < 10; i++ {
		if a[i] < b[i] {
			return -1
		}
		if a[i] > b[i] {
			return 1
		}
	}
	return 0
}

// whereHolds evaluates the WHERE clause of a query text on a row.
func whereHolds(sql string, r *row) (bool, error) {
	const pre = `SELECT "vuln"."id", "name", "description", "issued", "links", "severity", "normalized_severity", "package_name", "package_version", "package_module", "package_arch", "package_kind", "dist_id", "dist_name", "dist_version", "dist_version_code_name", "dist_version_id", "dist_arch", "dist_cpe", "dist_pretty_name", "arch_operation", "repo_name", "repo_key", "repo_uri", "fixed_in_version", "vuln"."updater" FROM "vuln" INNER JOIN "uo_vuln" ON ("vuln"."id" = "uo_vuln"."vuln") INNER JOIN "latest_update_operations" ON ("latest_update_operations"."id" = "uo_vuln"."uo") WHERE `
	if !strings.HasPrefix(sql, pre) {
		return false, fmt.Errorf("select list / joins not recognised")
	}
	toks, err := lexSQL(sql[len(pre):])
	if err != nil {
		return false, err
	}
	e := &sqlEval{toks: toks, row: r}
	v, err := e.expr()
	if err != nil {
		return false, err
	}
	if e.pos != len(toks) {
		return false, fmt.Errorf("trailing tokens")
	}
	return v == 1, nil
}

// memStore implements datastore.Vulnerability over rows.
type memStore struct {
	mu     sync.Mutex
	rows   []*row
	sqlErr error // first SQL text the evaluator could not handle
	built  int
}

var _ datastore.Vulnerability = (*memStore)(nil)

func (s *memStore) add(vs ...*claircore.Vulnerability) {
	s.mu.Lock()
	defer s.mu.Unlock()
	for _, v := range vs {
		if r, ok := mkRow(len(s.rows)+1, v); ok {
			s.rows = append(s.rows, r)
		}
	}
}

// Get follows datastore/postgres.Get: a record whose query cannot be built is
// skipped; every other record gets an entry (possibly empty).
func (s *memStore) Get(ctx context.Context, records []*claircore.IndexRecord, opts datastore.GetOpts) (map[string][]*claircore.Vulnerability, error) {
	s.mu.Lock()
	defer s.mu.Unlock()
	results := map[string][]*claircore.Vulnerability{}
	seen := map[string]map[string]bool{}
	for _, rec := range records {
		q, err := postgres.BuildGetQueryForVerif(rec, &opts)
		if err != nil {
			continue
		}
		s.built++
		rid := rec.Package.ID
		if _, ok := results[rid]; !ok {
			results[rid] = []*claircore.Vulnerability{}
			seen[rid] = map[string]bool{}
		}
		for _, r := range s.rows {
			ok, err := whereHolds(q, r)
			if err != nil {
				if s.sqlErr == nil {
					s.sqlErr = fmt.Errorf("%v in: %s", err, q)
				}
				continue
			}
			if ok && !seen[rid][r.vuln.ID] {
				seen[rid][r.vuln.ID] = true
				cp := *r.vuln
				results[rid] = append(results[rid], &cp)
			}
		}
	}
	return results, nil
}
