package c04

// The advisories the generated feeds carry for one release, and what a scan
// of that release's image must report for the vulnerable package.  Real feeds
// are not "one advisory, one package, one fixed version":
//
//   -vuln, -vuln-b   two ids fixed by the same version of the same package
//                    (one secfixes entry with two ids in an Alpine secdb)
//   -old             the same package, fixed long ago: never reported
//   -multi           an advisory that names another package FIRST and the
//                    vulnerable package second (further criterions of an OVAL
//                    definition, further <package>s of an ALAS update, the
//                    same id under two packages in the Debian tracker / secdb)
//   -var             Ubuntu: the dpkginfo_object names a constant_variable
//                    listing other packages and the vulnerable one
//   -open            Debian / Ubuntu: no fixed version yet: reported
//   -fixed           the fixed package: never reported
//   -decoy-kind      right name, wrong kind (source vs binary): never reported

import "strings"

func lowFix(fixIn string) string {
	switch {
	case strings.Contains(fixIn, "-r"):
		return "0.0.1-r0"
	case strings.HasSuffix(fixIn, ".el"):
		return "0.0.1-1.el"
	}
	return "0.0.1-1"
}

// advSet: eco is alpine, debian, ubuntu, or an rpm-based one.
func advSet(eco string, p pkgPair, rel string, bySource bool) []adv {
	vn, fn, decoy := p.vulnBin, p.fixedBin, p.vulnSrc
	if bySource {
		vn, fn, decoy = p.vulnSrc, p.fixedSrc, p.vulnBin
	}
	id := func(k string) string { return "ADV-" + rel + "-" + k }
	out := []adv{
		{pkg: vn, fixed: p.fixIn, id: id("vuln")}, {pkg: vn, fixed: p.fixIn, id: id("vuln-b")},
		{pkg: vn, fixed: lowFix(p.fixIn), id: id("old")},
		{pkg: fn, fixed: p.fixIn, id: id("fixed")},
		{pkg: decoy, fixed: p.fixIn, id: id("decoy-kind")},
	}
	switch eco {
	case "alpine", "debian":
		// the same id under another package, listed first
		out = append(out, adv{pkg: "aaa-verif-other", fixed: p.fixIn, id: id("multi")}, adv{pkg: vn, fixed: p.fixIn, id: id("multi")})
	default:
		out = append(out, adv{pkg: vn, fixed: p.fixIn, id: id("multi"), before: []advPkg{{"aaa-verif-other", p.fixIn}}})
	}
	if eco == "ubuntu" {
		out = append(out, adv{pkg: vn, fixed: p.fixIn, id: id("var"), viaVar: []string{"aaa-verif-other", "zzz-verif-other"}})
	}
	if eco == "debian" || eco == "ubuntu" {
		out = append(out, adv{pkg: vn, id: id("open"), open: true})
	}
	return out
}

// expandWant: what must be reported for the vulnerable package given the
// "-vuln" advisory of its release.
func expandWant(w string) []string {
	if !strings.HasPrefix(w, "ADV-") || !strings.HasSuffix(w, "-vuln") {
		return []string{w}
	}
	base := strings.TrimSuffix(w, "-vuln")
	eco := strings.SplitN(strings.TrimPrefix(w, "ADV-"), "-", 2)[0]
	switch eco {
	case "alpine", "photon", "suse", "leap", "aws", "oracle":
		return []string{w, w + "-b", base + "-multi"}
	case "debian":
		return []string{w, w + "-b", base + "-multi", base + "-open"}
	case "ubuntu":
		return []string{w, w + "-b", base + "-multi", base + "-var", base + "-open"}
	}
	return []string{w}
}

func expandWants(ws []string) []string {
	var out []string
	for _, w := range ws {
		out = append(out, expandWant(w)...)
	}
	return out
}

// debianShared: one advisory id that the tracker lists for EVERY release of
// the generated mirror, with a fixed version of its own per release: only the
// first release's version is above the installed one.
func debianShared(p pkgPair) adv {
	per := map[string]string{}
	for _, r := range debianWorldReleases[1:] {
		per[r.code] = lowFix(p.fixIn)
	}
	return adv{pkg: p.vulnSrc, fixed: p.fixIn, id: "ADV-debian-shared", perRel: per}
}
