package c04

// A generated Red Hat VEX (CSAF) feed with known ground truth, for the RHEL
// join: product tree (repositories with a CPE, packages with a PURL, modules),
// component relationships (package -> repository, package -> module ->
// repository), product_status fixed / known_affected.  The REAL vex updater
// parses it; images (redhat-release, content manifest, rpm database written
// by the harness) go through the REAL libindex and libvuln.Scan.  Unlike
// sectionRhel / sectionRhelFull, which take the parser's output as the
// starting point, what must be reported is derived from the generated
// documents themselves: a package under a repository's CPE is reported for
// that repository's advisory, and not for another repository's of the same
// document.

import (
	"bytes"
	"context"
	"encoding/json"
	"fmt"
	"sort"
	"strings"
	"time"

	"github.com/klauspost/compress/snappy"

	"github.com/quay/claircore"
	"github.com/quay/claircore/libindex"
	"github.com/quay/claircore/libvuln"
	"github.com/quay/claircore/libvuln/driver"
	"github.com/quay/claircore/libvuln/updates"
	"github.com/quay/claircore/rhel/vex"
	"github.com/quay/claircore/toolkit/types/cpe"
	"github.com/quay/claircore/verifharness/internal/memstore"
)

// vexEntry is one (repository, package) statement of a document.
type vexEntry struct {
	repo   int    // index into vexDoc.repos
	pkg    string // binary name (fixed) / source name (affected)
	epoch  int
	vr     string // version-release of the fix ("" = known_affected, no fix)
	arch   string
	module string // "name:stream" or ""
}

type vexDoc struct {
	cve     string
	repos   []string // CPE names as Red Hat writes them
	entries []vexEntry
}

var vexRepoPool = []string{
	"cpe:/a:redhat:enterprise_linux:8::appstream", "cpe:/o:redhat:enterprise_linux:8::baseos", "cpe:/a:redhat:enterprise_linux:8::crb",
	"cpe:/a:redhat:enterprise_linux:9::appstream", "cpe:/o:redhat:enterprise_linux:9::baseos",
	"cpe:/a:redhat:rhel_eus:8.6::appstream", "cpe:/o:redhat:rhel_eus:8.6::baseos", "cpe:/a:redhat:rhel_e4s:9.0::appstream",
}

func (d vexDoc) json() []byte {
	type obj = map[string]any
	var repoBranches, pkgBranches []any
	var rels []any
	for i, c := range d.repos {
		repoBranches = append(repoBranches, obj{"category": "product_name", "name": fmt.Sprintf("Repository %d", i),
			"product": obj{"name": fmt.Sprintf("Repository %d", i), "product_id": fmt.Sprintf("repo-%d", i), "product_identification_helper": obj{"cpe": c}}})
	}
	var fixed, affected, all []string
	seenMod := map[string]bool{}
	seenPkg := map[string]bool{}
	for _, e := range d.entries {
		repoID := fmt.Sprintf("repo-%d", e.repo)
		parent := repoID
		if e.module != "" {
			modID := "mod-" + strings.ReplaceAll(e.module, ":", "-")
			if !seenPkg[modID] {
				seenPkg[modID] = true
				name, stream, _ := strings.Cut(e.module, ":")
				pkgBranches = append(pkgBranches, obj{"category": "product_version", "name": modID,
					"product": obj{"name": modID, "product_id": modID, "product_identification_helper": obj{"purl": "pkg:rpmmod/redhat/" + name + "@" + stream + ":8090020231130:0a1b2c3d"}}})
			}
			parent = repoID + ":" + modID
			if !seenMod[parent] {
				seenMod[parent] = true
				rels = append(rels, obj{"category": "default_component_of", "full_product_name": obj{"name": parent, "product_id": parent},
					"product_reference": modID, "relates_to_product_reference": repoID})
			}
		}
		var pkgID, purl string
		if e.vr != "" {
			pkgID = fmt.Sprintf("%s-%d:%s.%s", e.pkg, e.epoch, e.vr, e.arch)
			purl = fmt.Sprintf("pkg:rpm/redhat/%s@%s?arch=%s", e.pkg, e.vr, e.arch)
			if e.epoch != 0 {
				purl += fmt.Sprintf("&epoch=%d", e.epoch)
			}
		} else {
			pkgID = e.pkg
			purl = "pkg:rpm/redhat/" + e.pkg + "?arch=src"
		}
		if !seenPkg[pkgID] {
			seenPkg[pkgID] = true
			pkgBranches = append(pkgBranches, obj{"category": "product_version", "name": pkgID,
				"product": obj{"name": pkgID, "product_id": pkgID, "product_identification_helper": obj{"purl": purl}}})
		}
		full := parent + ":" + pkgID
		rels = append(rels, obj{"category": "default_component_of", "full_product_name": obj{"name": full, "product_id": full},
			"product_reference": pkgID, "relates_to_product_reference": parent})
		all = append(all, full)
		if e.vr != "" {
			fixed = append(fixed, full)
		} else {
			affected = append(affected, full)
		}
	}
	status := obj{}
	if len(fixed) > 0 {
		status["fixed"] = fixed
	}
	if len(affected) > 0 {
		status["known_affected"] = affected
	}
	doc := obj{
		"document": obj{"category": "csaf_vex", "csaf_version": "2.0", "title": "generated", "lang": "en",
			"publisher":  obj{"category": "vendor", "name": "Red Hat Product Security", "namespace": "https://www.redhat.com"},
			"references": []any{obj{"category": "self", "summary": "Canonical URL", "url": "https://access.redhat.test/vex/" + d.cve + ".json"}},
			"tracking": obj{"id": d.cve, "status": "final", "version": "1", "current_release_date": "2024-01-01T00:00:00+00:00", "initial_release_date": "2024-01-01T00:00:00+00:00",
				"revision_history": []any{obj{"date": "2024-01-01T00:00:00+00:00", "number": "1", "summary": "Initial version"}},
				"generator":        obj{"date": "2024-01-01T00:00:00+00:00", "engine": obj{"name": "verif", "version": "1"}}}},
		"product_tree": obj{
			"branches": []any{obj{"category": "vendor", "name": "Red Hat", "branches": append(repoBranches,
				obj{"category": "architecture", "name": "x86_64", "branches": pkgBranches})}},
			"relationships": rels},
		"vulnerabilities": []any{obj{"cve": d.cve, "title": "generated", "release_date": "2024-01-01T00:00:00+00:00",
			"notes":          []any{obj{"category": "description", "text": "generated", "title": "Vulnerability description"}},
			"product_status": status,
			"references":     []any{obj{"category": "self", "summary": "Canonical URL", "url": "https://access.redhat.test/security/cve/" + d.cve}},
			"threats":        []any{obj{"category": "impact", "details": "Important", "product_ids": all}}}},
	}
	b, _ := json.Marshal(doc)
	return b
}

func vexParse(ctx context.Context, docs []vexDoc) ([]*claircore.Vulnerability, error) {
	var lines bytes.Buffer
	for _, d := range docs {
		lines.Write(d.json())
		lines.WriteByte('\n')
	}
	var buf bytes.Buffer
	sw := snappy.NewBufferedWriter(&buf)
	if _, err := sw.Write(lines.Bytes()); err != nil {
		return nil, err
	}
	if err := sw.Close(); err != nil {
		return nil, err
	}
	f := &vex.Factory{}
	w := newWorld()
	if err := f.Configure(ctx, func(v any) error {
		if c, ok := v.(*vex.FactoryConfig); ok {
			c.URL = "http://vex.test/"
		}
		return nil
	}, w.client()); err != nil {
		return nil, err
	}
	us, err := f.UpdaterSet(ctx)
	if err != nil {
		return nil, err
	}
	for _, u := range us.Updaters() {
		du, ok := u.(driver.DeltaUpdater)
		if !ok {
			return nil, fmt.Errorf("the vex updater is not a DeltaUpdater")
		}
		vs, _, err := du.DeltaParse(ctx, nopCloser{bytes.NewReader(buf.Bytes())})
		return vs, err
	}
	return nil, fmt.Errorf("no vex updater")
}

func (h *harness) genVexDocs(n int) []vexDoc {
	rn := h.rnd
	var docs []vexDoc
	for i := 0; i < n; i++ {
		d := vexDoc{cve: fmt.Sprintf("CVE-2099-%04d", 1000+i)}
		for _, j := range perm(rn, len(vexRepoPool))[:3] {
			d.repos = append(d.repos, vexRepoPool[j])
		}
		base := fmt.Sprintf("vrf%s%d", rn.Pick("lib", "py", "go"), 10+rn.Intn(89))
		mod := ""
		if rn.Chance(1, 3) {
			mod = rn.Pick("nodejs:18", "postgresql:15", "ruby:3.1")
		}
		arch := rn.Pick("x86_64", "aarch64", "noarch", "s390x")
		ep := 0
		if rn.Chance(1, 3) {
			ep = 1 + rn.Intn(2)
		}
		// the same package fixed in two repositories by different builds;
		// not listed at all for the third
		d.entries = append(d.entries,
			vexEntry{repo: 0, pkg: base, epoch: ep, vr: fmt.Sprintf("%d.%d-%d.el8", 2+rn.Intn(3), rn.Intn(9), 1+rn.Intn(9)), arch: arch, module: mod},
			vexEntry{repo: 1, pkg: base, epoch: ep, vr: fmt.Sprintf("%d.%d-%d.el9", 6+rn.Intn(3), rn.Intn(9), 1+rn.Intn(9)), arch: arch, module: mod})
		// another package, unfixed, in the second repository only (or in the third)
		d.entries = append(d.entries, vexEntry{repo: 1 + rn.Intn(2), pkg: base + "-unfixed"})
		// and one fixed in the third only
		d.entries = append(d.entries, vexEntry{repo: 2, pkg: base + "-third", vr: "3.0-1.el8", arch: "x86_64"})
		if rn.Chance(1, 2) {
			d.entries[0], d.entries[1] = d.entries[1], d.entries[0]
		}
		docs = append(docs, d)
	}
	return docs
}

func (h *harness) sectionVexGenerated() {
	r := h.r
	ctx, cancel := context.WithTimeout(h.ctx, 3*time.Minute)
	defer cancel()
	defer func() {
		if ctx.Err() != nil {
			r.Fail("", "vex-generated: libindex / libvuln did not finish within three minutes (hang)")
		}
	}()
	docs := h.genVexDocs(h.cfg.N(12, 80))
	vs, err := vexParse(ctx, docs)
	if err != nil {
		r.Fail("", "vex-generated: the vex updater rejects the generated feed: "+err.Error())
		return
	}
	sort.Slice(vs, func(i, j int) bool { return fmt.Sprint(vs[i].Name, vs[i].Package, vs[i].FixedInVersion, vs[i].Repo) < fmt.Sprint(vs[j].Name, vs[j].Package, vs[j].FixedInVersion, vs[j].Repo) })
	mapping := map[string]any{}
	for j, c := range vexRepoPool {
		mapping[fmt.Sprintf("verif-pool-%d", j)] = map[string]any{"cpes": []string{c}}
	}
	poolIdx := func(c string) int {
		for j, x := range vexRepoPool {
			if x == c {
				return j
			}
		}
		return -1
	}
	mb, _ := json.Marshal(map[string]any{"data": mapping})
	wi := newWorld()
	wi.put("security.access.redhat.com/data/metrics/repository-to-cpe.json", 200, "application/json", mb, "last-modified", "Mon, 01 Jan 2024 00:00:00 GMT")
	ar := &memArena{layers: map[string][]byte{}}
	li, err := libindex.New(ctx, &libindex.Options{Store: memstore.New(), Locker: updates.NewLocalLockSource(), FetchArena: ar, LayerScanConcurrency: 2}, wi.client())
	if err != nil {
		r.Fail("", "vex-generated: libindex.New: "+err.Error())
		return
	}
	defer li.Close(ctx)
	st := newFullStore()
	st.byUpdater["rhel-vex"] = vs
	st.rebuild()
	lv, err := libvuln.New(ctx, &libvuln.Options{Store: st, Locker: updates.NewLocalLockSource(), Client: wi.client(),
		UpdaterSets: []string{}, DisableBackgroundUpdates: true, UpdateRetention: 2})
	if err != nil {
		r.Fail("", "vex-generated: libvuln.New: "+err.Error())
		return
	}
	defer lv.Close(ctx)
	// reportedAs: (advisory, fixed-in, repository CPE) triples libvuln.Scan reports for the package
	type hit struct {
		cve, fixed string
		repo       cpe.WFN
	}
	scan := func(what string, cpeName string, rec rpmRec) ([]hit, bool) {
		db, err := rpmSqliteDB([]rpmRec{{name: "verif-filler", version: "1.0", release: "1", arch: "noarch", srpm: "verif-filler-1.0-1.src.rpm"}, rec})
		if err != nil {
			r.Fail("", "vex-generated: writing an rpm database: "+err.Error())
			return nil, false
		}
		manifest := []byte(fmt.Sprintf(`{"metadata":{"icm_version":1,"icm_spec":"x","image_layer_index":0},"content_sets":["verif-pool-%d"],"image_contents":[]}`, poolIdx(cpeName)))
		ir, err := li.Index(ctx, ar.manifestOf(map[string][]byte{
			"etc/redhat-release": []byte("Red Hat Enterprise Linux release 8.9 (Ootpa)\n"),
			"root/buildinfo/content_manifests/verif-1-1.json": manifest, "var/lib/rpm/rpmdb.sqlite": db}))
		if err != nil || ir == nil || !ir.Success {
			r.Fail("", fmt.Sprintf("vex-generated %s: libindex.Index failed: %v", what, err))
			return nil, false
		}
		vr, err := lv.Scan(ctx, ir)
		if err != nil {
			r.Fail("", fmt.Sprintf("vex-generated %s: libvuln.Scan failed: %v", what, err))
			return nil, false
		}
		var out []hit
		found := false
		for id, p := range vr.Packages {
			if p.Name != rec.name {
				continue
			}
			found = true
			for _, vid := range vr.PackageVulnerabilities[id] {
				if x := vr.Vulnerabilities[vid]; x != nil && x.Repo != nil {
					w, err := cpe.Unbind(x.Repo.Name)
					if err != nil {
						continue
					}
					out = append(out, hit{x.Name, x.FixedInVersion, w})
				}
			}
		}
		if !found {
			r.Fail("", fmt.Sprintf("vex-generated %s: libindex did not find the package %s written to the rpm database", what, rec.name))
			return nil, false
		}
		return out, true
	}
	has := func(hs []hit, cve, fixed, repo string) bool {
		w, _ := cpe.Unbind(repo)
		for _, x := range hs {
			if x.cve == cve && x.fixed == fixed && x.repo.String() == w.String() {
				return true
			}
		}
		return false
	}
	for _, d := range docs {
		for _, e := range d.entries {
			if r.Stop() {
				return
			}
			key := fmt.Sprintf("vex-generated %s package=%s module=%q fix=%d:%s arch=%s repository=%s (document repositories %v)", d.cve, e.pkg, e.module, e.epoch, e.vr, e.arch, d.repos[e.repo], d.repos)
			r.Case(key, true)
			r.Count("full:vex-generated")
			label := ""
			if e.module != "" {
				label = e.module + ":8090020231130:0a1b2c3d"
			}
			arch := e.arch
			if arch == "" {
				arch = "x86_64"
			}
			rec := rpmRec{name: e.pkg, version: "0.0.1", release: "1.el8", arch: arch, srpm: e.pkg + "-0.0.1-1.el8.src.rpm", module: label}
			fixedIn := ""
			if e.vr != "" {
				fixedIn = fmt.Sprintf("%d:%s", e.epoch, e.vr)
			} else {
				rec.name = e.pkg + "-libs" // a binary package built from the affected source package
			}
			// (1) in the repository the document names: reported
			if got, ok := scan(key, d.repos[e.repo], rec); ok && !has(got, d.cve, fixedIn, d.repos[e.repo]) {
				r.Fail("", fmt.Sprintf("%s: %s-0.0.1-1.el8 installed from that repository is not reported (reported: %d advisories)", key, rec.name, len(got)))
			}
			// (2) in the document's other repositories: this repository's advisory is not reported
			for j, other := range d.repos {
				if j == e.repo {
					continue
				}
				if got, ok := scan(key, other, rec); ok && has(got, d.cve, fixedIn, d.repos[e.repo]) {
					r.Fail("", fmt.Sprintf("%s: reported for an image whose content set maps to %s", key, other))
				} else if ok {
					// nothing of this document may be reported there unless the document lists the package for that repository
					listed := false
					for _, o := range d.entries {
						if o.repo == j && o.pkg == e.pkg {
							listed = true
						}
					}
					if !listed {
						for _, x := range got {
							if x.cve == d.cve {
								r.Fail("", fmt.Sprintf("%s: an image whose content set maps to %s (for which the document does not list the package) gets %s reported with repository %s", key, other, x.cve, x.repo.BindFS()))
							}
						}
					}
				}
			}
			// (3) the fixed build itself: not reported
			if e.vr != "" {
				v, rl := splitVR(e.vr)
				fx := rec
				fx.version, fx.release, fx.epoch = v, rl, int32(e.epoch)
				fx.srpm = e.pkg + "-" + e.vr + ".src.rpm"
				if got, ok := scan(key, d.repos[e.repo], fx); ok && has(got, d.cve, fixedIn, d.repos[e.repo]) {
					r.Fail("", key+": the fixed build itself is installed and the advisory is reported")
				}
			}
		}
	}
	if st.sqlErr != nil {
		r.Fail("", "the SQL text of buildGetQuery is no longer of the known shape: "+st.sqlErr.Error())
	}
}
