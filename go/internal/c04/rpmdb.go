package c04

// The harness's own writer of rpm databases (header blobs with an immutable
// region, in an rpmdb.sqlite or in an ndb Packages.db), so that rpm-based
// images go through the REAL rpm.Scanner inside the REAL libindex.  The
// numbers are rpm's (lib/rpmtag.h, lib/header.h, lib/backend/ndb).

import (
	"bytes"
	"database/sql"
	"encoding/binary"
	"hash/adler32"
	"os"
	"path/filepath"
	"sort"

	_ "modernc.org/sqlite" // the driver claircore itself links
)

const (
	rtagHeaderImmutable = 63
	rtagName            = 1000
	rtagVersion         = 1001
	rtagRelease         = 1002
	rtagEpoch           = 1003
	rtagSummary         = 1004
	rtagSize            = 1009
	rtagLicense         = 1014
	rtagArch            = 1022
	rtagSourceRPM       = 1044
	rtagModularityLabel = 5096

	rtypeInt32      = 4
	rtypeString     = 6
	rtypeBin        = 7
	rtypeI18nString = 9
)

type rpmEnt struct {
	tag, typ int32
	data     []byte
	ct       uint32
}

func rpmStr(tag int32, s string) rpmEnt {
	return rpmEnt{tag: tag, typ: rtypeString, data: append([]byte(s), 0), ct: 1}
}

// rpmRec is one installed package.
type rpmRec struct {
	name, version, release, arch string
	epoch                        int32 // 0 = no EPOCH tag
	srpm                         string
	module                       string // MODULARITYLABEL, "" = none
}

func (p rpmRec) blob() []byte {
	ents := []rpmEnt{
		rpmStr(rtagName, p.name), rpmStr(rtagVersion, p.version), rpmStr(rtagRelease, p.release),
		{tag: rtagSummary, typ: rtypeI18nString, data: append([]byte("summary of "+p.name), 0), ct: 1},
		rpmStr(rtagLicense, "MIT"),
		{tag: rtagSize, typ: rtypeInt32, data: []byte{0, 0, 0x30, 0x39}, ct: 1},
		rpmStr(rtagArch, p.arch),
	}
	if p.epoch != 0 {
		b := make([]byte, 4)
		binary.BigEndian.PutUint32(b, uint32(p.epoch))
		ents = append(ents, rpmEnt{tag: rtagEpoch, typ: rtypeInt32, data: b, ct: 1})
	}
	if p.srpm != "" {
		ents = append(ents, rpmStr(rtagSourceRPM, p.srpm))
	}
	if p.module != "" {
		ents = append(ents, rpmStr(rtagModularityLabel, p.module))
	}
	sort.SliceStable(ents, func(i, j int) bool { return ents[i].tag < ents[j].tag })
	var data []byte
	type idx struct{ tag, typ, off, ct uint32 }
	var index []idx
	for _, e := range ents {
		if e.typ == rtypeInt32 {
			for len(data)%4 != 0 {
				data = append(data, 0)
			}
		}
		index = append(index, idx{uint32(e.tag), uint32(e.typ), uint32(len(data)), e.ct})
		data = append(data, e.data...)
	}
	il := uint32(len(index) + 1)
	trailerOff := uint32(len(data))
	tr := make([]byte, 16)
	binary.BigEndian.PutUint32(tr[0:], rtagHeaderImmutable)
	binary.BigEndian.PutUint32(tr[4:], rtypeBin)
	binary.BigEndian.PutUint32(tr[8:], uint32(-int32(il*16)))
	binary.BigEndian.PutUint32(tr[12:], 16)
	data = append(data, tr...)
	var out bytes.Buffer
	w32 := func(x uint32) { binary.Write(&out, binary.BigEndian, x) }
	w32(il)
	w32(uint32(len(data)))
	w32(rtagHeaderImmutable)
	w32(rtypeBin)
	w32(trailerOff)
	w32(16)
	for _, e := range index {
		w32(e.tag)
		w32(e.typ)
		w32(e.off)
		w32(e.ct)
	}
	out.Write(data)
	return out.Bytes()
}

// rpmSqliteDB builds an rpmdb.sqlite holding the packages.
func rpmSqliteDB(pkgs []rpmRec) ([]byte, error) {
	dir, err := os.MkdirTemp("", "c04rpm")
	if err != nil {
		return nil, err
	}
	defer os.RemoveAll(dir)
	p := filepath.Join(dir, "rpmdb.sqlite")
	db, err := sql.Open("sqlite", "file:"+p)
	if err != nil {
		return nil, err
	}
	if _, err := db.Exec(`CREATE TABLE IF NOT EXISTS 'Packages' (hnum INTEGER PRIMARY KEY AUTOINCREMENT, blob BLOB NOT NULL)`); err != nil {
		db.Close()
		return nil, err
	}
	for _, pk := range pkgs {
		if _, err := db.Exec(`INSERT INTO Packages (blob) VALUES (?)`, pk.blob()); err != nil {
			db.Close()
			return nil, err
		}
	}
	if err := db.Close(); err != nil {
		return nil, err
	}
	return os.ReadFile(p)
}

// rpmNdbDB builds a Packages.db (rpm's ndb format) holding the packages.
func rpmNdbDB(pkgs []rpmRec) []byte {
	le := binary.LittleEndian
	n := len(pkgs)
	npages := (n + 2 + 255) / 256
	if npages == 0 {
		npages = 1
	}
	file := make([]byte, npages*4096)
	copy(file[0:], "RpmP")
	le.PutUint32(file[4:], 0)
	le.PutUint32(file[8:], 1)
	le.PutUint32(file[12:], uint32(npages))
	le.PutUint32(file[16:], uint32(n+1))
	for i := 2; i < npages*256; i++ {
		copy(file[i*16:], "Slot")
	}
	for i, pk := range pkgs {
		b := pk.blob()
		blobLen := 16 + len(b) + 12
		blocks := (blobLen + 15) / 16
		off := len(file)
		blob := make([]byte, blocks*16)
		copy(blob[0:], "BlbS")
		le.PutUint32(blob[4:], uint32(i+1))
		le.PutUint32(blob[8:], 1)
		le.PutUint32(blob[12:], uint32(len(b)))
		copy(blob[16:], b)
		le.PutUint32(blob[len(blob)-12:], adler32.Checksum(blob[:len(blob)-12]))
		le.PutUint32(blob[len(blob)-8:], uint32(len(b)))
		copy(blob[len(blob)-4:], "BlbE")
		file = append(file, blob...)
		s := (2 + i) * 16
		le.PutUint32(file[s+4:], uint32(i+1))
		le.PutUint32(file[s+8:], uint32(off/16))
		le.PutUint32(file[s+12:], uint32(blocks))
	}
	return file
}

// splitEVR splits "v-r" at the last dash.
func splitVR(vr string) (string, string) {
	for i := len(vr) - 1; i >= 0; i-- {
		if vr[i] == '-' {
			return vr[:i], vr[i+1:]
		}
	}
	return vr, "1"
}

// rpmImageDB renders the pair's two packages as a database file of the given
// flavour: the path inside the image and the content.
func rpmImageDB(p pkgPair, flavour string, module string) (string, []byte, error) {
	mk := func(bin, src, vr string) rpmRec {
		v, r := splitVR(vr)
		return rpmRec{name: bin, version: v, release: r, arch: "x86_64", srpm: src + "-" + vr + ".src.rpm", module: module}
	}
	pkgs := []rpmRec{
		{name: "verif-filler", version: "1.0", release: "1", arch: "noarch", srpm: "verif-filler-1.0-1.src.rpm"},
		mk(p.vulnBin, p.vulnSrc, p.vulnVer), mk(p.fixedBin, p.fixedSrc, p.fixedVer),
		{name: "gpg-pubkey", version: "fd431d51", release: "4ae0493b", arch: "(none)"},
	}
	if flavour == "ndb" {
		return "usr/lib/sysimage/rpm/Packages.db", rpmNdbDB(pkgs), nil
	}
	b, err := rpmSqliteDB(pkgs)
	return "var/lib/rpm/rpmdb.sqlite", b, err
}
