package c04

// The property at its observation point: libvuln.Libvuln.Scan on the
// IndexReport libindex.Libindex.Index produces for a generated image.
//
//   - the REAL libindex (default ecosystems, controller, layer scanner,
//     coalescers) over the shared in-memory indexer.Store (go/internal/memstore)
//     and a fetch arena that hands out the generated layer tars;
//   - the REAL libvuln: update manager running the default updater sets
//     (alpine, debian, ubuntu, osv, photon, suse) against the in-process world,
//     default matchers, Scan; its datastore.MatcherStore is in memory: the
//     Updater half keeps the advisories of the latest operation per updater,
//     the Vulnerability half is memStore.Get (real buildGetQuery text).
//
// rpm-based images cannot be produced here (no rpm database writer); they are
// covered by sectionPipeline with hand-built package records.

import (
	"archive/zip"
	"bytes"
	"context"
	"crypto/sha256"
	"encoding/hex"
	"fmt"
	"os"
	"sort"
	"strconv"
	"strings"
	"sync"
	"time"

	"github.com/google/uuid"

	"github.com/quay/claircore"
	"github.com/quay/claircore/alpine"
	"github.com/quay/claircore/datastore"
	"github.com/quay/claircore/debian"
	"github.com/quay/claircore/indexer"
	"github.com/quay/claircore/libindex"
	"github.com/quay/claircore/libvuln"
	"github.com/quay/claircore/libvuln/driver"
	"github.com/quay/claircore/libvuln/updates"
	"github.com/quay/claircore/suse"
	"github.com/quay/claircore/ubuntu"
	_ "github.com/quay/claircore/updater/defaults"
	"github.com/quay/claircore/updater/osv"
	"github.com/quay/claircore/verifharness/internal/memstore"
)

// fullStore is a datastore.MatcherStore in memory.
type fullStore struct {
	memStore
	umu       sync.Mutex
	byUpdater map[string][]*claircore.Vulnerability
	errs      map[string]error
}

var _ datastore.MatcherStore = (*fullStore)(nil)

func newFullStore() *fullStore {
	return &fullStore{byUpdater: map[string][]*claircore.Vulnerability{}, errs: map[string]error{}}
}

func (s *fullStore) rebuild() {
	var names []string
	for n := range s.byUpdater {
		names = append(names, n)
	}
	sort.Strings(names)
	s.memStore.mu.Lock()
	s.memStore.rows = nil
	s.memStore.mu.Unlock()
	for _, n := range names {
		s.memStore.add(s.byUpdater[n]...)
	}
}

func (s *fullStore) UpdateVulnerabilities(ctx context.Context, updater string, fp driver.Fingerprint, vulns []*claircore.Vulnerability) (uuid.UUID, error) {
	s.umu.Lock()
	defer s.umu.Unlock()
	s.byUpdater[updater] = vulns
	s.rebuild()
	return uuid.New(), nil
}

func (s *fullStore) UpdateVulnerabilitiesIter(ctx context.Context, updater string, fp driver.Fingerprint, it datastore.VulnerabilityIter) (uuid.UUID, error) {
	var vs []*claircore.Vulnerability
	var ierr error
	it(func(v *claircore.Vulnerability, err error) bool {
		if err != nil {
			ierr = err
			return false
		}
		vs = append(vs, v)
		return true
	})
	if ierr != nil {
		return uuid.Nil, ierr
	}
	return s.UpdateVulnerabilities(ctx, updater, fp, vs)
}

func (s *fullStore) DeltaUpdateVulnerabilities(ctx context.Context, updater string, fp driver.Fingerprint, vulns []*claircore.Vulnerability, deleted []string) (uuid.UUID, error) {
	s.umu.Lock()
	defer s.umu.Unlock()
	gone := map[string]bool{}
	for _, d := range deleted {
		gone[d] = true
	}
	for _, v := range vulns {
		gone[v.Name] = true
	}
	var keep []*claircore.Vulnerability
	for _, v := range s.byUpdater[updater] {
		if !gone[v.Name] {
			keep = append(keep, v)
		}
	}
	s.byUpdater[updater] = append(keep, vulns...)
	s.rebuild()
	return uuid.New(), nil
}

func (s *fullStore) UpdateEnrichments(context.Context, string, driver.Fingerprint, []driver.EnrichmentRecord) (uuid.UUID, error) {
	return uuid.New(), nil
}

func (s *fullStore) UpdateEnrichmentsIter(context.Context, string, driver.Fingerprint, datastore.EnrichmentIter) (uuid.UUID, error) {
	return uuid.New(), nil
}

func (s *fullStore) GetUpdateOperations(context.Context, driver.UpdateKind, ...string) (map[string][]driver.UpdateOperation, error) {
	return map[string][]driver.UpdateOperation{}, nil
}

func (s *fullStore) GetLatestUpdateRefs(context.Context, driver.UpdateKind) (map[string][]driver.UpdateOperation, error) {
	return map[string][]driver.UpdateOperation{}, nil
}

func (s *fullStore) GetLatestUpdateRef(context.Context, driver.UpdateKind) (uuid.UUID, error) {
	return uuid.Nil, nil
}

func (s *fullStore) DeleteUpdateOperations(context.Context, ...uuid.UUID) (int64, error) {
	return 0, nil
}

func (s *fullStore) GetUpdateDiff(context.Context, uuid.UUID, uuid.UUID) (*driver.UpdateDiff, error) {
	return &driver.UpdateDiff{}, nil
}

func (s *fullStore) GC(context.Context, int) (int64, error) { return 0, nil }

func (s *fullStore) Initialized(context.Context) (bool, error) {
	s.umu.Lock()
	defer s.umu.Unlock()
	return len(s.byUpdater) > 0, nil
}

func (s *fullStore) RecordUpdaterStatus(ctx context.Context, name string, t time.Time, fp driver.Fingerprint, uerr error) error {
	s.umu.Lock()
	defer s.umu.Unlock()
	if uerr != nil {
		s.errs[name] = uerr
	}
	return nil
}

func (s *fullStore) RecordUpdaterSetStatus(context.Context, string, time.Time) error { return nil }

func (s *fullStore) GetEnrichment(context.Context, string, []string) ([]driver.EnrichmentRecord, error) {
	return nil, nil
}

// ---- fetch arena over generated layers ----

type memArena struct {
	mu     sync.Mutex
	layers map[string][]byte // digest -> tar
}

func (a *memArena) Realizer(context.Context) indexer.Realizer { return &memRealizer{a: a} }
func (a *memArena) Close(context.Context) error               { return nil }

type memRealizer struct {
	a      *memArena
	inited []*claircore.Layer
}

func (r *memRealizer) Realize(ctx context.Context, ls []*claircore.Layer) error {
	for _, l := range ls {
		if l.Fetched() {
			continue
		}
		r.a.mu.Lock()
		b, ok := r.a.layers[l.Hash.String()]
		r.a.mu.Unlock()
		if !ok {
			return fmt.Errorf("unknown layer %s", l.Hash)
		}
		desc := claircore.LayerDescription{Digest: l.Hash.String(), URI: l.URI, MediaType: `application/vnd.oci.image.layer.v1.tar`, Headers: map[string][]string{}}
		if err := l.Init(ctx, &desc, bytes.NewReader(b)); err != nil {
			return err
		}
		r.inited = append(r.inited, l)
	}
	return nil
}

func (r *memRealizer) Close() error {
	for _, l := range r.inited {
		l.Close()
	}
	r.inited = nil
	return nil
}

// manifestOf registers the layers (each a file map) and returns the manifest.
func (a *memArena) manifestOf(layers ...map[string][]byte) *claircore.Manifest {
	m := &claircore.Manifest{}
	hh := sha256.New()
	for _, files := range layers {
		b := mkTar(files)
		sum := sha256.Sum256(b)
		d := "sha256:" + hex.EncodeToString(sum[:])
		a.mu.Lock()
		a.layers[d] = b
		a.mu.Unlock()
		hh.Write(sum[:])
		l := &claircore.Layer{URI: "http://layers.test/" + d, Headers: map[string][]string{}}
		l.Hash, _ = claircore.ParseDigest(d)
		m.Layers = append(m.Layers, l)
	}
	m.Hash, _ = claircore.ParseDigest("sha256:" + hex.EncodeToString(hh.Sum(nil)))
	return m
}

// worldConfig points every updater factory at the in-process world.
func worldConfig(v any) error {
	switch c := v.(type) {
	case *alpine.FactoryConfig:
		c.URL = "http://alpine.test/"
	case *debian.FactoryConfig:
		c.MirrorURL = "http://deb.test/"
		c.JSONURL = "http://deb.test/tracker/data/json"
	case *ubuntu.FactoryConfig:
		c.URL = "http://lp.test/1.0/"
	case *osv.FactoryConfig:
		c.URL = "http://osv.test/"
	case *suse.FactoryConfig:
		c.URL = "http://ftp.suse.test/pub/projects/security/oval/"
	}
	return nil
}

func (h *harness) sectionFull() {
	r := h.r
	ctx, cancel := context.WithTimeout(h.ctx, 4*time.Minute)
	defer cancel()
	defer func() {
		if ctx.Err() != nil {
			r.Fail("", "full: libindex / libvuln did not finish within four minutes (hang)")
		}
	}()
	fail := func(what string, err error) { r.Fail("", fmt.Sprintf("full: %s: %v", what, err)) }
	w := newWorld()
	apkP, debP, ubP, pyP, rbP, jvP := h.genPair("apk"), h.genPair("deb"), h.genPair("deb"), h.genPair("sem"), h.genPair("sem"), h.genPair("sem")
	// Maven coordinates group:artifact
	jvP.vulnBin, jvP.fixedBin = "org.verif."+jvP.vulnSrc+":"+jvP.vulnBin, "org.verif."+jvP.fixedSrc+":"+jvP.fixedBin
	aadv := map[string][]adv{}
	for _, e := range h.fx.Dirs["alpine"] {
		aadv[e.Release] = advSet("alpine", apkP, "alpine-"+e.Release, true)
	}
	w.alpineWorld(aadv)
	dadv := map[string][]adv{}
	for _, rel := range debianWorldReleases {
		dadv[rel.code] = advSet("debian", debP, fmt.Sprintf("debian-%d", rel.major), true)
	}
	dadv[debianWorldReleases[0].code] = append(dadv[debianWorldReleases[0].code], debianShared(debP))
	w.debianWorld(debianWorldReleases, dadv)
	var series []ubSeries
	uadv := map[string][]adv{}
	for _, s := range h.fx.UbuntuSeries {
		series = append(series, ubSeries{version: s[0], name: s[1], active: true})
		uadv[s[0]] = advSet("ubuntu", ubP, "ubuntu-"+s[0], false)
	}
	w.ubuntuWorld(series, uadv)
	// the rpm-based distributions: feeds for every release with a fixture image
	rpmP := h.genPair("rpm")
	padv := map[string][]adv{}
	for _, rel := range []string{"photon1", "photon2", "photon3"} {
		padv[rel] = advSet("photon", rpmP, "photon-"+rel, false)
	}
	w.photonWorld(padv)
	sfiles := map[string][]adv{}
	for _, n := range []string{"11", "12", "15", "77"} {
		sfiles["suse.linux.enterprise.server."+n+".xml.gz"] = advSet("suse", rpmP, "suse-"+n, false)
	}
	for _, n := range []string{"15.5", "15.6", "15.10"} {
		sfiles["opensuse.leap."+n+".xml.gz"] = advSet("suse", rpmP, "leap-"+n, false)
	}
	w.suseWorld(sfiles)
	w.awsWorld(map[string][]adv{"AL1": advSet("aws", rpmP, "aws-AL1", false), "AL2": advSet("aws", rpmP, "aws-AL2", false), "AL2023": advSet("aws", rpmP, "aws-AL2023", false)})
	var oadvs []adv
	for _, n := range []string{"5", "6", "7", "8", "9"} {
		for _, a := range advSet("oracle", rpmP, "oracle-"+n, false) {
			a.plats = []string{"Oracle Linux " + n}
			oadvs = append(oadvs, a)
		}
	}
	// a definition that names two releases reaches both
	oadvs = append(oadvs, adv{pkg: rpmP.vulnBin, fixed: rpmP.fixIn, id: "ADV-oracle-7+8", plats: []string{"Oracle Linux 7", "Oracle Linux 8"}})
	thisYear := time.Now().Year()
	oracleCfgs := w.oracleYearsWorld(map[int][]adv{2024: oadvs}, 2007, thisYear)
	exe, _ := os.Executable()
	var exeBytes []byte
	if exe != "" {
		exeBytes, _ = os.ReadFile(exe)
	}
	oadv := map[string][]osvAdv{
		"PyPI": {{id: "ADV-pypi-vuln", ecosystem: "PyPI", name: pyP.vulnBin, purl: "pkg:pypi/x", rangeType: "ECOSYSTEM", intro: "0", fixed: pyP.fixIn},
			// an advisory with two `affected` entries: another package first
			{id: "ADV-pypi-multi", ecosystem: "PyPI", name: pyP.vulnBin, purl: "pkg:pypi/x", rangeType: "ECOSYSTEM", intro: "0", fixed: pyP.fixIn, before: []advPkg{{"aaa-verif-other", pyP.fixIn}}},
			{id: "ADV-pypi-fixed", ecosystem: "PyPI", name: pyP.fixedBin, purl: "pkg:pypi/y", rangeType: "ECOSYSTEM", intro: "0", fixed: pyP.fixIn}},
		"RubyGems": {{id: "ADV-gem-vuln", ecosystem: "RubyGems", name: rbP.vulnBin, purl: "pkg:gem/x", rangeType: "ECOSYSTEM", intro: "0", fixed: rbP.fixIn},
			{id: "ADV-gem-fixed", ecosystem: "RubyGems", name: rbP.fixedBin, purl: "pkg:gem/y", rangeType: "ECOSYSTEM", intro: "0", fixed: rbP.fixIn}},
		"Maven": {{id: "ADV-maven-decoy", ecosystem: "Maven", name: pyP.vulnBin, purl: "pkg:maven/x", rangeType: "ECOSYSTEM", intro: "0", fixed: pyP.fixIn},
			{id: "ADV-maven-vuln", ecosystem: "Maven", name: jvP.vulnBin, purl: "pkg:maven/x", rangeType: "ECOSYSTEM", intro: "0", fixed: jvP.fixIn},
			{id: "ADV-maven-fixed", ecosystem: "Maven", name: jvP.fixedBin, purl: "pkg:maven/y", rangeType: "ECOSYSTEM", intro: "0", fixed: jvP.fixIn}},
	}
	var goVuln, goFixed *claircore.Package
	if exeBytes != nil {
		goVuln, goFixed = goDeps(ctx, exeBytes)
	}
	if goVuln != nil && goFixed != nil {
		oadv["Go"] = goAdvisories(goVuln, goFixed)
	}
	w.osvWorld([]string{"PyPI", "RubyGems", "Maven", "Go", "Debian:12", "Alpine:v3.18"}, oadv)
	// the default RHEL repository scanner fetches its mapping file when the indexer is constructed
	w.put("security.access.redhat.com/data/metrics/repository-to-cpe.json", 200, "application/json", []byte(`{"data":{}}`), "last-modified", "Mon, 01 Jan 2024 00:00:00 GMT")

	// ---- libvuln
	st := newFullStore()
	cfgs := map[string]driver.ConfigUnmarshaler{}
	for _, n := range []string{"alpine", "debian", "ubuntu", "osv", "photon", "suse"} {
		cfgs[n] = worldConfig
	}
	for n, c := range oracleCfgs {
		cfgs[n] = c
	}
	lv, err := libvuln.New(ctx, &libvuln.Options{
		Store: st, Locker: updates.NewLocalLockSource(), Client: w.client(),
		UpdaterSets:              []string{"alpine", "debian", "ubuntu", "osv", "photon", "suse", "aws", "oracle"},
		UpdaterConfigs:           cfgs,
		DisableBackgroundUpdates: true,
		UpdateRetention:          2,
	})
	if err != nil {
		fail("libvuln.New", err)
		return
	}
	defer lv.Close(ctx)
	if err := lv.FetchUpdates(ctx); err != nil {
		// updaters whose feed is not served fail; that is recorded per updater
		r.Count("full:fetch-updates-error")
	}
	st.umu.Lock()
	nUpd := len(st.byUpdater)
	var failed []string
	for n, e := range st.errs {
		failed = append(failed, n+": "+e.Error())
	}
	st.umu.Unlock()
	sort.Strings(failed)
	r.Count(fmt.Sprintf("full:updaters-stored~%d", nUpd/10*10))
	if len(failed) > 0 {
		r.Fail("", "full: updaters failed against the generated world: "+strings.Join(failed, "; "))
	}
	wantUpd := len(h.fx.Dirs["alpine"]) + 1 + len(h.fx.UbuntuSeries) + 4 + len(sfiles) + 3 + 3 + (thisYear - 2007 + 1)
	if nUpd < wantUpd {
		r.Fail("", fmt.Sprintf("full: only %d updaters stored advisories, expected at least %d (alpine per release, debian, ubuntu per series, osv x4, suse x7, photon x3, aws x3, oracle per year)", nUpd, wantUpd))
	}

	// ---- libindex
	ar := &memArena{layers: map[string][]byte{}}
	li, err := libindex.New(ctx, &libindex.Options{
		Store: memstore.New(), Locker: updates.NewLocalLockSource(), FetchArena: ar, LayerScanConcurrency: 2,
	}, w.client())
	if err != nil {
		fail("libindex.New", err)
		return
	}
	defer li.Close(ctx)

	var scanN func(eco, rel string, p pkgPair, want []string, layers ...map[string][]byte)
	scan := func(eco, rel string, p pkgPair, want string, layers ...map[string][]byte) {
		scanN(eco, rel, p, []string{want}, layers...)
	}
	scanN = func(eco, rel string, p pkgPair, wants []string, layers ...map[string][]byte) {
		if r.Stop() {
			return
		}
		wants = expandWants(wants)
		if eco == "debian" && rel == strconv.Itoa(debianWorldReleases[0].major) {
			wants = append(wants, "ADV-debian-shared")
		}
		sort.Strings(wants)
		want := strings.Join(wants, " ")
		key := fmt.Sprintf("full %s release=%s vuln=%s@%s fixed=%s@%s fixIn=%s layers=%d", eco, rel, p.vulnBin, p.vulnVer, p.fixedBin, p.fixedVer, p.fixIn, len(layers))
		r.Case(key, true)
		r.Count("full:" + eco)
		m := ar.manifestOf(layers...)
		ir, err := li.Index(ctx, m)
		if err != nil || ir == nil || !ir.Success {
			e := ""
			if ir != nil {
				e = ir.Err
			}
			r.Fail("", fmt.Sprintf("%s: libindex.Index failed: %v %s", key, err, e))
			return
		}
		vr, err := lv.Scan(ctx, ir)
		if st.sqlErr != nil {
			r.Fail("", "the SQL text of buildGetQuery is no longer of the known shape: "+st.sqlErr.Error())
			return
		}
		if err != nil {
			r.Fail("", key+": libvuln.Scan failed: "+err.Error())
			return
		}
		have := map[string]bool{}
		for _, pk := range ir.Packages {
			have[pk.Name] = true
		}
		if !have[p.vulnBin] || !have[p.fixedBin] {
			r.Fail("", key+": libindex did not find the generated packages in the image")
			return
		}
		gotV, gotF := reportedFor(vr, p.vulnBin), reportedFor(vr, p.fixedBin)
		if strings.Join(gotV, " ") != want {
			r.Fail("", fmt.Sprintf("%s: libvuln.Scan reports the vulnerable package %v, expected exactly [%s] (distributions: %s)", key, gotV, want, distsOf(ir)))
		}
		if len(gotF) != 0 {
			r.Fail("", fmt.Sprintf("%s: libvuln.Scan reports the fixed package %v, expected nothing", key, gotF))
		}
	}
	withFiles := func(fs [][2]string, extra map[string][]byte) map[string][]byte {
		out := map[string][]byte{}
		for _, f := range fs {
			out[f[0]] = []byte(f[1])
		}
		for k, v := range extra {
			out[k] = v
		}
		return out
	}
	split := func(i int) bool { return i%2 == 1 } // every other image: os-release in a base layer, packages in a second one
	for i, e := range h.fx.Dirs["alpine"] {
		db := map[string][]byte{"lib/apk/db/installed": apkDB(apkP)}
		if split(i) {
			scan("alpine", e.Release, apkP, "ADV-alpine-"+e.Release+"-vuln", withFiles(e.Files, nil), db)
		} else {
			scan("alpine", e.Release, apkP, "ADV-alpine-"+e.Release+"-vuln", withFiles(e.Files, db))
		}
	}
	dpkgFiles := func(p pkgPair, src bool) map[string][]byte {
		return map[string][]byte{"var/lib/dpkg/status": dpkgStatus(p, src),
			"var/lib/dpkg/info/" + p.vulnBin + ".md5sums":  []byte("d41d8cd98f00b204e9800998ecf8427e  usr/bin/x\n"),
			"var/lib/dpkg/info/" + p.fixedBin + ".md5sums": []byte("d41d8cd98f00b204e9800998ecf8427e  usr/bin/y\n")}
	}
	for i, e := range h.fx.Dirs["debian"] {
		if split(i) {
			scan("debian", e.Release, debP, "ADV-debian-"+e.Release+"-vuln", withFiles(e.Files, nil), dpkgFiles(debP, true))
		} else {
			scan("debian", e.Release, debP, "ADV-debian-"+e.Release+"-vuln", withFiles(e.Files, dpkgFiles(debP, true)))
		}
	}
	for i, s := range h.fx.UbuntuSeries {
		for _, e := range h.fx.Dirs["ubuntu"] {
			if e.Release != s[0] {
				continue
			}
			if split(i) {
				scan("ubuntu", s[0], ubP, "ADV-ubuntu-"+s[0]+"-vuln", withFiles(e.Files, nil), dpkgFiles(ubP, false))
			} else {
				scan("ubuntu", s[0], ubP, "ADV-ubuntu-"+s[0]+"-vuln", withFiles(e.Files, dpkgFiles(ubP, false)))
			}
		}
	}
	// rpm-based images: the fixture os-release / issue file of the release and
	// an rpm database (sqlite or ndb) written by the harness, through the real
	// rpm.Scanner and the distribution scanners of the rpm ecosystem
	{
		type rpmImg struct{ eco, rel, path, content, want string }
		var imgs []rpmImg
		byVar := func(d string) map[string]string {
			m := map[string]string{}
			for _, v := range h.fx.Vars[d] {
				m[v.Name] = v.Content
			}
			return m
		}
		for _, d := range []string{"aws", "oracle", "photon"} {
			vars := byVar(d)
			for _, e := range h.fx.Expected[d] {
				p := "etc/os-release"
				if strings.Contains(e[1], "Issue") {
					p = "etc/issue"
				}
				imgs = append(imgs, rpmImg{d, e[1], p, vars[e[1]], "ADV-" + d + "-" + e[0] + "-vuln"})
			}
		}
		sv := byVar("suse")
		imgs = append(imgs, rpmImg{"suse", "enterpriseServer12OSRelease", "etc/os-release", sv["enterpriseServer12OSRelease"], "ADV-suse-12-vuln"},
			rpmImg{"suse", "enterpriseServer15OSRelease", "etc/os-release", sv["enterpriseServer15OSRelease"], "ADV-suse-15-vuln"})
		for _, n := range []string{"15.5", "15.6"} {
			imgs = append(imgs, rpmImg{"suse", "leap" + n, "etc/os-release", strings.ReplaceAll(sv["leap151OSRelease"], "15.1", n), "ADV-leap-" + n + "-vuln"})
		}
		// generated files: the text each row of the scanner tables matches; SLES
		// majors and Leap versions beyond the fixtures
		for _, d := range []string{"aws", "oracle", "photon"} {
			for _, p := range h.samples[d] {
				path := "etc/os-release"
				if d == "oracle" {
					path = "etc/issue" // not of the KEY=value shape: libindex's os-release scanner rejects the layer otherwise
				}
				imgs = append(imgs, rpmImg{d, "generated:" + p[0], path, p[1] + "\n", "ADV-" + d + "-" + p[0] + "-vuln"})
			}
		}
		for _, n := range []string{"11", "77"} {
			imgs = append(imgs, rpmImg{"suse", "generated:" + n, "etc/os-release", string(suseELOsRelease(n)), "ADV-suse-" + n + "-vuln"})
		}
		imgs = append(imgs, rpmImg{"suse", "generated:leap15.10", "etc/os-release", string(suseLeapOsRelease("15.10")), "ADV-leap-15.10-vuln"})
		for i, im := range imgs {
			flavour := []string{"sqlite", "ndb"}[i%2]
			dbPath, db, err := rpmImageDB(rpmP, flavour, "")
			if err != nil {
				fail("writing an rpm database", err)
				break
			}
			want := []string{im.want}
			if im.eco == "oracle" {
				for _, e := range h.fx.Expected["oracle"] {
					if e[1] == im.rel && (e[0] == "7" || e[0] == "8") {
						want = append(want, "ADV-oracle-7+8")
					}
				}
				if im.rel == "generated:7" || im.rel == "generated:8" {
					want = append(want, "ADV-oracle-7+8")
				}
			}
			base := map[string][]byte{im.path: []byte(im.content)}
			if i%3 == 0 {
				scanN(im.eco+"-rpm-"+flavour, im.rel, rpmP, want, base, map[string][]byte{dbPath: db})
			} else {
				base[dbPath] = db
				scanN(im.eco+"-rpm-"+flavour, im.rel, rpmP, want, base)
			}
		}
	}
	meta := func(n, v string) []byte {
		return []byte("Metadata-Version: 2.1\nName: " + n + "\nVersion: " + v + "\nSummary: generated\n\nbody\n")
	}
	scanN("python", "pypi", pyP, []string{"ADV-pypi-vuln", "ADV-pypi-multi"}, map[string][]byte{
		"usr/local/lib/python3.11/site-packages/" + pyP.vulnBin + "-" + pyP.vulnVer + ".dist-info/METADATA":   meta(pyP.vulnBin, pyP.vulnVer),
		"usr/local/lib/python3.11/site-packages/" + pyP.fixedBin + "-" + pyP.fixedVer + ".dist-info/METADATA": meta(pyP.fixedBin, pyP.fixedVer)})
	spec := func(n, v string) []byte {
		return []byte("# -*- encoding: utf-8 -*-\nGem::Specification.new do |s|\n  s.name = \"" + n + "\".freeze\n  s.version = \"" + v + "\"\n  s.summary = \"generated\"\nend\n")
	}
	scan("ruby", "rubygems", rbP, "ADV-gem-vuln", map[string][]byte{
		"usr/local/bundle/specifications/" + rbP.vulnBin + "-" + rbP.vulnVer + ".gemspec":   spec(rbP.vulnBin, rbP.vulnVer),
		"usr/local/bundle/specifications/" + rbP.fixedBin + "-" + rbP.fixedVer + ".gemspec": spec(rbP.fixedBin, rbP.fixedVer)})
	scan("java", "maven", jvP, "ADV-maven-vuln", map[string][]byte{
		"opt/app/lib/" + jvArt(jvP.vulnBin) + "-" + jvP.vulnVer + ".jar":   mkJar(jvP.vulnBin, jvP.vulnVer),
		"opt/app/lib/" + jvArt(jvP.fixedBin) + "-" + jvP.fixedVer + ".jar": mkJar(jvP.fixedBin, jvP.fixedVer)})
	if goVuln != nil && goFixed != nil {
		gp := pkgPair{vulnBin: goVuln.Name, fixedBin: goFixed.Name, vulnVer: goVuln.Version, fixedVer: goFixed.Version, fixIn: "next major / same"}
		scan("gobin", goVuln.Name, gp, "ADV-go-vuln", map[string][]byte{"usr/local/bin/app": exeBytes})
	}
}

func jvArt(coord string) string {
	if i := strings.IndexByte(coord, ':'); i >= 0 {
		return coord[i+1:]
	}
	return coord
}

// mkJar builds a jar whose identity is in META-INF/maven/<group>/<artifact>/pom.properties.
func mkJar(coord, version string) []byte {
	group, art, _ := strings.Cut(coord, ":")
	var buf bytes.Buffer
	zw := zip.NewWriter(&buf)
	f, _ := zw.Create("META-INF/MANIFEST.MF")
	f.Write([]byte("Manifest-Version: 1.0\r\nCreated-By: verif\r\n\r\n"))
	f, _ = zw.Create("META-INF/maven/" + group + "/" + art + "/pom.properties")
	f.Write([]byte("#Generated\ngroupId=" + group + "\nartifactId=" + art + "\nversion=" + version + "\n"))
	f, _ = zw.Create("org/verif/A.class")
	f.Write([]byte{0xca, 0xfe, 0xba, 0xbe})
	zw.Close()
	return buf.Bytes()
}
