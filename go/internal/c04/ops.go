package c04

// Protocol ops: the op line fed to the Lean driver and the answer of the REAL
// code.  Byte strings travel as hex ("-" = empty); "~" = absent.
//
//   osr <file>                       osrelease.Parse
//   scan <distro> <f1> <f2>          the distribution scanner on a layer with these files
//   upd <kind> <args…>               the Distribution the updater of a release stamps
//   query <matcher>                  Name(), Query(), optional constraints, VersionFilter flags
//   filter <matcher> <rec>           Matcher.Filter
//   join <cs> <vf> <inrange> <rec> <row>     buildGetQuery(rec, {cs, vf}) evaluated on the row
//   match <matcher> <opt> <inrange> <vulnerable> <rec> <row>   internal/matcher.Controller.Match
//   osvrepo <line>                   the Repository on advisories of the OSV updater of an ecosystems.txt line
//   osvpkg <eco> <name> <purl>       name and Kind of the package of an OSV advisory

import (
	"context"
	"encoding/hex"
	"fmt"
	"sort"
	"strings"

	"github.com/quay/claircore"
	"github.com/quay/claircore/alpine"
	"github.com/quay/claircore/aws"
	"github.com/quay/claircore/datastore"
	"github.com/quay/claircore/datastore/postgres"
	"github.com/quay/claircore/debian"
	"github.com/quay/claircore/gobin"
	"github.com/quay/claircore/internal/matcher"
	"github.com/quay/claircore/java"
	"github.com/quay/claircore/libvuln/driver"
	"github.com/quay/claircore/nodejs"
	"github.com/quay/claircore/oracle"
	"github.com/quay/claircore/osrelease"
	"github.com/quay/claircore/photon"
	"github.com/quay/claircore/python"
	"github.com/quay/claircore/rhel"
	"github.com/quay/claircore/rhel/rhcc"
	"github.com/quay/claircore/ruby"
	"github.com/quay/claircore/suse"
	"github.com/quay/claircore/toolkit/types/cpe"
	"github.com/quay/claircore/ubuntu"
	"github.com/quay/claircore/verifharness/internal/hx"
)

func hs(s string) string {
	if s == "" {
		return "-"
	}
	return hex.EncodeToString([]byte(s))
}

func fileTok(b []byte, present bool) string {
	if !present {
		return "~"
	}
	return hs(string(b))
}

// constraintNames maps the constants to their Go identifiers.
var constraintNames = map[driver.MatchConstraint]string{
	driver.PackageSourceName:           "PackageSourceName",
	driver.PackageName:                 "PackageName",
	driver.PackageModule:               "PackageModule",
	driver.DistributionDID:             "DistributionDID",
	driver.DistributionName:            "DistributionName",
	driver.DistributionVersion:         "DistributionVersion",
	driver.DistributionVersionCodeName: "DistributionVersionCodeName",
	driver.DistributionVersionID:       "DistributionVersionID",
	driver.DistributionArch:            "DistributionArch",
	driver.DistributionCPE:             "DistributionCPE",
	driver.DistributionPrettyName:      "DistributionPrettyName",
	driver.RepositoryName:              "RepositoryName",
	driver.RepositoryKey:               "RepositoryKey",
	driver.HasFixedInVersion:           "HasFixedInVersion",
}

func constraintByName(n string) driver.MatchConstraint {
	for c, s := range constraintNames {
		if s == n {
			return c
		}
	}
	return driver.MatchConstraint(99) // "Bogus…": not a declared constant
}

func cname(c driver.MatchConstraint) string {
	if s, ok := constraintNames[c]; ok {
		return s
	}
	return "Unknown"
}

// realMatchers: package directory -> matcher (rhel twice: with and without ignoreUnpatched).
func realMatchers(ctx context.Context) (map[string]driver.Matcher, driver.Matcher) {
	rf := &rhel.MatcherFactory{}
	rms, _ := rf.Matcher(ctx)
	rf2 := &rhel.MatcherFactory{}
	rf2.Configure(ctx, func(v any) error {
		if c, ok := v.(*rhel.MatcherFactoryConfig); ok {
			c.IgnoreUnpatched = true
		}
		return nil
	}, nil)
	rms2, _ := rf2.Matcher(ctx)
	return map[string]driver.Matcher{
		"alpine": &alpine.Matcher{}, "aws": &aws.Matcher{}, "debian": &debian.Matcher{}, "gobin": &gobin.Matcher{},
		"java": &java.Matcher{}, "nodejs": &nodejs.Matcher{}, "oracle": &oracle.Matcher{}, "photon": &photon.Matcher{},
		"python": &python.Matcher{}, "rhel": rms[0], "rhel/rhcc": rhcc.Matcher, "ruby": &ruby.Matcher{},
		"suse": &suse.Matcher{}, "ubuntu": &ubuntu.Matcher{},
	}, rms2[0]
}

// ---- records and rows ----

// recT is an IndexRecord of the protocol.
type recT struct {
	pn, pk, pm, pa string
	src            bool
	sn, sk         string
	nk             string
	nv             [10]int32
	ver            string
	hasDist        bool
	d              distT
	hasRepo        bool
	rname, rkey    string
	ruri           string
}

type distT struct{ did, name, ver, code, vid, arch, cpe, pretty string }

func (d distT) toks() string {
	return strings.Join([]string{hs(d.did), hs(d.name), hs(d.ver), hs(d.code), hs(d.vid), hs(d.arch), hs(d.cpe), hs(d.pretty)}, " ")
}

func (d distT) real() *claircore.Distribution {
	out := &claircore.Distribution{DID: d.did, Name: d.name, Version: d.ver, VersionCodeName: d.code, VersionID: d.vid, Arch: d.arch, PrettyName: d.pretty}
	if d.cpe != "" {
		out.CPE = cpe.MustUnbind(d.cpe)
	}
	return out
}

func fromDist(d *claircore.Distribution) distT {
	out := distT{did: d.DID, name: d.Name, ver: d.Version, code: d.VersionCodeName, vid: d.VersionID, arch: d.Arch, pretty: d.PrettyName}
	if v, err := (&d.CPE).Value(); err == nil {
		if s, ok := v.(string); ok {
			out.cpe = s
		}
	}
	return out
}

func flag(b bool, y, n string) string {
	if b {
		return y
	}
	return n
}

func (r recT) toks() string {
	return strings.Join([]string{hs(r.pn), hs(r.pk), hs(r.pm), hs(r.pa), flag(r.src, "S", "N"), hs(r.sn), hs(r.sk), hs(r.nk),
		flag(r.hasDist, "D", "N"), r.d.toks(), flag(r.hasRepo, "R", "N"), hs(r.rname), hs(r.rkey), hs(r.ruri)}, " ")
}

func (r recT) real() *claircore.IndexRecord {
	rec := &claircore.IndexRecord{Package: &claircore.Package{ID: "p1", Name: r.pn, Kind: r.pk, Module: r.pm, Arch: r.pa, Version: r.ver,
		NormalizedVersion: claircore.Version{Kind: r.nk, V: r.nv}}}
	if r.src {
		rec.Package.Source = &claircore.Package{Name: r.sn, Kind: r.sk}
	}
	if r.hasDist {
		rec.Distribution = r.d.real()
	}
	if r.hasRepo {
		rec.Repository = &claircore.Repository{Name: r.rname, Key: r.rkey, URI: r.ruri}
		if r.rkey == "rhel-cpe-repository" {
			if w, err := cpe.Unbind(r.rname); err == nil {
				rec.Repository.CPE = w
			}
		}
	}
	return rec
}

// rowT is a stored advisory of the protocol.
type rowT struct {
	vn, vk, vm, va    string
	d                 distT
	rname, rkey, ruri string
	fixed             string
	hasKind           bool
	vkind             string
	lower, upper      [10]int32
}

func (v rowT) toks() string {
	return strings.Join([]string{hs(v.vn), hs(v.vk), hs(v.vm), hs(v.va), v.d.toks(), hs(v.rname), hs(v.rkey), hs(v.ruri), hs(v.fixed),
		flag(v.hasKind, "K", "N"), hs(v.vkind)}, " ")
}

func (v rowT) real() *claircore.Vulnerability {
	out := &claircore.Vulnerability{Name: "ADV", Updater: "u", FixedInVersion: v.fixed,
		Package: &claircore.Package{Name: v.vn, Kind: v.vk, Module: v.vm, Arch: v.va},
		Dist:    v.d.real(), Repo: &claircore.Repository{Name: v.rname, Key: v.rkey, URI: v.ruri}}
	if v.hasKind {
		out.Range = &claircore.Range{Lower: claircore.Version{Kind: v.vkind, V: v.lower}, Upper: claircore.Version{Kind: v.vkind, V: v.upper}}
	}
	return out
}

func inRange(r recT, v rowT) bool {
	return v.hasKind && cmp10(v.lower, r.nv) <= 0 && cmp10(r.nv, v.upper) < 0
}

// ---- ops ----

func b2i(b bool) string {
	if b {
		return "1"
	}
	return "0"
}

func opOsr(ctx context.Context, r *hx.Run, b []byte) {
	out := hx.Guard(func() string {
		m, err := osrelease.Parse(ctx, strings.NewReader(string(b)))
		if err != nil {
			return "err"
		}
		var ks []string
		for k := range m {
			ks = append(ks, k)
		}
		sort.Strings(ks)
		var ps []string
		for _, k := range ks {
			ps = append(ps, hs(k)+"="+hs(m[k]))
		}
		return "ok " + strings.Join(ps, ",")
	})
	r.Op("osr "+hs(string(b)), out, out != "err" && out != "ok ")
	r.Count("osr:" + strings.SplitN(out, " ", 2)[0])
}

// opScan runs the distribution scanner of a distro on a layer holding f1 at
// path p1 and f2 at p2 (absent when the flag is false).
func opScan(ctx context.Context, r *hx.Run, distro string, p1 string, f1 []byte, has1 bool, p2 string, f2 []byte, has2 bool) (string, *claircore.Distribution) {
	files := map[string][]byte{"etc/hostname": []byte("x\n")}
	if has1 {
		files[p1] = f1
	}
	if has2 {
		files[p2] = f2
	}
	var got *claircore.Distribution
	out := hx.Guard(func() string {
		ds, err := scanDist(ctx, distro, files)
		if err != nil {
			return "err"
		}
		if len(ds) == 0 {
			return "none"
		}
		got = ds[0]
		return distLine(ds[0])
	})
	r.Op("scan "+distro+" "+fileTok(f1, has1)+" "+fileTok(f2, has2), out, strings.HasPrefix(out, "dist"))
	r.Count("scan:" + distro + ":" + strings.SplitN(out, " ", 2)[0])
	return out, got
}

func opUpd(r *hx.Run, args string, d *claircore.Distribution) {
	out := "none"
	if d != nil {
		out = distLine(d)
	}
	r.Op("upd "+args, out, d != nil)
	r.Count("upd:" + strings.SplitN(args, " ", 2)[0])
}

func opQuery(r *hx.Run, name string, m driver.Matcher, opt driver.Matcher) {
	var q []string
	for _, c := range m.Query() {
		q = append(q, cname(c))
	}
	var o []string
	if opt != nil {
		oq := opt.Query()
		for _, c := range oq[len(m.Query()):] {
			o = append(o, cname(c))
		}
	}
	vf, auth := false, false
	if f, ok := m.(driver.VersionFilter); ok {
		vf, auth = true, f.VersionAuthoritative()
	}
	out := "name=" + hs(m.Name()) + " Q:" + strings.Join(q, ",") + " O:" + strings.Join(o, ",") + " VF:" + flag(vf, "true", "false") + " A:" + flag(auth, "true", "false")
	r.Op("query "+name, out, true)
}

func opFilter(r *hx.Run, name string, m driver.Matcher, rec recT) string {
	out := hx.Guard(func() string {
		return flag(m.Filter(rec.real()), "true", "false")
	})
	r.Op("filter "+name+" "+rec.toks(), out, out == "true")
	r.Count("filter:" + out)
	return out
}

// opJoin: the real buildGetQuery for the record, evaluated on the row.
func opJoin(r *hx.Run, cs []string, vf bool, rec recT, row rowT) string {
	var ms []driver.MatchConstraint
	for _, c := range cs {
		ms = append(ms, constraintByName(c))
	}
	ir := inRange(rec, row)
	if row.vn == "" {
		return "" // updateVulnerabilities stores no row for a vulnerability without a package name
	}
	out := hx.Guard(func() string {
		q, err := postgres.BuildGetQueryForVerif(rec.real(), &datastore.GetOpts{Matchers: ms, VersionFiltering: vf})
		if err != nil {
			return "err"
		}
		rw, ok := mkRow(1, row.real())
		if !ok {
			return "norow"
		}
		h, err := whereHolds(q, rw)
		if err != nil {
			r.Fail("", "the SQL text of buildGetQuery is no longer of the known shape: "+err.Error()+": "+q)
			return "sql?"
		}
		return flag(h, "true", "false")
	})
	cl := strings.Join(cs, ",")
	if cl == "" {
		cl = "-"
	}
	r.Op("join "+cl+" "+b2i(vf)+" "+b2i(ir)+" "+rec.toks()+" "+row.toks(), out, out == "true")
	r.Count("join:" + out)
	return out
}

// opMatch: the real Controller on one record and a store holding one row.
func opMatch(ctx context.Context, r *hx.Run, name string, m driver.Matcher, opt bool, rec recT, row rowT) string {
	ir := inRange(rec, row)
	st := &memStore{}
	st.add(row.real())
	if len(st.rows) != 1 {
		return ""
	}
	stored := st.rows[0].vuln
	real := rec.real()
	vul := hx.Guard(func() string {
		cp := *stored
		b, err := m.Vulnerable(ctx, real, &cp)
		if err != nil {
			return "err"
		}
		return b2i(b)
	})
	if vul != "0" && vul != "1" {
		return "" // version strings the matcher cannot parse: not a join question
	}
	out := hx.Guard(func() string {
		res, err := matcher.NewController(m, st).Match(ctx, []*claircore.IndexRecord{real})
		if err != nil {
			return "err"
		}
		for _, v := range res[real.Package.ID] {
			if v.ID == stored.ID {
				return "reported true"
			}
		}
		return "no"
	})
	if st.sqlErr != nil {
		r.Fail("", "the SQL text of buildGetQuery is no longer of the known shape: "+st.sqlErr.Error())
	}
	r.Op("match "+name+" "+b2i(opt)+" "+b2i(ir)+" "+vul+" "+rec.toks()+" "+row.toks(), out, out == "reported true")
	r.Count("match:" + out)
	return out
}

// opMatchN: the real Controller on SEVERAL records of one package (same
// Package.ID; they differ in distribution / repository, as the records of a
// package indexed under several repositories or environments do) and a store
// holding one row.
func opMatchN(ctx context.Context, r *hx.Run, name string, m driver.Matcher, opt bool, recs []recT, row rowT) string {
	st := &memStore{}
	st.add(row.real())
	if len(st.rows) != 1 || len(recs) == 0 {
		return ""
	}
	stored := st.rows[0].vuln
	var reals []*claircore.IndexRecord
	var toks []string
	for _, rec := range recs {
		real := rec.real()
		vul := hx.Guard(func() string {
			cp := *stored
			b, err := m.Vulnerable(ctx, real, &cp)
			if err != nil {
				return "err"
			}
			return b2i(b)
		})
		if vul != "0" && vul != "1" {
			return ""
		}
		reals = append(reals, real)
		toks = append(toks, b2i(inRange(rec, row))+" "+vul+" "+rec.toks())
	}
	out := hx.Guard(func() string {
		res, err := matcher.NewController(m, st).Match(ctx, reals)
		if err != nil {
			return "err"
		}
		for _, v := range res[reals[0].Package.ID] {
			if v.ID == stored.ID {
				return "reported true"
			}
		}
		return "no"
	})
	if st.sqlErr != nil {
		r.Fail("", "the SQL text of buildGetQuery is no longer of the known shape: "+st.sqlErr.Error())
	}
	r.Op(fmt.Sprintf("matchn %s %s %d %s %s", name, b2i(opt), len(recs), strings.Join(toks, " "), row.toks()), out, out == "reported true")
	r.Count("matchn:" + out)
	return out
}
