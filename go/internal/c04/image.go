package c04

// Building image layers (tar archives) and running the REAL scanners on them.

import (
	"archive/tar"
	"bytes"
	"context"
	"crypto/sha256"
	"encoding/hex"
	"path"
	"sort"
	"strings"
	"time"

	"github.com/quay/claircore"
	"github.com/quay/claircore/alpine"
	"github.com/quay/claircore/aws"
	"github.com/quay/claircore/debian"
	"github.com/quay/claircore/indexer"
	"github.com/quay/claircore/oracle"
	"github.com/quay/claircore/photon"
	"github.com/quay/claircore/suse"
	"github.com/quay/claircore/ubuntu"
)

// mkTar renders files (path -> content) as a tar archive with their parent
// directories.
func mkTar(files map[string][]byte) []byte {
	var buf bytes.Buffer
	tw := tar.NewWriter(&buf)
	dirs := map[string]bool{}
	var names []string
	for n := range files {
		names = append(names, n)
		for d := path.Dir(n); d != "." && d != "/"; d = path.Dir(d) {
			dirs[d] = true
		}
	}
	var ds []string
	for d := range dirs {
		ds = append(ds, d)
	}
	sort.Strings(ds)
	sort.Strings(names)
	mt := time.Unix(1700000000, 0)
	for _, d := range ds {
		tw.WriteHeader(&tar.Header{Typeflag: tar.TypeDir, Name: d + "/", Mode: 0o755, ModTime: mt})
	}
	for _, n := range names {
		tw.WriteHeader(&tar.Header{Typeflag: tar.TypeReg, Name: n, Mode: 0o644, Size: int64(len(files[n])), ModTime: mt})
		tw.Write(files[n])
	}
	tw.Close()
	return buf.Bytes()
}

// mkLayer makes an initialised claircore.Layer over an in-memory tar.
func mkLayer(ctx context.Context, files map[string][]byte) (*claircore.Layer, error) {
	b := mkTar(files)
	sum := sha256.Sum256(b)
	l := &claircore.Layer{}
	desc := &claircore.LayerDescription{
		Digest:    "sha256:" + hex.EncodeToString(sum[:]),
		MediaType: `application/vnd.oci.image.layer.v1.tar`,
	}
	if err := l.Init(ctx, desc, bytes.NewReader(b)); err != nil {
		return nil, err
	}
	return l, nil
}

func distScanner(distro string) indexer.DistributionScanner {
	switch distro {
	case "alpine":
		return &alpine.DistributionScanner{}
	case "debian":
		return &debian.DistributionScanner{}
	case "ubuntu":
		return &ubuntu.DistributionScanner{}
	case "aws":
		return &aws.DistributionScanner{}
	case "oracle":
		return &oracle.DistributionScanner{}
	case "photon":
		return &photon.DistributionScanner{}
	case "suse":
		return &suse.DistributionScanner{}
	}
	return nil
}

// scanDist runs the distribution scanner of a distro on a layer with the
// given files.  Result: the distributions, or an error.
func scanDist(ctx context.Context, distro string, files map[string][]byte) ([]*claircore.Distribution, error) {
	l, err := mkLayer(ctx, files)
	if err != nil {
		return nil, err
	}
	defer l.Close()
	return distScanner(distro).Scan(ctx, l)
}

func isASCII(b []byte) bool {
	for _, c := range b {
		if c >= 0x80 {
			return false
		}
	}
	return true
}

func distLine(d *claircore.Distribution) string {
	return strings.Join([]string{"dist", hs(d.DID), hs(d.Name), hs(d.Version), hs(d.VersionCodeName), hs(d.VersionID), hs(d.Arch), hs(d.PrettyName)}, " ")
}
